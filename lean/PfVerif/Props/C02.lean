/-
  C02 — Hedges are non-anticipative and never trade at maturity.

  Model: Model/Hedger.lean (features/features.py, OptionMixin, Hedger.compute_hedge for one
  path) instantiated at ℝ.  `PfVerif.C02Aux` holds helper lemmas about lists and about the model
  functions that do not mention the agreement relation; `PfVerif.C02` holds the property
  theorems.
-/
import PfVerif.Model.Hedger
import PfVerif.Lemmas.ListR
import PfVerif.Lemmas.Gauss

namespace PfVerif.C02Aux
open PfVerif

/-! ### generic list / `Except` facts -/

theorem bind_ok {ε β γ : Type} {x : Except ε β} {f : β → Except ε γ} {c : γ}
    (h : (x >>= f) = .ok c) : ∃ a, x = .ok a ∧ f a = .ok c := by
  cases x with
  | error e => simp [bind, Except.bind] at h
  | ok a => exact ⟨a, rfl, h⟩

theorem pure_ok {ε β : Type} {a b : β} (h : (pure a : Except ε β) = .ok b) : a = b := by
  simpa [pure, Except.pure] using h

theorem take_mono {β : Type} {xs ys : List β} {j k : ℕ} (h : xs.take k = ys.take k)
    (hj : j ≤ k) : xs.take j = ys.take j := by
  have := congrArg (List.take j) h
  simpa [List.take_take, Nat.min_eq_left hj] using this

theorem getElem?_of_take_eq {β : Type} {xs ys : List β} {k i : ℕ}
    (h : xs.take k = ys.take k) (hi : i < k) : xs[i]? = ys[i]? := by
  have := congrArg (fun l : List β => l[i]?) h
  simpa [List.getElem?_take, hi] using this

theorem take_zip {β γ : Type} (xs : List β) (ys : List γ) (k : ℕ) :
    (List.zip xs ys).take k = List.zip (xs.take k) (ys.take k) := by
  simp only [List.zip, List.take_zipWith]

theorem cummax_go_take (m : ℝ) (xs : List ℝ) (k : ℕ) :
    (cummaxL.go m xs).take k = cummaxL.go m (xs.take k) := by
  induction xs generalizing m k with
  | nil => simp [cummaxL.go]
  | cons y ys ih =>
    cases k with
    | zero => simp [cummaxL.go]
    | succ k => simp [cummaxL.go, ih]

/-- `cummax` of a prefix is the prefix of `cummax` -/
theorem cummaxL_take (xs : List ℝ) (k : ℕ) : (cummaxL xs).take k = cummaxL (xs.take k) := by
  cases xs with
  | nil => simp [cummaxL]
  | cons x xs =>
    cases k with
    | zero => simp [cummaxL]
    | succ k => simp [cummaxL, cummax_go_take]

theorem cummin_go_take (m : ℝ) (xs : List ℝ) (k : ℕ) :
    (cumminL.go m xs).take k = cumminL.go m (xs.take k) := by
  induction xs generalizing m k with
  | nil => simp [cumminL.go]
  | cons y ys ih =>
    cases k with
    | zero => simp [cumminL.go]
    | succ k => simp [cumminL.go, ih]

/-- `cummin` of a prefix is the prefix of `cummin` -/
theorem cumminL_take (xs : List ℝ) (k : ℕ) : (cumminL xs).take k = cumminL (xs.take k) := by
  cases xs with
  | nil => simp [cumminL]
  | cons x xs =>
    cases k with
    | zero => simp [cumminL]
    | succ k => simp [cumminL, cummin_go_take]

/-- one `torch.cat(dim=-1)` step preserves equal prefixes of rows -/
theorem zipAppend_take {a a' b b' : List (List ℝ)} {k : ℕ} (ha : a.take k = a'.take k)
    (hb : b.take k = b'.take k) :
    (List.zipWith (· ++ ·) a b).take k = (List.zipWith (· ++ ·) a' b').take k := by
  rw [List.take_zipWith, List.take_zipWith, ha, hb]

/-! ### `lastL`, `appendLast`, `dupLast` -/

theorem lastL_some {β : Type} : ∀ (xs : List β) (l : β), lastL xs = some l → ∃ rest, xs = rest ++ [l]
  | [], l, h => by simp [lastL] at h
  | [x], l, h => by
      simp only [lastL, Option.some.injEq] at h
      exact ⟨[], by simp [h]⟩
  | x :: y :: rest, l, h => by
      simp only [lastL] at h
      obtain ⟨r, hr⟩ := lastL_some (y :: rest) l h
      exact ⟨x :: r, by rw [hr]; rfl⟩

theorem appendLast_ok {β : Type} {xs r : List β} (h : appendLast xs = .ok r) :
    ∃ rest l, xs = rest ++ [l] ∧ r = rest ++ [l, l] := by
  unfold appendLast at h
  split at h
  · simp at h
  · rename_i l hl
    obtain ⟨rest, hr⟩ := lastL_some xs l hl
    refine ⟨rest, l, hr, ?_⟩
    simp only [Except.ok.injEq] at h
    rw [← h, hr]; simp

theorem dupLast_ok {β : Type} : ∀ (ys r : List β), dupLast ys = .ok r →
    ∃ rest x y, ys = rest ++ [x, y] ∧ r = rest ++ [x, x]
  | [], r, h => by simp [dupLast] at h
  | [_], r, h => by simp [dupLast] at h
  | [x, y], r, h => by
      simp only [dupLast, Except.ok.injEq] at h
      exact ⟨[], x, y, rfl, by simp [← h]⟩
  | x :: y :: z :: rest, r, h => by
      simp only [dupLast] at h
      obtain ⟨r', hr', hp⟩ := bind_ok h
      obtain ⟨rest', a, b, h1, h2⟩ := dupLast_ok _ _ hr'
      have hp := pure_ok hp
      exact ⟨x :: rest', a, b, by rw [h1]; rfl, by rw [← hp, h2]; rfl⟩

theorem dupLast_length {β : Type} {ys r : List β} (h : dupLast ys = .ok r) :
    r.length = ys.length ∧ 2 ≤ ys.length := by
  obtain ⟨rest, x, y, h1, h2⟩ := dupLast_ok _ _ h
  subst h1 h2; simp

/-- `dupLast` only touches the last row -/
theorem dupLast_take {β : Type} {ys r : List β} {k : ℕ} (h : dupLast ys = .ok r)
    (hk : k + 1 ≤ ys.length) : r.take k = ys.take k := by
  obtain ⟨rest, x, y, h1, h2⟩ := dupLast_ok _ _ h
  subst h1 h2
  have hk' : k ≤ (rest ++ [x]).length := by simp at hk ⊢; omega
  have e1 : rest ++ [x, x] = (rest ++ [x]) ++ [x] := by simp
  have e2 : rest ++ [x, y] = (rest ++ [x]) ++ [y] := by simp
  rw [e1, e2, List.take_append_of_le_length hk', List.take_append_of_le_length hk']

/-- the result of `dupLast` is determined by all rows but the last -/
theorem dupLast_congr {β : Type} {ys ys' r r' : List β} {k : ℕ} (hl : ys.length = ys'.length)
    (hk : ys.length ≤ k + 1) (ht : ys.take k = ys'.take k)
    (h1 : dupLast ys = .ok r) (h2 : dupLast ys' = .ok r') : r = r' := by
  obtain ⟨rest, x, y, e1, e2⟩ := dupLast_ok _ _ h1
  obtain ⟨rest', x', y', e1', e2'⟩ := dupLast_ok _ _ h2
  subst e1 e2 e1' e2'
  have hlen : rest.length = rest'.length := by simp at hl; omega
  have ht' := take_mono ht (by simp at hk; omega : rest.length + 1 ≤ k)
  have e3 : (rest ++ [x, y]).take (rest.length + 1) = rest ++ [x] := by
    have : rest ++ [x, y] = (rest ++ [x]) ++ [y] := by simp
    rw [this, List.take_append_of_le_length (by simp)]
    exact List.take_of_length_le (by simp)
  have e4 : (rest' ++ [x', y']).take (rest.length + 1) = rest' ++ [x'] := by
    have : rest' ++ [x', y'] = (rest' ++ [x']) ++ [y'] := by simp
    rw [this, hlen, List.take_append_of_le_length (by simp)]
    exact List.take_of_length_le (by simp)
  rw [e3, e4] at ht'
  obtain ⟨hr, hx⟩ := List.append_inj' ht' rfl
  simp only [List.cons.injEq, and_true] at hx
  rw [hr, hx]

/-! ### shapes of the model's evaluators -/

theorem hedgeLoop_length (g : List ℝ → List ℝ) (fs : List (Feature ℝ)) (m : Market ℝ) :
    ∀ (k j : ℕ) (prev : List ℝ) (outs : List (List ℝ)),
      hedgeLoop g fs m k j prev = .ok outs → outs.length = k := by
  intro k
  induction k with
  | zero => intro j prev outs h; simp only [hedgeLoop, Except.ok.injEq] at h; simp [← h]
  | succ k ih =>
    intro j prev outs h
    simp only [hedgeLoop] at h
    obtain ⟨x, _, h⟩ := bind_ok h
    obtain ⟨rest, hrest, h⟩ := bind_ok h
    have h := pure_ok h
    rw [← h, List.length_cons, ih _ _ _ hrest]

/-- the first `a` steps of a successful `(a + b)`-step loop are the `a`-step loop -/
theorem hedgeLoop_take (g : List ℝ → List ℝ) (fs : List (Feature ℝ)) (m : Market ℝ) :
    ∀ (a b j : ℕ) (prev : List ℝ) (outs : List (List ℝ)),
      hedgeLoop g fs m (a + b) j prev = .ok outs →
      hedgeLoop g fs m a j prev = .ok (outs.take a) := by
  intro a
  induction a with
  | zero => intro b j prev outs _; simp [hedgeLoop]
  | succ a ih =>
    intro b j prev outs h
    have e : a + 1 + b = (a + b) + 1 := by omega
    rw [e] at h
    simp only [hedgeLoop] at h ⊢
    obtain ⟨x, hx, h⟩ := bind_ok h
    obtain ⟨rest, hrest, h⟩ := bind_ok h
    have h := pure_ok h
    rw [hx]
    simp only [bind, Except.bind]
    rw [ih b (j + 1) (g x) rest hrest, ← h]
    simp [pure, Except.pure]

theorem catAll_length (n : ℕ) (ins : List (BaseFeature ℝ)) (m : Market ℝ) :
    ∀ rows, catAll n ins m = .ok rows → rows.length = n := by
  induction ins with
  | nil => intro rows h; simp only [catAll, Except.ok.injEq] at h; simp [← h]
  | cons f rest ih =>
    intro rows h
    simp only [catAll] at h
    obtain ⟨a, _, h⟩ := bind_ok h
    obtain ⟨b, hb, h⟩ := bind_ok h
    split at h
    · simp at h
    · rename_i hlen
      have h := pure_ok h
      have hlen : a.length = n := by simpa using hlen
      rw [← h, List.length_zipWith, hlen, ih b hb]; simp

theorem inputsAll_length (n : ℕ) (fs : List (Feature ℝ)) (m : Market ℝ) :
    ∀ rows, inputsAll n fs m = .ok rows → rows.length = n := by
  induction fs with
  | nil => intro rows h; simp only [inputsAll, Except.ok.injEq] at h; simp [← h]
  | cons f rest ih =>
    intro rows h
    simp only [inputsAll] at h
    obtain ⟨a, _, h⟩ := bind_ok h
    obtain ⟨b, hb, h⟩ := bind_ok h
    split at h
    · simp at h
    · rename_i hlen
      have h := pure_ok h
      have hlen : a.length = n := by simpa using hlen
      rw [← h, List.length_zipWith, hlen, ih b hb]; simp

end PfVerif.C02Aux

namespace PfVerif.C02
open PfVerif PfVerif.C02Aux

/-- Two markets carry the same information up to and including step `i`: same `dt` and strike,
and each of the five series has the same length and the same first `i+1` entries. -/
def Agree (i : ℕ) (m m' : Market ℝ) : Prop :=
  m.dt = m'.dt ∧ m.strike = m'.strike ∧
  (m.spot.length = m'.spot.length ∧ m.spot.take (i + 1) = m'.spot.take (i + 1)) ∧
  (m.variance.length = m'.variance.length ∧ m.variance.take (i + 1) = m'.variance.take (i + 1)) ∧
  (m.volatility.length = m'.volatility.length ∧
    m.volatility.take (i + 1) = m'.volatility.take (i + 1)) ∧
  (m.listed.length = m'.listed.length ∧ m.listed.take (i + 1) = m'.listed.take (i + 1)) ∧
  (m.oracle.length = m'.oracle.length ∧ m.oracle.take (i + 1) = m'.oracle.take (i + 1))

theorem agree_refl (i : ℕ) (m : Market ℝ) : Agree i m m := by simp [Agree]

/-- agreeing up to step `i` implies agreeing up to every earlier step -/
theorem agree_mono {i j : ℕ} {m m' : Market ℝ} (h : Agree i m m') (hj : j ≤ i) : Agree j m m' := by
  obtain ⟨hdt, hk, ⟨l1, t1⟩, ⟨l2, t2⟩, ⟨l3, t3⟩, ⟨l4, t4⟩, ⟨l5, t5⟩⟩ := h
  have hj' : j + 1 ≤ i + 1 := by omega
  exact ⟨hdt, hk, ⟨l1, take_mono t1 hj'⟩, ⟨l2, take_mono t2 hj'⟩, ⟨l3, take_mono t3 hj'⟩,
    ⟨l4, take_mono t4 hj'⟩, ⟨l5, take_mono t5 hj'⟩⟩

/-! ### features -/

/-- **Single-step evaluation of every built-in feature uses information up to step `i` only.**
All constructors, both `log` flags, both barrier directions; `timeToMaturity` depends only on
the length of the series and `dt`; `prevHedge` only on the hedger's state `prev`. -/
theorem baseFeature_getAt_prefix (f : BaseFeature ℝ) {i : ℕ} {m m' : Market ℝ} (prev : List ℝ)
    (h : Agree i m m') : f.getAt m prev i = f.getAt m' prev i := by
  obtain ⟨hdt, hk, ⟨hsl, hs⟩, ⟨_, hvar⟩, ⟨_, hvol⟩, ⟨_, hl⟩, ⟨_, ho⟩⟩ := h
  have es := getElem?_of_take_eq hs (Nat.lt_succ_self i)
  have evar := getElem?_of_take_eq hvar (Nat.lt_succ_self i)
  have evol := getElem?_of_take_eq hvol (Nat.lt_succ_self i)
  have el := getElem?_of_take_eq hl (Nat.lt_succ_self i)
  have eo := getElem?_of_take_eq ho (Nat.lt_succ_self i)
  cases f <;>
    simp only [BaseFeature.getAt, idx, prefixMax, prefixMin, ← List.map_take, hs, es, evar, evol,
      el, eo, hdt, hk, hsl]

/-- the same at every step `j ≤ i` -/
theorem baseFeature_getAt_prefix_le (f : BaseFeature ℝ) {i j : ℕ} {m m' : Market ℝ}
    (prev : List ℝ) (h : Agree i m m') (hj : j ≤ i) : f.getAt m prev j = f.getAt m' prev j :=
  baseFeature_getAt_prefix f prev (agree_mono h hj)

/-- **All-steps evaluation of every built-in feature: rows `0..i` use information up to step
`i` only** (running max/min of equal prefixes have equal prefixes). -/
theorem baseFeature_getAll_prefix (f : BaseFeature ℝ) {i : ℕ} {m m' : Market ℝ}
    {rows rows' : List (List ℝ)} (h : Agree i m m') (h1 : f.getAll m = .ok rows)
    (h2 : f.getAll m' = .ok rows') : rows.take (i + 1) = rows'.take (i + 1) := by
  obtain ⟨hdt, hk, ⟨hsl, hs⟩, ⟨_, hvar⟩, ⟨_, hvol⟩, ⟨_, hl⟩, ⟨_, ho⟩⟩ := h
  cases f with
  | prevHedge => simp [BaseFeature.getAll] at h1
  | barrier thr up =>
    cases up <;>
    · simp only [BaseFeature.getAll, if_true, Bool.false_eq_true, if_false, Except.ok.injEq] at h1 h2
      subst h1 h2
      simp only [← List.map_take, cummaxL_take, cumminL_take, hs]
  | _ =>
    simp only [BaseFeature.getAll, Except.ok.injEq] at h1 h2
    subst h1 h2
    simp only [← List.map_take, cummaxL_take, take_zip, hs, hvar, hvol, hl, ho, hk, hsl, hdt]

/-- the concatenated inputs of a `ModuleOutput`, single step -/
theorem catAt_prefix (ins : List (BaseFeature ℝ)) {i : ℕ} {m m' : Market ℝ} (prev : List ℝ)
    (h : Agree i m m') : catAt ins m prev i = catAt ins m' prev i := by
  induction ins with
  | nil => rfl
  | cons f rest ih => simp only [catAt, baseFeature_getAt_prefix f prev h, ih]

/-- the concatenated inputs of a `ModuleOutput`, all steps -/
theorem catAll_prefix (n : ℕ) (ins : List (BaseFeature ℝ)) {i : ℕ} {m m' : Market ℝ}
    (h : Agree i m m') : ∀ {rows rows' : List (List ℝ)}, catAll n ins m = .ok rows →
      catAll n ins m' = .ok rows' → rows.take (i + 1) = rows'.take (i + 1) := by
  induction ins with
  | nil =>
    intro rows rows' h1 h2
    simp only [catAll, Except.ok.injEq] at h1 h2
    rw [← h1, ← h2]
  | cons f rest ih =>
    intro rows rows' h1 h2
    simp only [catAll] at h1 h2
    obtain ⟨a, ha, h1⟩ := bind_ok h1
    obtain ⟨b, hb, h1⟩ := bind_ok h1
    obtain ⟨a', ha', h2⟩ := bind_ok h2
    obtain ⟨b', hb', h2⟩ := bind_ok h2
    split at h1
    · simp at h1
    split at h2
    · simp at h2
    rw [← pure_ok h1, ← pure_ok h2]
    exact zipAppend_take (baseFeature_getAll_prefix f h ha ha') (ih hb hb')

/-- **Every feature (incl. `ModuleOutput g inputs` for an arbitrary row-wise `g`), single step.** -/
theorem feature_getAt_prefix (f : Feature ℝ) {i : ℕ} {m m' : Market ℝ} (prev : List ℝ)
    (h : Agree i m m') : f.getAt m prev i = f.getAt m' prev i := by
  cases f with
  | base b => exact baseFeature_getAt_prefix b prev h
  | moduleOutput g ins => simp only [Feature.getAt, catAt_prefix ins prev h]

/-- **Every feature, all steps.** -/
theorem feature_getAll_prefix (n : ℕ) (f : Feature ℝ) {i : ℕ} {m m' : Market ℝ}
    {rows rows' : List (List ℝ)} (h : Agree i m m') (h1 : f.getAll n m = .ok rows)
    (h2 : f.getAll n m' = .ok rows') : rows.take (i + 1) = rows'.take (i + 1) := by
  cases f with
  | base b => exact baseFeature_getAll_prefix b h h1 h2
  | moduleOutput g ins =>
    simp only [Feature.getAll] at h1 h2
    obtain ⟨x, hx, h1⟩ := bind_ok h1
    obtain ⟨x', hx', h2⟩ := bind_ok h2
    rw [← pure_ok h1, ← pure_ok h2, ← List.map_take, ← List.map_take, catAll_prefix n ins h hx hx']

/-- `FeatureList.get(i)` -/
theorem inputsAt_prefix (fs : List (Feature ℝ)) {i : ℕ} {m m' : Market ℝ} (prev : List ℝ)
    (h : Agree i m m') : inputsAt fs m prev i = inputsAt fs m' prev i := by
  induction fs with
  | nil => rfl
  | cons f rest ih => simp only [inputsAt, feature_getAt_prefix f prev h, ih]

/-- `FeatureList.get(None)` -/
theorem inputsAll_prefix (n : ℕ) (fs : List (Feature ℝ)) {i : ℕ} {m m' : Market ℝ}
    (h : Agree i m m') : ∀ {rows rows' : List (List ℝ)}, inputsAll n fs m = .ok rows →
      inputsAll n fs m' = .ok rows' → rows.take (i + 1) = rows'.take (i + 1) := by
  induction fs with
  | nil =>
    intro rows rows' h1 h2
    simp only [inputsAll, Except.ok.injEq] at h1 h2
    rw [← h1, ← h2]
  | cons f rest ih =>
    intro rows rows' h1 h2
    simp only [inputsAll] at h1 h2
    obtain ⟨a, ha, h1⟩ := bind_ok h1
    obtain ⟨b, hb, h1⟩ := bind_ok h1
    obtain ⟨a', ha', h2⟩ := bind_ok h2
    obtain ⟨b', hb', h2⟩ := bind_ok h2
    split at h1
    · simp at h1
    split at h2
    · simp at h2
    rw [← pure_ok h1, ← pure_ok h2]
    exact zipAppend_take (feature_getAll_prefix n f h ha ha') (ih hb hb')

/-! ### the hedger -/

/-- **Step-by-step evaluation.** Running the recurrent loop for steps `j, …, j+k-1`, all `≤ i`,
from any state `prev`, gives literally the same result (outputs or error) on two markets that
agree up to step `i` — for every model `g` and every feature list. -/
theorem hedge_nonanticipative_stepwise (g : List ℝ → List ℝ) (fs : List (Feature ℝ)) {i : ℕ}
    {m m' : Market ℝ} (h : Agree i m m') : ∀ (k j : ℕ) (prev : List ℝ), j + k ≤ i + 1 →
      hedgeLoop g fs m k j prev = hedgeLoop g fs m' k j prev := by
  intro k
  induction k with
  | zero => intros; rfl
  | succ k ih =>
    intro j prev hj
    simp only [hedgeLoop, inputsAt_prefix fs prev (agree_mono h (by omega : j ≤ i))]
    congr
    funext x
    rw [ih (j + 1) (g x) (by omega)]

/-- **`compute_hedge`, state-dependent branch:** hedge ratios for steps `0..i` are unchanged by
any change of the market after step `i`.  (The hypothesis `i + 2 ≤ n` of the informal statement
is not needed: for `n ≤ i + 2` the whole results coincide, see `hedge_determined_before_last`.) -/
theorem computeHedge_nonanticipative_stepwise (g : List ℝ → List ℝ) (fs : List (Feature ℝ))
    {i n hh : ℕ} {m m' : Market ℝ} {r r' : List (List ℝ)}
    (hsd : fs.any Feature.stateDependent = true) (h : Agree i m m')
    (h1 : computeHedge g fs m n hh = .ok r) (h2 : computeHedge g fs m' n hh = .ok r') :
    r.take (i + 1) = r'.take (i + 1) := by
  simp only [computeHedge, hsd, if_true] at h1 h2
  obtain ⟨outs, ho, h1⟩ := bind_ok h1
  obtain ⟨outs', ho', h2⟩ := bind_ok h2
  by_cases hn : n - 1 ≤ i + 1
  · rw [hedge_nonanticipative_stepwise g fs h (n - 1) 0 _ (by omega), ho'] at ho
    simp only [Except.ok.injEq] at ho
    subst ho
    rw [h1] at h2
    simp only [Except.ok.injEq] at h2
    rw [h2]
  · have e : n - 1 = (i + 1) + (n - 1 - (i + 1)) := by omega
    have hl := hedgeLoop_length g fs m _ _ _ _ ho
    have hl' := hedgeLoop_length g fs m' _ _ _ _ ho'
    rw [e] at ho ho'
    have t := hedgeLoop_take g fs m _ _ _ _ _ ho
    have t' := hedgeLoop_take g fs m' _ _ _ _ _ ho'
    rw [hedge_nonanticipative_stepwise g fs h (i + 1) 0 _ (by omega), t'] at t
    simp only [Except.ok.injEq] at t
    obtain ⟨rest, l, e1, e2⟩ := appendLast_ok h1
    obtain ⟨rest', l', e1', e2'⟩ := appendLast_ok h2
    have a1 : r = outs ++ [l] := by rw [e2, e1]; simp
    have a2 : r' = outs' ++ [l'] := by rw [e2', e1']; simp
    rw [a1, a2, List.take_append_of_le_length (by omega), List.take_append_of_le_length (by omega)]
    exact t.symm

/-- **`compute_hedge`, batched branch** (no state-dependent feature: all steps at once, the model
applied row-wise, last row overwritten): hedge ratios for steps `0..i` are unchanged by any change
of the market after step `i`. -/
theorem hedge_nonanticipative_batched (g : List ℝ → List ℝ) (fs : List (Feature ℝ))
    {i n hh : ℕ} {m m' : Market ℝ} {r r' : List (List ℝ)}
    (hsd : fs.any Feature.stateDependent = false) (h : Agree i m m')
    (h1 : computeHedge g fs m n hh = .ok r) (h2 : computeHedge g fs m' n hh = .ok r') :
    r.take (i + 1) = r'.take (i + 1) := by
  simp only [computeHedge, hsd, Bool.false_eq_true, if_false] at h1 h2
  obtain ⟨x, hx, h1⟩ := bind_ok h1
  obtain ⟨x', hx', h2⟩ := bind_ok h2
  have hl := inputsAll_length n fs m x hx
  have hl' := inputsAll_length n fs m' x' hx'
  have ht : (x.map g).take (i + 1) = (x'.map g).take (i + 1) := by
    rw [← List.map_take, ← List.map_take, inputsAll_prefix n fs h hx hx']
  by_cases hn : i + 2 ≤ n
  · rw [dupLast_take h1 (by simp; omega), dupLast_take h2 (by simp; omega), ht]
  · rw [dupLast_congr (by simp [hl, hl']) (by simp; omega) ht h1 h2]

/-- **Both branches in one statement.** -/
theorem hedge_nonanticipative (g : List ℝ → List ℝ) (fs : List (Feature ℝ))
    {i n hh : ℕ} {m m' : Market ℝ} {r r' : List (List ℝ)} (h : Agree i m m')
    (h1 : computeHedge g fs m n hh = .ok r) (h2 : computeHedge g fs m' n hh = .ok r') :
    r.take (i + 1) = r'.take (i + 1) := by
  cases hsd : fs.any Feature.stateDependent
  · exact hedge_nonanticipative_batched g fs hsd h h1 h2
  · exact computeHedge_nonanticipative_stepwise g fs hsd h h1 h2

/-- **The position at the final index equals the one held over the last step** (both
branches), so `Δδ = 0` there and no trade occurs at maturity. -/
theorem last_eq_prev (g : List ℝ → List ℝ) (fs : List (Feature ℝ)) {m : Market ℝ} {n hh : ℕ}
    {r : List (List ℝ)} (h : computeHedge g fs m n hh = .ok r) :
    ∃ x rest, r = rest ++ [x, x] := by
  unfold computeHedge at h
  split at h
  · obtain ⟨outs, _, h⟩ := bind_ok h
    obtain ⟨rest, l, _, e⟩ := appendLast_ok h
    exact ⟨l, rest, e⟩
  · obtain ⟨x, _, h⟩ := bind_ok h
    obtain ⟨rest, a, b, _, e⟩ := dupLast_ok _ _ h
    exact ⟨a, rest, e⟩

/-- A successful `compute_hedge` returns exactly `n` rows and `n ≥ 2` (both branches; in the
batched branch because `inputsAll n` checks every feature against `n` rows and `dupLast` needs
two rows). -/
theorem computeHedge_length (g : List ℝ → List ℝ) (fs : List (Feature ℝ)) {m : Market ℝ}
    {n hh : ℕ} {r : List (List ℝ)} (h : computeHedge g fs m n hh = .ok r) :
    r.length = n ∧ 2 ≤ n := by
  unfold computeHedge at h
  split at h
  · obtain ⟨outs, ho, h⟩ := bind_ok h
    have hl := hedgeLoop_length g fs m _ _ _ _ ho
    obtain ⟨rest, l, e1, e2⟩ := appendLast_ok h
    rw [e1] at hl
    simp at hl
    rw [e2]; simp; omega
  · obtain ⟨x, hx, h⟩ := bind_ok h
    have hl := inputsAll_length n fs m x hx
    have := dupLast_length h
    simp only [List.length_map, hl] at this
    exact this

/-- in index form: rows `n-1` and `n-2` of the hedge coincide -/
theorem last_eq_prev_getElem (g : List ℝ → List ℝ) (fs : List (Feature ℝ)) {m : Market ℝ}
    {n hh : ℕ} {r : List (List ℝ)} (h : computeHedge g fs m n hh = .ok r) :
    r[n - 1]? = r[n - 2]? ∧ (r[n - 1]?).isSome := by
  obtain ⟨hl, hn⟩ := computeHedge_length g fs h
  obtain ⟨x, rest, e⟩ := last_eq_prev g fs h
  subst e
  simp at hl
  have e1 : n - 1 = rest.length + 1 := by omega
  have e2 : n - 2 = rest.length := by omega
  rw [e1, e2]
  simp

/-- **The whole hedge is determined by the market up to step `n-2`**: the last market
observation never enters (the final row is a copy).  Both branches. -/
theorem hedge_determined_before_last (g : List ℝ → List ℝ) (fs : List (Feature ℝ))
    {i n hh : ℕ} {m m' : Market ℝ} {r r' : List (List ℝ)} (h : Agree i m m') (hn : n ≤ i + 2)
    (h1 : computeHedge g fs m n hh = .ok r) (h2 : computeHedge g fs m' n hh = .ok r') :
    r = r' := by
  obtain ⟨x, rest, e⟩ := last_eq_prev g fs h1
  obtain ⟨x', rest', e'⟩ := last_eq_prev g fs h2
  obtain ⟨hl, _⟩ := computeHedge_length g fs h1
  obtain ⟨hl', _⟩ := computeHedge_length g fs h2
  have ht := hedge_nonanticipative g fs h h1 h2
  subst e e'
  simp at hl hl'
  have hlen : rest.length = rest'.length := by omega
  have ht' := take_mono ht (by omega : rest.length + 1 ≤ i + 1)
  have e3 : (rest ++ [x, x]).take (rest.length + 1) = rest ++ [x] := by
    have : rest ++ [x, x] = (rest ++ [x]) ++ [x] := by simp
    rw [this, List.take_append_of_le_length (by simp)]
    exact List.take_of_length_le (by simp)
  have e4 : (rest' ++ [x', x']).take (rest.length + 1) = rest' ++ [x'] := by
    have : rest' ++ [x', x'] = (rest' ++ [x']) ++ [x'] := by simp
    rw [this, hlen, List.take_append_of_le_length (by simp)]
    exact List.take_of_length_le (by simp)
  rw [e3, e4] at ht'
  obtain ⟨hr, hx⟩ := List.append_inj' ht' rfl
  simp only [List.cons.injEq, and_true] at hx
  rw [hr, hx]

/-! ### non-vacuity -/

/-- two markets that differ only at step 1 agree up to step 0 (and not up to step 1) -/
example :
    Agree 0 (⟨[1, 2, 5], [1, 1, 1], [1, 1, 1], [3, 4, 5], 1, 1, [0, 0, 0]⟩ : Market ℝ)
      ⟨[1, 3, 5], [1, 1, 1], [1, 1, 1], [3, 4, 5], 1, 1, [0, 0, 0]⟩ ∧
    ¬ Agree 1 (⟨[1, 2, 5], [1, 1, 1], [1, 1, 1], [3, 4, 5], 1, 1, [0, 0, 0]⟩ : Market ℝ)
      ⟨[1, 3, 5], [1, 1, 1], [1, 1, 1], [3, 4, 5], 1, 1, [0, 0, 0]⟩ := by
  constructor
  · simp [Agree]
  · simp [Agree]

/-- the `ok` hypotheses are satisfiable in the batched branch, and the later steps do differ -/
example :
    computeHedge (fun x => x) [.base (.underlierSpot false)]
      (⟨[1, 2, 5], [1, 1, 1], [1, 1, 1], [3, 4, 5], 1, 1, [0, 0, 0]⟩ : Market ℝ) 3 1
      = .ok [[1], [2], [2]] ∧
    computeHedge (fun x => x) [.base (.underlierSpot false)]
      (⟨[1, 3, 5], [1, 1, 1], [1, 1, 1], [3, 4, 5], 1, 1, [0, 0, 0]⟩ : Market ℝ) 3 1
      = .ok [[1], [3], [3]] := by
  constructor <;>
    simp [computeHedge, Feature.stateDependent, BaseFeature.stateDependent, inputsAll,
      Feature.getAll, BaseFeature.getAll, logIf, dupLast, bind, Except.bind, pure, Except.pure]

/-- the `ok` hypotheses are satisfiable in the state-dependent branch -/
example :
    computeHedge (fun x => x) [.base .prevHedge, .base (.underlierSpot false)]
      (⟨[1, 2, 5], [1, 1, 1], [1, 1, 1], [3, 4, 5], 1, 1, [0, 0, 0]⟩ : Market ℝ) 3 1
      = .ok [[0, 1], [0, 1, 2], [0, 1, 2]] := by
  simp [computeHedge, Feature.stateDependent, BaseFeature.stateDependent, hedgeLoop, inputsAt,
    Feature.getAt, BaseFeature.getAt, idx, logIf, appendLast, lastL, bind, Except.bind, pure,
    Except.pure]

end PfVerif.C02
