import PfVerif.Audit.Tool
import PfVerif.Props.C09
import PfVerif.Lemmas.C09Modules
import PfVerif.Lemmas.C09Factory
#audit_module PfVerif.Props.C09
#audit_module_ns PfVerif.Lemmas.C09Modules PfVerif.C09Modules
#audit_module_ns PfVerif.Lemmas.C09Factory PfVerif.C09Factory
