import PfVerif.Audit.Tool
import PfVerif.Props.C09
#audit_module PfVerif.Props.C09
