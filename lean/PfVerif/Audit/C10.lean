import PfVerif.Audit.Tool
import PfVerif.Props.C10
import PfVerif.Lemmas.C10QE
import PfVerif.Lemmas.C10Jump
#audit_module PfVerif.Props.C10
#audit_module_ns PfVerif.Lemmas.C10QE PfVerif.C10QE
#audit_module_ns PfVerif.Lemmas.C10Jump PfVerif.C10Jump
