import PfVerif.Audit.Tool
import PfVerif.Props.C10
#audit_module PfVerif.Props.C10
