import PfVerif.Audit.Tool
import PfVerif.Props.C17
import PfVerif.Lemmas.C17System
#audit_module PfVerif.Props.C17
#audit_module_ns PfVerif.Lemmas.C17System PfVerif.C17System
