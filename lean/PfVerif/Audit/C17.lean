import PfVerif.Audit.Tool
import PfVerif.Props.C17
#audit_module PfVerif.Props.C17
