import PfVerif.Audit.Tool
import PfVerif.Props.C16
import PfVerif.Lemmas.C16Session
#audit_module PfVerif.Props.C16
#audit_module_ns PfVerif.Lemmas.C16Session PfVerif.C16Session
