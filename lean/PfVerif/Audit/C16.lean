import PfVerif.Audit.Tool
import PfVerif.Props.C16
#audit_module PfVerif.Props.C16
