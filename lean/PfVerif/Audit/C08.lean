import PfVerif.Audit.Tool
import PfVerif.Props.C08
import PfVerif.Lemmas.C08Dual
import PfVerif.Lemmas.C08Parse
import PfVerif.Lemmas.C08Glue
#audit_module PfVerif.Props.C08
#audit_module_ns PfVerif.Lemmas.C08Dual PfVerif.C08Dual
#audit_module_ns PfVerif.Lemmas.C08Parse PfVerif.C08Parse
#audit_module_ns PfVerif.Lemmas.C08Glue PfVerif.C08Glue
