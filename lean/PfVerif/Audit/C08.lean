import PfVerif.Audit.Tool
import PfVerif.Props.C08
#audit_module PfVerif.Props.C08
