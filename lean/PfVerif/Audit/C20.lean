import PfVerif.Audit.Tool
import PfVerif.Props.C20
import PfVerif.Lemmas.C20Module
#audit_module PfVerif.Props.C20
#audit_module_ns PfVerif.Lemmas.C20Module PfVerif.C20Module
