import PfVerif.Audit.Tool
import PfVerif.Props.C20
#audit_module PfVerif.Props.C20
