import PfVerif.Audit.Tool
import PfVerif.Props.C06
import PfVerif.Lemmas.C06Hedger
#audit_module PfVerif.Props.C06
#audit_module_ns PfVerif.Lemmas.C06Hedger PfVerif.C06Hedger
