import PfVerif.Audit.Tool
import PfVerif.Props.C06
#audit_module PfVerif.Props.C06
