import PfVerif.Audit.Tool
import PfVerif.Props.C05
import PfVerif.Lemmas.C05QCVaR
import PfVerif.Lemmas.C05Tensor
#audit_module PfVerif.Props.C05
#audit_module_ns PfVerif.Lemmas.C05QCVaR PfVerif.C05QCVaR
#audit_module_ns PfVerif.Lemmas.C05Tensor PfVerif.C05Tensor
