import PfVerif.Audit.Tool
import PfVerif.Props.C05
#audit_module PfVerif.Props.C05
