/-
  `#audit_module M` prints, for every theorem declared in module `M` (non-internal names),
  one line  `AUDIT <name> :: [<axioms it depends on>]`.   Read by harness/common.py.
-/
import Lean
open Lean Elab Command

elab "#audit_module " id:ident : command => do
  let env ← getEnv
  let modName := id.getId
  let some idx := env.getModuleIdx? modName
    | throwError "unknown module {modName}"
  let names := env.header.moduleData[idx.toNat]!.constNames
  let mut count := 0
  for n in names do
    if n.isInternal then continue
    -- property theorems are exactly the names `PfVerif.<Cxx>.<thm>` (auto-generated equation
    -- lemmas `f.eq_1` have a longer prefix and are skipped)
    let ns := Name.mkStr (Name.mkSimple "PfVerif") (modName.getString!)
    if n.getPrefix != ns then continue
    match env.find? n with
    | some (.thmInfo _) =>
      let axs ← liftCoreM (collectAxioms n)
      let axs := axs.qsort (fun a b => a.toString < b.toString)
      IO.println s!"AUDIT {n} :: [{", ".intercalate (axs.toList.map toString)}]"
      count := count + 1
    | _ => pure ()
  IO.println s!"AUDIT-COUNT {modName} {count}"

/-- `#audit_module_ns M NS`: same for theorems of module `M` whose name is `NS.<thm>` (property theorems
that live in a lemma module because of the import order; listed in the property's audit file). -/
elab "#audit_module_ns " id:ident ns:ident : command => do
  let env ← getEnv
  let modName := id.getId
  let some idx := env.getModuleIdx? modName
    | throwError "unknown module {modName}"
  let names := env.header.moduleData[idx.toNat]!.constNames
  let mut count := 0
  for n in names do
    if n.isInternal then continue
    if n.getPrefix != ns.getId then continue
    match env.find? n with
    | some (.thmInfo _) =>
      let axs ← liftCoreM (collectAxioms n)
      let axs := axs.qsort (fun a b => a.toString < b.toString)
      IO.println s!"AUDIT {n} :: [{", ".intercalate (axs.toList.map toString)}]"
      count := count + 1
    | _ => pure ()
  IO.println s!"AUDIT-COUNT {modName} {count}"
