import PfVerif.Audit.Tool
import PfVerif.Props.C13
#audit_module PfVerif.Props.C13
