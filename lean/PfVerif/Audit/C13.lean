import PfVerif.Audit.Tool
import PfVerif.Props.C13
import PfVerif.Lemmas.C13Round
import PfVerif.Lemmas.C13System
#audit_module PfVerif.Props.C13
#audit_module_ns PfVerif.Lemmas.C13Round PfVerif.C13Round
#audit_module_ns PfVerif.Lemmas.C13System PfVerif.C13System
