import PfVerif.Audit.Tool
import PfVerif.Props.C02
import PfVerif.Lemmas.C02Hooks
#audit_module PfVerif.Props.C02
#audit_module_ns PfVerif.Lemmas.C02Hooks PfVerif.C02Hooks
