import PfVerif.Audit.Tool
import PfVerif.Props.C02
#audit_module PfVerif.Props.C02
