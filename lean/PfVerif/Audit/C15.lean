import PfVerif.Audit.Tool
import PfVerif.Props.C15
import PfVerif.Lemmas.C15Num
#audit_module PfVerif.Props.C15
#audit_module_ns PfVerif.Lemmas.C15Num PfVerif.C15Num
