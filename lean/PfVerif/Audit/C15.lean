import PfVerif.Audit.Tool
import PfVerif.Props.C15
#audit_module PfVerif.Props.C15
