import PfVerif.Audit.Tool
import PfVerif.Props.C18
import PfVerif.Lemmas.C18Hedge
import PfVerif.Lemmas.C18Modules
#audit_module PfVerif.Props.C18
#audit_module_ns PfVerif.Lemmas.C18Hedge PfVerif.C18Hedge
#audit_module_ns PfVerif.Lemmas.C18Modules PfVerif.C18Modules
