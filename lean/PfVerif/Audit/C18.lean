import PfVerif.Audit.Tool
import PfVerif.Props.C18
#audit_module PfVerif.Props.C18
