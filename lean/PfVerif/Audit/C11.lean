import PfVerif.Audit.Tool
import PfVerif.Props.C11
#audit_module PfVerif.Props.C11
