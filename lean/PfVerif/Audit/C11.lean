import PfVerif.Audit.Tool
import PfVerif.Props.C11
import PfVerif.Lemmas.C11Engine
import PfVerif.Lemmas.C11Buffers
#audit_module PfVerif.Props.C11
#audit_module_ns PfVerif.Lemmas.C11Engine PfVerif.C11Engine
#audit_module_ns PfVerif.Lemmas.C11Buffers PfVerif.C11Buffers
