import PfVerif.Audit.Tool
import PfVerif.Props.C04
#audit_module PfVerif.Props.C04
