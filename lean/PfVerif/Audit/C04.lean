import PfVerif.Audit.Tool
import PfVerif.Props.C04
import PfVerif.Lemmas.C05Tensor
#audit_module PfVerif.Props.C04
#audit_module_ns PfVerif.Lemmas.C05Tensor PfVerif.C04Tensor
