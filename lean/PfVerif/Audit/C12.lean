import PfVerif.Audit.Tool
import PfVerif.Props.C12
#audit_module PfVerif.Props.C12
