import PfVerif.Audit.Tool
import PfVerif.Props.C12
import PfVerif.Lemmas.C12Session
import PfVerif.Lemmas.C12Multi
import PfVerif.Lemmas.C12Listing
#audit_module PfVerif.Props.C12
#audit_module_ns PfVerif.Lemmas.C12Session PfVerif.C12Session
#audit_module_ns PfVerif.Lemmas.C12Multi PfVerif.C12Multi
#audit_module_ns PfVerif.Lemmas.C12Listing PfVerif.C12Listing
