import PfVerif.Audit.Tool
import PfVerif.Props.C03
import PfVerif.Lemmas.C03Registry
#audit_module PfVerif.Props.C03
#audit_module_ns PfVerif.Lemmas.C03Registry PfVerif.C03Registry
