import PfVerif.Audit.Tool
import PfVerif.Props.C03
#audit_module PfVerif.Props.C03
