import PfVerif.Audit.Tool
import PfVerif.Props.C19
import PfVerif.Lemmas.C19IV
import PfVerif.Lemmas.C19Float
#audit_module PfVerif.Props.C19
#audit_module_ns PfVerif.Lemmas.C19IV PfVerif.C19IV
#audit_module_ns PfVerif.Lemmas.C19Float PfVerif.C19Float
