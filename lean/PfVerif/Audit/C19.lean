import PfVerif.Audit.Tool
import PfVerif.Props.C19
import PfVerif.Lemmas.C19IV
#audit_module PfVerif.Props.C19
#audit_module_ns PfVerif.Lemmas.C19IV PfVerif.C19IV
