import PfVerif.Audit.Tool
import PfVerif.Props.C19
#audit_module PfVerif.Props.C19
