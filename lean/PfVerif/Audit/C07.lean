import PfVerif.Audit.Tool
import PfVerif.Props.C07
#audit_module PfVerif.Props.C07
