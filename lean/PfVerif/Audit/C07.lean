import PfVerif.Audit.Tool
import PfVerif.Props.C07
import PfVerif.Lemmas.C07PDE
import PfVerif.Lemmas.C07Barrier
import PfVerif.Lemmas.C07Lookback
import PfVerif.Lemmas.C07Acquire
#audit_module PfVerif.Props.C07
#audit_module_ns PfVerif.Lemmas.C07PDE PfVerif.C07PDE
#audit_module_ns PfVerif.Lemmas.C07Barrier PfVerif.C07Barrier
#audit_module_ns PfVerif.Lemmas.C07Lookback PfVerif.C07Lookback
#audit_module_ns PfVerif.Lemmas.C07Acquire PfVerif.C07Acquire
