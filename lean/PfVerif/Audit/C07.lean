import PfVerif.Audit.Tool
import PfVerif.Props.C07
import PfVerif.Lemmas.C07PDE
#audit_module PfVerif.Props.C07
#audit_module_ns PfVerif.Lemmas.C07PDE PfVerif.C07PDE
