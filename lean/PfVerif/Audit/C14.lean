import PfVerif.Audit.Tool
import PfVerif.Props.C14
import PfVerif.Lemmas.C14Multi
import PfVerif.Lemmas.C14Price
import PfVerif.Lemmas.C14GradMode
#audit_module PfVerif.Props.C14
#audit_module_ns PfVerif.Lemmas.C14Multi PfVerif.C14Multi
#audit_module_ns PfVerif.Lemmas.C14Price PfVerif.C14Price
#audit_module_ns PfVerif.Lemmas.C14GradMode PfVerif.C14GradMode
