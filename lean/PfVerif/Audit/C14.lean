import PfVerif.Audit.Tool
import PfVerif.Props.C14
import PfVerif.Lemmas.C14Multi
#audit_module PfVerif.Props.C14
#audit_module_ns PfVerif.Lemmas.C14Multi PfVerif.C14Multi
