import PfVerif.Audit.Tool
import PfVerif.Props.C14
#audit_module PfVerif.Props.C14
