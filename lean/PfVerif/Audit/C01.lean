import PfVerif.Audit.Tool
import PfVerif.Props.C01
#audit_module PfVerif.Props.C01
