import PfVerif.Audit.Tool
import PfVerif.Props.C01
import PfVerif.Lemmas.C01Hedger
import PfVerif.Lemmas.C01HedgerC14
#audit_module PfVerif.Props.C01
#audit_module_ns PfVerif.Lemmas.C01Hedger PfVerif.C01Hedger
#audit_module_ns PfVerif.Lemmas.C01HedgerC14 PfVerif.C01HedgerC14
