/-
  C02 for hedgers with user forward hooks / forward pre-hooks (Model/Hooks.lean).

  `PfVerif.C02HooksAux`: list / protocol lemmas.  `PfVerif.C02Hooks`: the property theorems —
  reduction of `computeHedgeHooked` to the existing hook-free `computeHedge` (all placements),
  which value `prev_hedge` reads, refinement, and C02 itself (non-anticipativity, no trade at
  maturity) for hooked hedgers at ℝ.
-/
import PfVerif.Model.Hooks
import PfVerif.Props.C02

set_option linter.unusedSectionVars false

namespace PfVerif.C02HooksAux
open PfVerif PfVerif.C02Aux

theorem applyAll_nil_fun {β : Type} : applyAll ([] : List (β → β)) = fun x => x := by
  funext x; rfl

theorem applyAll_lift {α : Type} (fs : List (List α → List α)) (rows : List (List α)) :
    applyAll (fs.map liftRow) rows = rows.map (applyAll fs) := by
  induction fs generalizing rows with
  | nil => simp [applyAll, applyAll_nil_fun]
  | cons f rest ih =>
    simp only [List.map_cons, applyAll, ih]
    simp only [liftRow, List.map_map]
    rfl

theorem runHooks_users {α : Type} (fs : List (TMap α)) (out st : List (List α)) :
    runHooks (fs.map FwdHook.user) out st = (applyAll fs out, st) := by
  induction fs generalizing out with
  | nil => rfl
  | cons f rest ih => simp only [List.map_cons, runHooks, ih, applyAll]

theorem runHooks_append {α : Type} (a b : List (FwdHook α)) (out st : List (List α)) :
    runHooks (a ++ b) out st = runHooks b (runHooks a out st).1 (runHooks a out st).2 := by
  induction a generalizing out st with
  | nil => rfl
  | cons hk rest ih => cases hk <;> simp only [List.cons_append, runHooks, ih]

/-- pfhedge's hook between prepended and appended user hooks: the caller gets everything, the
buffer what the prepended ones left -/
theorem runHooks_pfhedge {α : Type} (B A : List (TMap α)) (out st : List (List α)) :
    runHooks (B.map FwdHook.user ++ FwdHook.savePrev :: A.map FwdHook.user) out st
      = (applyAll A (applyAll B out), applyAll B out) := by
  rw [runHooks_append, runHooks_users]
  simp only [runHooks, runHooks_users]


theorem callHedger_rowHooked {α : Type} (g : List α → List α)
    (B A P MP MH : List (List α → List α)) (st rows : List (List α)) :
    callHedger (rowHooked g B A P MP MH) st rows
      = (rows.map (fun x => applyAll A (impliedModel g B P MP MH x)),
         rows.map (impliedModel g B P MP MH)) := by
  simp only [callHedger, rowHooked, HookedHedger.pfhedge, callModel, runHooks_pfhedge,
    applyAll_lift]
  simp only [List.map_map]
  rfl

theorem lastL_map {β γ : Type} (f : β → γ) : ∀ xs : List β, lastL (xs.map f) = (lastL xs).map f
  | [] => rfl
  | [_] => rfl
  | _ :: y :: rest => by
      simp only [List.map_cons, lastL]
      exact lastL_map f (y :: rest)

theorem appendLast_map {β γ : Type} (f : β → γ) (xs : List β) :
    appendLast (xs.map f) = (appendLast xs).map (List.map f) := by
  unfold appendLast
  rw [lastL_map]
  cases lastL xs <;> simp [Except.map]

theorem dupLast_map {β γ : Type} (f : β → γ) : ∀ xs : List β,
    dupLast (xs.map f) = (dupLast xs).map (List.map f)
  | [] => rfl
  | [_] => rfl
  | [_, _] => rfl
  | x :: y :: z :: rest => by
      have ih := dupLast_map f (y :: z :: rest)
      simp only [List.map_cons] at ih ⊢
      simp only [dupLast, ih]
      cases dupLast (y :: z :: rest) <;> rfl

/-- calling on all rows but the last and repeating the last result = overwriting the last row -/
theorem appendLast_dropLast_map {β γ : Type} (f : β → γ) : ∀ xs : List β,
    appendLast (xs.dropLast.map f) = dupLast (xs.map f)
  | [] => rfl
  | [_] => rfl
  | [_, _] => rfl
  | x :: y :: z :: rest => by
      have ih := appendLast_dropLast_map f (y :: z :: rest)
      simp only [List.dropLast_cons_cons, List.map_cons] at ih ⊢
      simp only [dupLast, ← ih]
      unfold appendLast
      simp only [lastL]
      cases lastL (f y :: List.map f (z :: rest).dropLast) <;> rfl

theorem flatten_map_singleton {β γ : Type} (f : β → γ) (xs : List β) :
    (xs.map (fun o => [f o])).flatten = xs.map f := by
  induction xs with
  | nil => rfl
  | cons x rest ih => simp [ih]


/-- the steps of the state-dependent loop rebuilt from the outputs of the hook-free loop: the value
read at a step is the raw output of the step before, the reported one its image under `A` -/
def traceOf {α : Type} (A : List α → List α) : List α → List (List α) → List (HookStep α)
  | _, [] => []
  | p, o :: os => ⟨p, [A o], [o]⟩ :: traceOf A o os

theorem traceOf_out {α : Type} (A : List α → List α) : ∀ (outs : List (List α)) (p : List α),
    (traceOf A p outs).map HookStep.out = outs.map (fun o => [A o])
  | [], _ => rfl
  | o :: os, _ => by simp only [traceOf, List.map_cons, traceOf_out A os o]

section
variable {α : Type} [Add α] [Sub α] [Mul α] [Div α] [Neg α] [OfNat α 0] [OfNat α 1]
  [LE α] [DecidableLE α] [Max α] [Min α] [NatCast α] [Transc α]

theorem hookedLoop_rowHooked (g : List α → List α) (B A P MP MH : List (List α → List α))
    (fs : List (Feature α)) (m : Market α) : ∀ (k i : Nat) (p : List α),
    hookedLoop (rowHooked g B A P MP MH) fs m k i [p]
      = (hedgeLoop (impliedModel g B P MP MH) fs m k i p).map (traceOf (applyAll A) p) := by
  intro k
  induction k with
  | zero => intro i p; rfl
  | succ k ih =>
    intro i p
    simp only [hookedLoop, hedgeLoop, readPrev, callHedger_rowHooked, List.map_cons, List.map_nil,
      bind, Except.bind, ih]
    cases inputsAt fs m p i with
    | error e => rfl
    | ok x =>
      dsimp only
      cases hedgeLoop (impliedModel g B P MP MH) fs m k (i + 1) (impliedModel g B P MP MH x) <;> rfl


/-- the first step of a successful loop read the buffer it was started with -/
theorem hookedLoop_head_read (hh : HookedHedger α) (fs : List (Feature α)) (m : Market α) :
    ∀ (k i : Nat) (st : List (List α)) (s : HookStep α) (rest : List (HookStep α)),
      hookedLoop hh fs m k i st = .ok (s :: rest) → st = [s.read] := by
  intro k i st s rest hl
  cases k with
  | zero => simp [hookedLoop] at hl
  | succ k =>
    simp only [hookedLoop] at hl
    obtain ⟨prev, hp, hl⟩ := bind_ok hl
    obtain ⟨x, _, hl⟩ := bind_ok hl
    obtain ⟨rest', _, hl⟩ := bind_ok hl
    have hl := pure_ok hl
    simp only [List.cons.injEq] at hl
    rw [← hl.1]
    unfold readPrev at hp
    split at hp
    · simp only [Except.ok.injEq] at hp; rw [hp]
    · simp at hp

theorem map_rows_id {ε β : Type} (e : Except ε (List (List β))) :
    e.map (List.map (applyAll ([] : List (List β → List β)))) = e := by
  cases e with
  | error _ => rfl
  | ok r => simp [Except.map, applyAll_nil_fun]

theorem map_ok {ε β γ : Type} {e : Except ε β} {f : β → γ} {r : γ} (h : e.map f = .ok r) :
    ∃ r0, e = .ok r0 ∧ r = f r0 := by
  cases e with
  | error _ => simp [Except.map] at h
  | ok r0 => exact ⟨r0, rfl, by simpa [Except.map] using h.symm⟩

end
end PfVerif.C02HooksAux

namespace PfVerif.C02Hooks
open PfVerif PfVerif.C02Aux PfVerif.C02HooksAux

section
variable {α : Type} [Add α] [Sub α] [Mul α] [Div α] [Neg α] [OfNat α 0] [OfNat α 1]
  [LE α] [DecidableLE α] [Max α] [Min α] [NatCast α] [Transc α]

/-- **Reduction.** A hedger `Hedger(g, fs)` with row-wise user hooks — `B` prepended to and `A`
appended after pfhedge's own forward hook, forward pre-hooks `P`, pre-hooks `MP` and forward hooks
`MH` on the inner model — computes the hedge of the EXISTING hook-free model for the module
`g' = B ∘ MH ∘ g ∘ MP ∘ P`, with the appended maps applied to the reported rows only: the
recurrence (`prev_hedge`) reads the value before `A`.  Both branches, errors included. -/
theorem computeHedgeHooked_eq (g : List α → List α) (B A P MP MH : List (List α → List α))
    (fs : List (Feature α)) (m : Market α) (n h : Nat) :
    computeHedgeHooked (rowHooked g B A P MP MH) fs m n h
      = (computeHedge (impliedModel g B P MP MH) fs m n h).map (List.map (applyAll A)) := by
  unfold computeHedgeHooked computeHedge hedgeTraceHooked
  split
  · rw [hookedLoop_rowHooked]
    cases hedgeLoop (impliedModel g B P MP MH) fs m (n - 1) 0 (List.replicate h 0) with
    | error e => rfl
    | ok outs =>
      simp only [Except.map, bind, Except.bind, traceOf_out]
      rw [appendLast_map]
      cases appendLast outs with
      | error e => rfl
      | ok o => simp only [Except.map, pure, Except.pure, flatten_map_singleton]
  · cases inputsAll n fs m with
    | error e => rfl
    | ok x =>
      simp only [bind, Except.bind, callHedger_rowHooked]
      rw [appendLast_dropLast_map]
      have e := dupLast_map (applyAll A) (x.map (impliedModel g B P MP MH))
      rw [List.map_map] at e
      exact e


/-! ### the six placements, one user hook `f` acting on one time step -/

/-- **Hook appended to the hedger** (`hedger.register_forward_hook(f)`, with or without
`with_kwargs=True` — the flag only changes the signature the hook is called with): the reported
rows are `f` of the rows of the hook-free hedger; the recurrence still runs on the raw output. -/
theorem appended_hook (g f : List α → List α) (fs : List (Feature α)) (m : Market α) (n h : Nat) :
    computeHedgeHooked (HookedHedger.pfhedge g [] [liftRow f] [] [] []) fs m n h
      = (computeHedge g fs m n h).map (List.map f) :=
  computeHedgeHooked_eq g [] [f] [] [] [] fs m n h

/-- **Hook prepended to the hedger** (`prepend=True`): the hedger whose module is `f ∘ g`. -/
theorem prepended_hook (g f : List α → List α) (fs : List (Feature α)) (m : Market α) (n h : Nat) :
    computeHedgeHooked (HookedHedger.pfhedge g [liftRow f] [] [] [] []) fs m n h
      = computeHedge (fun x => f (g x)) fs m n h := by
  rw [show HookedHedger.pfhedge g [liftRow f] [] [] [] [] = rowHooked g [f] [] [] [] [] from rfl,
    computeHedgeHooked_eq]
  exact map_rows_id _

/-- **Forward hook on the inner model**: the hedger whose module is `f ∘ g`. -/
theorem model_hook (g f : List α → List α) (fs : List (Feature α)) (m : Market α) (n h : Nat) :
    computeHedgeHooked (HookedHedger.pfhedge g [] [] [] [] [liftRow f]) fs m n h
      = computeHedge (fun x => f (g x)) fs m n h := by
  rw [show HookedHedger.pfhedge g [] [] [] [] [liftRow f] = rowHooked g [] [] [] [] [f] from rfl,
    computeHedgeHooked_eq]
  exact map_rows_id _

/-- **Forward pre-hook on the hedger**: the hedger whose module is `g ∘ f`. -/
theorem hedger_pre_hook (g f : List α → List α) (fs : List (Feature α)) (m : Market α)
    (n h : Nat) :
    computeHedgeHooked (HookedHedger.pfhedge g [] [] [liftRow f] [] []) fs m n h
      = computeHedge (fun x => g (f x)) fs m n h := by
  rw [show HookedHedger.pfhedge g [] [] [liftRow f] [] [] = rowHooked g [] [] [f] [] [] from rfl,
    computeHedgeHooked_eq]
  exact map_rows_id _

/-- **Forward pre-hook on the inner model**: the hedger whose module is `g ∘ f`. -/
theorem model_pre_hook (g f : List α → List α) (fs : List (Feature α)) (m : Market α)
    (n h : Nat) :
    computeHedgeHooked (HookedHedger.pfhedge g [] [] [] [liftRow f] []) fs m n h
      = computeHedge (fun x => g (f x)) fs m n h := by
  rw [show HookedHedger.pfhedge g [] [] [] [liftRow f] [] = rowHooked g [] [] [] [f] [] from rfl,
    computeHedgeHooked_eq]
  exact map_rows_id _

/-- **Refinement.** Without user hooks the hooked model is the existing `computeHedge`. -/
theorem plain_eq_computeHedge (g : List α → List α) (fs : List (Feature α)) (m : Market α)
    (n h : Nat) : computeHedgeHooked (HookedHedger.plain g) fs m n h = computeHedge g fs m n h := by
  rw [show HookedHedger.plain g = rowHooked g [] [] [] [] [] from rfl, computeHedgeHooked_eq]
  exact map_rows_id _

/-- **Where pfhedge's own hook sits among the forward hooks does not matter to the caller**: for
ANY list of forward hooks (tensor-level maps, any number of `savePrev`), `self(input)` returns the
model output with every user map applied in order; the placement only decides what is stored. -/
theorem reported_independent_of_placement (hh : HookedHedger α) (st x : List (List α)) :
    (callHedger hh st x).1 = applyAll (userMaps hh.hooks) (callModel hh (applyAll hh.preHooks x)) := by
  unfold callHedger
  generalize callModel hh (applyAll hh.preHooks x) = out
  induction hh.hooks generalizing out st with
  | nil => rfl
  | cons hk rest ih => cases hk <;> simp only [runHooks, userMaps, applyAll, ih]

/-- a hook list without pfhedge's hook leaves the buffer alone (what `prev_hedge` would read had
the user removed `save_prev_output`): the stored value changes only through `savePrev` -/
theorem stored_unchanged_without_savePrev (fs : List (TMap α)) (out st : List (List α)) :
    (runHooks (fs.map FwdHook.user) out st).2 = st := by
  rw [runHooks_users]

/-! ### which value `prev_hedge` reads -/

/-- **Step 0 reads zeros**, whatever hooks are registered (`save_prev_output(self, (), zeros)` is a
direct call). -/
theorem first_read_zeros (hh : HookedHedger α) (fs : List (Feature α)) (m : Market α) (n h : Nat)
    {s : HookStep α} {rest : List (HookStep α)}
    (ht : hedgeTraceHooked hh fs m n h = .ok (s :: rest)) : s.read = List.replicate h 0 := by
  have := hookedLoop_head_read hh fs m _ _ _ _ _ ht
  simp only [List.cons.injEq, and_true] at this
  exact this.symm

/-- **The value read at step `j+1` is the value STORED by the call of step `j`** — for every
hedger, whatever its hooks. -/
theorem read_is_stored_before (hh : HookedHedger α) (fs : List (Feature α)) (m : Market α) :
    ∀ (k i : Nat) (st : List (List α)) (steps : List (HookStep α)),
      hookedLoop hh fs m k i st = .ok steps →
      ∀ (j : Nat) (s s' : HookStep α), steps[j]? = some s → steps[j + 1]? = some s' →
        s.stored = [s'.read] := by
  intro k
  induction k with
  | zero =>
    intro i st steps hl j s s' hs
    simp only [hookedLoop, Except.ok.injEq] at hl
    subst hl
    simp at hs
  | succ k ih =>
    intro i st steps hl j s s' hs hs'
    simp only [hookedLoop] at hl
    obtain ⟨prev, _, hl⟩ := bind_ok hl
    obtain ⟨x, _, hl⟩ := bind_ok hl
    obtain ⟨rest, hrest, hl⟩ := bind_ok hl
    have hl := pure_ok hl
    subst hl
    cases j with
    | zero =>
      simp only [List.getElem?_cons_zero, Option.some.injEq] at hs
      simp only [List.getElem?_cons_succ] at hs'
      subst hs
      cases rest with
      | nil => simp at hs'
      | cons r0 rs =>
        simp only [List.getElem?_cons_zero, Option.some.injEq] at hs'
        subst hs'
        exact hookedLoop_head_read hh fs m _ _ _ _ _ hrest
    | succ j =>
      simp only [List.getElem?_cons_succ] at hs hs'
      exact ih _ _ _ hrest j s s' hs hs'

/-- **What is stored and what is reported at each step** of a hedger with row-wise hooks: with `x`
the features of step `i + j` (built from the value read), the buffer receives
`g' x = (B ∘ MH ∘ g ∘ MP ∘ P) x` — processed by the prepended and the inner-model hooks, NOT by the
appended ones — and `compute_hedge` receives `A (g' x)`. -/
theorem step_rowHooked (g : List α → List α) (B A P MP MH : List (List α → List α))
    (fs : List (Feature α)) (m : Market α) :
    ∀ (k i : Nat) (st : List (List α)) (steps : List (HookStep α)),
      hookedLoop (rowHooked g B A P MP MH) fs m k i st = .ok steps →
      ∀ (j : Nat) (s : HookStep α), steps[j]? = some s →
        ∃ x, inputsAt fs m s.read (i + j) = .ok x ∧
          s.stored = [impliedModel g B P MP MH x] ∧
          s.out = [applyAll A (impliedModel g B P MP MH x)] := by
  intro k
  induction k with
  | zero =>
    intro i st steps hl j s hs
    simp only [hookedLoop, Except.ok.injEq] at hl
    subst hl
    simp at hs
  | succ k ih =>
    intro i st steps hl j s hs
    simp only [hookedLoop, callHedger_rowHooked, List.map_cons, List.map_nil] at hl
    obtain ⟨prev, _, hl⟩ := bind_ok hl
    obtain ⟨x, hx, hl⟩ := bind_ok hl
    obtain ⟨rest, hrest, hl⟩ := bind_ok hl
    have hl := pure_ok hl
    subst hl
    cases j with
    | zero =>
      simp only [List.getElem?_cons_zero, Option.some.injEq] at hs
      subst hs
      exact ⟨x, hx, rfl, rfl⟩
    | succ j =>
      simp only [List.getElem?_cons_succ] at hs
      obtain ⟨x', hx', h1, h2⟩ := ih _ _ _ hrest j s hs
      refine ⟨x', ?_, h1, h2⟩
      rw [show i + (j + 1) = i + 1 + j by omega]
      exact hx'

/-- **Appended hook: `prev_hedge` reads the RAW model output** — step `j` reports `f (g x)` and
step `j+1` reads `g x`. -/
theorem appended_hook_reads_raw (g f : List α → List α) (fs : List (Feature α)) (m : Market α)
    {k i : Nat} {st : List (List α)} {steps : List (HookStep α)}
    (hl : hookedLoop (HookedHedger.pfhedge g [] [liftRow f] [] [] []) fs m k i st = .ok steps)
    {j : Nat} {s s' : HookStep α} (hs : steps[j]? = some s) (hs' : steps[j + 1]? = some s') :
    ∃ x, inputsAt fs m s.read (i + j) = .ok x ∧ s.out = [f (g x)] ∧ s'.read = g x := by
  obtain ⟨x, hx, h1, h2⟩ := step_rowHooked g [] [f] [] [] [] fs m k i st steps hl j s hs
  have h3 := read_is_stored_before _ fs m k i st steps hl j s s' hs hs'
  rw [h1] at h3
  simp only [List.cons.injEq, and_true] at h3
  exact ⟨x, hx, h2, h3.symm⟩

/-- **Prepended hook: `prev_hedge` reads the PROCESSED output** — step `j` reports `f (g x)` and
step `j+1` reads `f (g x)`. -/
theorem prepended_hook_reads_processed (g f : List α → List α) (fs : List (Feature α))
    (m : Market α) {k i : Nat} {st : List (List α)} {steps : List (HookStep α)}
    (hl : hookedLoop (HookedHedger.pfhedge g [liftRow f] [] [] [] []) fs m k i st = .ok steps)
    {j : Nat} {s s' : HookStep α} (hs : steps[j]? = some s) (hs' : steps[j + 1]? = some s') :
    ∃ x, inputsAt fs m s.read (i + j) = .ok x ∧ s.out = [f (g x)] ∧ s'.read = f (g x) := by
  obtain ⟨x, hx, h1, h2⟩ := step_rowHooked g [f] [] [] [] [] fs m k i st steps hl j s hs
  have h3 := read_is_stored_before _ fs m k i st steps hl j s s' hs hs'
  rw [h1] at h3
  simp only [List.cons.injEq, and_true] at h3
  exact ⟨x, hx, h2, h3.symm⟩

/-- **Hook on the inner model: `prev_hedge` reads the PROCESSED output.** -/
theorem model_hook_reads_processed (g f : List α → List α) (fs : List (Feature α))
    (m : Market α) {k i : Nat} {st : List (List α)} {steps : List (HookStep α)}
    (hl : hookedLoop (HookedHedger.pfhedge g [] [] [] [] [liftRow f]) fs m k i st = .ok steps)
    {j : Nat} {s s' : HookStep α} (hs : steps[j]? = some s) (hs' : steps[j + 1]? = some s') :
    ∃ x, inputsAt fs m s.read (i + j) = .ok x ∧ s.out = [f (g x)] ∧ s'.read = f (g x) := by
  obtain ⟨x, hx, h1, h2⟩ := step_rowHooked g [] [] [] [] [f] fs m k i st steps hl j s hs
  have h3 := read_is_stored_before _ fs m k i st steps hl j s s' hs hs'
  rw [h1] at h3
  simp only [List.cons.injEq, and_true] at h3
  exact ⟨x, hx, h2, h3.symm⟩

end
end PfVerif.C02Hooks

namespace PfVerif.C02Hooks
open PfVerif PfVerif.C02 PfVerif.C02Aux PfVerif.C02HooksAux

/-! ### non-anticipativity and no trade at maturity for hooked hedgers (at ℝ) -/

/-- **A hedger with row-wise user hooks is non-anticipative** (hooks in every placement, both
branches): positions for steps `0..i` do not move when the market changes after step `i`. -/
theorem hooked_nonanticipative (g : List ℝ → List ℝ) (B A P MP MH : List (List ℝ → List ℝ))
    (fs : List (Feature ℝ)) {i n hh : ℕ} {m m' : Market ℝ} {r r' : List (List ℝ)}
    (h : Agree i m m')
    (h1 : computeHedgeHooked (rowHooked g B A P MP MH) fs m n hh = .ok r)
    (h2 : computeHedgeHooked (rowHooked g B A P MP MH) fs m' n hh = .ok r') :
    r.take (i + 1) = r'.take (i + 1) := by
  rw [computeHedgeHooked_eq] at h1 h2
  obtain ⟨r0, e1, rfl⟩ := map_ok h1
  obtain ⟨r0', e2, rfl⟩ := map_ok h2
  rw [← List.map_take, ← List.map_take, hedge_nonanticipative _ fs h e1 e2]

/-- **No trade at maturity, whatever the row-wise hooks do to the positions**: the final row
repeats the one held over the last step. -/
theorem hooked_last_eq_prev (g : List ℝ → List ℝ) (B A P MP MH : List (List ℝ → List ℝ))
    (fs : List (Feature ℝ)) {m : Market ℝ} {n hh : ℕ} {r : List (List ℝ)}
    (h : computeHedgeHooked (rowHooked g B A P MP MH) fs m n hh = .ok r) :
    ∃ x rest, r = rest ++ [x, x] := by
  rw [computeHedgeHooked_eq] at h
  obtain ⟨r0, e, rfl⟩ := map_ok h
  obtain ⟨x, rest, rfl⟩ := last_eq_prev _ fs e
  exact ⟨applyAll A x, rest.map (applyAll A), by simp⟩

/-- a successful hooked `compute_hedge` returns `n ≥ 2` rows -/
theorem hooked_length (g : List ℝ → List ℝ) (B A P MP MH : List (List ℝ → List ℝ))
    (fs : List (Feature ℝ)) {m : Market ℝ} {n hh : ℕ} {r : List (List ℝ)}
    (h : computeHedgeHooked (rowHooked g B A P MP MH) fs m n hh = .ok r) :
    r.length = n ∧ 2 ≤ n := by
  rw [computeHedgeHooked_eq] at h
  obtain ⟨r0, e, rfl⟩ := map_ok h
  simpa using computeHedge_length _ fs e

/-- **The whole hooked hedge is determined by the market up to step `n-2`.** -/
theorem hooked_determined_before_last (g : List ℝ → List ℝ)
    (B A P MP MH : List (List ℝ → List ℝ)) (fs : List (Feature ℝ)) {i n hh : ℕ}
    {m m' : Market ℝ} {r r' : List (List ℝ)} (h : Agree i m m') (hn : n ≤ i + 2)
    (h1 : computeHedgeHooked (rowHooked g B A P MP MH) fs m n hh = .ok r)
    (h2 : computeHedgeHooked (rowHooked g B A P MP MH) fs m' n hh = .ok r') : r = r' := by
  rw [computeHedgeHooked_eq] at h1 h2
  obtain ⟨r0, e1, rfl⟩ := map_ok h1
  obtain ⟨r0', e2, rfl⟩ := map_ok h2
  rw [hedge_determined_before_last _ fs h hn e1 e2]

/-- **Step by step, ANY hooks are non-anticipative** (they are handed one time step): the loop over
steps `j, …, j+k-1 ≤ i` gives literally the same steps (or error) on two markets that agree up to
step `i` — for hook maps that are not row-wise as well. -/
theorem hookedLoop_nonanticipative (hh : HookedHedger ℝ) (fs : List (Feature ℝ)) {i : ℕ}
    {m m' : Market ℝ} (h : Agree i m m') : ∀ (k j : ℕ) (st : List (List ℝ)), j + k ≤ i + 1 →
      hookedLoop hh fs m k j st = hookedLoop hh fs m' k j st := by
  intro k
  induction k with
  | zero => intros; rfl
  | succ k ih =>
    intro j st hj
    simp only [hookedLoop]
    congr
    funext prev
    rw [inputsAt_prefix fs prev (agree_mono h (by omega : j ≤ i))]
    congr
    funext x
    rw [ih (j + 1) _ (by omega)]

/-! ### non-vacuity -/

/-- a model consuming `prev_hedge`: features `[prev_hedge, spot]`, position `spot - prev` -/
def exG : List ℝ → List ℝ
  | [p, s] => [s - p]
  | _ => []

/-- position cap at 2 -/
def exCap : List ℝ → List ℝ := List.map (fun v => min v 2)

def exMkt : Market ℝ := ⟨[1, 4, 3, 9], [1, 1, 1, 1], [1, 1, 1, 1], [1, 4, 3, 9], 1, 1, [0, 0, 0, 0]⟩
def exMkt' : Market ℝ := ⟨[1, 4, 6, 9], [1, 1, 1, 1], [1, 1, 1, 1], [1, 4, 6, 9], 1, 1, [0, 0, 0, 0]⟩

/-- the hook-free hedger on the example market -/
example : computeHedge exG [.base .prevHedge, .base (.underlierSpot false)] exMkt 4 1
    = .ok [[1], [3], [0], [0]] := by
  norm_num [computeHedge, Feature.stateDependent, BaseFeature.stateDependent, hedgeLoop, inputsAt,
    Feature.getAt, BaseFeature.getAt, idx, logIf, appendLast, lastL, bind, Except.bind, pure,
    Except.pure, exG, exMkt]

/-- **the same cap appended and prepended gives different hedges**: appended, the recurrence runs on
the raw positions 1, 3, 0 and the cap is applied to the report … -/
example : computeHedgeHooked (HookedHedger.pfhedge exG [] [liftRow exCap] [] [] [])
      [.base .prevHedge, .base (.underlierSpot false)] exMkt 4 1
    = .ok [[1], [2], [0], [0]] := by
  rw [appended_hook]
  norm_num [computeHedge, Feature.stateDependent, BaseFeature.stateDependent, hedgeLoop, inputsAt,
    Feature.getAt, BaseFeature.getAt, idx, logIf, appendLast, lastL, bind, Except.bind, pure,
    Except.pure, exG, exMkt, exCap, Except.map]

/-- … prepended, step 2 reads the capped position 2 and holds `3 - 2 = 1` -/
example : computeHedgeHooked (HookedHedger.pfhedge exG [liftRow exCap] [] [] [] [])
      [.base .prevHedge, .base (.underlierSpot false)] exMkt 4 1
    = .ok [[1], [2], [1], [1]] := by
  rw [prepended_hook]
  norm_num [computeHedge, Feature.stateDependent, BaseFeature.stateDependent, hedgeLoop, inputsAt,
    Feature.getAt, BaseFeature.getAt, idx, logIf, appendLast, lastL, bind, Except.bind, pure,
    Except.pure, exG, exMkt, exCap]

/-- the trace of the appended cap, evaluated directly from the protocol (not through the reduction):
reads 0, 1, 3 (raw), reports 1, 2, 0 -/
example : (hedgeTraceHooked (HookedHedger.pfhedge exG [] [liftRow exCap] [] [] [])
      [.base .prevHedge, .base (.underlierSpot false)] exMkt 4 1).map
        (List.map (fun s => (s.read, s.out)))
    = .ok [([0], [[1]]), ([1], [[2]]), ([3], [[0]])] := by
  norm_num [hedgeTraceHooked, hookedLoop, readPrev, callHedger, callModel, runHooks, applyAll,
    HookedHedger.pfhedge, liftRow, inputsAt, Feature.getAt, BaseFeature.getAt, idx, logIf, bind,
    Except.bind, pure, Except.pure, exG, exMkt, exCap, Except.map]

/-- the trace of the prepended cap: reads 0, 1, 2 (processed), reports 1, 2, 1 -/
example : (hedgeTraceHooked (HookedHedger.pfhedge exG [liftRow exCap] [] [] [] [])
      [.base .prevHedge, .base (.underlierSpot false)] exMkt 4 1).map
        (List.map (fun s => (s.read, s.out)))
    = .ok [([0], [[1]]), ([1], [[2]]), ([2], [[1]])] := by
  norm_num [hedgeTraceHooked, hookedLoop, readPrev, callHedger, callModel, runHooks, applyAll,
    HookedHedger.pfhedge, liftRow, inputsAt, Feature.getAt, BaseFeature.getAt, idx, logIf, bind,
    Except.bind, pure, Except.pure, exG, exMkt, exCap, Except.map]

/-- the same with the cap on the inner model -/
example : (hedgeTraceHooked (HookedHedger.pfhedge exG [] [] [] [] [liftRow exCap])
      [.base .prevHedge, .base (.underlierSpot false)] exMkt 4 1).map
        (List.map (fun s => (s.read, s.out)))
    = .ok [([0], [[1]]), ([1], [[2]]), ([2], [[1]])] := by
  norm_num [hedgeTraceHooked, hookedLoop, readPrev, callHedger, callModel, runHooks, applyAll,
    HookedHedger.pfhedge, liftRow, inputsAt, Feature.getAt, BaseFeature.getAt, idx, logIf, bind,
    Except.bind, pure, Except.pure, exG, exMkt, exCap, Except.map]

/-- a pre-hook halving the features: the hedger of `g ∘ half`, here `s/2 - p/2` -/
example : computeHedgeHooked (HookedHedger.pfhedge exG [] [] [liftRow (List.map (· / 2))] [] [])
      [.base .prevHedge, .base (.underlierSpot false)] exMkt 4 1
    = .ok [[1 / 2], [7 / 4], [5 / 8], [5 / 8]] := by
  rw [hedger_pre_hook]
  norm_num [computeHedge, Feature.stateDependent, BaseFeature.stateDependent, hedgeLoop, inputsAt,
    Feature.getAt, BaseFeature.getAt, idx, logIf, appendLast, lastL, bind, Except.bind, pure,
    Except.pure, exG, exMkt]

/-- the `ok` hypotheses of `hooked_nonanticipative` are satisfiable, with markets that agree up to
step 1 only and hedges that do differ afterwards -/
example : Agree 1 exMkt exMkt' ∧ ¬ Agree 2 exMkt exMkt' ∧
    computeHedgeHooked (rowHooked exG [exCap] [] [] [] []) [.base .prevHedge,
      .base (.underlierSpot false)] exMkt' 4 1 = .ok [[1], [2], [2], [2]] := by
  refine ⟨by simp [Agree, exMkt, exMkt'], by simp [Agree, exMkt, exMkt'], ?_⟩
  rw [computeHedgeHooked_eq]
  norm_num [computeHedge, Feature.stateDependent, BaseFeature.stateDependent, hedgeLoop, inputsAt,
    Feature.getAt, BaseFeature.getAt, idx, logIf, appendLast, lastL, bind, Except.bind, pure,
    Except.pure, exG, exMkt', exCap, Except.map, impliedModel, applyAll]

/-- **row-wise is needed in the all-steps-at-once branch**: a hook that reverses the time axis of
the tensor it is handed makes step 0 depend on the price at step 2 -/
example :
    computeHedgeHooked (HookedHedger.pfhedge (fun x => x) [] [List.reverse] [] [] [])
      [.base (.underlierSpot false)] exMkt 4 1 = .ok [[3], [4], [1], [1]] ∧
    computeHedgeHooked (HookedHedger.pfhedge (fun x => x) [] [List.reverse] [] [] [])
      [.base (.underlierSpot false)] exMkt' 4 1 = .ok [[6], [4], [1], [1]] := by
  constructor <;>
    simp [computeHedgeHooked, Feature.stateDependent, BaseFeature.stateDependent, inputsAll,
      Feature.getAll, BaseFeature.getAll, logIf, appendLast, lastL, callHedger, callModel, runHooks,
      applyAll, HookedHedger.pfhedge, bind, Except.bind, pure, Except.pure, exMkt, exMkt']

end PfVerif.C02Hooks
