/-
  C08 (dual part) — forward-mode evaluation of the Black–Scholes pricers IS differentiation.

  pfhedge's `autogreek.delta/gamma/vega/theta` differentiate a pricer with torch autograd
  (`BSLookbackOption` and the default `BSModuleMixin` Greeks are computed that way from the module's
  own `price`).  The same generic model definition (Model/BS.lean) evaluated at `Dual ℝ`
  (Inst/Dual.lean) is forward-mode differentiation; the harness compares torch's autogreek results
  with the model at `Dual Float` (`Dual (Dual Float)` for gamma).

  Method.  `C08DualAux`: carrier-generic closed forms (`d1E`, `euroE`, `binE`, `amE`, `lb0E`, `lb1E`)
  that the model returns whenever validation passes and the `where` guard is inactive (`Guards`);
  the guards hold at `ℝ`, `Dual ℝ`, `Dual (Dual ℝ)` when the primal parts of `t`, `v` are positive
  (comparisons on dual numbers look at the primal part); the closed forms at `Dual ℝ` track the
  closed forms at `ℝ` by the `Tracks` closure lemmas (Lemmas/DualCalc.lean).  Second order:
  `Tracks2 DD f θ` (outer-primal part tracks `f`, outer-ε part tracks a local derivative of `f`),
  with its own closure lemmas obtained from the first-order ones.

  `C08Dual` (property theorems):
    *_dual_curve            — along any tracked curve of inputs with `t, v > 0`
    d1/d2_dual_tracks_s/_t/_v, {european,binary,american,lookback}_price_dual_s/_v/_t/_spot
    {european,binary,american}_autogreek_delta/_vega/_theta, *_dual_s_eps (ε = S·delta)
                            — ε-parts equal the closed-form Greeks of C08
    american_price_dual_after_hit, american_autogreek_after_hit — `0 ≤ m`: ε = 0
    lookback_autogreek_delta/_vega/_theta — ε-part = derivative of the lookback price
    *_price_dual2_curve/_s/_spot, {european,binary,american}_autogreek_gamma,
    lookback_autogreek_gamma — `.eps.eps` at `Dual (Dual ℝ)` = second derivative (= closed-form gamma)
    `example`s              — non-vacuity (concrete values of the ε-parts)
-/
import PfVerif.Lemmas.DualCalc
import PfVerif.Props.C08
import PfVerif.Props.C09

namespace PfVerif.C08DualAux
open PfVerif Transc Filter Topology PfVerif.BSCalc PfVerif.C08Aux

/-! ### closed forms of the model, generic in the carrier -/

section generic
variable {α : Type} [Add α] [Sub α] [Mul α] [Div α] [Neg α] [OfNat α 0] [OfNat α 1] [OfNat α 2]
  [LE α] [DecidableLE α] [LT α] [DecidableLT α] [Transc α]

/-- validation passes and the `where` guard of `d1`/`d2` is inactive -/
def Guards (t v : α) : Prop := bsValidate t v = .ok () ∧ isZero (v * sqrt t) = false

def wE (t v : α) : α := v * sqrt t
def d1E (s t v : α) : α := s / wE t v + wE t v / 2
def d2E (s t v : α) : α := s / wE t v - wE t v / 2

def euroE (s t v k : α) (call : Bool) : α :=
  if call then exp s * k * ncdf (d1E s t v) - k * ncdf (d2E s t v)
  else exp s * k * ncdf (d1E s t v) - k * ncdf (d2E s t v) + k * (1 - exp s)

def binE (s t v : α) (call : Bool) : α :=
  if call then ncdf (d2E s t v) else 1 - ncdf (d2E s t v)

def amE (s t v : α) : α := ncdf (d2E s t v) + exp s * ncdf (d1E s t v)

def lb0E (s t v k : α) : α :=
  exp s * k * (ncdf (d1E s t v) + (s + wE t v * wE t v / 2) * ncdf (d1E s t v)
    + wE t v * npdf (d1E s t v)) - k * ncdf (d2E s t v)

def lb1E (s m t v k : α) : α :=
  exp s * k * (ncdf (d1E (s - m) t v) + ((s - m) + wE t v * wE t v / 2) * ncdf (d1E (s - m) t v)
    + wE t v * npdf (d1E (s - m) t v)) - k + exp m * k * (1 - ncdf (d2E (s - m) t v))

omit [Sub α] [Neg α] [OfNat α 1] [LT α] [DecidableLT α] in
theorem bsD1_eq {t v : α} (h : Guards t v) (s : α) : bsD1 s t v = .ok (d1E s t v) := by
  unfold bsD1
  rw [h.1]
  show Except.ok (if (!(isZero s) || !(isZero (v * sqrt t))) = true then _ else _) = _
  rw [h.2]
  simp [d1E, wE]

omit [Add α] [Neg α] [OfNat α 1] [LT α] [DecidableLT α] in
theorem bsD2_eq {t v : α} (h : Guards t v) (s : α) : bsD2 s t v = .ok (d2E s t v) := by
  unfold bsD2
  rw [h.1]
  show Except.ok (if (!(isZero s) || !(isZero (v * sqrt t))) = true then _ else _) = _
  rw [h.2]
  simp [d2E, wE]

omit [Neg α] [LT α] [DecidableLT α] in
theorem european_eq {t v : α} (h : Guards t v) (s k : α) (call : Bool) :
    bsEuropeanPrice s t v k call = .ok (euroE s t v k call) := by
  unfold bsEuropeanPrice
  rw [bsD1_eq h, bsD2_eq h]
  cases call <;> rfl

omit [Add α] [Neg α] [LT α] [DecidableLT α] in
theorem binary_eq {t v : α} (h : Guards t v) (s : α) (call : Bool) :
    bsBinaryPrice s t v call = .ok (binE s t v call) := by
  unfold bsBinaryPrice
  rw [bsD2_eq h]
  rfl

omit [Neg α] in
theorem american_eq {t v : α} (h : Guards t v) (s m : α) :
    bsAmericanBinaryPrice s m t v = .ok (if m < 0 then amE s t v else 1) := by
  unfold bsAmericanBinaryPrice
  rw [bsD1_eq h, bsD2_eq h]
  rfl

omit [Neg α] in
theorem lookback_eq {t v : α} (h : Guards t v) (s m k : α) :
    bsLookbackPrice s m t v k
      = .ok (if exp m * k < k then lb0E s t v k else lb1E s m t v k) := by
  unfold bsLookbackPrice
  rw [bsD1_eq h, bsD2_eq h, bsD1_eq h, bsD2_eq h]
  rfl

end generic

/-! ### the guards at `ℝ` and at `Dual ℝ` -/

theorem guards_real {t v : ℝ} (ht : 0 < t) (hv : 0 < v) : Guards t v :=
  ⟨bsValidate_ok ht hv, isZero_of_ne (w_pos ht hv).ne'⟩

theorem guards_dual {T V : Dual ℝ} (ht : 0 < T.val) (hv : 0 < V.val) : Guards T V := by
  constructor
  · simp [bsValidate, Dual.le_iff, ht.le, hv.le]
  · have hw : 0 < V.val * Real.sqrt T.val := w_pos ht hv
    have h0 : ¬ (V * sqrt T ≤ 0) := fun h =>
      absurd (show V.val * Real.sqrt T.val ≤ 0 from h) (not_le.2 hw)
    simp [isZero, h0]

section real
variable {t v : ℝ} (ht : 0 < t) (hv : 0 < v)
include ht hv

theorem val_d1 (s : ℝ) : val (bsD1 s t v) = d1E s t v := by
  rw [bsD1_eq (guards_real ht hv), val_ok]
theorem val_d2 (s : ℝ) : val (bsD2 s t v) = d2E s t v := by
  rw [bsD2_eq (guards_real ht hv), val_ok]
theorem val_european (s k : ℝ) (call : Bool) :
    val (bsEuropeanPrice s t v k call) = euroE s t v k call := by
  rw [european_eq (guards_real ht hv), val_ok]
theorem val_binary (s : ℝ) (call : Bool) : val (bsBinaryPrice s t v call) = binE s t v call := by
  rw [binary_eq (guards_real ht hv), val_ok]
theorem val_american (s m : ℝ) :
    val (bsAmericanBinaryPrice s m t v) = if m < 0 then amE s t v else 1 := by
  rw [american_eq (guards_real ht hv), val_ok]
theorem val_lookback (s m k : ℝ) :
    val (bsLookbackPrice s m t v k)
      = if Real.exp m * k < k then lb0E s t v k else lb1E s m t v k := by
  rw [lookback_eq (guards_real ht hv), val_ok]
  rfl

end real

/-! ### the closed forms at `Dual ℝ` track the closed forms at `ℝ` along any curve -/

section tracks
variable {θ : ℝ} {S T V Kd M : Dual ℝ} {sf tf vf kf mf : ℝ → ℝ}

theorem eventually_pos (hT : Tracks T tf θ) (hV : Tracks V vf θ) (ht : 0 < tf θ) (hv : 0 < vf θ) :
    ∀ᶠ x in 𝓝 θ, 0 < tf x ∧ 0 < vf x :=
  (continuousAt_const.eventually_lt hT.2.continuousAt ht).and
    (continuousAt_const.eventually_lt hV.2.continuousAt hv)

theorem tracks_wE (hT : Tracks T tf θ) (hV : Tracks V vf θ) (ht : 0 < tf θ) :
    Tracks (wE T V) (fun x => wE (tf x) (vf x)) θ :=
  hV.mul (hT.sqrt ht.ne')

theorem wE_ne {t v : ℝ} (ht : 0 < t) (hv : 0 < v) : wE t v ≠ 0 := (w_pos ht hv).ne'

theorem tracks_d1E (hS : Tracks S sf θ) (hT : Tracks T tf θ) (hV : Tracks V vf θ)
    (ht : 0 < tf θ) (hv : 0 < vf θ) :
    Tracks (d1E S T V) (fun x => d1E (sf x) (tf x) (vf x)) θ :=
  (hS.div (tracks_wE hT hV ht) (wE_ne ht hv)).add
    ((tracks_wE hT hV ht).div (tracks_ofNat 2) two_ne_zero)

theorem tracks_d2E (hS : Tracks S sf θ) (hT : Tracks T tf θ) (hV : Tracks V vf θ)
    (ht : 0 < tf θ) (hv : 0 < vf θ) :
    Tracks (d2E S T V) (fun x => d2E (sf x) (tf x) (vf x)) θ :=
  (hS.div (tracks_wE hT hV ht) (wE_ne ht hv)).sub
    ((tracks_wE hT hV ht).div (tracks_ofNat 2) two_ne_zero)

theorem tracks_euroE (hS : Tracks S sf θ) (hT : Tracks T tf θ) (hV : Tracks V vf θ)
    (hK : Tracks Kd kf θ) (ht : 0 < tf θ) (hv : 0 < vf θ) (call : Bool) :
    Tracks (euroE S T V Kd call) (fun x => euroE (sf x) (tf x) (vf x) (kf x) call) θ := by
  have h1 := (tracks_d1E hS hT hV ht hv).ncdf
  have h2 := (tracks_d2E hS hT hV ht hv).ncdf
  have hc := ((hS.exp.mul hK).mul h1).sub (hK.mul h2)
  cases call
  · exact hc.add (hK.mul (tracks_one.sub hS.exp))
  · exact hc

theorem tracks_binE (hS : Tracks S sf θ) (hT : Tracks T tf θ) (hV : Tracks V vf θ)
    (ht : 0 < tf θ) (hv : 0 < vf θ) (call : Bool) :
    Tracks (binE S T V call) (fun x => binE (sf x) (tf x) (vf x) call) θ := by
  have h2 := (tracks_d2E hS hT hV ht hv).ncdf
  cases call
  · exact tracks_one.sub h2
  · exact h2

theorem tracks_amE (hS : Tracks S sf θ) (hT : Tracks T tf θ) (hV : Tracks V vf θ)
    (ht : 0 < tf θ) (hv : 0 < vf θ) :
    Tracks (amE S T V) (fun x => amE (sf x) (tf x) (vf x)) θ :=
  (tracks_d2E hS hT hV ht hv).ncdf.add (hS.exp.mul (tracks_d1E hS hT hV ht hv).ncdf)

/-- the bracket of the lookback formula -/
theorem tracks_lbBracket {A : Dual ℝ} {af : ℝ → ℝ} (hA : Tracks A af θ) (hT : Tracks T tf θ)
    (hV : Tracks V vf θ) (ht : 0 < tf θ) (hv : 0 < vf θ) :
    Tracks (ncdf (d1E A T V) + (A + wE T V * wE T V / 2) * ncdf (d1E A T V)
        + wE T V * npdf (d1E A T V))
      (fun x => ncdf (d1E (af x) (tf x) (vf x))
        + (af x + wE (tf x) (vf x) * wE (tf x) (vf x) / 2) * ncdf (d1E (af x) (tf x) (vf x))
        + wE (tf x) (vf x) * npdf (d1E (af x) (tf x) (vf x))) θ := by
  have hd := tracks_d1E hA hT hV ht hv
  have hw := tracks_wE hT hV ht
  exact (hd.ncdf.add ((hA.add ((hw.mul hw).div (tracks_ofNat 2) two_ne_zero)).mul hd.ncdf)).add
    (hw.mul hd.npdf)

theorem tracks_lb0E (hS : Tracks S sf θ) (hT : Tracks T tf θ) (hV : Tracks V vf θ)
    (hK : Tracks Kd kf θ) (ht : 0 < tf θ) (hv : 0 < vf θ) :
    Tracks (lb0E S T V Kd) (fun x => lb0E (sf x) (tf x) (vf x) (kf x)) θ :=
  ((hS.exp.mul hK).mul (tracks_lbBracket hS hT hV ht hv)).sub
    (hK.mul (tracks_d2E hS hT hV ht hv).ncdf)

theorem tracks_lb1E (hS : Tracks S sf θ) (hM : Tracks M mf θ) (hT : Tracks T tf θ)
    (hV : Tracks V vf θ) (hK : Tracks Kd kf θ) (ht : 0 < tf θ) (hv : 0 < vf θ) :
    Tracks (lb1E S M T V Kd) (fun x => lb1E (sf x) (mf x) (tf x) (vf x) (kf x)) θ :=
  (((hS.exp.mul hK).mul (tracks_lbBracket (hS.sub hM) hT hV ht hv)).sub hK).add
    ((hM.exp.mul hK).mul (tracks_one.sub (tracks_d2E (hS.sub hM) hT hV ht hv).ncdf))

end tracks

end PfVerif.C08DualAux

namespace PfVerif.C08DualAux
open PfVerif Transc Filter Topology PfVerif.BSCalc PfVerif.C08Aux

/-- if the dual evaluation succeeds with a tracked result and the derivative is known in closed
form, the ε-part is that closed form -/
theorem greek_of_tracks {R : Except Err (Dual ℝ)} {f : ℝ → ℝ} {θ c : ℝ}
    (h : ∃ D, R = .ok D ∧ Tracks D f θ) (hc : HasDerivAt f c θ) :
    ∃ D, R = .ok D ∧ D.val = f θ ∧ D.eps = c := by
  obtain ⟨D, h1, h2⟩ := h
  exact ⟨D, h1, h2.1, h2.2.unique hc⟩

/-- from the spot parameterisation `S ↦ f (log (S / K))` to the log-moneyness: `∂/∂s = S ∂/∂S` -/
theorem hasDerivAt_of_spot {f : ℝ → ℝ} {K s δ : ℝ} (hK : 0 < K)
    (h : HasDerivAt (fun S' => f (Real.log (S' / K))) δ (K * Real.exp s)) :
    HasDerivAt f (K * Real.exp s * δ) s := by
  have h1 : HasDerivAt (fun s' => K * Real.exp s') (K * Real.exp s) s :=
    (Real.hasDerivAt_exp s).const_mul K
  have h2 := h.comp s h1
  refine (h2.congr_deriv (mul_comm _ _)).congr_of_eventuallyEq (Eventually.of_forall fun s' => ?_)
  show f s' = f (Real.log (K * Real.exp s' / K))
  rw [mul_div_cancel_left₀ _ hK.ne', Real.log_exp]

theorem log_spot (K s : ℝ) (hK : 0 < K) : Real.log (K * Real.exp s / K) = s := by
  rw [mul_div_cancel_left₀ _ hK.ne', Real.log_exp]

/-- the spot `⟨S, 1⟩` enters the pricers as `log (⟨S, 1⟩ / ⟨K, 0⟩)` -/
theorem tracks_logMoneyness {S K : ℝ} (hS : 0 < S) (hK : 0 < K) :
    Tracks (log ((⟨S, 1⟩ : Dual ℝ) / ⟨K, 0⟩)) (fun S' => Real.log (S' / K)) S :=
  (tracks_var'.div (tracks_const K) hK.ne').log (div_pos hS hK).ne'

end PfVerif.C08DualAux

/-!
  ## C08 (dual part) — forward-mode evaluation of the Black–Scholes pricers is differentiation

  `autogreek.delta/gamma/vega/theta` differentiate a pricer with autograd.  The same generic model
  definition evaluated at `Dual ℝ` carries `⟨value, derivative⟩`; the theorems below say that the
  ε-part of the model's price functions at `Dual ℝ` is the derivative of the model at `ℝ`
  (`Tracks D f θ : D.val = f θ ∧ HasDerivAt f D.eps θ`) along any differentiable curve of inputs
  with `t, v > 0` (`*_dual_curve`), in particular when one input is seeded with ε = 1 and the others
  are constants (`*_dual_s/_v/_t/_spot`), and link the ε-parts to the closed-form Greeks of C08.
-/
namespace PfVerif.C08Dual
open PfVerif Transc Filter Topology PfVerif.BSCalc PfVerif.C08Aux PfVerif.C08DualAux

/-! ### along an arbitrary curve of inputs -/

section curve
variable {θ : ℝ} {S T V Kd : Dual ℝ} {sf tf vf kf : ℝ → ℝ}

theorem guards_of_tracks (hT : Tracks T tf θ) (hV : Tracks V vf θ) (ht : 0 < tf θ)
    (hv : 0 < vf θ) : Guards T V :=
  guards_dual (by rw [hT.1]; exact ht) (by rw [hV.1]; exact hv)

theorem d1_dual_curve (hS : Tracks S sf θ) (hT : Tracks T tf θ) (hV : Tracks V vf θ)
    (ht : 0 < tf θ) (hv : 0 < vf θ) :
    ∃ D, bsD1 S T V = .ok D ∧ Tracks D (fun x => val (bsD1 (sf x) (tf x) (vf x))) θ := by
  refine ⟨_, bsD1_eq (guards_of_tracks hT hV ht hv) S,
    (tracks_d1E hS hT hV ht hv).congr_eventually ?_⟩
  filter_upwards [eventually_pos hT hV ht hv] with x hx
  exact val_d1 hx.1 hx.2 _

theorem d2_dual_curve (hS : Tracks S sf θ) (hT : Tracks T tf θ) (hV : Tracks V vf θ)
    (ht : 0 < tf θ) (hv : 0 < vf θ) :
    ∃ D, bsD2 S T V = .ok D ∧ Tracks D (fun x => val (bsD2 (sf x) (tf x) (vf x))) θ := by
  refine ⟨_, bsD2_eq (guards_of_tracks hT hV ht hv) S,
    (tracks_d2E hS hT hV ht hv).congr_eventually ?_⟩
  filter_upwards [eventually_pos hT hV ht hv] with x hx
  exact val_d2 hx.1 hx.2 _

theorem european_price_dual_curve (hS : Tracks S sf θ) (hT : Tracks T tf θ) (hV : Tracks V vf θ)
    (hK : Tracks Kd kf θ) (ht : 0 < tf θ) (hv : 0 < vf θ) (call : Bool) :
    ∃ D, bsEuropeanPrice S T V Kd call = .ok D ∧
      Tracks D (fun x => val (bsEuropeanPrice (sf x) (tf x) (vf x) (kf x) call)) θ := by
  refine ⟨_, european_eq (guards_of_tracks hT hV ht hv) S Kd call,
    (tracks_euroE hS hT hV hK ht hv call).congr_eventually ?_⟩
  filter_upwards [eventually_pos hT hV ht hv] with x hx
  exact val_european hx.1 hx.2 _ _ _

theorem binary_price_dual_curve (hS : Tracks S sf θ) (hT : Tracks T tf θ) (hV : Tracks V vf θ)
    (ht : 0 < tf θ) (hv : 0 < vf θ) (call : Bool) :
    ∃ D, bsBinaryPrice S T V call = .ok D ∧
      Tracks D (fun x => val (bsBinaryPrice (sf x) (tf x) (vf x) call)) θ := by
  refine ⟨_, binary_eq (guards_of_tracks hT hV ht hv) S call,
    (tracks_binE hS hT hV ht hv call).congr_eventually ?_⟩
  filter_upwards [eventually_pos hT hV ht hv] with x hx
  exact val_binary hx.1 hx.2 _ _

/-- American binary, running maximum below the barrier (`m < 0`, a constant) -/
theorem american_price_dual_curve (hS : Tracks S sf θ) (hT : Tracks T tf θ) (hV : Tracks V vf θ)
    (ht : 0 < tf θ) (hv : 0 < vf θ) {m : ℝ} (hm : m < 0) :
    ∃ D, bsAmericanBinaryPrice S ⟨m, 0⟩ T V = .ok D ∧
      Tracks D (fun x => val (bsAmericanBinaryPrice (sf x) m (tf x) (vf x))) θ := by
  have hm' : (⟨m, 0⟩ : Dual ℝ) < 0 := hm
  refine ⟨_, by rw [american_eq (guards_of_tracks hT hV ht hv), if_pos hm'],
    (tracks_amE hS hT hV ht hv).congr_eventually ?_⟩
  filter_upwards [eventually_pos hT hV ht hv] with x hx
  rw [val_american hx.1 hx.2, if_pos hm]

/-- American binary once the barrier has been hit (`0 ≤ m`): the price is the constant one and its
ε-part vanishes, whatever is seeded -/
theorem american_price_dual_after_hit {M : Dual ℝ} (ht : 0 < T.val) (hv : 0 < V.val)
    (hm : 0 ≤ M.val) : bsAmericanBinaryPrice S M T V = .ok ⟨1, 0⟩ := by
  have hm' : ¬ M < 0 := fun h => absurd (show M.val < 0 from h) (not_lt.2 hm)
  rw [american_eq (guards_dual ht hv), if_neg hm']
  rfl

/-- lookback call, both branches; running maximum `m` and strike `K` constants -/
theorem lookback_price_dual_curve (hS : Tracks S sf θ) (hT : Tracks T tf θ) (hV : Tracks V vf θ)
    (ht : 0 < tf θ) (hv : 0 < vf θ) (m K : ℝ) :
    ∃ D, bsLookbackPrice S ⟨m, 0⟩ T V ⟨K, 0⟩ = .ok D ∧
      Tracks D (fun x => val (bsLookbackPrice (sf x) m (tf x) (vf x) K)) θ := by
  rw [lookback_eq (guards_of_tracks hT hV ht hv)]
  by_cases hb : Real.exp m * K < K
  · have hb' : exp (⟨m, 0⟩ : Dual ℝ) * ⟨K, 0⟩ < (⟨K, 0⟩ : Dual ℝ) := hb
    rw [if_pos hb']
    refine ⟨_, rfl, (tracks_lb0E hS hT hV (tracks_const K) ht hv).congr_eventually ?_⟩
    filter_upwards [eventually_pos hT hV ht hv] with x hx
    rw [val_lookback hx.1 hx.2, if_pos hb]
  · have hb' : ¬ exp (⟨m, 0⟩ : Dual ℝ) * ⟨K, 0⟩ < (⟨K, 0⟩ : Dual ℝ) := hb
    rw [if_neg hb']
    refine ⟨_, rfl,
      (tracks_lb1E hS (tracks_const m) hT hV (tracks_const K) ht hv).congr_eventually ?_⟩
    filter_upwards [eventually_pos hT hV ht hv] with x hx
    rw [val_lookback hx.1 hx.2, if_neg hb]

end curve

/-! ### one input seeded, the others constants -/

section seeded
variable {s t v K : ℝ}

/-! #### `d1`, `d2` -/

theorem d1_dual_tracks_s (s : ℝ) (ht : 0 < t) (hv : 0 < v) :
    ∃ D, bsD1 (⟨s, 1⟩ : Dual ℝ) ⟨t, 0⟩ ⟨v, 0⟩ = .ok D ∧ Tracks D (fun s' => val (bsD1 s' t v)) s :=
  d1_dual_curve tracks_var' (tracks_const t) (tracks_const v) ht hv

theorem d1_dual_tracks_t (s : ℝ) (ht : 0 < t) (hv : 0 < v) :
    ∃ D, bsD1 (⟨s, 0⟩ : Dual ℝ) ⟨t, 1⟩ ⟨v, 0⟩ = .ok D ∧ Tracks D (fun t' => val (bsD1 s t' v)) t :=
  d1_dual_curve (θ := t) (tracks_const s) tracks_var' (tracks_const v) ht hv

theorem d1_dual_tracks_v (s : ℝ) (ht : 0 < t) (hv : 0 < v) :
    ∃ D, bsD1 (⟨s, 0⟩ : Dual ℝ) ⟨t, 0⟩ ⟨v, 1⟩ = .ok D ∧ Tracks D (fun v' => val (bsD1 s t v')) v :=
  d1_dual_curve (θ := v) (tracks_const s) (tracks_const t) tracks_var' ht hv

theorem d2_dual_tracks_s (s : ℝ) (ht : 0 < t) (hv : 0 < v) :
    ∃ D, bsD2 (⟨s, 1⟩ : Dual ℝ) ⟨t, 0⟩ ⟨v, 0⟩ = .ok D ∧ Tracks D (fun s' => val (bsD2 s' t v)) s :=
  d2_dual_curve tracks_var' (tracks_const t) (tracks_const v) ht hv

theorem d2_dual_tracks_t (s : ℝ) (ht : 0 < t) (hv : 0 < v) :
    ∃ D, bsD2 (⟨s, 0⟩ : Dual ℝ) ⟨t, 1⟩ ⟨v, 0⟩ = .ok D ∧ Tracks D (fun t' => val (bsD2 s t' v)) t :=
  d2_dual_curve (θ := t) (tracks_const s) tracks_var' (tracks_const v) ht hv

theorem d2_dual_tracks_v (s : ℝ) (ht : 0 < t) (hv : 0 < v) :
    ∃ D, bsD2 (⟨s, 0⟩ : Dual ℝ) ⟨t, 0⟩ ⟨v, 1⟩ = .ok D ∧ Tracks D (fun v' => val (bsD2 s t v')) v :=
  d2_dual_curve (θ := v) (tracks_const s) (tracks_const t) tracks_var' ht hv

/-- the explicit ε-parts: `∂d₁/∂s = 1/(v√t)` -/
theorem d1_dual_s_explicit (s : ℝ) (ht : 0 < t) (hv : 0 < v) :
    ∃ D, bsD1 (⟨s, 1⟩ : Dual ℝ) ⟨t, 0⟩ ⟨v, 0⟩ = .ok D ∧ D.val = d1 s (v * Real.sqrt t) ∧
      D.eps = 1 / (v * Real.sqrt t) := by
  have hw : (fun _ : ℝ => v * Real.sqrt t) s ≠ 0 := (w_pos ht hv).ne'
  have h := hasDerivAt_d1 (hasDerivAt_id s) (hasDerivAt_const s (v * Real.sqrt t)) hw
  obtain ⟨D, h1, h2, h3⟩ := greek_of_tracks (d1_dual_tracks_s s ht hv)
    (c := 1 / (v * Real.sqrt t)) (by
      refine (h.congr_deriv (by simp)).congr_of_eventuallyEq (Eventually.of_forall fun s' => ?_)
      show val (bsD1 s' t v) = _
      rw [bsD1_ok s' ht hv, val_ok]; rfl)
  refine ⟨D, h1, ?_, h3⟩
  rw [h2, bsD1_ok s ht hv, val_ok]

/-! #### European option -/

theorem european_price_dual_s (s K : ℝ) (ht : 0 < t) (hv : 0 < v) (call : Bool) :
    ∃ D, bsEuropeanPrice (⟨s, 1⟩ : Dual ℝ) ⟨t, 0⟩ ⟨v, 0⟩ ⟨K, 0⟩ call = .ok D ∧
      Tracks D (fun s' => val (bsEuropeanPrice s' t v K call)) s :=
  european_price_dual_curve tracks_var' (tracks_const t) (tracks_const v) (tracks_const K) ht hv call

theorem european_price_dual_v (s K : ℝ) (ht : 0 < t) (hv : 0 < v) (call : Bool) :
    ∃ D, bsEuropeanPrice (⟨s, 0⟩ : Dual ℝ) ⟨t, 0⟩ ⟨v, 1⟩ ⟨K, 0⟩ call = .ok D ∧
      Tracks D (fun v' => val (bsEuropeanPrice s t v' K call)) v :=
  european_price_dual_curve (θ := v) (tracks_const s) (tracks_const t) tracks_var' (tracks_const K)
    ht hv call

theorem european_price_dual_t (s K : ℝ) (ht : 0 < t) (hv : 0 < v) (call : Bool) :
    ∃ D, bsEuropeanPrice (⟨s, 0⟩ : Dual ℝ) ⟨t, 1⟩ ⟨v, 0⟩ ⟨K, 0⟩ call = .ok D ∧
      Tracks D (fun t' => val (bsEuropeanPrice s t' v K call)) t :=
  european_price_dual_curve (θ := t) (tracks_const s) tracks_var' (tracks_const v) (tracks_const K)
    ht hv call

/-- what `autogreek.delta` does: the spot `⟨S, 1⟩` enters as `log (spot / strike)` -/
theorem european_price_dual_spot {S : ℝ} (hS : 0 < S) (hK : 0 < K) (ht : 0 < t) (hv : 0 < v)
    (call : Bool) :
    ∃ D, bsEuropeanPrice (log ((⟨S, 1⟩ : Dual ℝ) / ⟨K, 0⟩)) ⟨t, 0⟩ ⟨v, 0⟩ ⟨K, 0⟩ call = .ok D ∧
      Tracks D (fun S' => val (bsEuropeanPrice (Real.log (S' / K)) t v K call)) S :=
  european_price_dual_curve (tracks_logMoneyness hS hK) (tracks_const t) (tracks_const v)
    (tracks_const K) ht hv call

/-- autogreek delta = closed-form delta -/
theorem european_autogreek_delta {S : ℝ} (hS : 0 < S) (hK : 0 < K) (ht : 0 < t) (hv : 0 < v)
    (call : Bool) :
    ∃ D, bsEuropeanPrice (log ((⟨S, 1⟩ : Dual ℝ) / ⟨K, 0⟩)) ⟨t, 0⟩ ⟨v, 0⟩ ⟨K, 0⟩ call = .ok D ∧
      D.val = val (bsEuropeanPrice (Real.log (S / K)) t v K call) ∧
      D.eps = val (bsEuropeanDelta (Real.log (S / K)) t v call) :=
  greek_of_tracks (european_price_dual_spot hS hK ht hv call) (C08.european_delta hS hK ht hv call)

/-- seeding the log-moneyness: ε = S · delta (`∂/∂s = S ∂/∂S`, `S = K eˢ`) -/
theorem european_dual_s_eps (s : ℝ) (hK : 0 < K) (ht : 0 < t) (hv : 0 < v) (call : Bool) :
    ∃ D, bsEuropeanPrice (⟨s, 1⟩ : Dual ℝ) ⟨t, 0⟩ ⟨v, 0⟩ ⟨K, 0⟩ call = .ok D ∧
      D.val = val (bsEuropeanPrice s t v K call) ∧
      D.eps = K * Real.exp s * val (bsEuropeanDelta s t v call) := by
  refine greek_of_tracks (european_price_dual_s s K ht hv call) (hasDerivAt_of_spot hK ?_)
  have h := C08.european_delta (S := K * Real.exp s) (mul_pos hK (Real.exp_pos s)) hK ht hv call
  rwa [log_spot K s hK] at h

/-- autogreek vega = closed-form vega -/
theorem european_autogreek_vega (s K : ℝ) (ht : 0 < t) (hv : 0 < v) (call : Bool) :
    ∃ D, bsEuropeanPrice (⟨s, 0⟩ : Dual ℝ) ⟨t, 0⟩ ⟨v, 1⟩ ⟨K, 0⟩ call = .ok D ∧
      D.val = val (bsEuropeanPrice s t v K call) ∧ D.eps = val (bsEuropeanVega s t v K) :=
  greek_of_tracks (european_price_dual_v s K ht hv call) (C08.european_vega s ht hv call)

/-- autogreek theta (`−∂price/∂t`) = closed-form theta -/
theorem european_autogreek_theta (s K : ℝ) (ht : 0 < t) (hv : 0 < v) (call : Bool) :
    ∃ D, bsEuropeanPrice (⟨s, 0⟩ : Dual ℝ) ⟨t, 1⟩ ⟨v, 0⟩ ⟨K, 0⟩ call = .ok D ∧
      D.val = val (bsEuropeanPrice s t v K call) ∧ -D.eps = val (bsEuropeanTheta s t v K) := by
  obtain ⟨D, h1, h2, h3⟩ :=
    greek_of_tracks (european_price_dual_t s K ht hv call) (C08.european_theta s ht hv call)
  exact ⟨D, h1, h2, by rw [h3, neg_neg]⟩

/-! #### European binary option -/

theorem binary_price_dual_s (s : ℝ) (ht : 0 < t) (hv : 0 < v) (call : Bool) :
    ∃ D, bsBinaryPrice (⟨s, 1⟩ : Dual ℝ) ⟨t, 0⟩ ⟨v, 0⟩ call = .ok D ∧
      Tracks D (fun s' => val (bsBinaryPrice s' t v call)) s :=
  binary_price_dual_curve tracks_var' (tracks_const t) (tracks_const v) ht hv call

theorem binary_price_dual_v (s : ℝ) (ht : 0 < t) (hv : 0 < v) (call : Bool) :
    ∃ D, bsBinaryPrice (⟨s, 0⟩ : Dual ℝ) ⟨t, 0⟩ ⟨v, 1⟩ call = .ok D ∧
      Tracks D (fun v' => val (bsBinaryPrice s t v' call)) v :=
  binary_price_dual_curve (θ := v) (tracks_const s) (tracks_const t) tracks_var' ht hv call

theorem binary_price_dual_t (s : ℝ) (ht : 0 < t) (hv : 0 < v) (call : Bool) :
    ∃ D, bsBinaryPrice (⟨s, 0⟩ : Dual ℝ) ⟨t, 1⟩ ⟨v, 0⟩ call = .ok D ∧
      Tracks D (fun t' => val (bsBinaryPrice s t' v call)) t :=
  binary_price_dual_curve (θ := t) (tracks_const s) tracks_var' (tracks_const v) ht hv call

theorem binary_price_dual_spot {S : ℝ} (hS : 0 < S) (hK : 0 < K) (ht : 0 < t) (hv : 0 < v)
    (call : Bool) :
    ∃ D, bsBinaryPrice (log ((⟨S, 1⟩ : Dual ℝ) / ⟨K, 0⟩)) ⟨t, 0⟩ ⟨v, 0⟩ call = .ok D ∧
      Tracks D (fun S' => val (bsBinaryPrice (Real.log (S' / K)) t v call)) S :=
  binary_price_dual_curve (tracks_logMoneyness hS hK) (tracks_const t) (tracks_const v) ht hv call

theorem binary_autogreek_delta {S : ℝ} (hS : 0 < S) (hK : 0 < K) (ht : 0 < t) (hv : 0 < v)
    (call : Bool) :
    ∃ D, bsBinaryPrice (log ((⟨S, 1⟩ : Dual ℝ) / ⟨K, 0⟩)) ⟨t, 0⟩ ⟨v, 0⟩ call = .ok D ∧
      D.val = val (bsBinaryPrice (Real.log (S / K)) t v call) ∧
      D.eps = val (bsBinaryDelta (Real.log (S / K)) t v K call) :=
  greek_of_tracks (binary_price_dual_spot hS hK ht hv call) (C08.binary_delta hS hK ht hv call)

theorem binary_dual_s_eps (s : ℝ) (hK : 0 < K) (ht : 0 < t) (hv : 0 < v) (call : Bool) :
    ∃ D, bsBinaryPrice (⟨s, 1⟩ : Dual ℝ) ⟨t, 0⟩ ⟨v, 0⟩ call = .ok D ∧
      D.val = val (bsBinaryPrice s t v call) ∧
      D.eps = K * Real.exp s * val (bsBinaryDelta s t v K call) := by
  refine greek_of_tracks (binary_price_dual_s s ht hv call) (hasDerivAt_of_spot hK ?_)
  have h := C08.binary_delta (S := K * Real.exp s) (mul_pos hK (Real.exp_pos s)) hK ht hv call
  rwa [log_spot K s hK] at h

theorem binary_autogreek_vega (s : ℝ) (hK : 0 < K) (ht : 0 < t) (hv : 0 < v) (call : Bool) :
    ∃ D, bsBinaryPrice (⟨s, 0⟩ : Dual ℝ) ⟨t, 0⟩ ⟨v, 1⟩ call = .ok D ∧
      D.val = val (bsBinaryPrice s t v call) ∧ D.eps = val (bsBinaryVega s t v K call) :=
  greek_of_tracks (binary_price_dual_v s ht hv call) (C08.binary_vega s hK ht hv call)

theorem binary_autogreek_theta (s : ℝ) (hK : 0 < K) (ht : 0 < t) (hv : 0 < v) (call : Bool) :
    ∃ D, bsBinaryPrice (⟨s, 0⟩ : Dual ℝ) ⟨t, 1⟩ ⟨v, 0⟩ call = .ok D ∧
      D.val = val (bsBinaryPrice s t v call) ∧ -D.eps = val (bsBinaryTheta s t v K call) := by
  obtain ⟨D, h1, h2, h3⟩ :=
    greek_of_tracks (binary_price_dual_t s ht hv call) (C08.binary_theta s hK ht hv call)
  exact ⟨D, h1, h2, by rw [h3, neg_neg]⟩

/-! #### American binary option (running maximum `m` a constant) -/

variable {m : ℝ}

theorem american_price_dual_s (s : ℝ) (ht : 0 < t) (hv : 0 < v) (hm : m < 0) :
    ∃ D, bsAmericanBinaryPrice (⟨s, 1⟩ : Dual ℝ) ⟨m, 0⟩ ⟨t, 0⟩ ⟨v, 0⟩ = .ok D ∧
      Tracks D (fun s' => val (bsAmericanBinaryPrice s' m t v)) s :=
  american_price_dual_curve tracks_var' (tracks_const t) (tracks_const v) ht hv hm

theorem american_price_dual_v (s : ℝ) (ht : 0 < t) (hv : 0 < v) (hm : m < 0) :
    ∃ D, bsAmericanBinaryPrice (⟨s, 0⟩ : Dual ℝ) ⟨m, 0⟩ ⟨t, 0⟩ ⟨v, 1⟩ = .ok D ∧
      Tracks D (fun v' => val (bsAmericanBinaryPrice s m t v')) v :=
  american_price_dual_curve (θ := v) (tracks_const s) (tracks_const t) tracks_var' ht hv hm

theorem american_price_dual_t (s : ℝ) (ht : 0 < t) (hv : 0 < v) (hm : m < 0) :
    ∃ D, bsAmericanBinaryPrice (⟨s, 0⟩ : Dual ℝ) ⟨m, 0⟩ ⟨t, 1⟩ ⟨v, 0⟩ = .ok D ∧
      Tracks D (fun t' => val (bsAmericanBinaryPrice s m t' v)) t :=
  american_price_dual_curve (θ := t) (tracks_const s) tracks_var' (tracks_const v) ht hv hm

theorem american_price_dual_spot {S : ℝ} (hS : 0 < S) (hK : 0 < K) (ht : 0 < t) (hv : 0 < v)
    (hm : m < 0) :
    ∃ D, bsAmericanBinaryPrice (log ((⟨S, 1⟩ : Dual ℝ) / ⟨K, 0⟩)) ⟨m, 0⟩ ⟨t, 0⟩ ⟨v, 0⟩ = .ok D ∧
      Tracks D (fun S' => val (bsAmericanBinaryPrice (Real.log (S' / K)) m t v)) S :=
  american_price_dual_curve (tracks_logMoneyness hS hK) (tracks_const t) (tracks_const v) ht hv hm

theorem american_autogreek_delta {S : ℝ} (hS : 0 < S) (hK : 0 < K) (ht : 0 < t) (hv : 0 < v)
    (hm : m < 0) :
    ∃ D, bsAmericanBinaryPrice (log ((⟨S, 1⟩ : Dual ℝ) / ⟨K, 0⟩)) ⟨m, 0⟩ ⟨t, 0⟩ ⟨v, 0⟩ = .ok D ∧
      D.val = val (bsAmericanBinaryPrice (Real.log (S / K)) m t v) ∧
      D.eps = val (bsAmericanBinaryDelta (Real.log (S / K)) m t v K) :=
  greek_of_tracks (american_price_dual_spot hS hK ht hv hm)
    (C08.american_binary_delta hS hK ht hv hm)

theorem american_dual_s_eps (s : ℝ) (hK : 0 < K) (ht : 0 < t) (hv : 0 < v) (hm : m < 0) :
    ∃ D, bsAmericanBinaryPrice (⟨s, 1⟩ : Dual ℝ) ⟨m, 0⟩ ⟨t, 0⟩ ⟨v, 0⟩ = .ok D ∧
      D.val = val (bsAmericanBinaryPrice s m t v) ∧
      D.eps = K * Real.exp s * val (bsAmericanBinaryDelta s m t v K) := by
  refine greek_of_tracks (american_price_dual_s s ht hv hm) (hasDerivAt_of_spot hK ?_)
  have h := C08.american_binary_delta (S := K * Real.exp s) (mul_pos hK (Real.exp_pos s)) hK ht hv hm
  rwa [log_spot K s hK] at h

theorem american_autogreek_vega (s : ℝ) (hK : 0 < K) (ht : 0 < t) (hv : 0 < v) (hm : m < 0) :
    ∃ D, bsAmericanBinaryPrice (⟨s, 0⟩ : Dual ℝ) ⟨m, 0⟩ ⟨t, 0⟩ ⟨v, 1⟩ = .ok D ∧
      D.val = val (bsAmericanBinaryPrice s m t v) ∧
      D.eps = val (bsAmericanBinaryVega s m t v K) :=
  greek_of_tracks (american_price_dual_v s ht hv hm) (C08.american_binary_vega s hK ht hv hm)

theorem american_autogreek_theta (s : ℝ) (hK : 0 < K) (ht : 0 < t) (hv : 0 < v) (hm : m < 0) :
    ∃ D, bsAmericanBinaryPrice (⟨s, 0⟩ : Dual ℝ) ⟨m, 0⟩ ⟨t, 1⟩ ⟨v, 0⟩ = .ok D ∧
      D.val = val (bsAmericanBinaryPrice s m t v) ∧
      -D.eps = val (bsAmericanBinaryTheta s m t v K) := by
  obtain ⟨D, h1, h2, h3⟩ :=
    greek_of_tracks (american_price_dual_t s ht hv hm) (C08.american_binary_theta s hK ht hv hm)
  exact ⟨D, h1, h2, by rw [h3, neg_neg]⟩

/-- after the hit every autogreek of the American binary is zero (whatever is seeded) -/
theorem american_autogreek_after_hit (S T V : Dual ℝ) (ht : 0 < T.val) (hv : 0 < V.val)
    (hm : 0 ≤ m) :
    ∃ D, bsAmericanBinaryPrice S ⟨m, 0⟩ T V = .ok D ∧ D.val = 1 ∧ D.eps = 0 :=
  ⟨_, american_price_dual_after_hit ht hv hm, rfl, rfl⟩

/-! #### lookback call (running maximum `m` and strike `K` constants; both branches) -/

theorem lookback_price_dual_s (s m K : ℝ) (ht : 0 < t) (hv : 0 < v) :
    ∃ D, bsLookbackPrice (⟨s, 1⟩ : Dual ℝ) ⟨m, 0⟩ ⟨t, 0⟩ ⟨v, 0⟩ ⟨K, 0⟩ = .ok D ∧
      Tracks D (fun s' => val (bsLookbackPrice s' m t v K)) s :=
  lookback_price_dual_curve tracks_var' (tracks_const t) (tracks_const v) ht hv m K

theorem lookback_price_dual_v (s m K : ℝ) (ht : 0 < t) (hv : 0 < v) :
    ∃ D, bsLookbackPrice (⟨s, 0⟩ : Dual ℝ) ⟨m, 0⟩ ⟨t, 0⟩ ⟨v, 1⟩ ⟨K, 0⟩ = .ok D ∧
      Tracks D (fun v' => val (bsLookbackPrice s m t v' K)) v :=
  lookback_price_dual_curve (θ := v) (tracks_const s) (tracks_const t) tracks_var' ht hv m K

theorem lookback_price_dual_t (s m K : ℝ) (ht : 0 < t) (hv : 0 < v) :
    ∃ D, bsLookbackPrice (⟨s, 0⟩ : Dual ℝ) ⟨m, 0⟩ ⟨t, 1⟩ ⟨v, 0⟩ ⟨K, 0⟩ = .ok D ∧
      Tracks D (fun t' => val (bsLookbackPrice s m t' v K)) t :=
  lookback_price_dual_curve (θ := t) (tracks_const s) tracks_var' (tracks_const v) ht hv m K

theorem lookback_price_dual_spot {S : ℝ} (m : ℝ) (hS : 0 < S) (hK : 0 < K) (ht : 0 < t)
    (hv : 0 < v) :
    ∃ D, bsLookbackPrice (log ((⟨S, 1⟩ : Dual ℝ) / ⟨K, 0⟩)) ⟨m, 0⟩ ⟨t, 0⟩ ⟨v, 0⟩ ⟨K, 0⟩ = .ok D ∧
      Tracks D (fun S' => val (bsLookbackPrice (Real.log (S' / K)) m t v K)) S :=
  lookback_price_dual_curve (tracks_logMoneyness hS hK) (tracks_const t) (tracks_const v) ht hv m K

/-- **the lookback delta computed by `autogreek.delta`**: the model's `price` evaluated at the spot
`⟨S, 1⟩` (entering as `log (spot / strike)`) succeeds, its primal part is the price and its ε-part
is `∂price/∂S` -/
theorem lookback_autogreek_delta {S : ℝ} (m : ℝ) (hS : 0 < S) (hK : 0 < K) (ht : 0 < t)
    (hv : 0 < v) :
    ∃ D, bsLookbackPrice (log ((⟨S, 1⟩ : Dual ℝ) / ⟨K, 0⟩)) ⟨m, 0⟩ ⟨t, 0⟩ ⟨v, 0⟩ ⟨K, 0⟩ = .ok D ∧
      D.val = val (bsLookbackPrice (Real.log (S / K)) m t v K) ∧
      HasDerivAt (fun S' => val (bsLookbackPrice (Real.log (S' / K)) m t v K)) D.eps S ∧
      deriv (fun S' => val (bsLookbackPrice (Real.log (S' / K)) m t v K)) S = D.eps := by
  obtain ⟨D, h1, h2⟩ := lookback_price_dual_spot m hS hK ht hv
  exact ⟨D, h1, h2.1, h2.2, h2.2.deriv⟩

/-- the lookback vega computed by `autogreek.vega` -/
theorem lookback_autogreek_vega (s m K : ℝ) (ht : 0 < t) (hv : 0 < v) :
    ∃ D, bsLookbackPrice (⟨s, 0⟩ : Dual ℝ) ⟨m, 0⟩ ⟨t, 0⟩ ⟨v, 1⟩ ⟨K, 0⟩ = .ok D ∧
      D.val = val (bsLookbackPrice s m t v K) ∧
      HasDerivAt (fun v' => val (bsLookbackPrice s m t v' K)) D.eps v ∧
      deriv (fun v' => val (bsLookbackPrice s m t v' K)) v = D.eps := by
  obtain ⟨D, h1, h2⟩ := lookback_price_dual_v s m K ht hv
  exact ⟨D, h1, h2.1, h2.2, h2.2.deriv⟩

/-- the lookback theta computed by `autogreek.theta` is `−ε` -/
theorem lookback_autogreek_theta (s m K : ℝ) (ht : 0 < t) (hv : 0 < v) :
    ∃ D, bsLookbackPrice (⟨s, 0⟩ : Dual ℝ) ⟨m, 0⟩ ⟨t, 1⟩ ⟨v, 0⟩ ⟨K, 0⟩ = .ok D ∧
      D.val = val (bsLookbackPrice s m t v K) ∧
      HasDerivAt (fun t' => val (bsLookbackPrice s m t' v K)) D.eps t ∧
      -deriv (fun t' => val (bsLookbackPrice s m t' v K)) t = -D.eps := by
  obtain ⟨D, h1, h2⟩ := lookback_price_dual_t s m K ht hv
  exact ⟨D, h1, h2.1, h2.2, by rw [h2.2.deriv]⟩

end seeded

end PfVerif.C08Dual

/-! ## second order: `Dual (Dual ℝ)` -/

namespace PfVerif.C08DualAux
open PfVerif Transc Filter Topology PfVerif.BSCalc PfVerif.C08Aux

/-- `DD : Dual (Dual ℝ)` carries the value, the first derivative (in both mixed slots) and the
second derivative of `f` at `θ`: its outer-primal part tracks `f`, its outer-ε part tracks a
function `f'` that is the derivative of `f` in a neighbourhood of `θ` -/
def Tracks2 (DD : Dual (Dual ℝ)) (f : ℝ → ℝ) (θ : ℝ) : Prop :=
  ∃ f' : ℝ → ℝ, (∀ᶠ x in 𝓝 θ, HasDerivAt f (f' x) x) ∧ Tracks DD.val f θ ∧ Tracks DD.eps f' θ

/-- a real constant at second order -/
def lift2 (c : ℝ) : Dual (Dual ℝ) := ⟨⟨c, 0⟩, ⟨0, 0⟩⟩

/-- the differentiation variable at second order (seeded in both levels) -/
def var2 (x : ℝ) : Dual (Dual ℝ) := ⟨⟨x, 1⟩, ⟨1, 0⟩⟩

section closure2
variable {θ : ℝ} {A B DD : Dual (Dual ℝ)} {f g : ℝ → ℝ}

theorem Tracks2.fst (h : Tracks2 DD f θ) : Tracks DD.val f θ := h.choose_spec.2.1

theorem Tracks2.deriv_eventuallyEq (h : Tracks2 DD f θ) :
    ∃ f', deriv f =ᶠ[𝓝 θ] f' ∧ Tracks DD.eps f' θ := by
  obtain ⟨f', ef, _, hf'⟩ := h
  exact ⟨f', ef.mono fun x hx => hx.deriv, hf'⟩

/-- the outer-ε part tracks the derivative of `f`: `.eps.val = f'(θ)`, `.eps.eps = f''(θ)` -/
theorem Tracks2.snd (h : Tracks2 DD f θ) : Tracks DD.eps (deriv f) θ := by
  obtain ⟨f', e, hf'⟩ := h.deriv_eventuallyEq
  exact hf'.congr_eventually e

/-- the formulation with two first-order `Tracks` statements -/
theorem Tracks2.spec (h : Tracks2 DD f θ) :
    Tracks ⟨DD.val.val, DD.val.eps⟩ f θ ∧ Tracks ⟨DD.eps.val, DD.eps.eps⟩ (deriv f) θ :=
  ⟨h.fst, h.snd⟩

theorem Tracks2.val_val (h : Tracks2 DD f θ) : DD.val.val = f θ := h.fst.1
theorem Tracks2.val_eps (h : Tracks2 DD f θ) : DD.val.eps = deriv f θ := h.fst.2.deriv.symm
theorem Tracks2.eps_val (h : Tracks2 DD f θ) : DD.eps.val = deriv f θ := h.snd.1
/-- the `.eps.eps` part is the second derivative -/
theorem Tracks2.hasDerivAt_deriv (h : Tracks2 DD f θ) : HasDerivAt (deriv f) DD.eps.eps θ := h.snd.2
theorem Tracks2.eps_eps (h : Tracks2 DD f θ) : DD.eps.eps = deriv (deriv f) θ :=
  h.snd.2.deriv.symm

theorem Tracks2.congr_eventually (h : Tracks2 DD f θ) (e : g =ᶠ[𝓝 θ] f) : Tracks2 DD g θ := by
  obtain ⟨f', ef, hf, hf'⟩ := h
  refine ⟨f', ?_, hf.congr_eventually e, hf'⟩
  filter_upwards [ef, e.eventually_nhds] with x h1 h2 using h1.congr_of_eventuallyEq h2

theorem tracks2_lift (c : ℝ) : Tracks2 (lift2 c) (fun _ => c) θ :=
  ⟨fun _ => 0, Eventually.of_forall fun x => hasDerivAt_const x c, tracks_const c, tracks_const 0⟩

theorem tracks2_var : Tracks2 (var2 θ) (fun x => x) θ :=
  ⟨fun _ => 1, Eventually.of_forall fun x => hasDerivAt_id x, tracks_var', tracks_const 1⟩

theorem tracks2_one : Tracks2 (1 : Dual (Dual ℝ)) (fun _ => (1 : ℝ)) θ :=
  ⟨fun _ => 0, Eventually.of_forall fun x => hasDerivAt_const x 1, tracks_one, tracks_zero⟩

theorem tracks2_two : Tracks2 (2 : Dual (Dual ℝ)) (fun _ => (2 : ℝ)) θ :=
  ⟨fun _ => 0, Eventually.of_forall fun x => hasDerivAt_const x 2, tracks_ofNat 2, tracks_zero⟩

theorem Tracks2.add (ha : Tracks2 A f θ) (hb : Tracks2 B g θ) :
    Tracks2 (A + B) (fun x => f x + g x) θ := by
  obtain ⟨f', ef, hf, hf'⟩ := ha
  obtain ⟨g', eg, hg, hg'⟩ := hb
  refine ⟨fun x => f' x + g' x, ?_, hf.add hg, hf'.add hg'⟩
  filter_upwards [ef, eg] with x h1 h2 using h1.fun_add h2

theorem Tracks2.sub (ha : Tracks2 A f θ) (hb : Tracks2 B g θ) :
    Tracks2 (A - B) (fun x => f x - g x) θ := by
  obtain ⟨f', ef, hf, hf'⟩ := ha
  obtain ⟨g', eg, hg, hg'⟩ := hb
  refine ⟨fun x => f' x - g' x, ?_, hf.sub hg, hf'.sub hg'⟩
  filter_upwards [ef, eg] with x h1 h2 using h1.fun_sub h2

theorem Tracks2.mul (ha : Tracks2 A f θ) (hb : Tracks2 B g θ) :
    Tracks2 (A * B) (fun x => f x * g x) θ := by
  obtain ⟨f', ef, hf, hf'⟩ := ha
  obtain ⟨g', eg, hg, hg'⟩ := hb
  refine ⟨fun x => f' x * g x + f x * g' x, ?_, hf.mul hg, (hf'.mul hg).add (hf.mul hg')⟩
  filter_upwards [ef, eg] with x h1 h2 using h1.fun_mul h2

theorem Tracks2.div (ha : Tracks2 A f θ) (hb : Tracks2 B g θ) (h0 : g θ ≠ 0) :
    Tracks2 (A / B) (fun x => f x / g x) θ := by
  obtain ⟨f', ef, hf, hf'⟩ := ha
  obtain ⟨g', eg, hg, hg'⟩ := hb
  refine ⟨fun x => (f' x * g x - f x * g' x) / (g x * g x), ?_, hf.div hg h0,
    ((hf'.mul hg).sub (hf.mul hg')).div (hg.mul hg) (mul_self_ne_zero.2 h0)⟩
  filter_upwards [ef, eg, hg.2.continuousAt.eventually_ne h0] with x h1 h2 h3
  exact (h1.fun_div h2 h3).congr_deriv (by rw [sq])

theorem Tracks2.exp (ha : Tracks2 A f θ) : Tracks2 (exp A) (fun x => Real.exp (f x)) θ := by
  obtain ⟨f', ef, hf, hf'⟩ := ha
  refine ⟨fun x => f' x * Real.exp (f x), ?_, hf.exp, hf'.mul hf.exp⟩
  filter_upwards [ef] with x h1 using h1.exp.congr_deriv (mul_comm _ _)

theorem Tracks2.log (ha : Tracks2 A f θ) (h0 : f θ ≠ 0) :
    Tracks2 (log A) (fun x => Real.log (f x)) θ := by
  obtain ⟨f', ef, hf, hf'⟩ := ha
  refine ⟨fun x => f' x / f x, ?_, hf.log h0, hf'.div hf h0⟩
  filter_upwards [ef, hf.2.continuousAt.eventually_ne h0] with x h1 h2 using h1.log h2

theorem Tracks2.sqrt (ha : Tracks2 A f θ) (h0 : 0 < f θ) :
    Tracks2 (sqrt A) (fun x => Real.sqrt (f x)) θ := by
  obtain ⟨f', ef, hf, hf'⟩ := ha
  refine ⟨fun x => f' x / (2 * Real.sqrt (f x)), ?_, hf.sqrt h0.ne',
    hf'.div ((tracks_ofNat 2).mul (hf.sqrt h0.ne'))
      (mul_pos two_pos (Real.sqrt_pos.2 h0)).ne'⟩
  filter_upwards [ef, hf.2.continuousAt.eventually_ne h0.ne'] with x h1 h2 using h1.sqrt h2

theorem Tracks2.ncdf (ha : Tracks2 A f θ) : Tracks2 (ncdf A) (fun x => Phi (f x)) θ := by
  obtain ⟨f', ef, hf, hf'⟩ := ha
  refine ⟨fun x => f' x * phi (f x), ?_, hf.ncdf, hf'.mul hf.npdf⟩
  filter_upwards [ef] with x h1
  exact ((Phi_hasDerivAt (f x)).comp x h1).congr_deriv (mul_comm _ _)

theorem Tracks2.npdf (ha : Tracks2 A f θ) : Tracks2 (npdf A) (fun x => phi (f x)) θ := by
  obtain ⟨f', ef, hf, hf'⟩ := ha
  refine ⟨fun x => -(f' x * (f x * phi (f x))), ?_, hf.npdf, (hf'.mul (hf.mul hf.npdf)).neg⟩
  filter_upwards [ef] with x h1
  exact ((phi_hasDerivAt (f x)).comp x h1).congr_deriv (by ring)

end closure2

/-! ### guards and closed forms at `Dual (Dual ℝ)` -/

theorem guards_dual2 {T V : Dual (Dual ℝ)} (ht : 0 < T.val.val) (hv : 0 < V.val.val) :
    Guards T V := by
  constructor
  · have h1 : (0 : Dual (Dual ℝ)) ≤ T := show (0 : ℝ) ≤ T.val.val from ht.le
    have h2 : (0 : Dual (Dual ℝ)) ≤ V := show (0 : ℝ) ≤ V.val.val from hv.le
    simp [bsValidate, h1, h2]
  · have hw : 0 < V.val.val * Real.sqrt T.val.val := w_pos ht hv
    have h0 : ¬ (V * sqrt T ≤ 0) := fun h =>
      absurd (show V.val.val * Real.sqrt T.val.val ≤ 0 from h) (not_le.2 hw)
    simp [isZero, h0]

section tracks2
variable {θ : ℝ} {S T V Kd M : Dual (Dual ℝ)} {sf tf vf kf mf : ℝ → ℝ}

theorem eventually_pos2 (hT : Tracks2 T tf θ) (hV : Tracks2 V vf θ) (ht : 0 < tf θ)
    (hv : 0 < vf θ) : ∀ᶠ x in 𝓝 θ, 0 < tf x ∧ 0 < vf x :=
  eventually_pos hT.fst hV.fst ht hv

theorem guards_of_tracks2 (hT : Tracks2 T tf θ) (hV : Tracks2 V vf θ) (ht : 0 < tf θ)
    (hv : 0 < vf θ) : Guards T V :=
  guards_dual2 (by rw [hT.val_val]; exact ht) (by rw [hV.val_val]; exact hv)

theorem tracks2_wE (hT : Tracks2 T tf θ) (hV : Tracks2 V vf θ) (ht : 0 < tf θ) :
    Tracks2 (wE T V) (fun x => wE (tf x) (vf x)) θ :=
  hV.mul (hT.sqrt ht)

theorem tracks2_d1E (hS : Tracks2 S sf θ) (hT : Tracks2 T tf θ) (hV : Tracks2 V vf θ)
    (ht : 0 < tf θ) (hv : 0 < vf θ) :
    Tracks2 (d1E S T V) (fun x => d1E (sf x) (tf x) (vf x)) θ :=
  (hS.div (tracks2_wE hT hV ht) (wE_ne ht hv)).add
    ((tracks2_wE hT hV ht).div tracks2_two two_ne_zero)

theorem tracks2_d2E (hS : Tracks2 S sf θ) (hT : Tracks2 T tf θ) (hV : Tracks2 V vf θ)
    (ht : 0 < tf θ) (hv : 0 < vf θ) :
    Tracks2 (d2E S T V) (fun x => d2E (sf x) (tf x) (vf x)) θ :=
  (hS.div (tracks2_wE hT hV ht) (wE_ne ht hv)).sub
    ((tracks2_wE hT hV ht).div tracks2_two two_ne_zero)

theorem tracks2_euroE (hS : Tracks2 S sf θ) (hT : Tracks2 T tf θ) (hV : Tracks2 V vf θ)
    (hK : Tracks2 Kd kf θ) (ht : 0 < tf θ) (hv : 0 < vf θ) (call : Bool) :
    Tracks2 (euroE S T V Kd call) (fun x => euroE (sf x) (tf x) (vf x) (kf x) call) θ := by
  have h1 := (tracks2_d1E hS hT hV ht hv).ncdf
  have h2 := (tracks2_d2E hS hT hV ht hv).ncdf
  have hc := ((hS.exp.mul hK).mul h1).sub (hK.mul h2)
  cases call
  · exact hc.add (hK.mul (tracks2_one.sub hS.exp))
  · exact hc

theorem tracks2_binE (hS : Tracks2 S sf θ) (hT : Tracks2 T tf θ) (hV : Tracks2 V vf θ)
    (ht : 0 < tf θ) (hv : 0 < vf θ) (call : Bool) :
    Tracks2 (binE S T V call) (fun x => binE (sf x) (tf x) (vf x) call) θ := by
  have h2 := (tracks2_d2E hS hT hV ht hv).ncdf
  cases call
  · exact tracks2_one.sub h2
  · exact h2

theorem tracks2_amE (hS : Tracks2 S sf θ) (hT : Tracks2 T tf θ) (hV : Tracks2 V vf θ)
    (ht : 0 < tf θ) (hv : 0 < vf θ) :
    Tracks2 (amE S T V) (fun x => amE (sf x) (tf x) (vf x)) θ :=
  (tracks2_d2E hS hT hV ht hv).ncdf.add (hS.exp.mul (tracks2_d1E hS hT hV ht hv).ncdf)

theorem tracks2_lbBracket {A : Dual (Dual ℝ)} {af : ℝ → ℝ} (hA : Tracks2 A af θ)
    (hT : Tracks2 T tf θ) (hV : Tracks2 V vf θ) (ht : 0 < tf θ) (hv : 0 < vf θ) :
    Tracks2 (ncdf (d1E A T V) + (A + wE T V * wE T V / 2) * ncdf (d1E A T V)
        + wE T V * npdf (d1E A T V))
      (fun x => ncdf (d1E (af x) (tf x) (vf x))
        + (af x + wE (tf x) (vf x) * wE (tf x) (vf x) / 2) * ncdf (d1E (af x) (tf x) (vf x))
        + wE (tf x) (vf x) * npdf (d1E (af x) (tf x) (vf x))) θ := by
  have hd := tracks2_d1E hA hT hV ht hv
  have hw := tracks2_wE hT hV ht
  exact (hd.ncdf.add ((hA.add ((hw.mul hw).div tracks2_two two_ne_zero)).mul hd.ncdf)).add
    (hw.mul hd.npdf)

theorem tracks2_lb0E (hS : Tracks2 S sf θ) (hT : Tracks2 T tf θ) (hV : Tracks2 V vf θ)
    (hK : Tracks2 Kd kf θ) (ht : 0 < tf θ) (hv : 0 < vf θ) :
    Tracks2 (lb0E S T V Kd) (fun x => lb0E (sf x) (tf x) (vf x) (kf x)) θ :=
  ((hS.exp.mul hK).mul (tracks2_lbBracket hS hT hV ht hv)).sub
    (hK.mul (tracks2_d2E hS hT hV ht hv).ncdf)

theorem tracks2_lb1E (hS : Tracks2 S sf θ) (hM : Tracks2 M mf θ) (hT : Tracks2 T tf θ)
    (hV : Tracks2 V vf θ) (hK : Tracks2 Kd kf θ) (ht : 0 < tf θ) (hv : 0 < vf θ) :
    Tracks2 (lb1E S M T V Kd) (fun x => lb1E (sf x) (mf x) (tf x) (vf x) (kf x)) θ :=
  (((hS.exp.mul hK).mul (tracks2_lbBracket (hS.sub hM) hT hV ht hv)).sub hK).add
    ((hM.exp.mul hK).mul (tracks2_one.sub (tracks2_d2E (hS.sub hM) hT hV ht hv).ncdf))

end tracks2

/-- the spot seeded at both levels enters the pricers as `log (spot / strike)` -/
theorem tracks2_logMoneyness {S K : ℝ} (hS : 0 < S) (hK : 0 < K) :
    Tracks2 (log (var2 S / lift2 K)) (fun S' => Real.log (S' / K)) S :=
  (tracks2_var.div (tracks2_lift K) hK.ne').log (div_pos hS hK).ne'

end PfVerif.C08DualAux

namespace PfVerif.C08Dual
open PfVerif Transc Filter Topology PfVerif.BSCalc PfVerif.C08Aux PfVerif.C08DualAux

/-! ### second order: `Dual (Dual ℝ)` carries the second derivative in `.eps.eps`

`Tracks2 DD f θ` (C08DualAux) implies `Tracks2.spec`:
`Tracks ⟨DD.val.val, DD.val.eps⟩ f θ ∧ Tracks ⟨DD.eps.val, DD.eps.eps⟩ (deriv f) θ`. -/

section curve2
variable {θ : ℝ} {S T V Kd : Dual (Dual ℝ)} {sf tf vf kf : ℝ → ℝ}

theorem european_price_dual2_curve (hS : Tracks2 S sf θ) (hT : Tracks2 T tf θ)
    (hV : Tracks2 V vf θ) (hK : Tracks2 Kd kf θ) (ht : 0 < tf θ) (hv : 0 < vf θ) (call : Bool) :
    ∃ DD, bsEuropeanPrice S T V Kd call = .ok DD ∧
      Tracks2 DD (fun x => val (bsEuropeanPrice (sf x) (tf x) (vf x) (kf x) call)) θ := by
  refine ⟨_, european_eq (guards_of_tracks2 hT hV ht hv) S Kd call,
    (tracks2_euroE hS hT hV hK ht hv call).congr_eventually ?_⟩
  filter_upwards [eventually_pos2 hT hV ht hv] with x hx
  exact val_european hx.1 hx.2 _ _ _

theorem binary_price_dual2_curve (hS : Tracks2 S sf θ) (hT : Tracks2 T tf θ)
    (hV : Tracks2 V vf θ) (ht : 0 < tf θ) (hv : 0 < vf θ) (call : Bool) :
    ∃ DD, bsBinaryPrice S T V call = .ok DD ∧
      Tracks2 DD (fun x => val (bsBinaryPrice (sf x) (tf x) (vf x) call)) θ := by
  refine ⟨_, binary_eq (guards_of_tracks2 hT hV ht hv) S call,
    (tracks2_binE hS hT hV ht hv call).congr_eventually ?_⟩
  filter_upwards [eventually_pos2 hT hV ht hv] with x hx
  exact val_binary hx.1 hx.2 _ _

theorem american_price_dual2_curve (hS : Tracks2 S sf θ) (hT : Tracks2 T tf θ)
    (hV : Tracks2 V vf θ) (ht : 0 < tf θ) (hv : 0 < vf θ) {m : ℝ} (hm : m < 0) :
    ∃ DD, bsAmericanBinaryPrice S (lift2 m) T V = .ok DD ∧
      Tracks2 DD (fun x => val (bsAmericanBinaryPrice (sf x) m (tf x) (vf x))) θ := by
  have hm' : lift2 m < 0 := hm
  refine ⟨_, by rw [american_eq (guards_of_tracks2 hT hV ht hv), if_pos hm'],
    (tracks2_amE hS hT hV ht hv).congr_eventually ?_⟩
  filter_upwards [eventually_pos2 hT hV ht hv] with x hx
  rw [val_american hx.1 hx.2, if_pos hm]

theorem lookback_price_dual2_curve (hS : Tracks2 S sf θ) (hT : Tracks2 T tf θ)
    (hV : Tracks2 V vf θ) (ht : 0 < tf θ) (hv : 0 < vf θ) (m K : ℝ) :
    ∃ DD, bsLookbackPrice S (lift2 m) T V (lift2 K) = .ok DD ∧
      Tracks2 DD (fun x => val (bsLookbackPrice (sf x) m (tf x) (vf x) K)) θ := by
  rw [lookback_eq (guards_of_tracks2 hT hV ht hv)]
  by_cases hb : Real.exp m * K < K
  · have hb' : exp (lift2 m) * lift2 K < lift2 K := hb
    rw [if_pos hb']
    refine ⟨_, rfl, (tracks2_lb0E hS hT hV (tracks2_lift K) ht hv).congr_eventually ?_⟩
    filter_upwards [eventually_pos2 hT hV ht hv] with x hx
    rw [val_lookback hx.1 hx.2, if_pos hb]
  · have hb' : ¬ exp (lift2 m) * lift2 K < lift2 K := hb
    rw [if_neg hb']
    refine ⟨_, rfl,
      (tracks2_lb1E hS (tracks2_lift m) hT hV (tracks2_lift K) ht hv).congr_eventually ?_⟩
    filter_upwards [eventually_pos2 hT hV ht hv] with x hx
    rw [val_lookback hx.1 hx.2, if_neg hb]

end curve2

section seeded2
variable {S K t v m : ℝ}

/-- seeding the log-moneyness at both levels: `.eps.eps` is `∂²price/∂s²` -/
theorem european_price_dual2_s (s K : ℝ) (ht : 0 < t) (hv : 0 < v) (call : Bool) :
    ∃ DD, bsEuropeanPrice (var2 s) (lift2 t) (lift2 v) (lift2 K) call = .ok DD ∧
      Tracks2 DD (fun s' => val (bsEuropeanPrice s' t v K call)) s :=
  european_price_dual2_curve tracks2_var (tracks2_lift t) (tracks2_lift v) (tracks2_lift K) ht hv
    call

/-- what `autogreek.gamma` does: the spot seeded at both levels enters as `log (spot / strike)` -/
theorem european_price_dual2_spot (hS : 0 < S) (hK : 0 < K) (ht : 0 < t) (hv : 0 < v)
    (call : Bool) :
    ∃ DD, bsEuropeanPrice (log (var2 S / lift2 K)) (lift2 t) (lift2 v) (lift2 K) call = .ok DD ∧
      Tracks2 DD (fun S' => val (bsEuropeanPrice (Real.log (S' / K)) t v K call)) S :=
  european_price_dual2_curve (tracks2_logMoneyness hS hK) (tracks2_lift t) (tracks2_lift v)
    (tracks2_lift K) ht hv call

/-- **autogreek gamma = closed-form gamma**; the two mixed slots both hold the closed-form delta -/
theorem european_autogreek_gamma (hS : 0 < S) (hK : 0 < K) (ht : 0 < t) (hv : 0 < v)
    (call : Bool) :
    ∃ DD, bsEuropeanPrice (log (var2 S / lift2 K)) (lift2 t) (lift2 v) (lift2 K) call = .ok DD ∧
      DD.val.val = val (bsEuropeanPrice (Real.log (S / K)) t v K call) ∧
      DD.val.eps = val (bsEuropeanDelta (Real.log (S / K)) t v call) ∧
      DD.eps.val = val (bsEuropeanDelta (Real.log (S / K)) t v call) ∧
      DD.eps.eps = val (bsEuropeanGamma (Real.log (S / K)) t v K) := by
  obtain ⟨DD, h1, h2⟩ := european_price_dual2_spot hS hK ht hv call
  have hd := (C08.european_delta hS hK ht hv call).deriv
  refine ⟨DD, h1, h2.val_val, ?_, ?_, ?_⟩
  · rw [h2.val_eps, hd]
  · rw [h2.eps_val, hd]
  · exact h2.hasDerivAt_deriv.unique (C08.european_gamma_second hS hK ht hv call)

theorem binary_price_dual2_spot (hS : 0 < S) (hK : 0 < K) (ht : 0 < t) (hv : 0 < v)
    (call : Bool) :
    ∃ DD, bsBinaryPrice (log (var2 S / lift2 K)) (lift2 t) (lift2 v) call = .ok DD ∧
      Tracks2 DD (fun S' => val (bsBinaryPrice (Real.log (S' / K)) t v call)) S :=
  binary_price_dual2_curve (tracks2_logMoneyness hS hK) (tracks2_lift t) (tracks2_lift v) ht hv call

/-- autogreek gamma of the binary = the repaired closed-form gamma (`w = v√t`) -/
theorem binary_autogreek_gamma (hS : 0 < S) (hK : 0 < K) (ht : 0 < t) (hv : 0 < v)
    (call : Bool) :
    ∃ DD, bsBinaryPrice (log (var2 S / lift2 K)) (lift2 t) (lift2 v) call = .ok DD ∧
      DD.val.val = val (bsBinaryPrice (Real.log (S / K)) t v call) ∧
      DD.val.eps = val (bsBinaryDelta (Real.log (S / K)) t v K call) ∧
      DD.eps.val = val (bsBinaryDelta (Real.log (S / K)) t v K call) ∧
      DD.eps.eps = val (bsBinaryGamma (Real.log (S / K)) t v K call) := by
  obtain ⟨DD, h1, h2⟩ := binary_price_dual2_spot hS hK ht hv call
  have hd := (C08.binary_delta hS hK ht hv call).deriv
  refine ⟨DD, h1, h2.val_val, ?_, ?_, ?_⟩
  · rw [h2.val_eps, hd]
  · rw [h2.eps_val, hd]
  · exact h2.hasDerivAt_deriv.unique (C08.binary_gamma_second hS hK ht hv call)

theorem american_price_dual2_spot (hS : 0 < S) (hK : 0 < K) (ht : 0 < t) (hv : 0 < v)
    (hm : m < 0) :
    ∃ DD, bsAmericanBinaryPrice (log (var2 S / lift2 K)) (lift2 m) (lift2 t) (lift2 v) = .ok DD ∧
      Tracks2 DD (fun S' => val (bsAmericanBinaryPrice (Real.log (S' / K)) m t v)) S :=
  american_price_dual2_curve (tracks2_logMoneyness hS hK) (tracks2_lift t) (tracks2_lift v) ht hv hm

theorem american_autogreek_gamma (hS : 0 < S) (hK : 0 < K) (ht : 0 < t) (hv : 0 < v)
    (hm : m < 0) :
    ∃ DD, bsAmericanBinaryPrice (log (var2 S / lift2 K)) (lift2 m) (lift2 t) (lift2 v) = .ok DD ∧
      DD.val.val = val (bsAmericanBinaryPrice (Real.log (S / K)) m t v) ∧
      DD.val.eps = val (bsAmericanBinaryDelta (Real.log (S / K)) m t v K) ∧
      DD.eps.val = val (bsAmericanBinaryDelta (Real.log (S / K)) m t v K) ∧
      DD.eps.eps = val (bsAmericanBinaryGamma (Real.log (S / K)) m t v K) := by
  obtain ⟨DD, h1, h2⟩ := american_price_dual2_spot hS hK ht hv hm
  have hd := (C08.american_binary_delta hS hK ht hv hm).deriv
  refine ⟨DD, h1, h2.val_val, ?_, ?_, ?_⟩
  · rw [h2.val_eps, hd]
  · rw [h2.eps_val, hd]
  · exact h2.hasDerivAt_deriv.unique (C08.american_binary_gamma_second hS hK ht hv hm)

theorem lookback_price_dual2_s (s m K : ℝ) (ht : 0 < t) (hv : 0 < v) :
    ∃ DD, bsLookbackPrice (var2 s) (lift2 m) (lift2 t) (lift2 v) (lift2 K) = .ok DD ∧
      Tracks2 DD (fun s' => val (bsLookbackPrice s' m t v K)) s :=
  lookback_price_dual2_curve tracks2_var (tracks2_lift t) (tracks2_lift v) ht hv m K

theorem lookback_price_dual2_spot (m : ℝ) (hS : 0 < S) (hK : 0 < K) (ht : 0 < t) (hv : 0 < v) :
    ∃ DD, bsLookbackPrice (log (var2 S / lift2 K)) (lift2 m) (lift2 t) (lift2 v) (lift2 K)
        = .ok DD ∧
      Tracks2 DD (fun S' => val (bsLookbackPrice (Real.log (S' / K)) m t v K)) S :=
  lookback_price_dual2_curve (tracks2_logMoneyness hS hK) (tracks2_lift t) (tracks2_lift v) ht hv
    m K

/-- **the lookback gamma computed by `autogreek.gamma`**: `.eps.eps` of the model's `price` at
the doubly seeded spot is the second derivative of the price in the spot; the mixed slots are the
first derivative (the autogreek delta) -/
theorem lookback_autogreek_gamma (m : ℝ) (hS : 0 < S) (hK : 0 < K) (ht : 0 < t) (hv : 0 < v) :
    ∃ DD, bsLookbackPrice (log (var2 S / lift2 K)) (lift2 m) (lift2 t) (lift2 v) (lift2 K)
        = .ok DD ∧
      DD.val.val = val (bsLookbackPrice (Real.log (S / K)) m t v K) ∧
      DD.val.eps = deriv (fun S' => val (bsLookbackPrice (Real.log (S' / K)) m t v K)) S ∧
      DD.eps.val = deriv (fun S' => val (bsLookbackPrice (Real.log (S' / K)) m t v K)) S ∧
      HasDerivAt (deriv fun S' => val (bsLookbackPrice (Real.log (S' / K)) m t v K)) DD.eps.eps S ∧
      DD.eps.eps = deriv (deriv fun S' => val (bsLookbackPrice (Real.log (S' / K)) m t v K)) S := by
  obtain ⟨DD, h1, h2⟩ := lookback_price_dual2_spot m hS hK ht hv
  exact ⟨DD, h1, h2.val_val, h2.val_eps, h2.eps_val, h2.hasDerivAt_deriv, h2.eps_eps⟩

end seeded2

end PfVerif.C08Dual

/-! ### non-vacuity -/

namespace PfVerif.C08DualAux
theorem two_val : (2 : Dual ℝ).val = 2 := rfl
theorem two_eps : (2 : Dual ℝ).eps = 0 := rfl
end PfVerif.C08DualAux

namespace PfVerif.C08Dual
open PfVerif Transc Filter Topology PfVerif.BSCalc PfVerif.C08Aux PfVerif.C08DualAux

/-- the dual arithmetic itself: `d1` at `s = 0` seeded, `t = v = 1`, is `⟨1/2, 1⟩`
(`∂d₁/∂s = 1/(v√t) = 1`) -/
example : bsD1 (⟨0, 1⟩ : Dual ℝ) ⟨1, 0⟩ ⟨1, 0⟩ = .ok ⟨1 / 2, 1⟩ := by
  rw [bsD1_eq (guards_dual one_pos one_pos)]
  congr 1
  ext <;> simp [d1E, wE, two_val, two_eps]

/-- at the money, `S = K = t = v = 1`: the autogreek delta of the call is `Φ(1/2)` -/
example :
    ∃ D, bsEuropeanPrice (log ((⟨1, 1⟩ : Dual ℝ) / ⟨1, 0⟩)) ⟨1, 0⟩ ⟨1, 0⟩ ⟨1, 0⟩ true = .ok D ∧
      D.eps = Phi (1 / 2) := by
  obtain ⟨D, h1, _, h3⟩ := european_autogreek_delta (S := 1) (K := 1) (t := 1) (v := 1)
    one_pos one_pos one_pos one_pos true
  refine ⟨D, h1, ?_⟩
  rw [h3, european_delta_ok one_pos one_pos]
  simp [d1]

/-- … and its autogreek gamma (`.eps.eps` at `Dual (Dual ℝ)`) is `φ(1/2)` -/
example :
    ∃ DD, bsEuropeanPrice (log (var2 1 / lift2 1)) (lift2 1) (lift2 1) (lift2 1) true = .ok DD ∧
      DD.eps.eps = phi (1 / 2) := by
  obtain ⟨DD, h1, _, _, _, h5⟩ := european_autogreek_gamma (S := 1) (K := 1) (t := 1) (v := 1)
    one_pos one_pos one_pos one_pos true
  refine ⟨DD, h1, ?_⟩
  rw [h5, european_gamma_ok one_pos one_pos]
  simp [d1]

/-- lookback call at `S = K = 1`, running maximum at the strike (`m = 0`, second branch),
`t = v = 1`: the dual evaluation succeeds and the autogreek delta is `5/2 Φ(1/2) + φ(1/2)` -/
example :
    ∃ D, bsLookbackPrice (log ((⟨1, 1⟩ : Dual ℝ) / ⟨1, 0⟩)) ⟨0, 0⟩ ⟨1, 0⟩ ⟨1, 0⟩ ⟨1, 0⟩ = .ok D ∧
      HasDerivAt (fun S' => val (bsLookbackPrice (Real.log (S' / 1)) 0 1 1 1)) D.eps 1 ∧
      D.eps = 5 / 2 * Phi (1 / 2) + phi (1 / 2) := by
  obtain ⟨D, h1, _, h3, _⟩ := lookback_autogreek_delta (S := 1) (K := 1) (t := 1) (v := 1) 0
    one_pos one_pos one_pos one_pos
  refine ⟨D, h1, h3, ?_⟩
  rw [lookback_eq (guards_dual one_pos one_pos)] at h1
  have hb : ¬ exp (⟨0, 0⟩ : Dual ℝ) * ⟨1, 0⟩ < (⟨1, 0⟩ : Dual ℝ) := by
    show ¬ Real.exp 0 * 1 < 1
    simp
  rw [if_neg hb] at h1
  cases h1
  simp [lb1E, d1E, d2E, wE, two_val, two_eps, phi_neg]
  ring

/-- the same point with the running maximum below the strike (`m = −1`, first branch): the spot
derivative is the same number (the two branch formulas differ by a function of `m` only there) -/
example :
    ∃ D, bsLookbackPrice (log ((⟨1, 1⟩ : Dual ℝ) / ⟨1, 0⟩)) ⟨-1, 0⟩ ⟨1, 0⟩ ⟨1, 0⟩ ⟨1, 0⟩ = .ok D ∧
      HasDerivAt (fun S' => val (bsLookbackPrice (Real.log (S' / 1)) (-1) 1 1 1)) D.eps 1 ∧
      D.eps = 5 / 2 * Phi (1 / 2) + phi (1 / 2) := by
  obtain ⟨D, h1, _, h3, _⟩ := lookback_autogreek_delta (S := 1) (K := 1) (t := 1) (v := 1) (-1)
    one_pos one_pos one_pos one_pos
  refine ⟨D, h1, h3, ?_⟩
  rw [lookback_eq (guards_dual one_pos one_pos)] at h1
  have hb : exp (⟨-1, 0⟩ : Dual ℝ) * ⟨1, 0⟩ < (⟨1, 0⟩ : Dual ℝ) := by
    show Real.exp (-1) * 1 < 1
    simp
  rw [if_pos hb] at h1
  cases h1
  simp [lb0E, d1E, d2E, wE, two_val, two_eps, phi_neg]
  ring

/-- autogreek vega of the at-the-money call, `t = v = K = 1`: `φ(1/2)` -/
example :
    ∃ D, bsEuropeanPrice (⟨0, 0⟩ : Dual ℝ) ⟨1, 0⟩ ⟨1, 1⟩ ⟨1, 0⟩ true = .ok D ∧
      D.eps = phi (1 / 2) := by
  obtain ⟨D, h1, _, h3⟩ := european_autogreek_vega (t := 1) (v := 1) 0 1 one_pos one_pos true
  refine ⟨D, h1, ?_⟩
  rw [h3, european_vega_ok one_pos one_pos]
  simp [d1]

/-- after the hit (`m = 0`) the American binary is the constant one with ε = 0 even when the
log-moneyness is seeded -/
example : bsAmericanBinaryPrice (⟨0, 1⟩ : Dual ℝ) ⟨0, 0⟩ ⟨1, 0⟩ ⟨1, 0⟩ = .ok ⟨1, 0⟩ :=
  american_price_dual_after_hit one_pos one_pos le_rfl

end PfVerif.C08Dual
