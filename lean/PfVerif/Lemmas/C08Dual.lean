import PfVerif.Lemmas.DualCalc
import PfVerif.Props.C08
import PfVerif.Props.C09

namespace PfVerif.C08DualAux
open PfVerif Transc Filter Topology PfVerif.BSCalc PfVerif.C08Aux

/-! ### closed forms of the model, generic in the carrier -/

section generic
variable {α : Type} [Add α] [Sub α] [Mul α] [Div α] [Neg α] [OfNat α 0] [OfNat α 1] [OfNat α 2]
  [LE α] [DecidableLE α] [LT α] [DecidableLT α] [Transc α]

/-- validation passes and the `where` guard of `d1`/`d2` is inactive -/
def Guards (t v : α) : Prop := bsValidate t v = .ok () ∧ isZero (v * sqrt t) = false

def wE (t v : α) : α := v * sqrt t
def d1E (s t v : α) : α := s / wE t v + wE t v / 2
def d2E (s t v : α) : α := s / wE t v - wE t v / 2

def euroE (s t v k : α) (call : Bool) : α :=
  if call then exp s * k * ncdf (d1E s t v) - k * ncdf (d2E s t v)
  else exp s * k * ncdf (d1E s t v) - k * ncdf (d2E s t v) + k * (1 - exp s)

def binE (s t v : α) (call : Bool) : α :=
  if call then ncdf (d2E s t v) else 1 - ncdf (d2E s t v)

def amE (s t v : α) : α := ncdf (d2E s t v) + exp s * ncdf (d1E s t v)

def lb0E (s t v k : α) : α :=
  exp s * k * (ncdf (d1E s t v) + (s + wE t v * wE t v / 2) * ncdf (d1E s t v)
    + wE t v * npdf (d1E s t v)) - k * ncdf (d2E s t v)

def lb1E (s m t v k : α) : α :=
  exp s * k * (ncdf (d1E (s - m) t v) + ((s - m) + wE t v * wE t v / 2) * ncdf (d1E (s - m) t v)
    + wE t v * npdf (d1E (s - m) t v)) - k + exp m * k * (1 - ncdf (d2E (s - m) t v))

omit [Sub α] [Neg α] [OfNat α 1] [LT α] [DecidableLT α] in
theorem bsD1_eq {t v : α} (h : Guards t v) (s : α) : bsD1 s t v = .ok (d1E s t v) := by
  unfold bsD1
  rw [h.1]
  show Except.ok (if (!(isZero s) || !(isZero (v * sqrt t))) = true then _ else _) = _
  rw [h.2]
  simp [d1E, wE]

omit [Add α] [Neg α] [OfNat α 1] [LT α] [DecidableLT α] in
theorem bsD2_eq {t v : α} (h : Guards t v) (s : α) : bsD2 s t v = .ok (d2E s t v) := by
  unfold bsD2
  rw [h.1]
  show Except.ok (if (!(isZero s) || !(isZero (v * sqrt t))) = true then _ else _) = _
  rw [h.2]
  simp [d2E, wE]

omit [Neg α] [LT α] [DecidableLT α] in
theorem european_eq {t v : α} (h : Guards t v) (s k : α) (call : Bool) :
    bsEuropeanPrice s t v k call = .ok (euroE s t v k call) := by
  unfold bsEuropeanPrice
  rw [bsD1_eq h, bsD2_eq h]
  cases call <;> rfl

omit [Add α] [Neg α] [LT α] [DecidableLT α] in
theorem binary_eq {t v : α} (h : Guards t v) (s : α) (call : Bool) :
    bsBinaryPrice s t v call = .ok (binE s t v call) := by
  unfold bsBinaryPrice
  rw [bsD2_eq h]
  rfl

omit [Neg α] in
theorem american_eq {t v : α} (h : Guards t v) (s m : α) :
    bsAmericanBinaryPrice s m t v = .ok (if m < 0 then amE s t v else 1) := by
  unfold bsAmericanBinaryPrice
  rw [bsD1_eq h, bsD2_eq h]
  rfl

omit [Neg α] in
theorem lookback_eq {t v : α} (h : Guards t v) (s m k : α) :
    bsLookbackPrice s m t v k
      = .ok (if exp m * k < k then lb0E s t v k else lb1E s m t v k) := by
  unfold bsLookbackPrice
  rw [bsD1_eq h, bsD2_eq h, bsD1_eq h, bsD2_eq h]
  rfl

end generic

/-! ### the guards at `ℝ` and at `Dual ℝ` -/

theorem guards_real {t v : ℝ} (ht : 0 < t) (hv : 0 < v) : Guards t v :=
  ⟨bsValidate_ok ht hv, isZero_of_ne (w_pos ht hv).ne'⟩

theorem guards_dual {T V : Dual ℝ} (ht : 0 < T.val) (hv : 0 < V.val) : Guards T V := by
  constructor
  · simp [bsValidate, Dual.le_iff, ht.le, hv.le]
  · have hw : 0 < V.val * Real.sqrt T.val := w_pos ht hv
    have h0 : ¬ (V * sqrt T ≤ 0) := fun h =>
      absurd (show V.val * Real.sqrt T.val ≤ 0 from h) (not_le.2 hw)
    simp [isZero, h0]

section real
variable {t v : ℝ} (ht : 0 < t) (hv : 0 < v)
include ht hv

theorem val_d1 (s : ℝ) : val (bsD1 s t v) = d1E s t v := by
  rw [bsD1_eq (guards_real ht hv), val_ok]
theorem val_d2 (s : ℝ) : val (bsD2 s t v) = d2E s t v := by
  rw [bsD2_eq (guards_real ht hv), val_ok]
theorem val_european (s k : ℝ) (call : Bool) :
    val (bsEuropeanPrice s t v k call) = euroE s t v k call := by
  rw [european_eq (guards_real ht hv), val_ok]
theorem val_binary (s : ℝ) (call : Bool) : val (bsBinaryPrice s t v call) = binE s t v call := by
  rw [binary_eq (guards_real ht hv), val_ok]
theorem val_american (s m : ℝ) :
    val (bsAmericanBinaryPrice s m t v) = if m < 0 then amE s t v else 1 := by
  rw [american_eq (guards_real ht hv), val_ok]
theorem val_lookback (s m k : ℝ) :
    val (bsLookbackPrice s m t v k)
      = if Real.exp m * k < k then lb0E s t v k else lb1E s m t v k := by
  rw [lookback_eq (guards_real ht hv), val_ok]
  rfl

end real

/-! ### the closed forms at `Dual ℝ` track the closed forms at `ℝ` along any curve -/

section tracks
variable {θ : ℝ} {S T V Kd M : Dual ℝ} {sf tf vf kf mf : ℝ → ℝ}

theorem eventually_pos (hT : Tracks T tf θ) (hV : Tracks V vf θ) (ht : 0 < tf θ) (hv : 0 < vf θ) :
    ∀ᶠ x in 𝓝 θ, 0 < tf x ∧ 0 < vf x :=
  (continuousAt_const.eventually_lt hT.2.continuousAt ht).and
    (continuousAt_const.eventually_lt hV.2.continuousAt hv)

theorem tracks_wE (hT : Tracks T tf θ) (hV : Tracks V vf θ) (ht : 0 < tf θ) :
    Tracks (wE T V) (fun x => wE (tf x) (vf x)) θ :=
  hV.mul (hT.sqrt ht.ne')

theorem wE_ne {t v : ℝ} (ht : 0 < t) (hv : 0 < v) : wE t v ≠ 0 := (w_pos ht hv).ne'

theorem tracks_d1E (hS : Tracks S sf θ) (hT : Tracks T tf θ) (hV : Tracks V vf θ)
    (ht : 0 < tf θ) (hv : 0 < vf θ) :
    Tracks (d1E S T V) (fun x => d1E (sf x) (tf x) (vf x)) θ :=
  (hS.div (tracks_wE hT hV ht) (wE_ne ht hv)).add
    ((tracks_wE hT hV ht).div (tracks_ofNat 2) two_ne_zero)

theorem tracks_d2E (hS : Tracks S sf θ) (hT : Tracks T tf θ) (hV : Tracks V vf θ)
    (ht : 0 < tf θ) (hv : 0 < vf θ) :
    Tracks (d2E S T V) (fun x => d2E (sf x) (tf x) (vf x)) θ :=
  (hS.div (tracks_wE hT hV ht) (wE_ne ht hv)).sub
    ((tracks_wE hT hV ht).div (tracks_ofNat 2) two_ne_zero)

theorem tracks_euroE (hS : Tracks S sf θ) (hT : Tracks T tf θ) (hV : Tracks V vf θ)
    (hK : Tracks Kd kf θ) (ht : 0 < tf θ) (hv : 0 < vf θ) (call : Bool) :
    Tracks (euroE S T V Kd call) (fun x => euroE (sf x) (tf x) (vf x) (kf x) call) θ := by
  have h1 := (tracks_d1E hS hT hV ht hv).ncdf
  have h2 := (tracks_d2E hS hT hV ht hv).ncdf
  have hc := ((hS.exp.mul hK).mul h1).sub (hK.mul h2)
  cases call
  · exact hc.add (hK.mul (tracks_one.sub hS.exp))
  · exact hc

theorem tracks_binE (hS : Tracks S sf θ) (hT : Tracks T tf θ) (hV : Tracks V vf θ)
    (ht : 0 < tf θ) (hv : 0 < vf θ) (call : Bool) :
    Tracks (binE S T V call) (fun x => binE (sf x) (tf x) (vf x) call) θ := by
  have h2 := (tracks_d2E hS hT hV ht hv).ncdf
  cases call
  · exact tracks_one.sub h2
  · exact h2

theorem tracks_amE (hS : Tracks S sf θ) (hT : Tracks T tf θ) (hV : Tracks V vf θ)
    (ht : 0 < tf θ) (hv : 0 < vf θ) :
    Tracks (amE S T V) (fun x => amE (sf x) (tf x) (vf x)) θ :=
  (tracks_d2E hS hT hV ht hv).ncdf.add (hS.exp.mul (tracks_d1E hS hT hV ht hv).ncdf)

/-- the bracket of the lookback formula -/
theorem tracks_lbBracket {A : Dual ℝ} {af : ℝ → ℝ} (hA : Tracks A af θ) (hT : Tracks T tf θ)
    (hV : Tracks V vf θ) (ht : 0 < tf θ) (hv : 0 < vf θ) :
    Tracks (ncdf (d1E A T V) + (A + wE T V * wE T V / 2) * ncdf (d1E A T V)
        + wE T V * npdf (d1E A T V))
      (fun x => ncdf (d1E (af x) (tf x) (vf x))
        + (af x + wE (tf x) (vf x) * wE (tf x) (vf x) / 2) * ncdf (d1E (af x) (tf x) (vf x))
        + wE (tf x) (vf x) * npdf (d1E (af x) (tf x) (vf x))) θ := by
  have hd := tracks_d1E hA hT hV ht hv
  have hw := tracks_wE hT hV ht
  exact (hd.ncdf.add ((hA.add ((hw.mul hw).div (tracks_ofNat 2) two_ne_zero)).mul hd.ncdf)).add
    (hw.mul hd.npdf)

theorem tracks_lb0E (hS : Tracks S sf θ) (hT : Tracks T tf θ) (hV : Tracks V vf θ)
    (hK : Tracks Kd kf θ) (ht : 0 < tf θ) (hv : 0 < vf θ) :
    Tracks (lb0E S T V Kd) (fun x => lb0E (sf x) (tf x) (vf x) (kf x)) θ :=
  ((hS.exp.mul hK).mul (tracks_lbBracket hS hT hV ht hv)).sub
    (hK.mul (tracks_d2E hS hT hV ht hv).ncdf)

theorem tracks_lb1E (hS : Tracks S sf θ) (hM : Tracks M mf θ) (hT : Tracks T tf θ)
    (hV : Tracks V vf θ) (hK : Tracks Kd kf θ) (ht : 0 < tf θ) (hv : 0 < vf θ) :
    Tracks (lb1E S M T V Kd) (fun x => lb1E (sf x) (mf x) (tf x) (vf x) (kf x)) θ :=
  (((hS.exp.mul hK).mul (tracks_lbBracket (hS.sub hM) hT hV ht hv)).sub hK).add
    ((hM.exp.mul hK).mul (tracks_one.sub (tracks_d2E (hS.sub hM) hT hV ht hv).ncdf))

end tracks

end PfVerif.C08DualAux

namespace PfVerif.C08DualAux
open PfVerif Transc Filter Topology PfVerif.BSCalc PfVerif.C08Aux

/-- if the dual evaluation succeeds with a tracked result and the derivative is known in closed
form, the ε-part is that closed form -/
theorem greek_of_tracks {R : Except Err (Dual ℝ)} {f : ℝ → ℝ} {θ c : ℝ}
    (h : ∃ D, R = .ok D ∧ Tracks D f θ) (hc : HasDerivAt f c θ) :
    ∃ D, R = .ok D ∧ D.val = f θ ∧ D.eps = c := by
  obtain ⟨D, h1, h2⟩ := h
  exact ⟨D, h1, h2.1, h2.2.unique hc⟩

/-- from the spot parameterisation `S ↦ f (log (S / K))` to the log-moneyness: `∂/∂s = S ∂/∂S` -/
theorem hasDerivAt_of_spot {f : ℝ → ℝ} {K s δ : ℝ} (hK : 0 < K)
    (h : HasDerivAt (fun S' => f (Real.log (S' / K))) δ (K * Real.exp s)) :
    HasDerivAt f (K * Real.exp s * δ) s := by
  have h1 : HasDerivAt (fun s' => K * Real.exp s') (K * Real.exp s) s :=
    (Real.hasDerivAt_exp s).const_mul K
  have h2 := h.comp s h1
  refine (h2.congr_deriv (mul_comm _ _)).congr_of_eventuallyEq (Eventually.of_forall fun s' => ?_)
  show f s' = f (Real.log (K * Real.exp s' / K))
  rw [mul_div_cancel_left₀ _ hK.ne', Real.log_exp]

theorem log_spot (K s : ℝ) (hK : 0 < K) : Real.log (K * Real.exp s / K) = s := by
  rw [mul_div_cancel_left₀ _ hK.ne', Real.log_exp]

/-- the spot `⟨S, 1⟩` enters the pricers as `log (⟨S, 1⟩ / ⟨K, 0⟩)` -/
theorem tracks_logMoneyness {S K : ℝ} (hS : 0 < S) (hK : 0 < K) :
    Tracks (log ((⟨S, 1⟩ : Dual ℝ) / ⟨K, 0⟩)) (fun S' => Real.log (S' / K)) S :=
  (tracks_var'.div (tracks_const K) hK.ne').log (div_pos hS hK).ne'

end PfVerif.C08DualAux

/-!
  ## C08 (dual part) — forward-mode evaluation of the Black–Scholes pricers is differentiation

  `autogreek.delta/gamma/vega/theta` differentiate a pricer with autograd.  The same generic model
  definition evaluated at `Dual ℝ` carries `⟨value, derivative⟩`; the theorems below say that the
  ε-part of the model's price functions at `Dual ℝ` is the derivative of the model at `ℝ`
  (`Tracks D f θ : D.val = f θ ∧ HasDerivAt f D.eps θ`) along any differentiable curve of inputs
  with `t, v > 0` (`*_dual_curve`), in particular when one input is seeded with ε = 1 and the others
  are constants (`*_dual_s/_v/_t/_spot`), and link the ε-parts to the closed-form Greeks of C08.
-/
namespace PfVerif.C08Dual
open PfVerif Transc Filter Topology PfVerif.BSCalc PfVerif.C08Aux PfVerif.C08DualAux

/-! ### along an arbitrary curve of inputs -/

section curve
variable {θ : ℝ} {S T V Kd : Dual ℝ} {sf tf vf kf : ℝ → ℝ}

theorem guards_of_tracks (hT : Tracks T tf θ) (hV : Tracks V vf θ) (ht : 0 < tf θ)
    (hv : 0 < vf θ) : Guards T V :=
  guards_dual (by rw [hT.1]; exact ht) (by rw [hV.1]; exact hv)

theorem d1_dual_curve (hS : Tracks S sf θ) (hT : Tracks T tf θ) (hV : Tracks V vf θ)
    (ht : 0 < tf θ) (hv : 0 < vf θ) :
    ∃ D, bsD1 S T V = .ok D ∧ Tracks D (fun x => val (bsD1 (sf x) (tf x) (vf x))) θ := by
  refine ⟨_, bsD1_eq (guards_of_tracks hT hV ht hv) S,
    (tracks_d1E hS hT hV ht hv).congr_eventually ?_⟩
  filter_upwards [eventually_pos hT hV ht hv] with x hx
  exact val_d1 hx.1 hx.2 _

theorem d2_dual_curve (hS : Tracks S sf θ) (hT : Tracks T tf θ) (hV : Tracks V vf θ)
    (ht : 0 < tf θ) (hv : 0 < vf θ) :
    ∃ D, bsD2 S T V = .ok D ∧ Tracks D (fun x => val (bsD2 (sf x) (tf x) (vf x))) θ := by
  refine ⟨_, bsD2_eq (guards_of_tracks hT hV ht hv) S,
    (tracks_d2E hS hT hV ht hv).congr_eventually ?_⟩
  filter_upwards [eventually_pos hT hV ht hv] with x hx
  exact val_d2 hx.1 hx.2 _

theorem european_price_dual_curve (hS : Tracks S sf θ) (hT : Tracks T tf θ) (hV : Tracks V vf θ)
    (hK : Tracks Kd kf θ) (ht : 0 < tf θ) (hv : 0 < vf θ) (call : Bool) :
    ∃ D, bsEuropeanPrice S T V Kd call = .ok D ∧
      Tracks D (fun x => val (bsEuropeanPrice (sf x) (tf x) (vf x) (kf x) call)) θ := by
  refine ⟨_, european_eq (guards_of_tracks hT hV ht hv) S Kd call,
    (tracks_euroE hS hT hV hK ht hv call).congr_eventually ?_⟩
  filter_upwards [eventually_pos hT hV ht hv] with x hx
  exact val_european hx.1 hx.2 _ _ _

theorem binary_price_dual_curve (hS : Tracks S sf θ) (hT : Tracks T tf θ) (hV : Tracks V vf θ)
    (ht : 0 < tf θ) (hv : 0 < vf θ) (call : Bool) :
    ∃ D, bsBinaryPrice S T V call = .ok D ∧
      Tracks D (fun x => val (bsBinaryPrice (sf x) (tf x) (vf x) call)) θ := by
  refine ⟨_, binary_eq (guards_of_tracks hT hV ht hv) S call,
    (tracks_binE hS hT hV ht hv call).congr_eventually ?_⟩
  filter_upwards [eventually_pos hT hV ht hv] with x hx
  exact val_binary hx.1 hx.2 _ _

/-- American binary, running maximum below the barrier (`m < 0`, a constant) -/
theorem american_price_dual_curve (hS : Tracks S sf θ) (hT : Tracks T tf θ) (hV : Tracks V vf θ)
    (ht : 0 < tf θ) (hv : 0 < vf θ) {m : ℝ} (hm : m < 0) :
    ∃ D, bsAmericanBinaryPrice S ⟨m, 0⟩ T V = .ok D ∧
      Tracks D (fun x => val (bsAmericanBinaryPrice (sf x) m (tf x) (vf x))) θ := by
  have hm' : (⟨m, 0⟩ : Dual ℝ) < 0 := hm
  refine ⟨_, by rw [american_eq (guards_of_tracks hT hV ht hv), if_pos hm'],
    (tracks_amE hS hT hV ht hv).congr_eventually ?_⟩
  filter_upwards [eventually_pos hT hV ht hv] with x hx
  rw [val_american hx.1 hx.2, if_pos hm]

/-- American binary once the barrier has been hit (`0 ≤ m`): the price is the constant one and its
ε-part vanishes, whatever is seeded -/
theorem american_price_dual_after_hit {M : Dual ℝ} (ht : 0 < T.val) (hv : 0 < V.val)
    (hm : 0 ≤ M.val) : bsAmericanBinaryPrice S M T V = .ok ⟨1, 0⟩ := by
  have hm' : ¬ M < 0 := fun h => absurd (show M.val < 0 from h) (not_lt.2 hm)
  rw [american_eq (guards_dual ht hv), if_neg hm']
  rfl

/-- lookback call, both branches; running maximum `m` and strike `K` constants -/
theorem lookback_price_dual_curve (hS : Tracks S sf θ) (hT : Tracks T tf θ) (hV : Tracks V vf θ)
    (ht : 0 < tf θ) (hv : 0 < vf θ) (m K : ℝ) :
    ∃ D, bsLookbackPrice S ⟨m, 0⟩ T V ⟨K, 0⟩ = .ok D ∧
      Tracks D (fun x => val (bsLookbackPrice (sf x) m (tf x) (vf x) K)) θ := by
  rw [lookback_eq (guards_of_tracks hT hV ht hv)]
  by_cases hb : Real.exp m * K < K
  · have hb' : exp (⟨m, 0⟩ : Dual ℝ) * ⟨K, 0⟩ < (⟨K, 0⟩ : Dual ℝ) := hb
    rw [if_pos hb']
    refine ⟨_, rfl, (tracks_lb0E hS hT hV (tracks_const K) ht hv).congr_eventually ?_⟩
    filter_upwards [eventually_pos hT hV ht hv] with x hx
    rw [val_lookback hx.1 hx.2, if_pos hb]
  · have hb' : ¬ exp (⟨m, 0⟩ : Dual ℝ) * ⟨K, 0⟩ < (⟨K, 0⟩ : Dual ℝ) := hb
    rw [if_neg hb']
    refine ⟨_, rfl,
      (tracks_lb1E hS (tracks_const m) hT hV (tracks_const K) ht hv).congr_eventually ?_⟩
    filter_upwards [eventually_pos hT hV ht hv] with x hx
    rw [val_lookback hx.1 hx.2, if_neg hb]

end curve

end PfVerif.C08Dual
