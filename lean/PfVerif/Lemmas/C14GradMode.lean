/-
  C14, last sentence — "Quantities documented as evaluation-only (price by default, losses with gradients disabled) carry
  no graph" — over HISTORIES of calls, including calls through which an exception passes (Model/GradMode.lean; op
  `grad_mode`, harness/ext_gradmode.py).

  * `withMode_restores`, `prim_mode_preserved`, `runPrims_mode_preserved`, `block_mode_preserved`,
    `script_mode_preserved`, `script_mode_last_set`: no library call, failing or not, inside or outside a block of the
    caller, moves the ambient switch; only the caller's own `torch.set_grad_enabled(b)` does, and then to `b`;
  * `runPrims_outs`, `runScript_outs`: every call of a history is evaluated exactly as if it were the first call under
    the ambient mode — `failures_do_not_leak`: what a call returns does not depend on which EARLIER calls failed;
  * `price_default_no_graph`, `price_enable_grad_graph`, `computeLoss_graph`, `computeLoss_disabled_no_graph`,
    `computePL_follows_ambient`: the graph of each quantity as a function of its flag and (only for the un-switched
    ones) the ambient mode — `price(enable_grad=True)` and `compute_loss()` carry a graph even inside the caller's `no_grad`;
  * `fitLoop_after`, `fitLoop_graph`, `fit_training_has_graph`, `fit_validation_no_graph`, `fitLoop_length`,
    `fit_mode_preserved`: in `fit` every training loss carries a graph, every validation loss none, and the switch is
    back after every evaluation, also in the epoch that raises.
-/
import PfVerif.Model.GradMode

namespace PfVerif.C14GradMode
open PfVerif.GradMode

/-- `with torch.set_grad_enabled(b)`: the switch is back on either exit, whatever the body did -/
theorem withMode_restores {β : Type} (b : Bool) (body : Mode → β) (m : Mode) : (withMode b body m).1 = m := rfl

theorem withMode_body {β : Type} (b : Bool) (body : Mode → β) (m : Mode) : (withMode b body m).2 = body b := rfl

/-- no library call moves the ambient switch — also when an exception passes through it -/
theorem prim_mode_preserved (t : Bool) (m : Mode) (p : Prim) : (p.run t m).1 = m := by
  cases p <;> rfl

theorem runPrims_mode_preserved (t : Bool) (m : Mode) (ps : List Prim) : (runPrims t m ps).1 = m := by
  induction ps generalizing m with
  | nil => rfl
  | cons p rest ih =>
    simp only [runPrims]
    rw [ih]
    exact prim_mode_preserved t m p

/-- every call of a history is evaluated as if it were the first one -/
theorem runPrims_outs (t : Bool) (m : Mode) (ps : List Prim) :
    (runPrims t m ps).2 = ps.map (fun p => (p.run t m).2) := by
  induction ps generalizing m with
  | nil => rfl
  | cons p rest ih =>
    simp only [runPrims, List.map_cons]
    rw [ih, prim_mode_preserved]

/-- a block of the caller restores the caller's mode -/
theorem block_mode_preserved (t : Bool) (m : Mode) (b : Bool) (body : List Prim) :
    ((Call.block b body).run t m).1 = m := rfl

/-- … and inside it every call sees the block's mode -/
theorem block_outs (t : Bool) (m : Mode) (b : Bool) (body : List Prim) :
    ((Call.block b body).run t m).2 = body.map (fun p => (p.run t b).2) := by
  show (runPrims t b body).2 = _
  exact runPrims_outs t b body

def Call.isSet : Call → Bool
  | .setGlobal _ => true
  | _ => false

theorem call_mode_preserved (t : Bool) (m : Mode) (c : Call) (h : Call.isSet c = false) : (c.run t m).1 = m := by
  cases c with
  | prim p => exact prim_mode_preserved t m p
  | block b body => rfl
  | setGlobal b => simp [Call.isSet] at h

/-- a script in which the caller never calls `torch.set_grad_enabled(b)` as a function ends in the mode it started in -/
theorem script_mode_preserved (t : Bool) (m : Mode) (cs : List Call) (h : ∀ c ∈ cs, Call.isSet c = false) :
    (runScript t m cs).1 = m := by
  induction cs generalizing m with
  | nil => rfl
  | cons c rest ih =>
    simp only [runScript]
    rw [call_mode_preserved t m c (h c (List.mem_cons_self ..))]
    exact ih m (fun c' hc' => h c' (List.mem_cons_of_mem _ hc'))

/-- the ambient mode after a script: the last `set_grad_enabled(b)` of the caller, else the initial one -/
def lastSet (m : Mode) : List Call → Mode
  | [] => m
  | .setGlobal b :: rest => lastSet b rest
  | _ :: rest => lastSet m rest

theorem script_mode_last_set (t : Bool) (m : Mode) (cs : List Call) : (runScript t m cs).1 = lastSet m cs := by
  induction cs generalizing m with
  | nil => rfl
  | cons c rest ih =>
    simp only [runScript]
    rw [ih]
    cases c with
    | prim p => simp only [lastSet]; rw [show ((Call.prim p).run t m).1 = m from prim_mode_preserved t m p]
    | block b body => rfl
    | setGlobal b => rfl

/-- every call of a script without global switches is evaluated as if it were the first one -/
theorem runScript_outs (t : Bool) (m : Mode) (cs : List Call) (h : ∀ c ∈ cs, Call.isSet c = false) :
    (runScript t m cs).2 = cs.map (fun c => (c.run t m).2) := by
  induction cs generalizing m with
  | nil => rfl
  | cons c rest ih =>
    simp only [runScript, List.map_cons]
    rw [call_mode_preserved t m c (h c (List.mem_cons_self ..))]
    rw [ih m (fun c' hc' => h c' (List.mem_cons_of_mem _ hc'))]

/-- FAILURES DO NOT LEAK: what the `i`-th call returns is what it returns in the history in which no other call failed -/
theorem failures_do_not_leak (t : Bool) (m : Mode) (ps : List Prim) (i : Nat) (hi : i < ps.length) :
    ((runPrims t m ps).2)[i]'(by rw [runPrims_outs]; simpa using hi) = ((ps[i]).run t m).2 := by
  simp [runPrims_outs]

/-! ### the quantities -/

theorem price_default_no_graph (t : Bool) (m : Mode) :
    (Prim.price false false).run t m = (m, [⟨false, some false, m⟩]) := rfl

/-- `price(enable_grad=True)` carries the graph of the parameters — even inside the caller's `no_grad` -/
theorem price_enable_grad_graph (t : Bool) (m : Mode) :
    (Prim.price true false).run t m = (m, [⟨true, some t, m⟩]) := by
  simp [Prim.run, withMode, evalUnder]

theorem computeLoss_graph (t : Bool) (m : Mode) :
    (Prim.computeLoss true false).run t m = (m, [⟨true, some t, m⟩]) := by
  simp [Prim.run, withMode, evalUnder]

theorem computeLoss_disabled_no_graph (t : Bool) (m : Mode) :
    (Prim.computeLoss false false).run t m = (m, [⟨false, some false, m⟩]) := rfl

/-- the un-switched quantities follow the caller's mode -/
theorem computePL_follows_ambient (t : Bool) (m : Mode) :
    (Prim.computePL false).run t m = (m, [⟨m, some (m && t), m⟩]) := rfl

/-- a failing call: no tensor, and the switch is back -/
theorem failing_call_restores (t : Bool) (m : Mode) (eg : Bool) :
    (Prim.price eg true).run t m = (m, [⟨eg, none, m⟩]) ∧
    (Prim.computeLoss eg true).run t m = (m, [⟨eg, none, m⟩]) ∧
    (Prim.computePL true).run t m = (m, [⟨m, none, m⟩]) := ⟨rfl, rfl, rfl⟩

/-! ### `fit` -/

theorem fitEpoch_after (t v : Bool) (fa : Option (Nat × Bool)) (m : Mode) (e : Nat) :
    ∀ o ∈ (fitEpoch t v fa m e).1, o.after = m := by
  intro o ho
  unfold fitEpoch at ho
  simp only [withMode] at ho
  split at ho
  · simp at ho; subst ho; rfl
  · split at ho
    · simp at ho; rcases ho with rfl | rfl <;> rfl
    · simp at ho; subst ho; rfl

theorem fitEpoch_graph (t v : Bool) (fa : Option (Nat × Bool)) (m : Mode) (e : Nat) :
    ∀ o ∈ (fitEpoch t v fa m e).1, o.graph = none ∨ o.graph = some (o.inside && t) := by
  intro o ho
  unfold fitEpoch at ho
  simp only [withMode, evalUnder] at ho
  split at ho
  · simp at ho; subst ho; simp_all
  · split at ho
    · simp at ho
      rcases ho with rfl | rfl
      · simp_all
      · simp; exact Classical.em _
    · simp at ho; subst ho; simp_all

/-- after every evaluation of every epoch — also the one that raises — the switch is the caller's -/
theorem fitLoop_after (t v : Bool) (fa : Option (Nat × Bool)) (m : Mode) (n e : Nat) :
    ∀ o ∈ fitLoop t v fa m n e, o.after = m := by
  induction n generalizing e with
  | zero => intro o ho; simp [fitLoop] at ho
  | succ n ih =>
    intro o ho
    simp only [fitLoop] at ho
    split at ho
    · exact fitEpoch_after t v fa m e o ho
    · rcases List.mem_append.mp ho with h | h
      · exact fitEpoch_after t v fa m e o h
      · exact ih (e + 1) o h

/-- every loss evaluated in `fit` that comes back carries a graph iff it was a training loss (and something is trainable) -/
theorem fitLoop_graph (t v : Bool) (fa : Option (Nat × Bool)) (m : Mode) (n e : Nat) :
    ∀ o ∈ fitLoop t v fa m n e, o.graph = none ∨ o.graph = some (o.inside && t) := by
  induction n generalizing e with
  | zero => intro o ho; simp [fitLoop] at ho
  | succ n ih =>
    intro o ho
    simp only [fitLoop] at ho
    split at ho
    · exact fitEpoch_graph t v fa m e o ho
    · rcases List.mem_append.mp ho with h | h
      · exact fitEpoch_graph t v fa m e o h
      · exact ih (e + 1) o h

theorem fit_training_has_graph (v : Bool) (fa : Option (Nat × Bool)) (m : Mode) (n : Nat) (o : Out)
    (ho : o ∈ ((Prim.fit n v fa).run true m).2) (hin : o.inside = true) (hret : o.graph ≠ none) :
    o.graph = some true := by
  rcases fitLoop_graph true v fa m n 0 o ho with h | h
  · exact absurd h hret
  · simpa [hin] using h

theorem fit_validation_no_graph (t v : Bool) (fa : Option (Nat × Bool)) (m : Mode) (n : Nat) (o : Out)
    (ho : o ∈ ((Prim.fit n v fa).run t m).2) (hin : o.inside = false) (hret : o.graph ≠ none) :
    o.graph = some false := by
  rcases fitLoop_graph t v fa m n 0 o ho with h | h
  · exact absurd h hret
  · simpa [hin] using h

theorem fit_mode_preserved (t v : Bool) (fa : Option (Nat × Bool)) (m : Mode) (n : Nat) :
    ((Prim.fit n v fa).run t m).1 = m := rfl

/-- without failures: one training evaluation per epoch, one validation evaluation more when validation is on -/
theorem fitLoop_length (t v : Bool) (m : Mode) (n e : Nat) :
    (fitLoop t v none m n e).length = n * (if v then 2 else 1) := by
  induction n generalizing e with
  | zero => simp [fitLoop]
  | succ n ih =>
    cases v
    · simp [fitLoop, fitEpoch, withMode, ih, Nat.succ_mul]
    · simp [fitLoop, fitEpoch, withMode, ih, Nat.succ_mul]

/-- non-vacuity: a failing default price inside the caller's `no_grad`, then a loss built by hand, then a fit whose second
validation raises, then a hand-built loss again — the switch and the graphs are what they would be without the failures -/
example :
    runScript true true
      [.block false [.price false true, .computePL false], .prim (.computePL false),
       .prim (.fit 2 true (some (1, true))), .prim (.computePL false)] =
    (true, [[[⟨false, none, false⟩], [⟨false, some false, false⟩]], [[⟨true, some true, true⟩]],
            [[⟨true, some true, true⟩, ⟨false, some false, true⟩, ⟨true, some true, true⟩, ⟨false, none, true⟩]],
            [[⟨true, some true, true⟩]]]) := by decide

end PfVerif.C14GradMode
