/-
  C11 (last sentence) — "After simulate() all buffers of an instrument have the same shape and
  replace the previous ones entirely", over ANY history of system operations.
  Model: Model/InstrSys.lean (every buffer carries its shape, the generation number of the
  simulate / register_buffer call that produced it and which of the two it was; every primary
  records shape and generation of its last simulate).  Driver op "instr_sys".

  Precisely (`buffers_after_history`): after any history, for a primary whose last simulate had
  shape `sh` and generation `g`,
  * every buffer produced by a simulate has shape `sh` and generation `g` — none survives from an
    earlier simulate;
  * every name the class simulates is present, and is either such a buffer or was overwritten by
    a LATER user `register_buffer` (generation > `g`);
  * every other buffer comes from a user `register_buffer`, never from the call `g`.
  Hence all buffers have the same shape when the user has registered none.
-/
import PfVerif.Lemmas.C17System

namespace PfVerif.C11BuffersAux
open PfVerif PfVerif.InstrSys PfVerif.C17SystemAux

/-! ### `regMeta` (the dict update on the shape / generation table) -/

theorem regMeta_mem_cases {m : List (String × BufMeta)} {n : String} {v : BufMeta}
    {x : String × BufMeta} (hx : x ∈ regMeta m n v) : (x ∈ m ∧ x.1 ≠ n) ∨ x = (n, v) := by
  unfold regMeta at hx
  split at hx
  · rcases List.mem_map.1 hx with ⟨q, hq, rfl⟩
    by_cases hqn : q.1 = n
    · right; simp [hqn]
    · left; simp [hqn, hq]
  · rename_i hany
    rcases List.mem_append.1 hx with h | h
    · left
      refine ⟨h, ?_⟩
      intro hpn
      apply hany
      exact List.any_eq_true.2 ⟨x, h, by simp [hpn]⟩
    · right; simpa using h

theorem regMeta_has (m : List (String × BufMeta)) (n : String) (v : BufMeta) : (n, v) ∈ regMeta m n v := by
  unfold regMeta
  split
  · rename_i hany
    rcases List.any_eq_true.1 hany with ⟨q, hq, hqn⟩
    exact List.mem_map.2 ⟨q, hq, by simp [hqn]⟩
  · simp

theorem regMeta_keeps_other {m : List (String × BufMeta)} {n : String} {v : BufMeta}
    {x : String × BufMeta} (hx : x ∈ m) (hn : x.1 ≠ n) : x ∈ regMeta m n v := by
  unfold regMeta
  split
  · exact List.mem_map.2 ⟨x, hx, by simp [hn]⟩
  · exact List.mem_append_left _ hx

theorem regMeta_names (m : List (String × BufMeta)) (n : String) (v : BufMeta) :
    (regMeta m n v).map Prod.fst =
      if n ∈ m.map Prod.fst then m.map Prod.fst else m.map Prod.fst ++ [n] := by
  unfold regMeta
  by_cases hany : m.any (fun p => p.1 == n) = true
  · have hmem : n ∈ m.map Prod.fst := by
      rcases List.any_eq_true.1 hany with ⟨q, hq, hqn⟩
      exact List.mem_map.2 ⟨q, hq, by simpa using hqn⟩
    rw [if_pos hany, if_pos hmem, List.map_map]
    apply List.map_congr_left
    intro q _
    by_cases hqn : q.1 = n <;> simp [hqn]
  · have hmem : ¬ n ∈ m.map Prod.fst := by
      intro h
      rcases List.mem_map.1 h with ⟨q, hq, hqn⟩
      exact hany (List.any_eq_true.2 ⟨q, hq, by simp [hqn]⟩)
    rw [if_neg hany, if_neg hmem]
    simp

/-- the shape / generation table after `simulate` registered `names` with the value `v` -/
def foldMeta (names : List String) (v : BufMeta) (m : List (String × BufMeta)) : List (String × BufMeta) :=
  names.foldl (fun m n => regMeta m n v) m

theorem foldMeta_cons (n : String) (ns : List String) (v : BufMeta) (m : List (String × BufMeta)) :
    foldMeta (n :: ns) v m = foldMeta ns v (regMeta m n v) := rfl

theorem foldMeta_mem_cases (names : List String) {v : BufMeta} {m : List (String × BufMeta)} :
    ∀ x ∈ foldMeta names v m, (x ∈ m ∧ x.1 ∉ names) ∨ (x.1 ∈ names ∧ x.2 = v) := by
  induction names generalizing m with
  | nil => intro x hx; exact Or.inl ⟨hx, by simp⟩
  | cons n ns ih =>
    intro x hx
    rw [foldMeta_cons] at hx
    rcases ih x hx with ⟨h1, h2⟩ | ⟨h1, h2⟩
    · rcases regMeta_mem_cases h1 with ⟨hm, hne⟩ | heq
      · left
        refine ⟨hm, ?_⟩
        intro hmem
        rcases List.mem_cons.1 hmem with h | h
        · exact hne h
        · exact h2 h
      · right
        rw [heq]
        exact ⟨List.mem_cons_self, rfl⟩
    · exact Or.inr ⟨List.mem_cons_of_mem _ h1, h2⟩

theorem foldMeta_keeps_has {n : String} (names : List String) {v : BufMeta} {m : List (String × BufMeta)}
    (h : ∃ x ∈ m, x.1 = n) : ∃ x ∈ foldMeta names v m, x.1 = n := by
  induction names generalizing m with
  | nil => exact h
  | cons k ks ih =>
    rw [foldMeta_cons]
    apply ih
    rcases h with ⟨x, hx, hxn⟩
    by_cases hk : x.1 = k
    · exact ⟨(k, v), regMeta_has m k v, by rw [← hxn, hk]⟩
    · exact ⟨x, regMeta_keeps_other hx hk, hxn⟩

theorem foldMeta_has (names : List String) (v : BufMeta) (m : List (String × BufMeta)) :
    ∀ n ∈ names, ∃ x ∈ foldMeta names v m, x.1 = n := by
  induction names generalizing m with
  | nil => intro n hn; cases hn
  | cons k ks ih =>
    intro n hn
    rw [foldMeta_cons]
    rcases List.mem_cons.1 hn with rfl | hn
    · exact foldMeta_keeps_has ks ⟨_, regMeta_has m n v, rfl⟩
    · exact ih _ n hn

theorem foldMeta_keeps_other (names : List String) {v : BufMeta} {m : List (String × BufMeta)}
    {x : String × BufMeta} (hx : x ∈ m) (hn : x.1 ∉ names) : x ∈ foldMeta names v m := by
  induction names generalizing m with
  | nil => exact hx
  | cons k ks ih =>
    rw [foldMeta_cons]
    have hk : x.1 ≠ k := fun h => hn (h ▸ List.mem_cons_self)
    exact ih (regMeta_keeps_other hx hk) (fun h => hn (List.mem_cons_of_mem _ h))

/-- the two tables keep the same names in the same order under `register_buffer` ... -/
theorem reg_names_agree {m : List (String × BufMeta)} {b : List (String × DType)}
    (h : m.map Prod.fst = b.map Prod.fst) (dec : Option DType) (n : String) (v : BufMeta) (d : DType) :
    (regMeta m n v).map Prod.fst = (regBuf dec b n d).map Prod.fst := by
  rw [regMeta_names, C17Aux.regBuf_names, h]

/-- ... and under `simulate` -/
theorem sim_names_agree (names : List String) {m : List (String × BufMeta)} {b : List (String × DType)}
    (h : m.map Prod.fst = b.map Prod.fst) (dec : Option DType) (v : BufMeta) (e : DType) :
    (foldMeta names v m).map Prod.fst = (C17Aux.simBufs dec b names e).map Prod.fst := by
  induction names generalizing m b with
  | nil => exact h
  | cons n ns ih =>
    rw [foldMeta_cons, C17Aux.simBufs_cons]
    exact ih (reg_names_agree h dec n v e)

/-! ### the invariant -/

/-- what holds of the buffers of a primary when the system clock shows `clock` -/
structure BufInv (clock : Nat) (p : Prim) : Prop where
  /-- the shape table and the dtype table list the same names in the same order -/
  names : p.info.map Prod.fst = p.st.buffers.map Prod.fst
  /-- generations are those of past calls -/
  fresh : ∀ x ∈ p.info, x.2.gen < clock
  freshSim : ∀ sh g, p.lastSim = some (sh, g) → g < clock
  /-- a buffer produced by a simulate is one of the LAST simulate: its shape, its generation -/
  sim : ∀ x ∈ p.info, x.2.bySim = true → p.lastSim = some (x.2.shape, x.2.gen) ∧ x.1 ∈ p.kind.simNames
  /-- a user buffer is never of the last simulate's call, and under a simulated name it is later -/
  reg : ∀ x ∈ p.info, x.2.bySim = false → ∀ sh g, p.lastSim = some (sh, g) →
    x.2.gen ≠ g ∧ (x.1 ∈ p.kind.simNames → g < x.2.gen)
  /-- after a simulate every name the class simulates is present -/
  present : ∀ sh g, p.lastSim = some (sh, g) → ∀ n ∈ p.kind.simNames, ∃ x ∈ p.info, x.1 = n

theorem BufInv.mono {c c' : Nat} {p : Prim} (h : BufInv c p) (hc : c ≤ c') : BufInv c' p :=
  ⟨h.names, fun x hx => Nat.lt_of_lt_of_le (h.fresh x hx) hc,
   fun sh g hl => Nat.lt_of_lt_of_le (h.freshSim sh g hl) hc, h.sim, h.reg, h.present⟩

/-- one accepted operation on a primary keeps the invariant (the clock ticks) -/
theorem BufInv.step {c : Nat} {p p' : Prim} {op : POp} (h : BufInv c p) (hs : p.step c op = .ok p') :
    BufInv (c + 1) p' := by
  rcases Prim.step_ok hs with ⟨st', hst, rfl⟩
  have hcast : ∀ r, doTo p.st r = .ok st' →
      BufInv (c + 1) { p with st := st', info := p.info, lastSim := p.lastSim } := by
    intro r hr
    have hn : st'.buffers.map Prod.fst = p.st.buffers.map Prod.fst := by
      rcases C17Aux.doTo_ok hr with ⟨d, _, _, rfl⟩ | ⟨_, rfl⟩
      · exact C17Aux.castAll_names (some d) (some d) p.st.buffers
      · exact C17Aux.castAll_names p.st.declared none p.st.buffers
    exact ⟨by simp only; rw [hn]; exact h.names, fun x hx => Nat.lt_succ_of_lt (h.fresh x hx),
      fun sh g hl => Nat.lt_succ_of_lt (h.freshSim sh g hl), h.sim, h.reg, h.present⟩
  cases op with
  | to r => exact hcast r hst
  | toTensor r => exact hcast (some r) hst
  | toInstrument r => exact hcast r hst
  | setDefault d =>
    simp only [POp.dop, DOp.step] at hst
    split at hst
    · simp only [Except.ok.injEq] at hst
      subst hst
      exact ⟨h.names, fun x hx => Nat.lt_succ_of_lt (h.fresh x hx),
        fun sh g hl => Nat.lt_succ_of_lt (h.freshSim sh g hl), h.sim, h.reg, h.present⟩
    · cases hst
  | register n d sh =>
    simp only [POp.dop, DOp.step, Except.ok.injEq] at hst
    subst hst
    simp only [POp.info, POp.lastSim]
    refine ⟨reg_names_agree h.names _ _ _ _, ?_, fun sh' g hl => Nat.lt_succ_of_lt (h.freshSim sh' g hl), ?_, ?_, ?_⟩
    · intro x hx
      rcases regMeta_mem_cases hx with ⟨hm, _⟩ | heq
      · exact Nat.lt_succ_of_lt (h.fresh x hm)
      · rw [heq]; exact Nat.lt_succ_self c
    · intro x hx hb
      rcases regMeta_mem_cases hx with ⟨hm, _⟩ | heq
      · exact h.sim x hm hb
      · rw [heq] at hb; cases hb
    · intro x hx hb sh' g hl
      rcases regMeta_mem_cases hx with ⟨hm, _⟩ | heq
      · exact h.reg x hm hb sh' g hl
      · rw [heq]
        have hg := h.freshSim sh' g hl
        exact ⟨fun hcg => by simp only at hcg; omega, fun _ => hg⟩
    · intro sh' g hl k hk
      rcases h.present sh' g hl k hk with ⟨x, hx, hxk⟩
      by_cases hxn : x.1 = n
      · exact ⟨_, regMeta_has p.info n _, by rw [← hxk, hxn]⟩
      · exact ⟨x, regMeta_keeps_other hx hxn, hxk⟩
  | simulate np ns =>
    have hst' := C17Aux.simulate_ok (show (DOp.simulate p.kind.simNames).step p.st = .ok st' from hst)
    subst hst'
    simp only [POp.info, POp.lastSim]
    have hfold : ∀ x ∈ (p.kind.simNames.foldl (fun m n => regMeta m n ⟨(np, ns), c, true⟩) p.info),
        (x ∈ p.info ∧ x.1 ∉ p.kind.simNames) ∨ (x.1 ∈ p.kind.simNames ∧ x.2 = ⟨(np, ns), c, true⟩) :=
      foldMeta_mem_cases p.kind.simNames
    refine ⟨sim_names_agree p.kind.simNames h.names _ _ _, ?_, ?_, ?_, ?_, ?_⟩
    · intro x hx
      rcases hfold x hx with ⟨hm, _⟩ | ⟨_, hv⟩
      · exact Nat.lt_succ_of_lt (h.fresh x hm)
      · rw [hv]; exact Nat.lt_succ_self c
    · intro sh g hl
      simp only [Option.some.injEq, Prod.mk.injEq] at hl
      rw [← hl.2]; exact Nat.lt_succ_self c
    · intro x hx hb
      rcases hfold x hx with ⟨hm, hn⟩ | ⟨hn, hv⟩
      · exact absurd (h.sim x hm hb).2 hn        -- an older simulated buffer cannot survive
      · rw [hv]; exact ⟨rfl, hn⟩
    · intro x hx hb sh g hl
      simp only [Option.some.injEq, Prod.mk.injEq] at hl
      rcases hfold x hx with ⟨hm, hn⟩ | ⟨_, hv⟩
      · have := h.fresh x hm
        exact ⟨fun hg => by omega, fun hmem => absurd hmem hn⟩
      · rw [hv] at hb; cases hb
    · intro sh g _ n hn
      exact foldMeta_has p.kind.simNames _ p.info n hn

/-- every primary of the system satisfies the invariant at the system's clock -/
def SysBufInv (s : Sys) : Prop := ∀ (i : Nat) (p : Prim), s.prims[i]? = some p → BufInv s.clock p

theorem sysBufInv_step {s s' : Sys} {o : SOp} (h : SysBufInv s) (hs : o.step s = .ok s') : SysBufInv s' := by
  intro i p hp
  rcases step_ok_cases hs with ⟨j, op, hon, _⟩ | ⟨k, dv, b, _, rfl⟩ | ⟨d, hf, rfl⟩
  · rcases onPrim_ok hon with ⟨q, q', hj, hq, rfl⟩
    simp only at hp ⊢
    by_cases hji : j = i
    · subst hji
      have hlt : j < s.prims.length := (List.getElem?_eq_some_iff.1 hj).1
      rw [List.getElem?_set_self hlt] at hp
      simp only [Option.some.injEq] at hp
      subst hp
      exact (h j q hj).step hq
    · rw [List.getElem?_set_ne hji] at hp
      exact (h i p hp).mono (Nat.le_succ _)
  · exact h i p hp
  · simp only [List.getElem?_map] at hp ⊢
    cases hq : s.prims[i]? with
    | none => rw [hq] at hp; cases hp
    | some q =>
      rw [hq] at hp
      simp only [Option.map_some, Option.some.injEq] at hp
      subst hp
      have hb := h i q hq
      unfold Prim.exec
      cases hstep : q.step s.clock (.setDefault d) with
      | error e => exact hb
      | ok q' =>
        rcases Prim.step_ok hstep with ⟨st', hst, rfl⟩
        simp only [POp.dop, DOp.step, hf, if_true, Except.ok.injEq] at hst
        subst hst
        exact ⟨hb.names, hb.fresh, hb.freshSim, hb.sim, hb.reg, hb.present⟩

theorem sysBufInv_init {amb : DType} {ps : List (PrimKind × Option DType)} {ds : List (Nat × PayoffKind)}
    {s0 : Sys} (h0 : Sys.init amb ps ds = .ok s0) : SysBufInv s0 := by
  intro i p hp
  rcases (init_table h0).2.2.1 i p hp with ⟨kd, _, hinit, _, hinfo, hlast⟩
  have hb := (C17.init_state hinit).2.1
  refine ⟨by rw [hinfo, hb]; rfl, ?_, ?_, ?_, ?_, ?_⟩
  · intro x hx; rw [hinfo] at hx; cases hx
  · intro sh g hl; rw [hlast] at hl; cases hl
  · intro x hx; rw [hinfo] at hx; cases hx
  · intro x hx; rw [hinfo] at hx; cases hx
  · intro sh g hl; rw [hlast] at hl; cases hl

end PfVerif.C11BuffersAux

namespace PfVerif.C11Buffers
open PfVerif PfVerif.InstrSys PfVerif.C17SystemAux PfVerif.C11BuffersAux

/-! ## one `simulate` -/

/-- `simulate(n_paths, n_steps)` on a primary: every name the class simulates is present
afterwards, EVERY entry under such a name is the new one (shape `(n_paths, n_steps)`, generation =
this call, produced by a simulate), every other buffer is an untouched old one, and the call is
recorded as the last simulate — whatever was there before -/
theorem simulate_replaces_entirely {p p' : Prim} {c np ns : Nat} (h : p.step c (.simulate np ns) = .ok p') :
    (∀ n ∈ p.kind.simNames, ∃ x ∈ p'.info, x.1 = n) ∧
    (∀ x ∈ p'.info, x.1 ∈ p.kind.simNames → x.2 = ⟨(np, ns), c, true⟩) ∧
    (∀ x ∈ p'.info, x.1 ∉ p.kind.simNames → x ∈ p.info) ∧
    (∀ x ∈ p.info, x.1 ∉ p.kind.simNames → x ∈ p'.info) ∧
    p'.lastSim = some ((np, ns), c) ∧ p'.kind = p.kind := by
  rcases Prim.step_ok h with ⟨st', _, rfl⟩
  simp only [POp.info, POp.lastSim]
  have hfold : ∀ x ∈ (p.kind.simNames.foldl (fun m n => regMeta m n ⟨(np, ns), c, true⟩) p.info),
      (x ∈ p.info ∧ x.1 ∉ p.kind.simNames) ∨ (x.1 ∈ p.kind.simNames ∧ x.2 = ⟨(np, ns), c, true⟩) :=
    foldMeta_mem_cases p.kind.simNames
  refine ⟨foldMeta_has p.kind.simNames _ p.info, ?_, ?_, ?_, trivial, trivial⟩
  · intro x hx hn
    rcases hfold x hx with ⟨_, hnn⟩ | ⟨_, hv⟩
    · exact absurd hn hnn
    · exact hv
  · intro x hx hn
    rcases hfold x hx with ⟨hm, _⟩ | ⟨hn', _⟩
    · exact hm
    · exact absurd hn' hn
  · intro x hx hn
    exact foldMeta_keeps_other p.kind.simNames hx hn

/-- casts and changes of the ambient default keep shapes, generations and the record of the last
simulate -/
theorem cast_keeps_shapes_and_generations {p p' : Prim} {c : Nat} {op : POp} (h : p.step c op = .ok p')
    (hop : (∃ r, op = .to r) ∨ (∃ r, op = .toTensor r) ∨ (∃ r, op = .toInstrument r) ∨ (∃ d, op = .setDefault d)) :
    p'.info = p.info ∧ p'.lastSim = p.lastSim := by
  rcases Prim.step_ok h with ⟨st', _, rfl⟩
  rcases hop with ⟨r, rfl⟩ | ⟨r, rfl⟩ | ⟨r, rfl⟩ | ⟨d, rfl⟩ <;> exact ⟨rfl, rfl⟩

/-- a user `register_buffer(name, tensor)`: the entry under `name` is the new one (the tensor's
shape, generation = this call, not produced by a simulate), the others are untouched, the record of
the last simulate is kept -/
theorem register_overwrites_one {p p' : Prim} {c : Nat} {n : String} {d : DType} {sh : Shape}
    (h : p.step c (.register n d sh) = .ok p') :
    (n, ⟨sh, c, false⟩) ∈ p'.info ∧
    (∀ x ∈ p'.info, x.1 = n → x.2 = ⟨sh, c, false⟩) ∧
    (∀ x ∈ p'.info, x.1 ≠ n → x ∈ p.info) ∧
    (∀ x ∈ p.info, x.1 ≠ n → x ∈ p'.info) ∧
    p'.lastSim = p.lastSim := by
  rcases Prim.step_ok h with ⟨st', _, rfl⟩
  simp only [POp.info, POp.lastSim]
  refine ⟨regMeta_has p.info n _, ?_, ?_, fun x hx hn => regMeta_keeps_other hx hn, trivial⟩
  · intro x hx hn
    rcases regMeta_mem_cases hx with ⟨_, hne⟩ | heq
    · exact absurd hn hne
    · rw [heq]
  · intro x hx hn
    rcases regMeta_mem_cases hx with ⟨hm, _⟩ | heq
    · exact hm
    · rw [heq] at hn; exact absurd rfl hn

/-- `derivative.simulate(n_paths)` and `primary.simulate` routed through the system: the primary's
record of its last simulate is this call (shape and the clock value of the call) -/
theorem system_simulate_recorded {s s' : Sys} {i np ns : Nat} (h : (SOp.primSimulate i np ns).step s = .ok s') :
    ∃ p p', s.prims[i]? = some p ∧ s'.prims[i]? = some p' ∧ p.step s.clock (.simulate np ns) = .ok p' ∧
      p'.lastSim = some ((np, ns), s.clock) ∧ s'.clock = s.clock + 1 := by
  rcases onPrim_ok (show s.onPrim i (.simulate np ns) = .ok s' from h) with ⟨p, p', hi, hp, rfl⟩
  have hlt : i < s.prims.length := (List.getElem?_eq_some_iff.1 hi).1
  exact ⟨p, p', hi, List.getElem?_set_self hlt, hp, (simulate_replaces_entirely hp).2.2.2.2.1, rfl⟩

/-! ## any history -/

/-- the invariant holds for every primary after ANY history of system commands -/
theorem bufinv_after_history {amb : DType} {ps : List (PrimKind × Option DType)}
    {ds : List (Nat × PayoffKind)} {s0 : Sys} (h0 : Sys.init amb ps ds = .ok s0) (cs : List Cmd)
    {i : Nat} {p : Prim} (hp : (runCmds s0 cs).prims[i]? = some p) : BufInv (runCmds s0 cs).clock p :=
  runCmds_preserves (P := SysBufInv) (fun _ _ _ hP hs => sysBufInv_step hP hs) cs s0 (sysBufInv_init h0) i p hp

/-- C11, last sentence, over any history.  For a primary whose last simulate had shape `sh` and
generation `g`:
(1) every buffer produced by a simulate has shape `sh` and generation `g` (none survives from an
    earlier simulate) and carries a name the class simulates;
(2) every name the class simulates is present, either as such a buffer or as a user buffer
    registered LATER (generation > `g`);
(3) every user buffer has a generation different from `g`;
(4) the shape table and the dtype table have the same names in the same order. -/
theorem buffers_after_history {amb : DType} {ps : List (PrimKind × Option DType)}
    {ds : List (Nat × PayoffKind)} {s0 : Sys} (h0 : Sys.init amb ps ds = .ok s0) (cs : List Cmd)
    {i : Nat} {p : Prim} (hp : (runCmds s0 cs).prims[i]? = some p) {sh : Shape} {g : Nat}
    (hl : p.lastSim = some (sh, g)) :
    (∀ x ∈ p.info, x.2.bySim = true → x.2.shape = sh ∧ x.2.gen = g ∧ x.1 ∈ p.kind.simNames) ∧
    (∀ n ∈ p.kind.simNames, ∃ x ∈ p.info, x.1 = n ∧
      ((x.2.bySim = true ∧ x.2.shape = sh ∧ x.2.gen = g) ∨ (x.2.bySim = false ∧ g < x.2.gen))) ∧
    (∀ x ∈ p.info, x.2.bySim = false → x.2.gen ≠ g) ∧
    p.info.map Prod.fst = p.st.buffers.map Prod.fst := by
  have hb := bufinv_after_history h0 cs hp
  have hsim : ∀ x ∈ p.info, x.2.bySim = true → x.2.shape = sh ∧ x.2.gen = g ∧ x.1 ∈ p.kind.simNames := by
    intro x hx hbs
    have := hb.sim x hx hbs
    rw [hl] at this
    simp only [Option.some.injEq, Prod.mk.injEq] at this
    exact ⟨this.1.1.symm, this.1.2.symm, this.2⟩
  refine ⟨hsim, ?_, fun x hx hbs => (hb.reg x hx hbs sh g hl).1, hb.names⟩
  intro n hn
  rcases hb.present sh g hl n hn with ⟨x, hx, hxn⟩
  refine ⟨x, hx, hxn, ?_⟩
  cases hbs : x.2.bySim with
  | true => exact Or.inl ⟨rfl, (hsim x hx hbs).1, (hsim x hx hbs).2.1⟩
  | false => exact Or.inr ⟨rfl, (hb.reg x hx hbs sh g hl).2 (hxn ▸ hn)⟩

/-- "all buffers of an instrument have the same shape": when no user buffer is registered, all
buffers have the shape of the last simulate (and its generation) -/
theorem all_same_shape_without_user_buffers {amb : DType} {ps : List (PrimKind × Option DType)}
    {ds : List (Nat × PayoffKind)} {s0 : Sys} (h0 : Sys.init amb ps ds = .ok s0) (cs : List Cmd)
    {i : Nat} {p : Prim} (hp : (runCmds s0 cs).prims[i]? = some p)
    (hall : ∀ x ∈ p.info, x.2.bySim = true) :
    ∀ x ∈ p.info, ∀ y ∈ p.info, x.2.shape = y.2.shape ∧ x.2.gen = y.2.gen := by
  have hb := bufinv_after_history h0 cs hp
  intro x hx y hy
  have h1 := (hb.sim x hx (hall x hx)).1
  have h2 := (hb.sim y hy (hall y hy)).1
  rw [h1] at h2
  simp only [Option.some.injEq, Prod.mk.injEq] at h2
  exact h2

/-- before the first simulate no buffer is a simulated one -/
theorem no_simulate_no_simulated_buffer {amb : DType} {ps : List (PrimKind × Option DType)}
    {ds : List (Nat × PayoffKind)} {s0 : Sys} (h0 : Sys.init amb ps ds = .ok s0) (cs : List Cmd)
    {i : Nat} {p : Prim} (hp : (runCmds s0 cs).prims[i]? = some p) (hl : p.lastSim = none) :
    ∀ x ∈ p.info, x.2.bySim = false := by
  have hb := bufinv_after_history h0 cs hp
  intro x hx
  cases hbs : x.2.bySim with
  | false => rfl
  | true =>
    have := (hb.sim x hx hbs).1
    rw [hl] at this
    cases this

/-- generations are those of past calls: the next simulate / register_buffer gets a generation
strictly greater than every existing one, so a re-simulated buffer is never mistaken for an old one -/
theorem generations_below_clock {amb : DType} {ps : List (PrimKind × Option DType)}
    {ds : List (Nat × PayoffKind)} {s0 : Sys} (h0 : Sys.init amb ps ds = .ok s0) (cs : List Cmd)
    {i : Nat} {p : Prim} (hp : (runCmds s0 cs).prims[i]? = some p) :
    (∀ x ∈ p.info, x.2.gen < (runCmds s0 cs).clock) ∧
    (∀ sh g, p.lastSim = some (sh, g) → g < (runCmds s0 cs).clock) :=
  ⟨(bufinv_after_history h0 cs hp).fresh, (bufinv_after_history h0 cs hp).freshSim⟩

/-- `get_buffer(name)` of the model succeeds exactly on the names of the dtype table -/
theorem buf_ok_iff {amb : DType} {ps : List (PrimKind × Option DType)}
    {ds : List (Nat × PayoffKind)} {s0 : Sys} (h0 : Sys.init amb ps ds = .ok s0) (cs : List Cmd)
    {i : Nat} {p : Prim} (hp : (runCmds s0 cs).prims[i]? = some p) (n : String) :
    (∃ x, p.buf n = .ok x) ↔ n ∈ p.st.buffers.map Prod.fst := by
  have hnames := (bufinv_after_history h0 cs hp).names
  have hfind : ∀ {β : Type} (l : List (String × β)), n ∈ l.map Prod.fst ↔ ∃ y, l.find? (fun b => b.1 == n) = some y := by
    intro β l
    constructor
    · intro h
      rcases List.mem_map.1 h with ⟨y, hy, hyn⟩
      cases hf : l.find? (fun b => b.1 == n) with
      | some z => exact ⟨z, rfl⟩
      | none =>
        have := List.find?_eq_none.1 hf y hy
        simp [hyn] at this
    · rintro ⟨y, hy⟩
      exact List.mem_map.2 ⟨y, List.mem_of_find?_eq_some hy, by simpa using List.find?_some hy⟩
  constructor
  · rintro ⟨x, hx⟩
    unfold Prim.buf at hx
    split at hx
    · rename_i b m hb hm
      exact (hfind _).2 ⟨b, hb⟩
    · cases hx
  · intro h
    rcases (hfind _).1 h with ⟨b, hb⟩
    rw [← hnames] at h
    rcases (hfind _).1 h with ⟨m, hm⟩
    exact ⟨(b.2, m.2.shape), by unfold Prim.buf; rw [hb, hm]⟩

/-! ## non-vacuity: a Heston stock simulated twice with a user buffer in between -/

/-- `HestonStock()` under the default float32 -/
def demoSys : Sys :=
  { prims := [{ kind := .stochVar, st := { declared := none, buffers := [], ambient := .f32 }, info := [], lastSim := none }],
    derivs := [⟨0, .arith, none⟩], ambient := .f32, clock := 0 }

example : Sys.init .f32 [(.stochVar, none)] [(0, .arith)] = .ok demoSys := rfl

/-- simulate 2 x 4, the user overwrites `variance` with a 3 x 4 tensor and adds `extra`: the shapes
differ and `variance` is a later user buffer -/
example : (runCmds demoSys [.op (.primSimulate 0 2 4), .op (.primRegister 0 "variance" .f64 (3, 4)),
      .op (.primRegister 0 "extra" .i64 (1, 1))]).prims =
    [{ kind := .stochVar,
       st := { declared := none, buffers := [("spot", .f32), ("variance", .f64), ("extra", .i64)], ambient := .f32 },
       info := [("spot", ⟨(2, 4), 0, true⟩), ("variance", ⟨(3, 4), 1, false⟩), ("extra", ⟨(1, 1), 2, false⟩)],
       lastSim := some ((2, 4), 0) }] := by decide

/-- ... a simulation through the derivative (5 paths, 6 steps) replaces `spot` AND `variance`
(generation 3, nothing of generation 0 or 1 is left), keeps `extra` -/
example : (runCmds demoSys [.op (.primSimulate 0 2 4), .op (.primRegister 0 "variance" .f64 (3, 4)),
      .op (.primRegister 0 "extra" .i64 (1, 1)), .op (.derivSimulate 0 5 6)]).prims =
    [{ kind := .stochVar,
       st := { declared := none, buffers := [("spot", .f32), ("variance", .f32), ("extra", .i64)], ambient := .f32 },
       info := [("spot", ⟨(5, 6), 3, true⟩), ("variance", ⟨(5, 6), 3, true⟩), ("extra", ⟨(1, 1), 2, false⟩)],
       lastSim := some ((5, 6), 3) }] := by decide

/-- `compute_loss(n_paths=3, n_times=2)` re-simulates twice: generation 2 survives, not 1; a cast
keeps shapes and generations -/
example : (runCmds demoSys [.op (.primSimulate 0 2 4), .run 0 ⟨.naked, [.moneyness], none⟩ 3 4 2,
      .op (.derivTo 0 (.dtype (some .f64)))]).prims =
    [{ kind := .stochVar,
       st := { declared := some .f64, buffers := [("spot", .f64), ("variance", .f64)], ambient := .f32 },
       info := [("spot", ⟨(3, 4), 2, true⟩), ("variance", ⟨(3, 4), 2, true⟩)],
       lastSim := some ((3, 4), 2) }] := by decide

end PfVerif.C11Buffers
