/-
  C04 (entropic / quadratic-CVaR / expected-utility part) — risk-measure properties for the
  entropic risk measure, the quadratic-CVaR objective and its infimum, and the entropic and
  isoelastic expected-utility losses.
  Model: Model/Risk.lean instantiated at ℝ.

  Conventions.  Samples are `List ℝ` of any length `N ≥ 1` (ties and constants allowed).
  Pointwise order of two samples is `List.Forall₂ (· ≤ ·) xs ys` (this includes equal lengths);
  a cash shift is `xs.map (· + c)`; the mixture of two samples of equal length is
  `mixL t xs ys = List.zipWith (fun x y => t * x + (1 - t) * y) xs ys`.
-/
import PfVerif.Model.Risk
import PfVerif.Lemmas.ListR
import PfVerif.Lemmas.Gauss
import Mathlib.Analysis.MeanInequalities
import Mathlib.Analysis.MeanInequalitiesPow
import Mathlib.Analysis.SpecialFunctions.Log.Basic
import Mathlib.Analysis.SpecialFunctions.Pow.Real
import Mathlib.Analysis.Convex.SpecificFunctions.Basic
import Mathlib.Analysis.Convex.SpecificFunctions.Pow
import Mathlib.Analysis.Convex.Jensen
import Mathlib.Algebra.Order.Group.CompleteLattice
import Mathlib.Algebra.BigOperators.Fin
import Mathlib.Topology.Algebra.Monoid
import Mathlib.Topology.Order.IntermediateValue
import Mathlib.Topology.Algebra.Order.Field

namespace PfVerif.C04ERMAux
open PfVerif

/-- `x.pow(y)` at ℝ is `Real.rpow` -/
noncomputable instance instTranscPowReal : TranscPow ℝ where
  pow := fun x y => x ^ y

/-! ### bridging the model's list primitives -/

theorem sumL_eq_sum (xs : List ℝ) : sumL xs = xs.sum := by
  induction xs with
  | nil => rfl
  | cons x xs ih => simp [sumL, ih]

theorem meanR_eq (xs : List ℝ) : meanR xs = xs.sum / (xs.length : ℝ) := by
  simp [meanR, sumL_eq_sum]

/-- the mixture `t·xs + (1−t)·ys` of two samples -/
def mixL (t : ℝ) (xs ys : List ℝ) : List ℝ := List.zipWith (fun x y => t * x + (1 - t) * y) xs ys

theorem mixL_length (t : ℝ) (xs ys : List ℝ) (h : xs.length = ys.length) :
    (mixL t xs ys).length = xs.length := by
  simp [mixL, h]

/-- two samples of equal length are the two projections of one list of pairs -/
theorem exists_pairs {xs ys : List ℝ} (h : xs.length = ys.length) :
    ∃ ps : List (ℝ × ℝ), xs = ps.map Prod.fst ∧ ys = ps.map Prod.snd :=
  ⟨xs.zip ys, (List.map_fst_zip (le_of_eq h)).symm, (List.map_snd_zip (le_of_eq h.symm)).symm⟩

theorem mixL_pairs (t : ℝ) (ps : List (ℝ × ℝ)) :
    mixL t (ps.map Prod.fst) (ps.map Prod.snd) = ps.map (fun p => t * p.1 + (1 - t) * p.2) := by
  induction ps with
  | nil => rfl
  | cons p ps ih => simp only [mixL] at ih; simp [mixL, ih]

theorem forall₂_pairs {R : ℝ → ℝ → Prop} (ps : List (ℝ × ℝ)) :
    List.Forall₂ R (ps.map Prod.fst) (ps.map Prod.snd) ↔ ∀ p ∈ ps, R p.1 p.2 := by
  induction ps with
  | nil => simp
  | cons p ps ih => simp [ih]

/-- sum of a mapped list as a `Finset` sum over the index type -/
theorem sum_map_fin {β : Type} (f : β → ℝ) (l : List β) :
    (l.map f).sum = ∑ i : Fin l.length, f l[i.1] := by
  have := Fin.sum_univ_getElem (l.map f)
  rw [← this]
  refine Fintype.sum_equiv (finCongr (by simp)) _ _ ?_
  intro i; simp

/-! ### `logsumexp` and the entropic risk measure -/

theorem sum_exp_pos (x : ℝ) (xs : List ℝ) : 0 < ((x :: xs).map Real.exp).sum := by
  induction xs generalizing x with
  | nil => simpa using Real.exp_pos x
  | cons y ys ih =>
    have := ih y
    simp only [List.map_cons, List.sum_cons] at this ⊢
    linarith [Real.exp_pos x]

/-- `logsumexp`: the shift by the maximum cancels -/
theorem logsumexp_shift (x : ℝ) (xs : List ℝ) :
    logSumExp (x :: xs) = .ok (Real.log (((x :: xs).map Real.exp).sum)) := by
  unfold logSumExp
  simp only [sumL_eq_sum, Transc.exp, Transc.log]
  congr 1
  set m := maxL x xs
  have h : ((x :: xs).map (fun y => Real.exp (y - m))).sum
      = Real.exp (-m) * ((x :: xs).map Real.exp).sum := by
    rw [← List.sum_map_mul_left]
    congr 1
    apply List.map_congr_left
    intro y _
    rw [← Real.exp_add]; congr 1; ring
  rw [h, Real.log_mul (Real.exp_pos _).ne' (sum_exp_pos x xs).ne', Real.log_exp]
  ring

end PfVerif.C04ERMAux

namespace PfVerif.C04ERMAux
open PfVerif Finset

/-! ### analytic core over a finite index set -/

/-- Hölder for exponentials: `Σ exp(t u + (1−t) v) ≤ (Σ exp u)^t (Σ exp v)^(1−t)` -/
theorem sum_exp_mix_le {ι : Type} (s : Finset ι) (u v : ι → ℝ) (t : ℝ) (h0 : 0 < t) (h1 : t < 1) :
    ∑ i ∈ s, Real.exp (t * u i + (1 - t) * v i)
      ≤ (∑ i ∈ s, Real.exp (u i)) ^ t * (∑ i ∈ s, Real.exp (v i)) ^ (1 - t) := by
  have hpq : (1 / t).HolderConjugate (1 / (1 - t)) :=
    Real.holderConjugate_one_div h0 (by linarith) (by ring)
  have h := Real.inner_le_Lp_mul_Lq_of_nonneg s (f := fun i => Real.exp (t * u i))
    (g := fun i => Real.exp ((1 - t) * v i)) hpq (fun i _ => (Real.exp_pos _).le)
    (fun i _ => (Real.exp_pos _).le)
  have e1 : ∀ i, Real.exp (t * u i) ^ (1 / t) = Real.exp (u i) := fun i => by
    rw [← Real.exp_mul]; congr 1; field_simp
  have e2 : ∀ i, Real.exp ((1 - t) * v i) ^ (1 / (1 - t)) = Real.exp (v i) := fun i => by
    have : (1 - t) ≠ 0 := by linarith
    rw [← Real.exp_mul]; congr 1; field_simp
  simp only [e1, e2, one_div_one_div, ← Real.exp_add] at h
  exact h

/-- log-sum-exp is convex -/
theorem log_sum_exp_mix_le {ι : Type} (s : Finset ι) (hs : s.Nonempty) (u v : ι → ℝ) (t : ℝ)
    (h0 : 0 ≤ t) (h1 : t ≤ 1) :
    Real.log (∑ i ∈ s, Real.exp (t * u i + (1 - t) * v i))
      ≤ t * Real.log (∑ i ∈ s, Real.exp (u i)) + (1 - t) * Real.log (∑ i ∈ s, Real.exp (v i)) := by
  have pu : 0 < ∑ i ∈ s, Real.exp (u i) := sum_pos (fun i _ => Real.exp_pos _) hs
  have pv : 0 < ∑ i ∈ s, Real.exp (v i) := sum_pos (fun i _ => Real.exp_pos _) hs
  have pm : 0 < ∑ i ∈ s, Real.exp (t * u i + (1 - t) * v i) :=
    sum_pos (fun i _ => Real.exp_pos _) hs
  rcases eq_or_lt_of_le h0 with rfl | h0'
  · simp
  rcases eq_or_lt_of_le h1 with rfl | h1'
  · simp
  have h := Real.log_le_log pm (sum_exp_mix_le s u v t h0' h1')
  rwa [Real.log_mul (Real.rpow_pos_of_pos pu _).ne' (Real.rpow_pos_of_pos pv _).ne',
    Real.log_rpow pu, Real.log_rpow pv] at h

/-- power-mean inequality for exponentials, in logarithmic form -/
theorem log_mean_exp_mono_a {ι : Type} (s : Finset ι) (hs : s.Nonempty) (x : ι → ℝ) (a b : ℝ)
    (ha : 0 < a) (hab : a ≤ b) :
    (1 / a) * Real.log ((∑ i ∈ s, Real.exp (-a * x i)) / s.card)
      ≤ (1 / b) * Real.log ((∑ i ∈ s, Real.exp (-b * x i)) / s.card) := by
  have hb : 0 < b := lt_of_lt_of_le ha hab
  have hn : (0 : ℝ) < s.card := by exact_mod_cast hs.card_pos
  have hp : 1 ≤ b / a := by rw [le_div_iff₀ ha]; linarith
  have h := Real.arith_mean_le_rpow_mean s (fun _ => 1 / (s.card : ℝ))
    (fun i => Real.exp (-a * x i)) (fun i _ => by positivity)
    (by rw [sum_const, nsmul_eq_mul]; field_simp) (fun i _ => (Real.exp_pos _).le) hp
  have e : ∀ i, Real.exp (-a * x i) ^ (b / a) = Real.exp (-b * x i) := fun i => by
    rw [← Real.exp_mul]; congr 1; field_simp
  simp only [e, ← mul_sum] at h
  have pA : 0 < ∑ i ∈ s, Real.exp (-a * x i) := sum_pos (fun i _ => Real.exp_pos _) hs
  have pB : 0 < ∑ i ∈ s, Real.exp (-b * x i) := sum_pos (fun i _ => Real.exp_pos _) hs
  have h' := Real.log_le_log (by positivity) h
  rw [Real.log_rpow (by positivity)] at h'
  have e3 : ∀ y : ℝ, 1 / (s.card : ℝ) * y = y / s.card := fun y => by ring
  rw [e3, e3] at h'
  calc (1 / a) * Real.log ((∑ i ∈ s, Real.exp (-a * x i)) / s.card)
      ≤ (1 / a) * (1 / (b / a) * Real.log ((∑ i ∈ s, Real.exp (-b * x i)) / s.card)) :=
        mul_le_mul_of_nonneg_left h' (by positivity)
    _ = (1 / b) * Real.log ((∑ i ∈ s, Real.exp (-b * x i)) / s.card) := by
        rw [← mul_assoc]; congr 1; field_simp

/-- Jensen for `exp` -/
theorem exp_mean_le_mean_exp {ι : Type} (s : Finset ι) (hs : s.Nonempty) (u : ι → ℝ) :
    Real.exp ((∑ i ∈ s, u i) / s.card) ≤ (∑ i ∈ s, Real.exp (u i)) / s.card := by
  have hn : (0 : ℝ) < s.card := by exact_mod_cast hs.card_pos
  have h := convexOn_exp.map_sum_le (t := s) (w := fun _ => 1 / (s.card : ℝ)) (p := u)
    (fun i _ => by positivity) (by rw [sum_const, nsmul_eq_mul]; field_simp)
    (fun i _ => Set.mem_univ _)
  simp only [smul_eq_mul, ← mul_sum] at h
  have e3 : ∀ y : ℝ, 1 / (s.card : ℝ) * y = y / s.card := fun y => by ring
  rwa [e3, e3] at h

end PfVerif.C04ERMAux

namespace PfVerif.C04ERMAux
open PfVerif Finset

/-! ### the entropic risk measure as a real function of the sample -/

/-- `ρ_a(X) = (1/a) log( (1/N) Σ exp(−a xᵢ) )` -/
noncomputable def ermR (a : ℝ) (xs : List ℝ) : ℝ :=
  (1 / a) * Real.log ((xs.map (fun x => Real.exp (-a * x))).sum / xs.length)

theorem expsum_pos (a : ℝ) (xs : List ℝ) (h : xs ≠ []) :
    0 < (xs.map (fun x => Real.exp (-a * x))).sum := by
  apply List.sum_pos
  · intro y hy
    obtain ⟨x, _, rfl⟩ := List.mem_map.1 hy
    exact Real.exp_pos _
  · simpa using h

theorem length_pos_real (xs : List ℝ) (h : xs ≠ []) : (0 : ℝ) < xs.length := by
  exact_mod_cast List.length_pos_of_ne_nil h

/-- `ermR` of a mapped list as a `Finset` expression -/
theorem ermR_map {β : Type} (a : ℝ) (g : β → ℝ) (ps : List β) :
    ermR a (ps.map g)
      = (1 / a) * Real.log ((∑ i : Fin ps.length, Real.exp (-a * g ps[i.1])) / ps.length) := by
  unfold ermR
  rw [List.map_map, sum_map_fin, List.length_map]
  rfl

theorem ermR_fin (a : ℝ) (xs : List ℝ) :
    ermR a xs
      = (1 / a) * Real.log ((∑ i : Fin xs.length, Real.exp (-a * xs[i.1])) / xs.length) := by
  have := ermR_map a id xs
  simpa using this

end PfVerif.C04ERMAux

namespace PfVerif.C04ERM
open PfVerif PfVerif.C04ERMAux Finset

/-! ### entropic risk measure -/

/-- the code's `(logsumexp(−a x) − log N)/a` is `(1/a) log( mean exp(−a x) )` -/
theorem erm_eq_def (a : ℝ) (xs : List ℝ) (hxs : xs ≠ []) :
    entropicRisk a xs = .ok (ermR a xs) := by
  have hS := expsum_pos a xs hxs
  have hN := length_pos_real xs hxs
  cases xs with
  | nil => exact absurd rfl hxs
  | cons x t =>
    simp only [entropicRisk, List.map_cons, logsumexp_shift, bind, Except.bind, pure, Except.pure]
    congr 1
    unfold ermR
    rw [Real.log_div hS.ne' hN.ne']
    simp only [Transc.log, List.map_cons, List.map_map]
    have e : (fun x => Real.exp (-a * x)) = (Real.exp ∘ fun x => -x * a) := by
      funext y; simp only [Function.comp]; congr 1; ring
    rw [e, show -a * x = -x * a by ring]
    ring

/-- monotone: a pointwise better position has lower risk -/
theorem erm_mono (a : ℝ) (ha : 0 < a) (xs ys : List ℝ) (h : List.Forall₂ (· ≤ ·) xs ys) :
    ermR a ys ≤ ermR a xs := by
  have hl := h.length_eq
  obtain ⟨ps, rfl, rfl⟩ := exists_pairs hl
  rw [forall₂_pairs] at h
  by_cases hne : ps = []
  · subst hne; simp
  unfold ermR
  simp only [List.map_map, List.length_map]
  have hn : (0 : ℝ) < ps.length := by exact_mod_cast List.length_pos_of_ne_nil hne
  have hpos : 0 < (ps.map ((fun x => Real.exp (-a * x)) ∘ Prod.snd)).sum := by
    have := expsum_pos a (ps.map Prod.snd) (by simpa using hne)
    simpa [List.map_map] using this
  have hle : (ps.map ((fun x => Real.exp (-a * x)) ∘ Prod.snd)).sum
      ≤ (ps.map ((fun x => Real.exp (-a * x)) ∘ Prod.fst)).sum := by
    apply List.sum_le_sum
    intro p hp
    simp only [Function.comp]
    apply Real.exp_le_exp.2
    nlinarith [h p hp]
  apply mul_le_mul_of_nonneg_left _ (by positivity)
  apply Real.log_le_log (by positivity)
  exact div_le_div_of_nonneg_right hle hn.le

/-- cash invariance: `ρ(X + c) = ρ(X) − c` -/
theorem erm_cash (a : ℝ) (ha : a ≠ 0) (xs : List ℝ) (hxs : xs ≠ []) (c : ℝ) :
    ermR a (xs.map (· + c)) = ermR a xs - c := by
  have hS := expsum_pos a xs hxs
  have hN := length_pos_real xs hxs
  unfold ermR
  simp only [List.map_map, List.length_map]
  have e : ((fun x => Real.exp (-a * x)) ∘ fun x => x + c)
      = fun x => Real.exp (-a * c) * Real.exp (-a * x) := by
    funext x; simp only [Function.comp]; rw [← Real.exp_add]; congr 1; ring
  rw [e, List.sum_map_mul_left, mul_div_assoc,
    Real.log_mul (Real.exp_pos _).ne' (by positivity), Real.log_exp]
  field_simp
  ring

/-- convex under mixing of two samples of equal length -/
theorem erm_convex (a : ℝ) (ha : 0 < a) (t : ℝ) (h0 : 0 ≤ t) (h1 : t ≤ 1) (xs ys : List ℝ)
    (hxs : xs ≠ []) (hl : xs.length = ys.length) :
    ermR a (mixL t xs ys) ≤ t * ermR a xs + (1 - t) * ermR a ys := by
  obtain ⟨ps, rfl, rfl⟩ := exists_pairs hl
  have hne : ps ≠ [] := by simpa using hxs
  rw [mixL_pairs, ermR_map, ermR_map, ermR_map]
  have hn : (0 : ℝ) < ps.length := by exact_mod_cast List.length_pos_of_ne_nil hne
  have : Nonempty (Fin ps.length) := ⟨⟨0, List.length_pos_of_ne_nil hne⟩⟩
  have hs : (univ : Finset (Fin ps.length)).Nonempty := univ_nonempty
  have key := log_sum_exp_mix_le univ hs (fun i : Fin ps.length => -a * ps[i.1].1)
    (fun i : Fin ps.length => -a * ps[i.1].2) t h0 h1
  have e : ∀ i : Fin ps.length, -a * (t * ps[i.1].1 + (1 - t) * ps[i.1].2)
      = t * (-a * ps[i.1].1) + (1 - t) * (-a * ps[i.1].2) := fun i => by ring
  simp only [e]
  have p1 : 0 < ∑ i : Fin ps.length, Real.exp (-a * ps[i.1].1) :=
    sum_pos (fun i _ => Real.exp_pos _) hs
  have p2 : 0 < ∑ i : Fin ps.length, Real.exp (-a * ps[i.1].2) :=
    sum_pos (fun i _ => Real.exp_pos _) hs
  have p3 : 0 < ∑ i : Fin ps.length,
      Real.exp (t * (-a * ps[i.1].1) + (1 - t) * (-a * ps[i.1].2)) :=
    sum_pos (fun i _ => Real.exp_pos _) hs
  rw [Real.log_div p1.ne' hn.ne', Real.log_div p2.ne' hn.ne', Real.log_div p3.ne' hn.ne']
  have ha' : 0 < 1 / a := by positivity
  nlinarith [mul_le_mul_of_nonneg_left key ha'.le]

/-- non-decreasing in the risk aversion -/
theorem erm_mono_a (a b : ℝ) (ha : 0 < a) (hab : a ≤ b) (xs : List ℝ) (hxs : xs ≠ []) :
    ermR a xs ≤ ermR b xs := by
  rw [ermR_fin, ermR_fin]
  have : Nonempty (Fin xs.length) := ⟨⟨0, List.length_pos_of_ne_nil hxs⟩⟩
  have key := log_mean_exp_mono_a univ univ_nonempty (fun i : Fin xs.length => xs[i.1]) a b ha hab
  simpa using key

/-- between minus the best and minus the worst outcome -/
theorem erm_bounds (a : ℝ) (ha : 0 < a) (xs : List ℝ) (hxs : xs ≠ []) :
    (∀ M : ℝ, (∀ x ∈ xs, x ≤ M) → -M ≤ ermR a xs) ∧
    (∀ m : ℝ, (∀ x ∈ xs, m ≤ x) → ermR a xs ≤ -m) := by
  have hS := expsum_pos a xs hxs
  have hN := length_pos_real xs hxs
  have hc : ∀ c : ℝ, (xs.map (fun _ => Real.exp (-a * c))).sum = xs.length * Real.exp (-a * c) := by
    intro c; simp
  constructor
  · intro M hM
    have hle : (xs.map (fun _ => Real.exp (-a * M))).sum
        ≤ (xs.map (fun x => Real.exp (-a * x))).sum :=
      List.sum_le_sum fun x hx => Real.exp_le_exp.2 (by nlinarith [hM x hx])
    rw [hc] at hle
    have h2 : Real.exp (-a * M) ≤ (xs.map (fun x => Real.exp (-a * x))).sum / xs.length := by
      rw [le_div_iff₀ hN]; linarith
    have h3 := Real.log_le_log (Real.exp_pos _) h2
    rw [Real.log_exp] at h3
    unfold ermR
    have : -M = (1 / a) * (-a * M) := by field_simp
    rw [this]
    exact mul_le_mul_of_nonneg_left h3 (by positivity)
  · intro m hm
    have hle : (xs.map (fun x => Real.exp (-a * x))).sum
        ≤ (xs.map (fun _ => Real.exp (-a * m))).sum :=
      List.sum_le_sum fun x hx => Real.exp_le_exp.2 (by nlinarith [hm x hx])
    rw [hc] at hle
    have h2 : (xs.map (fun x => Real.exp (-a * x))).sum / xs.length ≤ Real.exp (-a * m) := by
      rw [div_le_iff₀ hN]; linarith
    have h3 := Real.log_le_log (by positivity) h2
    rw [Real.log_exp] at h3
    unfold ermR
    have : -m = (1 / a) * (-a * m) := by field_simp
    rw [this]
    exact mul_le_mul_of_nonneg_left h3 (by positivity)

/-- at least minus the sample mean (Jensen) -/
theorem erm_ge_neg_mean (a : ℝ) (ha : 0 < a) (xs : List ℝ) (hxs : xs ≠ []) :
    -(xs.sum / xs.length) ≤ ermR a xs := by
  have hN := length_pos_real xs hxs
  rw [ermR_fin]
  have : Nonempty (Fin xs.length) := ⟨⟨0, List.length_pos_of_ne_nil hxs⟩⟩
  have hs : (univ : Finset (Fin xs.length)).Nonempty := univ_nonempty
  have key := exp_mean_le_mean_exp univ hs (fun i : Fin xs.length => -a * xs[i.1])
  simp only [card_univ, Fintype.card_fin] at key
  have h3 := Real.log_le_log (Real.exp_pos _) key
  rw [Real.log_exp, ← mul_sum, Fin.sum_univ_getElem] at h3
  have : -(xs.sum / xs.length) = (1 / a) * (-a * xs.sum / xs.length) := by field_simp
  rw [this]
  exact mul_le_mul_of_nonneg_left h3 (by positivity)

/-- a constant position `c` has risk `−c` -/
theorem erm_const (a : ℝ) (ha : a ≠ 0) (N : ℕ) (hN : 1 ≤ N) (c : ℝ) :
    ermR a (List.replicate N c) = -c := by
  have hn : (0 : ℝ) < N := by exact_mod_cast hN
  unfold ermR
  simp only [List.map_replicate, List.sum_replicate, List.length_replicate, nsmul_eq_mul]
  rw [mul_div_cancel_left₀ _ hn.ne', Real.log_exp]
  field_simp

end PfVerif.C04ERM

namespace PfVerif.C04ERMAux
open PfVerif

/-! ### the quadratic-CVaR objective -/

/-- `r ↦ (max r 0)²` -/
noncomputable def sqp (r : ℝ) : ℝ := (max r 0) ^ 2

theorem sqp_nonneg (r : ℝ) : 0 ≤ sqp r := sq_nonneg _

theorem sqp_mono {r s : ℝ} (h : r ≤ s) : sqp r ≤ sqp s := by
  unfold sqp
  have h1 : max r 0 ≤ max s 0 := max_le_max h le_rfl
  have h2 : (0 : ℝ) ≤ max r 0 := le_max_right _ _
  nlinarith

theorem relu_mix_le (t r s : ℝ) (h0 : 0 ≤ t) (h1 : t ≤ 1) :
    max (t * r + (1 - t) * s) 0 ≤ t * max r 0 + (1 - t) * max s 0 := by
  have a1 : r ≤ max r 0 := le_max_left _ _
  have a2 : s ≤ max s 0 := le_max_left _ _
  have b1 : (0 : ℝ) ≤ max r 0 := le_max_right _ _
  have b2 : (0 : ℝ) ≤ max s 0 := le_max_right _ _
  have h1' : 0 ≤ 1 - t := by linarith
  apply max_le
  · nlinarith [mul_le_mul_of_nonneg_left a1 h0, mul_le_mul_of_nonneg_left a2 h1']
  · nlinarith [mul_nonneg h0 b1, mul_nonneg h1' b2]

/-- `r ↦ (max r 0)²` is convex -/
theorem sqp_convex (t r s : ℝ) (h0 : 0 ≤ t) (h1 : t ≤ 1) :
    sqp (t * r + (1 - t) * s) ≤ t * sqp r + (1 - t) * sqp s := by
  unfold sqp
  have h := relu_mix_le t r s h0 h1
  have b0 : (0 : ℝ) ≤ max (t * r + (1 - t) * s) 0 := le_max_right _ _
  have h1' : 0 ≤ 1 - t := by linarith
  set p := max r 0
  set q := max s 0
  have hsq : (max (t * r + (1 - t) * s) 0) ^ 2 ≤ (t * p + (1 - t) * q) ^ 2 :=
    pow_le_pow_left₀ b0 h 2
  have hc : (t * p + (1 - t) * q) ^ 2 ≤ t * p ^ 2 + (1 - t) * q ^ 2 := by
    have : t * p ^ 2 + (1 - t) * q ^ 2 - (t * p + (1 - t) * q) ^ 2 = t * (1 - t) * (p - q) ^ 2 := by
      ring
    nlinarith [mul_nonneg (mul_nonneg h0 h1') (sq_nonneg (p - q))]
  linarith

/-- tangent-line inequality for `r ↦ (max r 0)²` (derivative `2 max r 0`) -/
theorem sqp_tangent (r s : ℝ) : sqp r + 2 * max r 0 * (s - r) ≤ sqp s := by
  unfold sqp
  have a2 : s ≤ max s 0 := le_max_left _ _
  have b2 : (0 : ℝ) ≤ max s 0 := le_max_right _ _
  rcases le_total 0 r with hr | hr
  · rw [max_eq_left hr]
    nlinarith [sq_nonneg (max s 0 - r), mul_le_mul_of_nonneg_left a2 hr]
  · rw [max_eq_right hr]
    nlinarith [sq_nonneg (max s 0)]

/-- scalar lower bound `w + λ (−w−M)₊² ≥ −M − 1/(4λ)` -/
theorem scalar_lower (lam w M : ℝ) (hl : 0 < lam) : -M - 1 / (4 * lam) ≤ w + lam * sqp (-w - M) := by
  unfold sqp
  have a : -w - M ≤ max (-w - M) 0 := le_max_left _ _
  set r := max (-w - M) 0
  have key : lam * r ^ 2 - r + 1 / (4 * lam) = lam * (r - 1 / (2 * lam)) ^ 2 := by
    field_simp; ring
  have : 0 ≤ lam * (r - 1 / (2 * lam)) ^ 2 := mul_nonneg hl.le (sq_nonneg _)
  linarith

theorem qObj_eq (lam w : ℝ) (xs : List ℝ) :
    qObj lam w xs = w + lam * ((xs.map (fun x => sqp (-w - x))).sum / xs.length) := by
  simp only [qObj, meanR_eq, reluS_eq_max, List.length_map, sqp, pow_two]

theorem qTarget_eq (w : ℝ) (xs : List ℝ) :
    qTarget w xs = (xs.map (fun x => max (-w - x) 0)).sum / xs.length := by
  simp only [qTarget, meanR_eq, reluS_eq_max, List.length_map]

/-- quadratic CVaR: the infimum of the objective over `w` -/
noncomputable def qcvarR (lam : ℝ) (xs : List ℝ) : ℝ := ⨅ w : ℝ, qObj lam w xs

theorem exists_upper (xs : List ℝ) : ∃ M : ℝ, ∀ x ∈ xs, x ≤ M := by
  induction xs with
  | nil => exact ⟨0, by simp⟩
  | cons x xs ih =>
    obtain ⟨M, hM⟩ := ih
    refine ⟨max x M, ?_⟩
    intro y hy
    rcases List.mem_cons.1 hy with rfl | hy
    · exact le_max_left _ _
    · exact le_trans (hM y hy) (le_max_right _ _)

end PfVerif.C04ERMAux

namespace PfVerif.C04ERM
open PfVerif PfVerif.C04ERMAux

/-! ### quadratic CVaR: the objective `w + λ·mean(relu(−w−x)²)` -/

/-- the objective is antitone in the sample -/
theorem qObj_antitone_sample (lam w : ℝ) (hl : 0 ≤ lam) (xs ys : List ℝ)
    (h : List.Forall₂ (· ≤ ·) xs ys) : qObj lam w ys ≤ qObj lam w xs := by
  have hlen := h.length_eq
  obtain ⟨ps, rfl, rfl⟩ := exists_pairs hlen
  rw [forall₂_pairs] at h
  rw [qObj_eq, qObj_eq]
  simp only [List.map_map, List.length_map]
  have hle : (ps.map ((fun x => sqp (-w - x)) ∘ Prod.snd)).sum
      ≤ (ps.map ((fun x => sqp (-w - x)) ∘ Prod.fst)).sum := by
    apply List.sum_le_sum
    intro p hp
    simp only [Function.comp]
    exact sqp_mono (by linarith [h p hp])
  have := div_le_div_of_nonneg_right hle (Nat.cast_nonneg (α := ℝ) ps.length)
  nlinarith [mul_le_mul_of_nonneg_left this hl]

/-- a cash shift of the sample is a shift of `w` -/
theorem qObj_shift (lam w c : ℝ) (xs : List ℝ) :
    qObj lam w (xs.map (· + c)) = qObj lam (w + c) xs - c := by
  rw [qObj_eq, qObj_eq]
  simp only [List.map_map, List.length_map]
  have e : ((fun x => sqp (-w - x)) ∘ fun x => x + c) = fun x => sqp (-(w + c) - x) := by
    funext x; simp only [Function.comp]; congr 1; ring
  rw [e]; ring

/-- the objective is jointly convex in `(w, sample)` -/
theorem qObj_jointly_convex (lam : ℝ) (hl : 0 ≤ lam) (t : ℝ) (h0 : 0 ≤ t) (h1 : t ≤ 1)
    (w₁ w₂ : ℝ) (xs ys : List ℝ) (hlen : xs.length = ys.length) :
    qObj lam (t * w₁ + (1 - t) * w₂) (mixL t xs ys)
      ≤ t * qObj lam w₁ xs + (1 - t) * qObj lam w₂ ys := by
  obtain ⟨ps, rfl, rfl⟩ := exists_pairs hlen
  rw [mixL_pairs, qObj_eq, qObj_eq, qObj_eq]
  simp only [List.map_map, List.length_map]
  have hle : (ps.map ((fun x => sqp (-(t * w₁ + (1 - t) * w₂) - x)) ∘
        fun p => t * p.1 + (1 - t) * p.2)).sum
      ≤ t * (ps.map ((fun x => sqp (-w₁ - x)) ∘ Prod.fst)).sum
        + (1 - t) * (ps.map ((fun x => sqp (-w₂ - x)) ∘ Prod.snd)).sum := by
    rw [← List.sum_map_mul_left, ← List.sum_map_mul_left, ← List.sum_map_add]
    apply List.sum_le_sum
    intro p _
    simp only [Function.comp]
    have := sqp_convex t (-w₁ - p.1) (-w₂ - p.2) h0 h1
    have e : -(t * w₁ + (1 - t) * w₂) - (t * p.1 + (1 - t) * p.2)
        = t * (-w₁ - p.1) + (1 - t) * (-w₂ - p.2) := by ring
    rw [e]; exact this
  have h2 := div_le_div_of_nonneg_right hle (Nat.cast_nonneg (α := ℝ) ps.length)
  have h3 := mul_le_mul_of_nonneg_left h2 hl
  rw [add_div, mul_div_assoc, mul_div_assoc] at h3
  nlinarith [h3]

/-- the objective is bounded below: for any upper bound `M` of the sample (e.g. its maximum)
`−M − 1/(4λ) ≤ w + λ·mean(relu(−w−x)²)` -/
theorem qObj_bddBelow (lam : ℝ) (hl : 0 < lam) (xs : List ℝ) (hxs : xs ≠ []) (M : ℝ)
    (hM : ∀ x ∈ xs, x ≤ M) (w : ℝ) : -M - 1 / (4 * lam) ≤ qObj lam w xs := by
  have hN := length_pos_real xs hxs
  rw [qObj_eq]
  have hle : (xs.map (fun _ => sqp (-w - M))).sum ≤ (xs.map (fun x => sqp (-w - x))).sum :=
    List.sum_le_sum fun x hx => sqp_mono (by linarith [hM x hx])
  have hc : (xs.map (fun _ => sqp (-w - M))).sum = xs.length * sqp (-w - M) := by simp
  rw [hc] at hle
  have h2 : sqp (-w - M) ≤ (xs.map (fun x => sqp (-w - x))).sum / xs.length := by
    rw [le_div_iff₀ hN]; linarith
  have := scalar_lower lam w M hl
  nlinarith [mul_le_mul_of_nonneg_left h2 hl.le]


/-- the same bound with the model's own maximum `maxL` of a non-empty sample -/
theorem qObj_bddBelow_maxL (lam : ℝ) (hl : 0 < lam) (x : ℝ) (xs : List ℝ) (w : ℝ) :
    -(maxL x xs) - 1 / (4 * lam) ≤ qObj lam w (x :: xs) := by
  have hfold : ∀ (zs : List ℝ) (z : ℝ), z ≤ zs.foldl max z ∧ ∀ y ∈ zs, y ≤ zs.foldl max z := by
    intro zs
    induction zs with
    | nil => intro z; simp
    | cons u us ih =>
      intro z
      obtain ⟨i1, i2⟩ := ih (max z u)
      refine ⟨le_trans (le_max_left _ _) i1, ?_⟩
      intro y hy
      rcases List.mem_cons.1 hy with rfl | hy
      · exact le_trans (le_max_right _ _) i1
      · exact i2 y hy
  apply qObj_bddBelow lam hl (x :: xs) (by simp) (maxL x xs)
  intro y hy
  rcases List.mem_cons.1 hy with rfl | hy
  · exact (hfold xs _).1
  · exact (hfold xs x).2 y hy

theorem qObj_range_bddBelow (lam : ℝ) (hl : 0 < lam) (xs : List ℝ) (hxs : xs ≠ []) :
    BddBelow (Set.range fun w : ℝ => qObj lam w xs) := by
  obtain ⟨M, hM⟩ := exists_upper xs
  refine ⟨-M - 1 / (4 * lam), ?_⟩
  rintro _ ⟨w, rfl⟩
  exact qObj_bddBelow lam hl xs hxs M hM w

/-! ### quadratic CVaR: the infimum over `w` -/

/-- no `w` does better than the infimum -/
theorem qcvar_le_obj (lam : ℝ) (hl : 0 < lam) (xs : List ℝ) (hxs : xs ≠ []) (w : ℝ) :
    qcvarR lam xs ≤ qObj lam w xs :=
  ciInf_le (qObj_range_bddBelow lam hl xs hxs) w

/-- a stationary point of the objective — a solution of the equation
`mean(relu(−w−x)) = 1/(2λ)` that the code solves by bisection — is a global minimiser -/
theorem qcvar_stationary_min (lam : ℝ) (hl : 0 < lam) (xs : List ℝ) (w : ℝ)
    (hw : qTarget w xs = 1 / (2 * lam)) (w' : ℝ) : qObj lam w xs ≤ qObj lam w' xs := by
  rw [qTarget_eq] at hw
  rw [qObj_eq, qObj_eq]
  set N : ℝ := (xs.length : ℝ)
  have hN0 : (0 : ℝ) ≤ N := Nat.cast_nonneg _
  -- tangent inequality summed over the sample
  have hsum : (xs.map (fun x => sqp (-w - x))).sum
        + 2 * (w - w') * (xs.map (fun x => max (-w - x) 0)).sum
      ≤ (xs.map (fun x => sqp (-w' - x))).sum := by
    rw [← List.sum_map_mul_left, ← List.sum_map_add]
    apply List.sum_le_sum
    intro x _
    have := sqp_tangent (-w - x) (-w' - x)
    have e : (-w' - x) - (-w - x) = w - w' := by ring
    rw [e] at this
    linarith
  have hdiv := div_le_div_of_nonneg_right hsum hN0
  rw [add_div, mul_div_assoc, hw] at hdiv
  have h3 := mul_le_mul_of_nonneg_left hdiv hl.le
  have e2 : lam * (2 * (w - w') * (1 / (2 * lam))) = w - w' := by field_simp
  rw [mul_add, e2] at h3
  linarith

/-- first-order characterisation: at a solution of `qTarget w = 1/(2λ)` the objective equals
the quadratic CVaR -/
theorem qcvar_stationary (lam : ℝ) (hl : 0 < lam) (xs : List ℝ) (w : ℝ)
    (hw : qTarget w xs = 1 / (2 * lam)) : qObj lam w xs = qcvarR lam xs := by
  have hxs : xs ≠ [] := by
    rintro rfl
    have : (0 : ℝ) < 1 / (2 * lam) := by positivity
    rw [← hw] at this
    simp [qTarget_eq] at this
  apply le_antisymm
  · exact le_ciInf fun w' => qcvar_stationary_min lam hl xs w hw w'
  · exact qcvar_le_obj lam hl xs hxs w

/-- monotone -/
theorem qcvar_mono (lam : ℝ) (hl : 0 < lam) (xs ys : List ℝ) (h : List.Forall₂ (· ≤ ·) xs ys) :
    qcvarR lam ys ≤ qcvarR lam xs := by
  by_cases hys : ys = []
  · subst hys
    have : xs = [] := by simpa using h
    subst this; exact le_rfl
  exact ciInf_mono (qObj_range_bddBelow lam hl ys hys)
    fun w => qObj_antitone_sample lam w hl.le xs ys h

/-- cash invariant -/
theorem qcvar_cash (lam : ℝ) (hl : 0 < lam) (xs : List ℝ) (hxs : xs ≠ []) (c : ℝ) :
    qcvarR lam (xs.map (· + c)) = qcvarR lam xs - c := by
  unfold qcvarR
  simp only [qObj_shift]
  have hs : Function.Surjective fun w : ℝ => w + c := fun y => ⟨y - c, by ring⟩
  have hb : BddBelow (Set.range fun w : ℝ => qObj lam (w + c) xs) := by
    obtain ⟨b, hb⟩ := qObj_range_bddBelow lam hl xs hxs
    refine ⟨b, ?_⟩
    rintro _ ⟨w, rfl⟩
    exact hb ⟨w + c, rfl⟩
  rw [← ciInf_sub hb, hs.iInf_comp (fun w => qObj lam w xs)]

/-- convex under mixing of two samples of equal length -/
theorem qcvar_convex (lam : ℝ) (hl : 0 < lam) (t : ℝ) (h0 : 0 ≤ t) (h1 : t ≤ 1) (xs ys : List ℝ)
    (hxs : xs ≠ []) (hlen : xs.length = ys.length) :
    qcvarR lam (mixL t xs ys) ≤ t * qcvarR lam xs + (1 - t) * qcvarR lam ys := by
  have hys : ys ≠ [] := by
    intro h; apply hxs; rw [h] at hlen; exact List.length_eq_zero_iff.1 hlen
  have hm : mixL t xs ys ≠ [] := by
    intro h
    have := mixL_length t xs ys hlen
    rw [h] at this
    exact hxs (List.length_eq_zero_iff.1 this.symm)
  set A := qcvarR lam (mixL t xs ys)
  have key : ∀ w₁ w₂ : ℝ, A ≤ t * qObj lam w₁ xs + (1 - t) * qObj lam w₂ ys := fun w₁ w₂ =>
    le_trans (qcvar_le_obj lam hl _ hm _)
      (qObj_jointly_convex lam hl.le t h0 h1 w₁ w₂ xs ys hlen)
  have h1' : 0 ≤ 1 - t := by linarith
  -- first pass to the infimum in `w₁`
  have step1 : ∀ w₂ : ℝ, A ≤ t * qcvarR lam xs + (1 - t) * qObj lam w₂ ys := by
    intro w₂
    rcases eq_or_lt_of_le h0 with rfl | ht
    · simpa using key 0 w₂
    · have : (A - (1 - t) * qObj lam w₂ ys) / t ≤ qcvarR lam xs :=
        le_ciInf fun w₁ => by
          rw [div_le_iff₀ ht]; linarith [key w₁ w₂]
      rw [div_le_iff₀ ht] at this
      linarith
  -- then in `w₂`
  rcases eq_or_lt_of_le h1' with h | ht
  · have := step1 0
    rw [← h] at this ⊢
    simpa using this
  · have : (A - t * qcvarR lam xs) / (1 - t) ≤ qcvarR lam ys :=
      le_ciInf fun w₂ => by
        rw [div_le_iff₀ ht]; linarith [step1 w₂]
    rw [div_le_iff₀ ht] at this
    linarith

/-- bounds: `−M − 1/(4λ) ≤ ρ ≤ −m − 1/(4λ)` for `m ≤ xs ≤ M` -/
theorem qcvar_bounds (lam : ℝ) (hl : 0 < lam) (xs : List ℝ) (hxs : xs ≠ []) :
    (∀ M : ℝ, (∀ x ∈ xs, x ≤ M) → -M - 1 / (4 * lam) ≤ qcvarR lam xs) ∧
    (∀ m : ℝ, (∀ x ∈ xs, m ≤ x) → qcvarR lam xs ≤ -m - 1 / (4 * lam)) := by
  have hN := length_pos_real xs hxs
  constructor
  · intro M hM
    exact le_ciInf fun w => qObj_bddBelow lam hl xs hxs M hM w
  · intro m hm
    refine le_trans (qcvar_le_obj lam hl xs hxs (-m - 1 / (2 * lam))) ?_
    rw [qObj_eq]
    set w := -m - 1 / (2 * lam)
    have hle : (xs.map (fun x => sqp (-w - x))).sum ≤ (xs.map (fun _ => sqp (-w - m))).sum :=
      List.sum_le_sum fun x hx => sqp_mono (by linarith [hm x hx])
    have hc : (xs.map (fun _ => sqp (-w - m))).sum = xs.length * sqp (-w - m) := by simp
    rw [hc] at hle
    have h2 : (xs.map (fun x => sqp (-w - x))).sum / xs.length ≤ sqp (-w - m) := by
      rw [div_le_iff₀ hN]; linarith
    have e : -w - m = 1 / (2 * lam) := by simp only [w]; ring
    have hp : (0 : ℝ) ≤ 1 / (2 * lam) := by positivity
    have e2 : sqp (-w - m) = (1 / (2 * lam)) ^ 2 := by rw [e, sqp, max_eq_left hp]
    rw [e2] at h2
    have h3 := mul_le_mul_of_nonneg_left h2 hl.le
    have e3 : w + lam * (1 / (2 * lam)) ^ 2 = -m - 1 / (4 * lam) := by
      simp only [w]; field_simp; ring
    linarith

/-- a constant position `c` has quadratic CVaR `−c − 1/(4λ)` -/
theorem qcvar_const (lam : ℝ) (hl : 0 < lam) (N : ℕ) (hN : 1 ≤ N) (c : ℝ) :
    qcvarR lam (List.replicate N c) = -c - 1 / (4 * lam) := by
  have hne : List.replicate N c ≠ [] := by
    intro h
    have := congrArg List.length h
    simp at this; omega
  have hb := qcvar_bounds lam hl (List.replicate N c) hne
  apply le_antisymm
  · exact hb.2 c fun x hx => by rw [List.eq_of_mem_replicate hx]
  · exact hb.1 c fun x hx => by rw [List.eq_of_mem_replicate hx]


/-! ### expected-utility losses -/

/-- `EntropicLoss`: `−mean(−exp(−a x)) = mean exp(−a x)` -/
theorem entropicLoss_eq_def (a : ℝ) (xs : List ℝ) :
    entropicLoss a xs = (xs.map (fun x => Real.exp (-a * x))).sum / xs.length := by
  have hneg : ∀ l : List ℝ, (l.map (fun x => -(Real.exp (-a * x)))).sum
      = -(l.map (fun x => Real.exp (-a * x))).sum := by
    intro l
    induction l with
    | nil => simp
    | cons y l ih => simp only [List.map_cons, List.sum_cons, ih]; ring
  simp only [entropicLoss, sumL_eq_sum, Transc.exp, hneg]
  ring

/-- monotone: a pointwise better position has lower entropic loss -/
theorem entropicLoss_antitone (a : ℝ) (ha : 0 ≤ a) (xs ys : List ℝ)
    (h : List.Forall₂ (· ≤ ·) xs ys) : entropicLoss a ys ≤ entropicLoss a xs := by
  have hlen := h.length_eq
  obtain ⟨ps, rfl, rfl⟩ := exists_pairs hlen
  rw [forall₂_pairs] at h
  rw [entropicLoss_eq_def, entropicLoss_eq_def]
  simp only [List.map_map, List.length_map]
  apply div_le_div_of_nonneg_right _ (Nat.cast_nonneg (α := ℝ) ps.length)
  apply List.sum_le_sum
  intro p hp
  simp only [Function.comp]
  exact Real.exp_le_exp.2 (by nlinarith [h p hp])

/-- convex in the sample (any `a`) -/
theorem entropicLoss_convex (a : ℝ) (t : ℝ) (h0 : 0 ≤ t) (h1 : t ≤ 1) (xs ys : List ℝ)
    (hlen : xs.length = ys.length) :
    entropicLoss a (mixL t xs ys) ≤ t * entropicLoss a xs + (1 - t) * entropicLoss a ys := by
  obtain ⟨ps, rfl, rfl⟩ := exists_pairs hlen
  rw [mixL_pairs, entropicLoss_eq_def, entropicLoss_eq_def, entropicLoss_eq_def]
  simp only [List.map_map, List.length_map]
  have h1' : 0 ≤ 1 - t := by linarith
  have hle : (ps.map ((fun x => Real.exp (-a * x)) ∘ fun p => t * p.1 + (1 - t) * p.2)).sum
      ≤ t * (ps.map ((fun x => Real.exp (-a * x)) ∘ Prod.fst)).sum
        + (1 - t) * (ps.map ((fun x => Real.exp (-a * x)) ∘ Prod.snd)).sum := by
    rw [← List.sum_map_mul_left, ← List.sum_map_mul_left, ← List.sum_map_add]
    apply List.sum_le_sum
    intro p _
    simp only [Function.comp]
    have := convexOn_exp.2 (Set.mem_univ (-a * p.1)) (Set.mem_univ (-a * p.2)) h0 h1'
      (by ring)
    simp only [smul_eq_mul] at this
    have e : -a * (t * p.1 + (1 - t) * p.2) = t * (-a * p.1) + (1 - t) * (-a * p.2) := by ring
    rw [e]; exact this
  have h2 := div_le_div_of_nonneg_right hle (Nat.cast_nonneg (α := ℝ) ps.length)
  rw [add_div, mul_div_assoc, mul_div_assoc] at h2
  exact h2

/-- `IsoelasticLoss`: `−mean log x` for `a = 1`, `−mean x^(1−a)` otherwise -/
theorem isoelasticLoss_eq_def (a : ℝ) (xs : List ℝ) :
    isoelasticLoss true a xs = -((xs.map Real.log).sum / xs.length) ∧
    isoelasticLoss false a xs = -((xs.map (fun x => x ^ (1 - a))).sum / xs.length) := by
  constructor
  · simp only [isoelasticLoss, sumL_eq_sum]
    rfl
  · simp only [isoelasticLoss, sumL_eq_sum]
    rfl

/-- the isoelastic utility is monotone on positive outcomes (`0 < a ≤ 1`) -/
theorem isoelasticUtility_mono (aIsOne : Bool) (a : ℝ) (_ha0 : 0 < a) (ha1 : a ≤ 1) {x y : ℝ}
    (hx : 0 < x) (hxy : x ≤ y) : isoelasticUtility aIsOne a x ≤ isoelasticUtility aIsOne a y := by
  cases aIsOne
  · simp only [isoelasticUtility, Bool.false_eq_true, if_false, TranscPow.pow]
    exact Real.rpow_le_rpow hx.le hxy (by linarith)
  · simp only [isoelasticUtility, if_true, Transc.log]
    exact Real.log_le_log hx hxy

/-- the isoelastic utility is concave on positive outcomes (`0 < a ≤ 1`) -/
theorem isoelasticUtility_concave (aIsOne : Bool) (a : ℝ) (ha0 : 0 < a) (ha1 : a ≤ 1) (t : ℝ)
    (h0 : 0 ≤ t) (h1 : t ≤ 1) {x y : ℝ} (hx : 0 < x) (hy : 0 < y) :
    t * isoelasticUtility aIsOne a x + (1 - t) * isoelasticUtility aIsOne a y
      ≤ isoelasticUtility aIsOne a (t * x + (1 - t) * y) := by
  have h1' : 0 ≤ 1 - t := by linarith
  cases aIsOne
  · simp only [isoelasticUtility, Bool.false_eq_true, if_false, TranscPow.pow]
    have := (Real.concaveOn_rpow (p := 1 - a) (by linarith) (by linarith)).2
      (Set.mem_Ici.2 hx.le) (Set.mem_Ici.2 hy.le) h0 h1' (by ring)
    simpa only [smul_eq_mul] using this
  · simp only [isoelasticUtility, if_true, Transc.log]
    have := strictConcaveOn_log_Ioi.concaveOn.2 (Set.mem_Ioi.2 hx) (Set.mem_Ioi.2 hy) h0 h1'
      (by ring)
    simpa only [smul_eq_mul] using this

/-- monotone on positive samples, `0 < a ≤ 1` (both branches of the `a == 1` test) -/
theorem isoelasticLoss_antitone (aIsOne : Bool) (a : ℝ) (ha0 : 0 < a) (ha1 : a ≤ 1)
    (xs ys : List ℝ) (hpos : ∀ x ∈ xs, 0 < x) (h : List.Forall₂ (· ≤ ·) xs ys) :
    isoelasticLoss aIsOne a ys ≤ isoelasticLoss aIsOne a xs := by
  have hlen := h.length_eq
  obtain ⟨ps, rfl, rfl⟩ := exists_pairs hlen
  rw [forall₂_pairs] at h
  simp only [isoelasticLoss, sumL_eq_sum, List.map_map, List.length_map]
  apply neg_le_neg
  apply div_le_div_of_nonneg_right _ (Nat.cast_nonneg (α := ℝ) ps.length)
  apply List.sum_le_sum
  intro p hp
  simp only [Function.comp]
  exact isoelasticUtility_mono aIsOne a ha0 ha1
    (hpos p.1 (List.mem_map.2 ⟨p, hp, rfl⟩)) (h p hp)

/-- convex on positive samples, `0 < a ≤ 1` -/
theorem isoelasticLoss_convex (aIsOne : Bool) (a : ℝ) (ha0 : 0 < a) (ha1 : a ≤ 1) (t : ℝ)
    (h0 : 0 ≤ t) (h1 : t ≤ 1) (xs ys : List ℝ) (hx : ∀ x ∈ xs, 0 < x) (hy : ∀ y ∈ ys, 0 < y)
    (hlen : xs.length = ys.length) :
    isoelasticLoss aIsOne a (mixL t xs ys)
      ≤ t * isoelasticLoss aIsOne a xs + (1 - t) * isoelasticLoss aIsOne a ys := by
  obtain ⟨ps, rfl, rfl⟩ := exists_pairs hlen
  rw [mixL_pairs]
  simp only [isoelasticLoss, sumL_eq_sum, List.map_map, List.length_map]
  have hle : t * (ps.map (isoelasticUtility aIsOne a ∘ Prod.fst)).sum
        + (1 - t) * (ps.map (isoelasticUtility aIsOne a ∘ Prod.snd)).sum
      ≤ (ps.map (isoelasticUtility aIsOne a ∘ fun p => t * p.1 + (1 - t) * p.2)).sum := by
    rw [← List.sum_map_mul_left, ← List.sum_map_mul_left, ← List.sum_map_add]
    apply List.sum_le_sum
    intro p hp
    simp only [Function.comp]
    exact isoelasticUtility_concave aIsOne a ha0 ha1 t h0 h1
      (hx p.1 (List.mem_map.2 ⟨p, hp, rfl⟩)) (hy p.2 (List.mem_map.2 ⟨p, hp, rfl⟩))
  have h2 := div_le_div_of_nonneg_right hle (Nat.cast_nonneg (α := ℝ) ps.length)
  rw [add_div, mul_div_assoc, mul_div_assoc] at h2
  linarith


/-! ### the value returned by `quadratic_cvar` (centring by `base`, then `− base`) -/

/-- `quadratic_cvar` centres the sample by `b` (its mean in the code, any `b` here), solves
`qTarget ω (xs − b) = 1/(2λ)` and returns `qObj λ ω (xs − b) − b`: with an exact root this is the
quadratic CVaR of the *uncentred* sample -/
theorem qcvar_centred (lam : ℝ) (hl : 0 < lam) (xs : List ℝ) (b w : ℝ)
    (hw : qTarget w (xs.map (fun x => x - b)) = 1 / (2 * lam)) :
    qObj lam w (xs.map (fun x => x - b)) - b = qcvarR lam xs := by
  have hxs : xs ≠ [] := by
    rintro rfl
    have : (0 : ℝ) < 1 / (2 * lam) := by positivity
    rw [← hw] at this
    simp [qTarget_eq] at this
  rw [qcvar_stationary lam hl _ w hw]
  have e : (fun x : ℝ => x - b) = (· + (-b)) := by funext x; ring
  rw [e, qcvar_cash lam hl xs hxs (-b)]
  ring

/-- the equation solved by the bisection has a solution: the infimum is attained -/
theorem qcvar_attained (lam : ℝ) (hl : 0 < lam) (xs : List ℝ) (hxs : xs ≠ []) :
    ∃ w : ℝ, qTarget w xs = 1 / (2 * lam) ∧ qObj lam w xs = qcvarR lam xs := by
  have hN := length_pos_real xs hxs
  obtain ⟨M, hM⟩ := exists_upper xs
  obtain ⟨m', hm'⟩ := exists_upper (xs.map fun x => -x)
  have hm : ∀ x ∈ xs, -m' ≤ x := fun x hx => by
    have := hm' (-x) (List.mem_map.2 ⟨x, hx, rfl⟩); linarith
  obtain ⟨x0, hx0⟩ := List.exists_mem_of_ne_nil xs hxs
  have hmM : -m' ≤ M := le_trans (hm x0 hx0) (hM x0 hx0)
  have hp : (0 : ℝ) < 1 / (2 * lam) := by positivity
  have hcont : Continuous fun w : ℝ => qTarget w xs := by
    simp only [qTarget_eq]
    apply Continuous.div_const
    apply continuous_list_sum
    intro x _
    fun_prop
  have hab : -M - 1 / (2 * lam) ≤ m' := by linarith
  have hlo : 1 / (2 * lam) ≤ qTarget (-M - 1 / (2 * lam)) xs := by
    rw [qTarget_eq, le_div_iff₀ hN]
    have hle : (xs.map (fun _ => 1 / (2 * lam))).sum
        ≤ (xs.map (fun x => max (-(-M - 1 / (2 * lam)) - x) 0)).sum :=
      List.sum_le_sum fun x hx => le_trans (by linarith [hM x hx]) (le_max_left _ _)
    have hc : (xs.map (fun _ => 1 / (2 * lam))).sum = xs.length * (1 / (2 * lam)) := by simp
    rw [hc] at hle
    linarith
  have hhi : qTarget m' xs ≤ 1 / (2 * lam) := by
    rw [qTarget_eq]
    have hz : (xs.map (fun x => max (-m' - x) 0)).sum = 0 := by
      apply List.sum_eq_zero
      intro y hy
      obtain ⟨x, hx, rfl⟩ := List.mem_map.1 hy
      exact max_eq_right (by linarith [hm x hx])
    rw [hz]; simpa using hp.le
  obtain ⟨w, _, hw⟩ := intermediate_value_Icc' hab hcont.continuousOn ⟨hhi, hlo⟩
  exact ⟨w, hw, qcvar_stationary lam hl xs w hw⟩

/-! ### non-vacuity -/

/-- the model evaluates (no error) on a sample with ties, and a constant sample has risk `−c` -/
example : entropicRisk (2 : ℝ) [3, 3, 3] = .ok (-3) := by
  rw [erm_eq_def _ _ (by simp)]
  have := erm_const 2 (by norm_num) 3 (by norm_num) 3
  congr 1

/-- hypotheses of `erm_mono` / `erm_convex` / `isoelasticLoss_*` are satisfiable (with ties) -/
example : List.Forall₂ (· ≤ ·) [(1 : ℝ), 1, 2] [1, 3, 2] ∧ (∀ x ∈ [(1 : ℝ), 1, 2], 0 < x) ∧
    [(1 : ℝ), 1, 2].length = [(1 : ℝ), 3, 2].length ∧ mixL (1 / 2) [(1 : ℝ), 1, 2] [1, 3, 2] = [1, 2, 2] := by
  refine ⟨by simp, by simp, rfl, ?_⟩
  simp only [mixL, List.zipWith_cons_cons, List.zipWith_nil_right]
  norm_num

/-- the stationarity equation has a solution on a sample with a tie, so `qcvar_stationary`
is not vacuous: `λ = 1`, sample `[1, 1, 3]`, `w = −7/4`, value `−11/8` -/
example : qTarget (-7 / 4 : ℝ) [1, 1, 3] = 1 / (2 * 1) ∧ qcvarR 1 [1, 1, 3] = -11 / 8 := by
  have h : qTarget (-7 / 4 : ℝ) [1, 1, 3] = 1 / (2 * 1) := by
    rw [qTarget_eq]
    have e1 : max (-(-7 / 4 : ℝ) - 1) 0 = 3 / 4 := by rw [max_eq_left] <;> norm_num
    have e2 : max (-(-7 / 4 : ℝ) - 3) 0 = 0 := by rw [max_eq_right]; norm_num
    simp only [List.map_cons, List.map_nil, List.sum_cons, List.sum_nil, List.length_cons,
      List.length_nil, e1, e2]
    norm_num
  refine ⟨h, ?_⟩
  rw [← qcvar_stationary 1 (by norm_num) _ _ h, qObj_eq]
  have e1 : sqp (-(-7 / 4 : ℝ) - 1) = 9 / 16 := by
    unfold sqp; rw [max_eq_left] <;> norm_num
  have e2 : sqp (-(-7 / 4 : ℝ) - 3) = 0 := by
    unfold sqp; rw [max_eq_right] <;> norm_num
  simp only [List.map_cons, List.map_nil, List.sum_cons, List.sum_nil, List.length_cons,
    List.length_nil, e1, e2]
  norm_num

end PfVerif.C04ERM
