/-
  Real-analysis lemmas shared by the Black–Scholes properties: the derivative of the normal
  density, the functions `d1`, `d2` of (log-moneyness, total volatility), the identity
  `eˢ φ(d₁) = φ(d₂)`, and chain-rule lemmas along an arbitrary differentiable curve
  `y ↦ (s(y), w(y))` for the three price functionals.
-/
import PfVerif.Lemmas.Gauss
import Mathlib.Analysis.SpecialFunctions.ExpDeriv
import Mathlib.Analysis.SpecialFunctions.Log.Deriv
import Mathlib.Analysis.SpecialFunctions.Sqrt

namespace PfVerif.BSCalc
open PfVerif Real

/-- `φ'(x) = -x φ(x)` -/
theorem phi_hasDerivAt (x : ℝ) : HasDerivAt phi (-x * phi x) x := by
  have h1 : HasDerivAt (fun y : ℝ => -(y ^ 2) / 2) (-x) x := by
    have h := ((hasDerivAt_pow 2 x).neg).div_const 2
    refine h.congr_deriv ?_
    ring
  have h2 : HasDerivAt (fun y : ℝ => Real.exp (-(y ^ 2) / 2) / Real.sqrt (2 * π))
      (Real.exp (-(x ^ 2) / 2) * (-x) / Real.sqrt (2 * π)) x := (h1.exp).div_const _
  have e : phi = fun y : ℝ => Real.exp (-(y ^ 2) / 2) / Real.sqrt (2 * π) := rfl
  rw [e]
  refine h2.congr_deriv ?_
  ring

/-- `d₁ = s/w + w/2` with `w = σ√t` -/
noncomputable def d1 (s w : ℝ) : ℝ := s / w + w / 2

/-- `d₂ = s/w − w/2` -/
noncomputable def d2 (s w : ℝ) : ℝ := s / w - w / 2

theorem d1_eq_d2_add (s w : ℝ) : d1 s w = d2 s w + w := by unfold d1 d2; ring

theorem d1_add_d2 (s w : ℝ) : d1 s w + d2 s w = 2 * (s / w) := by unfold d1 d2; ring

/-- the identity that cancels the density terms: `eˢ φ(d₁) = φ(d₂)` -/
theorem exp_mul_phi_d1 (s w : ℝ) (hw : w ≠ 0) :
    Real.exp s * phi (d1 s w) = phi (d2 s w) := by
  unfold phi d1 d2
  rw [← mul_div_assoc, ← Real.exp_add]
  congr 2
  field_simp
  ring

/-- `s = log(S/K)` as a function of the spot -/
theorem hasDerivAt_logMoneyness {S K : ℝ} (hS : 0 < S) (hK : 0 < K) :
    HasDerivAt (fun S' : ℝ => Real.log (S' / K)) (1 / S) S := by
  have h := (Real.hasDerivAt_log (div_pos hS hK).ne').comp S ((hasDerivAt_id S).div_const K)
  refine h.congr_deriv ?_
  field_simp

/-- `w = v√t` as a function of the volatility -/
theorem hasDerivAt_w_vol (t v : ℝ) :
    HasDerivAt (fun v' : ℝ => v' * Real.sqrt t) (Real.sqrt t) v := by
  simpa using (hasDerivAt_id v).mul_const (Real.sqrt t)

/-- `w = v√t` as a function of the time to maturity -/
theorem hasDerivAt_w_time {t : ℝ} (ht : 0 < t) (v : ℝ) :
    HasDerivAt (fun t' : ℝ => v * Real.sqrt t') (v * (1 / (2 * Real.sqrt t))) t :=
  (Real.hasDerivAt_sqrt ht.ne').const_mul v

section curve
variable {sf wf : ℝ → ℝ} {s' w' x : ℝ}

theorem hasDerivAt_d1 (hs : HasDerivAt sf s' x) (hw : HasDerivAt wf w' x) (h0 : wf x ≠ 0) :
    HasDerivAt (fun y => d1 (sf y) (wf y)) (s' / wf x - d2 (sf x) (wf x) / wf x * w') x := by
  unfold d1 d2
  have h := (hs.fun_div hw h0).fun_add (hw.div_const 2)
  refine h.congr_deriv ?_
  field_simp
  ring

theorem hasDerivAt_d2 (hs : HasDerivAt sf s' x) (hw : HasDerivAt wf w' x) (h0 : wf x ≠ 0) :
    HasDerivAt (fun y => d2 (sf y) (wf y)) (s' / wf x - d1 (sf x) (wf x) / wf x * w') x := by
  unfold d1 d2
  have h := (hs.fun_div hw h0).fun_sub (hw.div_const 2)
  refine h.congr_deriv ?_
  field_simp
  ring

theorem hasDerivAt_Phi_d1 (hs : HasDerivAt sf s' x) (hw : HasDerivAt wf w' x) (h0 : wf x ≠ 0) :
    HasDerivAt (fun y => Phi (d1 (sf y) (wf y)))
      (phi (d1 (sf x) (wf x)) * (s' / wf x - d2 (sf x) (wf x) / wf x * w')) x :=
  (Phi_hasDerivAt _).comp x (hasDerivAt_d1 hs hw h0)

theorem hasDerivAt_Phi_d2 (hs : HasDerivAt sf s' x) (hw : HasDerivAt wf w' x) (h0 : wf x ≠ 0) :
    HasDerivAt (fun y => Phi (d2 (sf y) (wf y)))
      (phi (d2 (sf x) (wf x)) * (s' / wf x - d1 (sf x) (wf x) / wf x * w')) x :=
  (Phi_hasDerivAt _).comp x (hasDerivAt_d2 hs hw h0)

theorem hasDerivAt_phi_d1 (hs : HasDerivAt sf s' x) (hw : HasDerivAt wf w' x) (h0 : wf x ≠ 0) :
    HasDerivAt (fun y => phi (d1 (sf y) (wf y)))
      (-d1 (sf x) (wf x) * phi (d1 (sf x) (wf x))
        * (s' / wf x - d2 (sf x) (wf x) / wf x * w')) x :=
  (phi_hasDerivAt _).comp x (hasDerivAt_d1 hs hw h0)

theorem hasDerivAt_phi_d2 (hs : HasDerivAt sf s' x) (hw : HasDerivAt wf w' x) (h0 : wf x ≠ 0) :
    HasDerivAt (fun y => phi (d2 (sf y) (wf y)))
      (-d2 (sf x) (wf x) * phi (d2 (sf x) (wf x))
        * (s' / wf x - d1 (sf x) (wf x) / wf x * w')) x :=
  (phi_hasDerivAt _).comp x (hasDerivAt_d2 hs hw h0)

/-- European call value `eˢK Φ(d₁) − K Φ(d₂)` along a curve: the density terms cancel -/
theorem hasDerivAt_european (K : ℝ) (hs : HasDerivAt sf s' x) (hw : HasDerivAt wf w' x)
    (h0 : wf x ≠ 0) :
    HasDerivAt (fun y => Real.exp (sf y) * K * Phi (d1 (sf y) (wf y)) - K * Phi (d2 (sf y) (wf y)))
      (Real.exp (sf x) * K * Phi (d1 (sf x) (wf x)) * s' + K * phi (d2 (sf x) (wf x)) * w') x := by
  have e := exp_mul_phi_d1 (sf x) (wf x) h0
  have hab := d1_eq_d2_add (sf x) (wf x)
  have h := ((hs.exp.mul_const K).fun_mul (hasDerivAt_Phi_d1 hs hw h0)).fun_sub
    ((hasDerivAt_Phi_d2 hs hw h0).const_mul K)
  refine h.congr_deriv ?_
  rw [← e, hab]
  field_simp
  ring

/-- European binary call value `Φ(d₂)` along a curve -/
theorem hasDerivAt_binary (hs : HasDerivAt sf s' x) (hw : HasDerivAt wf w' x) (h0 : wf x ≠ 0) :
    HasDerivAt (fun y => Phi (d2 (sf y) (wf y)))
      (phi (d2 (sf x) (wf x)) * (s' / wf x - d1 (sf x) (wf x) / wf x * w')) x :=
  hasDerivAt_Phi_d2 hs hw h0

/-- American binary call value `Φ(d₂) + eˢ Φ(d₁)` along a curve -/
theorem hasDerivAt_american (hs : HasDerivAt sf s' x) (hw : HasDerivAt wf w' x) (h0 : wf x ≠ 0) :
    HasDerivAt (fun y => Phi (d2 (sf y) (wf y)) + Real.exp (sf y) * Phi (d1 (sf y) (wf y)))
      (Real.exp (sf x) * Phi (d1 (sf x) (wf x)) * s'
        + phi (d2 (sf x) (wf x))
          * (2 * s' / wf x - (d1 (sf x) (wf x) + d2 (sf x) (wf x)) / wf x * w')) x := by
  have e := exp_mul_phi_d1 (sf x) (wf x) h0
  have h := (hasDerivAt_Phi_d2 hs hw h0).fun_add (hs.exp.fun_mul (hasDerivAt_Phi_d1 hs hw h0))
  refine h.congr_deriv ?_
  rw [← e]
  field_simp
  ring

end curve

end PfVerif.BSCalc
