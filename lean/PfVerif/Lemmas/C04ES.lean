/-
  C04 (expected-shortfall part) — expected shortfall is a coherent risk measure on every
  finite sample.

  Model: `es` / `sortL` (Model/Risk.lean, transcribed from functional.py `topp`,
  `expected_shortfall`) instantiated at ℝ: `es k xs = -(mean of the k smallest of xs)`, with
  `k = ⌈p·N⌉` computed by the caller.  All statements hold for every list (any length, ties and
  constant samples allowed, no distinctness assumption).  The theorems live in
  `PfVerif.C04ES`; `Props/C04.lean` re-exports them into `PfVerif.C04`.

  Hypotheses: `1 ≤ k` and `k ≤ N` are assumed only where the statement is false without them
  (`es_cash`, `es_antitone_level`, `es_bounds`, `es_ge_neg_mean`, `es_const`, `es_variational`);
  `es_mono`, `es_pos_hom`, `es_convex`, `es_full` hold for every `k` (including the degenerate
  `k = 0`, where `es 0 xs = -(0/0) = 0`, and `k > N`, where `take` returns the whole sample).
-/
import PfVerif.Model.Risk
import PfVerif.Lemmas.OrderStat
import Mathlib.Order.Bounds.Defs
import Mathlib.Tactic.FieldSimp
import Mathlib.Tactic.NormNum

namespace PfVerif.C04ES
open PfVerif

/-- `es` in Mathlib vocabulary: minus (`List.sum` of the `k` smallest) over `k` -/
theorem es_eq (k : ℕ) (xs : List ℝ) : es k xs = -(((sortL xs).take k).sum / (k : ℝ)) := by
  unfold es; rw [sumL_eq_sum]

/-! ### variational characterisation: the `k` smallest minimise the sum -/

/-- the `k` smallest form a sub-multiset of the sample … -/
theorem take_sort_subperm (k : ℕ) (xs : List ℝ) : List.Subperm ((sortL xs).take k) xs :=
  take_sortL_subperm k xs

/-- … with exactly `k` elements when `k ≤ N` … -/
theorem take_sort_length {k : ℕ} {xs : List ℝ} (hk : k ≤ xs.length) :
    ((sortL xs).take k).length = k :=
  length_take_sortL hk

/-- … and every `k`-element sub-multiset `l` of the sample (`l <+~ xs`: a permutation of a
sublist; repeated values are distinct elements) has a sum at least as large. -/
theorem sum_take_sort_le {k : ℕ} {xs l : List ℝ} (hl : List.Subperm l xs) (hk : l.length = k) :
    ((sortL xs).take k).sum ≤ l.sum :=
  hk ▸ sum_take_sortL_le hl

/-- the same for order-preserving selections (sublists) -/
theorem sum_take_sort_le_sublist {k : ℕ} {xs l : List ℝ} (hl : l.Sublist xs)
    (hk : l.length = k) : ((sortL xs).take k).sum ≤ l.sum :=
  sum_take_sort_le hl.subperm hk

/-- variational form: `k · ES_k(xs) = − min { Σ l : l a k-element sub-multiset of xs }` -/
theorem es_variational {k : ℕ} {xs : List ℝ} (hk1 : 1 ≤ k) (hk : k ≤ xs.length) :
    IsLeast {s : ℝ | ∃ l : List ℝ, List.Subperm l xs ∧ l.length = k ∧ l.sum = s}
      (-((k : ℝ) * es k xs)) := by
  have hk0 : (k : ℝ) ≠ 0 := by exact_mod_cast (by omega : k ≠ 0)
  have h : -((k : ℝ) * es k xs) = ((sortL xs).take k).sum := by
    rw [es_eq]; field_simp
  rw [h]
  refine ⟨⟨_, take_sort_subperm k xs, take_sort_length hk, rfl⟩, ?_⟩
  rintro s ⟨l, hl, hlen, rfl⟩
  exact sum_take_sort_le hl hlen

/-- comparison principle used below: to bound the sum of the `k` smallest of `xs` it suffices
to exhibit ANY sub-multiset of `xs` of the right size (also right when `k > N`) -/
theorem sum_take_sort_le_of_length {k : ℕ} {xs ys l : List ℝ} (hlen : xs.length = ys.length)
    (hl : List.Subperm l xs) (hk : l.length = ((sortL ys).take k).length) :
    ((sortL xs).take k).sum ≤ l.sum := by
  have h := sum_take_sortL_le hl
  have e : (sortL xs).take l.length = (sortL xs).take k := by
    rw [List.take_eq_take_iff, hk]; simp [hlen]
  rwa [e] at h

/-! ### monotonicity -/

/-- **monotone**: a pointwise better P&L never has higher risk (`Forall₂` form) -/
theorem es_mono_forall₂ (k : ℕ) {xs ys : List ℝ} (h : List.Forall₂ (· ≤ ·) xs ys) :
    es k ys ≤ es k xs := by
  rw [es_eq, es_eq, neg_le_neg_iff]
  apply div_le_div_of_nonneg_right _ (Nat.cast_nonneg k)
  obtain ⟨l₁, hp, hsub⟩ := take_sort_subperm k ys
  obtain ⟨l', hl'sub, hl'⟩ := exists_sublist_forall₂ h hsub
  calc ((sortL xs).take k).sum ≤ l'.sum :=
        sum_take_sort_le_of_length h.length_eq hl'sub.subperm (by rw [hl'.length_eq, hp.length_eq])
    _ ≤ l₁.sum := hl'.sum_le_sum
    _ = ((sortL ys).take k).sum := hp.sum_eq

/-- **monotone**, index-aligned form: `xs[i] ≤ ys[i]` for all `i < N` -/
theorem es_mono (k : ℕ) {xs ys : List ℝ} (hlen : xs.length = ys.length)
    (h : ∀ (i : ℕ) (h1 : i < xs.length) (h2 : i < ys.length), xs[i] ≤ ys[i]) :
    es k ys ≤ es k xs :=
  es_mono_forall₂ k (List.forall₂_of_length_eq_of_get hlen (fun i h1 h2 => by
    simpa using h i h1 h2))

/-! ### cash invariance, positive homogeneity -/

/-- **cash-invariant**: adding `c` to every outcome lowers the risk by exactly `c` -/
theorem es_cash {k : ℕ} {xs : List ℝ} (c : ℝ) (hk1 : 1 ≤ k) (hk : k ≤ xs.length) :
    es k (xs.map (· + c)) = es k xs - c := by
  have hk0 : (k : ℝ) ≠ 0 := by exact_mod_cast (by omega : k ≠ 0)
  rw [es_eq, es_eq, sortL_map_of_monotone _ (fun _ _ h => by simpa using h), ← List.map_take,
    sum_map_add_const, take_sort_length hk]
  field_simp
  ring

/-- **positively homogeneous** (including `a = 0`) -/
theorem es_pos_hom (k : ℕ) (xs : List ℝ) {a : ℝ} (ha : 0 ≤ a) :
    es k (xs.map (a * ·)) = a * es k xs := by
  rw [es_eq, es_eq, sortL_map_of_monotone _ (fun _ _ h => mul_le_mul_of_nonneg_left h ha),
    ← List.map_take, sum_map_const_mul]
  ring

/-! ### convexity -/

/-- **convex** under pointwise mixing of two samples of equal length -/
theorem es_convex (k : ℕ) {xs ys : List ℝ} (hlen : xs.length = ys.length) {t : ℝ}
    (ht0 : 0 ≤ t) (ht1 : t ≤ 1) :
    es k (List.zipWith (fun x y => t * x + (1 - t) * y) xs ys)
      ≤ t * es k xs + (1 - t) * es k ys := by
  set f : ℝ → ℝ → ℝ := fun x y => t * x + (1 - t) * y with hf
  have hzlen : (List.zipWith f xs ys).length = xs.length := by simp [hlen]
  obtain ⟨l₁, hp, hsub⟩ := take_sort_subperm k (List.zipWith f xs ys)
  obtain ⟨lx, ly, hlx, hly, hlxl, hlyl, hl₁⟩ := exists_sublists_zipWith f xs ys hsub
  have hx : ((sortL xs).take k).sum ≤ lx.sum :=
    sum_take_sort_le_of_length hzlen.symm hlx.subperm (by rw [hlxl, hp.length_eq])
  have hy : ((sortL ys).take k).sum ≤ ly.sum :=
    sum_take_sort_le_of_length (hlen ▸ hzlen.symm) hly.subperm (by rw [hlyl, hp.length_eq])
  have hz : ((sortL (List.zipWith f xs ys)).take k).sum = t * lx.sum + (1 - t) * ly.sum := by
    rw [← hp.sum_eq, hl₁, hf, sum_zipWith_mix t lx ly (hlxl.trans hlyl.symm)]
  have key : t * ((sortL xs).take k).sum + (1 - t) * ((sortL ys).take k).sum
      ≤ ((sortL (List.zipWith f xs ys)).take k).sum := by
    rw [hz]
    exact add_le_add (mul_le_mul_of_nonneg_left hx ht0)
      (mul_le_mul_of_nonneg_left hy (by linarith))
  rw [es_eq, es_eq, es_eq]
  have hk0 : (0 : ℝ) ≤ k := Nat.cast_nonneg k
  have := div_le_div_of_nonneg_right key hk0
  rw [add_div, mul_div_assoc, mul_div_assoc] at this
  linarith

/-! ### dependence on the level -/

/-- **non-increasing in the quantile level**: the mean of the `k` smallest is at most the mean
of the `k'` smallest -/
theorem es_antitone_level {k k' : ℕ} {xs : List ℝ} (hk1 : 1 ≤ k) (hkk : k ≤ k')
    (hk' : k' ≤ xs.length) : es k' xs ≤ es k xs := by
  rw [es_eq, es_eq, neg_le_neg_iff]
  exact mean_take_mono (sortL_pairwise xs) hk1 hkk (by simpa using hk')

/-- `p = 1`: expected shortfall at full level is minus the sample mean -/
theorem es_full (xs : List ℝ) : es xs.length xs = -(xs.sum / (xs.length : ℝ)) := by
  rw [es_eq, List.take_of_length_le (by simp), sortL_sum]

/-- expected shortfall is at least minus the mean -/
theorem es_ge_neg_mean {k : ℕ} {xs : List ℝ} (hk1 : 1 ≤ k) (hk : k ≤ xs.length) :
    -(xs.sum / (xs.length : ℝ)) ≤ es k xs := by
  rw [← es_full]
  exact es_antitone_level hk1 hk le_rfl

/-! ### bounds -/

/-- expected shortfall lies between minus the best and minus the worst outcome (stated for
every upper bound `M` / lower bound `m` of the sample, in particular its max / min) -/
theorem es_bounds {k : ℕ} {xs : List ℝ} (hk1 : 1 ≤ k) (hk : k ≤ xs.length) :
    (∀ M : ℝ, (∀ x ∈ xs, x ≤ M) → -M ≤ es k xs) ∧
    (∀ m : ℝ, (∀ x ∈ xs, m ≤ x) → es k xs ≤ -m) := by
  have hk0 : (0 : ℝ) < k := by exact_mod_cast hk1
  constructor
  · intro M hM
    rw [es_eq, neg_le_neg_iff, div_le_iff₀ hk0]
    have := List.sum_le_card_nsmul ((sortL xs).take k) M
      (fun x hx => hM x (mem_of_mem_take_sortL hx))
    rw [take_sort_length hk, nsmul_eq_mul] at this
    linarith
  · intro m hm
    rw [es_eq, neg_le_neg_iff, le_div_iff₀ hk0]
    have := List.card_nsmul_le_sum ((sortL xs).take k) m
      (fun x hx => hm x (mem_of_mem_take_sortL hx))
    rw [take_sort_length hk, nsmul_eq_mul] at this
    linarith

/-- a constant sample has risk minus the constant -/
theorem es_const {k N : ℕ} (c : ℝ) (hk1 : 1 ≤ k) (hk : k ≤ N) :
    es k (List.replicate N c) = -c := by
  have hb := es_bounds (xs := List.replicate N c) hk1 (by simpa using hk)
  apply le_antisymm
  · exact hb.2 c (fun x hx => (List.eq_of_mem_replicate hx).ge)
  · exact hb.1 c (fun x hx => (List.eq_of_mem_replicate hx).le)

/-! ### non-vacuity -/

/-- a sample with a tie at the minimum: `k = 2` of `N = 4`, the two smallest are `1, 1` -/
example : es 2 [(3 : ℝ), 1, 1, 2] = -1 := by
  have hs : sortL [(3 : ℝ), 1, 1, 2] = [1, 1, 2, 3] :=
    sortL_eq_of_perm_pairwise (List.perm_append_comm (l₁ := [(1 : ℝ), 1, 2]) (l₂ := [3]))
      (by simp; norm_num)
  rw [es_eq, hs]
  norm_num

/-- the hypotheses of the theorems are satisfiable on that sample, and the bounds are attained
strictly inside `[-max, -min] = [-3, -1]` for `k = 3` -/
example : es 3 [(3 : ℝ), 1, 1, 2] = -(4 / 3) := by
  have hs : sortL [(3 : ℝ), 1, 1, 2] = [1, 1, 2, 3] :=
    sortL_eq_of_perm_pairwise (List.perm_append_comm (l₁ := [(1 : ℝ), 1, 2]) (l₂ := [3]))
      (by simp; norm_num)
  rw [es_eq, hs]
  norm_num

end PfVerif.C04ES
