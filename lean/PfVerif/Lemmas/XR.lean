/-
  `XR` — the extended reals with NaN: IEEE-754 binary floating point *without rounding* and
  without a signed zero (zero is unsigned and behaves as `+0`).  Exact on finite values; the
  special values obey the IEEE rules `0·∞ = ∞−∞ = 0/0 = ∞/∞ = nan`, `x/0 = ±∞`, comparisons with
  `nan` are false.  This is exactly the failure class of property C18 (silent NaN at expiry).

  All instances the scalar-generic model needs are provided, so the *same* definitions of
  `Model/BS.lean` run at `α := XR`.
-/
import PfVerif.Model.Basic
import PfVerif.Lemmas.Gauss

namespace PfVerif

/-- extended reals with NaN -/
inductive XR where
  | nan
  | ninf
  | fin (x : ℝ)
  | pinf

namespace XR

/-- `p` for positive `x`, `n` for negative `x`, `nan` for zero: the sign rule of `x · ∞`, `x / 0` -/
noncomputable def ofSign (x : ℝ) (p n : XR) : XR :=
  if 0 < x then p else if x < 0 then n else nan

def isNan : XR → Prop
  | nan => True
  | _ => False

def isFinite : XR → Prop
  | fin _ => True
  | _ => False

protected def neg : XR → XR
  | nan => nan
  | ninf => pinf
  | fin x => fin (-x)
  | pinf => ninf

protected def add : XR → XR → XR
  | nan, _ => nan
  | _, nan => nan
  | fin x, fin y => fin (x + y)
  | fin _, pinf => pinf
  | fin _, ninf => ninf
  | pinf, fin _ => pinf
  | ninf, fin _ => ninf
  | pinf, pinf => pinf
  | ninf, ninf => ninf
  | pinf, ninf => nan
  | ninf, pinf => nan

protected def sub (a b : XR) : XR := XR.add a (XR.neg b)

protected noncomputable def mul : XR → XR → XR
  | nan, _ => nan
  | _, nan => nan
  | fin x, fin y => fin (x * y)
  | fin x, pinf => ofSign x pinf ninf
  | fin x, ninf => ofSign x ninf pinf
  | pinf, fin y => ofSign y pinf ninf
  | ninf, fin y => ofSign y ninf pinf
  | pinf, pinf => pinf
  | ninf, ninf => pinf
  | pinf, ninf => ninf
  | ninf, pinf => ninf

protected noncomputable def div : XR → XR → XR
  | nan, _ => nan
  | _, nan => nan
  | fin x, fin y => if y = 0 then ofSign x pinf ninf else fin (x / y)
  | fin _, pinf => fin 0
  | fin _, ninf => fin 0
  | pinf, fin y => if y < 0 then ninf else pinf
  | ninf, fin y => if y < 0 then pinf else ninf
  | pinf, pinf => nan
  | ninf, ninf => nan
  | pinf, ninf => nan
  | ninf, pinf => nan

protected def le : XR → XR → Prop
  | nan, _ => False
  | _, nan => False
  | ninf, _ => True
  | fin _, ninf => False
  | fin x, fin y => x ≤ y
  | fin _, pinf => True
  | pinf, pinf => True
  | pinf, _ => False

protected def lt : XR → XR → Prop
  | nan, _ => False
  | _, nan => False
  | ninf, ninf => False
  | ninf, _ => True
  | fin _, ninf => False
  | fin x, fin y => x < y
  | fin _, pinf => True
  | pinf, _ => False

instance : Neg XR := ⟨XR.neg⟩
instance : Add XR := ⟨XR.add⟩
instance : Sub XR := ⟨XR.sub⟩
noncomputable instance : Mul XR := ⟨XR.mul⟩
noncomputable instance : Div XR := ⟨XR.div⟩
instance : OfNat XR 0 := ⟨fin 0⟩
instance : OfNat XR 1 := ⟨fin 1⟩
instance : OfNat XR 2 := ⟨fin 2⟩
instance : LE XR := ⟨XR.le⟩
instance : LT XR := ⟨XR.lt⟩
noncomputable instance : DecidableLE XR := fun _ _ => Classical.propDecidable _
noncomputable instance : DecidableLT XR := fun _ _ => Classical.propDecidable _

noncomputable instance : Transc XR where
  exp
    | nan => nan
    | ninf => fin 0
    | fin x => fin (Real.exp x)
    | pinf => pinf
  log
    | nan => nan
    | ninf => nan
    | fin x => if x < 0 then nan else if x = 0 then ninf else fin (Real.log x)
    | pinf => pinf
  sqrt
    | nan => nan
    | ninf => nan
    | fin x => if x < 0 then nan else fin (Real.sqrt x)
    | pinf => pinf
  ncdf
    | nan => nan
    | ninf => fin 0
    | fin x => fin (Phi x)
    | pinf => fin 1
  npdf
    | nan => nan
    | ninf => fin 0
    | fin x => fin (phi x)
    | pinf => fin 0
  cos
    | fin x => fin (Real.cos x)
    | _ => nan
  sin
    | fin x => fin (Real.sin x)
    | _ => nan
  cbrt
    | nan => nan
    | ninf => ninf
    | fin x => fin (x ^ ((1 : ℝ) / 3))
    | pinf => pinf

/-! ### numerals -/

@[simp] theorem zero_def : (0 : XR) = fin 0 := rfl
@[simp] theorem one_def : (1 : XR) = fin 1 := rfl
@[simp] theorem two_def : (2 : XR) = fin 2 := rfl

/-! ### predicates -/

@[simp] theorem isNan_nan : isNan nan := trivial
@[simp] theorem not_isNan_fin (x : ℝ) : ¬ isNan (fin x) := id
@[simp] theorem not_isNan_pinf : ¬ isNan pinf := id
@[simp] theorem not_isNan_ninf : ¬ isNan ninf := id
@[simp] theorem isFinite_fin (x : ℝ) : isFinite (fin x) := trivial
@[simp] theorem not_isFinite_nan : ¬ isFinite nan := id
@[simp] theorem not_isFinite_pinf : ¬ isFinite pinf := id
@[simp] theorem not_isFinite_ninf : ¬ isFinite ninf := id

theorem isNan_iff (a : XR) : isNan a ↔ a = nan := by cases a <;> simp

theorem isFinite_iff (a : XR) : isFinite a ↔ ∃ x, a = fin x := by cases a <;> simp

theorem isFinite.not_isNan {a : XR} (h : isFinite a) : ¬ isNan a := by cases a <;> simp_all

/-! ### sign selector -/

@[simp] theorem ofSign_pos {x : ℝ} (h : 0 < x) (p n : XR) : ofSign x p n = p := by
  simp [ofSign, h]

@[simp] theorem ofSign_neg {x : ℝ} (h : x < 0) (p n : XR) : ofSign x p n = n := by
  simp [ofSign, h, not_lt.2 h.le]

@[simp] theorem ofSign_zero (p n : XR) : ofSign 0 p n = nan := by
  simp [ofSign]

/-! ### negation -/

@[simp] theorem neg_nan : -nan = nan := rfl
@[simp] theorem neg_ninf : -ninf = pinf := rfl
@[simp] theorem neg_pinf : -pinf = ninf := rfl
@[simp] theorem neg_fin (x : ℝ) : -fin x = fin (-x) := rfl

/-! ### addition -/

@[simp] theorem nan_add (a : XR) : nan + a = nan := rfl
@[simp] theorem add_nan (a : XR) : a + nan = nan := by cases a <;> rfl
@[simp] theorem fin_add_fin (x y : ℝ) : fin x + fin y = fin (x + y) := rfl
@[simp] theorem fin_add_pinf (x : ℝ) : fin x + pinf = pinf := rfl
@[simp] theorem fin_add_ninf (x : ℝ) : fin x + ninf = ninf := rfl
@[simp] theorem pinf_add_fin (x : ℝ) : pinf + fin x = pinf := rfl
@[simp] theorem ninf_add_fin (x : ℝ) : ninf + fin x = ninf := rfl
@[simp] theorem pinf_add_pinf : pinf + pinf = pinf := rfl
@[simp] theorem ninf_add_ninf : ninf + ninf = ninf := rfl
@[simp] theorem pinf_add_ninf : pinf + ninf = nan := rfl
@[simp] theorem ninf_add_pinf : ninf + pinf = nan := rfl

/-! ### subtraction -/

theorem sub_def (a b : XR) : a - b = a + -b := rfl

@[simp] theorem nan_sub (a : XR) : nan - a = nan := rfl
@[simp] theorem sub_nan (a : XR) : a - nan = nan := by cases a <;> rfl
@[simp] theorem fin_sub_fin (x y : ℝ) : fin x - fin y = fin (x - y) := by
  rw [sub_def, neg_fin, fin_add_fin, sub_eq_add_neg]
@[simp] theorem fin_sub_pinf (x : ℝ) : fin x - pinf = ninf := rfl
@[simp] theorem fin_sub_ninf (x : ℝ) : fin x - ninf = pinf := rfl
@[simp] theorem pinf_sub_fin (x : ℝ) : pinf - fin x = pinf := rfl
@[simp] theorem ninf_sub_fin (x : ℝ) : ninf - fin x = ninf := rfl
@[simp] theorem pinf_sub_pinf : pinf - pinf = nan := rfl
@[simp] theorem ninf_sub_ninf : ninf - ninf = nan := rfl
@[simp] theorem pinf_sub_ninf : pinf - ninf = pinf := rfl
@[simp] theorem ninf_sub_pinf : ninf - pinf = ninf := rfl

/-! ### multiplication -/

@[simp] theorem nan_mul (a : XR) : nan * a = nan := rfl
@[simp] theorem mul_nan (a : XR) : a * nan = nan := by cases a <;> rfl
@[simp] theorem fin_mul_fin (x y : ℝ) : fin x * fin y = fin (x * y) := rfl
theorem fin_mul_pinf (x : ℝ) : fin x * pinf = ofSign x pinf ninf := rfl
theorem fin_mul_ninf (x : ℝ) : fin x * ninf = ofSign x ninf pinf := rfl
theorem pinf_mul_fin (x : ℝ) : pinf * fin x = ofSign x pinf ninf := rfl
theorem ninf_mul_fin (x : ℝ) : ninf * fin x = ofSign x ninf pinf := rfl
@[simp] theorem pinf_mul_pinf : pinf * pinf = pinf := rfl
@[simp] theorem ninf_mul_ninf : ninf * ninf = pinf := rfl
@[simp] theorem pinf_mul_ninf : pinf * ninf = ninf := rfl
@[simp] theorem ninf_mul_pinf : ninf * pinf = ninf := rfl

@[simp] theorem fin_mul_pinf_pos {x : ℝ} (h : 0 < x) : fin x * pinf = pinf := by
  rw [fin_mul_pinf, ofSign_pos h]
@[simp] theorem fin_mul_pinf_neg {x : ℝ} (h : x < 0) : fin x * pinf = ninf := by
  rw [fin_mul_pinf, ofSign_neg h]
@[simp] theorem fin_mul_ninf_pos {x : ℝ} (h : 0 < x) : fin x * ninf = ninf := by
  rw [fin_mul_ninf, ofSign_pos h]
@[simp] theorem fin_mul_ninf_neg {x : ℝ} (h : x < 0) : fin x * ninf = pinf := by
  rw [fin_mul_ninf, ofSign_neg h]
@[simp] theorem pinf_mul_fin_pos {x : ℝ} (h : 0 < x) : pinf * fin x = pinf := by
  rw [pinf_mul_fin, ofSign_pos h]
@[simp] theorem pinf_mul_fin_neg {x : ℝ} (h : x < 0) : pinf * fin x = ninf := by
  rw [pinf_mul_fin, ofSign_neg h]
@[simp] theorem ninf_mul_fin_pos {x : ℝ} (h : 0 < x) : ninf * fin x = ninf := by
  rw [ninf_mul_fin, ofSign_pos h]
@[simp] theorem ninf_mul_fin_neg {x : ℝ} (h : x < 0) : ninf * fin x = pinf := by
  rw [ninf_mul_fin, ofSign_neg h]
/-- `0 · ∞ = nan` -/
@[simp] theorem zero_mul_pinf : fin 0 * pinf = nan := by rw [fin_mul_pinf, ofSign_zero]
@[simp] theorem zero_mul_ninf : fin 0 * ninf = nan := by rw [fin_mul_ninf, ofSign_zero]
@[simp] theorem pinf_mul_zero : pinf * fin 0 = nan := by rw [pinf_mul_fin, ofSign_zero]
@[simp] theorem ninf_mul_zero : ninf * fin 0 = nan := by rw [ninf_mul_fin, ofSign_zero]

/-! ### division -/

@[simp] theorem nan_div (a : XR) : nan / a = nan := rfl
@[simp] theorem div_nan (a : XR) : a / nan = nan := by cases a <;> rfl
theorem fin_div_fin (x y : ℝ) :
    fin x / fin y = if y = 0 then ofSign x pinf ninf else fin (x / y) := rfl
@[simp] theorem fin_div_fin_ne (x : ℝ) {y : ℝ} (h : y ≠ 0) : fin x / fin y = fin (x / y) := by
  rw [fin_div_fin, if_neg h]
theorem fin_div_zero (x : ℝ) : fin x / fin 0 = ofSign x pinf ninf := by
  rw [fin_div_fin, if_pos rfl]
@[simp] theorem pos_div_zero {x : ℝ} (h : 0 < x) : fin x / fin 0 = pinf := by
  rw [fin_div_zero, ofSign_pos h]
@[simp] theorem neg_div_zero {x : ℝ} (h : x < 0) : fin x / fin 0 = ninf := by
  rw [fin_div_zero, ofSign_neg h]
/-- `0 / 0 = nan` -/
@[simp] theorem zero_div_zero : fin 0 / fin 0 = nan := by rw [fin_div_zero, ofSign_zero]
@[simp] theorem fin_div_pinf (x : ℝ) : fin x / pinf = fin 0 := rfl
@[simp] theorem fin_div_ninf (x : ℝ) : fin x / ninf = fin 0 := rfl
theorem pinf_div_fin (y : ℝ) : pinf / fin y = if y < 0 then ninf else pinf := rfl
theorem ninf_div_fin (y : ℝ) : ninf / fin y = if y < 0 then pinf else ninf := rfl
@[simp] theorem pinf_div_fin_nonneg {y : ℝ} (h : 0 ≤ y) : pinf / fin y = pinf := by
  rw [pinf_div_fin, if_neg (not_lt.2 h)]
@[simp] theorem pinf_div_fin_neg {y : ℝ} (h : y < 0) : pinf / fin y = ninf := by
  rw [pinf_div_fin, if_pos h]
@[simp] theorem ninf_div_fin_nonneg {y : ℝ} (h : 0 ≤ y) : ninf / fin y = ninf := by
  rw [ninf_div_fin, if_neg (not_lt.2 h)]
@[simp] theorem ninf_div_fin_neg {y : ℝ} (h : y < 0) : ninf / fin y = pinf := by
  rw [ninf_div_fin, if_pos h]
@[simp] theorem pinf_div_pinf : pinf / pinf = nan := rfl
@[simp] theorem ninf_div_ninf : ninf / ninf = nan := rfl
@[simp] theorem pinf_div_ninf : pinf / ninf = nan := rfl
@[simp] theorem ninf_div_pinf : ninf / pinf = nan := rfl
@[simp] theorem pinf_div_two : pinf / fin 2 = pinf := pinf_div_fin_nonneg (by norm_num)
@[simp] theorem ninf_div_two : ninf / fin 2 = ninf := ninf_div_fin_nonneg (by norm_num)
@[simp] theorem fin_div_two (x : ℝ) : fin x / fin 2 = fin (x / 2) := fin_div_fin_ne x (by norm_num)

/-! ### order -/

@[simp] theorem not_nan_le (a : XR) : ¬ nan ≤ a := id
@[simp] theorem not_le_nan (a : XR) : ¬ a ≤ nan := by cases a <;> exact id
@[simp] theorem fin_le_fin (x y : ℝ) : fin x ≤ fin y ↔ x ≤ y := Iff.rfl
@[simp] theorem ninf_le_ninf : ninf ≤ ninf := trivial
@[simp] theorem ninf_le_fin (x : ℝ) : ninf ≤ fin x := trivial
@[simp] theorem ninf_le_pinf : ninf ≤ pinf := trivial
@[simp] theorem fin_le_pinf (x : ℝ) : fin x ≤ pinf := trivial
@[simp] theorem pinf_le_pinf : pinf ≤ pinf := trivial
@[simp] theorem not_fin_le_ninf (x : ℝ) : ¬ fin x ≤ ninf := id
@[simp] theorem not_pinf_le_fin (x : ℝ) : ¬ pinf ≤ fin x := id
@[simp] theorem not_pinf_le_ninf : ¬ pinf ≤ ninf := id

@[simp] theorem not_nan_lt (a : XR) : ¬ nan < a := id
@[simp] theorem not_lt_nan (a : XR) : ¬ a < nan := by cases a <;> exact id
@[simp] theorem fin_lt_fin (x y : ℝ) : fin x < fin y ↔ x < y := Iff.rfl
@[simp] theorem not_ninf_lt_ninf : ¬ ninf < ninf := id
@[simp] theorem ninf_lt_fin (x : ℝ) : ninf < fin x := trivial
@[simp] theorem ninf_lt_pinf : ninf < pinf := trivial
@[simp] theorem fin_lt_pinf (x : ℝ) : fin x < pinf := trivial
@[simp] theorem not_pinf_lt (a : XR) : ¬ pinf < a := by cases a <;> exact id
@[simp] theorem not_fin_lt_ninf (x : ℝ) : ¬ fin x < ninf := id

/-- `≤` is reflexive exactly off `nan` -/
theorem le_refl_iff (a : XR) : a ≤ a ↔ ¬ isNan a := by cases a <;> simp

/-! ### transcendental functions -/

@[simp] theorem exp_nan : Transc.exp nan = nan := rfl
@[simp] theorem exp_ninf : Transc.exp ninf = fin 0 := rfl
@[simp] theorem exp_fin (x : ℝ) : Transc.exp (fin x) = fin (Real.exp x) := rfl
@[simp] theorem exp_pinf : Transc.exp pinf = pinf := rfl

@[simp] theorem log_nan : Transc.log nan = nan := rfl
@[simp] theorem log_ninf : Transc.log ninf = nan := rfl
@[simp] theorem log_pinf : Transc.log pinf = pinf := rfl
theorem log_fin (x : ℝ) :
    Transc.log (fin x) = if x < 0 then nan else if x = 0 then ninf else fin (Real.log x) := rfl
@[simp] theorem log_zero : Transc.log (fin 0) = ninf := by simp [log_fin]
@[simp] theorem log_fin_pos {x : ℝ} (h : 0 < x) : Transc.log (fin x) = fin (Real.log x) := by
  simp [log_fin, not_lt.2 h.le, h.ne']
@[simp] theorem log_fin_neg {x : ℝ} (h : x < 0) : Transc.log (fin x) = nan := by
  simp [log_fin, h]

@[simp] theorem sqrt_nan : Transc.sqrt nan = nan := rfl
@[simp] theorem sqrt_ninf : Transc.sqrt ninf = nan := rfl
@[simp] theorem sqrt_pinf : Transc.sqrt pinf = pinf := rfl
theorem sqrt_fin (x : ℝ) :
    Transc.sqrt (fin x) = if x < 0 then nan else fin (Real.sqrt x) := rfl
@[simp] theorem sqrt_fin_nonneg {x : ℝ} (h : 0 ≤ x) : Transc.sqrt (fin x) = fin (Real.sqrt x) := by
  rw [sqrt_fin, if_neg (not_lt.2 h)]
@[simp] theorem sqrt_fin_neg {x : ℝ} (h : x < 0) : Transc.sqrt (fin x) = nan := by
  rw [sqrt_fin, if_pos h]
@[simp] theorem sqrt_zero : Transc.sqrt (fin 0) = fin 0 := by
  rw [sqrt_fin_nonneg le_rfl, Real.sqrt_zero]

@[simp] theorem ncdf_nan : Transc.ncdf nan = nan := rfl
@[simp] theorem ncdf_ninf : Transc.ncdf ninf = fin 0 := rfl
@[simp] theorem ncdf_fin (x : ℝ) : Transc.ncdf (fin x) = fin (Phi x) := rfl
@[simp] theorem ncdf_pinf : Transc.ncdf pinf = fin 1 := rfl

@[simp] theorem npdf_nan : Transc.npdf nan = nan := rfl
@[simp] theorem npdf_ninf : Transc.npdf ninf = fin 0 := rfl
@[simp] theorem npdf_fin (x : ℝ) : Transc.npdf (fin x) = fin (phi x) := rfl
@[simp] theorem npdf_pinf : Transc.npdf pinf = fin 0 := rfl

@[simp] theorem cos_nan : Transc.cos nan = nan := rfl
@[simp] theorem cos_ninf : Transc.cos ninf = nan := rfl
@[simp] theorem cos_fin (x : ℝ) : Transc.cos (fin x) = fin (Real.cos x) := rfl
@[simp] theorem cos_pinf : Transc.cos pinf = nan := rfl

@[simp] theorem sin_nan : Transc.sin nan = nan := rfl
@[simp] theorem sin_ninf : Transc.sin ninf = nan := rfl
@[simp] theorem sin_fin (x : ℝ) : Transc.sin (fin x) = fin (Real.sin x) := rfl
@[simp] theorem sin_pinf : Transc.sin pinf = nan := rfl

@[simp] theorem cbrt_nan : Transc.cbrt nan = nan := rfl
@[simp] theorem cbrt_ninf : Transc.cbrt ninf = ninf := rfl
@[simp] theorem cbrt_fin (x : ℝ) : Transc.cbrt (fin x) = fin (x ^ ((1 : ℝ) / 3)) := rfl
@[simp] theorem cbrt_pinf : Transc.cbrt pinf = pinf := rfl

/-! ### the IEEE failure class, as explicit facts -/

theorem inf_sub_inf : pinf - pinf = nan ∧ pinf + ninf = nan := ⟨rfl, rfl⟩
theorem zero_mul_inf : fin 0 * pinf = nan ∧ fin 0 * ninf = nan := ⟨zero_mul_pinf, zero_mul_ninf⟩
theorem inf_div_inf : pinf / pinf = nan ∧ ninf / pinf = nan := ⟨rfl, rfl⟩

/-- arithmetic on finite values is exact real arithmetic (division: by a non-zero divisor) -/
theorem fin_exact (x y : ℝ) :
    fin x + fin y = fin (x + y) ∧ fin x - fin y = fin (x - y) ∧ fin x * fin y = fin (x * y) ∧
    (y ≠ 0 → fin x / fin y = fin (x / y)) :=
  ⟨rfl, fin_sub_fin x y, rfl, fun h => fin_div_fin_ne x h⟩

end XR
end PfVerif
