/-
  The standard normal density `phi` and distribution function `Phi` as concrete real functions
  (no hypotheses), and the `Transc ℝ` instance used by every theorem about transcendental
  model functions.
-/
import PfVerif.Model.Basic
import Mathlib.Analysis.SpecialFunctions.Gaussian.GaussianIntegral
import Mathlib.Analysis.SpecialFunctions.Pow.Real
import Mathlib.MeasureTheory.Integral.IntervalIntegral.FundThmCalculus

namespace PfVerif
open Real MeasureTheory

/-- standard normal density -/
noncomputable def phi (x : ℝ) : ℝ := Real.exp (-(x ^ 2) / 2) / Real.sqrt (2 * π)

/-- standard normal distribution function, `Φ(x) = 1/2 + ∫₀ˣ φ` -/
noncomputable def Phi (x : ℝ) : ℝ := 1 / 2 + ∫ t in (0 : ℝ)..x, phi t

noncomputable instance : Transc ℝ where
  exp := Real.exp
  log := Real.log
  sqrt := Real.sqrt
  ncdf := Phi
  npdf := phi
  cos := Real.cos
  sin := Real.sin
  cbrt := fun x => x ^ ((1 : ℝ) / 3)

theorem phi_pos (x : ℝ) : 0 < phi x := by
  unfold phi; positivity

theorem phi_continuous : Continuous phi := by
  unfold phi; fun_prop

theorem phi_neg (x : ℝ) : phi (-x) = phi x := by
  unfold phi; simp

theorem Phi_hasDerivAt (x : ℝ) : HasDerivAt Phi (phi x) x := by
  unfold Phi
  have h := (phi_continuous.integral_hasStrictDerivAt (0 : ℝ) x).hasDerivAt
  simpa using h.const_add (1 / 2 : ℝ)

theorem Phi_zero : Phi 0 = 1 / 2 := by simp [Phi]

theorem Phi_continuous : Continuous Phi :=
  continuous_iff_continuousAt.2 fun x => (Phi_hasDerivAt x).continuousAt

theorem Phi_strictMono : StrictMono Phi :=
  strictMono_of_deriv_pos fun x => by rw [(Phi_hasDerivAt x).deriv]; exact phi_pos x

/-- `Φ(-x) = 1 - Φ(x)` -/
theorem Phi_neg (x : ℝ) : Phi (-x) = 1 - Phi x := by
  unfold Phi
  have h : ∫ t in (0 : ℝ)..(-x), phi t = -∫ t in (0 : ℝ)..x, phi t := by
    have := intervalIntegral.integral_comp_neg (a := 0) (b := x) phi
    simp only [phi_neg, neg_zero] at this
    rw [intervalIntegral.integral_symm (-x) 0, ← this]
  rw [h]; ring

end PfVerif
