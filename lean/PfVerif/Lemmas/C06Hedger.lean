/-
  C06, last sentence — at the level of the Hedger: the price `Hedger.price` quotes is minus the
  cash amount of (hedge portfolio − clause-adjusted payoff) on the simulated paths; registering a
  constant shift of the payoff raises it by exactly that constant; for the entropic risk measure
  it is the loss `Hedger.compute_loss` reports.

  About `hedgerPrice` / `hedgerLossOf` / `hedgerPriceN` / `hedgerLossN` (Model/HedgerPrice.lean),
  the composition  paths → `hedgerPL` per path → criterion / cash → `ensemble_mean`  that the
  driver op "hedger_price" executes.  The sample-level facts are those of Props/C06.
-/
import PfVerif.Model.HedgerPrice
import PfVerif.Lemmas.C01Hedger
import PfVerif.Props.C06

/-! ### helper lemmas (not property theorems) -/
namespace PfVerif.C06HedgerAux
open PfVerif PfVerif.C02Aux PfVerif.C01HedgerAux

theorem collectE_nil {β γ : Type} (f : β → Except Err γ) : collectE f [] = .ok [] := rfl

theorem collectE_cons_ok {β γ : Type} {f : β → Except Err γ} {b : β} {bs : List β} {y : γ}
    (h : f b = .ok y) : collectE f (b :: bs) = (collectE f bs).map (fun ys => y :: ys) := by
  simp only [collectE, h, ok_bind]
  cases collectE f bs <;> rfl

theorem collectE_cons_err {β γ : Type} {f : β → Except Err γ} {b : β} {bs : List β} {e : Err}
    (h : f b = .error e) : collectE f (b :: bs) = .error e := by
  simp only [collectE, h]
  rfl

/-- a successful collection consists of the successful values, in order -/
theorem collectE_ok_iff {β γ : Type} (f : β → Except Err γ) (bs : List β) (ys : List γ) :
    collectE f bs = .ok ys ↔ List.Forall₂ (fun b y => f b = .ok y) bs ys := by
  induction bs generalizing ys with
  | nil =>
    rw [collectE_nil]
    constructor
    · intro h; cases h; exact .nil
    · intro h; cases h; rfl
  | cons b bs ih =>
    cases hb : f b with
    | error e =>
      rw [collectE_cons_err hb]
      constructor
      · intro h; cases h
      · intro h
        cases h with
        | cons h1 _ => rw [hb] at h1; cases h1
    | ok y =>
      rw [collectE_cons_ok hb]
      cases hc : collectE f bs with
      | error e =>
        constructor
        · intro h; cases h
        · intro h
          cases h with
          | cons h1 h2 =>
            rw [← ih] at h2
            rw [hc] at h2
            cases h2
      | ok ys0 =>
        constructor
        · intro h
          have : ys = y :: ys0 := by
            simp only [Except.map] at h
            injection h with h
            exact h.symm
          subst this
          exact .cons hb ((ih ys0).1 hc)
        · intro h
          cases h with
          | cons h1 h2 =>
            rw [hb] at h1
            injection h1 with h1
            subst h1
            have := (ih _).2 h2
            rw [hc] at this
            injection this with this
            subst this
            rfl

theorem collectE_length {β γ : Type} {f : β → Except Err γ} {bs : List β} {ys : List γ}
    (h : collectE f bs = .ok ys) : ys.length = bs.length :=
  ((collectE_ok_iff f bs ys).1 h).length_eq.symm

/-- the collection succeeds exactly when every element does -/
theorem collectE_isOk_iff {β γ : Type} (f : β → Except Err γ) (bs : List β) :
    (∃ ys, collectE f bs = .ok ys) ↔ ∀ b ∈ bs, ∃ y, f b = .ok y := by
  induction bs with
  | nil => simp [collectE_nil]
  | cons b bs ih =>
    constructor
    · rintro ⟨ys, h⟩
      rw [collectE_ok_iff] at h
      cases h with
      | cons h1 h2 =>
        intro b' hb'
        rcases List.mem_cons.1 hb' with rfl | hb'
        · exact ⟨_, h1⟩
        · exact ih.1 ⟨_, (collectE_ok_iff _ _ _).2 h2⟩ b' hb'
    · intro h
      obtain ⟨y, hy⟩ := h b (by simp)
      obtain ⟨ys, hys⟩ := ih.2 (fun b' hb' => h b' (by simp [hb']))
      exact ⟨y :: ys, by rw [collectE_cons_ok hy, hys]; rfl⟩

/-- if `f'` is `f` followed by `u` on every element, the collections are related by `map u` -/
theorem collectE_map {β γ : Type} {f f' : β → Except Err γ} (u : γ → γ) (bs : List β)
    (h : ∀ b ∈ bs, f' b = (f b).map u) :
    collectE f' bs = (collectE f bs).map (List.map u) := by
  induction bs with
  | nil => rfl
  | cons b bs ih =>
    have hb := h b (by simp)
    have ih' := ih (fun b' hb' => h b' (by simp [hb']))
    cases hf : f b with
    | error e =>
      rw [hf] at hb
      rw [collectE_cons_err hf, collectE_cons_err (e := e) (by rw [hb]; rfl)]
      rfl
    | ok y =>
      rw [hf] at hb
      rw [collectE_cons_ok hf, collectE_cons_ok (y := u y) (by rw [hb]; rfl), ih']
      cases collectE f bs <;> rfl

/-- a successful collection along a permutation of the inputs is a permutation of the values -/
theorem collectE_perm {β γ : Type} (f : β → Except Err γ) {bs bs' : List β} (hp : bs.Perm bs') :
    ∀ ys, collectE f bs = .ok ys → ∃ ys', collectE f bs' = .ok ys' ∧ ys.Perm ys' := by
  induction hp with
  | nil => intro ys h; exact ⟨ys, h, List.Perm.refl _⟩
  | cons b _ ih =>
    intro ys h
    rw [collectE_ok_iff] at h
    cases h with
    | cons h1 h2 =>
      obtain ⟨ys', e, p⟩ := ih _ ((collectE_ok_iff _ _ _).2 h2)
      exact ⟨_ :: ys', by rw [collectE_cons_ok h1, e]; rfl, p.cons _⟩
  | swap b c l =>
    intro ys h
    rw [collectE_ok_iff] at h
    cases h with
    | cons h1 h2 =>
      cases h2 with
      | cons h2 h3 =>
        have e := (collectE_ok_iff _ _ _).2 h3
        exact ⟨_, by rw [collectE_cons_ok h2, collectE_cons_ok h1, e]; rfl, List.Perm.swap _ _ _⟩
  | trans _ _ ih1 ih2 =>
    intro ys h
    obtain ⟨ys1, e1, p1⟩ := ih1 ys h
    obtain ⟨ys2, e2, p2⟩ := ih2 ys1 e1
    exact ⟨ys2, e2, p1.trans p2⟩

theorem collectE_pair {β γ : Type} {f : β → Except Err γ} {a b : β} {x y : γ}
    (ha : f a = .ok x) (hb : f b = .ok y) : collectE f [a, b] = .ok [x, y] := by
  rw [collectE_cons_ok ha, collectE_cons_ok hb, collectE_nil]
  rfl

theorem map_ok {ε β γ : Type} (u : β → γ) (a : β) :
    (Except.ok a : Except ε β).map u = .ok (u a) := rfl

theorem map_error {ε β γ : Type} (u : β → γ) (e : ε) :
    (Except.error e : Except ε β).map u = .error e := rfl

end PfVerif.C06HedgerAux

namespace PfVerif.C06Hedger
open PfVerif PfVerif.C02Aux PfVerif.C01HedgerAux PfVerif.C06HedgerAux PfVerif.C04ERMAux
  PfVerif.C06Aux

/-! ### the sample handed to `cash` is (portfolio − clause-adjusted payoff), path by path -/

/-- one path: the P&L succeeds with `x` exactly when the portfolio value `v` and the payoff `Z`
(payoff function and clauses) both succeed and `x = v − Z` -/
theorem pathPL_iff (g : List ℝ → List ℝ) (fs : List (Feature ℝ)) (m : Market ℝ)
    (hs : List (HedgeInstr ℝ)) (p : PayoffSpec ℝ) (reg : List (String × Clause ℝ)) (first : Bool)
    (x : ℝ) :
    hedgerPL g fs m hs p reg first = .ok x ↔
      ∃ v Z, hedgerPortfolio g fs m hs first = .ok v ∧ derivPayoff p reg m.spot = .ok Z ∧
        x = v - Z := by
  constructor
  · exact C01Hedger.hedgerPL_eq_portfolio_sub_payoff g fs m hs p reg first x
  · rintro ⟨v, Z, hv, hZ, rfl⟩
    obtain ⟨x', hx'⟩ := (C01Hedger.hedgerPL_ok_iff g fs m hs p reg first).2 ⟨⟨v, hv⟩, ⟨Z, hZ⟩⟩
    obtain ⟨v', Z', hv', hZ', e⟩ :=
      C01Hedger.hedgerPL_eq_portfolio_sub_payoff g fs m hs p reg first x' hx'
    rw [hv] at hv'
    rw [hZ] at hZ'
    cases hv'
    cases hZ'
    rw [hx', e]

/-- **the batch of P&L values is the batch of portfolio values minus the batch of payoffs**
(`Hedger.compute_portfolio` and `derivative.payoff()` on the same paths), element by element, and
it is defined exactly when both are -/
theorem batchPL_iff (g : List ℝ → List ℝ) (fs : List (Feature ℝ)) (p : PayoffSpec ℝ)
    (reg : List (String × Clause ℝ)) (first : Bool) (paths : List (HedgePath ℝ)) (pls : List ℝ) :
    batchPL g fs p reg first paths = .ok pls ↔
      ∃ pf pay, batchPortfolio g fs first paths = .ok pf ∧ batchPayoff p reg paths = .ok pay ∧
        pls = List.zipWith (fun v z => v - z) pf pay := by
  unfold batchPL batchPortfolio batchPayoff
  simp only [collectE_ok_iff]
  constructor
  · intro h
    induction h with
    | nil => exact ⟨[], [], .nil, .nil, rfl⟩
    | cons h1 _ ih =>
      obtain ⟨v, Z, hv, hZ, rfl⟩ := (pathPL_iff _ _ _ _ _ _ _ _).1 h1
      obtain ⟨pf, pay, h3, h4, rfl⟩ := ih
      exact ⟨v :: pf, Z :: pay, .cons hv h3, .cons hZ h4, rfl⟩
  · rintro ⟨pf, pay, h1, h2, rfl⟩
    induction h1 generalizing pay with
    | nil => cases h2; exact .nil
    | cons hv _ ih =>
      cases h2 with
      | cons hZ h4 =>
        exact .cons ((pathPL_iff _ _ _ _ _ _ _ _).2 ⟨_, _, hv, hZ, rfl⟩) (ih _ h4)

/-- **`Hedger.price` is minus the cash amount of (hedge portfolio − payoff) on the simulated
paths.**  Whenever one evaluation of the price succeeds with `x`, `compute_portfolio` and
`derivative.payoff()` (clauses applied) succeed on every path, giving two samples of `N` = number
of paths values, the criterion's `cash` succeeds on their difference and `x` is minus that. -/
theorem hedgerPrice_eq (crit : Criterion ℝ) (g : List ℝ → List ℝ) (fs : List (Feature ℝ))
    (p : PayoffSpec ℝ) (reg : List (String × Clause ℝ)) (first : Bool)
    (paths : List (HedgePath ℝ)) (x : ℝ)
    (h : hedgerPrice crit g fs p reg first paths = .ok x) :
    ∃ pf pay c, batchPortfolio g fs first paths = .ok pf ∧ batchPayoff p reg paths = .ok pay ∧
      pf.length = paths.length ∧ pay.length = paths.length ∧
      crit.cash (List.zipWith (fun v z => v - z) pf pay) = .ok c ∧ x = -c := by
  unfold hedgerPrice at h
  obtain ⟨pls, h1, h'⟩ := bind_ok h
  obtain ⟨c, h2, h''⟩ := bind_ok h'
  obtain ⟨pf, pay, h3, h4, rfl⟩ := (batchPL_iff _ _ _ _ _ _ _).1 h1
  exact ⟨pf, pay, c, h3, h4, collectE_length h3, collectE_length h4, h2, (pure_ok h'').symm⟩

/-- … and conversely (so the statement above is the whole content of the price) -/
theorem hedgerPrice_of_parts (crit : Criterion ℝ) (g : List ℝ → List ℝ) (fs : List (Feature ℝ))
    (p : PayoffSpec ℝ) (reg : List (String × Clause ℝ)) (first : Bool)
    (paths : List (HedgePath ℝ)) (pf pay : List ℝ) (c : ℝ)
    (h1 : batchPortfolio g fs first paths = .ok pf) (h2 : batchPayoff p reg paths = .ok pay)
    (h3 : crit.cash (List.zipWith (fun v z => v - z) pf pay) = .ok c) :
    hedgerPrice crit g fs p reg first paths = .ok (-c) := by
  unfold hedgerPrice
  rw [(batchPL_iff _ _ _ _ _ _ _).2 ⟨pf, pay, h1, h2, rfl⟩, ok_bind, h3, ok_bind]
  rfl

/-- the link to the sample-level theorems of Props/C06: for a criterion with a closed-form `cash`
(`-self(input - target)`: expected shortfall, quadratic CVaR, entropic risk measure as real
functions) the Hedger's price is `priceOf` (`C06.price_eq_def`) applied to exactly the two samples
(`compute_portfolio`, `payoff()`) of the simulated paths -/
theorem hedgerPrice_closedForm_eq (L : List ℝ → ℝ) (g : List ℝ → List ℝ) (fs : List (Feature ℝ))
    (p : PayoffSpec ℝ) (reg : List (String × Clause ℝ)) (first : Bool)
    (paths : List (HedgePath ℝ)) (x : ℝ)
    (h : hedgerPrice (Criterion.closedForm L) g fs p reg first paths = .ok x) :
    ∃ pf pay, batchPortfolio g fs first paths = .ok pf ∧ batchPayoff p reg paths = .ok pay ∧
      pf.length = paths.length ∧ pay.length = paths.length ∧
      x = priceOf (cashNeg L) pf pay := by
  obtain ⟨pf, pay, c, h1, h2, h3, h4, h5, rfl⟩ := hedgerPrice_eq _ _ _ _ _ _ _ _ h
  refine ⟨pf, pay, h1, h2, h3, h4, ?_⟩
  simp only [Criterion.closedForm] at h5
  injection h5 with h5
  rw [C06.price_eq_def, h5]

/-- the same for one evaluation of `Hedger.compute_loss`: the criterion of (portfolio − payoff) -/
theorem hedgerLossOf_eq (crit : Criterion ℝ) (g : List ℝ → List ℝ) (fs : List (Feature ℝ))
    (p : PayoffSpec ℝ) (reg : List (String × Clause ℝ)) (first : Bool)
    (paths : List (HedgePath ℝ)) (x : ℝ)
    (h : hedgerLossOf crit g fs p reg first paths = .ok x) :
    ∃ pf pay, batchPortfolio g fs first paths = .ok pf ∧ batchPayoff p reg paths = .ok pay ∧
      pf.length = paths.length ∧ pay.length = paths.length ∧
      crit.loss (List.zipWith (fun v z => v - z) pf pay) = .ok x := by
  unfold hedgerLossOf at h
  obtain ⟨pls, h1, h'⟩ := bind_ok h
  obtain ⟨pf, pay, h3, h4, rfl⟩ := (batchPL_iff _ _ _ _ _ _ _).1 h1
  exact ⟨pf, pay, h3, h4, collectE_length h3, collectE_length h4, h'⟩

/-! ### the criteria of Model/Risk.lean as real functions -/

/-- the entropic risk measure's `cash` on a non-empty sample is the closed form `−ρ_a` -/
theorem erm_cash_eq (a : ℝ) (xs : List ℝ) (hxs : xs ≠ []) :
    (Criterion.entropicRiskMeasure a).cash xs = .ok (cashNeg (ermR a) xs) := by
  simp only [Criterion.entropicRiskMeasure]
  rw [C04ERM.erm_eq_def a xs hxs, ok_bind]
  rfl

theorem erm_cash_nil (a : ℝ) :
    (Criterion.entropicRiskMeasure a).cash [] = .error .runtimeError := rfl

/-- the entropic loss's `cash` (as coded, through `logsumexp`) is `−log(mean exp(−a x))/a` -/
theorem eloss_cash_eq (a : ℝ) (xs : List ℝ) (hxs : xs ≠ []) :
    (Criterion.entropicLoss a).cash xs = .ok (entropicLossCash a xs) :=
  C06.entropicLossCashStable_eq a xs hxs

theorem eloss_cash_nil (a : ℝ) :
    (Criterion.entropicLoss a).cash [] = .error .runtimeError := rfl

/-! ### a constant added to the payoff -/

/-- registering `p ↦ 1·p + k` LAST adds `k` to `derivative.payoff()` on every path (and keeps its
errors) -/
theorem derivPayoff_shift (p : PayoffSpec ℝ) (reg : List (String × Clause ℝ)) (n : String)
    (k : ℝ) (spot : List ℝ) :
    derivPayoff p (reg ++ [(n, .affine 1 k)]) spot = (derivPayoff p reg spot).map (· + k) := by
  unfold derivPayoff
  cases p.eval spot with
  | error e => rfl
  | ok z =>
    rw [ok_bind, ok_bind]
    show Except.ok _ = Except.ok _
    congr 1
    simp [applyClauses, List.foldl_append, Clause.apply]

/-- the same through `add_clause` with a name not yet registered (what the driver and the real
`add_clause` do: a new name goes last) -/
theorem derivPayoff_addClause_shift (p : PayoffSpec ℝ) (reg : List (String × Clause ℝ))
    (n : String) (hn : ∀ q ∈ reg, q.1 ≠ n) (k : ℝ) (spot : List ℝ) :
    derivPayoff p (addClause reg n (.affine 1 k)) spot = (derivPayoff p reg spot).map (· + k) := by
  have : addClause reg n (Clause.affine 1 k) = reg ++ [(n, .affine 1 k)] := by
    have h : reg.any (fun q => q.1 == n) = false := by
      simp only [List.any_eq_false, beq_iff_eq]; intro q hq; simpa using hn q hq
    simp [addClause, h]
  rw [this, derivPayoff_shift]

/-- the hedge does not see the payoff: the P&L of every path moves by exactly `−k`, for every
hedging module, feature list, instruments and costs (errors unchanged) -/
theorem hedgerPL_shift (g : List ℝ → List ℝ) (fs : List (Feature ℝ)) (m : Market ℝ)
    (hs : List (HedgeInstr ℝ)) (p : PayoffSpec ℝ) (reg : List (String × Clause ℝ)) (first : Bool)
    (n : String) (k : ℝ) :
    hedgerPL g fs m hs p (reg ++ [(n, .affine 1 k)]) first
      = (hedgerPL g fs m hs p reg first).map (fun x => x - k) := by
  unfold hedgerPL
  rw [derivPayoff_shift]
  cases hedgerSpotUnit g fs m hs with
  | error e => rfl
  | ok su =>
    rw [ok_bind, ok_bind]
    cases derivPayoff p reg m.spot with
    | error e => rfl
    | ok z =>
      rw [map_ok, ok_bind, ok_bind]
      show Except.ok _ = Except.ok _
      congr 1
      rw [plPath_sub_payoff, plPath_sub_payoff (z := z)]
      ring

theorem batchPL_shift (g : List ℝ → List ℝ) (fs : List (Feature ℝ)) (p : PayoffSpec ℝ)
    (reg : List (String × Clause ℝ)) (first : Bool) (paths : List (HedgePath ℝ)) (n : String)
    (k : ℝ) :
    batchPL g fs p (reg ++ [(n, .affine 1 k)]) first paths
      = (batchPL g fs p reg first paths).map (List.map (fun x => x - k)) := by
  unfold batchPL
  exact collectE_map (fun x => x - k) paths (fun q _ => hedgerPL_shift g fs q.market q.hedges p reg first n k)

/-- `cash` is translation equivariant on samples of `N` values, errors included -/
def CashEquivariantOn (cash : List ℝ → Except Err ℝ) (N : ℕ) : Prop :=
  ∀ (xs : List ℝ) (c : ℝ), xs.length = N →
    cash (xs.map (fun x => x - c)) = (cash xs).map (fun r => r - c)

/-- **adding a constant `k` to the payoff raises the price by exactly `k`** (one evaluation), for
every criterion whose `cash` is translation equivariant on samples of `N` = number of paths
values — and for every hedging module `g`, feature list, hedging instruments, cost rates, payoff
kind and previously registered clauses.  Stated as an equation of results: the shifted derivative
is priced exactly when the original one is. -/
theorem hedgerPrice_shift (crit : Criterion ℝ) (g : List ℝ → List ℝ) (fs : List (Feature ℝ))
    (p : PayoffSpec ℝ) (reg : List (String × Clause ℝ)) (first : Bool)
    (paths : List (HedgePath ℝ)) (hc : CashEquivariantOn crit.cash paths.length) (n : String)
    (k : ℝ) :
    hedgerPrice crit g fs p (reg ++ [(n, .affine 1 k)]) first paths
      = (hedgerPrice crit g fs p reg first paths).map (· + k) := by
  unfold hedgerPrice
  rw [batchPL_shift]
  cases h : batchPL g fs p reg first paths with
  | error e => rfl
  | ok pls =>
    rw [map_ok, ok_bind, ok_bind, hc pls k (collectE_length h)]
    cases crit.cash pls with
    | error e => rfl
    | ok c =>
      rw [map_ok, ok_bind, ok_bind]
      show Except.ok _ = Except.ok _
      congr 1
      ring

theorem ensembleMean_map_add (vals : List ℝ) (k : ℝ) :
    ensembleMean (vals.map (· + k)) = (ensembleMean vals).map (· + k) := by
  by_cases h : vals = []
  · subst h; rfl
  · rw [C06.ensembleMean_shift vals h k, C06.ensembleMean_mean vals h]
    rfl

/-- **the same for `n_times` independently simulated batches** (`ensemble_mean` of the prices):
the quoted price rises by exactly `k` -/
theorem hedgerPriceN_shift (crit : Criterion ℝ) (g : List ℝ → List ℝ) (fs : List (Feature ℝ))
    (p : PayoffSpec ℝ) (reg : List (String × Clause ℝ)) (first : Bool)
    (batches : List (List (HedgePath ℝ)))
    (hc : ∀ b ∈ batches, CashEquivariantOn crit.cash b.length) (n : String) (k : ℝ) :
    hedgerPriceN crit g fs p (reg ++ [(n, .affine 1 k)]) first batches
      = (hedgerPriceN crit g fs p reg first batches).map (· + k) := by
  unfold hedgerPriceN
  rw [collectE_map (· + k) batches
    (fun b hb => hedgerPrice_shift crit g fs p reg first b (hc b hb) n k)]
  cases collectE (hedgerPrice crit g fs p reg first) batches with
  | error e => rfl
  | ok vals =>
    rw [map_ok, ok_bind, ok_bind]
    exact ensembleMean_map_add vals k

/-! ### the built-in criteria are translation equivariant -/

theorem erm_cashEquivariant (a : ℝ) (ha : a ≠ 0) (N : ℕ) :
    CashEquivariantOn (Criterion.entropicRiskMeasure a).cash N := by
  intro xs c _
  by_cases h : xs = []
  · subst h; rfl
  · rw [erm_cash_eq a xs h, erm_cash_eq a _ (by simpa using h),
      C06.cash_erm_equivariant a ha xs h c]
    rfl

theorem es_cashEquivariant {kk N : ℕ} (h1 : 1 ≤ kk) (hk : kk ≤ N) :
    CashEquivariantOn (Criterion.expectedShortfall kk).cash N := by
  intro xs c hl
  simp only [Criterion.expectedShortfall]
  rw [C06.cash_es_equivariant xs h1 (hl ▸ hk) c]
  rfl

theorem eloss_cashEquivariant (a : ℝ) (ha : a ≠ 0) (N : ℕ) :
    CashEquivariantOn (Criterion.entropicLoss a).cash N := by
  intro xs c _
  by_cases h : xs = []
  · subst h; rfl
  · rw [eloss_cash_eq a xs h, eloss_cash_eq a _ (by simpa using h),
      C06.cash_eloss_equivariant a ha xs h c]
    rfl

theorem qcvar_cashEquivariant (lam : ℝ) (hl : 0 < lam) {N : ℕ} (hN : 1 ≤ N) :
    CashEquivariantOn (Criterion.closedForm (qcvarR lam)).cash N := by
  intro xs c hlen
  have h : xs ≠ [] := by rintro rfl; simp at hlen; omega
  simp only [Criterion.closedForm]
  rw [C06.cash_qcvar_equivariant lam hl xs h c]
  rfl

private theorem meanR_map_sub (xs : List ℝ) (hxs : xs ≠ []) (c : ℝ) :
    meanR (xs.map (fun x => x - c)) = meanR xs - c := by
  have hN := length_pos_real xs hxs
  unfold meanR
  rw [_root_.PfVerif.sumL_eq_sum, _root_.PfVerif.sumL_eq_sum, map_sub_eq_map_add_neg, sum_map_add_const, List.length_map]
  field_simp
  ring

/-- **quadratic CVaR as coded** (centring at the mean, bracket, bisection — any `tol`,
`precision`, `max_iter`): the centred sample, hence the whole root search, does not see a constant
shift; the result moves by exactly the shift, errors unchanged -/
theorem quadraticCvar1_shift (lam tol precision : ℝ) (maxIter : ℕ) (xs : List ℝ) (hxs : xs ≠ [])
    (c : ℝ) :
    quadraticCvar1 lam tol precision maxIter (xs.map (fun x => x - c))
      = (quadraticCvar1 lam tol precision maxIter xs).map (· + c) := by
  have hcen : (xs.map (fun x => x - c)).map (fun x => x - (meanR xs - c))
      = xs.map (fun x => x - meanR xs) := by
    rw [List.map_map]
    apply List.map_congr_left
    intro x _
    simp only [Function.comp]
    ring
  unfold quadraticCvar1 quadraticCvar
  simp only [List.map_cons, List.map_nil, List.zipWith_cons_cons, List.zipWith_nil_right,
    meanR_map_sub xs hxs c, hcen]
  generalize bisect _ _ _ _ precision maxIter = b
  cases b with
  | error e => rfl
  | ok omegas =>
    cases omegas with
    | nil => rfl
    | cons w rest =>
      simp only [List.zip_cons_cons, List.zip_nil_right, List.zipWith_cons_cons,
        List.zipWith_nil_right, map_ok]
      congr 1
      ring

/-- … so the coded `QuadraticCVaR.cash = -quadratic_cvar(input - target)` is translation
equivariant on every non-empty sample, for every `lam`, bracket tolerance, precision and iteration
budget (no assumption that the bisection found the root) -/
theorem qcvarCoded_cashEquivariant (lam tol precision : ℝ) (maxIter : ℕ) {N : ℕ} (hN : 1 ≤ N) :
    CashEquivariantOn (Criterion.quadraticCVaR lam tol precision maxIter).cash N := by
  intro xs c hlen
  have h : xs ≠ [] := by rintro rfl; simp at hlen; omega
  simp only [Criterion.quadraticCVaR]
  rw [quadraticCvar1_shift lam tol precision maxIter xs h c]
  cases quadraticCvar1 lam tol precision maxIter xs with
  | error e => rfl
  | ok r =>
    show Except.ok (-(r + c)) = Except.ok (-r - c)
    congr 1
    ring

/-- **entropic risk measure**: shifting the payoff by `k` (clause registered last) raises the
price by `k`; every hedger, every batch of paths -/
theorem hedgerPrice_shift_erm (a : ℝ) (ha : a ≠ 0) (g : List ℝ → List ℝ) (fs : List (Feature ℝ))
    (p : PayoffSpec ℝ) (reg : List (String × Clause ℝ)) (first : Bool)
    (paths : List (HedgePath ℝ)) (n : String) (k : ℝ) :
    hedgerPrice (Criterion.entropicRiskMeasure a) g fs p (reg ++ [(n, .affine 1 k)]) first paths
      = (hedgerPrice (Criterion.entropicRiskMeasure a) g fs p reg first paths).map (· + k) :=
  hedgerPrice_shift _ g fs p reg first paths (erm_cashEquivariant a ha _) n k

/-- **expected shortfall** (`1 ≤ k' ≤ N`, `k' = ceil(p N)`) -/
theorem hedgerPrice_shift_es {kk : ℕ} (g : List ℝ → List ℝ) (fs : List (Feature ℝ))
    (p : PayoffSpec ℝ) (reg : List (String × Clause ℝ)) (first : Bool)
    (paths : List (HedgePath ℝ)) (h1 : 1 ≤ kk) (hk : kk ≤ paths.length) (n : String) (k : ℝ) :
    hedgerPrice (Criterion.expectedShortfall kk) g fs p (reg ++ [(n, .affine 1 k)]) first paths
      = (hedgerPrice (Criterion.expectedShortfall kk) g fs p reg first paths).map (· + k) :=
  hedgerPrice_shift _ g fs p reg first paths (es_cashEquivariant h1 hk) n k

/-- **entropic loss** -/
theorem hedgerPrice_shift_eloss (a : ℝ) (ha : a ≠ 0) (g : List ℝ → List ℝ)
    (fs : List (Feature ℝ)) (p : PayoffSpec ℝ) (reg : List (String × Clause ℝ)) (first : Bool)
    (paths : List (HedgePath ℝ)) (n : String) (k : ℝ) :
    hedgerPrice (Criterion.entropicLoss a) g fs p (reg ++ [(n, .affine 1 k)]) first paths
      = (hedgerPrice (Criterion.entropicLoss a) g fs p reg first paths).map (· + k) :=
  hedgerPrice_shift _ g fs p reg first paths (eloss_cashEquivariant a ha _) n k

/-- **quadratic CVaR** (the infimum `qcvarR`, i.e. the value of the code with an exact root,
`C04ERM.qcvar_centred`; `cash = −risk`) -/
theorem hedgerPrice_shift_qcvar (lam : ℝ) (hl : 0 < lam) (g : List ℝ → List ℝ)
    (fs : List (Feature ℝ)) (p : PayoffSpec ℝ) (reg : List (String × Clause ℝ)) (first : Bool)
    (paths : List (HedgePath ℝ)) (hne : paths ≠ []) (n : String) (k : ℝ) :
    hedgerPrice (Criterion.closedForm (qcvarR lam)) g fs p (reg ++ [(n, .affine 1 k)]) first paths
      = (hedgerPrice (Criterion.closedForm (qcvarR lam)) g fs p reg first paths).map (· + k) :=
  hedgerPrice_shift _ g fs p reg first paths
    (qcvar_cashEquivariant lam hl (List.length_pos_of_ne_nil hne)) n k

/-- **quadratic CVaR as coded** (`quadratic_cvar`'s centring + bisection, whatever it returns) -/
theorem hedgerPrice_shift_qcvar_coded (lam tol precision : ℝ) (maxIter : ℕ)
    (g : List ℝ → List ℝ) (fs : List (Feature ℝ)) (p : PayoffSpec ℝ)
    (reg : List (String × Clause ℝ)) (first : Bool) (paths : List (HedgePath ℝ))
    (hne : paths ≠ []) (n : String) (k : ℝ) :
    hedgerPrice (Criterion.quadraticCVaR lam tol precision maxIter) g fs p
        (reg ++ [(n, .affine 1 k)]) first paths
      = (hedgerPrice (Criterion.quadraticCVaR lam tol precision maxIter) g fs p reg first
          paths).map (· + k) :=
  hedgerPrice_shift _ g fs p reg first paths
    (qcvarCoded_cashEquivariant lam tol precision maxIter (List.length_pos_of_ne_nil hne)) n k

/-- the four criteria with `n_times` batches (`n_times ≥ 1`; for no batch at all both sides are
`torch.stack([])`'s error) -/
theorem hedgerPriceN_shift_builtin (a lam : ℝ) (ha : a ≠ 0) (hl : 0 < lam) {kk : ℕ}
    (g : List ℝ → List ℝ) (fs : List (Feature ℝ)) (p : PayoffSpec ℝ)
    (reg : List (String × Clause ℝ)) (first : Bool) (batches : List (List (HedgePath ℝ)))
    (h1 : 1 ≤ kk) (hk : ∀ b ∈ batches, kk ≤ b.length) (n : String) (k : ℝ) :
    (hedgerPriceN (Criterion.entropicRiskMeasure a) g fs p (reg ++ [(n, .affine 1 k)]) first batches
      = (hedgerPriceN (Criterion.entropicRiskMeasure a) g fs p reg first batches).map (· + k)) ∧
    (hedgerPriceN (Criterion.expectedShortfall kk) g fs p (reg ++ [(n, .affine 1 k)]) first batches
      = (hedgerPriceN (Criterion.expectedShortfall kk) g fs p reg first batches).map (· + k)) ∧
    (hedgerPriceN (Criterion.entropicLoss a) g fs p (reg ++ [(n, .affine 1 k)]) first batches
      = (hedgerPriceN (Criterion.entropicLoss a) g fs p reg first batches).map (· + k)) ∧
    (hedgerPriceN (Criterion.closedForm (qcvarR lam)) g fs p (reg ++ [(n, .affine 1 k)]) first batches
      = (hedgerPriceN (Criterion.closedForm (qcvarR lam)) g fs p reg first batches).map (· + k)) :=
  ⟨hedgerPriceN_shift _ g fs p reg first batches (fun _ _ => erm_cashEquivariant a ha _) n k,
   hedgerPriceN_shift _ g fs p reg first batches (fun b hb => es_cashEquivariant h1 (hk b hb)) n k,
   hedgerPriceN_shift _ g fs p reg first batches (fun _ _ => eloss_cashEquivariant a ha _) n k,
   hedgerPriceN_shift _ g fs p reg first batches
     (fun b hb => qcvar_cashEquivariant lam hl (le_trans h1 (hk b hb))) n k⟩

/-- the shift registered through `add_clause` under a name not yet in use (a new name goes last) -/
theorem hedgerPriceN_addClause_shift (crit : Criterion ℝ) (g : List ℝ → List ℝ)
    (fs : List (Feature ℝ)) (p : PayoffSpec ℝ) (reg : List (String × Clause ℝ)) (first : Bool)
    (batches : List (List (HedgePath ℝ)))
    (hc : ∀ b ∈ batches, CashEquivariantOn crit.cash b.length) (n : String)
    (hn : ∀ q ∈ reg, q.1 ≠ n) (k : ℝ) :
    hedgerPriceN crit g fs p (addClause reg n (.affine 1 k)) first batches
      = (hedgerPriceN crit g fs p reg first batches).map (· + k) := by
  have : addClause reg n (Clause.affine 1 k) = reg ++ [(n, .affine 1 k)] := by
    have h : reg.any (fun q => q.1 == n) = false := by
      simp only [List.any_eq_false, beq_iff_eq]; intro q hq; simpa using hn q hq
    simp [addClause, h]
  rw [this, hedgerPriceN_shift crit g fs p reg first batches hc n k]

/-! ### entropic risk measure: price = loss -/

/-- **for the entropic risk measure `Hedger.price` equals `Hedger.compute_loss`** on the same
simulated paths — as results: the same value, or the same error -/
theorem hedgerPrice_erm_eq_loss (a : ℝ) (g : List ℝ → List ℝ) (fs : List (Feature ℝ))
    (p : PayoffSpec ℝ) (reg : List (String × Clause ℝ)) (first : Bool)
    (paths : List (HedgePath ℝ)) :
    hedgerPrice (Criterion.entropicRiskMeasure a) g fs p reg first paths
      = hedgerLossOf (Criterion.entropicRiskMeasure a) g fs p reg first paths := by
  unfold hedgerPrice hedgerLossOf
  cases batchPL g fs p reg first paths with
  | error e => rfl
  | ok pls =>
    rw [ok_bind, ok_bind]
    simp only [Criterion.entropicRiskMeasure]
    cases entropicRisk a pls with
    | error e => rfl
    | ok r =>
      show Except.ok (-(-r)) = Except.ok r
      rw [neg_neg]

/-- … with `n_times` batches -/
theorem hedgerPriceN_erm_eq_loss (a : ℝ) (g : List ℝ → List ℝ) (fs : List (Feature ℝ))
    (p : PayoffSpec ℝ) (reg : List (String × Clause ℝ)) (first : Bool)
    (batches : List (List (HedgePath ℝ))) :
    hedgerPriceN (Criterion.entropicRiskMeasure a) g fs p reg first batches
      = hedgerLossN (Criterion.entropicRiskMeasure a) g fs p reg first batches := by
  unfold hedgerPriceN hedgerLossN
  have : hedgerPrice (Criterion.entropicRiskMeasure a) g fs p reg first
      = hedgerLossOf (Criterion.entropicRiskMeasure a) g fs p reg first :=
    funext (hedgerPrice_erm_eq_loss a g fs p reg first)
  rw [this]

/-- … and the common value is the entropic risk `ρ_a` of (portfolio − payoff), which is `priceOf`
of the two samples (`C06.price_erm_eq_loss`) -/
theorem hedgerPrice_erm_value (a : ℝ) (g : List ℝ → List ℝ) (fs : List (Feature ℝ))
    (p : PayoffSpec ℝ) (reg : List (String × Clause ℝ)) (first : Bool)
    (paths : List (HedgePath ℝ)) (hne : paths ≠ []) (pf pay : List ℝ)
    (h1 : batchPortfolio g fs first paths = .ok pf) (h2 : batchPayoff p reg paths = .ok pay) :
    hedgerPrice (Criterion.entropicRiskMeasure a) g fs p reg first paths
        = .ok (priceOf (cashNeg (ermR a)) pf pay) ∧
    hedgerLossOf (Criterion.entropicRiskMeasure a) g fs p reg first paths
        = .ok (ermR a (List.zipWith (fun v z => v - z) pf pay)) := by
  have hz : List.zipWith (fun v z => v - z) pf pay ≠ [] := by
    intro h
    have := congrArg List.length h
    simp only [List.length_zipWith, collectE_length h1, collectE_length h2, Nat.min_self,
      List.length_nil] at this
    exact hne (List.length_eq_zero_iff.1 this)
  have hp := hedgerPrice_of_parts (Criterion.entropicRiskMeasure a) g fs p reg first paths pf pay _
    h1 h2 (erm_cash_eq a _ hz)
  refine ⟨by rw [hp]; rfl, ?_⟩
  rw [← hedgerPrice_erm_eq_loss, hp, ← C06.price_erm_eq_loss]
  rfl

/-- closed-form criteria (expected shortfall, quadratic CVaR): price = loss as well -/
theorem hedgerPrice_closedForm_eq_loss (L : List ℝ → ℝ) (g : List ℝ → List ℝ)
    (fs : List (Feature ℝ)) (p : PayoffSpec ℝ) (reg : List (String × Clause ℝ)) (first : Bool)
    (paths : List (HedgePath ℝ)) :
    hedgerPrice (Criterion.closedForm L) g fs p reg first paths
      = hedgerLossOf (Criterion.closedForm L) g fs p reg first paths := by
  unfold hedgerPrice hedgerLossOf
  cases batchPL g fs p reg first paths with
  | error e => rfl
  | ok pls =>
    show Except.ok (-(cashNeg L pls)) = Except.ok (L pls)
    simp [cashNeg]

/-! ### when the price is defined -/

/-- one evaluation of the price is defined exactly when the P&L of EVERY path is and the
criterion's `cash` accepts the resulting sample -/
theorem hedgerPrice_ok_iff (crit : Criterion ℝ) (g : List ℝ → List ℝ) (fs : List (Feature ℝ))
    (p : PayoffSpec ℝ) (reg : List (String × Clause ℝ)) (first : Bool)
    (paths : List (HedgePath ℝ)) :
    (∃ x, hedgerPrice crit g fs p reg first paths = .ok x) ↔
      (∀ q ∈ paths, ∃ y, hedgerPL g fs q.market q.hedges p reg first = .ok y) ∧
      ∀ pls, batchPL g fs p reg first paths = .ok pls → ∃ c, crit.cash pls = .ok c := by
  constructor
  · rintro ⟨x, h⟩
    unfold hedgerPrice at h
    obtain ⟨pls, h1, h'⟩ := bind_ok h
    obtain ⟨c, h2, _⟩ := bind_ok h'
    refine ⟨(collectE_isOk_iff _ _).1 ⟨pls, h1⟩, ?_⟩
    intro pls' h3
    unfold batchPL at h1 h3
    rw [h1] at h3
    cases h3
    exact ⟨c, h2⟩
  · rintro ⟨h1, h2⟩
    obtain ⟨pls, hp⟩ := (collectE_isOk_iff _ _).2 h1
    obtain ⟨c, hc⟩ := h2 pls hp
    refine ⟨-c, ?_⟩
    unfold hedgerPrice
    unfold batchPL
    rw [hp, ok_bind, hc, ok_bind]
    rfl

/-- an error on any one path is an error of the price, whatever the criterion -/
theorem hedgerPrice_error_of_path (crit : Criterion ℝ) (g : List ℝ → List ℝ)
    (fs : List (Feature ℝ)) (p : PayoffSpec ℝ) (reg : List (String × Clause ℝ)) (first : Bool)
    (paths : List (HedgePath ℝ)) (q : HedgePath ℝ) (hq : q ∈ paths) (e : Err)
    (he : hedgerPL g fs q.market q.hedges p reg first = .error e) :
    ∃ e', hedgerPrice crit g fs p reg first paths = .error e' := by
  cases h : hedgerPrice crit g fs p reg first paths with
  | error e' => exact ⟨e', rfl⟩
  | ok x =>
    obtain ⟨y, hy⟩ := ((hedgerPrice_ok_iff crit g fs p reg first paths).1 ⟨x, h⟩).1 q hq
    rw [he] at hy
    cases hy

/-- expected shortfall: defined exactly when every path's P&L is -/
theorem hedgerPrice_es_ok_iff (kk : ℕ) (g : List ℝ → List ℝ) (fs : List (Feature ℝ))
    (p : PayoffSpec ℝ) (reg : List (String × Clause ℝ)) (first : Bool)
    (paths : List (HedgePath ℝ)) :
    (∃ x, hedgerPrice (Criterion.expectedShortfall kk) g fs p reg first paths = .ok x) ↔
      ∀ q ∈ paths, ∃ y, hedgerPL g fs q.market q.hedges p reg first = .ok y := by
  rw [hedgerPrice_ok_iff]
  exact ⟨fun h => h.1, fun h => ⟨h, fun pls _ => ⟨_, rfl⟩⟩⟩

/-- entropic risk measure / entropic loss: defined exactly when there is at least one path and
every path's P&L is defined -/
theorem hedgerPrice_erm_ok_iff (a : ℝ) (g : List ℝ → List ℝ) (fs : List (Feature ℝ))
    (p : PayoffSpec ℝ) (reg : List (String × Clause ℝ)) (first : Bool)
    (paths : List (HedgePath ℝ)) :
    ((∃ x, hedgerPrice (Criterion.entropicRiskMeasure a) g fs p reg first paths = .ok x) ↔
      paths ≠ [] ∧ ∀ q ∈ paths, ∃ y, hedgerPL g fs q.market q.hedges p reg first = .ok y) ∧
    ((∃ x, hedgerPrice (Criterion.entropicLoss a) g fs p reg first paths = .ok x) ↔
      paths ≠ [] ∧ ∀ q ∈ paths, ∃ y, hedgerPL g fs q.market q.hedges p reg first = .ok y) := by
  have key : ∀ crit : Criterion ℝ, (∀ xs, xs ≠ [] → ∃ c, crit.cash xs = .ok c) →
      (crit.cash [] = .error .runtimeError) →
      ((∃ x, hedgerPrice crit g fs p reg first paths = .ok x) ↔
        paths ≠ [] ∧ ∀ q ∈ paths, ∃ y, hedgerPL g fs q.market q.hedges p reg first = .ok y) := by
    intro crit hok hnil
    rw [hedgerPrice_ok_iff]
    constructor
    · rintro ⟨h1, h2⟩
      refine ⟨?_, h1⟩
      rintro rfl
      obtain ⟨c, hc⟩ := h2 [] rfl
      rw [hnil] at hc
      cases hc
    · rintro ⟨hne, h1⟩
      refine ⟨h1, fun pls hp => hok pls ?_⟩
      rintro rfl
      have := collectE_length hp
      exact hne (List.length_eq_zero_iff.1 this.symm)
  exact ⟨key _ (fun xs h => ⟨_, erm_cash_eq a xs h⟩) (erm_cash_nil a),
    key _ (fun xs h => ⟨_, eloss_cash_eq a xs h⟩) (eloss_cash_nil a)⟩

/-! ### the order of the paths does not matter -/

/-- a price that is defined does not depend on the order of the simulated paths, for every
criterion whose `cash` is a function of the sample as a multiset -/
theorem hedgerPrice_perm (crit : Criterion ℝ)
    (hperm : ∀ xs ys : List ℝ, xs.Perm ys → crit.cash xs = crit.cash ys)
    (g : List ℝ → List ℝ) (fs : List (Feature ℝ)) (p : PayoffSpec ℝ)
    (reg : List (String × Clause ℝ)) (first : Bool) (paths paths' : List (HedgePath ℝ))
    (hp : paths.Perm paths') (x : ℝ) (h : hedgerPrice crit g fs p reg first paths = .ok x) :
    hedgerPrice crit g fs p reg first paths' = .ok x := by
  unfold hedgerPrice at h ⊢
  obtain ⟨pls, h1, h'⟩ := bind_ok h
  obtain ⟨pls', h2, pp⟩ := collectE_perm _ hp pls h1
  unfold batchPL
  rw [h2, ok_bind, ← hperm pls pls' pp]
  exact h'

theorem es_perm (kk : ℕ) (xs ys : List ℝ) (h : xs.Perm ys) : es kk xs = es kk ys := by
  have : sortL ys = sortL xs :=
    sortL_eq_of_perm_pairwise ((sortL_perm xs).trans h) (sortL_pairwise xs)
  rw [C04ES.es_eq, C04ES.es_eq, this]

theorem ermR_perm (a : ℝ) (xs ys : List ℝ) (h : xs.Perm ys) : ermR a xs = ermR a ys := by
  unfold ermR
  rw [(h.map _).sum_eq, h.length_eq]

/-- expected shortfall and entropic risk measure -/
theorem hedgerPrice_perm_es_erm (kk : ℕ) (a : ℝ) (g : List ℝ → List ℝ) (fs : List (Feature ℝ))
    (p : PayoffSpec ℝ) (reg : List (String × Clause ℝ)) (first : Bool)
    (paths paths' : List (HedgePath ℝ)) (hp : paths.Perm paths') (x : ℝ) :
    (hedgerPrice (Criterion.expectedShortfall kk) g fs p reg first paths = .ok x →
      hedgerPrice (Criterion.expectedShortfall kk) g fs p reg first paths' = .ok x) ∧
    (hedgerPrice (Criterion.entropicRiskMeasure a) g fs p reg first paths = .ok x →
      hedgerPrice (Criterion.entropicRiskMeasure a) g fs p reg first paths' = .ok x) := by
  constructor
  · apply hedgerPrice_perm _ _ g fs p reg first paths paths' hp x
    intro xs ys h
    simp only [Criterion.expectedShortfall, cashNeg, es_perm kk xs ys h]
  · apply hedgerPrice_perm _ _ g fs p reg first paths paths' hp x
    intro xs ys h
    by_cases hx : xs = []
    · subst hx; rw [List.nil_perm.1 h]
    · have hy : ys ≠ [] := fun e => hx (List.perm_nil.1 (e ▸ h))
      rw [erm_cash_eq a xs hx, erm_cash_eq a ys hy]
      simp only [cashNeg, ermR_perm a xs ys h]

/-! ### non-vacuity: two paths, two hedging instruments, costs, a cap clause, ES with `k = 1`

Path 1 is the example of Lemmas/C01Hedger.lean (`H = 2`: a primary instrument and a listed
derivative priced `2 S + 1` on another underlier, cost rates `1/2`, `1/4`, module `[s] ↦ [s, 2 s]`
on `underlier_spot`, European call of strike 1 capped at 1): P&L `−5/2`.  Path 2 is the same
hedger on the market `[1, 1, 2]` / `[1, 2, 2]`: portfolio `3`, payoff `1`, P&L `2`. -/

open PfVerif.C01Hedger in
noncomputable def exM2 : Market ℝ := ⟨[1, 1, 2], [], [], [], 1, 1, []⟩
noncomputable def exHs2 : List (HedgeInstr ℝ) :=
  [⟨.primary [1, 1, 2], 1 / 2⟩, ⟨.listed 2 1 [1, 2, 2], 1 / 4⟩]
open PfVerif.C01Hedger in
noncomputable def exPaths : List (HedgePath ℝ) := [⟨exM, exHs⟩, ⟨exM2, exHs2⟩]

open PfVerif.C01Hedger in
theorem ex_spotUnit2 : hedgerSpotUnit exG exFs exM2 exHs2
    = .ok ([[1, 1, 2], [3, 5, 5]], [[1, 1, 1], [2, 2, 2]]) := by
  simp [hedgerSpotUnit, exG, exFs, exM2, exHs2, stackPrices, nSteps, PriceSrc.prices, computeHedge,
    Feature.stateDependent, BaseFeature.stateDependent, inputsAll, Feature.getAll,
    BaseFeature.getAll, logIf, dupLast, transposeHT, colsFrom, colAt, idx, bind, Except.bind, pure,
    Except.pure]
  norm_num

open PfVerif.C01Hedger in
theorem ex_path2 : hedgerPortfolio exG exFs exM2 exHs2 true = .ok 3 ∧
    derivPayoff exP exReg exM2.spot = .ok 1 ∧
    hedgerPL exG exFs exM2 exHs2 exP exReg true = .ok 2 := by
  have h1 : hedgerPortfolio exG exFs exM2 exHs2 true = .ok 3 := by
    unfold hedgerPortfolio
    rw [ex_spotUnit2, ok_bind]
    simp [exHs2, plPath, gains1, cost1, first1, zipWith3L, sumL, mulL, initL, diffL, tailL, absS,
      pure, Except.pure]
    norm_num
  have h2 : derivPayoff exP exReg exM2.spot = .ok 1 := by
    simp [derivPayoff, exReg, exP, exM2, PayoffSpec.eval, europeanPayoff, lastL, reluS,
      applyClauses, Clause.apply, bind, Except.bind, pure, Except.pure]
    norm_num
  refine ⟨h1, h2, ?_⟩
  rw [pathPL_iff]
  exact ⟨3, 1, h1, h2, by norm_num⟩

open PfVerif.C01Hedger in
/-- the P&L sample of the two paths: the first path loses `5/2`, the second gains `2` -/
theorem ex_batchPL : batchPL exG exFs exP exReg true exPaths = .ok [-5 / 2, 2] := by
  unfold batchPL exPaths
  exact collectE_pair ex_hedgerPL_uses_clause_payoff.1 ex_path2.2.2

open PfVerif.C01Hedger in
/-- **the price of the example**: expected shortfall with `k = 1` of `N = 2` is the worst
outcome's loss, `5/2` (= the loss `compute_loss` reports); with the payoff shifted by `k = 1`
through a clause registered last — after the cap — the price is `7/2` -/
theorem ex_price :
    hedgerPrice (Criterion.expectedShortfall 1) exG exFs exP exReg true exPaths = .ok (5 / 2) ∧
    hedgerLossOf (Criterion.expectedShortfall 1) exG exFs exP exReg true exPaths = .ok (5 / 2) ∧
    hedgerPrice (Criterion.expectedShortfall 1) exG exFs exP (exReg ++ [("shift", .affine 1 1)])
      true exPaths = .ok (7 / 2) := by
  have hs : sortL [-(5 / 2 : ℝ), 2] = [-(5 / 2), 2] :=
    sortL_eq_of_perm_pairwise (List.Perm.refl _) (by norm_num)
  have h1 : hedgerPrice (Criterion.expectedShortfall 1) exG exFs exP exReg true exPaths
      = .ok (5 / 2) := by
    unfold hedgerPrice
    rw [ex_batchPL, ok_bind]
    show Except.ok (-(cashNeg (es 1) [-5 / 2, 2])) = Except.ok (5 / 2)
    congr 1
    norm_num [cashNeg, C04ES.es_eq, hs]
  refine ⟨h1, ?_, ?_⟩
  · have := hedgerPrice_closedForm_eq_loss (es 1) exG exFs exP exReg true exPaths
    exact this ▸ h1
  · rw [hedgerPrice_shift_es exG exFs exP exReg true exPaths (le_refl 1) (by simp [exPaths])
      "shift" 1, h1, map_ok]
    congr 1
    norm_num

open PfVerif.C01Hedger in
/-- the shifted price computed directly from the model (not through the shift theorem): the clause
list `[cap 1, affine 1 1]` turns the payoffs `[1, 1]` into `[2, 2]`, P&L `[−7/2, 1]` -/
example : batchPayoff exP (exReg ++ [("shift", .affine 1 1)]) exPaths = .ok [2, 2] := by
  unfold batchPayoff exPaths
  have e1 : derivPayoff exP (exReg ++ [("shift", .affine 1 1)]) exM.spot = .ok 2 := by
    rw [derivPayoff_shift, ex_clause_payoff_differs.2.1, map_ok]; norm_num
  have e2 : derivPayoff exP (exReg ++ [("shift", .affine 1 1)]) exM2.spot = .ok 2 := by
    rw [derivPayoff_shift, ex_path2.2.1, map_ok]; norm_num
  exact collectE_pair e1 e2

open PfVerif.C01Hedger in
/-- `hedgerPrice_eq` on the example: the two samples are portfolio `[−3/2, 3]` and payoff
`[1, 1]`, and the price is `priceOf` of them -/
example : batchPortfolio exG exFs true exPaths = .ok [-3 / 2, 3] ∧
    batchPayoff exP exReg exPaths = .ok [1, 1] ∧
    priceOf (cashNeg (es 1)) [(-3 / 2 : ℝ), 3] [1, 1] = 5 / 2 := by
  refine ⟨?_, ?_, ?_⟩
  · unfold batchPortfolio exPaths
    exact collectE_pair ex_portfolio ex_path2.1
  · unfold batchPayoff exPaths
    exact collectE_pair ex_clause_payoff_differs.2.1 ex_path2.2.1
  · have hs : sortL [-(5 / 2 : ℝ), 2] = [-(5 / 2), 2] :=
      sortL_eq_of_perm_pairwise (List.Perm.refl _) (by norm_num)
    rw [C06.price_cashNeg_eq_loss]
    norm_num [C04ES.es_eq, hs]

open PfVerif.C01Hedger in
/-- the error side: one path whose module returns the wrong number of columns makes the price an
error (`hedgerPrice_error_of_path` is not vacuous) -/
example : ∃ e, hedgerPrice (Criterion.expectedShortfall 1) (fun x => x) exFs exP exReg true exPaths
    = .error e := by
  apply hedgerPrice_error_of_path _ _ _ _ _ _ _ ⟨exM, exHs⟩ (by simp [exPaths]) .runtimeError
  simp [hedgerPL, hedgerSpotUnit, exFs, exM, exHs, stackPrices, nSteps, PriceSrc.prices,
    computeHedge, Feature.stateDependent, BaseFeature.stateDependent, inputsAll, Feature.getAll,
    BaseFeature.getAll, logIf, dupLast, transposeHT, bind, Except.bind, pure, Except.pure]

/-- `n_times = 2` on the example: the same batch simulated twice -/
example : hedgerPriceN (Criterion.expectedShortfall 1) C01Hedger.exG C01Hedger.exFs C01Hedger.exP
    C01Hedger.exReg true [exPaths, exPaths] = .ok (5 / 2) := by
  unfold hedgerPriceN
  rw [collectE_pair ex_price.1 ex_price.1]
  norm_num [ensembleMean, sumL, bind, Except.bind]

end PfVerif.C06Hedger
