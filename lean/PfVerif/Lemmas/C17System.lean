/-
  C17 (second half) — the SYSTEM of instruments: derivatives alias their underlier, results computed
  from instruments are in the underlier's declared dtype, non-floating requests are rejected at
  every entry point.  Model: Model/InstrSys.lean (driver op "instr_sys").

  * refinement: seen from one primary, a history of system commands is a history of `DOp`s of
    Model/DType.lean (`runCmds_table`), so the theorems of Props/C17.lean hold for every primary
    of a system after any history (`dinv_after_history`, ...);
  * results: payoff, features, listed price, hedge, portfolio, P&L, loss and price
    (`results_after_history`), the dtype error of a `Linear` model (`hedge_linear_iff`, ...);
  * rejection of non-floating requests (`nonfloating_rejected`, `rejected_unchanged`).
-/
import PfVerif.Model.InstrSys
import PfVerif.Props.C17

namespace PfVerif.C17SystemAux
open PfVerif PfVerif.InstrSys

/-! ### promotion -/

theorem promote_self (d : DType) : promote d d = d := by cases d <;> rfl

theorem promote_comm (a b : DType) : promote a b = promote b a := by cases a <;> cases b <;> rfl

theorem promote_assoc (a b c : DType) : promote (promote a b) c = promote a (promote b c) := by
  cases a <;> cases b <;> cases c <;> rfl

theorem promote_floating {a b : DType} (ha : a.isFloating = true) (hb : b.isFloating = true) :
    (promote a b).isFloating = true := by
  cases a <;> cases b <;> first | rfl | cases ha | cases hb

theorem numT_floating {a d : DType} (h : d.isFloating = true) : numT a d = d := by
  simp [numT, h]

theorem catDType_const {d : DType} (xs : List DType) (h : ∀ x ∈ xs, x = d) : catDType d xs = d := by
  unfold catDType
  induction xs with
  | nil => rfl
  | cons x xs ih =>
    have hx : x = d := h x List.mem_cons_self
    subst hx
    simp only [List.foldl_cons, promote_self]
    exact ih (fun y hy => h y (List.mem_cons_of_mem _ hy))

/-! ### `mapE` -/

theorem mapE_ok_cons {α β ε : Type} {f : α → Except ε β} {a : α} {as : List α} {rs : List β}
    (h : mapE f (a :: as) = .ok rs) : ∃ b bs, f a = .ok b ∧ mapE f as = .ok bs ∧ rs = b :: bs := by
  simp only [mapE] at h
  cases hf : f a with
  | error e => rw [hf] at h; cases h
  | ok b =>
    rw [hf] at h
    cases hm : mapE f as with
    | error e => rw [hm] at h; cases h
    | ok bs =>
      rw [hm] at h
      simp only [Except.ok.injEq] at h
      exact ⟨b, bs, rfl, rfl, h.symm⟩

theorem mapE_ok_mem {α β ε : Type} {f : α → Except ε β} {l : List α} {rs : List β}
    (h : mapE f l = .ok rs) : ∀ r ∈ rs, ∃ a ∈ l, f a = .ok r := by
  induction l generalizing rs with
  | nil =>
    simp only [mapE, Except.ok.injEq] at h
    subst h
    intro r hr; cases hr
  | cons a as ih =>
    rcases mapE_ok_cons h with ⟨b, bs, hb, hbs, rfl⟩
    intro r hr
    rcases List.mem_cons.1 hr with rfl | hr
    · exact ⟨a, List.mem_cons_self, hb⟩
    · rcases ih hbs r hr with ⟨x, hx, hfx⟩
      exact ⟨x, List.mem_cons_of_mem _ hx, hfx⟩

theorem mapE_ok_getElem {α β ε : Type} {f : α → Except ε β} {l : List α} {rs : List β}
    (h : mapE f l = .ok rs) : ∀ (i : Nat) (r : β), rs[i]? = some r → ∃ a, l[i]? = some a ∧ f a = .ok r := by
  induction l generalizing rs with
  | nil =>
    simp only [mapE, Except.ok.injEq] at h
    subst h
    intro i r hr; simp at hr
  | cons a as ih =>
    rcases mapE_ok_cons h with ⟨b, bs, hb, hbs, rfl⟩
    intro i r hr
    cases i with
    | zero =>
      simp only [List.getElem?_cons_zero, Option.some.injEq] at hr
      subst hr
      exact ⟨a, rfl, hb⟩
    | succ n =>
      simp only [List.getElem?_cons_succ] at hr
      rcases ih hbs n r hr with ⟨x, hx, hfx⟩
      exact ⟨x, by simpa using hx, hfx⟩

theorem mapE_ok_length {α β ε : Type} {f : α → Except ε β} {l : List α} {rs : List β}
    (h : mapE f l = .ok rs) : rs.length = l.length := by
  induction l generalizing rs with
  | nil =>
    simp only [mapE, Except.ok.injEq] at h
    subst h; rfl
  | cons a as ih =>
    rcases mapE_ok_cons h with ⟨b, bs, _, hbs, rfl⟩
    simp [ih hbs]

/-! ### one primary -/

theorem Prim.step_ok {p p' : Prim} {c : Nat} {op : POp} (h : p.step c op = .ok p') :
    ∃ st', (op.dop p.kind).step p.st = .ok st' ∧
      p' = { p with st := st', info := op.info p.kind c p.info, lastSim := op.lastSim c p.lastSim } := by
  unfold Prim.step at h
  cases hs : (op.dop p.kind).step p.st with
  | error e => rw [hs] at h; cases h
  | ok st' =>
    rw [hs] at h
    simp only [Except.ok.injEq] at h
    exact ⟨st', rfl, h.symm⟩

theorem Prim.step_error {p : Prim} {c : Nat} {op : POp} {e : Err} (h : p.step c op = .error e) :
    (op.dop p.kind).step p.st = .error e := by
  unfold Prim.step at h
  cases hs : (op.dop p.kind).step p.st with
  | error e' => rw [hs] at h; simp only [Except.error.injEq] at h; rw [h]
  | ok st' => rw [hs] at h; cases h

/-- the dtype table after an operation on a primary is `runOps` of the corresponding `DOp` -/
theorem Prim.exec_st (p : Prim) (c : Nat) (op : POp) :
    (p.exec c op).st = runOps p.st [op.dop p.kind] ∧ (p.exec c op).kind = p.kind := by
  unfold Prim.exec
  cases h : p.step c op with
  | ok p' =>
    rcases Prim.step_ok h with ⟨st', hst, rfl⟩
    simp [runOps, hst]
  | error e =>
    have := Prim.step_error h
    simp [runOps, this]

theorem runOps_append (st : PrimState) (a b : List DOp) :
    runOps st (a ++ b) = runOps (runOps st a) b := by
  induction a generalizing st with
  | nil => rfl
  | cons op rest ih =>
    simp only [List.cons_append, runOps]
    cases op.step st with
    | ok st' => exact ih st'
    | error e => exact ih st

/-! ### the system seen from one primary -/

/-- dtype table of primary `i` -/
def table (s : Sys) (i : Nat) : Option PrimState := (s.prims[i]?).map (·.st)

def kindAt (s : Sys) (i : Nat) : Option PrimKind := (s.prims[i]?).map (·.kind)

/-- the system after an operation (unchanged when it is rejected) -/
def after (s : Sys) (o : SOp) : Sys :=
  match o.step s with
  | .ok s' => s'
  | .error _ => s

/-- a primary-level operation routed to primary `j`, seen from primary `i` -/
def popDops (s : Sys) (i j : Nat) (op : POp) : List DOp :=
  if i = j then
    match s.prims[i]? with
    | some p => [op.dop p.kind]
    | none => []
  else []

/-- the `DOp`s primary `i` undergoes when the system executes `o` in state `s` -/
def sopDops (s : Sys) (i : Nat) : SOp → List DOp
  | .primTo j t =>
    match s.resolve t with
    | .ok op => popDops s i j op
    | .error _ => []
  | .primSimulate j np ns => popDops s i j (.simulate np ns)
  | .primRegister j n d sh => popDops s i j (.register n d sh)
  | .derivTo k t =>
    match s.ulOf k with
    | .error _ => []
    | .ok j =>
      match s.resolve t with
      | .ok op => popDops s i j op
      | .error _ => []
  | .derivSimulate k np ns =>
    match s.ulOf k with
    | .error _ => []
    | .ok j => popDops s i j (.simulate np ns)
  | .list _ _ => []
  | .delist _ => []
  | .setDefault d => [.setDefault d]

theorem onPrim_table (s : Sys) (i j : Nat) (op : POp) :
    table (match s.onPrim j op with | .ok s' => s' | .error _ => s) i
        = (table s i).map (fun st => runOps st (popDops s i j op)) ∧
    kindAt (match s.onPrim j op with | .ok s' => s' | .error _ => s) i = kindAt s i := by
  unfold Sys.onPrim popDops table kindAt
  cases hj : s.prims[j]? with
  | none =>
    by_cases hij : i = j
    · subst hij; simp [hj]
    · simp only [hij, if_false, runOps]
      refine ⟨?_, ?_⟩ <;> first | trivial | (cases s.prims[i]? <;> rfl)
  | some p =>
    simp only
    cases hp : p.step s.clock op with
    | error e =>
      simp only
      by_cases hij : i = j
      · subst hij
        have := Prim.step_error hp
        simp [hj, runOps, this]
      · simp only [hij, if_false, runOps]
        refine ⟨?_, ?_⟩ <;> first | trivial | (cases s.prims[i]? <;> rfl)
    | ok p' =>
      simp only
      have hlt : j < s.prims.length := by
        rcases List.getElem?_eq_some_iff.1 hj with ⟨h, _⟩
        exact h
      by_cases hij : i = j
      · subst hij
        rcases Prim.step_ok hp with ⟨st', hst, rfl⟩
        simp [List.getElem?_set_self hlt, hj, runOps, hst]
      · have hne : j ≠ i := fun h => hij h.symm
        simp only [List.getElem?_set_ne hne, hij, if_false, runOps]
        refine ⟨?_, ?_⟩ <;> first | trivial | (cases s.prims[i]? <;> rfl)

theorem after_table (s : Sys) (o : SOp) (i : Nat) :
    table (after s o) i = (table s i).map (fun st => runOps st (sopDops s i o)) ∧
    kindAt (after s o) i = kindAt s i := by
  have hid : table s i = (table s i).map (fun st => runOps st []) ∧ kindAt s i = kindAt s i := by
    constructor
    · unfold table; cases s.prims[i]? <;> rfl
    · rfl
  cases o with
  | primTo j t =>
    simp only [after, SOp.step, sopDops]
    cases s.resolve t with
    | error e => exact hid
    | ok op => exact onPrim_table s i j op
  | primSimulate j np ns =>
    simp only [after, SOp.step, sopDops]
    exact onPrim_table s i j (.simulate np ns)
  | primRegister j n d sh =>
    simp only [after, SOp.step, sopDops]
    exact onPrim_table s i j (.register n d sh)
  | derivTo k t =>
    simp only [after, SOp.step, sopDops]
    cases s.ulOf k with
    | error e => exact hid
    | ok j =>
      simp only
      cases s.resolve t with
      | error e => exact hid
      | ok op => exact onPrim_table s i j op
  | derivSimulate k np ns =>
    simp only [after, SOp.step, sopDops]
    cases s.ulOf k with
    | error e => exact hid
    | ok j => exact onPrim_table s i j (.simulate np ns)
  | list k b =>
    simp only [after, SOp.step, sopDops]
    cases s.derivs[k]? with
    | none => exact hid
    | some d => exact hid
  | delist k =>
    simp only [after, SOp.step, sopDops]
    cases s.derivs[k]? with
    | none => exact hid
    | some d => exact hid
  | setDefault d =>
    simp only [after, SOp.step, sopDops]
    cases hf : d.isFloating with
    | false =>
      simp only [Bool.false_eq_true, if_false]
      unfold table
      constructor
      · cases s.prims[i]? with
        | none => rfl
        | some p => simp [runOps, DOp.step, hf]
      · trivial
    | true =>
      simp only [if_true]
      unfold table kindAt
      simp only [List.getElem?_map]
      cases s.prims[i]? with
      | none => exact ⟨rfl, rfl⟩
      | some p =>
        have := Prim.exec_st p s.clock (.setDefault d)
        simp only [Option.map_some, POp.dop] at this ⊢
        exact ⟨by rw [this.1], by rw [this.2]⟩


/-! ### commands and histories -/

theorem evalOnce_state (s : Sys) (k : Nat) (cfg : HedgeCfg) (np ns : Nat) :
    (s.evalOnce k cfg np ns).1 = after s (.derivSimulate k np ns) := by
  unfold Sys.evalOnce after
  cases (SOp.derivSimulate k np ns).step s <;> rfl

/-- the `DOp`s of the evaluations of `ensemble_mean` after the first one -/
def evalMoreDops (i k : Nat) (cfg : HedgeCfg) (np ns : Nat) : Sys → Nat → DType → List DOp
  | _, 0, _ => []
  | s, n + 1, acc =>
    sopDops s i (.derivSimulate k np ns) ++
      (match s.evalOnce k cfg np ns with
       | (s', .ok d) => evalMoreDops i k cfg np ns s' n (promote acc d)
       | (_, .error _) => [])

/-- the `DOp`s primary `i` undergoes when the system executes the command `c` in state `s` -/
def cmdDops (s : Sys) (i : Nat) : Cmd → List DOp
  | .op o => sopDops s i o
  | .ask _ => []
  | .run k cfg np ns nt =>
    match nt with
    | 0 => []
    | n + 1 =>
      sopDops s i (.derivSimulate k np ns) ++
        (match s.evalOnce k cfg np ns with
         | (s', .ok d) => evalMoreDops i k cfg np ns s' n d
         | (_, .error _) => [])

/-- the `DOp` history of primary `i` along a history of commands -/
def trace (i : Nat) : Sys → List Cmd → List DOp
  | _, [] => []
  | s, c :: cs => cmdDops s i c ++ trace i (c.exec s).1 cs

theorem table_id (s : Sys) (i : Nat) : table s i = (table s i).map (fun st => runOps st []) := by
  unfold table; cases s.prims[i]? <;> rfl

theorem table_comp {s s' s'' : Sys} {i : Nat} {a b : List DOp}
    (h1 : table s' i = (table s i).map (fun st => runOps st a))
    (h2 : table s'' i = (table s' i).map (fun st => runOps st b)) :
    table s'' i = (table s i).map (fun st => runOps st (a ++ b)) := by
  rw [h2, h1, Option.map_map]
  congr 1
  funext st
  simp [Function.comp, runOps_append]

theorem evalMore_table (i k : Nat) (cfg : HedgeCfg) (np ns : Nat) :
    ∀ (n : Nat) (s : Sys) (acc : DType),
      table (Sys.evalMore s k cfg np ns n acc).1 i
          = (table s i).map (fun st => runOps st (evalMoreDops i k cfg np ns s n acc)) ∧
      kindAt (Sys.evalMore s k cfg np ns n acc).1 i = kindAt s i := by
  intro n
  induction n with
  | zero => intro s acc; exact ⟨table_id s i, rfl⟩
  | succ n ih =>
    intro s acc
    have hst := evalOnce_state s k cfg np ns
    have hstep := after_table s (.derivSimulate k np ns) i
    simp only [Sys.evalMore, evalMoreDops]
    rcases he : s.evalOnce k cfg np ns with ⟨s', r⟩
    rw [he] at hst
    simp only at hst
    subst hst
    cases r with
    | error e =>
      simp only [List.append_nil]
      exact hstep
    | ok d =>
      simp only
      have h2 := ih (after s (.derivSimulate k np ns)) (promote acc d)
      exact ⟨table_comp hstep.1 h2.1, h2.2.trans hstep.2⟩

theorem run_fst_succ (s : Sys) (k : Nat) (cfg : HedgeCfg) (np ns n : Nat) :
    (s.run k cfg np ns (n + 1)).1 =
      (match s.evalOnce k cfg np ns with
       | (s', .error _) => s'
       | (s', .ok d) => (Sys.evalMore s' k cfg np ns n d).1) := by
  simp only [Sys.run]
  rcases s.evalOnce k cfg np ns with ⟨s', r⟩
  cases r with
  | error e => rfl
  | ok d =>
    simp only
    rcases Sys.evalMore s' k cfg np ns n d with ⟨s'', r'⟩
    cases r' <;> rfl

theorem exec_table (s : Sys) (c : Cmd) (i : Nat) :
    table (c.exec s).1 i = (table s i).map (fun st => runOps st (cmdDops s i c)) ∧
    kindAt (c.exec s).1 i = kindAt s i := by
  cases c with
  | op o =>
    have h := after_table s o i
    unfold after at h
    simp only [Cmd.exec, cmdDops]
    cases hs : o.step s with
    | ok s' => rw [hs] at h; exact h
    | error e => rw [hs] at h; exact h
  | ask q =>
    simp only [Cmd.exec, cmdDops]
    cases q.eval s <;> exact ⟨table_id s i, rfl⟩
  | run k cfg np ns nt =>
    have hrun : (Cmd.exec s (.run k cfg np ns nt)).1 = (s.run k cfg np ns nt).1 := by
      simp only [Cmd.exec]
      rcases s.run k cfg np ns nt with ⟨s', r⟩
      cases r <;> rfl
    rw [hrun]
    cases nt with
    | zero => exact ⟨table_id s i, rfl⟩
    | succ n =>
      have hst := evalOnce_state s k cfg np ns
      have hstep := after_table s (.derivSimulate k np ns) i
      rw [run_fst_succ]
      simp only [cmdDops]
      rcases he : s.evalOnce k cfg np ns with ⟨s', r⟩
      rw [he] at hst
      simp only at hst
      subst hst
      cases r with
      | error e =>
        simp only [List.append_nil]
        exact hstep
      | ok d =>
        simp only
        have h2 := evalMore_table i k cfg np ns n (after s (.derivSimulate k np ns)) d
        exact ⟨table_comp hstep.1 h2.1, h2.2.trans hstep.2⟩

/-- REFINEMENT: projected on a primary, the system after a history of commands is `runOps` (the
state machine of Model/DType.lean) of the `DOp`s that history means for this primary -/
theorem runCmds_table_aux (i : Nat) : ∀ (cs : List Cmd) (s : Sys),
    table (runCmds s cs) i = (table s i).map (fun st => runOps st (trace i s cs)) ∧
    kindAt (runCmds s cs) i = kindAt s i := by
  intro cs
  induction cs with
  | nil => intro s; exact ⟨table_id s i, rfl⟩
  | cons c cs ih =>
    intro s
    have h1 := exec_table s c i
    have h2 := ih (c.exec s).1
    simp only [runCmds, trace]
    exact ⟨table_comp h1.1 h2.1, h2.2.trans h1.2⟩

/-! ### construction -/

theorem init_table {amb : DType} {ps : List (PrimKind × Option DType)} {ds : List (Nat × PayoffKind)}
    {s0 : Sys} (h : Sys.init amb ps ds = .ok s0) :
    s0.ambient = amb ∧ s0.clock = 0 ∧
    (∀ (i : Nat) (p : Prim), s0.prims[i]? = some p →
      ∃ kd, ps[i]? = some kd ∧ initState kd.2 amb = .ok p.st ∧ p.kind = kd.1 ∧ p.info = [] ∧ p.lastSim = none) ∧
    s0.derivs = ds.map (fun d => ⟨d.1, d.2, none⟩) := by
  unfold Sys.init at h
  cases hm : mapE (Prim.init amb) ps with
  | error e => rw [hm] at h; cases h
  | ok l =>
    rw [hm] at h
    simp only [Except.ok.injEq] at h
    subst h
    refine ⟨rfl, rfl, ?_, rfl⟩
    intro i p hp
    rcases mapE_ok_getElem hm i p hp with ⟨kd, hkd, hf⟩
    refine ⟨kd, hkd, ?_⟩
    unfold Prim.init at hf
    cases hi : initState kd.2 amb with
    | error e => rw [hi] at hf; cases hf
    | ok st =>
      rw [hi] at hf
      simp only [Except.ok.injEq] at hf
      subst hf
      exact ⟨rfl, rfl, rfl, rfl⟩


/-! ### induction over histories -/

theorem after_preserves {P : Sys → Prop} (hstep : ∀ s s' o, P s → SOp.step s o = .ok s' → P s')
    (s : Sys) (o : SOp) (h : P s) : P (after s o) := by
  unfold after
  cases hs : o.step s with
  | ok s' => exact hstep s s' o h hs
  | error e => exact h

theorem evalMore_preserves {P : Sys → Prop} (hstep : ∀ s s' o, P s → SOp.step s o = .ok s' → P s')
    (k : Nat) (cfg : HedgeCfg) (np ns : Nat) :
    ∀ (n : Nat) (s : Sys) (acc : DType), P s → P (Sys.evalMore s k cfg np ns n acc).1 := by
  intro n
  induction n with
  | zero => intro s acc h; exact h
  | succ n ih =>
    intro s acc h
    have hst := evalOnce_state s k cfg np ns
    simp only [Sys.evalMore]
    rcases he : s.evalOnce k cfg np ns with ⟨s', r⟩
    rw [he] at hst
    simp only at hst
    subst hst
    cases r with
    | error e => exact after_preserves hstep s _ h
    | ok d => exact ih _ _ (after_preserves hstep s _ h)

theorem exec_preserves {P : Sys → Prop} (hstep : ∀ s s' o, P s → SOp.step s o = .ok s' → P s')
    (s : Sys) (c : Cmd) (h : P s) : P (c.exec s).1 := by
  cases c with
  | op o =>
    simp only [Cmd.exec]
    cases hs : o.step s with
    | ok s' => exact hstep s s' o h hs
    | error e => exact h
  | ask q =>
    simp only [Cmd.exec]
    cases q.eval s <;> exact h
  | run k cfg np ns nt =>
    have hrun : (Cmd.exec s (.run k cfg np ns nt)).1 = (s.run k cfg np ns nt).1 := by
      simp only [Cmd.exec]
      rcases s.run k cfg np ns nt with ⟨s', r⟩
      cases r <;> rfl
    rw [hrun]
    cases nt with
    | zero => exact h
    | succ n =>
      have hst := evalOnce_state s k cfg np ns
      rw [run_fst_succ]
      rcases he : s.evalOnce k cfg np ns with ⟨s', r⟩
      rw [he] at hst
      simp only at hst
      subst hst
      cases r with
      | error e => exact after_preserves hstep s _ h
      | ok d => exact evalMore_preserves hstep k cfg np ns n _ d (after_preserves hstep s _ h)

/-- a predicate preserved by every accepted operation holds after any history of commands
(queries do not change the system; `compute_loss` / `price` are sequences of `derivative.simulate`) -/
theorem runCmds_preserves {P : Sys → Prop} (hstep : ∀ s s' o, P s → SOp.step s o = .ok s' → P s') :
    ∀ (cs : List Cmd) (s : Sys), P s → P (runCmds s cs) := by
  intro cs
  induction cs with
  | nil => intro s h; exact h
  | cons c cs ih => intro s h; exact ih _ (exec_preserves hstep s c h)

/-! ### what an accepted operation changes -/

theorem onPrim_ok {s s' : Sys} {j : Nat} {op : POp} (h : s.onPrim j op = .ok s') :
    ∃ p p', s.prims[j]? = some p ∧ p.step s.clock op = .ok p' ∧
      s' = { s with prims := s.prims.set j p', clock := s.clock + 1 } := by
  unfold Sys.onPrim at h
  cases hj : s.prims[j]? with
  | none => rw [hj] at h; cases h
  | some p =>
    rw [hj] at h
    simp only at h
    cases hp : p.step s.clock op with
    | error e => rw [hp] at h; cases h
    | ok p' =>
      rw [hp] at h
      simp only [Except.ok.injEq] at h
      exact ⟨p, p', rfl, hp, h.symm⟩

/-- an accepted operation is: a primary-level operation on one primary (clock ticks), a change of
the listing of one derivative, or a change of the ambient default -/
theorem resolve_routed {s : Sys} {t : Target} {op : POp} (h : s.resolve t = .ok op) :
    ∀ d, op ≠ .setDefault d := by
  intro d hd
  subst hd
  cases t with
  | dtype x => simp [Sys.resolve] at h
  | tensor x => simp [Sys.resolve] at h
  | prim j =>
    simp only [Sys.resolve] at h
    cases hx : s.primDeclared j <;> rw [hx] at h <;> cases h
  | deriv k =>
    simp only [Sys.resolve] at h
    cases hx : s.derivDType k <;> rw [hx] at h <;> cases h
  | ext x => simp [Sys.resolve] at h

theorem step_ok_cases {s s' : Sys} {o : SOp} (h : o.step s = .ok s') :
    (∃ j op, s.onPrim j op = .ok s' ∧ ∀ d, op ≠ .setDefault d) ∨
    (∃ k dv b, s.derivs[k]? = some dv ∧ s' = { s with derivs := s.derivs.set k { dv with pricer := b } }) ∨
    (∃ d, d.isFloating = true ∧
      s' = { s with ambient := d, prims := s.prims.map (fun p => p.exec s.clock (.setDefault d)) }) := by
  cases o with
  | primTo j t =>
    simp only [SOp.step] at h
    cases hr : s.resolve t with
    | error e => rw [hr] at h; cases h
    | ok op => rw [hr] at h; exact Or.inl ⟨j, op, h, resolve_routed hr⟩
  | primSimulate j np ns => exact Or.inl ⟨j, .simulate np ns, h, fun _ hd => by cases hd⟩
  | primRegister j n d sh => exact Or.inl ⟨j, .register n d sh, h, fun _ hd => by cases hd⟩
  | derivTo k t =>
    simp only [SOp.step] at h
    cases hu : s.ulOf k with
    | error e => rw [hu] at h; cases h
    | ok j =>
      rw [hu] at h
      simp only at h
      cases hr : s.resolve t with
      | error e => rw [hr] at h; cases h
      | ok op => rw [hr] at h; exact Or.inl ⟨j, op, h, resolve_routed hr⟩
  | derivSimulate k np ns =>
    simp only [SOp.step] at h
    cases hu : s.ulOf k with
    | error e => rw [hu] at h; cases h
    | ok j => rw [hu] at h; exact Or.inl ⟨j, .simulate np ns, h, fun _ hd => by cases hd⟩
  | list k b =>
    simp only [SOp.step] at h
    cases hk : s.derivs[k]? with
    | none => rw [hk] at h; cases h
    | some dv =>
      rw [hk] at h
      simp only [Except.ok.injEq] at h
      exact Or.inr (Or.inl ⟨k, dv, some b, hk, h.symm⟩)
  | delist k =>
    simp only [SOp.step] at h
    cases hk : s.derivs[k]? with
    | none => rw [hk] at h; cases h
    | some dv =>
      rw [hk] at h
      simp only [Except.ok.injEq] at h
      exact Or.inr (Or.inl ⟨k, dv, none, hk, h.symm⟩)
  | setDefault d =>
    simp only [SOp.step] at h
    cases hf : d.isFloating with
    | false => simp [hf] at h
    | true =>
      simp only [hf, if_true, Except.ok.injEq] at h
      exact Or.inr (Or.inr ⟨d, hf, h.symm⟩)


/-! ### results computed from a primary that declares `d` -/

theorem except_map_ok {α β ε : Type} {f : α → β} {e : Except ε α} {x : β} (h : e.map f = .ok x) :
    ∃ y, e = .ok y ∧ x = f y := by
  cases e with
  | error e => cases h
  | ok y =>
    simp only [Except.map, Except.ok.injEq] at h
    exact ⟨y, rfl, h.symm⟩

/-- every buffer read from a primary that declares `d` is of dtype `d` -/
theorem buf_dtype {p : Prim} {d : DType} (hinv : DInv p.st) (hd : p.st.declared = some d)
    {n : String} {x : DType × Shape} (h : p.buf n = .ok x) : x.1 = d := by
  unfold Prim.buf at h
  split at h
  · rename_i b m hb hm
    simp only [Except.ok.injEq] at h
    subst h
    exact hinv d hd b (List.mem_of_find?_eq_some hb)
  · cases h

theorem volatility_dtype {p : Prim} {d a : DType} (hinv : DInv p.st) (hd : p.st.declared = some d)
    (hf : d.isFloating = true) {x : DType × Shape} (h : p.volatility a = .ok x) : x.1 = d := by
  unfold Prim.volatility at h
  cases hk : p.kind <;> rw [hk] at h <;> simp only at h
  · rcases except_map_ok h with ⟨y, hy, rfl⟩
    exact buf_dtype hinv hd hy
  · rcases except_map_ok h with ⟨y, hy, rfl⟩
    simp only
    rw [buf_dtype hinv hd hy]
    exact numT_floating hf
  · exact buf_dtype hinv hd h
  · exact buf_dtype hinv hd h

theorem variance_dtype {p : Prim} {d : DType} (hinv : DInv p.st) (hd : p.st.declared = some d)
    {x : DType × Shape} (h : p.variance = .ok x) : x.1 = d := by
  unfold Prim.variance at h
  cases hk : p.kind <;> rw [hk] at h <;> simp only at h
  · rcases except_map_ok h with ⟨y, hy, rfl⟩
    exact buf_dtype hinv hd hy
  · exact buf_dtype hinv hd h
  · exact buf_dtype hinv hd h
  · exact buf_dtype hinv hd h

/-- the facts about derivative `k` the result theorems need: its underlier exists, satisfies the
invariant of Props/C17 and declares the floating dtype `d` -/
structure Declares (s : Sys) (k : Nat) (d : DType) : Prop where
  ex : ∃ dv p, s.ul k = .ok (dv, p) ∧ DInv p.st ∧ p.st.declared = some d
  flt : d.isFloating = true

theorem ul_ok {s : Sys} {k : Nat} {dv : Deriv} {p : Prim} (h : s.ul k = .ok (dv, p)) :
    s.derivs[k]? = some dv ∧ s.prims[dv.ul]? = some p := by
  unfold Sys.ul at h
  cases hk : s.derivs[k]? with
  | none => rw [hk] at h; cases h
  | some dv' =>
    rw [hk] at h
    simp only at h
    cases hp : s.prims[dv'.ul]? with
    | none => rw [hp] at h; cases h
    | some p' =>
      rw [hp] at h
      simp only [Except.ok.injEq, Prod.mk.injEq] at h
      rcases h with ⟨rfl, rfl⟩
      exact ⟨rfl, hp⟩

theorem derivDType_of_declares {s : Sys} {k : Nat} {d : DType} (h : Declares s k d) :
    s.derivDType k = .ok (some d) := by
  rcases h.ex with ⟨dv, p, hul, _, hd⟩
  rcases ul_ok hul with ⟨hk, hp⟩
  simp [Sys.derivDType, Sys.primDeclared, hk, hp, hd]

theorem payoff_dtype {s : Sys} {k : Nat} {d : DType} (h : Declares s k d) {r : DType × Nat}
    (hr : s.payoff k = .ok r) : r.1 = d := by
  rcases h.ex with ⟨dv, p, hul, hinv, hd⟩
  unfold Sys.payoff at hr
  rw [hul] at hr
  simp only at hr
  cases hb : p.buf "spot" with
  | error e => rw [hb] at hr; cases hr
  | ok x =>
    rw [hb] at hr
    simp only at hr
    have hx := buf_dtype hinv hd hb
    split at hr
    · cases hr
    · simp only [Except.ok.injEq] at hr
      subst hr
      cases dv.payoff
      · simp only [hx]; exact numT_floating h.flt
      · simp only [toLike, hx]

theorem listed_dtype {s : Sys} {k : Nat} {d : DType} (h : Declares s k d) {r : DType × Shape}
    (hr : s.listed k = .ok r) : r.1 = d := by
  rcases h.ex with ⟨dv, p, hul, hinv, hd⟩
  unfold Sys.listed at hr
  rw [hul] at hr
  simp only at hr
  cases hp : dv.pricer with
  | none => rw [hp] at hr; cases hr
  | some b =>
    rw [hp] at hr
    simp only at hr
    rcases except_map_ok hr with ⟨y, hy, rfl⟩
    simp only
    rw [buf_dtype hinv hd hy]
    exact numT_floating h.flt

theorem featSrc_dtype {s : Sys} {k : Nat} {d : DType} (h : Declares s k d) {f : Feat}
    {r : DType × Shape} (hr : s.featSrc k f = .ok r) : r.1 = d := by
  rcases h.ex with ⟨dv, p, hul, hinv, hd⟩
  unfold Sys.featSrc at hr
  rw [hul] at hr
  simp only at hr
  cases hc : f.cls <;> rw [hc] at hr <;> simp only at hr
  · rcases except_map_ok hr with ⟨y, hy, rfl⟩
    simp only
    rw [buf_dtype hinv hd hy]
    exact numT_floating h.flt
  · cases hb : p.buf "spot" with
    | error e => rw [hb] at hr; cases hr
    | ok x =>
      rw [hb] at hr
      simp only at hr
      split at hr
      · cases hr
      · simp only [Except.ok.injEq] at hr
        subst hr
        simp only [toLike]
        rw [buf_dtype hinv hd hb]
        exact numT_floating h.flt
  · rcases except_map_ok hr with ⟨y, hy, rfl⟩
    exact buf_dtype hinv hd hy
  · exact listed_dtype h hr
  · exact volatility_dtype hinv hd h.flt hr
  · exact variance_dtype hinv hd hr
  · cases hr

/-- the hedging instrument `r` exists, satisfies the invariant and is of dtype `d` -/
def RefDeclares (s : Sys) (d : DType) : HRef → Prop
  | .prim i => ∃ p, s.prims[i]? = some p ∧ DInv p.st ∧ p.st.declared = some d
  | .deriv k => Declares s k d

theorem hedgeSpot_dtype {s : Sys} {d : DType} (_hf : d.isFloating = true) {r : HRef}
    (h : RefDeclares s d r) {x : DType × Shape} (hx : s.hedgeSpot r = .ok x) : x.1 = d := by
  cases r with
  | prim i =>
    rcases h with ⟨p, hp, hinv, hd⟩
    simp only [Sys.hedgeSpot, hp] at hx
    exact buf_dtype hinv hd hx
  | deriv k => exact listed_dtype h hx

theorem featStep_dtype {s : Sys} {k : Nat} {d : DType} (h : Declares s k d) {h0 : DType × Shape}
    (h0d : h0.1 = d) {f : Feat} {r : DType × Shape} (hr : s.featStep k h0 f = .ok r) : r.1 = d := by
  unfold Sys.featStep at hr
  split at hr
  · simp only [Except.ok.injEq] at hr
    subst hr
    exact h0d
  · cases hs : s.featSrc k f with
    | error e => rw [hs] at hr; cases hr
    | ok x =>
      rw [hs] at hr
      simp only at hr
      split at hr
      · cases hr
      · simp only [Except.ok.injEq] at hr
        subst hr
        exact featSrc_dtype h hs

theorem mapE_all_dtype {α : Type} {f : α → Except QErr (DType × Shape)} {d : DType} {l : List α}
    {rs : List (DType × Shape)} (h : mapE f l = .ok rs)
    (hf : ∀ a ∈ l, ∀ r, f a = .ok r → r.1 = d) : ∀ r ∈ rs, r.1 = d := by
  intro r hr
  rcases mapE_ok_mem h r hr with ⟨a, ha, hfa⟩
  exact hf a ha r hfa

theorem catDType_all {d : DType} {x0 : DType × Shape} {rest : List (DType × Shape)}
    (h : ∀ r ∈ x0 :: rest, r.1 = d) : catDType x0.1 (rest.map (·.1)) = d := by
  rw [h x0 List.mem_cons_self]
  apply catDType_const
  intro x hx
  rcases List.mem_map.1 hx with ⟨y, hy, rfl⟩
  exact h y (List.mem_cons_of_mem _ hy)

/-- the hedging instruments of a configuration are all of dtype `d` -/
def HedgesDeclare (s : Sys) (k : Nat) (d : DType) (hedge : Option (List HRef)) : Prop :=
  ∀ refs, s.hedgeRefs k hedge = .ok refs → ∀ r ∈ refs, RefDeclares s d r

/-- hedging with the underlier (the default) is hedging with an instrument of dtype `d` -/
theorem hedgesDeclare_default {s : Sys} {k : Nat} {d : DType} (h : Declares s k d) :
    HedgesDeclare s k d none := by
  rcases h.ex with ⟨dv, p, hul, hinv, hd⟩
  rcases ul_ok hul with ⟨hk, hp⟩
  intro refs hrefs r hr
  simp only [Sys.hedgeRefs, Sys.ulOf, hk, Except.ok.injEq] at hrefs
  subst hrefs
  simp only [List.mem_singleton] at hr
  subst hr
  exact ⟨p, hp, hinv, hd⟩

/-- the input of the model is of dtype `d` -/
theorem hedgePre_input {s : Sys} {k : Nat} {d : DType} (h : Declares s k d) {feats : List Feat}
    {hedge : Option (List HRef)} (hh : HedgesDeclare s k d hedge) {pre : HedgePre}
    (hp : s.hedgePre k feats hedge = .ok pre) : pre.input = d := by
  unfold Sys.hedgePre at hp
  cases hrefs : s.hedgeRefs k hedge with
  | error e => rw [hrefs] at hp; cases hp
  | ok refs =>
    rw [hrefs] at hp
    cases refs with
    | nil => cases hp
    | cons r0 rs =>
      simp only at hp
      cases h0 : s.hedgeSpot r0 with
      | error e => rw [h0] at hp; cases hp
      | ok x0 =>
        rw [h0] at hp
        simp only at hp
        have hx0 : x0.1 = d := hedgeSpot_dtype h.flt (hh _ hrefs r0 List.mem_cons_self) h0
        cases hc : s.checkHedges x0.2 (r0 :: rs) with
        | error e => rw [hc] at hp; cases hp
        | ok u =>
          rw [hc] at hp
          simp only at hp
          split at hp
          · split at hp
            · cases hp
            · cases hm : mapE (s.featStep k x0) feats with
              | error e => rw [hm] at hp; cases hp
              | ok srcs =>
                rw [hm] at hp
                cases srcs with
                | nil => cases hp
                | cons y0 rest =>
                  simp only at hp
                  split at hp
                  · cases hp
                  · simp only [Except.ok.injEq] at hp
                    subst hp
                    simp only
                    exact catDType_all (mapE_all_dtype hm (fun a _ r hr => featStep_dtype h hx0 hr))
          · cases hm : mapE (s.featSrc k) feats with
            | error e => rw [hm] at hp; cases hp
            | ok srcs =>
              rw [hm] at hp
              cases srcs with
              | nil => cases hp
              | cons y0 rest =>
                simp only at hp
                split at hp
                · cases hp
                · simp only [Except.ok.injEq] at hp
                  subst hp
                  simp only
                  exact catDType_all (mapE_all_dtype hm (fun a _ r hr => featSrc_dtype h hr))


/-! ### hedge, portfolio, P&L, loss, price -/

theorem modelOut_ok {a : DType} {m : ModelKind} {i o : DType} (h : modelOut a m i = .ok o) : o = i := by
  cases m with
  | naked => simp only [modelOut, newLike, Except.ok.injEq] at h; exact h.symm
  | linear p =>
    simp only [modelOut] at h
    split at h
    · rename_i hp
      simp only [Except.ok.injEq] at h
      rw [← h, hp]
    · cases h

theorem computeHedge_dtype {s : Sys} {k : Nat} {d : DType} (h : Declares s k d) {cfg : HedgeCfg}
    (hh : HedgesDeclare s k d cfg.hedge) {r : TInfo} (hr : s.computeHedge k cfg = .ok r) :
    r.dtype = d := by
  unfold Sys.computeHedge at hr
  cases hp : s.hedgePre k cfg.feats cfg.hedge with
  | error e => rw [hp] at hr; cases hr
  | ok pre =>
    rw [hp] at hr
    simp only at hr
    cases hm : modelOut s.ambient cfg.model pre.input with
    | error e => rw [hm] at hr; cases hr
    | ok o =>
      rw [hm] at hr
      simp only at hr
      split at hr
      · cases hr
      · simp only [Except.ok.injEq] at hr
        subst hr
        simp only
        rw [modelOut_ok hm]
        exact hedgePre_input h hh hp

/-- with a `Linear` model the hedge is the parameter-free one when the parameters are of dtype `d`,
and raises RuntimeError otherwise (provided nothing raises before the model is called) -/
theorem computeHedge_linear {s : Sys} {k : Nat} {d : DType} (h : Declares s k d) {feats : List Feat}
    {hedge : Option (List HRef)} (hh : HedgesDeclare s k d hedge) (p : Option DType) {pre : HedgePre}
    (hp : s.hedgePre k feats hedge = .ok pre) :
    s.computeHedge k ⟨.linear p, feats, hedge⟩ =
      if paramDType s.ambient p = d then s.computeHedge k ⟨.naked, feats, hedge⟩
      else .error .runtimeError := by
  have hin := hedgePre_input h hh hp
  unfold Sys.computeHedge
  simp only [hp, modelOut, hin, newLike]
  by_cases hpd : paramDType s.ambient p = d
  · simp only [hpd, if_true]
  · simp only [hpd, if_false]

theorem stackSpots_dtype {s : Sys} {k : Nat} {d : DType} (hf : d.isFloating = true)
    {hedge : Option (List HRef)} (hh : HedgesDeclare s k d hedge) {sp : DType × Shape × Nat}
    (hs : s.stackSpots k hedge = .ok sp) : sp.1 = d := by
  unfold Sys.stackSpots at hs
  cases hrefs : s.hedgeRefs k hedge with
  | error e => rw [hrefs] at hs; cases hs
  | ok refs =>
    rw [hrefs] at hs
    simp only at hs
    cases hm : mapE s.hedgeSpot refs with
    | error e => rw [hm] at hs; cases hs
    | ok l =>
      rw [hm] at hs
      cases l with
      | nil => cases hs
      | cons h0 rest =>
        simp only at hs
        split at hs
        · cases hs
        · simp only [Except.ok.injEq] at hs
          subst hs
          simp only
          apply catDType_all
          intro r hr
          rcases mapE_ok_mem hm r hr with ⟨a, ha, hfa⟩
          exact hedgeSpot_dtype hf (hh refs hrefs a ha) hfa

theorem plOf_dtype {s : Sys} {k : Nat} {sp : DType × Shape × Nat} {u : TInfo} {b : Bool} {d : DType}
    (hsp : sp.1 = d) (hu : u.dtype = d) {r : DType × Nat} (hr : s.plOf k sp u b = .ok r) : r.1 = d := by
  have hout : promote u.dtype (toLike sp.1 (tensorOfFloat s.ambient)) = d := by
    simp only [toLike, hsp, hu, promote_self]
  unfold Sys.plOf at hr
  simp only [hout] at hr
  split at hr
  · split at hr
    · cases hr
    · split at hr
      · cases hr
      · split at hr
        · cases hr
        · simp only [Except.ok.injEq] at hr
          rw [← hr]
  · split at hr
    · cases hr
    · simp only [Except.ok.injEq] at hr
      rw [← hr]

theorem computePl_dtype {s : Sys} {k : Nat} {d : DType} (h : Declares s k d) {cfg : HedgeCfg}
    (hh : HedgesDeclare s k d cfg.hedge) {b : Bool} {r : DType × Nat}
    (hr : s.computePl k cfg b = .ok r) : r.1 = d := by
  unfold Sys.computePl at hr
  cases hs : s.stackSpots k cfg.hedge with
  | error e => rw [hs] at hr; cases hr
  | ok sp =>
    rw [hs] at hr
    simp only at hr
    cases hu : s.computeHedge k cfg with
    | error e => rw [hu] at hr; cases hr
    | ok u =>
      rw [hu] at hr
      exact plOf_dtype (stackSpots_dtype h.flt hh hs) (computeHedge_dtype h hh hu) hr

theorem computePl_linear {s : Sys} {k : Nat} {d : DType} (h : Declares s k d) {feats : List Feat}
    {hedge : Option (List HRef)} (hh : HedgesDeclare s k d hedge) (p : Option DType) (b : Bool)
    {pre : HedgePre} (hp : s.hedgePre k feats hedge = .ok pre)
    {sp : DType × Shape × Nat} (hs : s.stackSpots k hedge = .ok sp) :
    s.computePl k ⟨.linear p, feats, hedge⟩ b =
      if paramDType s.ambient p = d then s.computePl k ⟨.naked, feats, hedge⟩ b
      else .error .runtimeError := by
  unfold Sys.computePl
  simp only [hs, computeHedge_linear h hh p hp]
  by_cases hpd : paramDType s.ambient p = d
  · simp only [hpd, if_true]
  · simp only [hpd, if_false]

theorem lossOnce_dtype {s : Sys} {k : Nat} {d : DType} (h : Declares s k d) {cfg : HedgeCfg}
    (hh : HedgesDeclare s k d cfg.hedge) {r : DType} (hr : s.lossOnce k cfg = .ok r) : r = d := by
  unfold Sys.lossOnce at hr
  cases hpl : s.computePl k cfg false with
  | error e => rw [hpl] at hr; cases hr
  | ok port =>
    rw [hpl] at hr
    simp only at hr
    cases hpay : s.payoff k with
    | error e => rw [hpay] at hr; cases hr
    | ok pay =>
      rw [hpay] at hr
      simp only at hr
      split at hr
      · cases hr
      · simp only [Except.ok.injEq] at hr
        rw [← hr, computePl_dtype h hh hpl, payoff_dtype h hpay, promote_self]

theorem lossOnce_linear {s : Sys} {k : Nat} {d : DType} (h : Declares s k d) {feats : List Feat}
    {hedge : Option (List HRef)} (hh : HedgesDeclare s k d hedge) (p : Option DType)
    {pre : HedgePre} (hp : s.hedgePre k feats hedge = .ok pre)
    {sp : DType × Shape × Nat} (hs : s.stackSpots k hedge = .ok sp) :
    s.lossOnce k ⟨.linear p, feats, hedge⟩ =
      if paramDType s.ambient p = d then s.lossOnce k ⟨.naked, feats, hedge⟩
      else .error .runtimeError := by
  unfold Sys.lossOnce
  simp only [computePl_linear h hh p false hp hs]
  by_cases hpd : paramDType s.ambient p = d
  · simp only [hpd, if_true]
  · simp only [hpd, if_false]


/-! ### re-simulation keeps what the result theorems need -/

/-- `s'` has the same derivatives, ambient default and declared dtypes as `s`, and its primaries
satisfy the invariant when those of `s` do -/
def SameDecl (s s' : Sys) : Prop :=
  s'.derivs = s.derivs ∧ s'.ambient = s.ambient ∧
  ∀ (i : Nat) (p : Prim), s.prims[i]? = some p →
    ∃ p', s'.prims[i]? = some p' ∧ p'.st.declared = p.st.declared ∧ (DInv p.st → DInv p'.st)

theorem SameDecl.refl (s : Sys) : SameDecl s s := ⟨rfl, rfl, fun _ p hp => ⟨p, hp, rfl, id⟩⟩

theorem onPrim_simulate_sameDecl {s s' : Sys} {j np ns : Nat}
    (h : s.onPrim j (.simulate np ns) = .ok s') : SameDecl s s' := by
  rcases onPrim_ok h with ⟨p, p', hj, hp, rfl⟩
  rcases Prim.step_ok hp with ⟨st', hst, rfl⟩
  have hlt : j < s.prims.length := (List.getElem?_eq_some_iff.1 hj).1
  refine ⟨rfl, rfl, ?_⟩
  intro i q hq
  by_cases hij : j = i
  · subst hij
    rw [hj] at hq
    simp only [Option.some.injEq] at hq
    subst hq
    refine ⟨_, List.getElem?_set_self hlt, ?_, ?_⟩
    · have := C17Aux.simulate_ok (show (DOp.simulate p.kind.simNames).step p.st = .ok st' from hst)
      rw [this]
    · intro hinv
      exact C17.inv_step hinv hst
  · exact ⟨q, by simp only [List.getElem?_set_ne hij, hq], rfl, id⟩

theorem after_derivSimulate_sameDecl (s : Sys) (k np ns : Nat) :
    SameDecl s (after s (.derivSimulate k np ns)) := by
  unfold after
  cases hs : (SOp.derivSimulate k np ns).step s with
  | error e => exact SameDecl.refl s
  | ok s' =>
    simp only [SOp.step] at hs
    cases hu : s.ulOf k with
    | error e => rw [hu] at hs; cases hs
    | ok j => rw [hu] at hs; exact onPrim_simulate_sameDecl hs

theorem ul_sameDecl {s s' : Sys} (hsd : SameDecl s s') {k : Nat} {dv : Deriv} {p : Prim}
    (h : s.ul k = .ok (dv, p)) :
    ∃ p', s'.ul k = .ok (dv, p') ∧ p'.st.declared = p.st.declared ∧ (DInv p.st → DInv p'.st) := by
  rcases ul_ok h with ⟨hk, hp⟩
  rcases hsd.2.2 _ p hp with ⟨p', hp', hd, hi⟩
  refine ⟨p', ?_, hd, hi⟩
  simp [Sys.ul, hsd.1, hk, hp']

theorem Declares.sameDecl {s s' : Sys} (hsd : SameDecl s s') {k : Nat} {d : DType}
    (h : Declares s k d) : Declares s' k d := by
  rcases h.ex with ⟨dv, p, hul, hinv, hd⟩
  rcases ul_sameDecl hsd hul with ⟨p', hul', hd', hi⟩
  exact ⟨⟨dv, p', hul', hi hinv, hd'.trans hd⟩, h.flt⟩

theorem RefDeclares.sameDecl {s s' : Sys} (hsd : SameDecl s s') {d : DType} {r : HRef}
    (h : RefDeclares s d r) : RefDeclares s' d r := by
  cases r with
  | prim i =>
    rcases h with ⟨p, hp, hinv, hd⟩
    rcases hsd.2.2 _ p hp with ⟨p', hp', hd', hi⟩
    exact ⟨p', hp', hi hinv, hd'.trans hd⟩
  | deriv k => exact Declares.sameDecl hsd h

theorem hedgeRefs_sameDecl {s s' : Sys} (hsd : SameDecl s s') (k : Nat) (hedge : Option (List HRef)) :
    s'.hedgeRefs k hedge = s.hedgeRefs k hedge := by
  cases hedge with
  | some l => rfl
  | none => simp only [Sys.hedgeRefs, Sys.ulOf, hsd.1]

theorem HedgesDeclare.sameDecl {s s' : Sys} (hsd : SameDecl s s') {k : Nat} {d : DType}
    {hedge : Option (List HRef)} (h : HedgesDeclare s k d hedge) : HedgesDeclare s' k d hedge := by
  intro refs hrefs r hr
  rw [hedgeRefs_sameDecl hsd] at hrefs
  exact RefDeclares.sameDecl hsd (h refs hrefs r hr)

/-! ### `compute_loss` / `price` -/

theorem evalOnce_snd_ok {s : Sys} {k : Nat} {cfg : HedgeCfg} {np ns : Nat} {r : DType}
    (h : (s.evalOnce k cfg np ns).2 = .ok r) :
    (after s (.derivSimulate k np ns)).lossOnce k cfg = .ok r := by
  unfold Sys.evalOnce at h
  unfold after
  cases hs : (SOp.derivSimulate k np ns).step s with
  | error e => rw [hs] at h; cases h
  | ok s' => rw [hs] at h; exact h

theorem evalOnce_dtype {s : Sys} {k : Nat} {d : DType} (h : Declares s k d) {cfg : HedgeCfg}
    (hh : HedgesDeclare s k d cfg.hedge) {np ns : Nat} {r : DType}
    (hr : (s.evalOnce k cfg np ns).2 = .ok r) : r = d :=
  lossOnce_dtype (h.sameDecl (after_derivSimulate_sameDecl s k np ns))
    (hh.sameDecl (after_derivSimulate_sameDecl s k np ns)) (evalOnce_snd_ok hr)

theorem evalMore_dtype {k : Nat} {d : DType} {cfg : HedgeCfg} {np ns : Nat} :
    ∀ (n : Nat) (s : Sys) (acc : DType), Declares s k d → HedgesDeclare s k d cfg.hedge → acc = d →
      ∀ r, (Sys.evalMore s k cfg np ns n acc).2 = .ok r → r = d := by
  intro n
  induction n with
  | zero =>
    intro s acc _ _ hacc r hr
    simp only [Sys.evalMore, Except.ok.injEq] at hr
    rw [← hr, hacc]
  | succ n ih =>
    intro s acc h hh hacc r hr
    have hst := evalOnce_state s k cfg np ns
    simp only [Sys.evalMore] at hr
    rcases he : s.evalOnce k cfg np ns with ⟨s', r1⟩
    rw [he] at hr hst
    simp only at hst
    subst hst
    cases r1 with
    | error e => cases hr
    | ok d1 =>
      simp only at hr
      have hd1 : d1 = d := evalOnce_dtype h hh (by rw [he])
      have hsd := after_derivSimulate_sameDecl s k np ns
      exact ih _ _ (h.sameDecl hsd) (hh.sameDecl hsd) (by rw [hacc, hd1, promote_self]) r hr

theorem run_dtype {s : Sys} {k : Nat} {d : DType} (h : Declares s k d) {cfg : HedgeCfg}
    (hh : HedgesDeclare s k d cfg.hedge) {np ns nt : Nat} {t : TInfo}
    (hr : (s.run k cfg np ns nt).2 = .ok t) : t.dtype = d ∧ t.shape = [] := by
  cases nt with
  | zero => cases hr
  | succ n =>
    have hst := evalOnce_state s k cfg np ns
    simp only [Sys.run] at hr
    rcases he : s.evalOnce k cfg np ns with ⟨s', r1⟩
    rw [he] at hr hst
    simp only at hst
    subst hst
    cases r1 with
    | error e => cases hr
    | ok d1 =>
      simp only at hr
      have hd1 : d1 = d := evalOnce_dtype h hh (by rw [he])
      have hsd := after_derivSimulate_sameDecl s k np ns
      rcases hm : Sys.evalMore (after s (.derivSimulate k np ns)) k cfg np ns n d1 with ⟨s'', r2⟩
      rw [hm] at hr
      cases r2 with
      | error e => cases hr
      | ok d2 =>
        simp only [Except.ok.injEq] at hr
        subst hr
        have := evalMore_dtype n _ d1 (h.sameDecl hsd) (hh.sameDecl hsd) hd1 d2 (by rw [hm])
        exact ⟨this, rfl⟩

theorem lossOnce_ok_pre {s : Sys} {k : Nat} {cfg : HedgeCfg} {r : DType}
    (h : s.lossOnce k cfg = .ok r) :
    ∃ pre sp, s.hedgePre k cfg.feats cfg.hedge = .ok pre ∧ s.stackSpots k cfg.hedge = .ok sp := by
  unfold Sys.lossOnce at h
  cases hpl : s.computePl k cfg false with
  | error e => rw [hpl] at h; cases h
  | ok port =>
    unfold Sys.computePl at hpl
    cases hs : s.stackSpots k cfg.hedge with
    | error e => rw [hs] at hpl; cases hpl
    | ok sp =>
      rw [hs] at hpl
      simp only at hpl
      cases hu : s.computeHedge k cfg with
      | error e => rw [hu] at hpl; cases hpl
      | ok u =>
        unfold Sys.computeHedge at hu
        cases hp : s.hedgePre k cfg.feats cfg.hedge with
        | error e => rw [hp] at hu; cases hu
        | ok pre => exact ⟨pre, sp, rfl, rfl⟩

theorem evalOnce_linear {s : Sys} {k : Nat} {d : DType} (h : Declares s k d) {feats : List Feat}
    {hedge : Option (List HRef)} (hh : HedgesDeclare s k d hedge) (p : Option DType) {np ns : Nat}
    {r : DType} (hn : (s.evalOnce k ⟨.naked, feats, hedge⟩ np ns).2 = .ok r) :
    s.evalOnce k ⟨.linear p, feats, hedge⟩ np ns =
      if paramDType s.ambient p = d then s.evalOnce k ⟨.naked, feats, hedge⟩ np ns
      else (after s (.derivSimulate k np ns), .error .runtimeError) := by
  have hl := evalOnce_snd_ok hn
  have hsd := after_derivSimulate_sameDecl s k np ns
  rcases lossOnce_ok_pre hl with ⟨pre, sp, hp, hs⟩
  have key := lossOnce_linear (h.sameDecl hsd) (hh.sameDecl hsd) p hp hs
  rw [hsd.2.1] at key
  unfold Sys.evalOnce at hn ⊢
  unfold after at key hl ⊢
  cases hst : (SOp.derivSimulate k np ns).step s with
  | error e => rw [hst] at hn; cases hn
  | ok s' =>
    rw [hst] at key hl
    simp only at key hl ⊢
    rw [key]
    by_cases hpd : paramDType s.ambient p = d
    · simp only [hpd, if_true]
    · simp only [hpd, if_false]

theorem evalMore_linear {k : Nat} {d : DType} {feats : List Feat} {hedge : Option (List HRef)}
    (p : Option DType) {np ns : Nat} :
    ∀ (n : Nat) (s : Sys) (acc : DType), Declares s k d → HedgesDeclare s k d hedge →
      paramDType s.ambient p = d →
      (∃ r, (Sys.evalMore s k ⟨.naked, feats, hedge⟩ np ns n acc).2 = .ok r) →
      Sys.evalMore s k ⟨.linear p, feats, hedge⟩ np ns n acc
        = Sys.evalMore s k ⟨.naked, feats, hedge⟩ np ns n acc := by
  intro n
  induction n with
  | zero => intro s acc _ _ _ _; rfl
  | succ n ih =>
    intro s acc h hh hpd hok
    rcases hok with ⟨r, hr⟩
    have hst := evalOnce_state s k ⟨.naked, feats, hedge⟩ np ns
    simp only [Sys.evalMore] at hr ⊢
    rcases he : s.evalOnce k ⟨.naked, feats, hedge⟩ np ns with ⟨s', r1⟩
    rw [he] at hr hst
    simp only at hst
    subst hst
    cases r1 with
    | error e => cases hr
    | ok d1 =>
      simp only at hr
      have hlin := evalOnce_linear h hh p (show (s.evalOnce k ⟨.naked, feats, hedge⟩ np ns).2 = .ok d1 by rw [he])
      simp only [hpd, if_true] at hlin
      rw [hlin, he]
      simp only
      have hsd := after_derivSimulate_sameDecl s k np ns
      exact ih _ _ (h.sameDecl hsd) (hh.sameDecl hsd) (by rw [hsd.2.1]; exact hpd) ⟨r, hr⟩


theorem run_linear_aux {s : Sys} {k : Nat} {d : DType} (h : Declares s k d) {feats : List Feat}
    {hedge : Option (List HRef)} (hh : HedgesDeclare s k d hedge) (p : Option DType) {np ns nt : Nat}
    {t : TInfo} (hn : (s.run k ⟨.naked, feats, hedge⟩ np ns nt).2 = .ok t) :
    s.run k ⟨.linear p, feats, hedge⟩ np ns nt =
      if paramDType s.ambient p = d then s.run k ⟨.naked, feats, hedge⟩ np ns nt
      else (after s (.derivSimulate k np ns), .error .runtimeError) := by
  cases nt with
  | zero => cases hn
  | succ n =>
    have hst := evalOnce_state s k ⟨.naked, feats, hedge⟩ np ns
    simp only [Sys.run] at hn ⊢
    rcases he : s.evalOnce k ⟨.naked, feats, hedge⟩ np ns with ⟨s', r1⟩
    rw [he] at hn hst
    simp only at hst
    subst hst
    cases r1 with
    | error e => cases hn
    | ok d1 =>
      simp only at hn
      have hlin := evalOnce_linear h hh p (show (s.evalOnce k ⟨.naked, feats, hedge⟩ np ns).2 = .ok d1 by rw [he])
      rw [hlin, he]
      by_cases hpd : paramDType s.ambient p = d
      · simp only [hpd, if_true]
        have hsd := after_derivSimulate_sameDecl s k np ns
        have hok : ∃ r, (Sys.evalMore (after s (.derivSimulate k np ns)) k ⟨.naked, feats, hedge⟩ np ns n d1).2 = .ok r := by
          rcases hm : Sys.evalMore (after s (.derivSimulate k np ns)) k ⟨.naked, feats, hedge⟩ np ns n d1 with ⟨s'', r2⟩
          rw [hm] at hn
          cases r2 with
          | error e => cases hn
          | ok d2 => exact ⟨d2, rfl⟩
        rw [evalMore_linear p n _ d1 (h.sameDecl hsd) (hh.sameDecl hsd) (by rw [hsd.2.1]; exact hpd) hok]
      · simp only [hpd, if_false]

/-! ### what holds in every reachable system -/

/-- every primary satisfies the invariant of Props/C17 and declares floating dtypes only -/
structure Sound (s : Sys) : Prop where
  inv : ∀ (i : Nat) (p : Prim), s.prims[i]? = some p → DInv p.st
  flt : ∀ (i : Nat) (p : Prim) (d : DType), s.prims[i]? = some p → p.st.declared = some d → d.isFloating = true

theorem declares_of_sound {s : Sys} (hs : Sound s) {k : Nat} {dv : Deriv} {p : Prim} {d : DType}
    (hk : s.derivs[k]? = some dv) (hp : s.prims[dv.ul]? = some p) (hd : p.st.declared = some d) :
    Declares s k d :=
  ⟨⟨dv, p, by simp [Sys.ul, hk, hp], hs.inv _ p hp, hd⟩, hs.flt _ p d hp hd⟩

/-- the dtype of a hedging instrument is `d` (`instrument.dtype == d`) -/
theorem refDeclares_of_sound {s : Sys} (hs : Sound s) {d : DType} {r : HRef}
    (h : s.refDType r = .ok (some d)) : RefDeclares s d r := by
  cases r with
  | prim i =>
    simp only [Sys.refDType, Sys.primDeclared] at h
    cases hp : s.prims[i]? with
    | none => rw [hp] at h; cases h
    | some p =>
      rw [hp] at h
      simp only [Except.ok.injEq] at h
      exact ⟨p, hp, hs.inv i p hp, h⟩
  | deriv k =>
    simp only [Sys.refDType, Sys.derivDType, Sys.primDeclared] at h
    cases hk : s.derivs[k]? with
    | none => rw [hk] at h; cases h
    | some dv =>
      rw [hk] at h
      simp only at h
      cases hp : s.prims[dv.ul]? with
      | none => rw [hp] at h; cases h
      | some p =>
        rw [hp] at h
        simp only [Except.ok.injEq] at h
        exact declares_of_sound hs hk hp h

end PfVerif.C17SystemAux

namespace PfVerif.C17System
open PfVerif PfVerif.InstrSys PfVerif.C17SystemAux

/-! ## refinement: the one-primary machine of Model/DType.lean is a projection of the system -/

/-- one operation of the system, seen from primary `i`, is `runOps` of the `DOp`s it means for `i`
(none when it concerns another primary or a derivative's listing; the cast / simulation itself
when it is routed to `i` directly or through a derivative; the change of the ambient default) -/
theorem step_table (s : Sys) (o : SOp) (i : Nat) :
    table (after s o) i = (table s i).map (fun st => runOps st (sopDops s i o)) :=
  (after_table s o i).1

/-- a whole history of commands, seen from primary `i`, is `runOps` of its `DOp` trace -/
theorem runCmds_table (s : Sys) (cs : List Cmd) (i : Nat) :
    table (runCmds s cs) i = (table s i).map (fun st => runOps st (trace i s cs)) :=
  (runCmds_table_aux i cs s).1

/-- the class of a primary never changes -/
theorem kind_fixed (s : Sys) (cs : List Cmd) (i : Nat) : kindAt (runCmds s cs) i = kindAt s i :=
  (runCmds_table_aux i cs s).2

/-- every primary of a constructed system, after ANY history of commands, is in a state the
one-primary machine reaches from its constructor -/
theorem primary_after_history {amb : DType} {ps : List (PrimKind × Option DType)}
    {ds : List (Nat × PayoffKind)} {s0 : Sys} (h0 : Sys.init amb ps ds = .ok s0) (cs : List Cmd)
    {i : Nat} {p : Prim} (hp : (runCmds s0 cs).prims[i]? = some p) :
    ∃ kd st0, ps[i]? = some kd ∧ initState kd.2 amb = .ok st0 ∧
      p.st = runOps st0 (trace i s0 cs) ∧ p.kind = kd.1 := by
  have ht := runCmds_table s0 cs i
  have hk := kind_fixed s0 cs i
  unfold table at ht
  unfold kindAt at hk
  rw [hp] at ht hk
  cases hp0 : s0.prims[i]? with
  | none => rw [hp0] at ht; cases ht
  | some p0 =>
    rw [hp0] at ht hk
    simp only [Option.map_some, Option.some.injEq] at ht hk
    rcases (init_table h0).2.2.1 i p0 hp0 with ⟨kd, hkd, hinit, hkind, _, _⟩
    exact ⟨kd, p0.st, hkd, hinit, ht, by rw [hk, hkind]⟩

/-- transfer of `C17.inv_from_init`: every buffer of every primary has the declared dtype -/
theorem dinv_after_history {amb : DType} {ps : List (PrimKind × Option DType)}
    {ds : List (Nat × PayoffKind)} {s0 : Sys} (h0 : Sys.init amb ps ds = .ok s0) (cs : List Cmd)
    {i : Nat} {p : Prim} (hp : (runCmds s0 cs).prims[i]? = some p) : DInv p.st := by
  rcases primary_after_history h0 cs hp with ⟨kd, st0, _, hinit, hst, _⟩
  rw [hst]
  exact C17.inv_from_init hinit _

/-- transfer of `C17.declared_floating_from_init`: a declared dtype is floating -/
theorem declared_floating_after_history {amb : DType} {ps : List (PrimKind × Option DType)}
    {ds : List (Nat × PayoffKind)} {s0 : Sys} (h0 : Sys.init amb ps ds = .ok s0) (cs : List Cmd)
    {i : Nat} {p : Prim} (hp : (runCmds s0 cs).prims[i]? = some p) {d : DType}
    (hd : p.st.declared = some d) : d.isFloating = true := by
  rcases primary_after_history h0 cs hp with ⟨kd, st0, _, hinit, hst, _⟩
  rw [hst] at hd
  exact C17.declared_floating_from_init hinit _ d hd

/-- transfer of `C17.names_nodup_from_init`: buffer names stay unique -/
theorem names_nodup_after_history {amb : DType} {ps : List (PrimKind × Option DType)}
    {ds : List (Nat × PayoffKind)} {s0 : Sys} (h0 : Sys.init amb ps ds = .ok s0) (cs : List Cmd)
    {i : Nat} {p : Prim} (hp : (runCmds s0 cs).prims[i]? = some p) : C17Aux.NamesNodup p.st := by
  rcases primary_after_history h0 cs hp with ⟨kd, st0, _, hinit, hst, _⟩
  rw [hst]
  exact C17.names_nodup_from_init hinit _

/-- transfer of `C17.results_after_history`: the dtype of `spot` is the declared one -/
theorem spot_dtype_after_history {amb : DType} {ps : List (PrimKind × Option DType)}
    {ds : List (Nat × PayoffKind)} {s0 : Sys} (h0 : Sys.init amb ps ds = .ok s0) (cs : List Cmd)
    {i : Nat} {p : Prim} (hp : (runCmds s0 cs).prims[i]? = some p) {d : DType}
    (hd : p.st.declared = some d) (hspot : ∃ b ∈ p.st.buffers, b.1 = "spot") :
    resultDType p.st = some d := by
  rcases primary_after_history h0 cs hp with ⟨kd, st0, _, hinit, hst, _⟩
  rw [hst] at hd hspot ⊢
  exact C17.results_after_history hinit _ hd hspot

theorem sound_after_history {amb : DType} {ps : List (PrimKind × Option DType)}
    {ds : List (Nat × PayoffKind)} {s0 : Sys} (h0 : Sys.init amb ps ds = .ok s0) (cs : List Cmd) :
    Sound (runCmds s0 cs) :=
  ⟨fun _ _ hp => dinv_after_history h0 cs hp,
   fun _ _ _ hp hd => declared_floating_after_history h0 cs hp hd⟩

/-- the ambient default every primary simulates in (when it declares nothing) is the system's -/
theorem ambient_coherent {amb : DType} {ps : List (PrimKind × Option DType)}
    {ds : List (Nat × PayoffKind)} {s0 : Sys} (h0 : Sys.init amb ps ds = .ok s0) (cs : List Cmd)
    {i : Nat} {p : Prim} (hp : (runCmds s0 cs).prims[i]? = some p) :
    p.st.ambient = (runCmds s0 cs).ambient := by
  have key : ∀ s : Sys, (∀ (i : Nat) (p : Prim), s.prims[i]? = some p → p.st.ambient = s.ambient) →
      ∀ s' o, SOp.step s o = .ok s' →
        (∀ (i : Nat) (p : Prim), s'.prims[i]? = some p → p.st.ambient = s'.ambient) := by
    intro s hP s' o hs i p hp
    rcases step_ok_cases hs with ⟨j, op, hon, hroute⟩ | ⟨k, dv, b, _, rfl⟩ | ⟨d, _, rfl⟩
    · rcases onPrim_ok hon with ⟨q, q', hj, hq, rfl⟩
      simp only at hp ⊢
      by_cases hji : j = i
      · subst hji
        have hlt : j < s.prims.length := (List.getElem?_eq_some_iff.1 hj).1
        rw [List.getElem?_set_self hlt] at hp
        simp only [Option.some.injEq] at hp
        subst hp
        rcases Prim.step_ok hq with ⟨st', hst, rfl⟩
        simp only
        rw [← hP j q hj]
        cases op with
        | to r =>
          rcases C17Aux.doTo_ok (show doTo q.st r = .ok st' from hst) with ⟨_, _, _, rfl⟩ | ⟨_, rfl⟩ <;> rfl
        | toTensor r =>
          rcases C17Aux.doTo_ok (show doTo q.st (some r) = .ok st' from hst) with ⟨_, _, _, rfl⟩ | ⟨_, rfl⟩ <;> rfl
        | toInstrument r =>
          rcases C17Aux.doTo_ok (show doTo q.st r = .ok st' from hst) with ⟨_, _, _, rfl⟩ | ⟨_, rfl⟩ <;> rfl
        | simulate np ns =>
          rw [C17Aux.simulate_ok (show (DOp.simulate q.kind.simNames).step q.st = .ok st' from hst)]
        | register n d sh =>
          simp only [POp.dop, DOp.step, Except.ok.injEq] at hst
          rw [← hst]
        | setDefault d => exact absurd rfl (hroute d)
      · rw [List.getElem?_set_ne hji] at hp
        exact hP i p hp
    · exact hP i p hp
    · simp only [List.getElem?_map] at hp ⊢
      cases hq : s.prims[i]? with
      | none => rw [hq] at hp; cases hp
      | some q =>
        rw [hq] at hp
        simp only [Option.map_some, Option.some.injEq] at hp
        subst hp
        rw [(Prim.exec_st q s.clock (.setDefault d)).1]
        rename_i hf
        simp [POp.dop, runOps, DOp.step, hf]
  have hinit : ∀ (i : Nat) (p : Prim), s0.prims[i]? = some p → p.st.ambient = s0.ambient := by
    intro i p hp
    rcases (init_table h0).2.2.1 i p hp with ⟨kd, _, hinit, _, _, _⟩
    rw [(C17.init_state hinit).2.2.1, (init_table h0).1]
  exact runCmds_preserves (P := fun s => ∀ (i : Nat) (p : Prim), s.prims[i]? = some p → p.st.ambient = s.ambient)
    (fun s s' o hP hs => key s hP s' o hs) cs s0 hinit i p hp

/-! ## a derivative has the dtype of its underlier; its casts and simulations are the underlier's -/

/-- in EVERY state: the dtype of a derivative is the declared dtype of its underlier -/
theorem deriv_dtype_is_underlier {s : Sys} {k : Nat} {dv : Deriv} {p : Prim}
    (hk : s.derivs[k]? = some dv) (hp : s.prims[dv.ul]? = some p) :
    s.derivDType k = .ok p.st.declared := by
  simp [Sys.derivDType, Sys.primDeclared, hk, hp]

/-- `derivative.to(...)` is `underlier.to(...)` -/
theorem derivTo_is_primTo {s : Sys} {k : Nat} {dv : Deriv} (hk : s.derivs[k]? = some dv) (t : Target) :
    (SOp.derivTo k t).step s = (SOp.primTo dv.ul t).step s := by
  simp [SOp.step, Sys.ulOf, hk]

/-- `derivative.simulate(n_paths)` is `underlier.simulate(n_paths, time_horizon=maturity)` -/
theorem derivSimulate_is_primSimulate {s : Sys} {k : Nat} {dv : Deriv} (hk : s.derivs[k]? = some dv)
    (np ns : Nat) : (SOp.derivSimulate k np ns).step s = (SOp.primSimulate dv.ul np ns).step s := by
  simp [SOp.step, Sys.ulOf, hk]

/-- a cast through one derivative is seen by every derivative on the same underlier, and re-types
all buffers of that underlier -/
theorem cast_through_derivative_seen_by_siblings {s : Sys} {k : Nat} {dv : Deriv} {p : Prim} {d : DType}
    (hk : s.derivs[k]? = some dv) (hp : s.prims[dv.ul]? = some p) (hf : d.isFloating = true) :
    ∃ s', (SOp.derivTo k (.dtype (some d))).step s = .ok s' ∧
      (∀ k' dv', s.derivs[k']? = some dv' → dv'.ul = dv.ul → s'.derivDType k' = .ok (some d)) ∧
      (∃ p', s'.prims[dv.ul]? = some p' ∧ p'.st.declared = some d ∧ ∀ b ∈ p'.st.buffers, b.2 = d) ∧
      s'.derivs = s.derivs := by
  have hlt : dv.ul < s.prims.length := (List.getElem?_eq_some_iff.1 hp).1
  have hst : (POp.dop p.kind (.to (some d))).step p.st =
      .ok { p.st with declared := some d, buffers := castAll (some d) (some d) p.st.buffers } := by
    simp [POp.dop, DOp.step, doTo, hf]
  refine ⟨{ s with prims := s.prims.set dv.ul { p with st := { p.st with declared := some d, buffers := castAll (some d) (some d) p.st.buffers } },
                   clock := s.clock + 1 }, ?_, ?_, ?_, ?_⟩
  · simp only [SOp.step, Sys.ulOf, hk, Sys.resolve, Sys.onPrim, hp, Prim.step, hst]
    rfl
  · intro k' dv' hk' hul
    simp [Sys.derivDType, Sys.primDeclared, hk', hul, List.getElem?_set_self hlt]
  · refine ⟨_, List.getElem?_set_self hlt, rfl, ?_⟩
    exact C17Aux.castAll_uniform d (some d) p.st.buffers
  · rfl

/-! ## results are in the declared dtype of the underlier -/

/-- in a system whose primaries satisfy the C17 invariant: if the underlier of derivative `k`
declares `d`, then the derivative's dtype is `d`, and payoff, every feature, the listed price, and —
when all hedging instruments are of dtype `d` — hedge, portfolio, P&L, loss and price are of dtype
`d` whenever they are computed at all -/
theorem results_in_declared_dtype {s : Sys} (hs : Sound s) {k : Nat} {dv : Deriv} {p : Prim} {d : DType}
    (hk : s.derivs[k]? = some dv) (hp : s.prims[dv.ul]? = some p) (hd : p.st.declared = some d) :
    s.derivDType k = .ok (some d) ∧
    (∀ r, s.payoff k = .ok r → r.1 = d) ∧
    (∀ f r, s.feature k f = .ok r → r.dtype = d) ∧
    (∀ r, s.listed k = .ok r → r.1 = d) ∧
    (∀ cfg : HedgeCfg,
      (∀ refs, s.hedgeRefs k cfg.hedge = .ok refs → ∀ r ∈ refs, s.refDType r = .ok (some d)) →
        (∀ r, s.computeHedge k cfg = .ok r → r.dtype = d) ∧
        (∀ b r, s.computePl k cfg b = .ok r → r.1 = d) ∧
        (∀ np ns nt t, (s.run k cfg np ns nt).2 = .ok t → t.dtype = d ∧ t.shape = [])) := by
  have hdec := declares_of_sound hs hk hp hd
  refine ⟨derivDType_of_declares hdec, fun r hr => payoff_dtype hdec hr, ?_,
    fun r hr => listed_dtype hdec hr, ?_⟩
  · intro f r hr
    unfold Sys.feature at hr
    rcases except_map_ok hr with ⟨y, hy, rfl⟩
    exact featSrc_dtype hdec hy
  · intro cfg hrefs
    have hh : HedgesDeclare s k d cfg.hedge :=
      fun refs h r hr => refDeclares_of_sound hs (hrefs refs h r hr)
    exact ⟨fun r hr => computeHedge_dtype hdec hh hr, fun b r hr => computePl_dtype hdec hh hr,
      fun np ns nt t ht => run_dtype hdec hh ht⟩

/-- hedging with the derivative's own underlier (`hedge=None`) meets the condition on the hedges -/
theorem default_hedge_declares {s : Sys} {k : Nat} {dv : Deriv} {p : Prim} {d : DType}
    (hk : s.derivs[k]? = some dv) (hp : s.prims[dv.ul]? = some p) (hd : p.st.declared = some d) :
    ∀ refs, s.hedgeRefs k none = .ok refs → ∀ r ∈ refs, s.refDType r = .ok (some d) := by
  intro refs hrefs r hr
  simp only [Sys.hedgeRefs, Sys.ulOf, hk, Except.ok.injEq] at hrefs
  subst hrefs
  simp only [List.mem_singleton] at hr
  subst hr
  simp [Sys.refDType, Sys.primDeclared, hp, hd]

/-- AFTER ANY HISTORY of system commands from construction: everything computed from a derivative
whose underlier declares `d` (with hedging instruments of dtype `d`) is of dtype `d` -/
theorem results_after_history {amb : DType} {ps : List (PrimKind × Option DType)}
    {ds : List (Nat × PayoffKind)} {s0 : Sys} (h0 : Sys.init amb ps ds = .ok s0) (cs : List Cmd)
    {k : Nat} {dv : Deriv} {p : Prim} {d : DType}
    (hk : (runCmds s0 cs).derivs[k]? = some dv) (hp : (runCmds s0 cs).prims[dv.ul]? = some p)
    (hd : p.st.declared = some d) :
    (runCmds s0 cs).derivDType k = .ok (some d) ∧
    (∀ r, (runCmds s0 cs).payoff k = .ok r → r.1 = d) ∧
    (∀ f r, (runCmds s0 cs).feature k f = .ok r → r.dtype = d) ∧
    (∀ r, (runCmds s0 cs).listed k = .ok r → r.1 = d) ∧
    (∀ cfg : HedgeCfg,
      (∀ refs, (runCmds s0 cs).hedgeRefs k cfg.hedge = .ok refs →
          ∀ r ∈ refs, (runCmds s0 cs).refDType r = .ok (some d)) →
        (∀ r, (runCmds s0 cs).computeHedge k cfg = .ok r → r.dtype = d) ∧
        (∀ b r, (runCmds s0 cs).computePl k cfg b = .ok r → r.1 = d) ∧
        (∀ np ns nt t, ((runCmds s0 cs).run k cfg np ns nt).2 = .ok t → t.dtype = d ∧ t.shape = [])) :=
  results_in_declared_dtype (sound_after_history h0 cs) hk hp hd

/-- ... in particular for every model kind and feature list when hedging with the underlier -/
theorem results_default_hedge_after_history {amb : DType} {ps : List (PrimKind × Option DType)}
    {ds : List (Nat × PayoffKind)} {s0 : Sys} (h0 : Sys.init amb ps ds = .ok s0) (cs : List Cmd)
    {k : Nat} {dv : Deriv} {p : Prim} {d : DType}
    (hk : (runCmds s0 cs).derivs[k]? = some dv) (hp : (runCmds s0 cs).prims[dv.ul]? = some p)
    (hd : p.st.declared = some d) (m : ModelKind) (feats : List Feat) :
    (∀ r, (runCmds s0 cs).computeHedge k ⟨m, feats, none⟩ = .ok r → r.dtype = d) ∧
    (∀ b r, (runCmds s0 cs).computePl k ⟨m, feats, none⟩ b = .ok r → r.1 = d) ∧
    (∀ np ns nt t, ((runCmds s0 cs).run k ⟨m, feats, none⟩ np ns nt).2 = .ok t → t.dtype = d ∧ t.shape = []) :=
  (results_after_history h0 cs hk hp hd).2.2.2.2 ⟨m, feats, none⟩ (default_hedge_declares hk hp hd)

/-! ## the dtype error of a `Linear` model -/

/-- if the parameter-free hedger computes a hedge, a `Linear` hedger computes the same one exactly
when its parameters are of the underlier's dtype `d`, and raises RuntimeError otherwise -/
theorem hedge_linear_iff {s : Sys} (hs : Sound s) {k : Nat} {dv : Deriv} {p : Prim} {d : DType}
    (hk : s.derivs[k]? = some dv) (hp : s.prims[dv.ul]? = some p) (hd : p.st.declared = some d)
    {feats : List Feat} {hedge : Option (List HRef)}
    (hrefs : ∀ refs, s.hedgeRefs k hedge = .ok refs → ∀ r ∈ refs, s.refDType r = .ok (some d))
    (q : Option DType) {r : TInfo} (hn : s.computeHedge k ⟨.naked, feats, hedge⟩ = .ok r) :
    s.computeHedge k ⟨.linear q, feats, hedge⟩ =
      if paramDType s.ambient q = d then .ok r else .error .runtimeError := by
  have hdec := declares_of_sound hs hk hp hd
  have hh : HedgesDeclare s k d hedge := fun refs h r hr => refDeclares_of_sound hs (hrefs refs h r hr)
  cases hpre : s.hedgePre k feats hedge with
  | error e => simp [Sys.computeHedge, hpre] at hn
  | ok pre => rw [computeHedge_linear hdec hh q hpre, hn]

/-- the same for portfolio (`b = false`) and P&L (`b = true`) -/
theorem pl_linear_iff {s : Sys} (hs : Sound s) {k : Nat} {dv : Deriv} {p : Prim} {d : DType}
    (hk : s.derivs[k]? = some dv) (hp : s.prims[dv.ul]? = some p) (hd : p.st.declared = some d)
    {feats : List Feat} {hedge : Option (List HRef)}
    (hrefs : ∀ refs, s.hedgeRefs k hedge = .ok refs → ∀ r ∈ refs, s.refDType r = .ok (some d))
    (q : Option DType) (b : Bool) {r : DType × Nat} (hn : s.computePl k ⟨.naked, feats, hedge⟩ b = .ok r) :
    s.computePl k ⟨.linear q, feats, hedge⟩ b =
      if paramDType s.ambient q = d then .ok r else .error .runtimeError := by
  have hdec := declares_of_sound hs hk hp hd
  have hh : HedgesDeclare s k d hedge := fun refs h r hr => refDeclares_of_sound hs (hrefs refs h r hr)
  cases hsp : s.stackSpots k hedge with
  | error e => simp [Sys.computePl, hsp] at hn
  | ok sp =>
    cases hpre : s.hedgePre k feats hedge with
    | error e => simp [Sys.computePl, Sys.computeHedge, hsp, hpre] at hn
    | ok pre => rw [computePl_linear hdec hh q b hpre hsp, hn]

/-- the same for `compute_loss` / `price` with any `n_times`: with parameters of dtype `d` the
system and the result are those of the parameter-free hedger; otherwise RuntimeError is raised in
the first evaluation, after exactly one re-simulation of the underlier -/
theorem run_linear_iff {s : Sys} (hs : Sound s) {k : Nat} {dv : Deriv} {p : Prim} {d : DType}
    (hk : s.derivs[k]? = some dv) (hp : s.prims[dv.ul]? = some p) (hd : p.st.declared = some d)
    {feats : List Feat} {hedge : Option (List HRef)}
    (hrefs : ∀ refs, s.hedgeRefs k hedge = .ok refs → ∀ r ∈ refs, s.refDType r = .ok (some d))
    (q : Option DType) {np ns nt : Nat} {t : TInfo}
    (hn : (s.run k ⟨.naked, feats, hedge⟩ np ns nt).2 = .ok t) :
    s.run k ⟨.linear q, feats, hedge⟩ np ns nt =
      if paramDType s.ambient q = d then s.run k ⟨.naked, feats, hedge⟩ np ns nt
      else (after s (.derivSimulate k np ns), .error .runtimeError) :=
  run_linear_aux (declares_of_sound hs hk hp hd)
    (fun refs h r hr => refDeclares_of_sound hs (hrefs refs h r hr)) q hn

/-! ## non-floating requests -/

/-- a non-floating dtype is rejected with TypeError at every entry point: `primary.to` and
`derivative.to` with a dtype, a tensor or an instrument declaring it, and `set_default_dtype` -/
theorem nonfloating_rejected {d : DType} (hf : d.isFloating = false) (s : Sys) :
    (∀ (i : Nat) (p : Prim), s.prims[i]? = some p →
      (SOp.primTo i (.dtype (some d))).step s = .error (.prim .typeError) ∧
      (SOp.primTo i (.tensor d)).step s = .error (.prim .typeError) ∧
      (SOp.primTo i (.ext (some d))).step s = .error (.prim .typeError)) ∧
    (∀ (k : Nat) (dv : Deriv) (p : Prim), s.derivs[k]? = some dv → s.prims[dv.ul]? = some p →
      (SOp.derivTo k (.dtype (some d))).step s = .error (.prim .typeError) ∧
      (SOp.derivTo k (.tensor d)).step s = .error (.prim .typeError) ∧
      (SOp.derivTo k (.ext (some d))).step s = .error (.prim .typeError)) ∧
    (SOp.setDefault d).step s = .error (.prim .typeError) := by
  have hprim : ∀ (i : Nat) (p : Prim), s.prims[i]? = some p →
      (SOp.primTo i (.dtype (some d))).step s = .error (.prim .typeError) ∧
      (SOp.primTo i (.tensor d)).step s = .error (.prim .typeError) ∧
      (SOp.primTo i (.ext (some d))).step s = .error (.prim .typeError) := by
    intro i p hp
    have h1 : (DOp.to (some d)).step p.st = .error .typeError := C17Aux.doTo_rejects hf
    have h2 : (DOp.toTensor d).step p.st = .error .typeError := C17Aux.doTo_rejects hf
    have h3 : (DOp.toInstrument (some d)).step p.st = .error .typeError := C17Aux.doTo_rejects hf
    refine ⟨?_, ?_, ?_⟩
    · simp [SOp.step, Sys.resolve, Sys.onPrim, hp, Prim.step, POp.dop, h1]
    · simp [SOp.step, Sys.resolve, Sys.onPrim, hp, Prim.step, POp.dop, h2]
    · simp [SOp.step, Sys.resolve, Sys.onPrim, hp, Prim.step, POp.dop, h3]
  refine ⟨hprim, ?_, ?_⟩
  · intro k dv p hk hp
    rw [derivTo_is_primTo hk, derivTo_is_primTo hk, derivTo_is_primTo hk]
    exact hprim dv.ul p hp
  · simp [SOp.step, hf]

/-- a rejected operation leaves the WHOLE system unchanged (all primaries, derivatives, the ambient
default, the clock), whatever follows -/
theorem rejected_unchanged {s : Sys} {o : SOp} {e : QErr} (h : o.step s = .error e) (rest : List Cmd) :
    Cmd.exec s (.op o) = (s, .raised e) ∧ runCmds s (.op o :: rest) = runCmds s rest ∧
    replies s (.op o :: rest) = .raised e :: replies s rest := by
  simp [Cmd.exec, runCmds, replies, h]

/-- queries never change the system -/
theorem query_keeps_system (s : Sys) (q : Query) (rest : List Cmd) :
    (Cmd.exec s (.ask q)).1 = s ∧ runCmds s (.ask q :: rest) = runCmds s rest := by
  have : (Cmd.exec s (.ask q)).1 = s := by
    simp only [Cmd.exec]
    cases q.eval s <;> rfl
  exact ⟨this, by simp only [runCmds, this]⟩

/-- in a reachable system a cast to another instrument of the system (primary or derivative) is
never rejected: what instruments declare is floating -/
theorem cast_to_system_instrument_accepted {s : Sys} (hs : Sound s) {i : Nat} {p : Prim}
    (hp : s.prims[i]? = some p) (t : Target)
    (ht : (∃ j q, t = .prim j ∧ s.prims[j]? = some q) ∨
          (∃ k dv q, t = .deriv k ∧ s.derivs[k]? = some dv ∧ s.prims[dv.ul]? = some q)) :
    ∃ s', (SOp.primTo i t).step s = .ok s' := by
  have key : ∀ r : Option DType, (∀ d, r = some d → d.isFloating = true) →
      ∃ s', s.onPrim i (.toInstrument r) = .ok s' := by
    intro r hr
    have hst : ∃ st', (DOp.toInstrument r).step p.st = .ok st' := by
      cases r with
      | none => exact ⟨_, rfl⟩
      | some d =>
        have hf := hr d rfl
        exact ⟨{ p.st with declared := some d, buffers := castAll (some d) (some d) p.st.buffers },
          by simp [DOp.step, doTo, hf]⟩
    rcases hst with ⟨st', hst⟩
    refine ⟨{ s with prims := s.prims.set i { p with st := st' }, clock := s.clock + 1 }, ?_⟩
    simp only [Sys.onPrim, hp, Prim.step, POp.dop, hst]
    rfl
  rcases ht with ⟨j, q, rfl, hq⟩ | ⟨k, dv, q, rfl, hk, hq⟩
  · rcases key q.st.declared (fun d hd => hs.flt j q d hq hd) with ⟨s', hs'⟩
    exact ⟨s', by simp only [SOp.step, Sys.resolve, Sys.primDeclared, hq, hs']⟩
  · rcases key q.st.declared (fun d hd => hs.flt _ q d hq hd) with ⟨s', hs'⟩
    exact ⟨s', by simp only [SOp.step, Sys.resolve, Sys.derivDType, Sys.primDeclared, hk, hq, hs']⟩

/-- the constructor of a system rejects a primary with a non-floating dtype -/
theorem init_rejects_nonfloating {amb : DType} {ps : List (PrimKind × Option DType)}
    {ds : List (Nat × PayoffKind)} {kd : PrimKind × Option DType} {d : DType} (hkd : kd ∈ ps)
    (hd : kd.2 = some d) (hf : d.isFloating = false) : ∀ s0, Sys.init amb ps ds ≠ .ok s0 := by
  intro s0 h0
  rcases List.mem_iff_getElem?.1 hkd with ⟨i, hi⟩
  unfold Sys.init at h0
  cases hm : mapE (Prim.init amb) ps with
  | error e => rw [hm] at h0; cases h0
  | ok l =>
    have hlen := mapE_ok_length hm
    have hlt : i < ps.length := (List.getElem?_eq_some_iff.1 hi).1
    have hex : ∃ p, l[i]? = some p := ⟨l[i]'(by omega), List.getElem?_eq_getElem (by omega)⟩
    rcases hex with ⟨p, hp⟩
    rcases mapE_ok_getElem hm i p hp with ⟨kd', hkd', hf'⟩
    rw [hi] at hkd'
    simp only [Option.some.injEq] at hkd'
    subst hkd'
    unfold Prim.init at hf'
    rw [hd, C17.init_rejects amb hf] at hf'
    cases hf'


/-! ## non-vacuity: two derivatives on one Heston stock -/

/-- `HestonStock()` under the default float32, a European option (0) and a binary option (1) on it -/
def demoSys : Sys :=
  { prims := [{ kind := .stochVar, st := { declared := none, buffers := [], ambient := .f32 }, info := [], lastSim := none }],
    derivs := [⟨0, .arith, none⟩, ⟨0, .indicator, none⟩], ambient := .f32, clock := 0 }

example : Sys.init .f32 [(.stochVar, none)] [(0, .arith), (0, .indicator)] = .ok demoSys := rfl

/-- simulate through derivative 0, cast through derivative 1, list derivative 1 on `variance`,
hedge derivative 0; the last command (a cast to int64 through a derivative) is rejected -/
def demoCmds : List Cmd :=
  [.op (.derivSimulate 0 2 4),
   .op (.derivTo 1 (.dtype (some .f64))),
   .ask (.derivDType 0),
   .ask (.payoff 0),
   .op (.list 1 "variance"),
   .ask (.listedPrice 1),
   .ask (.feature 1 .listedSpot),
   .ask (.hedge 0 ⟨.linear none, [.moneyness, .volatility], none⟩),
   .ask (.hedge 0 ⟨.linear (some .f64), [.moneyness, .prevHedge], some [.prim 0, .deriv 1]⟩),
   .ask (.pl 0 ⟨.naked, [.timeToMaturity, .barrier], some [.deriv 1]⟩),
   .run 0 ⟨.linear (some .f64), [.moneyness], none⟩ 3 4 2,
   .op (.derivTo 0 (.dtype (some .i64)))]

/-- the cast through derivative 1 is seen by derivative 0 (its dtype, its payoff); the ambient
`Linear` (float32) raises on the float64 inputs, the one cast to float64 does not -/
example : replies demoSys demoCmds =
    [.done, .done, .answer (.dtype (some .f64)), .answer (.tensor ⟨.f64, [2]⟩), .done,
     .answer (.tensor ⟨.f64, [2, 4]⟩), .answer (.tensor ⟨.f64, [2, 4, 1]⟩), .raised .runtimeError,
     .answer (.tensor ⟨.f64, [2, 2, 4]⟩), .answer (.tensor ⟨.f64, [2]⟩), .answer (.tensor ⟨.f64, []⟩),
     .raised (.prim .typeError)] := by decide

/-- the hypotheses of `results_after_history` are met by this history with `d = float64` -/
example : ∃ dv p, (runCmds demoSys demoCmds).derivs[0]? = some dv ∧
    (runCmds demoSys demoCmds).prims[dv.ul]? = some p ∧ p.st.declared = some .f64 :=
  ⟨⟨0, .arith, none⟩, _, by decide, rfl, by decide⟩

/-- ... and those on the hedging instruments by the listed sibling: its dtype is float64 -/
example : (runCmds demoSys demoCmds).refDType (.deriv 1) = .ok (some .f64) ∧
    (runCmds demoSys demoCmds).refDType (.prim 0) = .ok (some .f64) := ⟨rfl, rfl⟩

/-- the hypothesis of `hedge_linear_iff` / `pl_linear_iff` / `run_linear_iff` (the parameter-free
hedger succeeds) is met -/
example : (runCmds demoSys demoCmds).computeHedge 0 ⟨.naked, [.moneyness, .volatility], none⟩ = .ok ⟨.f64, [3, 1, 4]⟩ ∧
    (runCmds demoSys demoCmds).computePl 0 ⟨.naked, [.moneyness], some [.deriv 1]⟩ true = .ok (.f64, 3) ∧
    ((runCmds demoSys demoCmds).run 0 ⟨.naked, [.moneyness], none⟩ 2 4 3).2 = .ok ⟨.f64, []⟩ := ⟨rfl, rfl, rfl⟩

/-- the rejected last command left the system as it was -/
example : runCmds demoSys demoCmds = runCmds demoSys demoCmds.dropLast := by decide

/-- seen from the primary, the history is a history of the one-primary machine: two simulations of
`compute_loss(n_times=2)` included -/
example : trace 0 demoSys demoCmds =
    [.simulate ["spot", "variance"], .to (some .f64), .simulate ["spot", "variance"],
     .simulate ["spot", "variance"], .to (some .i64)] := rfl

/-- without a declared dtype the buffers of one instrument may differ in dtype; results then follow
torch's promotion: float32 moneyness and float64 volatility make a float64 hedge, the payoff stays
float32 (why the theorems ask for a declared dtype) -/
example : replies demoSys
    [.op (.derivSimulate 0 2 4), .op (.primRegister 0 "variance" .f64 (2, 4)),
     .ask (.hedge 0 ⟨.naked, [.moneyness, .volatility], none⟩), .ask (.payoff 0), .ask (.derivDType 0)] =
    [.done, .done, .answer (.tensor ⟨.f64, [2, 1, 4]⟩), .answer (.tensor ⟨.f32, [2]⟩), .answer (.dtype none)] := by decide

/-- float16 ⊗ bfloat16 = float32 -/
example : replies demoSys
    [.op (.primRegister 0 "spot" .f16 (2, 4)), .op (.primRegister 0 "variance" .bf16 (2, 4)),
     .ask (.hedge 0 ⟨.naked, [.moneyness, .variance], none⟩)] =
    [.done, .done, .answer (.tensor ⟨.f32, [2, 1, 4]⟩)] := by decide

end PfVerif.C17System
