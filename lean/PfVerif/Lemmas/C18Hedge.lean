/-
  C18 (last sentence) — "Consequently the Black–Scholes and Whalley–Wilmott hedgers produce finite
  hedges and finite P&L on every simulated path, including the final step."

  Everything is evaluated at the carrier `XR` (Lemmas/XR.lean: extended reals with NaN, IEEE
  special-value rules, exact on finite values), with the scalar-generic model of
  `Hedger.compute_hedge` (Model/Hedger.lean), of the Black–Scholes functions (Model/BS.lean), of
  the Whalley–Wilmott band (Model/Clamp.lean) and of `pl` (Model/PL.lean).

  The point of the argument: `compute_hedge` never evaluates the hedging model at time to maturity
  `0`.  The last row of the hedge is a *copy* of row `n-2` (time to maturity `dt > 0`), so every
  model evaluation happens in the interior `t, v > 0`, where `C18.finite_in_interior` applies.

  `PfVerif.C18HedgeAux` : local instances, helper lemmas.   `PfVerif.C18Hedge` : the theorems.
-/
import PfVerif.Props.C18
import PfVerif.Props.C02
import PfVerif.Props.C14
import PfVerif.Model.Hedger
import PfVerif.Model.Clamp
import PfVerif.Model.PL

namespace PfVerif.C18HedgeAux
open PfVerif XR C18Aux C02Aux

/-! ### instances `XR` lacks (needed to instantiate `computeHedge`, `wwWidth`, `wwForward` at `XR`)

They are *scoped* to this namespace: `open PfVerif.C18HedgeAux` activates them. -/

/-- `n ↦ fin n` -/
scoped instance xrNatCast : NatCast XR := ⟨fun n => fin (n : ℝ)⟩

/-- the literal `3` (used by `wwWidth`) -/
scoped instance xrOfNat3 : OfNat XR 3 := ⟨fin 3⟩

/-- `torch.maximum` / `torch.clamp(min=…)`: NaN propagates, otherwise the larger value in the
order `−∞ < finite < +∞` -/
noncomputable def xmax : XR → XR → XR
  | nan, _ => nan
  | _, nan => nan
  | fin x, fin y => fin (max x y)
  | pinf, _ => pinf
  | _, pinf => pinf
  | ninf, b => b
  | a, ninf => a

/-- `torch.minimum` / `torch.clamp(max=…)`: NaN propagates, otherwise the smaller value -/
noncomputable def xmin : XR → XR → XR
  | nan, _ => nan
  | _, nan => nan
  | fin x, fin y => fin (min x y)
  | ninf, _ => ninf
  | _, ninf => ninf
  | pinf, b => b
  | a, pinf => a

noncomputable scoped instance xrMax : Max XR := ⟨xmax⟩
noncomputable scoped instance xrMin : Min XR := ⟨xmin⟩

@[simp] theorem natCast_def (k : ℕ) : ((k : ℕ) : XR) = fin (k : ℝ) := rfl
@[simp] theorem three_def : (3 : XR) = fin 3 := rfl
@[simp] theorem fin_max_fin (x y : ℝ) : max (fin x) (fin y) = fin (max x y) := rfl
@[simp] theorem fin_min_fin (x y : ℝ) : min (fin x) (fin y) = fin (min x y) := rfl
@[simp] theorem nan_max (a : XR) : max nan a = nan := rfl
@[simp] theorem max_nan (a : XR) : max a nan = nan := by cases a <;> rfl
@[simp] theorem nan_min (a : XR) : min nan a = nan := rfl
@[simp] theorem min_nan (a : XR) : min a nan = nan := by cases a <;> rfl

/-! ### the Black–Scholes hedging module as a row function -/

/-- the `BlackScholes(EuropeanOption)` module on one `(path, time)` row
`[log_moneyness, time_to_maturity, volatility] ↦ [delta]` (as in Driver/Hedge.lean; `nan` marks a
model-level error or a row of the wrong width) -/
noncomputable def bsRow (call : Bool) : List XR → List XR
  | [s, t, v] =>
    match bsEuropeanDelta s t v call with
    | .ok d => [d]
    | .error _ => [nan]
  | _ => [nan]

/-- real `d1` -/
noncomputable def d1R (s t v : ℝ) : ℝ := s / (v * Real.sqrt t) + v * Real.sqrt t / 2

/-- real Black–Scholes delta of the European option -/
noncomputable def bsDeltaR (call : Bool) (s t v : ℝ) : ℝ :=
  if call then Phi (d1R s t v) else Phi (d1R s t v) - 1

/-- real Black–Scholes gamma of the European option (`K·e^s` = spot) -/
noncomputable def bsGammaR (s t v K : ℝ) : ℝ :=
  phi (d1R s t v) / (K * Real.exp s * v * Real.sqrt t)

theorem bsDelta_interior (call : Bool) (s : ℝ) {t v : ℝ} (ht : 0 < t) (hv : 0 < v) :
    bsEuropeanDelta (fin s) (fin t) (fin v) call = .ok (fin (bsDeltaR call s t v)) := by
  simp only [bsEuropeanDelta, bsD1_interior s ht hv, ok_bind, pure_eq, ncdf_fin, one_def,
    fin_sub_fin, bsDeltaR, d1R]
  cases call <;> simp

theorem bsGamma_interior (s : ℝ) {t v K : ℝ} (ht : 0 < t) (hv : 0 < v) (hK : 0 < K) :
    bsEuropeanGamma (fin s) (fin t) (fin v) (fin K) = .ok (fin (bsGammaR s t v K)) := by
  have hden : K * Real.exp s * v * Real.sqrt t ≠ 0 :=
    (mul_pos (mul_pos (mul_pos hK (Real.exp_pos s)) hv) (Real.sqrt_pos.2 ht)).ne'
  simp only [bsEuropeanGamma, bsD1_interior s ht hv, ok_bind, pure_eq, exp_fin, npdf_fin,
    sqrt_fin_nonneg ht.le, fin_mul_fin, guardedDiv_den_ne _ hden, bsGammaR, d1R]

/-! ### markets with positive finite data -/

/-- The market of one simulated path has `n` time steps, finite positive spots `Ss`, finite positive
volatilities `vs`, finite positive strike `K` and finite positive step `δ`.  (`variance`, `listed`
and `oracle` are not read by the features used here and are unconstrained.) -/
structure PositiveMarket (m : Market XR) (n : ℕ) (Ss vs : List ℝ) (K δ : ℝ) : Prop where
  /-- the spot series is the finite series `Ss` -/
  spot_eq : m.spot = Ss.map fin
  /-- … of `n` time steps -/
  spot_len : Ss.length = n
  /-- … all positive -/
  spot_pos : ∀ S ∈ Ss, 0 < S
  /-- the volatility series is the finite series `vs` -/
  vol_eq : m.volatility = vs.map fin
  /-- … of `n` time steps -/
  vol_len : vs.length = n
  /-- … all positive -/
  vol_pos : ∀ v ∈ vs, 0 < v
  /-- finite strike -/
  strike_eq : m.strike = fin K
  /-- … positive -/
  strike_pos : 0 < K
  /-- finite time step -/
  dt_eq : m.dt = fin δ
  /-- … positive -/
  dt_pos : 0 < δ

/-- the feature list of `BlackScholes(EuropeanOption).inputs()` -/
def bsFeatures : List (Feature XR) :=
  [.base (.moneyness true), .base .timeToMaturity, .base .volatility]

/-- the feature list of `WhalleyWilmott(EuropeanOption).inputs()` -/
def wwFeatures : List (Feature XR) :=
  [.base (.moneyness true), .base .timeToMaturity, .base .volatility, .base .prevHedge]

/-- the input row at time step `i`: log-moneyness, time to maturity `(n-1-i)·δ`, volatility
(default `1` beyond the end of the lists; never used for `i < n`) -/
noncomputable def inRow (Ss vs : List ℝ) (K δ : ℝ) (n i : ℕ) : List XR :=
  [fin (Real.log (Ss.getD i 1 / K)), fin (((n - 1 - i : ℕ) : ℝ) * δ), fin (vs.getD i 1)]

theorem getD_of_lt {β : Type} (xs : List β) (d : β) {i : ℕ} (h : i < xs.length) :
    xs.getD i d = xs[i] := by simp [h]

theorem getD_of_le {β : Type} (xs : List β) (d : β) {i : ℕ} (h : xs.length ≤ i) :
    xs.getD i d = d := by simp [h]

theorem getD_one_pos {xs : List ℝ} (h : ∀ x ∈ xs, 0 < x) (i : ℕ) : 0 < xs.getD i 1 := by
  by_cases hi : i < xs.length
  · rw [getD_of_lt _ _ hi]; exact h _ (List.getElem_mem hi)
  · rw [getD_of_le _ _ (not_lt.1 hi)]; exact one_pos

/-- time to maturity is positive at every step before the last -/
theorem ttm_pos {n i : ℕ} {δ : ℝ} (hδ : 0 < δ) (hi : i + 2 ≤ n) :
    0 < ((n - 1 - i : ℕ) : ℝ) * δ := by
  have : 0 < n - 1 - i := by omega
  exact mul_pos (by exact_mod_cast this) hδ

/-- log-moneyness of finite positive spot and strike is finite -/
theorem logMoneyness_fin {S K : ℝ} (hS : 0 < S) (hK : 0 < K) :
    logIf true (fin S / fin K) = fin (Real.log (S / K)) := by
  simp only [logIf, if_true, fin_div_fin_ne S hK.ne', log_fin_pos (div_pos hS hK)]

/-! ### `dupLast`, `appendLast` are total on long enough lists -/

theorem dupLast_cons {β : Type} (a : β) : ∀ l : List β, 2 ≤ l.length →
    dupLast (a :: l) = (dupLast l >>= fun r => pure (a :: r))
  | [], h => by simp at h
  | [_], h => by simp at h
  | _ :: _ :: _, _ => rfl

theorem dupLast_append_pair {β : Type} (x y : β) : ∀ rest : List β,
    dupLast (rest ++ [x, y]) = .ok (rest ++ [x, x])
  | [] => rfl
  | a :: rest => by
    rw [List.cons_append, dupLast_cons a _ (by simp), dupLast_append_pair x y rest]
    rfl

/-- `dupLast` on the rows `F 0, …, F (n-1)`: row `i` of the result is `F (min i (n-2))` -/
theorem dupLast_range_map {β : Type} (F : ℕ → β) {n : ℕ} (hn : 2 ≤ n) :
    dupLast ((List.range n).map F) = .ok ((List.range n).map (fun i => F (min i (n - 2)))) := by
  obtain ⟨k, rfl⟩ : ∃ k, n = k + 2 := ⟨n - 2, by omega⟩
  have e1 : (List.range (k + 2)).map F = (List.range k).map F ++ [F k, F (k + 1)] := by
    simp [List.range_succ]
  have e2 : (List.range (k + 2)).map (fun i => F (min i (k + 2 - 2)))
      = (List.range k).map F ++ [F k, F k] := by
    simp only [List.range_succ, List.map_append, List.map_cons, List.map_nil, Nat.add_sub_cancel,
      List.append_assoc, List.cons_append, List.nil_append, Nat.min_self]
    congr 1
    · apply List.map_congr_left
      intro i hi
      rw [Nat.min_eq_left (List.mem_range.1 hi).le]
    · simp
  rw [e1, e2, dupLast_append_pair]

theorem lastL_of_ne_nil {β : Type} : ∀ xs : List β, xs ≠ [] → ∃ l, lastL xs = some l
  | [], h => absurd rfl h
  | [x], _ => ⟨x, rfl⟩
  | _ :: y :: rest, _ => by simpa only [lastL] using lastL_of_ne_nil (y :: rest) (by simp)

theorem appendLast_of_ne_nil {β : Type} {xs : List β} (h : xs ≠ []) :
    ∃ rest l, xs = rest ++ [l] ∧ appendLast xs = .ok (rest ++ [l, l]) := by
  obtain ⟨l, hl⟩ := lastL_of_ne_nil xs h
  obtain ⟨rest, hr⟩ := lastL_some xs l hl
  refine ⟨rest, l, hr, ?_⟩
  simp only [appendLast, hl]
  rw [hr, List.append_assoc]
  rfl

/-! ### the batched inputs of the Black–Scholes hedger -/

theorem bs_not_stateDependent : bsFeatures.any Feature.stateDependent = false := rfl
theorem ww_stateDependent : wwFeatures.any Feature.stateDependent = true := rfl

/-- `FeatureList.get(None)` of the Black–Scholes features on a positive market: row `i` is
`[log(S_i/K), (n-1-i)·δ, v_i]`, all finite -/
theorem bs_inputsAll {m : Market XR} {n : ℕ} {Ss vs : List ℝ} {K δ : ℝ}
    (hm : PositiveMarket m n Ss vs K δ) :
    inputsAll n bsFeatures m = .ok ((List.range n).map (inRow Ss vs K δ n)) := by
  simp only [bsFeatures, inputsAll, Feature.getAll, BaseFeature.getAll, hm.spot_eq, hm.vol_eq,
    hm.strike_eq, hm.dt_eq, ok_bind, pure_eq, List.length_map, List.length_range, hm.spot_len,
    hm.vol_len, ne_eq, not_true_eq_false, if_false]
  congr 1
  apply List.ext_getElem
  · simp [hm.spot_len, hm.vol_len]
  · intro i h1 h2
    have hi : i < n := by simpa using h2
    have hiS : i < Ss.length := by rw [hm.spot_len]; exact hi
    have hiv : i < vs.length := by rw [hm.vol_len]; exact hi
    have hS : 0 < Ss[i] := hm.spot_pos _ (List.getElem_mem hiS)
    have hc : ((n - 1 : ℕ) : ℝ) * δ - (i : ℝ) * δ = ((n - 1 - i : ℕ) : ℝ) * δ := by
      rw [Nat.cast_sub (by omega : i ≤ n - 1)]; ring
    simp only [List.getElem_zipWith, List.getElem_map, List.getElem_range, List.getElem_replicate,
      logMoneyness_fin hS hm.strike_pos, natCast_def, fin_mul_fin, fin_sub_fin, hc, inRow,
      getD_of_lt _ _ hiS, getD_of_lt _ _ hiv, List.append_nil,
      List.cons_append, List.nil_append]

/-! ### the Whalley–Wilmott hedging module as a row function -/

/-- the `WhalleyWilmott(EuropeanOption)` module on one row
`[log_moneyness, time_to_maturity, volatility, prev_hedge] ↦ [hedge]` (as in Driver/Hedge.lean):
the previous hedge clamped to the no-transaction band `delta ± width` -/
noncomputable def wwRow (call : Bool) (K c a : XR) : List XR → List XR
  | [s, t, v, prev] =>
    match bsEuropeanDelta s t v call, bsEuropeanGamma s t v K with
    | .ok d, .ok gm => [wwForward prev d (wwWidth gm (K * Transc.exp s) c a)]
    | _, _ => [nan]
  | _ => [nan]

/-- real half-width of the Whalley–Wilmott band -/
noncomputable def wwWidthR (g sp c a : ℝ) : ℝ := (c * (3 / 2) * (g * g) * sp / a) ^ ((1 : ℝ) / 3)

/-- real Whalley–Wilmott hedge -/
noncomputable def wwHedgeR (call : Bool) (K c a s t v p : ℝ) : ℝ :=
  min (max p (bsDeltaR call s t v - wwWidthR (bsGammaR s t v K) (K * Real.exp s) c a))
    (bsDeltaR call s t v + wwWidthR (bsGammaR s t v K) (K * Real.exp s) c a)

/-- at `XR` the model's test "`cost == 0`" (`cost ≤ 0 ∧ 0 ≤ cost`) holds exactly for the finite zero -/
theorem cost_eq_zero_iff (c : ℝ) : ((fin c : XR) ≤ 0 ∧ (0 : XR) ≤ fin c) ↔ c = 0 := by
  simp only [zero_def, fin_le_fin]
  exact ⟨fun h => le_antisymm h.1 h.2, fun h => ⟨h.le, h.ge⟩⟩

/-- … and fails for a NaN cost (`NaN != 0` is `True` in torch: the width is computed, NaN) -/
theorem cost_nan_not_zero : ¬ ((nan : XR) ≤ 0 ∧ (0 : XR) ≤ nan) := fun h => not_nan_le _ h.1

/-- **zero cost: zero half-width, whatever gamma, spot and risk aversion are** — also for
`gamma = +∞` (at the money at expiry), `NaN` or a zero risk aversion (`width.where(cost != 0, 0)`) -/
theorem wwWidth_zero_cost (g sp a : XR) : wwWidth g sp (fin 0) a = fin 0 := by
  unfold wwWidth
  rw [if_pos ((cost_eq_zero_iff 0).2 rfl)]
  rfl

/-- with a cost, infinite gamma still gives an infinite half-width (positive finite cost, spot and
risk aversion) -/
theorem wwWidth_pinf_gamma {sp c a : ℝ} (hsp : 0 < sp) (hc : 0 < c) (ha : 0 < a) :
    wwWidth pinf (fin sp) (fin c) (fin a) = pinf := by
  have h32 : (0 : ℝ) < c * (3 / 2) := by positivity
  simp only [wwWidth, if_neg (mt (cost_eq_zero_iff c).1 hc.ne'), three_def, two_def, fin_div_two,
    fin_mul_fin, pinf_mul_pinf, fin_mul_pinf_pos h32, pinf_mul_fin_pos hsp, pinf_div_fin_nonneg ha.le,
    cbrt_pinf]

theorem wwWidth_fin (g sp c : ℝ) {a : ℝ} (ha : a ≠ 0) :
    wwWidth (fin g) (fin sp) (fin c) (fin a) = fin (wwWidthR g sp c a) := by
  by_cases hc : c = 0
  · subst hc
    rw [wwWidth_zero_cost]
    simp [wwWidthR]
  · simp only [wwWidth, if_neg (mt (cost_eq_zero_iff c).1 hc), three_def, two_def, fin_div_two,
      fin_mul_fin, fin_div_fin_ne _ ha, cbrt_fin, wwWidthR]

/-- zero half-width: the hedge is the delta -/
theorem wwForward_zero_width (p d : ℝ) : wwForward (fin p) (fin d) (fin 0) = fin d := by
  simp only [wwForward, torchClamp, fin_sub_fin, fin_add_fin, fin_max_fin, fin_min_fin, sub_zero,
    add_zero]
  exact congrArg fin (min_eq_right (le_max_right p d))

theorem wwForward_fin (p d w : ℝ) :
    wwForward (fin p) (fin d) (fin w) = fin (min (max p (d - w)) (d + w)) := by
  simp only [wwForward, torchClamp, fin_sub_fin, fin_add_fin, fin_max_fin, fin_min_fin]

theorem idx_map_fin (xs : List ℝ) {i : ℕ} (h : i < xs.length) :
    idx (xs.map fin) i = .ok (fin (xs.getD i 1)) := by
  simp [idx, h]

/-- `FeatureList.get(i)` of the Whalley–Wilmott features at a step `i ≤ n-2`: the interior input
row followed by the hedger's state -/
theorem ww_inputsAt {m : Market XR} {n : ℕ} {Ss vs : List ℝ} {K δ : ℝ}
    (hm : PositiveMarket m n Ss vs K δ) {i : ℕ} (hi : i + 2 ≤ n) (prev : List XR) :
    inputsAt wwFeatures m prev i = .ok (inRow Ss vs K δ n i ++ prev) := by
  have hiS : i < Ss.length := by rw [hm.spot_len]; omega
  have hiv : i < vs.length := by rw [hm.vol_len]; omega
  have hS : 0 < Ss.getD i 1 := getD_one_pos hm.spot_pos i
  have hn0 : n ≠ 0 := by omega
  have hmod : n - i % n - 1 = n - 1 - i := by rw [Nat.mod_eq_of_lt (by omega)]; omega
  simp only [wwFeatures, inputsAt, Feature.getAt, BaseFeature.getAt, hm.spot_eq, hm.vol_eq,
    hm.strike_eq, hm.dt_eq, idx_map_fin _ hiS, idx_map_fin _ hiv, ok_bind, pure_eq,
    List.length_map, hm.spot_len, hn0, if_false, hmod, natCast_def, fin_mul_fin,
    logMoneyness_fin hS hm.strike_pos, inRow, List.cons_append, List.nil_append, List.append_nil]

/-! ### `pl` on finite data is exact real arithmetic -/

theorem sumL_map_fin : ∀ xs : List ℝ, sumL (xs.map fin) = fin (sumL xs)
  | [] => rfl
  | x :: xs => by simp only [List.map_cons, sumL, sumL_map_fin xs, fin_add_fin]

theorem diffL_map_fin : ∀ xs : List ℝ, diffL (xs.map fin) = (diffL xs).map fin
  | [] => rfl
  | [_] => rfl
  | x :: y :: rest => by
    have := diffL_map_fin (y :: rest)
    simp only [List.map_cons, diffL, fin_sub_fin] at this ⊢
    rw [this]

theorem initL_map {β γ : Type} (f : β → γ) : ∀ xs : List β, initL (xs.map f) = (initL xs).map f
  | [] => rfl
  | [_] => rfl
  | x :: y :: rest => by
    have := initL_map f (y :: rest)
    simp only [List.map_cons, initL] at this ⊢
    rw [this]

theorem tailL_map {β γ : Type} (f : β → γ) : ∀ xs : List β, tailL (xs.map f) = (tailL xs).map f
  | [] => rfl
  | _ :: _ => rfl

theorem absS_fin (x : ℝ) : absS (fin x) = fin (absS x) := by
  by_cases h : (0 : ℝ) ≤ x
  · simp [absS, h]
  · simp [absS, h]

theorem zipWith_hom {β γ ε β' γ' ε' : Type} (fb : β' → β) (fc : γ' → γ) (fe : ε' → ε)
    {g : β → γ → ε} {g' : β' → γ' → ε'} (h : ∀ x y, g (fb x) (fc y) = fe (g' x y)) :
    ∀ (xs : List β') (ys : List γ'),
      List.zipWith g (xs.map fb) (ys.map fc) = (List.zipWith g' xs ys).map fe
  | [], _ => by simp
  | _ :: _, [] => by simp
  | x :: xs, y :: ys => by simp [h, zipWith_hom fb fc fe h xs ys]

theorem zipWith3L_hom {β γ ζ ε β' γ' ζ' ε' : Type} (fb : β' → β) (fc : γ' → γ) (fz : ζ' → ζ)
    (fe : ε' → ε) {g : β → γ → ζ → ε} {g' : β' → γ' → ζ' → ε'}
    (h : ∀ x y z, g (fb x) (fc y) (fz z) = fe (g' x y z)) :
    ∀ (xs : List β') (ys : List γ') (zs : List ζ'),
      zipWith3L g (xs.map fb) (ys.map fc) (zs.map fz) = (zipWith3L g' xs ys zs).map fe
  | [], _, _ => by simp [zipWith3L]
  | _ :: _, [], _ => by simp [zipWith3L]
  | _ :: _, _ :: _, [] => by simp [zipWith3L]
  | x :: xs, y :: ys, z :: zs => by simp [zipWith3L, h, zipWith3L_hom fb fc fz fe h xs ys zs]

theorem gains1_fin (s u : List ℝ) : gains1 (s.map fin) (u.map fin) = fin (gains1 s u) := by
  unfold gains1 mulL
  rw [initL_map, diffL_map_fin, zipWith_hom fin fin fin (fun _ _ => rfl), sumL_map_fin]

theorem cost1_fin (c : ℝ) (s u : List ℝ) :
    cost1 (fin c) (s.map fin) (u.map fin) = fin (cost1 c s u) := by
  unfold cost1
  rw [tailL_map, diffL_map_fin,
    zipWith_hom fin fin fin (g' := fun sp du => sp * absS du * c)
      (fun sp du => by rw [absS_fin, fin_mul_fin, fin_mul_fin]), sumL_map_fin]

theorem first1_fin (c : ℝ) (s u : List ℝ) :
    first1 (fin c) (s.map fin) (u.map fin) = fin (first1 c s u) := by
  cases s <;> cases u <;> simp [first1, absS_fin]

/-- the column of a one-instrument hedge whose rows are finite singletons is a finite series -/
theorem unitOf_fin : ∀ rows : List (List XR), (∀ row ∈ rows, ∃ d : ℝ, row = [fin d]) →
    ∃ ds : List ℝ, ds.length = rows.length ∧ C14Aux.unitOf rows = ds.map fin
  | [], _ => ⟨[], rfl, rfl⟩
  | r :: rows, h => by
    obtain ⟨d, rfl⟩ := h r (by simp)
    obtain ⟨ds, hl, hds⟩ := unitOf_fin rows (fun row hr => h row (by simp [hr]))
    refine ⟨d :: ds, by simp [hl], ?_⟩
    simp only [C14Aux.unitOf, List.map_cons] at hds ⊢
    rw [hds]

end PfVerif.C18HedgeAux

namespace PfVerif.C18Hedge
open PfVerif XR C18Aux C02Aux C18HedgeAux

/-! ### 1. the Black–Scholes module is finite on interior rows -/

/-- On a finite row with positive time to maturity and volatility the Black–Scholes module
returns the finite real delta (`Φ(d1)` for the call, `Φ(d1) − 1` for the put). -/
theorem bs_row_finite (call : Bool) (s : ℝ) {t v : ℝ} (ht : 0 < t) (hv : 0 < v) :
    bsRow call [fin s, fin t, fin v] = [fin (bsDeltaR call s t v)] := by
  simp only [bsRow, bsDelta_interior call s ht hv]

/-- the same, existentially -/
theorem bs_row_finite' (call : Bool) (s : ℝ) {t v : ℝ} (ht : 0 < t) (hv : 0 < v) :
    ∃ d : ℝ, bsRow call [fin s, fin t, fin v] = [fin d] :=
  ⟨_, bs_row_finite call s ht hv⟩

/-- every input row up to index `n-2` is an interior row, hence the module is finite there -/
theorem bs_row_inRow (call : Bool) {Ss vs : List ℝ} {K δ : ℝ} {n j : ℕ}
    (hv : ∀ v ∈ vs, 0 < v) (hδ : 0 < δ) (hj : j + 2 ≤ n) :
    ∃ d : ℝ, bsRow call (inRow Ss vs K δ n j) = [fin d] :=
  bs_row_finite' call _ (ttm_pos hδ hj) (getD_one_pos hv j)

/-! ### 2. the Black–Scholes hedger -/

/-- **Totality and explicit form.**  On a positive market with `n ≥ 2` steps `compute_hedge` of the
Black–Scholes hedger succeeds, and row `i` of the hedge is the module evaluated on the input row
`min i (n-2)`: the last row (`i = n-1`) is evaluated at step `n-2`, time to maturity `δ`, *not* at
time to maturity `0`. -/
theorem bs_hedge_eq (call : Bool) {m : Market XR} {n : ℕ} {Ss vs : List ℝ} {K δ : ℝ}
    (hm : PositiveMarket m n Ss vs K δ) (hn : 2 ≤ n) :
    computeHedge (bsRow call) bsFeatures m n 1
      = .ok ((List.range n).map (fun i => bsRow call (inRow Ss vs K δ n (min i (n - 2))))) := by
  simp only [computeHedge, bs_not_stateDependent, Bool.false_eq_true, if_false, bs_inputsAll hm,
    ok_bind, List.map_map]
  exact dupLast_range_map (fun i => bsRow call (inRow Ss vs K δ n i)) hn

/-- **The Black–Scholes hedger produces finite hedges on every path, including the final step.**
Hypotheses: `hm` — the market has `n` steps, finite positive spots, volatilities, strike and time
step (`PositiveMarket`); `hn` — at least two time steps (otherwise `compute_hedge` fails);
`h` — `hedge` is the result (it always exists, `bs_hedge_eq`).  Conclusion: `n` rows; every row is
one finite number; the last row equals row `n-2`. -/
theorem bs_hedge_finite (call : Bool) {m : Market XR} {n : ℕ} {Ss vs : List ℝ} {K δ : ℝ}
    (hm : PositiveMarket m n Ss vs K δ) (hn : 2 ≤ n) {hedge : List (List XR)}
    (h : computeHedge (bsRow call) bsFeatures m n 1 = .ok hedge) :
    hedge.length = n ∧ (∀ row ∈ hedge, ∃ d : ℝ, row = [fin d]) ∧ hedge[n - 1]? = hedge[n - 2]? := by
  rw [bs_hedge_eq call hm hn, Except.ok.injEq] at h
  subst h
  refine ⟨by simp, ?_, ?_⟩
  · intro row hrow
    obtain ⟨i, _, rfl⟩ := List.mem_map.1 hrow
    exact bs_row_inRow call hm.vol_pos hm.dt_pos (by omega)
  · rw [List.getElem?_map, List.getElem?_map, List.getElem?_range (by omega),
      List.getElem?_range (by omega)]
    simp only [Option.map_some]
    congr 3
    omega

/-- in the form of the property: every entry of every row of the hedge is finite -/
theorem bs_hedge_entries_finite (call : Bool) {m : Market XR} {n : ℕ} {Ss vs : List ℝ} {K δ : ℝ}
    (hm : PositiveMarket m n Ss vs K δ) (hn : 2 ≤ n) {hedge : List (List XR)}
    (h : computeHedge (bsRow call) bsFeatures m n 1 = .ok hedge) :
    ∀ row ∈ hedge, ∀ x ∈ row, isFinite x := by
  intro row hrow x hx
  obtain ⟨d, rfl⟩ := (bs_hedge_finite call hm hn h).2.1 row hrow
  rw [List.mem_singleton.1 hx]
  exact isFinite_fin d

/-- **The final step.**  The last row of the hedge is the Black–Scholes delta at step `n-2`, time
to maturity exactly `δ > 0`: no evaluation at time to maturity `0` takes place. -/
theorem bs_hedge_last_row (call : Bool) {m : Market XR} {n : ℕ} {Ss vs : List ℝ} {K δ : ℝ}
    (hm : PositiveMarket m n Ss vs K δ) (hn : 2 ≤ n) {hedge : List (List XR)}
    (h : computeHedge (bsRow call) bsFeatures m n 1 = .ok hedge) :
    hedge[n - 1]? = some [fin (bsDeltaR call (Real.log (Ss.getD (n - 2) 1 / K)) δ
      (vs.getD (n - 2) 1))] := by
  rw [bs_hedge_eq call hm hn, Except.ok.injEq] at h
  subst h
  rw [List.getElem?_map, List.getElem?_range (by omega)]
  have e1 : min (n - 1) (n - 2) = n - 2 := by omega
  have e2 : ((n - 1 - (n - 2) : ℕ) : ℝ) * δ = δ := by
    have : n - 1 - (n - 2) = 1 := by omega
    rw [this]; simp
  simp only [Option.map_some, e1, inRow, e2]
  rw [bs_row_finite call _ hm.dt_pos (getD_one_pos hm.vol_pos _)]

/-! ### 3. the Whalley–Wilmott hedger -/

/-- On a finite row with positive time to maturity and volatility, finite positive strike, finite
cost rate `c` and finite non-zero risk aversion `a`, the Whalley–Wilmott module returns the finite
real hedge `clamp(prev, Δ − w, Δ + w)`, `w = (3c/2 · Γ² · S / a)^{1/3}`.
(`XR`'s `cbrt` is the real power `x^{1/3}`, which is faithful to `torch.pow` for `x ≥ 0`, that is for
`c ≥ 0`, `a > 0` — the documented domain; finiteness itself only needs `a ≠ 0`.) -/
theorem ww_row_finite (call : Bool) (s p c : ℝ) {t v K a : ℝ} (ht : 0 < t) (hv : 0 < v)
    (hK : 0 < K) (ha : a ≠ 0) :
    wwRow call (fin K) (fin c) (fin a) [fin s, fin t, fin v, fin p]
      = [fin (wwHedgeR call K c a s t v p)] := by
  simp only [wwRow, bsDelta_interior call s ht hv, bsGamma_interior s ht hv hK, exp_fin,
    fin_mul_fin, wwWidth_fin _ _ _ ha, wwForward_fin, wwHedgeR]

/-- **The final row at zero cost** (scope remark).  `compute_hedge` never evaluates the module on
the final row (time to maturity `0`), but were it evaluated there, at the money with zero cost, the
gamma is `φ(0)/0 = +∞` while the half-width is `0` (`width.where(cost != 0, 0)`), so the hedge is
`clamp(prev, Δ, Δ) = Δ`, the finite Black–Scholes delta at the strike (`½` call, `−½` put).
Before the fix of `ww_width` (`return (cost * (3/2) * gamma² * spot / a).pow(1/3)`, no `where`) the
value here was NaN: `(0 · ∞ · …)^{1/3}`; this theorem then read `… = [nan]`
(`ww_row_nan_at_expiry`). -/
theorem ww_row_zero_cost_at_expiry (call : Bool) (p K a : ℝ) {v : ℝ} (hv : 0 ≤ v) :
    wwRow call (fin K) (fin 0) (fin a) [fin 0, fin 0, fin v, fin p]
      = [fin (if call then 1 / 2 else -1 / 2)] := by
  have h : ((0 : ℝ) = 0 ∧ 0 ≤ v) ∨ (v = 0 ∧ (0 : ℝ) ≤ 0) := Or.inl ⟨rfl, hv⟩
  have hden : fin K * Transc.exp (fin 0) * fin v * Transc.sqrt (fin 0) = fin 0 := by
    simp only [exp_fin, sqrt_zero, fin_mul_fin, mul_zero]
  have hd := (C18.european_delta_at_expiry h 0).2.2 rfl
  have hg : bsEuropeanGamma (fin 0) (fin 0) (fin v) (fin K) = .ok pinf := by
    simp only [bsEuropeanGamma, bsD1_expiry 0 h, dLim_zero, ok_bind, pure_eq, hden, npdf_fin,
      guardedDiv_pos_zero (phi_pos 0)]
  cases call
  · simp only [wwRow, hd.2, hg, wwWidth_zero_cost, wwForward_zero_width, Bool.false_eq_true,
      if_false]
  · simp only [wwRow, hd.1, hg, wwWidth_zero_cost, wwForward_zero_width, if_true]

/-- with a positive cost the half-width on the final row at the money is `+∞` (infinite gamma), the
band is `[−∞, +∞]` and the previous hedge is kept: finite as well -/
theorem ww_row_pos_cost_at_expiry (call : Bool) (p : ℝ) {K c a v : ℝ} (hK : 0 < K) (hc : 0 < c)
    (ha : 0 < a) (hv : 0 ≤ v) :
    wwRow call (fin K) (fin c) (fin a) [fin 0, fin 0, fin v, fin p] = [fin p] := by
  have h : ((0 : ℝ) = 0 ∧ 0 ≤ v) ∨ (v = 0 ∧ (0 : ℝ) ≤ 0) := Or.inl ⟨rfl, hv⟩
  have hden : fin K * Transc.exp (fin 0) * fin v * Transc.sqrt (fin 0) = fin 0 := by
    simp only [exp_fin, sqrt_zero, fin_mul_fin, mul_zero]
  have hd := (C18.european_delta_at_expiry h 0).2.2 rfl
  have hg : bsEuropeanGamma (fin 0) (fin 0) (fin v) (fin K) = .ok pinf := by
    simp only [bsEuropeanGamma, bsD1_expiry 0 h, dLim_zero, ok_bind, pure_eq, hden, npdf_fin,
      guardedDiv_pos_zero (phi_pos 0)]
  have hsp : (0 : ℝ) < K * Real.exp 0 := mul_pos hK (Real.exp_pos 0)
  cases call
  · simp only [wwRow, hd.2, hg, exp_fin, fin_mul_fin, wwWidth_pinf_gamma hsp hc ha, wwForward,
      torchClamp, fin_sub_pinf, fin_add_pinf]
    rfl
  · simp only [wwRow, hd.1, hg, exp_fin, fin_mul_fin, wwWidth_pinf_gamma hsp hc ha, wwForward,
      torchClamp, fin_sub_pinf, fin_add_pinf]
    rfl

/-- the recurrent loop of `compute_hedge` over steps `i, …, i+k-1`, all `≤ n-2`, started from a
finite state, succeeds with `k` finite rows -/
theorem ww_loop_finite (call : Bool) {m : Market XR} {n : ℕ} {Ss vs : List ℝ} {K δ : ℝ}
    (hm : PositiveMarket m n Ss vs K δ) (c : ℝ) {a : ℝ} (ha : a ≠ 0) :
    ∀ (k i : ℕ) (p : ℝ), i + k + 1 ≤ n →
      ∃ outs, hedgeLoop (wwRow call (fin K) (fin c) (fin a)) wwFeatures m k i [fin p] = .ok outs ∧
        outs.length = k ∧ ∀ row ∈ outs, ∃ d : ℝ, row = [fin d] := by
  intro k
  induction k with
  | zero => intro i p _; exact ⟨[], rfl, rfl, by simp⟩
  | succ k ih =>
    intro i p hi
    obtain ⟨h0, hrow⟩ : ∃ h0 : ℝ,
        wwRow call (fin K) (fin c) (fin a) (inRow Ss vs K δ n i ++ [fin p]) = [fin h0] :=
      ⟨_, ww_row_finite call _ p c (ttm_pos hm.dt_pos (by omega)) (getD_one_pos hm.vol_pos i)
        hm.strike_pos ha⟩
    obtain ⟨rest, hrest, hlen, hfin⟩ := ih (i + 1) h0 (by omega : i + 1 + k + 1 ≤ n)
    refine ⟨[fin h0] :: rest, ?_, by simp [hlen], ?_⟩
    · simp only [hedgeLoop, ww_inputsAt hm (by omega : i + 2 ≤ n), ok_bind, hrow, hrest, pure_eq]
    · intro row hr
      rcases List.mem_cons.1 hr with rfl | hr
      · exact ⟨_, rfl⟩
      · exact hfin row hr

/-- **The Whalley–Wilmott hedger produces finite hedges on every path, including the final step.**
Hypotheses: `hm` — positive finite market with `n` steps; `hn` — at least two steps; `c` — any
finite cost rate; `ha` — finite non-zero risk aversion (see `ww_row_finite` for `c ≥ 0`, `a > 0`).
The initial state is `prev_hedge = [0]`.  Conclusion: `compute_hedge` succeeds with `n` rows, every
row is one finite number, and the last row is a copy of the one before (`outputs.append(outputs[-1])`:
the model is evaluated at steps `0..n-2` only, never at time to maturity `0`). -/
theorem ww_hedge_finite (call : Bool) {m : Market XR} {n : ℕ} {Ss vs : List ℝ} {K δ : ℝ}
    (hm : PositiveMarket m n Ss vs K δ) (hn : 2 ≤ n) (c : ℝ) {a : ℝ} (ha : a ≠ 0) :
    ∃ hedge, computeHedge (wwRow call (fin K) (fin c) (fin a)) wwFeatures m n 1 = .ok hedge ∧
      hedge.length = n ∧ (∀ row ∈ hedge, ∃ d : ℝ, row = [fin d]) ∧
      ∃ x rest, hedge = rest ++ [x, x] := by
  obtain ⟨outs, houts, hlen, hfin⟩ := ww_loop_finite call hm c ha (n - 1) 0 0 (by omega)
  have hne : outs ≠ [] := by
    intro e; rw [e] at hlen; simp at hlen; omega
  obtain ⟨rest, l, e1, e2⟩ := appendLast_of_ne_nil hne
  refine ⟨rest ++ [l, l], ?_, ?_, ?_, l, rest, rfl⟩
  · simp only [computeHedge, ww_stateDependent, if_true]
    show (hedgeLoop _ wwFeatures m (n - 1) 0 [fin 0] >>= appendLast) = _
    rw [houts, ok_bind, e2]
  · rw [e1] at hlen; simp at hlen ⊢; omega
  · intro row hr
    apply hfin
    rw [e1]
    simp only [List.mem_append, List.mem_cons, List.not_mem_nil, or_false, or_self] at hr ⊢
    exact hr

/-- the hypothesis form: whatever `compute_hedge` returns has only finite entries -/
theorem ww_hedge_entries_finite (call : Bool) {m : Market XR} {n : ℕ} {Ss vs : List ℝ} {K δ : ℝ}
    (hm : PositiveMarket m n Ss vs K δ) (hn : 2 ≤ n) (c : ℝ) {a : ℝ} (ha : a ≠ 0)
    {hedge : List (List XR)}
    (h : computeHedge (wwRow call (fin K) (fin c) (fin a)) wwFeatures m n 1 = .ok hedge) :
    ∀ row ∈ hedge, ∀ x ∈ row, isFinite x := by
  obtain ⟨hedge', h', _, hfin, _⟩ := ww_hedge_finite call hm hn c ha
  rw [h', Except.ok.injEq] at h
  subst h
  intro row hrow x hx
  obtain ⟨d, rfl⟩ := hfin row hrow
  rw [List.mem_singleton.1 hx]
  exact isFinite_fin d

/-! ### 4. P&L -/

/-- **`pl` of one path on finite data is the exact real P&L** (any number of instruments, with or
without cost, payoff, `deduct_first_cost`; no shape hypothesis is needed: sums, products,
differences and absolute values of finite values are finite and exact). -/
theorem plPath_fin (spot unit : List (List ℝ)) (cost : Option (List ℝ)) (payoff : Option ℝ)
    (first : Bool) :
    plPath (spot.map (List.map fin)) (unit.map (List.map fin)) (cost.map (List.map fin))
      (payoff.map fin) first = fin (plPath spot unit cost payoff first) := by
  have hg := zipWith_hom (List.map fin) (List.map fin) fin (g := gains1) (g' := gains1) gains1_fin
    spot unit
  have hc := fun c : List ℝ => zipWith3L_hom fin (List.map fin) (List.map fin) fin (g := cost1)
    (g' := cost1) cost1_fin c spot unit
  have hf := fun c : List ℝ => zipWith3L_hom fin (List.map fin) (List.map fin) fin (g := first1)
    (g' := first1) first1_fin c spot unit
  rcases cost with _ | c <;> rcases payoff with _ | z <;> cases first <;>
    simp only [plPath, Option.map_none, Option.map_some, hg, hc, hf, sumL_map_fin, fin_sub_fin,
      Bool.false_eq_true, if_false, if_true]

/-- finite spot, unit, cost and payoff give a finite P&L -/
theorem pl_finite_of_finite (spot unit : List (List ℝ)) (cost : Option (List ℝ))
    (payoff : Option ℝ) (first : Bool) :
    ∃ x : ℝ, plPath (spot.map (List.map fin)) (unit.map (List.map fin))
      (cost.map (List.map fin)) (payoff.map fin) first = fin x :=
  ⟨_, plPath_fin spot unit cost payoff first⟩

/-- one path, one hedging instrument: hedge with the module `g`, then `pl` (`C14Aux.pathPL`, what
`Hedger.compute_pl` does per path).  If the hedge has finite singleton rows, the P&L is finite. -/
theorem pathPL_finite_of_hedge_finite (g : List XR → List XR) (fs : List (Feature XR))
    {m : Market XR} {n : ℕ} {Ss : List ℝ} (hs : m.spot = Ss.map fin) (c z : ℝ) (first : Bool)
    {hedge : List (List XR)} (h : computeHedge g fs m n 1 = .ok hedge)
    (hfin : ∀ row ∈ hedge, ∃ d : ℝ, row = [fin d]) :
    ∃ x : ℝ, C14Aux.pathPL g fs m n (fin c) (fin z) first = .ok (fin x) := by
  obtain ⟨ds, _, hds⟩ := unitOf_fin hedge hfin
  refine ⟨plPath [Ss] [ds] (some [c]) (some z) first, ?_⟩
  simp only [C14Aux.pathPL, h, ok_bind, pure_eq, hs, hds]
  exact congrArg Except.ok (plPath_fin [Ss] [ds] (some [c]) (some z) first)

/-- **Finite P&L of the Black–Scholes hedger on every path** (proportional cost rate `c`, payoff
`z`, both finite; with or without the initial cost) -/
theorem bs_pl_finite (call : Bool) {m : Market XR} {n : ℕ} {Ss vs : List ℝ} {K δ : ℝ}
    (hm : PositiveMarket m n Ss vs K δ) (hn : 2 ≤ n) (c z : ℝ) (first : Bool) :
    ∃ x : ℝ, C14Aux.pathPL (bsRow call) bsFeatures m n (fin c) (fin z) first = .ok (fin x) :=
  pathPL_finite_of_hedge_finite _ _ hm.spot_eq c z first (bs_hedge_eq call hm hn)
    (bs_hedge_finite call hm hn (bs_hedge_eq call hm hn)).2.1

/-- **Finite P&L of the Whalley–Wilmott hedger on every path** -/
theorem ww_pl_finite (call : Bool) {m : Market XR} {n : ℕ} {Ss vs : List ℝ} {K δ : ℝ}
    (hm : PositiveMarket m n Ss vs K δ) (hn : 2 ≤ n) (cw : ℝ) {a : ℝ} (ha : a ≠ 0) (c z : ℝ)
    (first : Bool) :
    ∃ x : ℝ, C14Aux.pathPL (wwRow call (fin K) (fin cw) (fin a)) wwFeatures m n (fin c) (fin z)
      first = .ok (fin x) := by
  obtain ⟨hedge, h, _, hfin, _⟩ := ww_hedge_finite call hm hn cw ha
  exact pathPL_finite_of_hedge_finite _ _ hm.spot_eq c z first h hfin

/-! ### non-vacuity: a concrete three-step market -/

/-- spots `100, 101, 99`, volatility `0.2`, strike `100`, `dt = 1/250` -/
noncomputable def exMarket : Market XR :=
  ⟨[fin 100, fin 101, fin 99], [], [fin 0.2, fin 0.2, fin 0.2], [], fin (1 / 250), fin 100, []⟩

theorem exMarket_positive :
    PositiveMarket exMarket 3 [100, 101, 99] [0.2, 0.2, 0.2] 100 (1 / 250) where
  spot_eq := rfl
  spot_len := rfl
  spot_pos := by intro S hS; simp at hS; rcases hS with rfl | rfl | rfl <;> norm_num
  vol_eq := rfl
  vol_len := rfl
  vol_pos := by intro v hv; simp at hv; rw [hv]; norm_num
  strike_eq := rfl
  strike_pos := by norm_num
  dt_eq := rfl
  dt_pos := by norm_num

/-- the hypotheses of the main theorems are satisfiable; the three-row hedge is computed, finite,
and its last row is the delta at step `1` with time to maturity `1/250` -/
example : ∃ hedge, computeHedge (bsRow true) bsFeatures exMarket 3 1 = .ok hedge ∧
    hedge.length = 3 ∧ (∀ row ∈ hedge, ∃ d : ℝ, row = [fin d]) ∧
    hedge[2]? = some [fin (bsDeltaR true (Real.log (101 / 100)) (1 / 250) 0.2)] := by
  have h := bs_hedge_eq true exMarket_positive (by norm_num)
  have hf := bs_hedge_finite true exMarket_positive (by norm_num) h
  refine ⟨_, h, hf.1, hf.2.1, ?_⟩
  simpa using bs_hedge_last_row true exMarket_positive (by norm_num) h

example : ∃ hedge, computeHedge (wwRow false (fin 100) (fin 0.001) (fin 1)) wwFeatures exMarket 3 1
    = .ok hedge ∧ hedge.length = 3 ∧ ∀ row ∈ hedge, ∃ d : ℝ, row = [fin d] := by
  obtain ⟨hedge, h, hl, hf, _⟩ :=
    ww_hedge_finite false exMarket_positive (by norm_num) 0.001 (one_ne_zero)
  exact ⟨hedge, h, hl, hf⟩

example : ∃ x : ℝ, C14Aux.pathPL (bsRow true) bsFeatures exMarket 3 (fin 0.001) (fin 1) true
    = .ok (fin x) :=
  bs_pl_finite true exMarket_positive (by norm_num) 0.001 1 true

end PfVerif.C18Hedge
