/-
  C15 — the NUMBERS of `Hedger.fit`: the numeric protocol `fitNum` (Model/FitNum.lean; driver op
  "fit_num") — per epoch zero_grad → loss of THIS epoch's fresh batch (`lossOfH`) → gradient (the
  ε-parts of the same loss at dual numbers, every parameter seeded in turn) → optimiser step
  (torch.optim.SGD / Adam) → validation at the new parameters — is gradient descent on the real loss
  of each fresh batch, with exactly one step per epoch and no accumulation.

  Props/C15.lean is about the protocol as a list of events (Model/Fit.lean); this file is about
  what the protocol computes, and links the two (`counts_match_events`).

  Layout: helper lemmas in `PfVerif.C15NumAux`; property theorems in `PfVerif.C15Num`:
    steps_eq_epochs(_from), prefix_run, params_prefix_determined, final_params
        — `k` epochs = `k` steps; the trajectory up to epoch `e` depends on batches `0..e` only
    epoch_protocol, stale_gradient_irrelevant, backward_accumulates, plain_sgd_update,
      no_accumulation, no_accumulation_run
        — the step of epoch `e` is `sgdStep θ_e (∇ loss_batch_e (θ_e))`, nothing else enters
    gradOf_is_gradient, plain_sgd_is_gradient_descent
        — every component of `gradOf` is the partial derivative (`HasDerivAt`) of the real loss of
          that batch, at the generic points of `C14Multi.lossH_gradient_mlp` (`GenericAt`)
    zero_epochs, zero_lr_unchanged, zero_gradient_plain_sgd, zero_gradient_momentum
    sgd_step_rule, adam_step_textbook — the modelled optimisers are the documented update rules
    validation_does_not_change_parameters, validation_entry_is_mean, no_validation_entry,
      history_length — validation
    counts_match_events — same step / loss-evaluation counts as `fitEvents` (Model/Fit.lean)
    layersOf_flatParams — the flat parameter layout
    example_two_epochs, example_gradient and `example`s — non-vacuity (concrete numbers)
-/
import PfVerif.Model.FitNum
import PfVerif.Props.C15
import PfVerif.Lemmas.C14Multi

namespace PfVerif.C15NumAux
open PfVerif PfVerif.FitNum

section generic
set_option linter.unusedSectionVars false
variable {α : Type} [Add α] [Sub α] [Mul α] [Div α] [Neg α] [OfNat α 0] [OfNat α 1] [OfNat α 2]
  [OfNat α 3] [LE α] [DecidableLE α] [Max α] [Min α] [NatCast α] [Transc α] [TranscPow α]

/-! ### one epoch, taken apart -/

theorem optStep_steps (o : OptSpec α) (s : OptState α) (p g : List α) :
    (optStep o s p g).2.steps = s.steps + 1 := by
  cases o with
  | sgd lr mu wd =>
    simp only [optStep, sgdStep]
    split <;> rfl
  | adam lr b1 b2 eps wd => rfl

/-- a successful epoch: the loss and the gradient are those of THIS batch at the OLD parameters,
the new parameters and optimiser state are `optStep` on exactly that gradient, the validation is
evaluated at the new parameters, the `.grad` slot holds that gradient -/
theorem epoch_inv {spec : FitSpec α} {o : OptSpec α} {st st' : TrainState α} {e : EpochData α}
    {out : EpochOut α} (h : epoch spec o st e = .ok (out, st')) :
    ∃ l g vs v, lossAt spec st.θ e.train = .ok l ∧ gradOf spec st.θ e.train = .ok g ∧
      validate spec (optStep o st.opt st.θ g).1 e.val = .ok (vs, v) ∧
      out = ⟨(optStep o st.opt st.θ g).1, l, g, vs, v⟩ ∧
      st' = ⟨(optStep o st.opt st.θ g).1, (optStep o st.opt st.θ g).2, some g⟩ := by
  unfold epoch at h
  simp only [TrainState.zeroGrad, TrainState.backward, TrainState.step] at h
  split at h
  · cases h
  next l hl =>
    split at h
    · cases h
    next g hg =>
      split at h
      · cases h
      next vs v hv =>
        injection h with h
        injection h with h1 h2
        exact ⟨l, g, vs, v, hl, hg, hv, h1.symm, h2.symm⟩

theorem epoch_of {spec : FitSpec α} {o : OptSpec α} {st : TrainState α} {e : EpochData α}
    {l : α} {g vs : List α} {v : Option α}
    (hl : lossAt spec st.θ e.train = .ok l) (hg : gradOf spec st.θ e.train = .ok g)
    (hv : validate spec (optStep o st.opt st.θ g).1 e.val = .ok (vs, v)) :
    epoch spec o st e = .ok (⟨(optStep o st.opt st.θ g).1, l, g, vs, v⟩,
      ⟨(optStep o st.opt st.θ g).1, (optStep o st.opt st.θ g).2, some g⟩) := by
  unfold epoch
  simp only [TrainState.zeroGrad, TrainState.backward, TrainState.step, hl, hg, hv, Option.getD_some]

/-- the `.grad` slot left by earlier epochs is irrelevant: `zero_grad()` clears it -/
theorem epoch_zeroGrad (spec : FitSpec α) (o : OptSpec α) (st : TrainState α) (x : Option (List α))
    (e : EpochData α) : epoch spec o { st with grad := x } e = epoch spec o st e := by
  unfold epoch
  rfl

/-! ### the loop -/

theorem runEpochs_append (spec : FitSpec α) (o : OptSpec α) (st : TrainState α)
    (es es' : List (EpochData α)) :
    runEpochs spec o st (es ++ es') =
      match runEpochs spec o st es with
      | .error er => .error er
      | .ok (outs, st1) =>
        match runEpochs spec o st1 es' with
        | .error er => .error er
        | .ok (outs', st2) => .ok (outs ++ outs', st2) := by
  induction es generalizing st with
  | nil =>
    simp only [List.nil_append, runEpochs]
    cases runEpochs spec o st es' with
    | error er => rfl
    | ok r => rfl
  | cons e es ih =>
    simp only [List.cons_append, runEpochs]
    cases epoch spec o st e with
    | error er => rfl
    | ok r =>
      obtain ⟨out, st1⟩ := r
      simp only [ih st1]
      cases runEpochs spec o st1 es with
      | error er => rfl
      | ok r2 =>
        obtain ⟨outs, st2⟩ := r2
        simp only
        cases runEpochs spec o st2 es' with
        | error er => rfl
        | ok r3 => rfl

theorem runEpochs_cons_inv {spec : FitSpec α} {o : OptSpec α} {st stf : TrainState α}
    {e : EpochData α} {es : List (EpochData α)} {outs : List (EpochOut α)}
    (h : runEpochs spec o st (e :: es) = .ok (outs, stf)) :
    ∃ out st1 outs', epoch spec o st e = .ok (out, st1) ∧
      runEpochs spec o st1 es = .ok (outs', stf) ∧ outs = out :: outs' := by
  simp only [runEpochs] at h
  split at h
  · cases h
  next out st1 he =>
    split at h
    · cases h
    next outs' stf' hr =>
      injection h with h
      injection h with h1 h2
      subst h2
      exact ⟨out, st1, outs', he, hr, h1.symm⟩

theorem runEpochs_append_inv {spec : FitSpec α} {o : OptSpec α} {st stf : TrainState α}
    {es es' : List (EpochData α)} {outs : List (EpochOut α)}
    (h : runEpochs spec o st (es ++ es') = .ok (outs, stf)) :
    ∃ outs1 st1 outs2, runEpochs spec o st es = .ok (outs1, st1) ∧
      runEpochs spec o st1 es' = .ok (outs2, stf) ∧ outs = outs1 ++ outs2 := by
  rw [runEpochs_append] at h
  split at h
  · cases h
  next outs1 st1 h1 =>
    split at h
    · cases h
    next outs2 st2 h2 =>
      injection h with h
      injection h with ha hb
      subst hb
      exact ⟨outs1, st1, outs2, h1, h2, ha.symm⟩

theorem runEpochs_length {spec : FitSpec α} {o : OptSpec α} {st stf : TrainState α}
    {es : List (EpochData α)} {outs : List (EpochOut α)}
    (h : runEpochs spec o st es = .ok (outs, stf)) : outs.length = es.length := by
  induction es generalizing st outs with
  | nil => simp only [runEpochs] at h; injection h with h; injection h with h1 _; subst h1; rfl
  | cons e es ih =>
    obtain ⟨out, st1, outs', -, hr, rfl⟩ := runEpochs_cons_inv h
    simp [ih hr]

theorem runEpochs_steps {spec : FitSpec α} {o : OptSpec α} {st stf : TrainState α}
    {es : List (EpochData α)} {outs : List (EpochOut α)}
    (h : runEpochs spec o st es = .ok (outs, stf)) : stf.opt.steps = st.opt.steps + es.length := by
  induction es generalizing st outs with
  | nil => simp only [runEpochs] at h; injection h with h; injection h with _ h2; subst h2; rfl
  | cons e es ih =>
    obtain ⟨out, st1, outs', he, hr, rfl⟩ := runEpochs_cons_inv h
    obtain ⟨l, g, vs, v, -, -, -, -, rfl⟩ := epoch_inv he
    rw [ih hr]
    simp only [optStep_steps, List.length_cons]
    omega

/-! ### validation -/

theorem mapM_ok_length {β γ : Type} {f : β → Except Err γ} {xs : List β} {ys : List γ}
    (h : xs.mapM f = .ok ys) : ys.length = xs.length := by
  induction xs generalizing ys with
  | nil => simp only [List.mapM_nil, pure, Except.pure] at h; injection h with h; subst h; rfl
  | cons x xs ih =>
    simp only [List.mapM_cons, bind, Except.bind, pure, Except.pure] at h
    split at h
    · cases h
    next y hy =>
      split at h
      · cases h
      next ys' hys =>
        injection h with h
        subst h
        simp [ih hys]

theorem mapM_ok_getElem? {β γ : Type} {f : β → Except Err γ} {xs : List β} {ys : List γ}
    (h : xs.mapM f = .ok ys) (i : Nat) (x : β) (hx : xs[i]? = some x) :
    ∃ y, f x = .ok y ∧ ys[i]? = some y := by
  induction xs generalizing ys i with
  | nil => simp at hx
  | cons x' xs ih =>
    simp only [List.mapM_cons, bind, Except.bind, pure, Except.pure] at h
    split at h
    · cases h
    next y hy =>
      split at h
      · cases h
      next ys' hys =>
        injection h with h
        subst h
        cases i with
        | zero =>
          simp only [List.getElem?_cons_zero, Option.some.injEq] at hx
          subst hx
          exact ⟨y, hy, rfl⟩
        | succ i =>
          simp only [List.getElem?_cons_succ] at hx ⊢
          exact ih hys i hx

theorem validate_none (spec : FitSpec α) (θ : List α) : validate spec θ none = .ok ([], none) := rfl

theorem validate_some_inv {spec : FitSpec α} {θ : List α} {bs : List (Batch α)} {vs : List α}
    {v : Option α} (h : validate spec θ (some bs) = .ok (vs, v)) :
    bs.mapM (lossAt spec θ) = .ok vs ∧ ∃ x, v = some x ∧ ensembleMean vs = .ok x := by
  simp only [validate] at h
  split at h
  · cases h
  next vs' hvs =>
    split at h
    · cases h
    next x hx =>
      injection h with h
      injection h with h1 h2
      subst h1
      exact ⟨hvs, x, h2.symm, hx⟩

theorem validate_none_inv {spec : FitSpec α} {θ : List α} {vs : List α}
    {v : Option α} (h : validate spec θ none = .ok (vs, v)) : vs = [] ∧ v = none := by
  simp only [validate] at h
  injection h with h
  injection h with h1 h2
  exact ⟨h1.symm, h2.symm⟩

/-- the same epochs with validation switched off -/
def dropVal (es : List (EpochData α)) : List (EpochData α) := es.map (fun e => { e with val := none })

/-- an epoch's record without its validation part -/
def stripVal (eo : EpochOut α) : EpochOut α := { eo with valEvals := [], valLoss := none }

theorem runEpochs_dropVal {spec : FitSpec α} {o : OptSpec α} {st stf : TrainState α}
    {es : List (EpochData α)} {outs : List (EpochOut α)}
    (h : runEpochs spec o st es = .ok (outs, stf)) :
    runEpochs spec o st (dropVal es) = .ok (outs.map stripVal, stf) := by
  induction es generalizing st outs with
  | nil => simp only [runEpochs] at h; injection h with h; injection h with h1 h2; subst h1 h2; rfl
  | cons e es ih =>
    obtain ⟨out, st1, outs', he, hr, rfl⟩ := runEpochs_cons_inv h
    obtain ⟨l, g, vs, v, hl, hg, -, rfl, rfl⟩ := epoch_inv he
    have he' := epoch_of (o := o) (e := { e with val := none }) hl hg (validate_none spec _)
    simp only [dropVal, List.map_cons, runEpochs, he']
    have := ih hr
    simp only [dropVal] at this
    simp only [this]
    rfl

end generic
end PfVerif.C15NumAux

/-! ## over `ℝ`: the gradient used by `fitNum` is the gradient of the loss -/

namespace PfVerif.C15NumAux
open PfVerif PfVerif.FitNum PfVerif.C14Aux PfVerif.C14MultiAux Topology

/-- the parameter list as functions of `t`: coordinate `q` runs, the others stay -/
noncomputable def curveFlat : List ℝ → ℕ → List (ℝ → ℝ)
  | [], _ => []
  | _ :: xs, 0 => (fun t => t) :: constL xs
  | x :: xs, q + 1 => (fun _ => x) :: curveFlat xs q

theorem tracksL_seedFlat (θ : List ℝ) (q : ℕ) (hq : q < θ.length) :
    TracksL (seedFlat θ q) (curveFlat θ q) (θ.getD q 0) := by
  induction θ generalizing q with
  | nil => simp at hq
  | cons x xs ih =>
    cases q with
    | zero =>
      simp only [seedFlat, curveFlat, List.getD_cons_zero]
      exact TracksL.cons tracks_var' (tracksL_lift xs)
    | succ q =>
      simp only [seedFlat, curveFlat, List.getD_cons_succ]
      exact TracksL.cons (tracks_const x) (ih q (by simpa using hq))

theorem evalL_curveFlat (θ : List ℝ) (q : ℕ) (t : ℝ) : evalL (curveFlat θ q) t = θ.set q t := by
  induction θ generalizing q with
  | nil => rfl
  | cons x xs ih =>
    cases q with
    | zero => simp [curveFlat, evalL, constL, Function.comp_def]
    | succ q =>
      have := ih q
      simp only [evalL] at this
      simp [curveFlat, evalL, this]

theorem set_getD_self (θ : List ℝ) (q : ℕ) : θ.set q (θ.getD q 0) = θ := by
  induction θ generalizing q with
  | nil => rfl
  | cons x xs ih => cases q with
    | zero => rfl
    | succ q => simp only [List.getD_cons_succ, List.set_cons_succ, ih q]

section layout
variable {θ : ℝ}

theorem tracksLL_rowsOf {D : List (Dual ℝ)} {f : List (ℝ → ℝ)} (h : TracksL D f θ) (c r : ℕ) :
    TracksLL (rowsOf c r D) (rowsOf c r f) θ := by
  induction r generalizing D f with
  | zero => exact List.Forall₂.nil
  | succ r ih =>
    exact List.Forall₂.cons (List.forall₂_take c h) (ih (List.forall₂_drop c h))

theorem tracksLayers_layersOf {D : List (Dual ℝ)} {f : List (ℝ → ℝ)} (h : TracksL D f θ)
    (sh : List (ℕ × ℕ)) : TracksLayers (layersOf sh D) (layersOf sh f) θ := by
  induction sh generalizing D f with
  | nil => exact List.Forall₂.nil
  | cons rc sh ih =>
    obtain ⟨r, c⟩ := rc
    exact List.Forall₂.cons
      ⟨tracksLL_rowsOf h c r, List.forall₂_take r (List.forall₂_drop (r * c) h)⟩
      (ih (List.forall₂_drop (r * c + r) h))

theorem evalLL_rowsOf (f : List (ℝ → ℝ)) (c r : ℕ) (t : ℝ) :
    evalLL (rowsOf c r f) t = rowsOf c r (evalL f t) := by
  induction r generalizing f with
  | zero => rfl
  | succ r ih =>
    have := ih (f.drop c)
    simp only [evalLL, evalL] at this
    simp [rowsOf, evalLL, evalL, this, List.map_take, List.map_drop]

theorem evalLayers_layersOf (sh : List (ℕ × ℕ)) (f : List (ℝ → ℝ)) (t : ℝ) :
    evalLayers (layersOf sh f) t = layersOf sh (evalL f t) := by
  induction sh generalizing f with
  | nil => rfl
  | cons rc sh ih =>
    obtain ⟨r, c⟩ := rc
    have h1 := ih (f.drop (r * c + r))
    have h2 := evalLL_rowsOf f c r t
    simp only [evalLayers, evalLL, evalL] at h1 h2
    simp [layersOf, evalLayers, evalLL, evalL, h1, h2, List.map_take, List.map_drop]

end layout

/-- **generic point** of the loss of batch `b` at the parameters `θ`, for the partial derivative
along coordinate `q`: the hypotheses of `C14Multi.lossH_gradient_mlp` — on every path no hidden
pre-activation at an encountered input is exactly zero, no kink of a cost term of an instrument
with a non-zero cost rate, and the criterion's own condition (no tie at the cut of the expected
shortfall; positive wealth for the isoelastic loss) -/
def GenericAt (spec : FitSpec ℝ) (θ : List ℝ) (b : Batch ℝ) (q : ℕ) : Prop :=
  (∀ mh ∈ b, ∀ X ∈ hedgeInputs (mlpL (layersOf spec.shape (seedFlat θ q)))
      (spec.feats.map (fun f => Feature.base (Dual.liftBase f))) (Dual.liftMarket mh.1)
      (hedgeN mh.2) mh.2.length, mlpGeneric (layersOf spec.shape θ) (X.map Dual.val)) ∧
  (∀ mh ∈ b, PathGenericH (mlpL (layersOf spec.shape θ)) (spec.feats.map Feature.base)
      mh.1 mh.2 spec.first) ∧
  (∀ pls, b.mapM (fun mh => hedgerPL (mlpL (layersOf spec.shape θ)) (spec.feats.map Feature.base)
      mh.1 mh.2 spec.payoff spec.reg spec.first) = .ok pls → CritHGeneric spec.crit pls)

theorem lossDual_hasDerivAt (spec : FitSpec ℝ) (θ : List ℝ) (b : Batch ℝ) (q : ℕ)
    (hq : q < θ.length) (hgen : GenericAt spec θ b q) {L : Dual ℝ}
    (hok : lossDual spec θ b q = .ok L) :
    ∃ ℓ : ℝ → ℝ, (∀ t, lossAt spec (θ.set q t) b = .ok (ℓ t)) ∧ L.val = ℓ (θ.getD q 0) ∧
      HasDerivAt ℓ L.eps (θ.getD q 0) := by
  have hL := tracksLayers_layersOf (tracksL_seedFlat θ q hq) spec.shape
  have hev : ∀ t, evalLayers (layersOf spec.shape (curveFlat θ q)) t
      = layersOf spec.shape (θ.set q t) := fun t => by
    rw [evalLayers_layersOf, evalL_curveFlat]
  have hev0 : evalLayers (layersOf spec.shape (curveFlat θ q)) (θ.getD q 0)
      = layersOf spec.shape θ := by rw [hev, set_getD_self]
  obtain ⟨h1, h2, h3⟩ := hgen
  obtain ⟨ℓ, e1, e2, e3⟩ := C14Multi.lossH_gradient_mlp hL spec.feats b spec.payoff spec.reg
    spec.first spec.crit (by rw [hev0]; exact h1) (by rw [hev0]; exact h2)
    (by rw [hev0]; exact h3) hok
  refine ⟨ℓ, fun t => ?_, e2, e3⟩
  have := e1 t
  rw [hev] at this
  exact this

end PfVerif.C15NumAux

/-! ## the property theorems -/

namespace PfVerif.C15NumAux
open PfVerif PfVerif.FitNum

section generic
set_option linter.unusedSectionVars false
variable {α : Type} [Add α] [Sub α] [Mul α] [Div α] [Neg α] [OfNat α 0] [OfNat α 1] [OfNat α 2]
  [OfNat α 3] [LE α] [DecidableLE α] [Max α] [Min α] [NatCast α] [Transc α] [TranscPow α]

theorem fitNumFrom_inv {spec : FitSpec α} {o : OptSpec α} {st : TrainState α}
    {es : List (EpochData α)} {out : FitOut α} (h : fitNumFrom spec o st es = .ok out) :
    runEpochs spec o st es = .ok (out.epochs, out.final) := by
  unfold fitNumFrom at h
  split at h
  · cases h
  next outs stf hr =>
    injection h with h
    subst h
    exact hr

theorem fitNumFrom_of {spec : FitSpec α} {o : OptSpec α} {st stf : TrainState α}
    {es : List (EpochData α)} {outs : List (EpochOut α)}
    (h : runEpochs spec o st es = .ok (outs, stf)) :
    fitNumFrom spec o st es = .ok ⟨outs, stf⟩ := by
  unfold fitNumFrom
  rw [h]

/-- the parameters before epoch `n` (index `0`: the initial ones) end in the final parameters -/
theorem runEpochs_final_theta {spec : FitSpec α} {o : OptSpec α} {st stf : TrainState α}
    {es : List (EpochData α)} {outs : List (EpochOut α)}
    (h : runEpochs spec o st es = .ok (outs, stf)) :
    (st.θ :: outs.map (fun e => e.params))[es.length]? = some stf.θ := by
  induction es generalizing st outs with
  | nil => simp only [runEpochs] at h; injection h with h; injection h with h1 h2; subst h1 h2; rfl
  | cons e es ih =>
    obtain ⟨out, st1, outs', he, hr, rfl⟩ := runEpochs_cons_inv h
    obtain ⟨l, g, vs, v, -, -, -, rfl, rfl⟩ := epoch_inv he
    have := ih hr
    simpa using this

theorem gradOf_length {spec : FitSpec α} {θ g : List α} {b : Batch α}
    (h : gradOf spec θ b = .ok g) : g.length = θ.length := by
  have := mapM_ok_length h
  simpa using this

theorem gradOf_component {spec : FitSpec α} {θ g : List α} {b : Batch α}
    (h : gradOf spec θ b = .ok g) (q : Nat) (hq : q < θ.length) :
    ∃ L, lossDual spec θ b q = .ok L ∧ g[q]? = some L.eps := by
  obtain ⟨y, hy, hg⟩ := mapM_ok_getElem? h q q (by simp [hq])
  split at hy
  next L hL =>
    injection hy with hy
    subst hy
    exact ⟨L, hL, hg⟩
  · cases hy

end generic
end PfVerif.C15NumAux

namespace PfVerif.C15Num
open PfVerif PfVerif.FitNum PfVerif.C15NumAux

section generic
set_option linter.unusedSectionVars false
variable {α : Type} [Add α] [Sub α] [Mul α] [Div α] [Neg α] [OfNat α 0] [OfNat α 1] [OfNat α 2]
  [OfNat α 3] [LE α] [DecidableLE α] [Max α] [Min α] [NatCast α] [Transc α] [TranscPow α]

/-! ### exactly `k` optimiser steps; the trajectory is determined by the prefix of batches -/

/-- **`fitNum` over `k` epochs performs exactly `k` optimiser steps** and records `k` parameter
vectors and `k` training losses -/
theorem steps_eq_epochs {spec : FitSpec α} {o : OptSpec α} {θ0 : List α}
    {es : List (EpochData α)} {out : FitOut α} (h : fitNum spec o θ0 es = .ok out) :
    out.steps = es.length ∧ out.params.length = es.length ∧ out.trainLosses.length = es.length := by
  have hr := fitNumFrom_inv h
  refine ⟨?_, ?_, ?_⟩
  · have := runEpochs_steps hr
    simpa [FitOut.steps, TrainState.init, OptState.init] using this
  · simp [FitOut.params, runEpochs_length hr]
  · simp [FitOut.trainLosses, runEpochs_length hr]

/-- … also when `fit` continues with an optimiser instance that has already taken steps -/
theorem steps_eq_epochs_from {spec : FitSpec α} {o : OptSpec α} {st : TrainState α}
    {es : List (EpochData α)} {out : FitOut α} (h : fitNumFrom spec o st es = .ok out) :
    out.steps = st.opt.steps + es.length := runEpochs_steps (fitNumFrom_inv h)

/-- **prefix-determined**: a run over `es ++ es'` restricted to its first `es.length` epochs IS the
run over `es` (same records: parameters, losses, gradients, validation) -/
theorem prefix_run {spec : FitSpec α} {o : OptSpec α} {st : TrainState α}
    {es es' : List (EpochData α)} {out : FitOut α}
    (h : fitNumFrom spec o st (es ++ es') = .ok out) :
    ∃ out', fitNumFrom spec o st es = .ok out' ∧ out'.epochs = out.epochs.take es.length := by
  obtain ⟨outs1, st1, outs2, h1, -, e⟩ := runEpochs_append_inv (fitNumFrom_inv h)
  refine ⟨⟨outs1, st1⟩, fitNumFrom_of h1, ?_⟩
  rw [e, List.take_left' (runEpochs_length h1)]

/-- **later batches cannot influence earlier parameters**: two runs that share their first
`es.length` epochs have the same parameters, training losses and history there -/
theorem params_prefix_determined {spec : FitSpec α} {o : OptSpec α} {θ0 : List α}
    {es es1 es2 : List (EpochData α)} {out1 out2 : FitOut α}
    (h1 : fitNum spec o θ0 (es ++ es1) = .ok out1) (h2 : fitNum spec o θ0 (es ++ es2) = .ok out2) :
    out1.params.take es.length = out2.params.take es.length ∧
    out1.trainLosses.take es.length = out2.trainLosses.take es.length ∧
    out1.epochs.take es.length = out2.epochs.take es.length := by
  obtain ⟨o1, ha, ea⟩ := prefix_run h1
  obtain ⟨o2, hb, eb⟩ := prefix_run h2
  have : o1 = o2 := by
    have := ha.symm.trans hb
    injection this
  subst this
  refine ⟨?_, ?_, ea.symm.trans eb⟩
  · simp only [FitOut.params, ← List.map_take, ← ea, ← eb]
  · simp only [FitOut.trainLosses, ← List.map_take, ← ea, ← eb]

/-! ### no accumulation -/

/-- **one epoch is `zero_grad → loss → backward → step → validation`**: the recorded training loss
and gradient are those of THIS epoch's batch at the parameters the epoch started from, the new
parameters and optimiser state are one `optStep` on exactly that gradient, the `.grad` slot
afterwards holds it, and the validation is evaluated at the new parameters -/
theorem epoch_protocol {spec : FitSpec α} {o : OptSpec α} {st st' : TrainState α}
    {e : EpochData α} {out : EpochOut α} (h : epoch spec o st e = .ok (out, st')) :
    lossAt spec st.θ e.train = .ok out.trainLoss ∧ gradOf spec st.θ e.train = .ok out.grad ∧
    (out.params, st'.opt) = optStep o st.opt st.θ out.grad ∧ st'.θ = out.params ∧
    st'.grad = some out.grad ∧ validate spec out.params e.val = .ok (out.valEvals, out.valLoss) := by
  obtain ⟨l, g, vs, v, hl, hg, hv, rfl, rfl⟩ := epoch_inv h
  exact ⟨hl, hg, rfl, rfl, rfl, hv⟩

/-- **gradients are not accumulated across epochs**: whatever earlier epochs left in the `.grad`
slot, the epoch is the same (`zero_grad()` comes first) -/
theorem stale_gradient_irrelevant (spec : FitSpec α) (o : OptSpec α) (st : TrainState α)
    (x : Option (List α)) (e : EpochData α) :
    epoch spec o { st with grad := x } e = epoch spec o st e := epoch_zeroGrad spec o st x e

/-- without `zero_grad()` the slot WOULD accumulate: `backward` adds to a non-empty slot (so the
statement above is about the protocol, not built into `backward`) -/
theorem backward_accumulates (st : TrainState α) (a g : List α) (h : st.grad = some a) :
    (st.backward g).grad = some (List.zipWith (· + ·) a g) := by
  simp [TrainState.backward, h]

/-- the recorded parameters chain: the parameters before epoch `n` (`θ0` for `n = 0`) at index
`es.length` are the final ones -/
theorem final_params {spec : FitSpec α} {o : OptSpec α} {θ0 : List α}
    {es : List (EpochData α)} {out : FitOut α} (h : fitNum spec o θ0 es = .ok out) :
    (θ0 :: out.params)[es.length]? = some out.final.θ :=
  runEpochs_final_theta (fitNumFrom_inv h)

/-! ### `k = 0` -/

/-- **no epochs: parameters unchanged, no losses, no step** -/
theorem zero_epochs (spec : FitSpec α) (o : OptSpec α) (θ0 : List α) :
    ∃ out, fitNum spec o θ0 [] = .ok out ∧ out.final.θ = θ0 ∧ out.params = [] ∧
      out.trainLosses = [] ∧ out.history = [] ∧ out.steps = 0 ∧ out.lossEvals = 0 :=
  ⟨⟨[], TrainState.init θ0⟩, rfl, rfl, rfl, rfl, rfl, rfl, rfl⟩

/-! ### validation -/

/-- **validation does not change the parameters**: the run with validation switched off has the
same parameter trajectory, training losses, gradients and final state (optimiser state included) -/
theorem validation_does_not_change_parameters {spec : FitSpec α} {o : OptSpec α}
    {st : TrainState α} {es : List (EpochData α)} {out : FitOut α}
    (h : fitNumFrom spec o st es = .ok out) :
    ∃ out', fitNumFrom spec o st (dropVal es) = .ok out' ∧ out'.params = out.params ∧
      out'.trainLosses = out.trainLosses ∧ out'.final = out.final ∧
      out'.epochs.map (fun e => e.grad) = out.epochs.map (fun e => e.grad) ∧
      out'.history = [] ∧ out'.valEvalCount = 0 := by
  have hr := runEpochs_dropVal (fitNumFrom_inv h)
  refine ⟨⟨out.epochs.map stripVal, out.final⟩, fitNumFrom_of hr, ?_, ?_, rfl, ?_, ?_, ?_⟩
  · simp [FitOut.params, stripVal, Function.comp_def]
  · simp [FitOut.trainLosses, stripVal, Function.comp_def]
  · simp [stripVal, Function.comp_def]
  · simp [FitOut.history, stripVal, Function.comp_def]
  · simp [FitOut.valEvalCount, stripVal, Function.comp_def]

end generic
end PfVerif.C15Num

/-! ## over `ℝ` -/

namespace PfVerif.C15NumAux
open PfVerif PfVerif.FitNum

theorem isZero_iff (x : ℝ) : isZero x = true ↔ x = 0 := by
  unfold isZero
  rw [Bool.and_eq_true, decide_eq_true_eq, decide_eq_true_eq]
  exact ⟨fun h => le_antisymm h.1 h.2, fun h => by subst h; exact ⟨le_rfl, le_rfl⟩⟩

theorem isZero_zero : isZero (0 : ℝ) = true := (isZero_iff 0).2 rfl

theorem isZero_ne {x : ℝ} (h : x ≠ 0) : isZero x = false := by
  cases hx : isZero x
  · rfl
  · exact absurd ((isZero_iff x).1 hx) h

theorem zipWith_left_id {β γ : Type} (f : β → γ → β) (hf : ∀ a b, f a b = a) :
    ∀ (p : List β) (x : List γ), p.length ≤ x.length → List.zipWith f p x = p
  | [], _, _ => by simp
  | a :: p, [], h => by simp at h
  | a :: p, b :: x, h => by
    simp only [List.zipWith_cons_cons, hf, zipWith_left_id f hf p x (by simpa using h)]

theorem zipWith3L_left_id {β γ δ : Type} (f : β → γ → δ → β) (hf : ∀ a b c, f a b c = a) :
    ∀ (p : List β) (x : List γ) (y : List δ), p.length ≤ x.length → p.length ≤ y.length →
      zipWith3L f p x y = p
  | [], _, _, _, _ => by cases ‹List γ› <;> cases ‹List δ› <;> rfl
  | a :: p, [], _, h, _ => by simp at h
  | a :: p, _ :: _, [], _, h => by simp at h
  | a :: p, b :: x, c :: y, h1, h2 => by
    simp only [zipWith3L, hf,
      zipWith3L_left_id f hf p x y (by simpa using h1) (by simpa using h2)]

theorem sgdStep_plain (lr : ℝ) (s : OptState ℝ) (p g : List ℝ) :
    sgdStep lr 0 0 s p g = (addScaled p (-lr) g, { s with steps := s.steps + 1 }) := by
  simp [sgdStep, withDecay, isZero_zero]

theorem addScaled_getD (p g : List ℝ) (a : ℝ) (q : ℕ) (hp : q < p.length) (hg : q < g.length) :
    (addScaled p a g).getD q 0 = p.getD q 0 + a * g.getD q 0 := by
  simp [addScaled, List.getD_eq_getElem?_getD, hp, hg]

theorem addScaled_replicate_zero (a : ℝ) :
    ∀ p : List ℝ, addScaled p a (List.replicate p.length 0) = p
  | [] => rfl
  | x :: p => by
    have := addScaled_replicate_zero a p
    unfold addScaled at this ⊢
    simp only [List.length_cons, List.replicate_succ, List.zipWith_cons_cons, mul_zero, add_zero,
      this]

theorem length_withDecay (wd : ℝ) (g p : List ℝ) (h : g.length = p.length) :
    (withDecay wd g p).length = p.length := by
  unfold withDecay addScaled
  split <;> simp [h]

/-- the optimiser's state vectors have the size of the parameter vector -/
def LenOK (n : ℕ) (s : OptState ℝ) : Prop :=
  s.expAvg.length = n ∧ s.expAvgSq.length = n ∧ ∀ b, s.buf = some b → b.length = n

theorem lenOK_init (n : ℕ) : LenOK n (OptState.init n : OptState ℝ) := by
  simp [LenOK, OptState.init]

/-- the learning rate of an optimiser specification -/
def lrOf : OptSpec ℝ → ℝ
  | .sgd lr _ _ => lr
  | .adam lr _ _ _ _ => lr

theorem optStep_zero_lr {o : OptSpec ℝ} (hlr : lrOf o = 0) {n : ℕ} (s : OptState ℝ)
    (p g : List ℝ) (hp : p.length = n) (hg : g.length = n) (hs : LenOK n s) :
    (optStep o s p g).1 = p ∧ LenOK n (optStep o s p g).2 := by
  obtain ⟨h1, h2, h3⟩ := hs
  have hd : ∀ wd, (withDecay wd g p).length = n := fun wd => by
    rw [length_withDecay wd g p (hg.trans hp.symm), hp]
  cases o with
  | sgd lr mu wd =>
    simp only [lrOf] at hlr
    subst hlr
    have hid : ∀ x : List ℝ, n ≤ x.length → addScaled p (-0) x = p := fun x hx =>
      zipWith_left_id _ (fun a b => by simp) p x (by omega)
    simp only [optStep, sgdStep]
    split
    · exact ⟨hid _ (by rw [hd]), h1, h2, h3⟩
    · cases hb : s.buf with
      | none =>
        refine ⟨hid _ (by rw [hd]), h1, h2, ?_⟩
        intro b hb'
        simp only [Option.some.injEq] at hb'
        subst hb'
        exact hd wd
      | some b0 =>
        have hb0 := h3 b0 hb
        have hl : (List.zipWith (fun bi gi => bi * mu + gi) b0 (withDecay wd g p)).length = n := by
          simp [hb0, hd]
        refine ⟨hid _ (by rw [hl]), h1, h2, ?_⟩
        intro b hb'
        simp only [Option.some.injEq] at hb'
        subst hb'
        exact hl
  | adam lr b1 b2 eps wd =>
    simp only [lrOf] at hlr
    subst hlr
    simp only [optStep, adamStep]
    refine ⟨?_, ?_, ?_, h3⟩
    · apply zipWith3L_left_id
      · intro a b c; simp
      · simp [h1, hd, hp]
      · simp [h2, hd, hp]
    · simp [h1, hd]
    · simp [h2, hd]

theorem runEpochs_zero_lr {spec : FitSpec ℝ} {o : OptSpec ℝ} (hlr : lrOf o = 0)
    {st stf : TrainState ℝ} {es : List (EpochData ℝ)} {outs : List (EpochOut ℝ)}
    (hs : LenOK st.θ.length st.opt) (h : runEpochs spec o st es = .ok (outs, stf)) :
    stf.θ = st.θ ∧ ∀ eo ∈ outs, eo.params = st.θ := by
  induction es generalizing st outs with
  | nil =>
    simp only [runEpochs] at h; injection h with h; injection h with h1 h2; subst h1 h2
    exact ⟨rfl, by simp⟩
  | cons e es ih =>
    obtain ⟨out, st1, outs', he, hr, rfl⟩ := runEpochs_cons_inv h
    obtain ⟨l, g, vs, v, -, hg, -, rfl, rfl⟩ := epoch_inv he
    obtain ⟨e1, e2⟩ := optStep_zero_lr hlr st.opt st.θ g rfl (gradOf_length hg) hs
    have := ih (st := ⟨(optStep o st.opt st.θ g).1, (optStep o st.opt st.θ g).2, some g⟩)
      (by simpa only [e1] using e2) hr
    simp only [e1] at this ⊢
    refine ⟨this.1, ?_⟩
    intro eo heo
    rcases List.mem_cons.1 heo with rfl | heo
    · rfl
    · exact this.2 eo heo

/-- every record of a run is the record of one `epoch` call on one of the epochs' data -/
theorem runEpochs_mem {spec : FitSpec ℝ} {o : OptSpec ℝ} {st stf : TrainState ℝ}
    {es : List (EpochData ℝ)} {outs : List (EpochOut ℝ)}
    (h : runEpochs spec o st es = .ok (outs, stf)) {eo : EpochOut ℝ} (heo : eo ∈ outs) :
    ∃ s1 s2 e, e ∈ es ∧ epoch spec o s1 e = .ok (eo, s2) := by
  induction es generalizing st outs with
  | nil =>
    simp only [runEpochs] at h; injection h with h; injection h with h1 _; subst h1
    simp at heo
  | cons e es ih =>
    obtain ⟨out, st1, outs', he, hr, rfl⟩ := runEpochs_cons_inv h
    rcases List.mem_cons.1 heo with rfl | heo
    · exact ⟨st, st1, e, List.mem_cons_self, he⟩
    · obtain ⟨s1, s2, e', he', hh⟩ := ih hr heo
      exact ⟨s1, s2, e', List.mem_cons_of_mem _ he', hh⟩

theorem meanR_singleton (x : ℝ) : meanR [x] = x := by simp [meanR, sumL]

theorem ensembleMean_ok {vs : List ℝ} {v : ℝ} (h : ensembleMean vs = .ok v) :
    vs ≠ [] ∧ v = meanR vs := by
  match vs, h with
  | [x], h =>
    simp only [ensembleMean] at h
    injection h with h
    exact ⟨by simp, by rw [meanR_singleton, h]⟩
  | x :: y :: r, h =>
    simp only [ensembleMean] at h
    injection h with h
    exact ⟨by simp, h.symm⟩

theorem lerpS_eq (a b w : ℝ) : lerpS a b w = (1 - w) * a + w * b := by
  unfold lerpS
  split <;> ring

theorem zipWith3L_map_right {β γ δ ε ζ : Type} (f : β → γ → ε → ζ) (h : δ → ε) :
    ∀ (p : List β) (m : List γ) (v : List δ),
      zipWith3L f p m (v.map h) = zipWith3L (fun a b c => f a b (h c)) p m v
  | [], m, v => by cases m <;> cases v <;> rfl
  | _ :: _, [], v => by cases v <;> rfl
  | _ :: _, _ :: _, [] => rfl
  | a :: p, b :: m, c :: v => by
    simp only [List.map_cons, zipWith3L, zipWith3L_map_right f h p m v]

end PfVerif.C15NumAux

namespace PfVerif.C15Num
open PfVerif PfVerif.FitNum PfVerif.C15NumAux

/-! ### plain SGD: the update is `θ − lr·∇loss_batch(θ)`, nothing else enters -/

/-- **the step of an epoch under plain SGD** (momentum 0, weight decay 0) is
`sgdStep θ_e (∇ loss_batch_e (θ_e))`: componentwise `θ_e[q] − lr · g[q]` with `g` the gradient of
THIS epoch's batch at `θ_e`; the optimiser keeps no state but its step counter -/
theorem plain_sgd_update {spec : FitSpec ℝ} (lr : ℝ) {st st' : TrainState ℝ} {e : EpochData ℝ}
    {out : EpochOut ℝ} (h : epoch spec (.sgd lr 0 0) st e = .ok (out, st')) :
    gradOf spec st.θ e.train = .ok out.grad ∧
    out.params = (sgdStep lr 0 0 st.opt st.θ out.grad).1 ∧
    out.params = addScaled st.θ (-lr) out.grad ∧
    (∀ q < st.θ.length, out.params.getD q 0 = st.θ.getD q 0 - lr * out.grad.getD q 0) ∧
    st'.opt = { st.opt with steps := st.opt.steps + 1 } := by
  obtain ⟨-, hg, hstep, -, -, -⟩ := epoch_protocol h
  simp only [optStep, sgdStep_plain, Prod.mk.injEq] at hstep
  refine ⟨hg, by rw [sgdStep_plain]; exact hstep.1, hstep.1, fun q hq => ?_, hstep.2⟩
  rw [hstep.1, addScaled_getD _ _ _ _ hq (by rw [gradOf_length hg]; exact hq)]
  ring

/-- **no accumulation, one epoch**: under plain SGD the update from `θ_e` to `θ_{e+1}` depends on
`θ_e` and on the training batch of epoch `e` ONLY — two states with the same parameters (whatever
their histories: optimiser state, stale `.grad` slot) and two epochs with the same training batch
(whatever their validation batches) give the same new parameters, gradient and training loss -/
theorem no_accumulation {spec : FitSpec ℝ} (lr : ℝ) {st st' s1 s1' : TrainState ℝ}
    {e e' : EpochData ℝ} {out out' : EpochOut ℝ} (hθ : st.θ = st'.θ) (hb : e.train = e'.train)
    (h : epoch spec (.sgd lr 0 0) st e = .ok (out, s1))
    (h' : epoch spec (.sgd lr 0 0) st' e' = .ok (out', s1')) :
    out.params = out'.params ∧ out.grad = out'.grad ∧ out.trainLoss = out'.trainLoss := by
  obtain ⟨hl, hg, -⟩ := epoch_protocol h
  obtain ⟨hl', hg', -⟩ := epoch_protocol h'
  obtain ⟨-, -, hp, -⟩ := plain_sgd_update lr h
  obtain ⟨-, -, hp', -⟩ := plain_sgd_update lr h'
  rw [hθ, hb] at hl hg
  have eg : out.grad = out'.grad := by
    have := hg.symm.trans hg'; injection this
  have el : out.trainLoss = out'.trainLoss := by
    have := hl.symm.trans hl'; injection this
  exact ⟨by rw [hp, hp', hθ, eg], eg, el⟩

/-- **no accumulation, whole runs**: two plain-SGD runs whose epoch number `n` has the same
training batch and starts from the same parameters (`(θ0 :: params)[n]` = the parameters before
epoch `n`) reach the same parameters after epoch `n` — whatever the data of the epochs before (and
after) were -/
theorem no_accumulation_run {spec : FitSpec ℝ} (lr : ℝ) {θ0 θ0' : List ℝ}
    {pre pre' post post' : List (EpochData ℝ)} {e e' : EpochData ℝ} {out out' : FitOut ℝ}
    (h : fitNum spec (.sgd lr 0 0) θ0 (pre ++ e :: post) = .ok out)
    (h' : fitNum spec (.sgd lr 0 0) θ0' (pre' ++ e' :: post') = .ok out')
    (hlen : pre.length = pre'.length) (hb : e.train = e'.train)
    (hθ : (θ0 :: out.params)[pre.length]? = (θ0' :: out'.params)[pre.length]?) :
    out.params[pre.length]? = out'.params[pre.length]? := by
  obtain ⟨o1, s1, o2, ha, hb2, e1⟩ := runEpochs_append_inv (fitNumFrom_inv h)
  obtain ⟨o1', s1', o2', ha', hb2', e1'⟩ := runEpochs_append_inv (fitNumFrom_inv h')
  obtain ⟨eo, s2, o3, he, -, e2⟩ := runEpochs_cons_inv hb2
  obtain ⟨eo', s2', o3', he', -, e2'⟩ := runEpochs_cons_inv hb2'
  have t1 := runEpochs_final_theta ha
  have t1' := runEpochs_final_theta ha'
  have l1 := runEpochs_length ha
  have l1' := runEpochs_length ha'
  have p1 : (θ0 :: out.params)[pre.length]? = some s1.θ := by
    rw [← t1]
    simp only [FitOut.params, e1, List.map_append, TrainState.init]
    rw [← List.cons_append, List.getElem?_append_left (by simp [l1])]
  have p1' : (θ0' :: out'.params)[pre.length]? = some s1'.θ := by
    rw [hlen, ← t1']
    simp only [FitOut.params, e1', List.map_append, TrainState.init]
    rw [← List.cons_append, List.getElem?_append_left (by simp [l1'])]
  rw [p1, p1'] at hθ
  injection hθ with hθ
  obtain ⟨hp, -, -⟩ := no_accumulation lr hθ hb he he'
  have q1 : out.params[pre.length]? = some eo.params := by
    simp only [FitOut.params, e1, e2, List.map_append, List.map_cons]
    rw [List.getElem?_append_right (by simp [l1])]
    simp [l1]
  have q1' : out'.params[pre.length]? = some eo'.params := by
    simp only [FitOut.params, e1', e2', List.map_append, List.map_cons]
    rw [List.getElem?_append_right (by simp [l1', hlen])]
    simp [l1', hlen]
  rw [q1, q1', hp]

/-! ### the gradient used is the true gradient -/

/-- **every component of `gradOf` is the partial derivative of the loss of that batch**: at a
generic point (`GenericAt`: the hypotheses of `C14Multi.lossH_gradient_mlp`) the real loss
`t ↦ lossAt (θ with coordinate q := t)` is defined for every `t`, equals the loss at `θ` for
`t = θ[q]`, and has derivative `g[q]` there -/
theorem gradOf_is_gradient {spec : FitSpec ℝ} {θ g : List ℝ} {b : Batch ℝ}
    (h : gradOf spec θ b = .ok g) (q : ℕ) (hq : q < θ.length) (hgen : GenericAt spec θ b q) :
    ∃ ℓ : ℝ → ℝ, (∀ t, lossAt spec (θ.set q t) b = .ok (ℓ t)) ∧
      lossAt spec θ b = .ok (ℓ (θ.getD q 0)) ∧ HasDerivAt ℓ (g.getD q 0) (θ.getD q 0) := by
  obtain ⟨L, hL, hg⟩ := gradOf_component h q hq
  obtain ⟨ℓ, h1, -, h3⟩ := lossDual_hasDerivAt spec θ b q hq hgen hL
  refine ⟨ℓ, h1, ?_, ?_⟩
  · have := h1 (θ.getD q 0)
    rwa [set_getD_self] at this
  · rw [List.getD_eq_getElem?_getD, hg]
    exact h3

/-- **`fitNum` with plain SGD is gradient descent on the real loss of each fresh batch**: in every
epoch and for every coordinate `q` at a generic point, the new parameter is
`θ[q] − lr · ∂ℓ/∂θ[q]` where `ℓ` is the loss of THIS epoch's batch as a function of coordinate `q`,
and the recorded training loss is `ℓ` at the old parameters -/
theorem plain_sgd_is_gradient_descent {spec : FitSpec ℝ} (lr : ℝ) {st st' : TrainState ℝ}
    {e : EpochData ℝ} {out : EpochOut ℝ} (h : epoch spec (.sgd lr 0 0) st e = .ok (out, st'))
    (q : ℕ) (hq : q < st.θ.length) (hgen : GenericAt spec st.θ e.train q) :
    ∃ ℓ : ℝ → ℝ, (∀ t, lossAt spec (st.θ.set q t) e.train = .ok (ℓ t)) ∧
      out.trainLoss = ℓ (st.θ.getD q 0) ∧ DifferentiableAt ℝ ℓ (st.θ.getD q 0) ∧
      out.params.getD q 0 = st.θ.getD q 0 - lr * deriv ℓ (st.θ.getD q 0) := by
  obtain ⟨hg, -, -, hp, -⟩ := plain_sgd_update lr h
  obtain ⟨hl, -⟩ := epoch_protocol h
  obtain ⟨ℓ, h1, h2, h3⟩ := gradOf_is_gradient hg q hq hgen
  refine ⟨ℓ, h1, ?_, h3.differentiableAt, ?_⟩
  · have := hl.symm.trans h2; injection this
  · rw [hp q hq, h3.deriv]

/-! ### zero learning rate, zero gradient, momentum -/

/-- **zero learning rate: the parameters never change** (SGD with any momentum and weight decay,
and Adam), over any number of epochs -/
theorem zero_lr_unchanged {spec : FitSpec ℝ} {o : OptSpec ℝ} (hlr : lrOf o = 0) {θ0 : List ℝ}
    {es : List (EpochData ℝ)} {out : FitOut ℝ} (h : fitNum spec o θ0 es = .ok out) :
    out.final.θ = θ0 ∧ ∀ p ∈ out.params, p = θ0 := by
  obtain ⟨h1, h2⟩ := runEpochs_zero_lr hlr (st := TrainState.init θ0) (lenOK_init _)
    (fitNumFrom_inv h)
  refine ⟨h1, fun p hp => ?_⟩
  obtain ⟨eo, heo, rfl⟩ := List.mem_map.1 hp
  exact h2 eo heo

/-- **a batch with zero gradient leaves plain SGD's parameters unchanged** -/
theorem zero_gradient_plain_sgd {spec : FitSpec ℝ} (lr : ℝ) {st st' : TrainState ℝ}
    {e : EpochData ℝ} {out : EpochOut ℝ} (h : epoch spec (.sgd lr 0 0) st e = .ok (out, st'))
    (hz : ∀ x ∈ out.grad, x = 0) : out.params = st.θ ∧ st'.θ = st.θ := by
  obtain ⟨hg, -, hp, -, -⟩ := plain_sgd_update lr h
  obtain ⟨-, -, -, ht, -⟩ := epoch_protocol h
  have : out.params = st.θ := by
    rw [hp]
    have hrep : out.grad = List.replicate st.θ.length 0 := by
      rw [← gradOf_length hg]; exact List.eq_replicate_iff.2 ⟨rfl, hz⟩
    rw [hrep]
    exact addScaled_replicate_zero _ _
  exact ⟨this, ht.trans this⟩

/-- **… what momentum does with a zero gradient**: SGD with momentum `μ ≠ 0` (no weight decay)
keeps moving: the buffer decays to `μ·buf` and the parameters move by `−lr·μ·buf`; on its FIRST
step (no buffer yet) the buffer becomes the zero gradient and nothing moves -/
theorem zero_gradient_momentum (lr mu : ℝ) (hmu : mu ≠ 0) (s : OptState ℝ) (p : List ℝ) :
    (∀ b0, s.buf = some b0 → b0.length = p.length →
      sgdStep lr mu 0 s p (List.replicate p.length 0)
        = (addScaled p (-lr) (b0.map (· * mu)),
           { s with steps := s.steps + 1, buf := some (b0.map (· * mu)) })) ∧
    (s.buf = none →
      sgdStep lr mu 0 s p (List.replicate p.length 0)
        = (p, { s with steps := s.steps + 1, buf := some (List.replicate p.length 0) })) := by
  have hz : ∀ b0 : List ℝ, b0.length = p.length →
      List.zipWith (fun bi gi => bi * mu + gi) b0 (List.replicate p.length 0) = b0.map (· * mu) := by
    intro b0
    generalize p.length = n
    induction b0 generalizing n with
    | nil => intro _; simp
    | cons a b0 ih =>
      intro h
      cases n with
      | zero => simp at h
      | succ n => simp [List.replicate_succ, ih n (by simpa using h)]
  refine ⟨fun b0 hb hl => ?_, fun hb => ?_⟩
  · simp [sgdStep, withDecay, isZero_zero, isZero_ne hmu, hb, hz b0 hl]
  · have hp : addScaled p (-lr) (List.replicate p.length 0) = p := addScaled_replicate_zero _ _
    simp [sgdStep, withDecay, isZero_zero, isZero_ne hmu, hb, hp]

/-! ### validation: one entry per epoch, the mean of `n_times` evaluations -/

/-- **the validation loss of an epoch**: `n_times` evaluations of the loss at the NEW parameters,
one per validation batch, and the recorded entry is their mean (`ensemble_mean`) -/
theorem validation_entry_is_mean {spec : FitSpec ℝ} {o : OptSpec ℝ} {st st' : TrainState ℝ}
    {e : EpochData ℝ} {out : EpochOut ℝ} (h : epoch spec o st e = .ok (out, st'))
    {bs : List (Batch ℝ)} (hv : e.val = some bs) :
    bs.mapM (lossAt spec out.params) = .ok out.valEvals ∧ out.valEvals.length = bs.length ∧
    bs ≠ [] ∧ out.valLoss = some (meanR out.valEvals) := by
  obtain ⟨-, -, -, -, -, hval⟩ := epoch_protocol h
  rw [hv] at hval
  obtain ⟨hm, x, hx, hmean⟩ := validate_some_inv hval
  obtain ⟨hne, hxm⟩ := ensembleMean_ok hmean
  have hlen := mapM_ok_length hm
  refine ⟨hm, hlen, ?_, by rw [hx, hxm]⟩
  intro hb
  apply hne
  rw [hb] at hlen
  exact List.length_eq_zero_iff.1 hlen

/-- without validation an epoch records no validation evaluation and no history entry -/
theorem no_validation_entry {spec : FitSpec ℝ} {o : OptSpec ℝ} {st st' : TrainState ℝ}
    {e : EpochData ℝ} {out : EpochOut ℝ} (h : epoch spec o st e = .ok (out, st'))
    (hv : e.val = none) : out.valEvals = [] ∧ out.valLoss = none := by
  obtain ⟨-, -, -, -, -, hval⟩ := epoch_protocol h
  rw [hv] at hval
  exact validate_none_inv hval

/-- **the returned history has one entry per epoch** when validation is on, none when it is off -/
theorem history_length {spec : FitSpec ℝ} {o : OptSpec ℝ} {st : TrainState ℝ}
    {es : List (EpochData ℝ)} {out : FitOut ℝ} (h : fitNumFrom spec o st es = .ok out) :
    ((∀ e ∈ es, e.val ≠ none) → out.history.length = es.length) ∧
    ((∀ e ∈ es, e.val = none) → out.history = []) := by
  have hr := fitNumFrom_inv h
  generalize out.final = stf at hr
  have key : ∀ (es : List (EpochData ℝ)) (st : TrainState ℝ) (outs : List (EpochOut ℝ)),
      runEpochs spec o st es = .ok (outs, stf) →
      ((∀ e ∈ es, e.val ≠ none) → (outs.filterMap (fun e => e.valLoss)).length = es.length) ∧
      ((∀ e ∈ es, e.val = none) → outs.filterMap (fun e => e.valLoss) = []) := by
    intro es
    induction es with
    | nil =>
      intro st outs h
      simp only [runEpochs] at h; injection h with h; injection h with h1 _; subst h1
      exact ⟨fun _ => rfl, fun _ => rfl⟩
    | cons e es ih =>
      intro st outs h
      obtain ⟨eo, st1, outs', he, hr, rfl⟩ := runEpochs_cons_inv h
      obtain ⟨i1, i2⟩ := ih st1 outs' hr
      refine ⟨fun hall => ?_, fun hall => ?_⟩
      · cases hv : e.val with
        | none => exact absurd hv (hall e List.mem_cons_self)
        | some bs =>
          obtain ⟨-, -, -, hx⟩ := validation_entry_is_mean he hv
          simp [hx, i1 (fun e' h' => hall e' (List.mem_cons_of_mem _ h'))]
      · obtain ⟨-, hx⟩ := no_validation_entry he (hall e List.mem_cons_self)
        simp [hx, i2 (fun e' h' => hall e' (List.mem_cons_of_mem _ h'))]
  exact key es st out.epochs hr

/-! ### the optimisers are the documented ones -/

/-- **SGD with momentum and weight decay is torch's documented rule** (dampening 0, nesterov off):
`g ← g + λθ`, `b ← μ b + g` (`b ← g` on the first step), `θ ← θ − γ b` -/
theorem sgd_step_rule (lr mu wd : ℝ) (hmu : mu ≠ 0) (hwd : wd ≠ 0) (s : OptState ℝ)
    (p g : List ℝ) :
    (∀ b0, s.buf = some b0 →
      sgdStep lr mu wd s p g =
        (List.zipWith (fun pi bi => pi + -lr * bi) p
            (List.zipWith (fun bi gi => bi * mu + gi) b0
              (List.zipWith (fun gi pi => gi + wd * pi) g p)),
         { s with steps := s.steps + 1,
                  buf := some (List.zipWith (fun bi gi => bi * mu + gi) b0
                    (List.zipWith (fun gi pi => gi + wd * pi) g p)) })) ∧
    (s.buf = none →
      sgdStep lr mu wd s p g =
        (List.zipWith (fun pi bi => pi + -lr * bi) p
            (List.zipWith (fun gi pi => gi + wd * pi) g p),
         { s with steps := s.steps + 1,
                  buf := some (List.zipWith (fun gi pi => gi + wd * pi) g p) })) := by
  refine ⟨fun b0 hb => ?_, fun hb => ?_⟩ <;>
    simp [sgdStep, withDecay, addScaled, isZero_ne hmu, isZero_ne hwd, hb]

/-- **Adam is the Adam of the paper / of torch's documentation** (no weight decay, no amsgrad):
`m ← β₁ m + (1−β₁) g`, `v ← β₂ v + (1−β₂) g²`, `θ ← θ − γ/(1−β₁ᵗ) · m / (√v/√(1−β₂ᵗ) + ε)` with
`t` the number of steps taken including this one (the model's `lerp` / `addcmul` / `addcdiv`
transcription of torch's kernel calls computes exactly this over `ℝ`) -/
theorem adam_step_textbook (lr b1 b2 eps : ℝ) (s : OptState ℝ) (p g : List ℝ) :
    adamStep lr b1 b2 eps 0 s p g =
      (zipWith3L (fun pi mi vi =>
          pi - lr / (1 - b1 ^ (s.steps + 1)) *
            (mi / (Real.sqrt vi / Real.sqrt (1 - b2 ^ (s.steps + 1)) + eps))) p
          (List.zipWith (fun mi gi => b1 * mi + (1 - b1) * gi) s.expAvg g)
          (List.zipWith (fun vi gi => b2 * vi + (1 - b2) * gi ^ 2) s.expAvgSq g),
       { s with steps := s.steps + 1,
                expAvg := List.zipWith (fun mi gi => b1 * mi + (1 - b1) * gi) s.expAvg g,
                expAvgSq :=
                  List.zipWith (fun vi gi => b2 * vi + (1 - b2) * gi ^ 2) s.expAvgSq g }) := by
  have h1 : (fun mi gi : ℝ => lerpS mi gi (1 - b1)) = fun mi gi => b1 * mi + (1 - b1) * gi := by
    funext mi gi; rw [lerpS_eq]; ring
  have h2 : (fun vi gi : ℝ => vi * b2 + (1 - b2) * gi * gi)
      = fun vi gi => b2 * vi + (1 - b2) * gi ^ 2 := by
    funext vi gi; ring
  have hp1 : TranscPow.pow b1 (((s.steps + 1 : ℕ)) : ℝ) = b1 ^ (s.steps + 1) :=
    Real.rpow_natCast b1 (s.steps + 1)
  have hp2 : TranscPow.pow b2 (((s.steps + 1 : ℕ)) : ℝ) = b2 ^ (s.steps + 1) :=
    Real.rpow_natCast b2 (s.steps + 1)
  have hs : ∀ x : ℝ, TranscPow.pow x ((1 : ℝ) / 2) = Real.sqrt x := fun x =>
    (Real.sqrt_eq_rpow x).symm ▸ rfl
  simp only [adamStep, withDecay, isZero_zero, if_true, h1, h2, zipWith3L_map_right, hp1, hp2, hs]
  refine Prod.ext ?_ rfl
  simp only
  congr 1
  funext pi mi vi
  show pi + -(lr / (1 - b1 ^ (s.steps + 1))) * mi
      / (Real.sqrt vi / Real.sqrt (1 - b2 ^ (s.steps + 1)) + eps) = _
  ring

end PfVerif.C15Num

/-! ## link to the event model (Model/Fit.lean), and the parameter layout -/

namespace PfVerif.C15NumAux
open PfVerif PfVerif.FitNum PfVerif.C15Aux

/-- the data of a numeric run fit the protocol configuration `c` of the event model: one epoch's
data per epoch, every batch of the requested size, and validation batches exactly when validation
is on — `n_times` of them (`ensemble_mean`'s evaluation count) -/
def MatchesCfg (c : FitCfg) (es : List (EpochData ℝ)) : Prop :=
  es.length = c.epochs ∧ ∀ e ∈ es, e.train.length = c.nPaths ∧
    match e.val with
    | none => c.validation = false
    | some bs => c.validation = true ∧ bs.length = evalCount c.nTimes ∧
        ∀ b ∈ bs, b.length = c.nPaths

theorem count_loss_train {c : FitCfg} {evs : List FitEv} {hist : Option Nat}
    (h : fitEvents c = .ok (evs, hist)) : evs.count (FitEv.loss true true) = c.epochs := by
  obtain ⟨cfg, hc, rfl, -⟩ := fit_inv h
  have hcfg : cfg.count (FitEv.loss true true) = 0 := by
    rcases configure_cases hc with ⟨_, rfl⟩ | ⟨_, _, rfl⟩ | ⟨_, _, rfl⟩ <;> simp
  rw [List.count_append, hcfg, count_repeatL, (C15.training_single_evaluation c).1]
  simp

theorem count_loss_val {c : FitCfg} {evs : List FitEv} {hist : Option Nat}
    (h : fitEvents c = .ok (evs, hist)) :
    evs.count (FitEv.loss false false)
      = c.epochs * (if c.validation then evalCount c.nTimes else 0) := by
  obtain ⟨cfg, hc, rfl, -⟩ := fit_inv h
  have hcfg : cfg.count (FitEv.loss false false) = 0 := by
    rcases configure_cases hc with ⟨_, rfl⟩ | ⟨_, _, rfl⟩ | ⟨_, _, rfl⟩ <;> simp
  rw [List.count_append, hcfg, count_repeatL, epoch_eq]
  cases hv : c.validation <;>
    simp [valEvents, hv, referenceEpoch, lossEvents_eq, List.count_append, count_repeatL, evalPair]

theorem countP_isLoss {c : FitCfg} {evs : List FitEv} {hist : Option Nat}
    (h : fitEvents c = .ok (evs, hist)) :
    evs.countP isLoss = c.epochs * (1 + (if c.validation then evalCount c.nTimes else 0)) := by
  obtain ⟨cfg, hc, rfl, -⟩ := fit_inv h
  have hcfg : cfg.countP isLoss = 0 := by
    rcases configure_cases hc with ⟨_, rfl⟩ | ⟨_, _, rfl⟩ | ⟨_, _, rfl⟩ <;> simp [isLoss]
  rw [List.countP_append, hcfg, countP_repeatL, epoch_eq]
  cases hv : c.validation
  · simp [valEvents, hv, referenceEpoch, isLoss, List.countP_cons]
  · simp only [valEvents, hv, referenceEpoch, lossEvents_eq, List.countP_append, countP_repeatL,
      evalPair, isLoss, List.countP_cons, if_true]
    simp

theorem runEpochs_valEvals {spec : FitSpec ℝ} {o : OptSpec ℝ} {st stf : TrainState ℝ}
    {es : List (EpochData ℝ)} {outs : List (EpochOut ℝ)} (m : ℕ)
    (h : runEpochs spec o st es = .ok (outs, stf))
    (hm : ∀ e ∈ es, (match e.val with
      | none => 0
      | some bs => bs.length) = m) :
    (outs.map (fun e => e.valEvals.length)).sum = es.length * m := by
  induction es generalizing st outs with
  | nil =>
    simp only [runEpochs] at h; injection h with h; injection h with h1 _; subst h1
    simp
  | cons e es ih =>
    obtain ⟨eo, st1, outs', he, hr, rfl⟩ := runEpochs_cons_inv h
    have i1 := ih hr (fun e' h' => hm e' (List.mem_cons_of_mem _ h'))
    have hme := hm e List.mem_cons_self
    have : eo.valEvals.length = m := by
      cases hv : e.val with
      | none =>
        rw [hv] at hme
        rw [(C15Num.no_validation_entry he hv).1]
        exact hme
      | some bs =>
        rw [hv] at hme
        rw [(C15Num.validation_entry_is_mean he hv).2.1]
        exact hme
    simp only [List.map_cons, List.sum_cons, List.length_cons, i1, this]
    rw [Nat.succ_mul]
    omega

theorem lossEvals_eq (out : FitOut ℝ) : out.lossEvals = out.epochs.length + out.valEvalCount := by
  unfold FitOut.lossEvals FitOut.valEvalCount
  induction out.epochs with
  | nil => rfl
  | cons e es ih => simp only [List.map_cons, List.sum_cons, List.length_cons, ih]; omega

/-! ### layout -/

theorem rowsOf_flatten {β : Type} (c : ℕ) (rows : List (List β)) (rest : List β)
    (h : ∀ row ∈ rows, row.length = c) :
    rowsOf c rows.length (rows.flatten ++ rest) = rows ∧
      (rows.flatten ++ rest).drop (rows.length * c) = rest := by
  induction rows with
  | nil => simp [rowsOf]
  | cons r rows ih =>
    have hr : r.length = c := h r List.mem_cons_self
    obtain ⟨i1, i2⟩ := ih (fun row h' => h row (List.mem_cons_of_mem _ h'))
    have e : (r :: rows).flatten ++ rest = r ++ (rows.flatten ++ rest) := by simp
    refine ⟨?_, ?_⟩
    · rw [e]
      simp only [List.length_cons, rowsOf]
      rw [List.take_left' hr, List.drop_left' hr, i1]
    · rw [e, List.length_cons, Nat.succ_mul, Nat.add_comm, ← List.drop_drop,
        List.drop_left' hr, i2]

end PfVerif.C15NumAux

namespace PfVerif.C15Num
open PfVerif PfVerif.FitNum PfVerif.C15NumAux PfVerif.C15Aux

/-- **both models describe one protocol**: for data that fit the configuration `c`
(`MatchesCfg`), the number of optimiser steps of the numeric run equals the number of `step`
events (and of `zero_grad` / `backward` events) of the event model, the numbers of training /
validation criterion evaluations equal the counts of the `loss` events in training mode with
gradients / in evaluation mode without, their total the count of all `loss` events, and the
length of the numeric history is the history length announced by the event model -/
theorem counts_match_events {spec : FitSpec ℝ} {o : OptSpec ℝ} {θ0 : List ℝ} {c : FitCfg}
    {es : List (EpochData ℝ)} (hm : MatchesCfg c es) {out : FitOut ℝ}
    (h : fitNum spec o θ0 es = .ok out) {evs : List FitEv} {hist : Option Nat}
    (he : fitEvents c = .ok (evs, hist)) :
    out.steps = evs.count FitEv.step ∧ out.steps = evs.count FitEv.zeroGrad ∧
    out.steps = evs.count FitEv.backward ∧
    out.trainLosses.length = evs.count (FitEv.loss true true) ∧
    out.valEvalCount = evs.count (FitEv.loss false false) ∧
    out.lossEvals = evs.countP isLoss ∧
    hist = (if c.validation then some out.history.length else none) := by
  obtain ⟨hlen, hes⟩ := hm
  obtain ⟨s1, -, s3⟩ := steps_eq_epochs h
  have hr := fitNumFrom_inv h
  have hv : out.valEvalCount = es.length * (if c.validation then evalCount c.nTimes else 0) := by
    apply runEpochs_valEvals _ hr
    intro e hemem
    obtain ⟨-, h2⟩ := hes e hemem
    cases hval : e.val with
    | none => rw [hval] at h2; simp [h2]
    | some bs => rw [hval] at h2; simp [h2.1, h2.2.1]
  refine ⟨?_, ?_, ?_, ?_, ?_, ?_, ?_⟩
  · rw [s1, C15.steps_eq_epochs c evs hist he, hlen]
  · rw [s1, C15.zero_grad_eq_epochs c evs hist he, hlen]
  · rw [s1, C15.backward_eq_epochs c evs hist he, hlen]
  · rw [s3, count_loss_train he, hlen]
  · rw [hv, count_loss_val he, hlen]
  · rw [lossEvals_eq, runEpochs_length hr, hv, countP_isLoss he, hlen, Nat.mul_add, Nat.mul_one]
  · rw [(C15.history_length c evs hist he).1]
    cases hval : c.validation with
    | false => rfl
    | true =>
      have := (history_length h).1 (fun e hemem hnone => by
        have h2 := (hes e hemem).2
        rw [hnone] at h2
        rw [hval] at h2
        exact Bool.noConfusion h2)
      simp [this, hlen]

/-- **the flat parameter list has the layout of `flatParams`**: rebuilding the layers of a
rectangular MLP (every row of a weight matrix as long as the first, one bias per row) from its
flat parameter list gives the MLP back, and the list has `nParams` entries -/
theorem layersOf_flatParams {β : Type} (ls : Layers β)
    (h : ∀ l ∈ ls, l.2.length = l.1.length ∧ ∀ row ∈ l.1, row.length = colsOf l.1) :
    layersOf (shapeOf ls) (flatParams ls) = ls ∧ (flatParams ls).length = nParams (shapeOf ls) := by
  induction ls with
  | nil => exact ⟨rfl, rfl⟩
  | cons l ls ih =>
    obtain ⟨w, b⟩ := l
    obtain ⟨hb, hw⟩ := h (w, b) List.mem_cons_self
    obtain ⟨i1, i2⟩ := ih (fun l' h' => h l' (List.mem_cons_of_mem _ h'))
    simp only at hb hw
    have e : flatParams ((w, b) :: ls) = w.flatten ++ (b ++ flatParams ls) := by
      simp [flatParams]
    obtain ⟨r1, r2⟩ := rowsOf_flatten (colsOf w) w (b ++ flatParams ls) hw
    refine ⟨?_, ?_⟩
    · rw [e]
      simp only [shapeOf, List.map_cons, layersOf]
      rw [r1, ← List.drop_drop, r2, ← hb, List.take_left' rfl, List.drop_left' rfl]
      congr 1
    · rw [e]
      simp only [shapeOf, List.map_cons, nParams, List.length_append]
      have hfl : w.flatten.length = w.length * colsOf w := by
        rw [List.length_flatten]
        have : w.map List.length = List.replicate w.length (colsOf w) :=
          List.eq_replicate_iff.2 ⟨by simp, fun x hx => by
            obtain ⟨row, hrow, rfl⟩ := List.mem_map.1 hx
            exact hw row hrow⟩
        rw [this]
        simp
      have := i2
      simp only [shapeOf] at this
      rw [hfl, hb, this]
      omega

end PfVerif.C15Num

/-! ## non-vacuity: two epochs, one weight and one bias, concrete numbers -/

namespace PfVerif.C15NumAux
open PfVerif PfVerif.FitNum PfVerif.C14Aux PfVerif.C14MultiAux

/-- one affine layer `δ = w·S + b` on the underlier's spot, a European call of strike `1`, the
mean-square criterion -/
noncomputable def exSpec : FitSpec ℝ :=
  ⟨[(1, 1)], [.underlierSpot false], ⟨.european, true, 1⟩, [], true, .mse⟩

noncomputable def exMarket (s : List ℝ) : Market ℝ :=
  { spot := s, variance := [], volatility := [], listed := [], dt := 1, strike := 1, oracle := [] }

/-- two one-path batches: spot `(1,2,4)` and spot `(1,3,2)`, hedged with the underlier, no costs:
`pl₁(w,b) = (w+b)·1 + (2w+b)·2 − 3 = 5w + 3b − 3`, `pl₂(w,b) = (w+b)·2 − (3w+b) − 1 = −w + b − 1` -/
noncomputable def exB1 : Batch ℝ := [(exMarket [1, 2, 4], [⟨.primary [1, 2, 4], 0⟩])]
noncomputable def exB2 : Batch ℝ := [(exMarket [1, 3, 2], [⟨.primary [1, 3, 2], 0⟩])]

theorem ex_loss1 (w b : ℝ) :
    lossAt exSpec [w, b] exB1 = .ok ((5 * w + 3 * b - 3) * (5 * w + 3 * b - 3)) := by
  simp [lossAt, lossOfH, hedgerPL, hedgerSpotUnit, stackPrices, nSteps, PriceSrc.prices,
    computeHedge, inputsAll, Feature.getAll, BaseFeature.getAll, dupLast, logIf, lastL,
    transposeHT, colsFrom, colAt, idx, derivPayoff, PayoffSpec.eval, europeanPayoff, reluS,
    applyClauses, exSpec, exB1, exMarket, layersOf, rowsOf, mlpL, linearL, dotL,
    Feature.stateDependent, BaseFeature.stateDependent, applyCritH, meanR, plPath, gains1, cost1,
    first1, zipWith3L, sumL, mulL, initL, diffL, tailL, bind, Except.bind, pure, Except.pure]
  ring

theorem ex_loss2 (w b : ℝ) :
    lossAt exSpec [w, b] exB2 = .ok ((-w + b - 1) * (-w + b - 1)) := by
  simp [lossAt, lossOfH, hedgerPL, hedgerSpotUnit, stackPrices, nSteps, PriceSrc.prices,
    computeHedge, inputsAll, Feature.getAll, BaseFeature.getAll, dupLast, logIf, lastL,
    transposeHT, colsFrom, colAt, idx, derivPayoff, PayoffSpec.eval, europeanPayoff, reluS,
    applyClauses, exSpec, exB2, exMarket, layersOf, rowsOf, mlpL, linearL, dotL,
    Feature.stateDependent, BaseFeature.stateDependent, applyCritH, meanR, plPath, gains1, cost1,
    first1, zipWith3L, sumL, mulL, initL, diffL, tailL, bind, Except.bind, pure, Except.pure]
  norm_num
  ring

theorem ex_dual1 (w b : ℝ) (q : ℕ) (hq : q < 2) :
    lossDual exSpec [w, b] exB1 q = .ok ⟨(5 * w + 3 * b - 3) * (5 * w + 3 * b - 3),
      (if q = 0 then 10 else 6) * (5 * w + 3 * b - 3)⟩ := by
  have hq' : q = 0 ∨ q = 1 := by omega
  rcases hq' with rfl | rfl <;>
  · simp [lossDual, seedFlat, lossOfH, hedgerPL, hedgerSpotUnit, stackPrices, nSteps,
      PriceSrc.prices, computeHedge, inputsAll, Feature.getAll, BaseFeature.getAll, dupLast, logIf,
      lastL, transposeHT, colsFrom, colAt, idx, derivPayoff, PayoffSpec.eval, europeanPayoff,
      reluS, applyClauses, exSpec, exB1, exMarket, layersOf, rowsOf, Dual.liftPaths,
      Dual.liftMarket, Dual.liftInstr, Dual.liftSrc, Dual.liftSpec, Dual.liftReg, Dual.liftCrit,
      Dual.liftBase, Dual.const, Dual.var, mlpL, linearL, dotL, Feature.stateDependent,
      BaseFeature.stateDependent, applyCritH, meanR, plPath, gains1, cost1, first1, zipWith3L,
      sumL, mulL, initL, diffL, tailL, Dual.le_iff, bind, Except.bind, pure, Except.pure]
    ext <;> simp <;> ring

theorem ex_dual2 (w b : ℝ) (q : ℕ) (hq : q < 2) :
    lossDual exSpec [w, b] exB2 q = .ok ⟨(-w + b - 1) * (-w + b - 1),
      (if q = 0 then -2 else 2) * (-w + b - 1)⟩ := by
  have hq' : q = 0 ∨ q = 1 := by omega
  rcases hq' with rfl | rfl <;>
  · simp [lossDual, seedFlat, lossOfH, hedgerPL, hedgerSpotUnit, stackPrices, nSteps,
      PriceSrc.prices, computeHedge, inputsAll, Feature.getAll, BaseFeature.getAll, dupLast, logIf,
      lastL, transposeHT, colsFrom, colAt, idx, derivPayoff, PayoffSpec.eval, europeanPayoff,
      reluS, applyClauses, exSpec, exB2, exMarket, layersOf, rowsOf, Dual.liftPaths,
      Dual.liftMarket, Dual.liftInstr, Dual.liftSrc, Dual.liftSpec, Dual.liftReg, Dual.liftCrit,
      Dual.liftBase, Dual.const, Dual.var, mlpL, linearL, dotL, Feature.stateDependent,
      BaseFeature.stateDependent, applyCritH, meanR, plPath, gains1, cost1, first1, zipWith3L,
      sumL, mulL, initL, diffL, tailL, Dual.le_iff, bind, Except.bind, pure, Except.pure]
    ext <;> simp <;> norm_num <;> ring

theorem ex_grad1 (w b : ℝ) :
    gradOf exSpec [w, b] exB1 = .ok [10 * (5 * w + 3 * b - 3), 6 * (5 * w + 3 * b - 3)] := by
  unfold gradOf
  rw [show List.range [w, b].length = [0, 1] from rfl]
  simp [List.mapM_cons, ex_dual1, bind, Except.bind, pure, Except.pure]

theorem ex_grad2 (w b : ℝ) :
    gradOf exSpec [w, b] exB2 = .ok [-2 * (-w + b - 1), 2 * (-w + b - 1)] := by
  unfold gradOf
  rw [show List.range [w, b].length = [0, 1] from rfl]
  simp [List.mapM_cons, ex_dual2, bind, Except.bind, pure, Except.pure]

end PfVerif.C15NumAux

namespace PfVerif.C15NumAux
open PfVerif PfVerif.FitNum

theorem ex_step (lr : ℝ) (s : OptState ℝ) (w b g0 g1 : ℝ) :
    optStep (.sgd lr 0 0) s [w, b] [g0, g1]
      = ([w + -lr * g0, b + -lr * g1], { s with steps := s.steps + 1 }) := by
  simp [optStep, sgdStep_plain, addScaled]

theorem ensembleMean_one (x : ℝ) : ensembleMean [x] = .ok x := rfl
theorem ensembleMean_two (x y : ℝ) (r : List ℝ) :
    ensembleMean (x :: y :: r) = .ok (meanR (x :: y :: r)) := rfl

end PfVerif.C15NumAux

namespace PfVerif.C15Num
open PfVerif PfVerif.FitNum PfVerif.C15NumAux PfVerif.C15Aux

/-- **a concrete run**: two epochs of plain SGD (`lr = 1/100`) from `(w, b) = (1, 0)`, training
batch `exB1` then `exB2`, validation with `n_times = 1` (on `exB2`) then `n_times = 2` (on `exB1`,
`exB2`).  Epoch 1: `pl₁ = 2`, loss `4`, gradient `(20, 12)`, new parameters `(4/5, −3/25)`;
epoch 2: `pl₂ = −48/25`, loss `2304/625`, gradient `(96/25, −96/25)`, new parameters
`(476/625, −51/625)`; history `[2304/625, (123904/390625 + 1327104/390625)/2]` -/
theorem example_two_epochs :
    ∃ out, fitNum exSpec (.sgd (1 / 100) 0 0) [1, 0]
        [⟨exB1, some [exB2]⟩, ⟨exB2, some [exB1, exB2]⟩] = .ok out ∧
      out.params = [[4 / 5, -3 / 25], [476 / 625, -51 / 625]] ∧
      out.trainLosses = [4, 2304 / 625] ∧
      out.epochs.map (fun e => e.grad) = [[20, 12], [96 / 25, -96 / 25]] ∧
      out.history = [2304 / 625, 725504 / 390625] ∧
      out.final.θ = [476 / 625, -51 / 625] ∧ out.steps = 2 ∧ out.lossEvals = 5 := by
  have v1 : validate exSpec [4 / 5, -3 / 25] (some [exB2]) = .ok ([2304 / 625], some (2304 / 625)) := by
    simp [validate, List.mapM_cons, ex_loss2, ensembleMean_one, bind, Except.bind, pure, Except.pure]
    norm_num
  have v2 : validate exSpec [476 / 625, -51 / 625] (some [exB1, exB2])
      = .ok ([123904 / 390625, 1327104 / 390625], some (725504 / 390625)) := by
    simp [validate, List.mapM_cons, ex_loss1, ex_loss2, ensembleMean_two, meanR, sumL, bind,
      Except.bind, pure, Except.pure]
    norm_num
  have s1 : optStep (.sgd (1 / 100) 0 0) (OptState.init 2) ([1, 0] : List ℝ) [20, 12]
      = ([4 / 5, -3 / 25], ⟨1, none, [0, 0], [0, 0]⟩) := by
    rw [ex_step]; simp [OptState.init, List.replicate]; norm_num
  have s2 : optStep (.sgd (1 / 100) 0 0) ⟨1, none, [0, 0], [0, 0]⟩ ([4 / 5, -3 / 25] : List ℝ)
      [96 / 25, -96 / 25]
      = ([476 / 625, -51 / 625], ⟨2, none, [0, 0], [0, 0]⟩) := by
    rw [ex_step]; norm_num
  have e1 := epoch_of (spec := exSpec) (o := .sgd (1 / 100) 0 0) (st := TrainState.init [1, 0])
    (e := ⟨exB1, some [exB2]⟩) (l := 4) (g := [20, 12]) (vs := [2304 / 625])
    (v := some (2304 / 625)) (by simp [TrainState.init, ex_loss1]; norm_num)
    (by simp [TrainState.init, ex_grad1]; norm_num)
    (by
      show validate exSpec (optStep (.sgd (1 / 100) 0 0) (OptState.init 2) [1, 0] [20, 12]).1 _ = _
      rw [s1]; exact v1)
  have e2 := epoch_of (spec := exSpec) (o := .sgd (1 / 100) 0 0)
    (st := ⟨[4 / 5, -3 / 25], ⟨1, none, [0, 0], [0, 0]⟩, some [20, 12]⟩)
    (e := ⟨exB2, some [exB1, exB2]⟩) (l := 2304 / 625) (g := [96 / 25, -96 / 25])
    (vs := [123904 / 390625, 1327104 / 390625]) (v := some (725504 / 390625))
    (by simp [ex_loss2]; norm_num) (by simp [ex_grad2]; norm_num)
    (by
      show validate exSpec (optStep (.sgd (1 / 100) 0 0) ⟨1, none, [0, 0], [0, 0]⟩ [4 / 5, -3 / 25]
        [96 / 25, -96 / 25]).1 _ = _
      rw [s2]; exact v2)
  simp only [TrainState.init, List.length_cons, List.length_nil, s1] at e1
  simp only [s2] at e2
  have hrun : fitNum exSpec (.sgd (1 / 100) 0 0) [1, 0]
      [⟨exB1, some [exB2]⟩, ⟨exB2, some [exB1, exB2]⟩]
      = .ok ⟨[⟨[4 / 5, -3 / 25], 4, [20, 12], [2304 / 625], some (2304 / 625)⟩,
              ⟨[476 / 625, -51 / 625], 2304 / 625, [96 / 25, -96 / 25],
                [123904 / 390625, 1327104 / 390625], some (725504 / 390625)⟩],
             ⟨[476 / 625, -51 / 625], ⟨2, none, [0, 0], [0, 0]⟩, some [96 / 25, -96 / 25]⟩⟩ := by
    simp only [fitNum, fitNumFrom, runEpochs, TrainState.init, List.length_cons, List.length_nil,
      e1, e2]
  exact ⟨_, hrun, rfl, rfl, rfl, rfl, rfl, rfl, rfl⟩

/-- … on which the gradient theorem applies (all hypotheses of `gradOf_is_gradient` hold at
`θ = (1, 0)` on `exB1`, coordinate `w`): `20` is the partial derivative of the real loss
`w ↦ (5w − 3)²` at `w = 1` -/
theorem example_gradient : ∃ ℓ : ℝ → ℝ,
    (∀ t, lossAt exSpec [t, 0] exB1 = .ok (ℓ t)) ∧ ℓ 1 = 4 ∧ HasDerivAt ℓ 20 1 := by
  have hg : gradOf exSpec [1, 0] exB1 = .ok [20, 12] := by rw [ex_grad1]; norm_num
  obtain ⟨ℓ, h1, h2, h3⟩ := gradOf_is_gradient hg 0 (by simp) ⟨fun _ _ _ _ => trivial, by
      intro mh hmh rows units _ _ cu hcu hc
      simp only [exB1, List.mem_singleton] at hmh
      subst hmh
      simp only [List.map_cons, List.map_nil] at hcu
      have := (List.of_mem_zip hcu).1
      simp only [List.mem_singleton] at this
      exact absurd this hc, fun _ _ => trivial⟩
  refine ⟨ℓ, fun t => by simpa using h1 t, ?_, by simpa using h3⟩
  have := h2
  rw [ex_loss1] at this
  injection this with this
  simp only [List.getD_cons_zero] at this
  rw [← this]; norm_num

/-- `MatchesCfg` is satisfiable and `counts_match_events` applies to the concrete run: the two
epochs above fit the configuration `epochs = 2, n_paths = 1, n_times = 1` without validation … -/
example : MatchesCfg ⟨2, 1, 1, false, .cls, false, false, true⟩ [⟨exB1, none⟩, ⟨exB2, none⟩] := by
  refine ⟨rfl, ?_⟩
  intro e he
  simp only [List.mem_cons, List.not_mem_nil, or_false] at he
  rcases he with rfl | rfl <;> exact ⟨rfl, rfl⟩

/-- … and with validation, `n_times = 2` -/
example : MatchesCfg ⟨1, 1, 2, false, .instance, false, true, true⟩ [⟨exB2, some [exB1, exB2]⟩] := by
  refine ⟨rfl, ?_⟩
  intro e he
  simp only [List.mem_singleton] at he
  subst he
  refine ⟨rfl, rfl, rfl, ?_⟩
  intro b hb
  simp only [List.mem_cons, List.not_mem_nil, or_false] at hb
  rcases hb with rfl | rfl <;> rfl

/-- zero gradient is not vacuous: at `(w, b) = (0, 1)` the first batch is hedged exactly
(`pl₁ = 0`), the gradient of the mean-square loss vanishes and plain SGD stays put -/
example : gradOf exSpec [0, 1] exB1 = .ok [0, 0] := by rw [ex_grad1]; norm_num

/-- `n_times = 0` with validation on is the RuntimeError of `torch.stack([])` -/
example : fitNum exSpec (.sgd (1 / 100) 0 0) [1, 0] [⟨exB1, some []⟩] = .error .runtimeError := by
  have hl : lossAt exSpec [1, 0] exB1 = .ok 4 := by rw [ex_loss1]; norm_num
  have hg : gradOf exSpec [1, 0] exB1 = .ok [20, 12] := by rw [ex_grad1]; norm_num
  simp [fitNum, fitNumFrom, runEpochs, epoch, TrainState.init, TrainState.zeroGrad, hl, hg,
    validate, ensembleMean, pure, Except.pure]

end PfVerif.C15Num
