/-
  C12, stateful part: properties of the session model (Model/Session.lean).

  A derivative object lives through a history of operations.  Proved here, for EVERY history:
    * history-independence: the answer of `payoff()` is `payoffOf` of the current terms, buffer and
      clause registry, and these are "last write wins" folds of the history
      (characterised one by one: strike, call flag, start, cells, buffer, clauses);
    * `payoff()` is pure: inserting or removing queries changes no state and no other output;
    * writes to different parts of the object commute (so do edits of different cells);
    * the C12 relations (one entry per path, call − put = S_T − K, lookback ≥ European,
      American ≥ European binary, ranges) hold in every reachable state.
-/
import PfVerif.Model.Session
import PfVerif.Props.C12

namespace PfVerif.C12Session
open PfVerif PfVerif.Session

/-! ## the "last write wins" folds -/

def strikeStep {α : Type} (k : α) : Op α → α
  | .setStrike k' => k'
  | _ => k

def callStep {α : Type} (c : Bool) : Op α → Bool
  | .setCall b => b
  | .toggleCall => !c
  | _ => c

def startStep {α : Type} (i : Int) : Op α → Int
  | .setStart i' => i'
  | _ => i

def bufferStep {α : Type} (b : List (List α)) : Op α → List (List α)
  | .setCell i j v => (setCell b i j v).getD b
  | .reregister b' => b'
  | _ => b

def clausesStep {α : Type} (attrs : List String) (reg : List (String × Clause α)) :
    Op α → List (String × Clause α)
  | .addClause n c => if nameOk attrs reg n then addClause reg n c else reg
  | _ => reg

/-- strike after a history: every `setStrike` overwrites -/
def strikeAfter {α : Type} (k0 : α) (ops : List (Op α)) : α := ops.foldl strikeStep k0

/-- call flag after a history: `setCall` overwrites, `toggleCall` negates -/
def callAfter {α : Type} (c0 : Bool) (ops : List (Op α)) : Bool := ops.foldl callStep c0

/-- start index after a history -/
def startAfter {α : Type} (i0 : Int) (ops : List (Op α)) : Int := ops.foldl startStep i0

/-- price buffer after a history: a successful cell edit changes one cell, a failed one nothing,
a re-registration replaces everything -/
def bufferAfter {α : Type} (b0 : List (List α)) (ops : List (Op α)) : List (List α) :=
  ops.foldl bufferStep b0

/-- clause registry after a history: accepted names go through `addClause` (Model/Payoff.lean) -/
def clausesAfter {α : Type} (attrs : List String) (reg0 : List (String × Clause α))
    (ops : List (Op α)) : List (String × Clause α) :=
  ops.foldl (clausesStep attrs) reg0

def termsAfter {α : Type} (t0 : Terms α) (ops : List (Op α)) : Terms α :=
  { strike := strikeAfter t0.strike ops, call := callAfter t0.call ops,
    start := startAfter t0.start ops, dt := t0.dt }

/-! ## the state after a history is given by the folds -/

section State
variable {α : Type}

private theorem exec_nil (s : State α) : exec s [] = s := rfl

private theorem exec_cons (s : State α) (op : Op α) (ops : List (Op α)) :
    exec s (op :: ops) = exec (next s op) ops := rfl

theorem exec_append (s : State α) (h1 h2 : List (Op α)) :
    exec s (h1 ++ h2) = exec (exec s h1) h2 := by
  simp [exec, List.foldl_append]

/-- one operation acts on each part of the object separately -/
theorem next_eq (s : State α) (op : Op α) :
    next s op = { terms := { strike := strikeStep s.terms.strike op, call := callStep s.terms.call op,
                             start := startStep s.terms.start op, dt := s.terms.dt },
                  spot := bufferStep s.spot op,
                  clauses := clausesStep s.attrs s.clauses op, attrs := s.attrs } := by
  cases op with
  | setCell i j v =>
    cases h : setCell s.spot i j v <;>
      simp [next, h, strikeStep, callStep, startStep, bufferStep, clausesStep]
  | addClause n c =>
    cases h : nameOk s.attrs s.clauses n <;>
      simp [next, h, strikeStep, callStep, startStep, bufferStep, clausesStep]
  | _ => rfl

/-- each part of the object evolves by its own fold, independently of the other parts -/
theorem exec_eq (s : State α) (ops : List (Op α)) :
    exec s ops = { terms := termsAfter s.terms ops, spot := bufferAfter s.spot ops,
                   clauses := clausesAfter s.attrs s.clauses ops, attrs := s.attrs } := by
  induction ops generalizing s with
  | nil => rfl
  | cons op ops ih =>
    rw [exec_cons, ih, next_eq]
    rfl

/-- the attribute names never change -/
theorem exec_attrs (s : State α) (ops : List (Op α)) : (exec s ops).attrs = s.attrs := by
  rw [exec_eq]

theorem exec_terms (s : State α) (ops : List (Op α)) :
    (exec s ops).terms = termsAfter s.terms ops := by rw [exec_eq]

theorem exec_spot (s : State α) (ops : List (Op α)) :
    (exec s ops).spot = bufferAfter s.spot ops := by rw [exec_eq]

theorem exec_clauses (s : State α) (ops : List (Op α)) :
    (exec s ops).clauses = clausesAfter s.attrs s.clauses ops := by rw [exec_eq]

end State

/-! ## characterisation of the folds: the last write wins -/

section Folds
variable {α : Type}

/-- the value a `setStrike` writes -/
def strikeWrite : Op α → Option α
  | .setStrike k => some k
  | _ => none

def startWrite : Op α → Option Int
  | .setStart i => some i
  | _ => none

/-- the current strike is the last one set, else the initial one -/
theorem strikeAfter_eq_last (k0 : α) (ops : List (Op α)) :
    strikeAfter k0 ops = ((ops.filterMap strikeWrite).getLast?).getD k0 := by
  unfold strikeAfter
  induction ops generalizing k0 with
  | nil => rfl
  | cons op ops ih =>
    rw [List.foldl_cons, ih]
    cases op <;> simp [strikeStep, strikeWrite, List.filterMap_cons, List.getLast?_cons]

/-- the current start index is the last one set, else the initial one -/
theorem startAfter_eq_last (i0 : Int) (ops : List (Op α)) :
    startAfter i0 ops = ((ops.filterMap startWrite).getLast?).getD i0 := by
  unfold startAfter
  induction ops generalizing i0 with
  | nil => rfl
  | cons op ops ih =>
    rw [List.foldl_cons, ih]
    cases op <;> simp [startStep, startWrite, List.filterMap_cons, List.getLast?_cons]

/-- whatever happened before a `setCall` is forgotten -/
theorem callAfter_setCall (c0 b : Bool) (h1 h2 : List (Op α)) :
    callAfter c0 (h1 ++ Op.setCall b :: h2) = callAfter b h2 := by
  simp [callAfter, List.foldl_append, callStep]

def isSetCall : Op α → Bool
  | .setCall _ => true
  | _ => false

def isToggle : Op α → Bool
  | .toggleCall => true
  | _ => false

/-- without a `setCall`, the flag is the initial one negated once per toggle -/
theorem callAfter_toggles (c0 : Bool) (h : List (Op α)) (hs : ∀ op ∈ h, isSetCall op = false) :
    callAfter c0 h = if (h.filter isToggle).length % 2 = 0 then c0 else !c0 := by
  unfold callAfter
  induction h generalizing c0 with
  | nil => simp
  | cons op ops ih =>
    have hs' : ∀ op ∈ ops, isSetCall op = false := fun o ho => hs o (List.mem_cons_of_mem _ ho)
    have h0 := hs op List.mem_cons_self
    rw [List.foldl_cons, ih _ hs']
    cases op <;> simp [isSetCall] at h0 <;> simp [callStep, isToggle, List.filter_cons]
    rcases Nat.mod_two_eq_zero_or_one (List.filter isToggle ops).length with h | h <;>
      simp [Nat.add_mod, h]

/-- so: the flag is the last one set (else the initial one), negated once per later toggle -/
theorem callAfter_last (c0 b : Bool) (h1 h2 : List (Op α)) (hs : ∀ op ∈ h2, isSetCall op = false) :
    callAfter c0 (h1 ++ Op.setCall b :: h2)
      = if (h2.filter isToggle).length % 2 = 0 then b else !b := by
  rw [callAfter_setCall, callAfter_toggles b h2 hs]

/-- a re-registered buffer replaces everything that happened to the old one -/
theorem bufferAfter_reregister (b0 b : List (List α)) (h1 h2 : List (Op α)) :
    bufferAfter b0 (h1 ++ Op.reregister b :: h2) = bufferAfter b h2 := by
  simp [bufferAfter, List.foldl_append, bufferStep]

def touchesSpot : Op α → Bool
  | .setCell _ _ _ => true
  | .reregister _ => true
  | _ => false

/-- operations that are not price edits leave the buffer alone -/
theorem bufferAfter_untouched (b0 : List (List α)) (h : List (Op α))
    (hs : ∀ op ∈ h, touchesSpot op = false) : bufferAfter b0 h = b0 := by
  unfold bufferAfter
  induction h with
  | nil => rfl
  | cons op ops ih =>
    have h0 := hs op List.mem_cons_self
    rw [List.foldl_cons]
    cases op <;> simp [touchesSpot] at h0 <;>
      exact ih (fun o ho => hs o (List.mem_cons_of_mem _ ho))

private theorem bufferAfter_snoc (b0 : List (List α)) (h : List (Op α)) (op : Op α) :
    bufferAfter b0 (h ++ [op]) = bufferStep (bufferAfter b0 h) op := by
  simp [bufferAfter, List.foldl_append]

end Folds

/-! ## cells: in-place edits -/

section Cells
variable {α : Type}

private theorem length_setNth {β : Type} (xs : List β) (k : Nat) (v : β) :
    (setNth xs k v).length = xs.length := by
  induction xs generalizing k with
  | nil => rfl
  | cons x xs ih => cases k <;> simp [setNth, ih]

private theorem getElem?_setNth {β : Type} (xs : List β) (k m : Nat) (v : β) :
    (setNth xs k v)[m]? = if m = k ∧ k < xs.length then some v else xs[m]? := by
  induction xs generalizing k m with
  | nil => simp [setNth]
  | cons x xs ih =>
    cases k with
    | zero => cases m <;> simp [setNth]
    | succ k => cases m <;> simp [setNth, ih]

private theorem setNth_setNth_same {β : Type} (xs : List β) (k : Nat) (a b : β) :
    setNth (setNth xs k a) k b = setNth xs k b := by
  induction xs generalizing k with
  | nil => rfl
  | cons x xs ih => cases k <;> simp [setNth, ih]

private theorem setNth_comm {β : Type} (xs : List β) (k m : Nat) (a b : β) (h : k ≠ m) :
    setNth (setNth xs k a) m b = setNth (setNth xs m b) k a := by
  induction xs generalizing k m with
  | nil => rfl
  | cons x xs ih =>
    cases k <;> cases m <;> simp [setNth] at h ⊢
    exact ih _ _ h

/-- the cell `(r, c)` of a buffer -/
def cell (buf : List (List α)) (r c : Nat) : Option α := (buf[r]?).bind (fun row => row[c]?)

/-- all rows have `T` entries, and there are `N` of them (the shape of a 2-d tensor) -/
def Rect (N T : Nat) (buf : List (List α)) : Prop := buf.length = N ∧ ∀ row ∈ buf, row.length = T

/-- `setCell` succeeds exactly when both indices resolve, and then writes that one cell -/
theorem setCell_eq_some (buf buf' : List (List α)) (i j : Int) (v : α) :
    setCell buf i j v = some buf' ↔
      ∃ r row c, pyIndex buf.length i = some r ∧ buf[r]? = some row ∧ pyIndex row.length j = some c
        ∧ buf' = setNth buf r (setNth row c v) := by
  unfold setCell
  constructor
  · intro h
    split at h
    · exact absurd h (by simp)
    · rename_i r hr
      split at h
      · exact absurd h (by simp)
      · rename_i row hrow
        split at h
        · exact absurd h (by simp)
        · rename_i c hc
          exact ⟨r, row, c, hr, hrow, hc, (Option.some.inj h).symm⟩
  · rintro ⟨r, row, c, hr, hrow, hc, rfl⟩
    simp [hr, hrow, hc]

private theorem pyIndex_lt {n : Nat} {i : Int} {k : Nat} (h : pyIndex n i = some k) : k < n := by
  unfold pyIndex at h
  split at h
  · split at h
    · cases h; assumption
    · exact absurd h (by simp)
  · split at h
    · cases h; omega
    · exact absurd h (by simp)

/-- on an `N × T` buffer: success iff both indices are inside, Python-style -/
theorem setCell_rect {N T : Nat} {buf : List (List α)} (hR : Rect N T buf) (i j : Int) (v : α) :
    (∀ buf', setCell buf i j v = some buf' →
      ∃ r c, pyIndex N i = some r ∧ pyIndex T j = some c ∧ Rect N T buf' ∧
        ∀ r' c', cell buf' r' c' = if r' = r ∧ c' = c then some v else cell buf r' c') ∧
    (setCell buf i j v = none → pyIndex N i = none ∨ pyIndex T j = none) := by
  obtain ⟨hN, hT⟩ := hR
  constructor
  · intro buf' h
    obtain ⟨r, row, c, hr, hrow, hc, rfl⟩ := (setCell_eq_some _ _ _ _ _).1 h
    have hmem : row ∈ buf := List.mem_of_getElem? hrow
    have hlen : row.length = T := hT row hmem
    refine ⟨r, c, hN ▸ hr, hlen ▸ hc, ⟨by rw [length_setNth, hN], ?_⟩, ?_⟩
    · intro row' hrow'
      obtain ⟨m, hm⟩ := List.getElem?_of_mem hrow'
      rw [getElem?_setNth] at hm
      split at hm
      · cases hm; rw [length_setNth, hlen]
      · exact hT _ (List.mem_of_getElem? hm)
    · intro r' c'
      have hrlt : r < buf.length := pyIndex_lt hr
      have hclt : c < row.length := pyIndex_lt hc
      unfold cell
      rw [getElem?_setNth]
      by_cases h1 : r' = r
      · subst h1
        simp only [true_and, hrlt, if_true, Option.bind_some, hrow, getElem?_setNth, hclt, and_true]
      · simp [h1]
  · intro h
    unfold setCell at h
    split at h
    · rename_i hr; exact Or.inl (hN ▸ hr)
    · rename_i r hr
      have hrlt : r < buf.length := pyIndex_lt hr
      split at h
      · rename_i hrow; simp at hrow; omega
      · rename_i row hrow
        split at h
        · rename_i hc
          have hlen : row.length = T := hT row (List.mem_of_getElem? hrow)
          exact Or.inr (hlen ▸ hc)
        · exact absurd h (by simp)

/-- the value a history operation writes to cell `(r, c)` of an `N × T` buffer, if it does -/
def cellWrite (N T r c : Nat) : Op α → Option α
  | .setCell i j v => if pyIndex N i = some r ∧ pyIndex T j = some c then some v else none
  | _ => none

def isReregister : Op α → Bool
  | .reregister _ => true
  | _ => false

/-- in-place edits keep the shape -/
theorem bufferAfter_rect {N T : Nat} {b0 : List (List α)} (hR : Rect N T b0) (h : List (Op α))
    (hs : ∀ op ∈ h, isReregister op = false) : Rect N T (bufferAfter b0 h) := by
  unfold bufferAfter
  induction h generalizing b0 with
  | nil => exact hR
  | cons op ops ih =>
    have h0 := hs op List.mem_cons_self
    have hs' : ∀ o ∈ ops, isReregister o = false := fun o ho => hs o (List.mem_cons_of_mem _ ho)
    rw [List.foldl_cons]
    cases op with
    | setCell i j v =>
      simp only [bufferStep]
      cases hc : setCell b0 i j v with
      | none => exact ih hR hs'
      | some buf' =>
        obtain ⟨_, _, _, _, hR', _⟩ := (setCell_rect hR i j v).1 buf' hc
        exact ih hR' hs'
    | reregister b => simp [isReregister] at h0
    | _ => exact ih hR hs'

/-- the current value of a cell is the last one written to it, else the initial one
(as long as the buffer object is the same: no re-registration in the history) -/
theorem cell_bufferAfter_eq_last {N T : Nat} {b0 : List (List α)} (hR : Rect N T b0)
    (h : List (Op α)) (hs : ∀ op ∈ h, isReregister op = false) (r c : Nat) :
    cell (bufferAfter b0 h) r c
      = match (h.filterMap (cellWrite N T r c)).getLast? with
        | some v => some v
        | none => cell b0 r c := by
  unfold bufferAfter
  induction h generalizing b0 with
  | nil => rfl
  | cons op ops ih =>
    have h0 := hs op List.mem_cons_self
    have hs' : ∀ o ∈ ops, isReregister o = false := fun o ho => hs o (List.mem_cons_of_mem _ ho)
    rw [List.foldl_cons]
    cases op with
    | setCell i j v =>
      simp only [bufferStep, List.filterMap_cons, cellWrite]
      cases hc : setCell b0 i j v with
      | none =>
        have hno := (setCell_rect hR i j v).2 hc
        have : ¬ (pyIndex N i = some r ∧ pyIndex T j = some c) := by
          rintro ⟨h1, h2⟩; rcases hno with h | h <;> simp_all
        simp only [this, if_false, Option.getD_none]
        exact ih hR hs'
      | some buf' =>
        obtain ⟨r0, c0, hr0, hc0, hR', hcell⟩ := (setCell_rect hR i j v).1 buf' hc
        simp only [Option.getD_some]
        rw [ih hR' hs', hcell]
        by_cases hhit : r = r0 ∧ c = c0
        · obtain ⟨rfl, rfl⟩ := hhit
          simp only [hr0, hc0, and_self, if_true, List.getLast?_cons]
          cases (List.filterMap (cellWrite N T r c) ops).getLast? <;> simp
        · have : ¬ (pyIndex N i = some r ∧ pyIndex T j = some c) := by
            rintro ⟨h1, h2⟩
            rw [hr0] at h1; rw [hc0] at h2
            exact hhit ⟨(Option.some.inj h1).symm, (Option.some.inj h2).symm⟩
          simp only [this, hhit, if_false]
    | reregister b => simp [isReregister] at h0
    | _ => simpa [bufferStep, List.filterMap_cons, cellWrite] using ih hR hs'

end Cells

/-! ## clauses: insertion order, a re-added name replaces in place -/

section Clauses
variable {β : Type}

/-- names after `addClause`: an existing name keeps its place, a new one goes last -/
theorem names_addClause (reg : List (String × β)) (n : String) (c : β) :
    (addClause reg n c).map Prod.fst
      = if n ∈ reg.map Prod.fst then reg.map Prod.fst else reg.map Prod.fst ++ [n] := by
  by_cases h : n ∈ reg.map Prod.fst
  · rw [if_pos h]
    obtain ⟨q, hq, hqn⟩ := List.mem_map.1 h
    exact C12.clause_replace_keeps_order reg n c ⟨q, hq, hqn⟩
  · rw [if_neg h]
    have : reg.any (fun p => p.1 == n) = false := by
      simp only [List.any_eq_false, beq_iff_eq]
      intro q hq hqn; exact h (List.mem_map.2 ⟨q, hq, hqn⟩)
    simp [addClause, this]

private theorem lookup_cons_ite (k a : String) (b : β) (es : List (String × β)) :
    List.lookup k ((a, b) :: es) = if k = a then some b else List.lookup k es := by
  rw [List.lookup_cons]
  by_cases h : k = a
  · subst h; simp
  · have hf : (k == a) = false := by simpa using h
    rw [hf, if_neg h]

private theorem lookup_map_replace (reg : List (String × β)) (n n' : String) (c : β) :
    (reg.map (fun p => if p.1 == n then (n, c) else p)).lookup n'
      = if n' = n then (if ∃ p ∈ reg, p.1 = n then some c else none) else reg.lookup n' := by
  induction reg with
  | nil => simp
  | cons q reg ih =>
    obtain ⟨a, b⟩ := q
    by_cases ha : a = n
    · subst ha
      simp only [List.map_cons, beq_self_eq_true, if_true, lookup_cons_ite, ih]
      by_cases hn : n' = a
      · simp [hn]
      · simp [hn]
    · have hf : (a == n) = false := by simpa using ha
      rw [List.map_cons]
      simp only [hf, Bool.false_eq_true, if_false]
      rw [lookup_cons_ite, lookup_cons_ite, ih]
      by_cases hn : n' = a
      · have : n' ≠ n := fun h => ha (hn ▸ h)
        simp [hn, ha]
      · have hex : (∃ p ∈ (a, b) :: reg, p.1 = n) ↔ ∃ p ∈ reg, p.1 = n := by
          constructor
          · rintro ⟨p, hp, hpn⟩
            rcases List.mem_cons.1 hp with rfl | hp
            · exact absurd hpn ha
            · exact ⟨p, hp, hpn⟩
          · rintro ⟨p, hp, hpn⟩; exact ⟨p, List.mem_cons_of_mem _ hp, hpn⟩
        simp only [hn, if_false, hex]

private theorem lookup_append_new (reg : List (String × β)) (n n' : String) (c : β)
    (h : ∀ p ∈ reg, p.1 ≠ n) :
    (reg ++ [(n, c)]).lookup n' = if n' = n then some c else reg.lookup n' := by
  induction reg with
  | nil => simp [lookup_cons_ite]
  | cons q reg ih =>
    obtain ⟨a, b⟩ := q
    have ha : a ≠ n := h (a, b) List.mem_cons_self
    rw [List.cons_append, lookup_cons_ite, lookup_cons_ite,
      ih (fun p hp => h p (List.mem_cons_of_mem _ hp))]
    by_cases hn : n' = a
    · have : n' ≠ n := fun h => ha (hn ▸ h)
      simp [hn, ha]
    · simp [hn]

/-- the clause found under a name after `addClause` -/
theorem lookup_addClause (reg : List (String × β)) (n n' : String) (c : β) :
    (addClause reg n c).lookup n' = if n' = n then some c else reg.lookup n' := by
  unfold addClause
  by_cases hex : ∃ p ∈ reg, p.1 = n
  · have hany : reg.any (fun p => p.1 == n) = true := by
      simp only [List.any_eq_true, beq_iff_eq]; exact hex
    rw [if_pos hany, lookup_map_replace, if_pos hex]
  · have hany : ¬ reg.any (fun p => p.1 == n) = true := by
      simp only [List.any_eq_true, beq_iff_eq]; exact hex
    rw [if_neg hany, lookup_append_new]
    intro p hp hpn; exact hex ⟨p, hp, hpn⟩

/-- registering a list of (accepted) clauses one after the other -/
def addAll (reg : List (String × β)) (adds : List (String × β)) : List (String × β) :=
  adds.foldl (fun r p => addClause r p.1 p.2) reg

/-- the names of the registry list the clauses in order of FIRST registration -/
theorem names_addAll (reg adds : List (String × β)) :
    (addAll reg adds).map Prod.fst
      = adds.foldl (fun ns p => if p.1 ∈ ns then ns else ns ++ [p.1]) (reg.map Prod.fst) := by
  unfold addAll
  induction adds generalizing reg with
  | nil => rfl
  | cons p ps ih => rw [List.foldl_cons, List.foldl_cons, ih, names_addClause]

/-- under each name sits the clause registered LAST under that name -/
theorem lookup_addAll (reg adds : List (String × β)) (n : String) :
    (addAll reg adds).lookup n
      = match (adds.filter (fun p => p.1 == n)).getLast? with
        | some p => some p.2
        | none => reg.lookup n := by
  unfold addAll
  induction adds generalizing reg with
  | nil => rfl
  | cons p ps ih =>
    rw [List.foldl_cons, ih, List.filter_cons]
    by_cases hp : p.1 = n
    · have : (p.1 == n) = true := by simpa using hp
      simp only [this, if_true, List.getLast?_cons]
      cases (List.filter (fun p => p.1 == n) ps).getLast? with
      | none => simp [lookup_addClause, hp]
      | some q => simp
    · have : (p.1 == n) = false := by simpa using hp
      simp only [this, Bool.false_eq_true, if_false]
      cases (List.filter (fun p => p.1 == n) ps).getLast? with
      | none => simp [lookup_addClause, Ne.symm hp]
      | some q => simp

end Clauses

section ClauseHistory
variable {α : Type}

/-- name validity that does not look at the registry -/
def staticOk (attrs : List String) (name : String) : Bool :=
  !(attrs.contains name) && !(name.toList.contains '.') && !(name == "")

/-- the accepted registrations of a history, in order -/
def validAdds (attrs : List String) (ops : List (Op α)) : List (String × Clause α) :=
  ops.filterMap (fun op => match op with
    | .addClause n c => if staticOk attrs n then some (n, c) else none
    | _ => none)

/-- as long as no clause carries the name of an attribute (true for a fresh object, and preserved),
`add_clause` accepts exactly the statically valid names -/
theorem nameOk_eq_staticOk (attrs : List String) (reg : List (String × Clause α)) (n : String)
    (hreg : ∀ p ∈ reg, attrs.contains p.1 = false) : nameOk attrs reg n = staticOk attrs n := by
  unfold nameOk staticOk
  by_cases ha : attrs.contains n = true
  · have : reg.any (fun p => p.1 == n) = false := by
      simp only [List.any_eq_false, beq_iff_eq]
      intro p hp hpn
      have := hreg p hp
      rw [hpn, ha] at this; exact absurd this (by simp)
    simp [this]
  · have hn : n ∉ attrs := by simpa using ha
    simp [hn]

/-- the registry after a history: the accepted registrations, through `addClause`, in order -/
theorem clausesAfter_eq_addAll (attrs : List String) (reg0 : List (String × Clause α))
    (hreg : ∀ p ∈ reg0, attrs.contains p.1 = false) (ops : List (Op α)) :
    clausesAfter attrs reg0 ops = addAll reg0 (validAdds attrs ops) := by
  unfold clausesAfter addAll validAdds
  induction ops generalizing reg0 with
  | nil => rfl
  | cons op ops ih =>
    rw [List.foldl_cons]
    cases op with
    | addClause n c =>
      simp only [clausesStep, nameOk_eq_staticOk attrs reg0 n hreg, List.filterMap_cons]
      cases hs : staticOk attrs n with
      | false => simpa using ih reg0 hreg
      | true =>
        simp only [if_true, List.foldl_cons]
        apply ih
        intro p hp
        have hnames : p.1 ∈ (addClause reg0 n c).map Prod.fst := List.mem_map.2 ⟨p, hp, rfl⟩
        rw [names_addClause] at hnames
        have hn : attrs.contains n = false := by
          unfold staticOk at hs
          cases h : attrs.contains n <;> simp_all
        split at hnames
        · obtain ⟨q, hq, hqp⟩ := List.mem_map.1 hnames
          rw [← hqp]; exact hreg q hq
        · rcases List.mem_append.1 hnames with h | h
          · obtain ⟨q, hq, hqp⟩ := List.mem_map.1 h
            rw [← hqp]; exact hreg q hq
          · rw [List.mem_singleton.1 h]; exact hn
    | _ => simpa [clausesStep] using ih reg0 hreg

end ClauseHistory

/-! ## history-independence of `payoff()`; queries are pure -/

section Pure
variable {α : Type}

def isQuery : Op α → Bool
  | .query => true
  | _ => false

/-- a history without its `payoff()` calls -/
def strip (ops : List (Op α)) : List (Op α) := ops.filter (fun op => !isQuery op)

/-- a `payoff()` call anywhere in a history changes no state -/
theorem exec_insert_query (s : State α) (h1 h2 : List (Op α)) :
    exec s (h1 ++ Op.query :: h2) = exec s (h1 ++ h2) := by
  rw [exec_append, exec_append, exec_cons]; rfl

/-- removing ALL the calls leaves the state -/
theorem exec_strip (s : State α) (ops : List (Op α)) : exec s (strip ops) = exec s ops := by
  induction ops generalizing s with
  | nil => rfl
  | cons op ops ih =>
    cases op <;> simp only [strip, List.filter_cons, isQuery, Bool.not_true, Bool.not_false,
      Bool.false_eq_true, if_false, if_true, exec_cons] <;> exact ih _

end Pure

section Run
variable {α : Type} [Add α] [Mul α] [OfNat α 0] [LE α] [DecidableLE α] [Max α] [Min α]
variable (pp : Terms α → List α → Except Err α)

/-- **History-independence.**  After ANY history the answer of `payoff()` is the payoff
(`payoffOf`, i.e. the definitions of Model/Payoff.lean) of the current terms on the current
prices under the current clauses — each of them a "last write wins" fold of the history.  No
earlier call, no earlier value, no object identity enters. -/
theorem answer_after_history (s : State α) (ops : List (Op α)) :
    answer pp (exec s ops)
      = outOf (payoffOf pp (termsAfter s.terms ops) (bufferAfter s.spot ops)
          (clausesAfter s.attrs s.clauses ops)) := by
  rw [exec_eq]; rfl

private theorem run_nil (s : State α) : run pp s [] = (s, []) := rfl

private theorem run_cons (s : State α) (op : Op α) (ops : List (Op α)) :
    run pp s (op :: ops)
      = ((run pp (next s op) ops).1, output pp s op :: (run pp (next s op) ops).2) := rfl

/-- the final state of `run` is `exec` (it does not depend on the payoff function at all) -/
theorem run_fst (s : State α) (ops : List (Op α)) : (run pp s ops).1 = exec s ops := by
  induction ops generalizing s with
  | nil => rfl
  | cons op ops ih => rw [run_cons, exec_cons]; exact ih _

theorem run_append (s : State α) (h1 h2 : List (Op α)) :
    run pp s (h1 ++ h2)
      = (exec s (h1 ++ h2), (run pp s h1).2 ++ (run pp (exec s h1) h2).2) := by
  induction h1 generalizing s with
  | nil => simp [run_nil, ← run_fst pp]
  | cons op ops ih =>
    rw [List.cons_append, run_cons, ih, run_cons, exec_cons, exec_cons]
    rfl

/-- one output per operation -/
theorem run_length (s : State α) (ops : List (Op α)) : (run pp s ops).2.length = ops.length := by
  induction ops generalizing s with
  | nil => rfl
  | cons op ops ih => rw [run_cons]; simp [ih]

/-- every output is the output of its operation in the state reached by the operations BEFORE it -/
theorem run_get (s : State α) (h1 : List (Op α)) (op : Op α) (h2 : List (Op α)) :
    (run pp s (h1 ++ op :: h2)).2[h1.length]? = some (output pp (exec s h1) op) := by
  rw [run_append, run_cons]
  simp [run_length]

/-- in particular every `payoff()` answer in a history is the payoff of the folds of the
operations before it -/
theorem query_in_history (s : State α) (h1 h2 : List (Op α)) :
    (run pp s (h1 ++ Op.query :: h2)).2[h1.length]?
      = some (outOf (payoffOf pp (termsAfter s.terms h1) (bufferAfter s.spot h1)
          (clausesAfter s.attrs s.clauses h1))) := by
  rw [run_get, ← answer_after_history]; rfl

/-! ### purity -/

/-- a `payoff()` call anywhere in a history changes no other output: the outputs with the call
are the outputs without it, plus the one answer at its place -/
theorem run_insert_query (s : State α) (h1 h2 : List (Op α)) :
    run pp s (h1 ++ Op.query :: h2)
      = ((run pp s (h1 ++ h2)).1,
         (run pp s h1).2 ++ answer pp (exec s h1) :: (run pp (exec s h1) h2).2) ∧
    (run pp s (h1 ++ h2)).2 = (run pp s h1).2 ++ (run pp (exec s h1) h2).2 := by
  constructor
  · rw [run_append, run_append, exec_insert_query, run_cons]; rfl
  · rw [run_append]

/-- a `payoff()` answer depends on the WRITES before it only, not on how many calls were made
in between or where -/
theorem answer_ignores_queries (s : State α) (h h' : List (Op α)) (e : strip h = strip h') :
    answer pp (exec s h) = answer pp (exec s h') := by
  rw [← exec_strip s h, ← exec_strip s h', e]

/-- the outputs of the writes (refused operations) do not depend on the calls either -/
theorem run_strip (s : State α) (ops : List (Op α)) :
    (run pp s (strip ops)).2
      = ((ops.zip (run pp s ops).2).filter (fun p => !isQuery p.1)).map Prod.snd := by
  induction ops generalizing s with
  | nil => rfl
  | cons op ops ih =>
    rw [run_cons]
    cases op <;> simp only [strip, List.filter_cons, isQuery, Bool.not_true, Bool.not_false,
      Bool.false_eq_true, if_false, if_true, List.zip_cons_cons, List.map_cons, run_cons] <;>
      first
      | (have := ih (next s Op.query); simpa [strip, next] using this)
      | (congr 1; exact ih _)

end Run

/-! ## independent writes commute -/

/-- the part of the object an operation writes -/
inductive Target where
  | strike | call | start | spot | clauses | nothing
  deriving DecidableEq

def target {α : Type} : Op α → Target
  | .setStrike _ => .strike
  | .setCall _ => .call
  | .toggleCall => .call
  | .setStart _ => .start
  | .setCell _ _ _ => .spot
  | .reregister _ => .spot
  | .addClause _ _ => .clauses
  | .query => .nothing

section Commute
variable {α : Type}

private theorem strikeStep_of_target (k : α) (op : Op α) (h : target op ≠ .strike) :
    strikeStep k op = k := by
  cases op <;> simp [target] at h <;> rfl

private theorem callStep_of_target (c : Bool) (op : Op α) (h : target op ≠ .call) :
    callStep c op = c := by
  cases op <;> simp [target] at h <;> rfl

private theorem startStep_of_target (i : Int) (op : Op α) (h : target op ≠ .start) :
    startStep i op = i := by
  cases op <;> simp [target] at h <;> rfl

private theorem bufferStep_of_target (b : List (List α)) (op : Op α) (h : target op ≠ .spot) :
    bufferStep b op = b := by
  cases op <;> simp [target] at h <;> rfl

private theorem clausesStep_of_target (attrs : List String) (r : List (String × Clause α))
    (op : Op α) (h : target op ≠ .clauses) : clausesStep attrs r op = r := by
  cases op <;> simp [target] at h <;> rfl

/-- two operations that write different parts of the object (a strike change and a price edit, a
clause registration and a re-registered buffer, …) can be carried out in either order -/
theorem next_comm (s : State α) (a b : Op α) (h : target a ≠ target b) :
    next (next s a) b = next (next s b) a := by
  rw [next_eq (next s a), next_eq (next s b), next_eq s a, next_eq s b]
  simp only
  have hs : strikeStep (strikeStep s.terms.strike a) b = strikeStep (strikeStep s.terms.strike b) a := by
    by_cases ha : target a = .strike
    · have hb : target b ≠ .strike := fun e => h (ha.trans e.symm)
      rw [strikeStep_of_target _ b hb, strikeStep_of_target _ b hb]
    · rw [strikeStep_of_target _ a ha, strikeStep_of_target _ a ha]
  have hc : callStep (callStep s.terms.call a) b = callStep (callStep s.terms.call b) a := by
    by_cases ha : target a = .call
    · have hb : target b ≠ .call := fun e => h (ha.trans e.symm)
      rw [callStep_of_target _ b hb, callStep_of_target _ b hb]
    · rw [callStep_of_target _ a ha, callStep_of_target _ a ha]
  have ht : startStep (startStep s.terms.start a) b = startStep (startStep s.terms.start b) a := by
    by_cases ha : target a = .start
    · have hb : target b ≠ .start := fun e => h (ha.trans e.symm)
      rw [startStep_of_target _ b hb, startStep_of_target _ b hb]
    · rw [startStep_of_target _ a ha, startStep_of_target _ a ha]
  have hb : bufferStep (bufferStep s.spot a) b = bufferStep (bufferStep s.spot b) a := by
    by_cases ha : target a = .spot
    · have hb : target b ≠ .spot := fun e => h (ha.trans e.symm)
      rw [bufferStep_of_target _ b hb, bufferStep_of_target _ b hb]
    · rw [bufferStep_of_target _ a ha, bufferStep_of_target _ a ha]
  have hr : clausesStep s.attrs (clausesStep s.attrs s.clauses a) b
      = clausesStep s.attrs (clausesStep s.attrs s.clauses b) a := by
    by_cases ha : target a = .clauses
    · have hb : target b ≠ .clauses := fun e => h (ha.trans e.symm)
      rw [clausesStep_of_target _ _ b hb, clausesStep_of_target _ _ b hb]
    · rw [clausesStep_of_target _ _ a ha, clausesStep_of_target _ _ a ha]
  rw [hs, hc, ht, hb, hr]

/-- … anywhere in a history: the object ends up in the same state, hence answers every later
`payoff()` (and every later operation) in the same way -/
theorem exec_swap (s : State α) (h1 h2 : List (Op α)) (a b : Op α) (h : target a ≠ target b) :
    exec s (h1 ++ a :: b :: h2) = exec s (h1 ++ b :: a :: h2) := by
  rw [exec_append, exec_append, exec_cons, exec_cons, exec_cons, exec_cons, next_comm _ a b h]

/-- two in-place edits of DIFFERENT cells commute as well -/
theorem setCell_comm (buf : List (List α)) (i j i' j' : Int) (v v' : α) (r c r' c' : Nat)
    (row row' : List α)
    (hr : pyIndex buf.length i = some r) (hrow : buf[r]? = some row)
    (hc : pyIndex row.length j = some c)
    (hr' : pyIndex buf.length i' = some r') (hrow' : buf[r']? = some row')
    (hc' : pyIndex row'.length j' = some c') (hne : r ≠ r' ∨ c ≠ c') :
    (setCell buf i j v).bind (fun b => setCell b i' j' v')
      = (setCell buf i' j' v').bind (fun b => setCell b i j v) := by
  have e1 : setCell buf i j v = some (setNth buf r (setNth row c v)) :=
    (setCell_eq_some _ _ _ _ _).2 ⟨r, row, c, hr, hrow, hc, rfl⟩
  have e2 : setCell buf i' j' v' = some (setNth buf r' (setNth row' c' v')) :=
    (setCell_eq_some _ _ _ _ _).2 ⟨r', row', c', hr', hrow', hc', rfl⟩
  have hrlt : r < buf.length := pyIndex_lt hr
  have hrlt' : r' < buf.length := pyIndex_lt hr'
  rw [e1, e2, Option.bind_some, Option.bind_some]
  by_cases hrr : r = r'
  · subst hrr
    have hrow_eq : row' = row := by rw [hrow] at hrow'; exact (Option.some.inj hrow').symm
    subst hrow_eq
    have hcc : c ≠ c' := by rcases hne with h | h; exact absurd rfl h; exact h
    have l1 : setCell (setNth buf r (setNth row' c v)) i' j' v'
        = some (setNth (setNth buf r (setNth row' c v)) r (setNth (setNth row' c v) c' v')) :=
      (setCell_eq_some _ _ _ _ _).2 ⟨r, setNth row' c v, c', by rw [length_setNth]; exact hr',
        by rw [getElem?_setNth]; simp [hrlt], by rw [length_setNth]; exact hc', rfl⟩
    have l2 : setCell (setNth buf r (setNth row' c' v')) i j v
        = some (setNth (setNth buf r (setNth row' c' v')) r (setNth (setNth row' c' v') c v)) :=
      (setCell_eq_some _ _ _ _ _).2 ⟨r, setNth row' c' v', c, by rw [length_setNth]; exact hr,
        by rw [getElem?_setNth]; simp [hrlt], by rw [length_setNth]; exact hc, rfl⟩
    rw [l1, l2, setNth_setNth_same, setNth_setNth_same, setNth_comm _ _ _ _ _ hcc]
  · have l1 : setCell (setNth buf r (setNth row c v)) i' j' v'
        = some (setNth (setNth buf r (setNth row c v)) r' (setNth row' c' v')) :=
      (setCell_eq_some _ _ _ _ _).2 ⟨r', row', c', by rw [length_setNth]; exact hr',
        by rw [getElem?_setNth]; simp [Ne.symm hrr, hrow'], hc', rfl⟩
    have l2 : setCell (setNth buf r' (setNth row' c' v')) i j v
        = some (setNth (setNth buf r' (setNth row' c' v')) r (setNth row c v)) :=
      (setCell_eq_some _ _ _ _ _).2 ⟨r, row, c, by rw [length_setNth]; exact hr,
        by rw [getElem?_setNth]; simp [hrr, hrow], hc, rfl⟩
    rw [l1, l2, setNth_comm _ _ _ _ _ hrr]

end Commute

section CommuteOut
variable {α : Type} [Add α] [Mul α] [OfNat α 0] [LE α] [DecidableLE α] [Max α] [Min α]
variable (pp : Terms α → List α → Except Err α)

/-- what a write shows (nothing, or its refusal) is not affected by an earlier write to another
part of the object -/
theorem output_after_independent (s : State α) (a b : Op α) (h : target a ≠ target b)
    (hb : isQuery b = false) : output pp (next s a) b = output pp s b := by
  cases b with
  | query => simp [isQuery] at hb
  | setCell i j v =>
    have : (next s a).spot = s.spot := by
      rw [next_eq]; exact bufferStep_of_target _ a h
    simp only [output, this]
  | addClause n c =>
    have h1 : (next s a).clauses = s.clauses := by
      rw [next_eq]; exact clausesStep_of_target _ _ a h
    have h2 : (next s a).attrs = s.attrs := by rw [next_eq]
    simp only [output, h1, h2]
  | _ => rfl

/-- swapping two adjacent independent writes swaps their two outputs and changes nothing else -/
theorem run_swap (s : State α) (h1 h2 : List (Op α)) (a b : Op α) (h : target a ≠ target b)
    (ha : isQuery a = false) (hb : isQuery b = false) :
    run pp s (h1 ++ a :: b :: h2)
      = (exec s (h1 ++ b :: a :: h2),
         (run pp s h1).2 ++ output pp (exec s h1) a :: output pp (exec s h1) b
           :: (run pp (exec s (h1 ++ [b, a])) h2).2) ∧
    run pp s (h1 ++ b :: a :: h2)
      = (exec s (h1 ++ b :: a :: h2),
         (run pp s h1).2 ++ output pp (exec s h1) b :: output pp (exec s h1) a
           :: (run pp (exec s (h1 ++ [b, a])) h2).2) := by
  have e : exec s (h1 ++ [b, a]) = next (next (exec s h1) b) a := by
    rw [exec_append]; rfl
  constructor
  · rw [run_append, exec_swap s h1 h2 a b h, run_cons, run_cons, e,
      output_after_independent pp _ a b h hb, next_comm _ a b h]
  · rw [run_append, run_cons, run_cons, e, output_after_independent pp _ b a (Ne.symm h) ha]

end CommuteOut

/-! ## the payoff vector of a state -/

section VectorPlain
variable {α : Type}

private theorem allOk_ok {β : Type} (l : List (Except Err β)) (v : List β) (h : allOk l = .ok v) :
    l = v.map Except.ok := by
  induction l generalizing v with
  | nil => simp only [allOk, Except.ok.injEq] at h; subst h; rfl
  | cons x xs ih =>
    cases x with
    | error e => simp [allOk] at h
    | ok a =>
      simp only [allOk] at h
      cases hxs : allOk xs with
      | error e => rw [hxs] at h; simp at h
      | ok as =>
        rw [hxs] at h
        simp only [Except.ok.injEq] at h
        subst h
        rw [ih as hxs]; rfl

/-- entry `i` of `payoff_fn()` is the per-path payoff of row `i` -/
theorem basePayoff_get (pp : Terms α → List α → Except Err α) (t : Terms α)
    (buf : List (List α)) (v : List α) (h : basePayoff pp t buf = .ok v) (i : Nat) (row : List α)
    (hi : buf[i]? = some row) : ∃ x, v[i]? = some x ∧ pp t row = .ok x := by
  have hm := allOk_ok _ _ h
  have : (buf.map (pp t))[i]? = (v.map Except.ok)[i]? := by rw [hm]
  rw [List.getElem?_map, List.getElem?_map, hi] at this
  cases hv : v[i]? with
  | none => rw [hv] at this; simp at this
  | some x => rw [hv] at this; exact ⟨x, rfl, by simpa using this⟩

private theorem basePayoff_length (pp : Terms α → List α → Except Err α) (t : Terms α)
    (buf : List (List α)) (v : List α) (h : basePayoff pp t buf = .ok v) :
    v.length = buf.length := by
  have hm := congrArg List.length (allOk_ok _ _ h)
  simpa using hm.symm

private theorem outOf_payoff (r : Except Err (List α)) (v : List α) (h : outOf r = .payoff v) :
    r = .ok v := by
  cases r with
  | error e => simp [outOf] at h
  | ok w => simp only [outOf, Out.payoff.injEq] at h; rw [h]

end VectorPlain

section Vector
variable {α : Type} [Add α] [Mul α] [OfNat α 0] [LE α] [DecidableLE α] [Max α] [Min α]

/-- without clauses `payoff()` is `payoff_fn()` -/
private theorem payoffOf_nil (pp : Terms α → List α → Except Err α) (t : Terms α) (buf : List (List α)) :
    payoffOf pp t buf [] = basePayoff pp t buf := rfl

omit [Add α] [Mul α] [Min α] in
private theorem knockVec_length (b : α) (buf : List (List α)) (p q : List α)
    (h : knockVec b buf p = .ok q) : q.length = p.length := by
  induction buf generalizing p q with
  | nil => cases p <;> simp [knockVec] at h; subst h; rfl
  | cons row rows ih =>
    cases p with
    | nil => simp [knockVec] at h
    | cons x xs =>
      simp only [knockVec] at h
      cases h1 : knockRow b row x with
      | error e => rw [h1] at h; simp at h
      | ok y =>
        rw [h1] at h
        cases h2 : knockVec b rows xs with
        | error e => rw [h2] at h; simp at h
        | ok ys =>
          rw [h2] at h
          simp only [Except.ok.injEq] at h
          subst h
          simp [ih xs ys h2]

private theorem apply_length (buf : List (List α)) (c : Clause α) (p q : List α)
    (h : c.apply buf p = .ok q) : q.length = p.length := by
  cases c with
  | knockOut b => exact knockVec_length b buf p q h
  | _ => simp only [Clause.apply, Except.ok.injEq] at h; subst h; simp

/-- the clause fold succeeds only from a successful start, through successful clauses -/
private theorem applyClauses_cons (buf : List (List α)) (n : String) (c : Clause α)
    (reg : List (String × Clause α)) (acc : Except Err (List α)) :
    applyClauses (clauseFns buf ((n, c) :: reg)) acc
      = applyClauses (clauseFns buf reg)
          (match acc with | .ok v => c.apply buf v | .error e => .error e) := rfl

private theorem applyClauses_length (buf : List (List α)) (reg : List (String × Clause α))
    (acc : Except Err (List α)) (v : List α) (h : applyClauses (clauseFns buf reg) acc = .ok v) :
    ∃ v0, acc = .ok v0 ∧ v.length = v0.length := by
  induction reg generalizing acc with
  | nil => exact ⟨v, h, rfl⟩
  | cons q reg ih =>
    obtain ⟨n, c⟩ := q
    rw [applyClauses_cons] at h
    obtain ⟨v1, h1, hl⟩ := ih _ h
    cases acc with
    | error e => simp at h1
    | ok v0 => exact ⟨v0, rfl, by rw [hl]; exact apply_length buf c v0 v1 h1⟩

/-- **One entry per path, after any history**: whenever `payoff()` answers, the vector has as many
entries as the CURRENT buffer has rows — whatever clauses were registered -/
theorem payoff_length_after (pp : Terms α → List α → Except Err α) (s : State α)
    (ops : List (Op α)) (v : List α) (h : answer pp (exec s ops) = .payoff v) :
    v.length = (bufferAfter s.spot ops).length := by
  rw [answer_after_history] at h
  obtain ⟨v0, h0, hl⟩ := applyClauses_length _ _ _ _ (outOf_payoff _ _ h)
  rw [hl]; exact basePayoff_length pp _ _ _ h0

end Vector

/-! ## the C12 relations in every reachable state (carrier ℝ) -/

section Real

/-- clauses that preserve the order of payoffs: caps, floors, knock-outs, and `a·p + b` with
`a ≥ 0` -/
def monoClause : Clause ℝ → Prop
  | .affine a _ => 0 ≤ a
  | _ => True

private theorem knockVec_mono (b : ℝ) (buf : List (List ℝ)) (p q p' q' : List ℝ)
    (hpq : List.Forall₂ (· ≤ ·) p q) (hp : knockVec b buf p = .ok p')
    (hq : knockVec b buf q = .ok q') : List.Forall₂ (· ≤ ·) p' q' := by
  induction buf generalizing p q p' q' with
  | nil =>
    cases hpq with
    | nil => simp only [knockVec, Except.ok.injEq] at hp hq; subst hp; subst hq; exact .nil
    | cons _ _ => simp [knockVec] at hp
  | cons row rows ih =>
    cases hpq with
    | nil => simp [knockVec] at hp
    | @cons x y xs ys hxy hrest =>
      simp only [knockVec] at hp hq
      cases row with
      | nil => simp [knockRow] at hp
      | cons r rs =>
        simp only [knockRow] at hp hq
        cases h1 : knockVec b rows xs with
        | error e => rw [h1] at hp; simp at hp
        | ok xs' =>
          cases h2 : knockVec b rows ys with
          | error e => rw [h2] at hq; simp at hq
          | ok ys' =>
            rw [h1] at hp; rw [h2] at hq
            simp only [Except.ok.injEq] at hp hq
            subst hp; subst hq
            refine .cons ?_ (ih xs ys xs' ys' hrest h1 h2)
            by_cases hb : b ≤ maxL r rs <;> simp [hb, hxy]

private theorem apply_mono (buf : List (List ℝ)) (c : Clause ℝ) (hc : monoClause c) (p q p' q' : List ℝ)
    (hpq : List.Forall₂ (· ≤ ·) p q) (hp : c.apply buf p = .ok p') (hq : c.apply buf q = .ok q') :
    List.Forall₂ (· ≤ ·) p' q' := by
  cases c with
  | knockOut b => exact knockVec_mono b buf p q p' q' hpq hp hq
  | affine a b =>
    simp only [Clause.apply, Except.ok.injEq] at hp hq
    subst hp; subst hq
    induction hpq with
    | nil => exact .nil
    | cons h _ ih =>
      exact .cons (by have := mul_le_mul_of_nonneg_left h hc; linarith) ih
  | cap c =>
    simp only [Clause.apply, Except.ok.injEq] at hp hq
    subst hp; subst hq
    induction hpq with
    | nil => exact .nil
    | cons h _ ih => exact .cons (min_le_min h le_rfl) ih
  | floor c =>
    simp only [Clause.apply, Except.ok.injEq] at hp hq
    subst hp; subst hq
    induction hpq with
    | nil => exact .nil
    | cons h _ ih => exact .cons (max_le_max h le_rfl) ih

private theorem applyClauses_mono (buf : List (List ℝ)) (reg : List (String × Clause ℝ))
    (hm : ∀ p ∈ reg, monoClause p.2) (acc1 acc2 : Except Err (List ℝ))
    (hacc : ∀ v1 v2, acc1 = .ok v1 → acc2 = .ok v2 → List.Forall₂ (· ≤ ·) v1 v2)
    (v1 v2 : List ℝ) (h1 : applyClauses (clauseFns buf reg) acc1 = .ok v1)
    (h2 : applyClauses (clauseFns buf reg) acc2 = .ok v2) : List.Forall₂ (· ≤ ·) v1 v2 := by
  induction reg generalizing acc1 acc2 with
  | nil => exact hacc v1 v2 h1 h2
  | cons q reg ih =>
    obtain ⟨n, c⟩ := q
    rw [applyClauses_cons] at h1 h2
    refine ih (fun p hp => hm p (List.mem_cons_of_mem _ hp)) _ _ ?_ h1 h2
    intro w1 w2 hw1 hw2
    cases acc1 with
    | error e => simp at hw1
    | ok a1 =>
      cases acc2 with
      | error e => simp at hw2
      | ok a2 =>
        exact apply_mono buf c (hm (n, c) List.mem_cons_self) a1 a2 w1 w2 (hacc a1 a2 rfl rfl) hw1 hw2

private theorem basePayoff_mono (pp1 pp2 : Terms ℝ → List ℝ → Except Err ℝ) (t : Terms ℝ)
    (hpp : ∀ row x y, pp1 t row = .ok x → pp2 t row = .ok y → x ≤ y)
    (buf : List (List ℝ)) (v1 v2 : List ℝ) (h1 : basePayoff pp1 t buf = .ok v1)
    (h2 : basePayoff pp2 t buf = .ok v2) : List.Forall₂ (· ≤ ·) v1 v2 := by
  have e1 := allOk_ok _ _ h1
  have e2 := allOk_ok _ _ h2
  clear h1 h2
  induction buf generalizing v1 v2 with
  | nil =>
    cases v1 <;> cases v2 <;> simp at e1 e2
    exact .nil
  | cons row rows ih =>
    cases v1 with
    | nil => simp at e1
    | cons x xs =>
      cases v2 with
      | nil => simp at e2
      | cons y ys =>
        simp only [List.map_cons, List.cons.injEq] at e1 e2
        exact .cons (hpp row x y e1.1 e2.1) (ih xs ys e1.2 e2.2)

/-- **Dominance transfers to every reachable state.**  Two products whose per-path payoffs are
ordered (`pp1 ≤ pp2` on every path at equal terms) stay ordered on ONE object history — same
term changes, same price edits, same order-preserving clauses — whenever both answer. -/
theorem dominance_after (pp1 pp2 : Terms ℝ → List ℝ → Except Err ℝ)
    (hpp : ∀ t row x y, pp1 t row = .ok x → pp2 t row = .ok y → x ≤ y)
    (s : State ℝ) (ops : List (Op ℝ)) (hm : ∀ p ∈ (exec s ops).clauses, monoClause p.2)
    (v1 v2 : List ℝ) (h1 : answer pp1 (exec s ops) = .payoff v1)
    (h2 : answer pp2 (exec s ops) = .payoff v2) : List.Forall₂ (· ≤ ·) v1 v2 := by
  have h1' := outOf_payoff _ _ h1
  have h2' := outOf_payoff _ _ h2
  exact applyClauses_mono _ _ hm _ _
    (fun w1 w2 hw1 hw2 => basePayoff_mono pp1 pp2 _ (hpp _) _ w1 w2 hw1 hw2) v1 v2 h1' h2'

/-- on one path: European ≤ lookback (call on the maximum, put on the minimum) -/
theorem european_le_lookback_path (t : Terms ℝ) (row : List ℝ) (x y : ℝ)
    (hx : optPath .european t row = .ok x) (hy : optPath .lookback t row = .ok y) : x ≤ y := by
  cases row with
  | nil => simp [optPath, lookbackPayoff] at hy
  | cons r rs =>
    simp only [optPath] at hx hy
    rw [C12.european_def _ _ _ (List.cons_ne_nil r rs)] at hx
    rw [C12.lookback_def] at hy
    simp only [Except.ok.injEq] at hx hy
    subst hx; subst hy
    cases t.call
    · simpa using C12.lookback_put_ge_european t.strike r rs
    · simpa using (C12.lookback_ge_european t.strike r rs).2

/-- on one path: European binary ≤ American binary -/
theorem european_le_american_binary_path (t : Terms ℝ) (row : List ℝ) (x y : ℝ)
    (hx : optPath .europeanBinary t row = .ok x) (hy : optPath .americanBinary t row = .ok y) :
    x ≤ y := by
  cases row with
  | nil => simp [optPath, americanBinaryPayoff] at hy
  | cons r rs =>
    simp only [optPath] at hx hy
    rw [C12.european_binary_def _ _ _ (List.cons_ne_nil r rs)] at hx
    rw [C12.american_binary_def] at hy
    simp only [Except.ok.injEq] at hx hy
    subst hx; subst hy
    cases t.call
    · simp only [Bool.false_eq_true, if_false]
      have h := C12.minL_le r rs _ (C12.getLast_mem_cons r rs)
      split_ifs with h1 h2
      · exact le_rfl
      · exact absurd (le_trans h h1) h2
      · norm_num
      · exact le_rfl
    · simpa using C12.american_ge_european_binary t.strike r rs

/-- **After any history, lookback ≥ European** (same object history, order-preserving clauses) -/
theorem lookback_ge_european_after (s : State ℝ) (ops : List (Op ℝ))
    (hm : ∀ p ∈ (exec s ops).clauses, monoClause p.2) (ve vl : List ℝ)
    (he : answer (optPath .european) (exec s ops) = .payoff ve)
    (hl : answer (optPath .lookback) (exec s ops) = .payoff vl) : List.Forall₂ (· ≤ ·) ve vl :=
  dominance_after _ _ european_le_lookback_path s ops hm ve vl he hl

/-- **After any history, American binary ≥ European binary** -/
theorem american_ge_european_binary_after (s : State ℝ) (ops : List (Op ℝ))
    (hm : ∀ p ∈ (exec s ops).clauses, monoClause p.2) (ve va : List ℝ)
    (he : answer (optPath .europeanBinary) (exec s ops) = .payoff ve)
    (ha : answer (optPath .americanBinary) (exec s ops) = .payoff va) :
    List.Forall₂ (· ≤ ·) ve va :=
  dominance_after _ _ european_le_american_binary_path s ops hm ve va he ha

/-- a property of every per-path payoff holds for every entry of every answer (no clauses) -/
theorem all_entries_after (pp : Terms ℝ → List ℝ → Except Err ℝ) (P : ℝ → Prop)
    (hP : ∀ t row x, pp t row = .ok x → P x) (s : State ℝ) (ops : List (Op ℝ))
    (hc : (exec s ops).clauses = []) (v : List ℝ) (h : answer pp (exec s ops) = .payoff v) :
    ∀ x ∈ v, P x := by
  have h' := outOf_payoff _ _ h
  rw [hc, payoffOf_nil] at h'
  have e := allOk_ok _ _ h'
  intro x hx
  have : Except.ok x ∈ (exec s ops).spot.map (pp (exec s ops).terms) := by
    rw [e]; exact List.mem_map.2 ⟨x, hx, rfl⟩
  obtain ⟨row, _, hrow⟩ := List.mem_map.1 this
  exact hP _ row x hrow

/-- **After any history** the European, lookback and forward-start payoffs are `≥ 0` … -/
theorem vanilla_nonneg_after (k : OptKind)
    (hk : k = .european ∨ k = .lookback ∨ k = .forwardStart) (s : State ℝ) (ops : List (Op ℝ))
    (hc : (exec s ops).clauses = []) (v : List ℝ)
    (h : answer (optPath k) (exec s ops) = .payoff v) : ∀ x ∈ v, 0 ≤ x := by
  refine all_entries_after (optPath k) (fun x => 0 ≤ x) ?_ s ops hc v h
  intro t row x hx
  rcases hk with rfl | rfl | rfl
  · cases row with
    | nil => simp [optPath, europeanPayoff, lastL] at hx
    | cons r rs =>
      simp only [optPath] at hx
      rw [C12.european_def _ _ _ (List.cons_ne_nil r rs)] at hx
      simp only [Except.ok.injEq] at hx
      subst hx
      cases t.call <;> simp
  · cases row with
    | nil => simp [optPath, lookbackPayoff] at hx
    | cons r rs =>
      simp only [optPath] at hx
      rw [C12.lookback_def] at hx
      simp only [Except.ok.injEq] at hx
      subst hx
      cases t.call <;> simp
  · simp only [optPath, forwardStartPayoff, bind, Except.bind, pure, Except.pure] at hx
    cases h1 : getIdx row (-1) with
    | error e => rw [h1] at hx; simp at hx
    | ok e =>
      rw [h1] at hx
      cases h2 : getIdx row t.start with
      | error e' => rw [h2] at hx; simp at hx
      | ok st =>
        rw [h2] at hx
        simp only [Except.ok.injEq] at hx
        subst hx
        rw [reluS_eq_max]; exact le_max_right _ _

/-- … and both binaries pay zero or one -/
theorem binary_zero_one_after (k : OptKind) (hk : k = .europeanBinary ∨ k = .americanBinary)
    (s : State ℝ) (ops : List (Op ℝ)) (hc : (exec s ops).clauses = []) (v : List ℝ)
    (h : answer (optPath k) (exec s ops) = .payoff v) : ∀ x ∈ v, x = 0 ∨ x = 1 := by
  refine all_entries_after (optPath k) (fun x => x = 0 ∨ x = 1) ?_ s ops hc v h
  intro t row x hx
  rcases hk with rfl | rfl
  · cases row with
    | nil => simp [optPath, europeanBinaryPayoff, lastL] at hx
    | cons r rs =>
      simp only [optPath] at hx
      rw [C12.european_binary_def _ _ _ (List.cons_ne_nil r rs)] at hx
      simp only [Except.ok.injEq] at hx
      subst hx
      cases t.call <;> simp only [Bool.false_eq_true, if_false, if_true] <;> split_ifs <;> simp
  · cases row with
    | nil => simp [optPath, americanBinaryPayoff] at hx
    | cons r rs =>
      simp only [optPath] at hx
      rw [C12.american_binary_def] at hx
      simp only [Except.ok.injEq] at hx
      subst hx
      cases t.call <;> simp only [Bool.false_eq_true, if_false, if_true] <;> split_ifs <;> simp

/-- **After any history, call − put = S_T − K**: re-assign the flag of the SAME object to call and
to put; on every path the two answers differ by the current terminal price minus the current
strike (`K` = the last strike set, the prices = the buffer as edited / replaced so far) -/
theorem call_minus_put_after (s : State ℝ) (ops : List (Op ℝ))
    (hc : (exec s ops).clauses = []) (vc vp : List ℝ)
    (h1 : answer (optPath .european) (exec s (ops ++ [Op.setCall true])) = .payoff vc)
    (h2 : answer (optPath .european) (exec s (ops ++ [Op.setCall false])) = .payoff vp)
    (i : Nat) (row : List ℝ) (hi : (bufferAfter s.spot ops)[i]? = some row) :
    ∃ (hne : row ≠ []) (c p : ℝ), vc[i]? = some c ∧ vp[i]? = some p ∧
      c - p = row.getLast hne - strikeAfter s.terms.strike ops := by
  have h1' := outOf_payoff _ _ h1
  have h2' := outOf_payoff _ _ h2
  rw [exec_append] at h1' h2'
  have hc1 : (exec (exec s ops) [Op.setCall true]).clauses = [] := hc
  have hc2 : (exec (exec s ops) [Op.setCall false]).clauses = [] := hc
  rw [hc1, payoffOf_nil] at h1'
  rw [hc2, payoffOf_nil] at h2'
  have hs : (exec s ops).spot = bufferAfter s.spot ops := exec_spot s ops
  have hi1 : (exec (exec s ops) [Op.setCall true]).spot[i]? = some row := by
    show (exec s ops).spot[i]? = some row; rw [hs]; exact hi
  have hi2 : (exec (exec s ops) [Op.setCall false]).spot[i]? = some row := hi1
  obtain ⟨c, hvc, hpc⟩ := basePayoff_get _ _ _ _ h1' i row hi1
  obtain ⟨p, hvp, hpp⟩ := basePayoff_get _ _ _ _ h2' i row hi2
  have hk : (exec s ops).terms.strike = strikeAfter s.terms.strike ops := by rw [exec_terms]; rfl
  cases row with
  | nil => simp [optPath, europeanPayoff, lastL] at hpc
  | cons r rs =>
    refine ⟨List.cons_ne_nil r rs, c, p, hvc, hvp, ?_⟩
    have e1 : optPath .european (exec (exec s ops) [Op.setCall true]).terms (r :: rs)
        = europeanPayoff true (exec s ops).terms.strike (r :: rs) := rfl
    have e2 : optPath .european (exec (exec s ops) [Op.setCall false]).terms (r :: rs)
        = europeanPayoff false (exec s ops).terms.strike (r :: rs) := rfl
    rw [e1, C12.european_def _ _ _ (List.cons_ne_nil r rs)] at hpc
    rw [e2, C12.european_def _ _ _ (List.cons_ne_nil r rs)] at hpp
    simp only [Except.ok.injEq, if_true, Bool.false_eq_true, if_false] at hpc hpp
    rw [← hpc, ← hpp, hk]
    exact C12.call_minus_put _ _

end Real

section VarianceSwap

private theorem allOk_map_ok {β γ : Type} (f : β → γ) (l : List β) :
    allOk (l.map (fun x => (Except.ok (f x) : Except Err γ))) = .ok (l.map f) := by
  induction l with
  | nil => rfl
  | cons x xs ih => simp only [List.map_cons, allOk, ih]

/-- **After any history** (no clauses) the variance swap object pays, on every row of the CURRENT
buffer, the realised variance at the underlier's `dt` minus the CURRENT strike
(`C12.variance_swap_def` spells `varianceSwapPayoff` out); it never raises -/
theorem variance_swap_after (s : State ℝ) (ops : List (Op ℝ)) (hc : (exec s ops).clauses = []) :
    answer (kindPath .varianceSwap) (exec s ops)
      = .payoff ((bufferAfter s.spot ops).map
          (varianceSwapPayoff s.terms.dt (strikeAfter s.terms.strike ops))) := by
  rw [answer_after_history, ← exec_clauses, hc, payoffOf_nil]
  unfold basePayoff
  have : (kindPath Kind.varianceSwap (termsAfter s.terms ops) : List ℝ → Except Err ℝ)
      = fun xs => .ok (varianceSwapPayoff s.terms.dt (strikeAfter s.terms.strike ops) xs) := rfl
  rw [this, allOk_map_ok]; rfl

end VarianceSwap

/-! ## non-vacuity: concrete histories -/

section Examples

/-- a concrete object over `Int`: two paths, three dates -/
def sI : State Int :=
  { terms := { strike := 1, call := true, start := 0, dt := 1 },
    spot := [[1, 3, 2], [2, 1, 3]], clauses := [], attrs := ["strike", "payoff"] }

/-- a history with every kind of operation: writes, a toggle, an edit through a negative index, a
refused edit, a refused and two accepted clause registrations (one re-registered), calls -/
def hI : List (Op Int) :=
  [.query, .setStrike 2, .query, .setCell 0 (-1) 4, .setCell 5 0 9, .toggleCall, .toggleCall,
   .addClause "strike" (.cap 0), .addClause "a" (.affine 2 1), .addClause "k" (.knockOut 4),
   .addClause "a" (.affine 3 0), .query, .setStart 1, .setCall true, .query]

/-- what the user sees along `hI` (lists of outputs, computed by the kernel) -/
example : (run (optPath .european) sI hI).2
    = [.payoff [1, 2], .none, .payoff [0, 1], .none, .error .runtimeError, .none, .none,
       .error .keyError, .none, .none, .none, .payoff [0, 3], .none, .none, .payoff [0, 3]] := by
  decide

example : (run (optPath .lookback) sI hI).2[11]? = some (.payoff [0, 3]) ∧
    (run (optPath .lookback) sI (hI.take 3)).2[2]? = some (.payoff [1, 1]) := by decide

/-- the folds on `hI`: last strike, flag toggled twice, cell written through index −1, registry in
first-insertion order with the re-registered clause in place -/
example : strikeAfter sI.terms.strike hI = 2 ∧ callAfter sI.terms.call hI = true ∧
    startAfter sI.terms.start hI = 1 ∧ bufferAfter sI.spot hI = [[1, 3, 4], [2, 1, 3]] ∧
    (clausesAfter sI.attrs sI.clauses hI).map Prod.fst = ["a", "k"] := by decide

/-- hypotheses of `callAfter_toggles`, `bufferAfter_untouched`, `cell_bufferAfter_eq_last`,
`clausesAfter_eq_addAll` hold on (parts of) `hI` -/
example : (∀ op ∈ hI.take 12, isSetCall op = false) ∧
    (∀ op ∈ hI.drop 5, touchesSpot op = false) ∧
    Rect 2 3 sI.spot ∧ (∀ op ∈ hI, isReregister op = false) ∧
    (∀ p ∈ sI.clauses, sI.attrs.contains p.1 = false) := by
  refine ⟨by decide, by decide, ⟨rfl, by decide⟩, by decide, by decide⟩

/-- cell (0, 2) was written once (through column index −1), cell (1, 0) never -/
example : cell (bufferAfter sI.spot hI) 0 2 = some 4 ∧ cell (bufferAfter sI.spot hI) 1 0 = some 2 ∧
    (hI.filterMap (cellWrite 2 3 0 2)).getLast? = some 4 ∧
    (hI.filterMap (cellWrite 2 3 1 0)).getLast? = none := by decide

/-- histories that differ in their `payoff()` calls only -/
example : strip hI = strip (hI.filter (fun op => !isQuery op) ++ [.query, .query]) := by decide

/-- independent writes: a strike change and a price edit; two different cells -/
example : target (Op.setStrike (2 : Int)) ≠ target (Op.setCell 0 (-1) (4 : Int)) ∧
    isQuery (Op.setStrike (2 : Int)) = false ∧ isQuery (Op.setCell 0 (-1) (4 : Int)) = false := by
  decide

example : pyIndex sI.spot.length (-1) = some 1 ∧ sI.spot[1]? = some [2, 1, 3] ∧
    pyIndex 3 (-3) = some 0 ∧ pyIndex sI.spot.length 0 = some 0 ∧ sI.spot[0]? = some [1, 3, 2] ∧
    pyIndex 3 2 = some 2 ∧ ((1 : Nat) ≠ 0 ∨ (0 : Nat) ≠ 2) := by decide

/-- an answer exists (hypothesis of `payoff_length_after`) -/
example : answer (optPath .forwardStart) (exec sI hI) = .payoff [0, 3] := by decide

end Examples

section ExamplesReal

/-- a concrete object over ℝ with an order-preserving clause, and a history -/
def sR : State ℝ :=
  { terms := { strike := 1, call := true, start := 0, dt := 1 },
    spot := [[1, 3, 2], [3, 1, 1]], clauses := [("cap", .cap 5)], attrs := [] }

def hR : List (Op ℝ) := [.setStrike 2, .query, .setCell 0 (-1) 4, .toggleCall, .toggleCall]

private theorem exec_sR_hR : exec sR hR =
    { terms := { strike := 2, call := true, start := 0, dt := 1 },
      spot := [[1, 3, 4], [3, 1, 1]], clauses := [("cap", .cap 5)], attrs := [] } := by
  simp [exec, hR, sR, next, setCell, pyIndex, setNth]

/-- hypotheses of `dominance_after` / `lookback_ge_european_after`: both products answer after
`hR`, the lookback strictly more on the second path -/
example : (∀ p ∈ (exec sR hR).clauses, monoClause p.2) ∧
    answer (optPath .european) (exec sR hR) = .payoff [2, 0] ∧
    answer (optPath .lookback) (exec sR hR) = .payoff [2, 1] := by
  rw [exec_sR_hR]
  refine ⟨by simp [monoClause], ?_, ?_⟩
  · simp [answer, payoffOf, basePayoff, allOk, clauseFns, applyClauses, Clause.apply, optPath,
      europeanPayoff, lastL, reluS, outOf]
    norm_num
  · simp [answer, payoffOf, basePayoff, allOk, clauseFns, applyClauses, Clause.apply, optPath,
      lookbackPayoff, maxL, reluS, outOf]
    norm_num

/-- hypotheses of `american_ge_european_binary_after` -/
example : answer (optPath .europeanBinary) (exec sR hR) = .payoff [1, 0] ∧
    answer (optPath .americanBinary) (exec sR hR) = .payoff [1, 1] := by
  rw [exec_sR_hR]
  constructor
  · simp [answer, payoffOf, basePayoff, allOk, clauseFns, applyClauses, Clause.apply, optPath,
      europeanBinaryPayoff, lastL, indS, outOf]
    norm_num
  · simp [answer, payoffOf, basePayoff, allOk, clauseFns, applyClauses, Clause.apply, optPath,
      americanBinaryPayoff, maxL, indS, outOf]
    norm_num

/-- an object without clauses: hypotheses of `vanilla_nonneg_after`, `binary_zero_one_after`,
`call_minus_put_after` -/
def sR' : State ℝ := { sR with clauses := [] }

private theorem exec_sR'_hR (tail : List (Op ℝ)) : exec sR' (hR ++ tail) = exec
    ({ terms := { strike := 2, call := true, start := 0, dt := 1 },
       spot := [[1, 3, 4], [3, 1, 1]], clauses := [], attrs := [] } : State ℝ) tail := by
  rw [exec_append]
  congr 1

example : (exec sR' hR).clauses = [] ∧
    answer (optPath .european) (exec sR' (hR ++ [Op.setCall true])) = .payoff [2, 0] ∧
    answer (optPath .european) (exec sR' (hR ++ [Op.setCall false])) = .payoff [0, 1] ∧
    (bufferAfter sR'.spot hR)[1]? = some [3, 1, 1] := by
  refine ⟨?_, ?_, ?_, ?_⟩
  · have := exec_sR'_hR []; rw [List.append_nil] at this; rw [this]; rfl
  · rw [exec_sR'_hR]
    simp [exec, next, answer, payoffOf, basePayoff, allOk, clauseFns, applyClauses, optPath,
      europeanPayoff, lastL, reluS, outOf]
    norm_num
  · rw [exec_sR'_hR]
    simp [exec, next, answer, payoffOf, basePayoff, allOk, clauseFns, applyClauses, optPath,
      europeanPayoff, lastL, reluS, outOf]
    norm_num
  · have := exec_sR'_hR []; rw [List.append_nil] at this
    rw [← exec_spot, this]; rfl

end ExamplesReal

end PfVerif.C12Session
