/-
  First and second moments and the moment generating function of the standard normal density
  `phi`:  `E[Z] = 0`, `E[Z²] = 1`, `E[a + bZ] = a`, `E[(a + bZ)²] = a² + b²`,
  `E[e^{a + bZ}] = e^{a + b²/2}`.  Shared by the in-distribution theorems about the path
  generators (C10).
-/
import PfVerif.Lemmas.GaussInt
import PfVerif.Lemmas.BSCalc

namespace PfVerif
open Real MeasureTheory Set Filter Topology

/-- `z φ(z)` is integrable -/
theorem id_mul_phi_integrable : Integrable fun z : ℝ => z * phi z := by
  have h : (fun z : ℝ => z * phi z)
      = fun z => (z * Real.exp (-(1 / 2 : ℝ) * z ^ 2)) / Real.sqrt (2 * π) := by
    funext z; rw [phi_eq]; ring
  rw [h]
  exact (integrable_mul_exp_neg_mul_sq (by norm_num : (0 : ℝ) < 1 / 2)).div_const _

/-- `z² φ(z)` is integrable -/
theorem sq_mul_phi_integrable : Integrable fun z : ℝ => z ^ 2 * phi z := by
  have h : (fun z : ℝ => z ^ 2 * phi z)
      = fun z => (z ^ (2 : ℝ) * Real.exp (-(1 / 2 : ℝ) * z ^ 2)) / Real.sqrt (2 * π) := by
    funext z; rw [phi_eq, Real.rpow_two]; ring
  rw [h]
  exact (integrable_rpow_mul_exp_neg_mul_sq (by norm_num : (0 : ℝ) < 1 / 2)
    (by norm_num : (-1 : ℝ) < 2)).div_const _

/-- `E[Z] = 0` -/
theorem integral_id_mul_phi : ∫ z, z * phi z = 0 := by
  have h := integral_neg_eq_self (fun z : ℝ => z * phi z) volume
  simp only [phi_neg, neg_mul] at h
  rw [integral_neg] at h
  linarith

/-- `E[Z²] = 1` (integration by parts: `(−φ)' = z φ`) -/
theorem integral_sq_mul_phi : ∫ z, z ^ 2 * phi z = 1 := by
  have key := integral_mul_deriv_eq_deriv_mul_of_integrable (A := ℝ)
    (u := fun z => z) (v := fun z => -phi z) (u' := fun _ => 1) (v' := fun z => z * phi z)
    (fun x _ => hasDerivAt_id x)
    (fun x _ => by
      have h : HasDerivAt (fun z => -phi z) (-(-x * phi x)) x := (BSCalc.phi_hasDerivAt x).neg
      have e : -(-x * phi x) = x * phi x := by ring
      rw [e] at h
      exact h)
    (by
      have e : ((fun z : ℝ => z) * fun z => z * phi z) = fun z => z ^ 2 * phi z := by
        funext z; simp only [Pi.mul_apply]; ring
      rw [e]; exact sq_mul_phi_integrable)
    (by
      have e : ((fun _ : ℝ => (1 : ℝ)) * fun z => -phi z) = fun z => -phi z := by
        funext z; simp
      rw [e]; exact phi_integrable.neg)
    (by
      have e : ((fun z : ℝ => z) * fun z => -phi z) = fun z => -(z * phi z) := by
        funext z; simp
      rw [e]; exact id_mul_phi_integrable.neg)
  have e1 : (fun z : ℝ => z ^ 2 * phi z) = fun z => z * (z * phi z) := by funext z; ring
  rw [e1, key]
  simp only [one_mul]
  rw [integral_neg, integral_phi]
  ring

theorem affine_mul_phi_integrable (a b : ℝ) : Integrable fun z : ℝ => (a + b * z) * phi z := by
  have e : (fun z : ℝ => (a + b * z) * phi z) = fun z => a * phi z + b * (z * phi z) := by
    funext z; ring
  rw [e]
  exact (phi_integrable.const_mul a).add (id_mul_phi_integrable.const_mul b)

/-- `E[a + bZ] = a` -/
theorem integral_affine_mul_phi (a b : ℝ) : ∫ z, (a + b * z) * phi z = a := by
  have e : (fun z : ℝ => (a + b * z) * phi z) = fun z => a * phi z + b * (z * phi z) := by
    funext z; ring
  rw [e, integral_add (phi_integrable.const_mul a) (id_mul_phi_integrable.const_mul b),
    integral_const_mul, integral_const_mul, integral_phi, integral_id_mul_phi]
  ring

theorem affine_sq_mul_phi_integrable (a b : ℝ) :
    Integrable fun z : ℝ => (a + b * z) ^ 2 * phi z := by
  have e : (fun z : ℝ => (a + b * z) ^ 2 * phi z)
      = fun z => a ^ 2 * phi z + 2 * a * b * (z * phi z) + b ^ 2 * (z ^ 2 * phi z) := by
    funext z; ring
  rw [e]
  exact ((phi_integrable.const_mul _).add (id_mul_phi_integrable.const_mul _)).add
    (sq_mul_phi_integrable.const_mul _)

/-- `E[(a + bZ)²] = a² + b²` -/
theorem integral_affine_sq_mul_phi (a b : ℝ) : ∫ z, (a + b * z) ^ 2 * phi z = a ^ 2 + b ^ 2 := by
  have e : (fun z : ℝ => (a + b * z) ^ 2 * phi z)
      = fun z => a ^ 2 * phi z + 2 * a * b * (z * phi z) + b ^ 2 * (z ^ 2 * phi z) := by
    funext z; ring
  have I1 : Integrable fun z : ℝ => a ^ 2 * phi z := phi_integrable.const_mul _
  have I2 : Integrable fun z : ℝ => 2 * a * b * (z * phi z) := id_mul_phi_integrable.const_mul _
  have I3 : Integrable fun z : ℝ => b ^ 2 * (z ^ 2 * phi z) := sq_mul_phi_integrable.const_mul _
  have I12 : Integrable fun z : ℝ => a ^ 2 * phi z + 2 * a * b * (z * phi z) := I1.add I2
  rw [e, integral_add I12 I3, integral_add I1 I2,
    integral_const_mul, integral_const_mul, integral_const_mul, integral_phi,
    integral_id_mul_phi, integral_sq_mul_phi]
  ring

/-- `Var[a + bZ] = b²` (centred second moment) -/
theorem integral_affine_centered_sq_mul_phi (a b : ℝ) :
    ∫ z, ((a + b * z) - a) ^ 2 * phi z = b ^ 2 := by
  have e : (fun z : ℝ => ((a + b * z) - a) ^ 2 * phi z) = fun z => (0 + b * z) ^ 2 * phi z := by
    funext z; ring
  rw [e, integral_affine_sq_mul_phi]
  ring

theorem exp_affine_mul_phi_eq (a b z : ℝ) :
    Real.exp (a + b * z) * phi z
      = Real.exp (a + b ^ 2 / 2) * (Real.exp (b * z - b ^ 2 / 2) * phi z) := by
  rw [← mul_assoc, ← Real.exp_add]
  congr 2
  ring

theorem exp_affine_mul_phi_integrable (a b : ℝ) :
    Integrable fun z : ℝ => Real.exp (a + b * z) * phi z := by
  simp_rw [exp_affine_mul_phi_eq]
  exact (exp_shift_integrable b).const_mul _

/-- Gaussian moment generating function: `E[e^{a + bZ}] = e^{a + b²/2}` -/
theorem integral_exp_affine_mul_phi (a b : ℝ) :
    ∫ z, Real.exp (a + b * z) * phi z = Real.exp (a + b ^ 2 / 2) := by
  simp_rw [exp_affine_mul_phi_eq]
  rw [integral_const_mul, integral_exp_shift, mul_one]

end PfVerif
