/-
  C11 / C10 (engines) — the deterministic structure of pfhedge's random-number engines
  (Model/Engine.lean): shapes, and the antithetic sample being closed under negation.

  `PfVerif.C11Engine` holds the property theorems (audited with C11).
-/
import PfVerif.Model.Engine
import PfVerif.Lemmas.Gauss
import Mathlib.Data.List.Perm.Basic
import Mathlib.Algebra.BigOperators.Group.List.Basic
import Mathlib.Data.Real.Basic
import Mathlib.Tactic.Ring
import Mathlib.Tactic.Linarith

namespace PfVerif.C11Engine
open PfVerif

/-- `randn_antithetic(n, …)` returns exactly `n` rows when it drew `⌈n/2⌉` of them -/
theorem antithetic_length {α : Type} [Neg α] (n : ℕ) (z : List α) (h : z.length = antitheticHalf n) :
    (antithetic n z).length = n := by
  unfold antithetic antitheticHalf at *
  simp only [List.length_take, List.length_append, List.length_map]
  omega

/-- the full antithetic sample (even `n`) -/
theorem antithetic_even {α : Type} [Neg α] (z : List α) :
    antithetic (2 * z.length) z = z ++ z.map (fun x => -x) := by
  unfold antithetic
  apply List.take_of_length_le
  simp only [List.length_append, List.length_map]
  omega

/-- **closed under negation**: for an even number of paths the multiset of returned rows equals the
multiset of their negatives (every draw comes with its mirror image) -/
theorem antithetic_even_neg_perm (z : List ℝ) :
    ((antithetic (2 * z.length) z).map (fun x => -x)).Perm (antithetic (2 * z.length) z) := by
  rw [antithetic_even]
  simp only [List.map_append, List.map_map]
  have : ((fun x : ℝ => -x) ∘ fun x => -x) = id := by funext x; simp
  rw [this, List.map_id]
  exact List.perm_append_comm

/-- the sample mean of an even antithetic sample is exactly zero -/
theorem antithetic_even_sum_zero (z : List ℝ) : (antithetic (2 * z.length) z).sum = 0 := by
  rw [antithetic_even, List.sum_append]
  have : (z.map (fun x => -x)).sum = -z.sum := by
    induction z with
    | nil => simp
    | cons a t ih => simp only [List.map_cons, List.sum_cons, ih]; ring
  rw [this]; ring

/-- shuffling with any index list whose entries are in range never fails and returns
`min n perm.length` rows -/
theorem antitheticShuffled_ok {α : Type} [Neg α] (n : ℕ) (z : List α) (perm : List ℕ)
    (h : ∀ i ∈ perm, i < 2 * z.length) :
    ∃ r, antitheticShuffled n z perm = .ok r ∧ r.length = min n perm.length := by
  unfold antitheticShuffled
  have hfull : (z ++ z.map (fun x => -x)).length = 2 * z.length := by
    simp only [List.length_append, List.length_map]; omega
  generalize hf : z ++ z.map (fun x => -x) = full at hfull
  have key : ∀ (p : List ℕ), (∀ i ∈ p, i < full.length) →
      ∃ picked, p.mapM (pickAt full) = .ok picked ∧ picked.length = p.length := by
    intro p
    induction p with
    | nil => intro _; exact ⟨[], rfl, rfl⟩
    | cons a t ih =>
      intro hp
      obtain ⟨pk, hpk, hlen⟩ := ih (fun i hi => hp i (List.mem_cons_of_mem _ hi))
      have ha : a < full.length := hp a (List.mem_cons_self)
      refine ⟨full[a] :: pk, ?_, by simp [hlen]⟩
      have hpa : pickAt full a = .ok full[a] := by
        simp only [pickAt, List.getElem?_eq_getElem ha]
      simp only [List.mapM_cons, hpa, hpk, bind, Except.bind, pure, Except.pure]
  obtain ⟨pk, hpk, hlen⟩ := key perm (fun i hi => by rw [hfull]; exact h i hi)
  refine ⟨pk.take n, ?_, by simp [hlen]⟩
  simp only [bind, Except.bind, pure, Except.pure]
  rw [hpk]

/-- an out-of-range index is the `IndexError` of the code -/
theorem antitheticShuffled_bad_index {α : Type} [Neg α] (n : ℕ) (z : List α) (i : ℕ) (rest : List ℕ)
    (h : 2 * z.length ≤ i) : antitheticShuffled n z (i :: rest) = .error .runtimeError := by
  unfold antitheticShuffled
  have : (z ++ z.map (fun x => -x))[i]? = none := by
    apply List.getElem?_eq_none
    simp only [List.length_append, List.length_map]; omega
  have hp : pickAt (z ++ z.map (fun x => -x)) i = .error .runtimeError := by
    simp only [pickAt, this]
  simp only [List.mapM_cons, hp, bind, Except.bind]

/-- `RandnSobolBoxMuller` returns exactly `n` numbers from `n // 2 + 1` Sobol points -/
theorem sobolBoxMuller_length (twoPi eps : ℝ) (n : ℕ) (u : List (ℝ × ℝ)) (h : u.length = n / 2 + 1) :
    (sobolBoxMuller twoPi eps n u).length = n := by
  unfold sobolBoxMuller
  simp only [List.length_take, List.length_append, List.length_map, h]
  omega

/-- the first `n // 2 + 1` outputs are the cosine branch of the points in order, the rest the sine
branch (concatenated, not interleaved) -/
theorem sobolBoxMuller_eq (twoPi eps : ℝ) (n : ℕ) (u : List (ℝ × ℝ)) :
    sobolBoxMuller twoPi eps n u
      = ((u.map (fun p => (boxMuller twoPi eps p.1 p.2).1))
          ++ (u.map (fun p => (boxMuller twoPi eps p.1 p.2).2))).take n := by
  unfold sobolBoxMuller
  simp only [List.map_map]
  rfl

/-! ### non-vacuity -/

example : antithetic 4 [(1 : ℝ), -2] = [1, -2, -1, 2] := by
  norm_num [antithetic]

example : antithetic 3 [(1 : ℝ), -2] = [1, -2, -1] ∧ antitheticHalf 3 = 2 := by
  constructor
  · norm_num [antithetic]
  · rfl

example : antitheticShuffled 3 [(1 : ℝ), -2] [3, 0, 2, 1] = .ok [2, 1, -1] := by
  norm_num [antitheticShuffled, pickAt, bind, Except.bind, pure, Except.pure]

end PfVerif.C11Engine
