/-
  C05 / C04 on TENSORS — the criteria of Model/Risk.lean lifted to whole tensors by
  Model/CritTensor.lean (`subTarget`, `columns`, `reduceDim`, `reduceAll`, `moduleForward`,
  `moduleCash`, `functionalForm`, `qcvarDim` / `qcvarForm` / `qcvarModule`), which is what the
  driver op "crit_tensor" executes.

  `PfVerif.C05Tensor` (registered in Audit/C05.lean):
    1. shape: the result has the input shape with exactly the reduced dimension removed
       (`reduceDim_shape`, `reduceDim_bad_dim`, `reduceAll_shape`, `reduceDim_zero_entries`), and
       the samples along ANY dimension by multi-index (`reduceDim_entry`);
    2. the target is subtracted first, for every kind of target: number, 0-dim, per-column `(*)`,
       row `(1,*)`, per-path `(N,1,…)`, full (`moduleForward_number`, `_zerodim`, `_column`,
       `_row`, `_path`, `_full`, `moduleForward_target_first`, `moduleForward_error`);
    3. module form = functional form with `dim = 0`; `dim = -k` = `dim = rank - k`; `dim=None` =
       the flattened tensor (`module_eq_functional_dim0`, `normDim_neg`, `reduceDim_neg`,
       `functionalForm_none_eq_flatten`, `moduleCash_eq`);
    4. column independence (`moduleForward_entry`, `moduleForwardE_entry`, `moduleForwardE_eq`)
       and the definitions entry by entry (`es_tensor_eq_def`, `var_tensor_entry`,
       `erm_tensor_eq`);
    5. quadratic CVaR through the bisection shared by the columns (`qcvar_tensor_shape`,
       `qcvar_forms`, `qcvar_tensor_value`, `qcvar_entry_vs_alone`).
  `PfVerif.C04Tensor` (registered in Audit/C04.lean): the axioms column by column —
    `cash_per_column`, `es_cash_per_column`, `erm_cash_per_column`, `mono_per_column`,
    `es_tensor_bounds`, `erm_tensor_bounds`, `quadraticCvar_shift`, `qcvar_cash_per_column`,
    `qcvar_tensor_mono`.
  Helper lemmas about the row-major layout live in `PfVerif.C05TensorAux`.
  There is no special case for `N = 1` or `p = 1` anywhere: the statements hold at those corners
  (examples at the end, on shapes (2,3), (1,3), (3,1), (2,1,2)).
-/
import PfVerif.Model.CritTensor
import PfVerif.Props.C05
import PfVerif.Lemmas.C05QCVaR

namespace PfVerif.C05TensorAux
open PfVerif PfVerif.CT

variable {α β : Type}

theorem wf_iff (t : Tensor α) : t.wf = true ↔ t.data.length = prodL t.shape := by
  simp [Tensor.wf]

theorem chunksN_length (m k : ℕ) (l : List α) : (chunksN m k l).length = m := by
  induction m generalizing l with
  | zero => rfl
  | succ m ih => simp [chunksN, ih]

theorem colAt_cons_some {j : ℕ} {r : List α} {rows : List (List α)} {v : α} (h : r[j]? = some v) :
    colAt j (r :: rows) = v :: colAt j rows := by
  simp [colAt, h]

/-- column `j` of the `m × k` row-major matrix `l`: length -/
theorem colAt_chunksN_length {m k j : ℕ} {l : List α} (hl : l.length = m * k) (hj : j < k) :
    (colAt j (chunksN m k l)).length = m := by
  induction m generalizing l with
  | zero => rfl
  | succ m ih =>
    have hk : j < l.length := by rw [hl, Nat.succ_mul]; omega
    have h0 : (l.take k)[j]? = some l[j] := by
      rw [List.getElem?_take_of_lt hj, List.getElem?_eq_getElem hk]
    rw [chunksN, colAt_cons_some h0, List.length_cons, ih]
    rw [List.length_drop, hl, Nat.succ_mul]; omega

/-- column `j` of the `m × k` row-major matrix `l`: entry `i` is `l[i k + j]` -/
theorem colAt_chunksN_getElem? {m k j i : ℕ} {l : List α} (hl : l.length = m * k) (hj : j < k)
    (hi : i < m) : (colAt j (chunksN m k l))[i]? = l[i * k + j]? := by
  induction m generalizing l i with
  | zero => omega
  | succ m ih =>
    have hk : j < l.length := by rw [hl, Nat.succ_mul]; omega
    have h0 : (l.take k)[j]? = some l[j] := by
      rw [List.getElem?_take_of_lt hj, List.getElem?_eq_getElem hk]
    rw [chunksN, colAt_cons_some h0]
    cases i with
    | zero => simp [List.getElem?_eq_getElem hk]
    | succ i =>
      rw [List.getElem?_cons_succ, ih (by rw [List.length_drop, hl, Nat.succ_mul]; omega) (by omega),
        List.getElem?_drop]
      congr 1
      rw [Nat.succ_mul]; omega

theorem chunksN_flatten {m k : ℕ} {l : List α} (hl : l.length = m * k) :
    (chunksN m k l).flatten = l := by
  induction m generalizing l with
  | zero =>
    have : l = [] := List.eq_nil_of_length_eq_zero (by simpa using hl)
    simp [chunksN, this]
  | succ m ih =>
    rw [chunksN, List.flatten_cons, ih (by rw [List.length_drop, hl, Nat.succ_mul]; omega),
      List.take_append_drop]

theorem chunksN_mem_length {m k : ℕ} {l : List α} (hl : l.length = m * k) :
    ∀ c ∈ chunksN m k l, c.length = k := by
  induction m generalizing l with
  | zero => intro c hc; simp [chunksN] at hc
  | succ m ih =>
    intro c hc
    rw [chunksN, List.mem_cons] at hc
    rcases hc with rfl | hc
    · rw [List.length_take, hl, Nat.succ_mul]; omega
    · exact ih (by rw [List.length_drop, hl, Nat.succ_mul]; omega) c hc

theorem chunksN_one {k : ℕ} {l : List α} (hl : l.length = k) : chunksN 1 k l = [l] := by
  simp [chunksN, ← hl]

theorem chunksN_singletons (l : List α) : chunksN l.length 1 l = l.map (fun v => [v]) := by
  induction l with
  | nil => rfl
  | cons a l ih => simp [chunksN, ih]

theorem bshape_self (s : List ℕ) : bshape s s = .ok s := by
  induction s with
  | nil => rfl
  | cons a s ih => simp [bshape, ih]

theorem bshape_ones (s : List ℕ) : bshape s (List.replicate s.length 1) = .ok s := by
  induction s with
  | nil => rfl
  | cons a s ih =>
    simp only [List.length_cons, List.replicate_succ, bshape, ih]
    by_cases h : a = 1 <;> simp [h]

theorem prodL_ones (r : ℕ) : prodL (List.replicate r 1) = 1 := by
  induction r with
  | zero => rfl
  | succ r ih => simp [List.replicate_succ, prodL, ih]

theorem expandData_self (s : List ℕ) : ∀ (d : List α), d.length = prodL s → expandData s s d = d := by
  induction s with
  | nil => intro d _; rfl
  | cons a s ih =>
    intro d hd
    have hm : (chunksN a (prodL s) d).map (expandData s s) = chunksN a (prodL s) d := by
      conv_rhs => rw [← List.map_id (chunksN a (prodL s) d)]
      apply List.map_congr_left
      intro c hc
      exact ih c (chunksN_mem_length hd c hc)
    simp only [expandData, hm, chunksN_flatten hd, if_true]

theorem flatten_replicate_replicate (A n : ℕ) (v : α) :
    (List.replicate A (List.replicate n v)).flatten = List.replicate (A * n) v := by
  induction A with
  | zero => simp
  | succ A ih => rw [List.replicate_succ, List.flatten_cons, ih, Nat.succ_mul, Nat.add_comm,
      List.replicate_add]

/-- a single value seen with any shape -/
theorem expandData_scalar (tr : List ℕ) (v : α) :
    expandData (List.replicate tr.length 1) tr [v] = List.replicate (prodL tr) v := by
  induction tr with
  | nil => rfl
  | cons A tr ih =>
    have h1 : chunksN 1 (prodL (List.replicate tr.length 1)) [v] = [[v]] :=
      chunksN_one (by simp [prodL_ones])
    simp only [List.length_cons, List.replicate_succ, expandData, h1, List.map_cons, List.map_nil,
      List.flatten_cons, List.flatten_nil, List.append_nil, ih, prodL]
    by_cases h : 1 = A
    · subst h; simp
    · simp [h]

/-- a per-column tensor (one leading size-one dimension) seen with `N` rows -/
theorem expandData_rows (N : ℕ) (s : List ℕ) (d : List α) (hd : d.length = prodL s) :
    expandData (1 :: s) (N :: s) d = (List.replicate N d).flatten := by
  simp only [expandData, chunksN_one hd, List.map_cons, List.map_nil, List.flatten_cons,
    List.flatten_nil, List.append_nil, expandData_self s d hd]
  by_cases h : 1 = N
  · subst h; simp
  · simp [h]

/-- a per-path tensor `(N, 1, …, 1)` seen with shape `(N, *)` -/
theorem expandData_paths (tr : List ℕ) (d : List α) :
    expandData (d.length :: List.replicate tr.length 1) (d.length :: tr) d
      = (d.map (fun v => List.replicate (prodL tr) v)).flatten := by
  simp only [expandData, prodL_ones, chunksN_singletons, List.map_map, if_true]
  congr 1
  apply List.map_congr_left
  intro v _
  exact expandData_scalar tr v

theorem flatten_replicate_getElem? {N I i j : ℕ} (c : List α) (hc : c.length = I) (hi : i < N)
    (hj : j < I) : (List.replicate N c).flatten[i * I + j]? = c[j]? := by
  induction N generalizing i with
  | zero => omega
  | succ N ih =>
    rw [List.replicate_succ, List.flatten_cons]
    cases i with
    | zero => rw [List.getElem?_append_left (by omega)]; simp
    | succ i =>
      rw [List.getElem?_append_right (by rw [hc, Nat.succ_mul]; omega)]
      have e : (i + 1) * I + j - c.length = i * I + j := by rw [hc, Nat.succ_mul]; omega
      rw [e, ih (by omega)]

theorem flatten_map_replicate_getElem? {I i j : ℕ} (d : List α) (hj : j < I) :
    (d.map (fun v => List.replicate I v)).flatten[i * I + j]? = d[i]? := by
  induction d generalizing i with
  | nil => simp
  | cons a d ih =>
    rw [List.map_cons, List.flatten_cons]
    cases i with
    | zero => rw [List.getElem?_append_left (by simpa using hj)]; simp [hj]
    | succ i =>
      rw [List.getElem?_append_right (by rw [List.length_replicate, Nat.succ_mul]; omega)]
      have e : (i + 1) * I + j - (List.replicate I a).length = i * I + j := by
        rw [List.length_replicate, Nat.succ_mul]; omega
      rw [e, ih, List.getElem?_cons_succ]

theorem flatten_replicate_length (N : ℕ) (c : List α) :
    (List.replicate N c).flatten.length = N * c.length := by
  simp

theorem flatten_map_replicate_length (I : ℕ) (d : List α) :
    (d.map (fun v => List.replicate I v)).flatten.length = d.length * I := by
  induction d with
  | nil => simp
  | cons a d ih =>
    rw [List.map_cons, List.flatten_cons, List.length_append, ih, List.length_replicate,
      List.length_cons, Nat.succ_mul]
    omega

/-! ### samples along dimension 0 -/

/-- sample `j` along dimension 0 of an `N × I` row-major tensor (`I` = number of entries of the
trailing shape): position `j` of every one of the `N` rows -/
def column0 (N I : ℕ) (data : List α) (j : ℕ) : List α := colAt j (chunksN N I data)

theorem columns_zero (N : ℕ) (tr : List ℕ) (data : List α) :
    columns 0 (N :: tr) data = (List.range (prodL tr)).map (column0 N (prodL tr) data) := rfl

theorem column0_length {N I j : ℕ} {data : List α} (hd : data.length = N * I) (hj : j < I) :
    (column0 N I data j).length = N := colAt_chunksN_length hd hj

theorem column0_getElem? {N I j i : ℕ} {data : List α} (hd : data.length = N * I) (hj : j < I)
    (hi : i < N) : (column0 N I data j)[i]? = data[i * I + j]? := colAt_chunksN_getElem? hd hj hi

theorem column0_zipWith {γ δ : Type} (f : α → γ → δ) {N I j : ℕ} {xd : List α} {ed : List γ}
    (hx : xd.length = N * I) (he : ed.length = N * I) (hj : j < I) :
    column0 N I (List.zipWith f xd ed) j = List.zipWith f (column0 N I xd j) (column0 N I ed j) := by
  have hz : (List.zipWith f xd ed).length = N * I := by simp [hx, he]
  apply List.ext_getElem?
  intro i
  by_cases hi : i < N
  · rw [column0_getElem? hz hj hi, List.getElem?_zipWith, List.getElem?_zipWith,
      column0_getElem? hx hj hi, column0_getElem? he hj hi]
  · rw [List.getElem?_eq_none (by rw [column0_length hz hj]; omega),
      List.getElem?_eq_none (by
        rw [List.length_zipWith, column0_length hx hj, column0_length he hj]; omega)]

theorem column0_map {γ : Type} (f : α → γ) {N I j : ℕ} {xd : List α} (hx : xd.length = N * I)
    (hj : j < I) : column0 N I (xd.map f) j = (column0 N I xd j).map f := by
  have hz : (xd.map f).length = N * I := by simp [hx]
  apply List.ext_getElem?
  intro i
  by_cases hi : i < N
  · rw [column0_getElem? hz hj hi, List.getElem?_map, List.getElem?_map, column0_getElem? hx hj hi]
  · rw [List.getElem?_eq_none (by rw [column0_length hz hj]; omega),
      List.getElem?_eq_none (by rw [List.length_map, column0_length hx hj]; omega)]

/-- a per-column tensor repeated over `N` rows: sample `j` is constant at entry `j` -/
theorem column0_rows {N I j : ℕ} (c : List α) (hc : c.length = I) (hj : j < I) :
    column0 N I (List.replicate N c).flatten j = List.replicate N (c[j]'(by omega)) := by
  subst hc
  have hz : (List.replicate N c).flatten.length = N * c.length := flatten_replicate_length N c
  apply List.ext_getElem?
  intro i
  by_cases hi : i < N
  · rw [column0_getElem? hz hj hi, flatten_replicate_getElem? c rfl hi hj,
      List.getElem?_replicate, if_pos hi, List.getElem?_eq_getElem hj]
  · rw [List.getElem?_eq_none (by rw [column0_length hz hj]; omega),
      List.getElem?_eq_none (by rw [List.length_replicate]; omega)]

/-- a per-path tensor repeated over the `I` columns: every sample is the tensor itself -/
theorem column0_paths {I j : ℕ} (d : List α) (hj : j < I) :
    column0 d.length I (d.map (fun v => List.replicate I v)).flatten j = d := by
  have hz := flatten_map_replicate_length I d
  apply List.ext_getElem?
  intro i
  by_cases hi : i < d.length
  · rw [column0_getElem? hz hj hi, flatten_map_replicate_getElem? d hj]
  · rw [List.getElem?_eq_none (by rw [column0_length hz hj]; omega),
      List.getElem?_eq_none (by omega)]

theorem zipWith_replicate_right {γ δ : Type} (f : α → γ → δ) (v : γ) :
    ∀ (l : List α), List.zipWith f l (List.replicate l.length v) = l.map (fun a => f a v)
  | [] => rfl
  | a :: l => by
    simp only [List.length_cons, List.replicate_succ, List.zipWith_cons_cons, List.map_cons,
      zipWith_replicate_right f v l]

theorem column0_getElem {N I j i : ℕ} {data : List α} (hd : data.length = N * I) (hj : j < I)
    (hi : i < N) (h1 : i < (column0 N I data j).length) (h2 : i * I + j < data.length) :
    (column0 N I data j)[i] = data[i * I + j] := by
  have := column0_getElem? hd hj hi
  rw [List.getElem?_eq_getElem h1, List.getElem?_eq_getElem h2] at this
  exact Option.some_inj.1 this

theorem index_lt {N I i j : ℕ} (hi : i < N) (hj : j < I) : i * I + j < N * I := by
  have : (i + 1) * I ≤ N * I := Nat.mul_le_mul_right I hi
  rw [Nat.succ_mul] at this
  omega

theorem column0_single {n : ℕ} {data : List α} (hd : data.length = n) : column0 n 1 data 0 = data := by
  have hd' : data.length = n * 1 := by omega
  apply List.ext_getElem?
  intro i
  by_cases hi : i < n
  · rw [column0_getElem? hd' (by omega) hi]; simp
  · rw [List.getElem?_eq_none (by rw [column0_length hd' (by omega)]; omega),
      List.getElem?_eq_none (by omega)]

theorem chunksN_mem_sub {m k : ℕ} {l c : List α} (hc : c ∈ chunksN m k l) : ∀ v ∈ c, v ∈ l := by
  induction m generalizing l with
  | zero => simp [chunksN] at hc
  | succ m ih =>
    rw [chunksN, List.mem_cons] at hc
    intro v hv
    rcases hc with rfl | hc
    · exact List.mem_of_mem_take hv
    · exact List.mem_of_mem_drop (ih hc v hv)

/-- every outcome of a sample along dimension 0 is an entry of the tensor -/
theorem mem_column0 {N I j : ℕ} {data : List α} {v : α} (h : v ∈ column0 N I data j) : v ∈ data := by
  unfold column0 colAt at h
  obtain ⟨r, hr, hv⟩ := List.mem_filterMap.1 h
  exact chunksN_mem_sub hr v (List.mem_of_getElem? hv)

/-! ### `input - target` for the kinds of target -/

section SubKinds
variable [Sub α]

theorem padShape_self (s : List ℕ) : padShape s.length s = s := by
  simp [padShape]

theorem bshape_cons_one_right {s t r : List ℕ} (a : ℕ) (h : bshape s t = .ok r) :
    bshape (a :: s) (1 :: t) = .ok (a :: r) := by
  simp only [bshape, h]
  by_cases h1 : a = 1 <;> simp [h1]

/-- full target: the same shape -/
theorem broadcastSub_full (x t : Tensor α) (hs : t.shape = x.shape) (hx : x.wf = true)
    (ht : t.wf = true) :
    broadcastSub x t = .ok ⟨x.shape, List.zipWith (fun a b => a - b) x.data t.data⟩ := by
  have hx' := (wf_iff x).1 hx
  have ht' := (wf_iff t).1 ht
  rw [hs] at ht'
  simp only [broadcastSub, hs, Nat.max_self, padShape_self, bshape_self,
    expandData_self _ _ hx', expandData_self _ _ ht']

/-- per-column target: the trailing shape `(*)` -/
theorem broadcastSub_column (x t : Tensor α) (N : ℕ) (tr : List ℕ) (hs : x.shape = N :: tr)
    (hts : t.shape = tr) (hx : x.wf = true) (ht : t.wf = true) :
    broadcastSub x t = .ok ⟨N :: tr,
      List.zipWith (fun a b => a - b) x.data (List.replicate N t.data).flatten⟩ := by
  have hx' := (wf_iff x).1 hx
  have ht' := (wf_iff t).1 ht
  rw [hs] at hx'
  rw [hts] at ht'
  have hm : max (N :: tr).length tr.length = (N :: tr).length := by simp
  have hp : padShape (N :: tr).length tr = 1 :: tr := by simp [padShape]
  simp only [broadcastSub, hs, hts, hm, padShape_self, hp,
    bshape_cons_one_right N (bshape_self tr), expandData_self _ _ hx', expandData_rows N tr _ ht']

/-- row target: shape `(1, *)` -/
theorem broadcastSub_row (x t : Tensor α) (N : ℕ) (tr : List ℕ) (hs : x.shape = N :: tr)
    (hts : t.shape = 1 :: tr) (hx : x.wf = true) (ht : t.wf = true) :
    broadcastSub x t = .ok ⟨N :: tr,
      List.zipWith (fun a b => a - b) x.data (List.replicate N t.data).flatten⟩ := by
  have hx' := (wf_iff x).1 hx
  have ht' := (wf_iff t).1 ht
  rw [hs] at hx'
  rw [hts] at ht'
  have ht'' : t.data.length = prodL tr := by simpa [prodL] using ht'
  have hm : max (N :: tr).length (1 :: tr).length = (N :: tr).length := by simp
  have hp : padShape (N :: tr).length (1 :: tr) = 1 :: tr := by simp [padShape]
  simp only [broadcastSub, hs, hts, hm, padShape_self, hp,
    bshape_cons_one_right N (bshape_self tr), expandData_self _ _ hx', expandData_rows N tr _ ht'']

/-- per-path target: shape `(N, 1, …, 1)` -/
theorem broadcastSub_path (x t : Tensor α) (N : ℕ) (tr : List ℕ) (hs : x.shape = N :: tr)
    (hts : t.shape = N :: List.replicate tr.length 1) (hx : x.wf = true) (ht : t.wf = true) :
    broadcastSub x t = .ok ⟨N :: tr,
      List.zipWith (fun a b => a - b) x.data
        (t.data.map (fun v => List.replicate (prodL tr) v)).flatten⟩ := by
  have hx' := (wf_iff x).1 hx
  have ht' := (wf_iff t).1 ht
  rw [hs] at hx'
  rw [hts] at ht'
  have hN : t.data.length = N := by simpa [prodL, prodL_ones] using ht'
  have hm : max (N :: tr).length (N :: List.replicate tr.length 1).length = (N :: tr).length := by
    simp
  have hp : padShape (N :: tr).length (N :: List.replicate tr.length 1)
      = N :: List.replicate tr.length 1 := by simp [padShape]
  have hb : bshape (N :: tr) (N :: List.replicate tr.length 1) = .ok (N :: tr) := by
    simp [bshape, bshape_ones]
  have he := expandData_paths tr t.data
  rw [hN] at he
  simp only [broadcastSub, hs, hts, hm, padShape_self, hp, hb, expandData_self _ _ hx', he]

/-- 0-dimensional target: the same as the Python number -/
theorem broadcastSub_zerodim (x : Tensor α) (v : α) (hx : x.wf = true) :
    broadcastSub x ⟨[], [v]⟩ = .ok ⟨x.shape, x.data.map (fun a => a - v)⟩ := by
  have hx' := (wf_iff x).1 hx
  have hm : max x.shape.length ([] : List ℕ).length = x.shape.length := by simp
  have hp : padShape x.shape.length [] = List.replicate x.shape.length 1 := by simp [padShape]
  have hz := zipWith_replicate_right (fun (a b : α) => a - b) v x.data
  rw [hx'] at hz
  simp only [broadcastSub, hm, padShape_self, hp, bshape_ones, expandData_self _ _ hx',
    expandData_scalar, hz]

end SubKinds

/-! ### `reduceDim` along dimension 0 -/

theorem reduceDim_zero (crit : List α → β) (pl : Tensor α) (N : ℕ) (tr : List ℕ)
    (hs : pl.shape = N :: tr) :
    reduceDim crit 0 pl = .ok ⟨tr, (columns 0 pl.shape pl.data).map crit⟩ := by
  simp [reduceDim, normDim, hs]

/-! ### lists of results -/

theorem seqE_map_ok {γ : Type} (f : γ → β) (l : List γ) :
    seqE (l.map (fun c => (Except.ok (f c) : Except Err β))) = .ok (l.map f) := by
  induction l with
  | nil => rfl
  | cons a l ih => simp [seqE, ih]

theorem seqE_ok {l : List (Except Err β)} {vs : List β} (h : seqE l = .ok vs) :
    vs.length = l.length ∧ ∀ j (h1 : j < l.length) (h2 : j < vs.length), l[j] = .ok vs[j] := by
  induction l generalizing vs with
  | nil =>
    simp only [seqE] at h
    injection h with h
    subst h
    exact ⟨rfl, fun j h1 => absurd h1 (by simp)⟩
  | cons a l ih =>
    cases a with
    | error e => simp [seqE] at h
    | ok v =>
      cases hl : seqE l with
      | error e => simp [seqE, hl] at h
      | ok ws =>
        simp only [seqE, hl] at h
        injection h with h
        subst h
        obtain ⟨i1, i2⟩ := ih hl
        refine ⟨by simp [i1], ?_⟩
        intro j h1 h2
        cases j with
        | zero => rfl
        | succ j => simpa using i2 j (by simpa using h1) (by simpa using h2)

theorem length_flatten_const {γ : Type} (f : γ → List β) (c : ℕ) :
    ∀ (l : List γ), (∀ a ∈ l, (f a).length = c) → (l.map f).flatten.length = l.length * c
  | [], _ => by simp
  | a :: l, h => by
    rw [List.map_cons, List.flatten_cons, List.length_append, h a List.mem_cons_self,
      length_flatten_const f c l (fun b hb => h b (List.mem_cons_of_mem _ hb)), List.length_cons,
      Nat.succ_mul]
    omega

/-- the number of samples along dimension `i` is the number of entries of the remaining shape
(whatever the data) -/
theorem columns_length : ∀ (i : ℕ) (s : List ℕ) (data : List α), i < s.length →
    (columns i s data).length = prodL (s.eraseIdx i)
  | 0, n :: rest, data, _ => by simp [columns, transposeW]
  | i + 1, n :: rest, data, h => by
    have hi : i < rest.length := by simpa using h
    rw [columns, length_flatten_const _ (prodL (rest.eraseIdx i)) _
      (fun c _ => columns_length i rest c hi), chunksN_length]
    rfl
  | _, [], _, h => absurd h (by simp)

theorem normDim_lt {r : ℕ} {d : ℤ} {i : ℕ} (h : normDim r d = .ok i) : i < r := by
  unfold normDim at h
  split at h
  · split at h
    · injection h with h; omega
    · cases h
  · split at h
    · injection h with h; omega
    · cases h

/-! ### samples along an arbitrary dimension -/

theorem prodL_take_drop (s : List ℕ) (d : ℕ) (hd : d < s.length) :
    prodL s = prodL (s.take d) * s[d] * prodL (s.drop (d + 1)) := by
  induction s generalizing d with
  | nil => simp at hd
  | cons n s ih =>
    cases d with
    | zero => simp [prodL]
    | succ d =>
      have hd' : d < s.length := by simpa using hd
      simp only [List.take_succ_cons, List.drop_succ_cons, prodL, List.getElem_cons_succ]
      rw [ih d hd']
      ring

theorem prodL_eraseIdx (s : List ℕ) (d : ℕ) (hd : d < s.length) :
    prodL (s.eraseIdx d) = prodL (s.take d) * prodL (s.drop (d + 1)) := by
  induction s generalizing d with
  | nil => simp at hd
  | cons n s ih =>
    cases d with
    | zero => simp [prodL]
    | succ d =>
      have hd' : d < s.length := by simpa using hd
      simp only [List.eraseIdx_cons_succ, List.take_succ_cons, List.drop_succ_cons, prodL]
      rw [ih d hd']
      ring

/-- entry `p` of block `b` of a concatenation of blocks of equal length `C` -/
theorem flatten_getElem?_const {γ : Type} (C : ℕ) : ∀ (L : List (List γ)) (b p : ℕ),
    (∀ l ∈ L, l.length = C) → p < C → L.flatten[b * C + p]? = (L[b]?).bind (fun l => l[p]?)
  | [], b, p, _, _ => by simp
  | l :: L, 0, p, h, hp => by
    have hl := h l List.mem_cons_self
    simp [List.getElem?_append_left (by omega : p < l.length)]
  | l :: L, b + 1, p, h, hp => by
    have hl := h l List.mem_cons_self
    rw [List.flatten_cons, List.getElem?_append_right (by rw [hl, Nat.succ_mul]; omega)]
    have e : (b + 1) * C + p - l.length = b * C + p := by rw [hl, Nat.succ_mul]; omega
    rw [e, flatten_getElem?_const C L b p (fun l' hl' => h l' (List.mem_cons_of_mem _ hl')) hp]
    simp

theorem chunksN_getElem? {m k b : ℕ} {l : List α} (hb : b < m) :
    (chunksN m k l)[b]? = some ((l.drop (b * k)).take k) := by
  induction m generalizing l b with
  | zero => omega
  | succ m ih =>
    cases b with
    | zero => simp [chunksN]
    | succ b =>
      rw [chunksN, List.getElem?_cons_succ, ih (by omega), List.drop_drop]
      congr 3
      rw [Nat.succ_mul]; omega

/-- **The samples along any dimension `d`.**  With `O` = number of entries of the dimensions
before `d`, `n` = size of `d`, `I` = number of entries of the dimensions after `d`: sample number
`o I + i` (`o < O`, `i < I`) has as its `k`-th outcome the entry at row-major position
`(o n + k) I + i`, i.e. multi-index `(o, k, i)`. -/
theorem columns_getElem? : ∀ (d : ℕ) (s : List ℕ) (data : List α) (hd : d < s.length),
    data.length = prodL s → ∀ (o i k : ℕ), o < prodL (s.take d) → i < prodL (s.drop (d + 1)) →
    k < s[d] →
    ((columns d s data)[o * prodL (s.drop (d + 1)) + i]?).bind (fun c => c[k]?)
      = data[(o * s[d] + k) * prodL (s.drop (d + 1)) + i]?
  | 0, n :: rest, data, _, hlen, o, i, k, ho, hi, hk => by
    simp only [List.take_zero, prodL] at ho
    have ho0 : o = 0 := by omega
    subst ho0
    simp only [List.drop_succ_cons, List.drop_zero, List.getElem_cons_zero] at hi hk ⊢
    simp only [prodL] at hlen
    rw [columns_zero]
    simp only [Nat.zero_mul, Nat.zero_add, List.getElem?_map, List.getElem?_range hi,
      Option.map_some, Option.bind_some]
    exact column0_getElem? hlen hi hk
  | d + 1, m :: rest, data, hd, hlen, o, i, k, ho, hi, hk => by
    have hd' : d < rest.length := by simpa using hd
    simp only [List.take_succ_cons, List.drop_succ_cons, prodL, List.getElem_cons_succ] at ho hi hk ⊢
    simp only [prodL] at hlen
    set O' := prodL (rest.take d) with hO'
    set I := prodL (rest.drop (d + 1)) with hI
    set n := rest[d] with hn
    have hK : prodL rest = O' * n * I := prodL_take_drop rest d hd'
    have hOpos : 0 < O' := by
      rcases Nat.eq_zero_or_pos O' with h | h
      · rw [h] at ho; simp at ho
      · exact h
    have hb : o / O' < m := Nat.div_lt_of_lt_mul (by rwa [Nat.mul_comm] at ho)
    have ho' : o % O' < O' := Nat.mod_lt _ hOpos
    have hdm : o = o / O' * O' + o % O' := by rw [Nat.mul_comm]; exact (Nat.div_add_mod o O').symm
    have hC : ∀ l ∈ (chunksN m (prodL rest) data).map (columns d rest), l.length = O' * I := by
      intro l hl
      obtain ⟨c, _, rfl⟩ := List.mem_map.1 hl
      rw [columns_length d rest c hd', prodL_eraseIdx rest d hd']
    have hp : o % O' * I + i < O' * I := index_lt ho' hi
    have e1 : o * I + i = o / O' * (O' * I) + (o % O' * I + i) := by
      conv_lhs => rw [hdm]
      ring
    rw [columns, e1, flatten_getElem?_const (O' * I) _ _ _ hC hp, List.getElem?_map,
      chunksN_getElem? hb]
    simp only [Option.map_some, Option.bind_some]
    have hchunk : ((data.drop (o / O' * prodL rest)).take (prodL rest)).length = prodL rest := by
      rw [List.length_take, List.length_drop, hlen]
      have : (o / O' + 1) * prodL rest ≤ m * prodL rest := Nat.mul_le_mul_right _ hb
      rw [Nat.succ_mul] at this
      omega
    rw [columns_getElem? d rest _ hd' hchunk (o % O') i k ho' hi hk]
    have hin : (o % O' * n + k) * I + i < prodL rest := by
      rw [hK]
      exact index_lt (index_lt ho' hk) hi
    rw [List.getElem?_take_of_lt hin, List.getElem?_drop]
    congr 1
    conv_rhs => rw [hdm]
    rw [hK]
    ring
  | _, [], _, hd, _, _, _, _, _, _, _ => absurd hd (by simp)

/-- every sample along dimension `d` has as many outcomes as the size of that dimension -/
theorem columns_mem_length : ∀ (d : ℕ) (s : List ℕ) (data : List α) (hd : d < s.length),
    data.length = prodL s → ∀ c ∈ columns d s data, c.length = s[d]
  | 0, n :: rest, data, _, hlen, c, hc => by
    simp only [prodL] at hlen
    rw [columns_zero] at hc
    obtain ⟨j, hj, rfl⟩ := List.mem_map.1 hc
    exact column0_length hlen (List.mem_range.1 hj)
  | d + 1, m :: rest, data, hd, hlen, c, hc => by
    have hd' : d < rest.length := by simpa using hd
    simp only [prodL] at hlen
    rw [columns] at hc
    obtain ⟨l, hl, hcl⟩ := List.mem_flatten.1 hc
    obtain ⟨ch, hch, rfl⟩ := List.mem_map.1 hl
    simpa using columns_mem_length d rest ch hd' (chunksN_mem_length hlen ch hch) c hcl
  | _, [], _, hd, _, _, _ => absurd hd (by simp)

/-! ### quadratic CVaR: shifting a column by a constant -/

section QShift
open PfVerif.C04ERMAux PfVerif.C05QCVaRAux

theorem meanR_shift {col : List ℝ} (hne : col ≠ []) (c : ℝ) :
    meanR (col.map (fun v => v - c)) = meanR col - c := by
  have hN := length_pos_real col hne
  rw [meanR_eq, meanR_eq, C05Aux.map_sub_eq_map_add_neg, sum_map_add_const, List.length_map]
  field_simp
  ring

theorem centre_shift {col : List ℝ} (hne : col ≠ []) (c : ℝ) :
    centre (col.map (fun v => v - c)) = centre col := by
  unfold centre
  rw [meanR_shift hne, List.map_map]
  apply List.map_congr_left
  intro v _
  simp only [Function.comp]
  ring

theorem shift_map_centre : ∀ (cols : List (List ℝ)) (cs : List ℝ), cs.length = cols.length →
    (∀ c ∈ cols, c ≠ []) →
    (List.zipWith (fun col c => col.map (fun v => v - c)) cols cs).map centre = cols.map centre ∧
    (List.zipWith (fun col c => col.map (fun v => v - c)) cols cs).length = cols.length
  | [], _, _, _ => by simp
  | col :: cols, [], h, _ => by simp at h
  | col :: cols, c :: cs, h, hne => by
    obtain ⟨a, b⟩ := shift_map_centre cols cs (by simpa using h)
      (fun c hc => hne c (List.mem_cons_of_mem _ hc))
    simp only [List.zipWith_cons_cons, List.map_cons, a, List.length_cons, b,
      centre_shift (hne col List.mem_cons_self), and_self]

theorem zipWith_shift_base (h : ℝ × List ℝ → ℝ) :
    ∀ (cols : List (List ℝ)) (A : List (ℝ × List ℝ)) (cs : List ℝ), (∀ c ∈ cols, c ≠ []) →
    List.zipWith (fun wc b => h wc - b) A
        ((List.zipWith (fun col c => col.map (fun v => v - c)) cols cs).map meanR)
      = List.zipWith (fun v c => v + c) (List.zipWith (fun wc b => h wc - b) A (cols.map meanR)) cs
  | [], A, cs, _ => by simp
  | col :: cols, A, [], _ => by simp
  | col :: cols, [], c :: cs, _ => by simp
  | col :: cols, w :: A, c :: cs, hne => by
    simp only [List.zipWith_cons_cons, List.map_cons,
      zipWith_shift_base h cols A cs (fun c hc => hne c (List.mem_cons_of_mem _ hc)),
      meanR_shift (hne col List.mem_cons_self)]
    congr 1
    ring

end QShift

end PfVerif.C05TensorAux

namespace PfVerif.C05Tensor
open PfVerif PfVerif.CT PfVerif.C05TensorAux

variable {α β : Type}

/-! ## 1. Shape of the result -/

/-- **Shape.**  A criterion along `dim` succeeds exactly on a valid `dim`; the result has the
input shape with that ONE dimension removed (`eraseIdx`: other dimensions of size one stay), so
its rank is one less, and it holds one value per remaining multi-index. -/
theorem reduceDim_shape (crit : List α → β) (d : ℤ) (t : Tensor α) (r : Tensor β)
    (h : reduceDim crit d t = .ok r) :
    ∃ i, normDim t.shape.length d = .ok i ∧ i < t.shape.length ∧ r.shape = t.shape.eraseIdx i ∧
      r.shape.length + 1 = t.shape.length ∧ r.data.length = prodL r.shape := by
  unfold reduceDim at h
  cases hn : normDim t.shape.length d with
  | error e => rw [hn] at h; cases h
  | ok i =>
    rw [hn] at h
    injection h with h
    subst h
    have hi := normDim_lt hn
    refine ⟨i, rfl, hi, rfl, ?_, ?_⟩
    · simp only [List.length_eraseIdx, hi, if_true]; omega
    · simp [columns_length i _ _ hi]

/-- a `dim` outside `[-rank, rank)` raises (torch: `IndexError`), it is never clamped -/
theorem reduceDim_bad_dim (crit : List α → β) (d : ℤ) (t : Tensor α)
    (h : (t.shape.length : ℤ) ≤ d ∨ d < -(t.shape.length : ℤ)) :
    reduceDim crit d t = .error .runtimeError := by
  have : normDim t.shape.length d = .error .runtimeError := by
    unfold normDim
    rcases h with h | h
    · rw [if_pos (by omega), if_neg (by omega)]
    · rw [if_neg (by omega), if_neg (by omega)]
  simp [reduceDim, this]

/-- `dim=None`: a 0-dimensional result holding the criterion of ALL entries as one sample -/
theorem reduceAll_shape (crit : List α → β) (t : Tensor α) :
    (reduceAll crit t).shape = [] ∧ (reduceAll crit t).data = [crit t.data] := ⟨rfl, rfl⟩

/-- along dimension 0 of a tensor of shape `(N, *)`: the trailing shape `(*)` and one value per
column, the criterion of that column -/
theorem reduceDim_zero_entries (crit : List α → β) (pl : Tensor α) (N : ℕ) (tr : List ℕ)
    (hs : pl.shape = N :: tr) :
    reduceDim crit 0 pl
      = .ok ⟨tr, (List.range (prodL tr)).map (fun j => crit (column0 N (prodL tr) pl.data j))⟩ := by
  rw [reduceDim_zero crit pl N tr hs, hs, columns_zero, List.map_map]
  rfl

/-- **The samples along ANY dimension, completely.**  For a valid `dim` (normalised to `i`) of a
well-formed tensor, with `O`, `n`, `I` the numbers of entries before, at and after dimension `i`:
the result holds `O · I` values; value number `o I + j` (`o < O`, `j < I`: row-major position in
the remaining shape) is the criterion of a sample of exactly `n` outcomes whose `k`-th outcome is
the entry at row-major position `(o n + k) I + j` of the input, i.e. at multi-index `(o, k, j)`.
Nothing else enters, whatever the sizes (size-one dimensions included). -/
theorem reduceDim_entry (crit : List α → β) (d : ℤ) (t : Tensor α) (r : Tensor β) (i : ℕ)
    (hn : normDim t.shape.length d = .ok i) (hwf : t.wf = true)
    (hr : reduceDim crit d t = .ok r) :
    ∃ hi : i < t.shape.length,
      r.data.length = prodL (t.shape.take i) * prodL (t.shape.drop (i + 1)) ∧
      ∀ o j, o < prodL (t.shape.take i) → j < prodL (t.shape.drop (i + 1)) →
        ∃ col : List α, r.data[o * prodL (t.shape.drop (i + 1)) + j]? = some (crit col) ∧
          col.length = t.shape[i] ∧
          ∀ k, k < t.shape[i] →
            col[k]? = t.data[(o * t.shape[i] + k) * prodL (t.shape.drop (i + 1)) + j]? := by
  have hi := normDim_lt hn
  have hd := (wf_iff t).1 hwf
  simp only [reduceDim, hn] at hr
  injection hr with hr
  subst hr
  have hlen : (columns i t.shape t.data).length
      = prodL (t.shape.take i) * prodL (t.shape.drop (i + 1)) := by
    rw [columns_length i _ _ hi, prodL_eraseIdx _ _ hi]
  refine ⟨hi, by simp [hlen], ?_⟩
  intro o j ho hj
  have hidx : o * prodL (t.shape.drop (i + 1)) + j < (columns i t.shape t.data).length := by
    rw [hlen]; exact index_lt ho hj
  refine ⟨(columns i t.shape t.data)[o * prodL (t.shape.drop (i + 1)) + j], ?_,
    columns_mem_length i _ _ hi hd _ (List.getElem_mem hidx), ?_⟩
  · simp [hidx]
  · intro k hk
    have := columns_getElem? i t.shape t.data hi hd o j k ho hj hk
    rw [List.getElem?_eq_getElem hidx] at this
    simpa using this

/-! ## 2. The target is subtracted first, for every kind of target -/

section Target
variable [Sub α]

/-- every module evaluates its column criterion on `input - target` (whatever the target is) -/
theorem moduleForward_eq (crit : List α → β) (x : Tensor α) (tg : Target α) :
    moduleForward crit x tg
      = match subTarget x tg with
        | .error e => .error e
        | .ok pl => reduceDim crit 0 pl := rfl

/-- shapes that do not broadcast: the subtraction raises and so does the module -/
theorem moduleForward_error (crit : List α → β) (x : Tensor α) (tg : Target α) (e : Err)
    (h : subTarget x tg = .error e) : moduleForward crit x tg = .error e := by
  simp [moduleForward, h]

/-- a Python number: every column is shifted by it -/
theorem moduleForward_number (crit : List α → β) (x : Tensor α) (c : α) (N : ℕ) (tr : List ℕ)
    (hs : x.shape = N :: tr) (hx : x.wf = true) :
    moduleForward crit x (.number c)
      = .ok ⟨tr, (columns 0 x.shape x.data).map (fun col => crit (col.map (fun a => a - c)))⟩ := by
  have hx' := (wf_iff x).1 hx
  rw [hs] at hx'
  simp only [prodL] at hx'
  simp only [moduleForward, subTarget]
  rw [reduceDim_zero_entries crit ⟨x.shape, x.data.map (fun a => a - c)⟩ N tr hs]
  simp only [hs, columns_zero, List.map_map]
  congr 2
  apply List.map_congr_left
  intro j hj
  simp only [Function.comp, column0_map _ hx' (List.mem_range.1 hj)]

/-- a 0-dimensional tensor acts as the number it holds -/
theorem moduleForward_zerodim (crit : List α → β) (x : Tensor α) (v : α) (hx : x.wf = true) :
    moduleForward crit x (.tensor ⟨[], [v]⟩) = moduleForward crit x (.number v) := by
  simp only [moduleForward, subTarget, broadcastSub_zerodim x v hx]

/-- one amount per column (target of the trailing shape `(*)`): **column `j` is shifted by
entry `j` of the target** -/
theorem moduleForward_column (crit : List α → β) (x t : Tensor α) (N : ℕ) (tr : List ℕ)
    (hs : x.shape = N :: tr) (hts : t.shape = tr) (hx : x.wf = true) (ht : t.wf = true) :
    moduleForward crit x (.tensor t)
      = .ok ⟨tr, List.zipWith (fun col cj => crit (col.map (fun a => a - cj)))
          (columns 0 x.shape x.data) t.data⟩ := by
  have hx' := (wf_iff x).1 hx
  have ht' := (wf_iff t).1 ht
  rw [hs] at hx'
  rw [hts] at ht'
  simp only [prodL] at hx'
  have hl : (List.replicate N t.data).flatten.length = N * prodL tr := by
    rw [flatten_replicate_length, ht']
  simp only [moduleForward, subTarget, broadcastSub_column x t N tr hs hts hx ht]
  rw [reduceDim_zero_entries crit _ N tr rfl]
  simp only [hs, columns_zero]
  congr 2
  apply List.ext_getElem
  · simp [ht']
  · intro j h1 h2
    have hj : j < prodL tr := by simpa using h1
    have hr := column0_rows (N := N) t.data ht' hj
    have hz := zipWith_replicate_right (fun (a b : α) => a - b) (t.data[j]'(by omega))
      (column0 N (prodL tr) x.data j)
    rw [column0_length hx' hj] at hz
    simp only [List.getElem_map, List.getElem_range, List.getElem_zipWith,
      column0_zipWith _ hx' hl hj, hr, hz]

/-- a row target of shape `(1, *)`: the same -/
theorem moduleForward_row (crit : List α → β) (x t : Tensor α) (N : ℕ) (tr : List ℕ)
    (hs : x.shape = N :: tr) (hts : t.shape = 1 :: tr) (hx : x.wf = true) (ht : t.wf = true) :
    moduleForward crit x (.tensor t) = moduleForward crit x (.tensor ⟨tr, t.data⟩) := by
  have ht2 : (⟨tr, t.data⟩ : Tensor α).wf = true := by
    have := (wf_iff t).1 ht
    rw [hts] at this
    exact (wf_iff _).2 (by simpa [prodL] using this)
  simp only [moduleForward, subTarget, broadcastSub_row x t N tr hs hts hx ht,
    broadcastSub_column x ⟨tr, t.data⟩ N tr hs rfl hx ht2]

/-- one amount per path (target of shape `(N, 1, …, 1)`): **the target acts inside every
column**, path by path -/
theorem moduleForward_path (crit : List α → β) (x t : Tensor α) (N : ℕ) (tr : List ℕ)
    (hs : x.shape = N :: tr) (hts : t.shape = N :: List.replicate tr.length 1)
    (hx : x.wf = true) (ht : t.wf = true) :
    moduleForward crit x (.tensor t)
      = .ok ⟨tr, (columns 0 x.shape x.data).map
          (fun col => crit (List.zipWith (fun a b => a - b) col t.data))⟩ := by
  have hx' := (wf_iff x).1 hx
  have ht' := (wf_iff t).1 ht
  rw [hs] at hx'
  rw [hts] at ht'
  simp only [prodL] at hx'
  have hN : t.data.length = N := by simpa [prodL, prodL_ones] using ht'
  have hl : (t.data.map (fun v => List.replicate (prodL tr) v)).flatten.length = N * prodL tr := by
    rw [flatten_map_replicate_length, hN]
  simp only [moduleForward, subTarget, broadcastSub_path x t N tr hs hts hx ht]
  rw [reduceDim_zero_entries crit _ N tr rfl]
  simp only [hs, columns_zero, List.map_map]
  congr 2
  apply List.map_congr_left
  intro j hj
  have hj' := List.mem_range.1 hj
  have hp := column0_paths (I := prodL tr) t.data hj'
  rw [hN] at hp
  simp only [Function.comp, column0_zipWith _ hx' hl hj', hp]

/-- a full target (the shape of the input): column `j` of the target is subtracted from column
`j` of the input -/
theorem moduleForward_full (crit : List α → β) (x t : Tensor α) (N : ℕ) (tr : List ℕ)
    (hs : x.shape = N :: tr) (hts : t.shape = x.shape) (hx : x.wf = true) (ht : t.wf = true) :
    moduleForward crit x (.tensor t)
      = .ok ⟨tr, List.zipWith (fun col tcol => crit (List.zipWith (fun a b => a - b) col tcol))
          (columns 0 x.shape x.data) (columns 0 t.shape t.data)⟩ := by
  have hx' := (wf_iff x).1 hx
  have ht' := (wf_iff t).1 ht
  rw [hts] at ht'
  rw [hs] at hx' ht'
  simp only [prodL] at hx' ht'
  simp only [moduleForward, subTarget, broadcastSub_full x t hts hx ht]
  rw [reduceDim_zero_entries crit ⟨x.shape, List.zipWith (fun a b => a - b) x.data t.data⟩ N tr hs]
  simp only [hts, hs, columns_zero]
  congr 2
  apply List.ext_getElem
  · simp
  · intro j h1 h2
    have hj : j < prodL tr := by simpa using h1
    simp only [List.getElem_map, List.getElem_range, List.getElem_zipWith,
      column0_zipWith _ hx' ht' hj]

end Target

/-! ## 3. Module form, functional form, `dim` conventions -/

section Forms
variable [Sub α]

/-- **module form = functional form with `dim = 0`** on `input - target` -/
theorem module_eq_functional_dim0 (crit : List α → β) (x : Tensor α) (tg : Target α) :
    moduleForward crit x tg
      = match subTarget x tg with
        | .error e => .error e
        | .ok pl => functionalForm crit (some 0) pl := rfl

/-- the closed-form `cash` is minus the module value, entry by entry (same shape, same errors) -/
theorem moduleCash_eq [Neg α] (crit : List α → α) (x : Tensor α) (tg : Target α) :
    moduleCash crit x tg
      = match moduleForward crit x tg with
        | .error e => .error e
        | .ok r => .ok ⟨r.shape, r.data.map (fun v => -v)⟩ := by
  unfold moduleCash moduleForward
  cases subTarget x tg <;> rfl

end Forms

/-- **`dim = -k` is `dim = rank - k`** (`1 ≤ k ≤ rank`) -/
theorem normDim_neg (r k : ℕ) (h1 : 1 ≤ k) (hk : k ≤ r) :
    normDim r (-(k : ℤ)) = .ok (r - k) ∧ normDim r ((r - k : ℕ) : ℤ) = .ok (r - k) := by
  unfold normDim
  constructor
  · rw [if_neg (by omega), if_pos (by omega)]
    congr 2
    omega
  · rw [if_pos (by omega), if_pos (by omega)]
    congr 1

theorem reduceDim_neg (crit : List α → β) (t : Tensor α) (k : ℕ) (h1 : 1 ≤ k)
    (hk : k ≤ t.shape.length) :
    reduceDim crit (-(k : ℤ)) t = reduceDim crit ((t.shape.length - k : ℕ) : ℤ) t := by
  obtain ⟨a, b⟩ := normDim_neg t.shape.length k h1 hk
  simp only [reduceDim, a, b]

/-- **`dim=None` is the flattened tensor along its only dimension** -/
theorem functionalForm_none_eq_flatten (crit : List α → β) (t : Tensor α) (ht : t.wf = true) :
    functionalForm crit none t = reduceDim crit 0 t.flatten := by
  have ht' := (wf_iff t).1 ht
  rw [reduceDim_zero_entries crit t.flatten (prodL t.shape) [] rfl]
  simp only [functionalForm, reduceAll, Tensor.flatten, prodL, List.range_one, List.map_cons,
    List.map_nil, column0_single ht']

/-! ## 4. Column independence and the transfer of the one-column theorems -/

section Entries
variable [Sub α]

/-- **Column independence.**  Entry `j` of the module's value is the one-column criterion of
column `j` of `input - target`; nothing else of the tensor enters. -/
theorem moduleForward_entry (crit : List α → β) (x : Tensor α) (tg : Target α) (pl : Tensor α)
    (r : Tensor β) (N : ℕ) (tr : List ℕ) (hpl : subTarget x tg = .ok pl) (hs : pl.shape = N :: tr)
    (hr : moduleForward crit x tg = .ok r) :
    r.shape = tr ∧ r.data.length = prodL tr ∧
    ∀ j (_ : j < prodL tr) (h2 : j < r.data.length),
      r.data[j] = crit (column0 N (prodL tr) pl.data j) := by
  simp only [moduleForward, hpl] at hr
  rw [reduceDim_zero_entries crit pl N tr hs] at hr
  injection hr with hr
  subst hr
  refine ⟨rfl, by simp, ?_⟩
  intro j hj h2
  simp

/-- the same for criteria that can raise on a column: the call succeeds iff every column does,
and entry `j` is the value of column `j` -/
theorem moduleForwardE_entry (crit : List α → Except Err β) (x : Tensor α) (tg : Target α)
    (pl : Tensor α) (r : Tensor β) (N : ℕ) (tr : List ℕ) (hpl : subTarget x tg = .ok pl)
    (hs : pl.shape = N :: tr) (hr : moduleForwardE crit x tg = .ok r) :
    r.shape = tr ∧ r.data.length = prodL tr ∧
    ∀ j (_ : j < prodL tr) (h2 : j < r.data.length),
      crit (column0 N (prodL tr) pl.data j) = .ok r.data[j] := by
  simp only [moduleForwardE, moduleForward, hpl] at hr
  rw [reduceDim_zero_entries crit pl N tr hs] at hr
  simp only [Tensor.seqE] at hr
  cases hq : CT.seqE ((List.range (prodL tr)).map
      (fun j => crit (column0 N (prodL tr) pl.data j))) with
  | error e => rw [hq] at hr; cases hr
  | ok vs =>
    rw [hq] at hr
    injection hr with hr
    subst hr
    obtain ⟨i1, i2⟩ := seqE_ok hq
    refine ⟨rfl, by simpa using i1, ?_⟩
    intro j hj h2
    have := i2 j (by simpa using hj) h2
    simpa using this

/-- a criterion that never raises on samples of `N` outcomes: the form with errors is the plain
form of its value function -/
theorem moduleForwardE_eq (critE : List α → Except Err β) (f : List α → β) (x : Tensor α)
    (tg : Target α) (pl : Tensor α) (N : ℕ) (tr : List ℕ) (hpl : subTarget x tg = .ok pl)
    (hs : pl.shape = N :: tr) (hwf : pl.wf = true)
    (hf : ∀ col : List α, col.length = N → critE col = .ok (f col)) :
    moduleForwardE critE x tg = moduleForward f x tg := by
  have hd := (wf_iff pl).1 hwf
  rw [hs] at hd
  simp only [prodL] at hd
  simp only [moduleForwardE, moduleForward, hpl]
  rw [reduceDim_zero_entries critE pl N tr hs, reduceDim_zero_entries f pl N tr hs]
  have : (List.range (prodL tr)).map (fun j => critE (column0 N (prodL tr) pl.data j))
      = ((List.range (prodL tr)).map (fun j => column0 N (prodL tr) pl.data j)).map
          (fun c => (Except.ok (f c) : Except Err β)) := by
    rw [List.map_map]
    apply List.map_congr_left
    intro j hj
    exact hf _ (column0_length hd (List.mem_range.1 hj))
  simp only [Tensor.seqE]
  rw [this, seqE_map_ok]
  simp only [List.map_map]
  rfl

end Entries

/-! ### over the reals: target first, and the one-column theorems entry by entry -/

/-- **Target first.**  For every kind of target that broadcasts, the module measures the P&L
`input - target`: `crit(input, target) = crit(input - target, 0)`. -/
theorem moduleForward_target_first (crit : List ℝ → β) (x : Tensor ℝ) (tg : Target ℝ)
    (pl : Tensor ℝ) (hpl : subTarget x tg = .ok pl) :
    moduleForward crit x tg = moduleForward crit pl (.number 0) := by
  have h0 : subTarget pl (.number 0) = .ok pl := by simp [subTarget]
  simp only [moduleForward, hpl, h0]

/-- … and when the shapes do not broadcast nothing is measured at all -/
theorem moduleForward_target_error (crit : List ℝ → β) (x : Tensor ℝ) (tg : Target ℝ) (e : Err)
    (h : subTarget x tg = .error e) : moduleForward crit x tg = .error e :=
  moduleForward_error crit x tg e h

/-- **Expected shortfall of a tensor = minus the mean of the `⌈pN⌉` worst outcomes of each
column** of `input - target` (`N` = the size of dimension 0; `kOf N = ⌈pN⌉ ≤ N`), the "worst"
being an order statistic of THAT column (C05 `es_eq_def` transferred to every entry). -/
theorem es_tensor_eq_def (kOf : ℕ → ℕ) (x : Tensor ℝ) (tg : Target ℝ) (pl r : Tensor ℝ) (N : ℕ)
    (tr : List ℕ) (hpl : subTarget x tg = .ok pl) (hs : pl.shape = N :: tr) (hwf : pl.wf = true)
    (hk : kOf N ≤ N) (hr : moduleForward (esCol kOf) x tg = .ok r) :
    r.shape = tr ∧ r.data.length = prodL tr ∧
    ∀ j (_ : j < prodL tr) (h2 : j < r.data.length),
      (column0 N (prodL tr) pl.data j).length = N ∧
      r.data[j] = -(((sortL (column0 N (prodL tr) pl.data j)).take (kOf N)).sum / (kOf N : ℝ)) ∧
      ((sortL (column0 N (prodL tr) pl.data j)).take (kOf N)
          ++ (sortL (column0 N (prodL tr) pl.data j)).drop (kOf N)).Perm
        (column0 N (prodL tr) pl.data j) ∧
      ((sortL (column0 N (prodL tr) pl.data j)).take (kOf N)).length = kOf N ∧
      ∀ a ∈ (sortL (column0 N (prodL tr) pl.data j)).take (kOf N),
        ∀ b ∈ (sortL (column0 N (prodL tr) pl.data j)).drop (kOf N), a ≤ b := by
  have hd := (wf_iff pl).1 hwf
  rw [hs] at hd
  simp only [prodL] at hd
  obtain ⟨e1, e2, e3⟩ := moduleForward_entry (esCol kOf) x tg pl r N tr hpl hs hr
  refine ⟨e1, e2, ?_⟩
  intro j hj h2
  have hl := column0_length hd hj
  obtain ⟨a, b, _, c, d⟩ := C05.es_eq_def (k := kOf N) (xs := column0 N (prodL tr) pl.data j)
    (by omega)
  refine ⟨hl, ?_, b, c, d⟩
  rw [e3 j hj h2, esCol, hl, a]

/-- **Value at risk of a tensor along dimension 0**: entry `j` is `valueAtRisk` of column `j`
with the branch the code picks for `n = N` (so C05 `var_min`, `var_max`, `var_integral_branch`,
`var_mono_p` apply to every entry) -/
theorem var_tensor_entry (bOf : ℕ → VarBranch × ℝ) (x : Tensor ℝ) (tg : Target ℝ)
    (pl r : Tensor ℝ) (N : ℕ) (tr : List ℕ) (hpl : subTarget x tg = .ok pl)
    (hs : pl.shape = N :: tr) (hwf : pl.wf = true)
    (hr : moduleForwardE (varCol bOf) x tg = .ok r) :
    r.shape = tr ∧ r.data.length = prodL tr ∧
    ∀ j (_ : j < prodL tr) (h2 : j < r.data.length),
      valueAtRisk (bOf N).1 (bOf N).2 (column0 N (prodL tr) pl.data j) = .ok r.data[j] := by
  have hd := (wf_iff pl).1 hwf
  rw [hs] at hd
  simp only [prodL] at hd
  obtain ⟨e1, e2, e3⟩ := moduleForwardE_entry (varCol bOf) x tg pl r N tr hpl hs hr
  refine ⟨e1, e2, ?_⟩
  intro j hj h2
  have := e3 j hj h2
  rwa [varCol, column0_length hd hj] at this

/-- **Entropic risk of a tensor**: for `N ≥ 1` the module never raises and is the plain
column-wise form of `(1/a) log mean exp(-a x)` -/
theorem erm_tensor_eq (a : ℝ) (x : Tensor ℝ) (tg : Target ℝ) (pl : Tensor ℝ) (N : ℕ)
    (tr : List ℕ) (hpl : subTarget x tg = .ok pl) (hs : pl.shape = N :: tr) (hwf : pl.wf = true)
    (hN : 1 ≤ N) :
    moduleForwardE (entropicRisk a) x tg = moduleForward (C04ERMAux.ermR a) x tg :=
  moduleForwardE_eq _ _ x tg pl N tr hpl hs hwf (fun col hc =>
    C04ERM.erm_eq_def a col (by rintro rfl; simp at hc; omega))

/-! ## 5. Quadratic CVaR: what survives the bisection shared by the columns

`quadratic_cvar` sends ALL columns through one `bisect` call: the bracket test, the direction
test and the stop test look at every column (`.all()`, `max`).  Consequences proved below:
  * `qcvar_tensor_shape`: shape as for the column-wise criteria; an error of the shared search is
    an error for the whole tensor;
  * `qcvar_tensor_value`: under the bracket hypothesis of Lemmas/C05QCVaR.lean for EVERY column,
    every entry is the quadratic CVaR (the minimum over `w`) of its own column up to
    `lam · precision²`, where `precision` is the ONE precision of the call (the code derives it
    from the widest bracket of the tensor: it is shared, a narrow column is only as precise as
    the widest one allows);
  * `qcvar_entry_vs_alone`: exact column independence does NOT survive (the number of iterations
    is shared), it survives up to `lam · precision²`;
  * `quadraticCvar_shift`, `qcvar_cash_per_column`: per-column cash invariance survives EXACTLY
    (no bracket hypothesis): the centred columns, hence the whole shared search, do not change;
  * `qcvar_tensor_mono`: monotonicity survives up to `lam · precision²`.
Not proved (out of reach without a statement about the shipped bracket on narrow columns, known
finding K2/K3): the value of an entry whose column violates the bracket hypothesis; a one-path
sample (`N = 1`) always does. -/

section QCVaR
open PfVerif.C04ERMAux PfVerif.C05QCVaRAux

theorem qcvar_tensor_shape (lam tol : ℝ) (precOf : List (List ℝ) → ℝ) (maxIter : ℕ) (d : ℤ)
    (t r : Tensor ℝ) (h : qcvarDim lam tol precOf maxIter d t = .ok r) :
    ∃ i, normDim t.shape.length d = .ok i ∧ i < t.shape.length ∧ r.shape = t.shape.eraseIdx i ∧
      quadraticCvar lam tol (precOf (columns i t.shape t.data)) maxIter (columns i t.shape t.data)
        = .ok r.data := by
  unfold qcvarDim at h
  cases hn : normDim t.shape.length d with
  | error e => rw [hn] at h; cases h
  | ok i =>
    rw [hn] at h
    simp only at h
    cases hq : quadraticCvar lam tol (precOf (columns i t.shape t.data)) maxIter
        (columns i t.shape t.data) with
    | error e => rw [hq] at h; cases h
    | ok vs =>
      rw [hq] at h
      injection h with h
      subst h
      exact ⟨i, rfl, normDim_lt hn, rfl, hq⟩

/-- `dim=None` flattens; the module is the functional form with `dim = 0` on `input - target` -/
theorem qcvar_forms (lam tol : ℝ) (precOf : List (List ℝ) → ℝ) (maxIter : ℕ) (x : Tensor ℝ)
    (tg : Target ℝ) :
    qcvarForm lam tol precOf maxIter none x = qcvarDim lam tol precOf maxIter 0 x.flatten ∧
    qcvarModule lam tol precOf maxIter x tg
      = match subTarget x tg with
        | .error e => .error e
        | .ok pl => qcvarForm lam tol precOf maxIter (some 0) pl := by
  refine ⟨rfl, ?_⟩
  unfold qcvarModule qcvarForm
  cases subTarget x tg <;> rfl

/-- **Value of every entry, with the shared precision.** -/
theorem qcvar_tensor_value (lam tol : ℝ) (precOf : List (List ℝ) → ℝ) (maxIter : ℕ)
    (pl r : Tensor ℝ) (N : ℕ) (tr : List ℕ) (hs : pl.shape = N :: tr) (hl : 0 < lam)
    (htol : 0 ≤ tol)
    (hbr : ∀ j, j < prodL tr →
      1 / (2 * lam) ≤ qTarget (qLower tol (centre (column0 N (prodL tr) pl.data j)))
        (centre (column0 N (prodL tr) pl.data j)))
    (hr : qcvarDim lam tol precOf maxIter 0 pl = .ok r) :
    r.shape = tr ∧ r.data.length = prodL tr ∧
    ∀ j (_ : j < prodL tr) (h2 : j < r.data.length),
      qcvarR lam (column0 N (prodL tr) pl.data j) ≤ r.data[j] ∧
      r.data[j] ≤ qcvarR lam (column0 N (prodL tr) pl.data j)
        + lam * (precOf (columns 0 pl.shape pl.data)) ^ 2 := by
  obtain ⟨i, hi, _, hsh, hq⟩ := qcvar_tensor_shape lam tol precOf maxIter 0 pl r hr
  have hi0 : i = 0 := by
    have : normDim pl.shape.length 0 = .ok 0 := by simp [normDim, hs]
    rw [this] at hi
    injection hi with hi
    exact hi.symm
  subst hi0
  have hcols : columns 0 pl.shape pl.data
      = (List.range (prodL tr)).map (column0 N (prodL tr) pl.data) := by
    rw [hs, columns_zero]
  obtain ⟨q1, q2⟩ := C05QCVaR.quadraticCvar_partial lam tol _ maxIter _ r.data hl htol
    (by
      intro c hc
      rw [hcols] at hc
      obtain ⟨j, hj, rfl⟩ := List.mem_map.1 hc
      exact hbr j (List.mem_range.1 hj)) hq
  have hlen : r.data.length = prodL tr := by rw [q1, hcols]; simp
  refine ⟨by rw [hsh, hs]; rfl, hlen, ?_⟩
  intro j hj h2
  have := q2 j (by rw [hcols]; simpa using hj) h2
  simpa [hcols] using this

/-- **Entry of a batch vs the column alone**: both are within `lam · precision²` above the
minimum over `w`, so they differ by at most that (they are NOT equal in general: the batch runs
as many iterations as its widest column needs). -/
theorem qcvar_entry_vs_alone (lam tol precision : ℝ) (maxIter maxIter' : ℕ) (cols : List (List ℝ))
    (vs : List ℝ) (j : ℕ) (hj : j < cols.length) (v : ℝ) (hl : 0 < lam) (htol : 0 ≤ tol)
    (hbr : ∀ c ∈ cols, 1 / (2 * lam) ≤ qTarget (qLower tol (centre c)) (centre c))
    (hok : quadraticCvar lam tol precision maxIter cols = .ok vs)
    (hone : quadraticCvar lam tol precision maxIter' [cols[j]] = .ok [v]) :
    ∃ h : j < vs.length, |vs[j] - v| ≤ lam * precision ^ 2 := by
  obtain ⟨q1, q2⟩ := C05QCVaR.quadraticCvar_partial lam tol precision maxIter cols vs hl htol hbr hok
  obtain ⟨w, hw, w1, w2⟩ := C05QCVaR.quadraticCvar_partial_single lam tol precision maxIter'
    cols[j] [v] hl htol (hbr _ (List.getElem_mem hj)) hone
  have hv : w = v := by simpa using hw.symm
  subst hv
  refine ⟨by omega, ?_⟩
  obtain ⟨a, b⟩ := q2 j hj (by omega)
  rw [abs_le]
  constructor <;> linarith

end QCVaR

end PfVerif.C05Tensor

namespace PfVerif.C04Tensor
open PfVerif PfVerif.CT PfVerif.C05TensorAux PfVerif.C05Tensor

/-! ## C04 on tensors: the axioms hold column by column -/

/-- **Cash invariance column by column, with one cash amount per column.**  For a criterion
that is cash-invariant on samples of `N` outcomes, a per-column target `c` (shape `(*)`) raises
entry `j` by exactly `c[j]`: `crit(input, c)[j] = crit(input)[j] + c[j]`. -/
theorem cash_per_column (crit : List ℝ → ℝ) (x c : Tensor ℝ) (N : ℕ) (tr : List ℕ)
    (hs : x.shape = N :: tr) (hcs : c.shape = tr) (hx : x.wf = true) (hc : c.wf = true)
    (hcash : ∀ col : List ℝ, col.length = N → ∀ a : ℝ,
      crit (col.map (fun v => v - a)) = crit col + a) :
    ∃ r0 : Tensor ℝ, moduleForward crit x (.number 0) = .ok r0 ∧ r0.shape = tr ∧
      r0.data.length = prodL tr ∧
      moduleForward crit x (.tensor c) = .ok ⟨tr, List.zipWith (fun v cj => v + cj) r0.data c.data⟩ := by
  have hx' := (wf_iff x).1 hx
  have hc' := (wf_iff c).1 hc
  rw [hs] at hx'
  rw [hcs] at hc'
  simp only [prodL] at hx'
  refine ⟨⟨tr, (columns 0 x.shape x.data).map crit⟩, ?_, rfl, ?_, ?_⟩
  · rw [moduleForward_number crit x 0 N tr hs hx]
    simp
  · simp [hs, columns_zero]
  · rw [moduleForward_column crit x c N tr hs hcs hx hc]
    congr 2
    simp only [hs, columns_zero]
    apply List.ext_getElem
    · simp
    · intro j h1 h2
      have hj : j < prodL tr := by
        simp only [List.length_zipWith, List.length_map, List.length_range] at h1; omega
      simp only [List.getElem_zipWith, List.getElem_map, List.getElem_range]
      exact hcash _ (column0_length hx' hj) _

/-- expected shortfall (`1 ≤ ⌈pN⌉ ≤ N`) -/
theorem es_cash_per_column (kOf : ℕ → ℕ) (x c : Tensor ℝ) (N : ℕ) (tr : List ℕ)
    (hs : x.shape = N :: tr) (hcs : c.shape = tr) (hx : x.wf = true) (hc : c.wf = true)
    (hk1 : 1 ≤ kOf N) (hk : kOf N ≤ N) :
    ∃ r0 : Tensor ℝ, moduleForward (esCol kOf) x (.number 0) = .ok r0 ∧ r0.shape = tr ∧
      r0.data.length = prodL tr ∧
      moduleForward (esCol kOf) x (.tensor c)
        = .ok ⟨tr, List.zipWith (fun v cj => v + cj) r0.data c.data⟩ :=
  cash_per_column _ x c N tr hs hcs hx hc (fun col hl a => by
    simp only [esCol, List.length_map, hl]
    rw [C05Aux.map_sub_eq_map_add_neg, C04ES.es_cash (-a) hk1 (by omega)]
    ring)

/-- entropic risk (`a ≠ 0`, `N ≥ 1`) -/
theorem erm_cash_per_column (a : ℝ) (ha : a ≠ 0) (x c : Tensor ℝ) (N : ℕ) (tr : List ℕ)
    (hs : x.shape = N :: tr) (hcs : c.shape = tr) (hx : x.wf = true) (hc : c.wf = true)
    (hN : 1 ≤ N) :
    ∃ r0 : Tensor ℝ, moduleForward (C04ERMAux.ermR a) x (.number 0) = .ok r0 ∧ r0.shape = tr ∧
      r0.data.length = prodL tr ∧
      moduleForward (C04ERMAux.ermR a) x (.tensor c)
        = .ok ⟨tr, List.zipWith (fun v cj => v + cj) r0.data c.data⟩ :=
  cash_per_column _ x c N tr hs hcs hx hc (fun col hl b => by
    rw [C05Aux.map_sub_eq_map_add_neg,
      C04ERM.erm_cash a ha col (by rintro rfl; simp at hl; omega) (-b)]
    ring)

/-- **Monotone column by column.**  For a criterion that is monotone on samples, an entrywise
better tensor (same shape `(N, *)`) has an entrywise lower (or equal) value. -/
theorem mono_per_column (crit : List ℝ → ℝ) (x y : Tensor ℝ) (N : ℕ) (tr : List ℕ)
    (hs : x.shape = N :: tr) (hys : y.shape = N :: tr) (hx : x.wf = true) (hy : y.wf = true)
    (hle : ∀ k (h1 : k < x.data.length) (h2 : k < y.data.length), x.data[k] ≤ y.data[k])
    (hmono : ∀ xs ys : List ℝ, List.Forall₂ (· ≤ ·) xs ys → crit ys ≤ crit xs) :
    ∃ rx ry : Tensor ℝ, reduceDim crit 0 x = .ok rx ∧ reduceDim crit 0 y = .ok ry ∧
      rx.shape = tr ∧ ry.shape = tr ∧ rx.data.length = prodL tr ∧ ry.data.length = prodL tr ∧
      ∀ j (h1 : j < rx.data.length) (h2 : j < ry.data.length), ry.data[j] ≤ rx.data[j] := by
  have hx' := (wf_iff x).1 hx
  have hy' := (wf_iff y).1 hy
  rw [hs] at hx'
  rw [hys] at hy'
  simp only [prodL] at hx' hy'
  refine ⟨_, _, reduceDim_zero_entries crit x N tr hs, reduceDim_zero_entries crit y N tr hys,
    rfl, rfl, by simp, by simp, ?_⟩
  intro j h1 h2
  have hj : j < prodL tr := by simpa using h1
  simp only [List.getElem_map, List.getElem_range]
  apply hmono
  have lx := column0_length hx' hj
  have ly := column0_length hy' hj
  apply List.forall₂_of_length_eq_of_get (by rw [lx, ly])
  intro i i1 i2
  have hi : i < N := by omega
  have b := index_lt hi hj
  rw [List.get_eq_getElem, List.get_eq_getElem,
    column0_getElem hx' hj hi i1 (by omega), column0_getElem hy' hj hi i2 (by omega)]
  exact hle _ _ _

/-- **Bounds column by column.**  Expected shortfall of column `j` lies between minus the best
and minus the worst outcome of THAT column, hence of the whole tensor, and is at least minus the
column's mean. -/
theorem es_tensor_bounds (kOf : ℕ → ℕ) (pl r : Tensor ℝ) (N : ℕ) (tr : List ℕ)
    (hs : pl.shape = N :: tr) (hwf : pl.wf = true) (hk1 : 1 ≤ kOf N) (hk : kOf N ≤ N)
    (hr : reduceDim (esCol kOf) 0 pl = .ok r) :
    ∀ j (_ : j < prodL tr) (h2 : j < r.data.length),
      (∀ M : ℝ, (∀ v ∈ column0 N (prodL tr) pl.data j, v ≤ M) → -M ≤ r.data[j]) ∧
      (∀ m : ℝ, (∀ v ∈ column0 N (prodL tr) pl.data j, m ≤ v) → r.data[j] ≤ -m) ∧
      (∀ M : ℝ, (∀ v ∈ pl.data, v ≤ M) → -M ≤ r.data[j]) ∧
      (∀ m : ℝ, (∀ v ∈ pl.data, m ≤ v) → r.data[j] ≤ -m) ∧
      -((column0 N (prodL tr) pl.data j).sum / (N : ℝ)) ≤ r.data[j] := by
  have hd := (wf_iff pl).1 hwf
  rw [hs] at hd
  simp only [prodL] at hd
  rw [reduceDim_zero_entries _ pl N tr hs] at hr
  injection hr with hr
  subst hr
  intro j hj h2
  have hl := column0_length hd hj
  simp only [List.getElem_map, List.getElem_range, esCol, hl]
  obtain ⟨b1, b2⟩ := C04ES.es_bounds (k := kOf N) (xs := column0 N (prodL tr) pl.data j) hk1
    (by omega)
  have b3 := C04ES.es_ge_neg_mean (k := kOf N) (xs := column0 N (prodL tr) pl.data j) hk1
    (by omega)
  rw [hl] at b3
  exact ⟨b1, b2, fun M hM => b1 M (fun v hv => hM v (mem_column0 hv)),
    fun m hm => b2 m (fun v hv => hm v (mem_column0 hv)), b3⟩

/-- the same for the entropic risk (`a > 0`, `N ≥ 1`) -/
theorem erm_tensor_bounds (a : ℝ) (ha : 0 < a) (pl r : Tensor ℝ) (N : ℕ) (tr : List ℕ)
    (hs : pl.shape = N :: tr) (hwf : pl.wf = true) (hN : 1 ≤ N)
    (hr : reduceDim (C04ERMAux.ermR a) 0 pl = .ok r) :
    ∀ j (_ : j < prodL tr) (h2 : j < r.data.length),
      (∀ M : ℝ, (∀ v ∈ column0 N (prodL tr) pl.data j, v ≤ M) → -M ≤ r.data[j]) ∧
      (∀ m : ℝ, (∀ v ∈ column0 N (prodL tr) pl.data j, m ≤ v) → r.data[j] ≤ -m) ∧
      (∀ M : ℝ, (∀ v ∈ pl.data, v ≤ M) → -M ≤ r.data[j]) ∧
      (∀ m : ℝ, (∀ v ∈ pl.data, m ≤ v) → r.data[j] ≤ -m) := by
  have hd := (wf_iff pl).1 hwf
  rw [hs] at hd
  simp only [prodL] at hd
  rw [reduceDim_zero_entries _ pl N tr hs] at hr
  injection hr with hr
  subst hr
  intro j hj h2
  have hl := column0_length hd hj
  simp only [List.getElem_map, List.getElem_range]
  obtain ⟨b1, b2⟩ := C04ERM.erm_bounds a ha (column0 N (prodL tr) pl.data j)
    (by intro h; rw [h] at hl; simp at hl; omega)
  exact ⟨b1, b2, fun M hM => b1 M (fun v hv => hM v (mem_column0 hv)),
    fun m hm => b2 m (fun v hv => hm v (mem_column0 hv))⟩

section QCVaR
open PfVerif.C04ERMAux PfVerif.C05QCVaRAux

/-- **Per-column cash invariance of the shipped algorithm, exactly.**  Lowering column `j` by
`cs[j]` leaves the centred columns — hence the brackets, the shared search and its errors —
unchanged and raises value `j` by exactly `cs[j]`.  No bracket hypothesis. -/
theorem quadraticCvar_shift (lam tol precision : ℝ) (maxIter : ℕ) (cols : List (List ℝ))
    (cs : List ℝ) (hlen : cs.length = cols.length) (hne : ∀ c ∈ cols, c ≠ []) :
    quadraticCvar lam tol precision maxIter
        (List.zipWith (fun col c => col.map (fun v => v - c)) cols cs)
      = match quadraticCvar lam tol precision maxIter cols with
        | .error e => .error e
        | .ok vs => .ok (List.zipWith (fun v c => v + c) vs cs) := by
  obtain ⟨a, b⟩ := shift_map_centre cols cs hlen hne
  have hk : (List.zipWith (fun col c => col.map (fun v => v - c)) cols cs).map
      (fun _ => (1 : ℝ) / (2 * lam)) = cols.map (fun _ => (1 : ℝ) / (2 * lam)) := by
    rw [List.map_const', List.map_const', b]
  rw [quadraticCvar_unfold, quadraticCvar_unfold, a, hk]
  cases bisect (fun ws => List.zipWith qTarget ws (cols.map centre))
      (cols.map (fun _ => (1 : ℝ) / (2 * lam))) ((cols.map centre).map (qLower tol))
      ((cols.map centre).map (qUpper tol)) precision maxIter with
  | error e => rfl
  | ok om =>
    simp only
    rw [zipWith_shift_base (fun wc => qObj lam wc.1 wc.2) cols _ cs hne]

/-- the same on tensors: a per-column target raises entry `j` of `QuadraticCVaR` by exactly
`c[j]` (given that the precision the caller derives is the same for both calls — in the code it
is a function of the centred columns, which are the same) -/
theorem qcvar_cash_per_column (lam tol : ℝ) (precOf : List (List ℝ) → ℝ) (maxIter : ℕ)
    (x c : Tensor ℝ) (N : ℕ) (tr : List ℕ) (hs : x.shape = N :: tr) (hcs : c.shape = tr)
    (hx : x.wf = true) (hc : c.wf = true) (hN : 1 ≤ N)
    (hprec : precOf (List.zipWith (fun col cj => col.map (fun v => v - cj))
        (columns 0 x.shape x.data) c.data) = precOf (columns 0 x.shape x.data)) :
    qcvarModule lam tol precOf maxIter x (.tensor c)
      = match qcvarModule lam tol precOf maxIter x (.number 0) with
        | .error e => .error e
        | .ok r0 => .ok ⟨tr, List.zipWith (fun v cj => v + cj) r0.data c.data⟩ := by
  have hx' := (wf_iff x).1 hx
  have hc' := (wf_iff c).1 hc
  rw [hs] at hx'
  rw [hcs] at hc'
  simp only [prodL] at hx'
  -- the columns of `input - c`
  have hcol := moduleForward_column (fun col => col) x c N tr hs hcs hx hc
  simp only [moduleForward, subTarget, broadcastSub_column x c N tr hs hcs hx hc] at hcol
  rw [reduceDim_zero (fun col => col) _ N tr rfl] at hcol
  injection hcol with hcol
  injection hcol with _ hcol
  simp only [List.map_id'] at hcol
  have hn : normDim (N :: tr).length 0 = .ok 0 := by simp [normDim]
  have hlen : c.data.length = (columns 0 x.shape x.data).length := by
    rw [hs, columns_zero]; simp [hc']
  have hne : ∀ col ∈ columns 0 x.shape x.data, col ≠ [] := by
    intro col hcol'
    rw [hs, columns_zero] at hcol'
    obtain ⟨j, hj, rfl⟩ := List.mem_map.1 hcol'
    intro hnil
    have := column0_length hx' (List.mem_range.1 hj)
    rw [hnil] at this
    simp at this
    omega
  simp only [qcvarModule, subTarget, broadcastSub_column x c N tr hs hcs hx hc]
  have h0' : (⟨x.shape, x.data.map (fun a => a - 0)⟩ : Tensor ℝ) = x := by simp
  rw [h0']
  simp only [qcvarDim, hs, hn, List.eraseIdx_cons_zero]
  rw [hs] at hcol hprec hlen hne
  rw [hcol, hprec, quadraticCvar_shift lam tol _ maxIter _ c.data hlen hne]
  cases quadraticCvar lam tol (precOf (columns 0 (N :: tr) x.data)) maxIter
      (columns 0 (N :: tr) x.data) <;> rfl

/-- **Monotone up to the shared precision.**  If `y` is entrywise at least `x` (same shape
`(N, *)`, bracket hypothesis for both), every entry of `quadratic_cvar(y)` is at most the entry
of `quadratic_cvar(x)` plus `lam · precision_y²`. -/
theorem qcvar_tensor_mono (lam tol : ℝ) (precOf : List (List ℝ) → ℝ) (maxIter : ℕ)
    (x y rx ry : Tensor ℝ) (N : ℕ) (tr : List ℕ) (hs : x.shape = N :: tr)
    (hys : y.shape = N :: tr) (hx : x.wf = true) (hy : y.wf = true) (hl : 0 < lam)
    (htol : 0 ≤ tol)
    (hle : ∀ k (h1 : k < x.data.length) (h2 : k < y.data.length), x.data[k] ≤ y.data[k])
    (hbx : ∀ j, j < prodL tr →
      1 / (2 * lam) ≤ qTarget (qLower tol (centre (column0 N (prodL tr) x.data j)))
        (centre (column0 N (prodL tr) x.data j)))
    (hby : ∀ j, j < prodL tr →
      1 / (2 * lam) ≤ qTarget (qLower tol (centre (column0 N (prodL tr) y.data j)))
        (centre (column0 N (prodL tr) y.data j)))
    (hrx : qcvarDim lam tol precOf maxIter 0 x = .ok rx)
    (hry : qcvarDim lam tol precOf maxIter 0 y = .ok ry) :
    ∀ j (_ : j < prodL tr) (h1 : j < rx.data.length) (h2 : j < ry.data.length),
      ry.data[j] ≤ rx.data[j] + lam * (precOf (columns 0 y.shape y.data)) ^ 2 := by
  obtain ⟨_, _, vx⟩ := qcvar_tensor_value lam tol precOf maxIter x rx N tr hs hl htol hbx hrx
  obtain ⟨_, _, vy⟩ := qcvar_tensor_value lam tol precOf maxIter y ry N tr hys hl htol hby hry
  obtain ⟨mx, my, e1, e2, _, _, _, _, hm⟩ := mono_per_column (qcvarR lam) x y N tr hs hys hx hy hle
    (fun xs ys h => C04ERM.qcvar_mono lam hl xs ys h)
  rw [reduceDim_zero_entries _ x N tr hs] at e1
  rw [reduceDim_zero_entries _ y N tr hys] at e2
  injection e1 with e1
  injection e2 with e2
  subst e1 e2
  intro j hj h1 h2
  have m := hm j (by simpa using hj) (by simpa using hj)
  simp only [List.getElem_map, List.getElem_range] at m
  have a := (vx j hj h1).1
  have b := (vy j hj h2).2
  linarith

end QCVaR

/-! ## 6. Non-vacuity: concrete tensors of shapes (2,3), (1,3), (3,1), (2,1,2)

`(fun c => c)` as the "criterion" shows the columns themselves. -/

section Examples

/-- (2,3) along dim 0: three columns of two paths, shape (3) -/
example : reduceDim (fun c : List ℤ => c) 0 ⟨[2, 3], [1, 2, 3, 4, 5, 6]⟩
    = .ok ⟨[3], [[1, 4], [2, 5], [3, 6]]⟩ := rfl

/-- (2,3) along dim 1 = dim -1: two samples of three, shape (2) -/
example : reduceDim (fun c : List ℤ => c) 1 ⟨[2, 3], [1, 2, 3, 4, 5, 6]⟩
      = .ok ⟨[2], [[1, 2, 3], [4, 5, 6]]⟩ ∧
    reduceDim (fun c : List ℤ => c) (-1) ⟨[2, 3], [1, 2, 3, 4, 5, 6]⟩
      = .ok ⟨[2], [[1, 2, 3], [4, 5, 6]]⟩ := ⟨rfl, rfl⟩

/-- (1,3): `N = 1`, three one-path columns, shape (3) — not a scalar -/
example : reduceDim (fun c : List ℤ => c) 0 ⟨[1, 3], [7, 8, 9]⟩ = .ok ⟨[3], [[7], [8], [9]]⟩ := rfl

/-- (3,1): ONE column of three paths, result of shape (1): the size-one trailing dimension stays
(`.squeeze()` would return shape ()) -/
example : reduceDim (fun c : List ℤ => c) 0 ⟨[3, 1], [7, 8, 9]⟩ = .ok ⟨[1], [[7, 8, 9]]⟩ := rfl

/-- (2,1,2): dim 0 removes the paths and keeps (1,2); dim 1 removes exactly the size-one
dimension; dim -1 the last; dim 3 and dim -4 raise -/
example :
    reduceDim (fun c : List ℤ => c) 0 ⟨[2, 1, 2], [1, 2, 3, 4]⟩ = .ok ⟨[1, 2], [[1, 3], [2, 4]]⟩ ∧
    reduceDim (fun c : List ℤ => c) 1 ⟨[2, 1, 2], [1, 2, 3, 4]⟩
      = .ok ⟨[2, 2], [[1], [2], [3], [4]]⟩ ∧
    reduceDim (fun c : List ℤ => c) (-1) ⟨[2, 1, 2], [1, 2, 3, 4]⟩
      = .ok ⟨[2, 1], [[1, 2], [3, 4]]⟩ ∧
    reduceDim (fun c : List ℤ => c) 3 ⟨[2, 1, 2], [1, 2, 3, 4]⟩ = .error .runtimeError ∧
    reduceDim (fun c : List ℤ => c) (-4) ⟨[2, 1, 2], [1, 2, 3, 4]⟩ = .error .runtimeError :=
  ⟨rfl, rfl, rfl, rfl, rfl⟩

/-- the hypotheses of `reduceDim_entry` (valid `dim`, well-formed tensor, a result) hold on
(2,1,2) along `dim = 1` and along `dim = -1` (normalised to 2), and on (3,1), (1,3) along 0 -/
example := reduceDim_entry (fun c : List ℤ => c) 1 ⟨[2, 1, 2], [1, 2, 3, 4]⟩ _ 1 rfl rfl rfl
example := reduceDim_entry (fun c : List ℤ => c) (-1) ⟨[2, 1, 2], [1, 2, 3, 4]⟩ _ 2 rfl rfl rfl
example := reduceDim_entry (fun c : List ℤ => c) 0 ⟨[3, 1], [7, 8, 9]⟩ _ 0 rfl rfl rfl
example := reduceDim_entry (fun c : List ℤ => c) 0 ⟨[1, 3], [7, 8, 9]⟩ _ 0 rfl rfl rfl

/-- `dim=None` on (2,1,2): one sample of all four entries, 0-dimensional -/
example : functionalForm (fun c : List ℤ => c) none ⟨[2, 1, 2], [1, 2, 3, 4]⟩
    = .ok ⟨[], [[1, 2, 3, 4]]⟩ := rfl

/-- the kinds of target on (2,3): number, 0-dim, per-column (3), row (1,3), per-path (2,1),
full (2,3); and shapes that do not broadcast — (2) against (2,3) — raise -/
example :
    subTarget (⟨[2, 3], [1, 2, 3, 4, 5, 6]⟩ : Tensor ℤ) (.number 1)
      = .ok ⟨[2, 3], [0, 1, 2, 3, 4, 5]⟩ ∧
    subTarget (⟨[2, 3], [1, 2, 3, 4, 5, 6]⟩ : Tensor ℤ) (.tensor ⟨[], [1]⟩)
      = .ok ⟨[2, 3], [0, 1, 2, 3, 4, 5]⟩ ∧
    subTarget (⟨[2, 3], [1, 2, 3, 4, 5, 6]⟩ : Tensor ℤ) (.tensor ⟨[3], [1, 2, 3]⟩)
      = .ok ⟨[2, 3], [0, 0, 0, 3, 3, 3]⟩ ∧
    subTarget (⟨[2, 3], [1, 2, 3, 4, 5, 6]⟩ : Tensor ℤ) (.tensor ⟨[1, 3], [1, 2, 3]⟩)
      = .ok ⟨[2, 3], [0, 0, 0, 3, 3, 3]⟩ ∧
    subTarget (⟨[2, 3], [1, 2, 3, 4, 5, 6]⟩ : Tensor ℤ) (.tensor ⟨[2, 1], [1, 4]⟩)
      = .ok ⟨[2, 3], [0, 1, 2, 0, 1, 2]⟩ ∧
    subTarget (⟨[2, 3], [1, 2, 3, 4, 5, 6]⟩ : Tensor ℤ) (.tensor ⟨[2, 3], [1, 1, 1, 2, 2, 2]⟩)
      = .ok ⟨[2, 3], [0, 1, 2, 2, 3, 4]⟩ ∧
    subTarget (⟨[2, 3], [1, 2, 3, 4, 5, 6]⟩ : Tensor ℤ) (.tensor ⟨[2], [1, 4]⟩)
      = .error .runtimeError :=
  ⟨rfl, rfl, rfl, rfl, rfl, rfl, rfl⟩

/-- a target may also enlarge the sample: (3,1) against a row (1,2) gives (3,2), two columns -/
example : moduleForward (fun c : List ℤ => c) ⟨[3, 1], [1, 2, 3]⟩ (.tensor ⟨[1, 2], [0, 10]⟩)
    = .ok ⟨[2], [[1, 2, 3], [-9, -8, -7]]⟩ := rfl

/-- per-path target on (2,1,2) (shape (2,1,1)): acts inside each of the two columns -/
example : moduleForward (fun c : List ℤ => c) ⟨[2, 1, 2], [1, 2, 3, 4]⟩
    (.tensor ⟨[2, 1, 1], [1, 3]⟩) = .ok ⟨[1, 2], [[0, 0], [1, 1]]⟩ := rfl

/-- **`p = 1` on a batch (2,3)** with a per-column target: `k = ⌈1·2⌉ = 2`; three values, one per
column — `-mean` of EACH column of `input - target`, not one scalar -/
example : moduleForward (esCol (fun n => n)) (⟨[2, 3], [1, 2, 3, 4, 5, 6]⟩ : Tensor ℝ)
    (.tensor ⟨[3], [1, 1, 2]⟩) = .ok ⟨[3], [-(3 / 2), -(5 / 2), -(5 / 2)]⟩ := by
  rw [moduleForward_column _ _ _ 2 [3] rfl rfl rfl rfl]
  have c : columns 0 [2, 3] [(1 : ℝ), 2, 3, 4, 5, 6] = [[1, 4], [2, 5], [3, 6]] := rfl
  have e1 := C04ES.es_full [(1 : ℝ) - 1, 4 - 1]
  have e2 := C04ES.es_full [(2 : ℝ) - 1, 5 - 1]
  have e3 := C04ES.es_full [(3 : ℝ) - 2, 6 - 2]
  simp only [List.length_cons, List.length_nil] at e1 e2 e3
  simp only [c, List.zipWith_cons_cons, List.zipWith_nil_right, List.map_cons, List.map_nil, esCol,
    List.length_cons, List.length_nil, e1, e2, e3]
  norm_num

/-- **`N = 1` on (1,3)** with a number target: every column is one path, the expected shortfall
(any level: `k = 1`) is minus that outcome of `input - target` — the target is not skipped -/
example : moduleForward (esCol (fun _ => 1)) (⟨[1, 3], [7, 8, 9]⟩ : Tensor ℝ) (.number 2)
    = .ok ⟨[3], [-5, -6, -7]⟩ := by
  rw [moduleForward_number _ _ _ 1 [3] rfl rfl]
  have c : columns 0 [1, 3] [(7 : ℝ), 8, 9] = [[7], [8], [9]] := rfl
  have e1 := C04ES.es_full [(7 : ℝ) - 2]
  have e2 := C04ES.es_full [(8 : ℝ) - 2]
  have e3 := C04ES.es_full [(9 : ℝ) - 2]
  simp only [List.length_cons, List.length_nil] at e1 e2 e3
  simp only [c, List.map_cons, List.map_nil, esCol, e1, e2, e3]
  norm_num

/-- the hypotheses of the per-column theorems hold on (2,3) with a (3) target at `p = 1` … -/
example := es_cash_per_column (fun n => n) (⟨[2, 3], [1, 2, 3, 4, 5, 6]⟩ : Tensor ℝ)
  ⟨[3], [1, 1, 2]⟩ 2 [3] rfl rfl rfl rfl (by norm_num) (by norm_num)

/-- … on (1,3), `N = 1` … -/
example := es_cash_per_column (fun _ => 1) (⟨[1, 3], [7, 8, 9]⟩ : Tensor ℝ)
  ⟨[3], [1, 1, 2]⟩ 1 [3] rfl rfl rfl rfl (by norm_num) (by norm_num)

/-- … on (3,1) with a (1) target and on (2,1,2) with a (1,2) target (entropic risk) -/
example := erm_cash_per_column 2 (by norm_num) (⟨[3, 1], [7, 8, 9]⟩ : Tensor ℝ)
  ⟨[1], [5]⟩ 3 [1] rfl rfl rfl rfl (by norm_num)

example := erm_cash_per_column 2 (by norm_num) (⟨[2, 1, 2], [1, 2, 3, 4]⟩ : Tensor ℝ)
  ⟨[1, 2], [5, 6]⟩ 2 [1, 2] rfl rfl rfl rfl (by norm_num)

/-- quadratic CVaR on the tensor (2,2) with columns `[0,2]`, `[0,2]` (`lam = 1`, `tol = 0`):
the bracket hypothesis holds for both columns (C05QCVaR `quadraticCvar_bracket_defect`), so
`qcvar_tensor_value` applies to whatever the shared search returns -/
example (precOf : List (List ℝ) → ℝ) (maxIter : ℕ) (r : Tensor ℝ)
    (hr : qcvarDim 1 0 precOf maxIter 0 ⟨[2, 2], [0, 0, 2, 2]⟩ = .ok r) :
    r.shape = [2] ∧ r.data.length = 2 :=
  let h := qcvar_tensor_value 1 0 precOf maxIter ⟨[2, 2], [0, 0, 2, 2]⟩ r 2 [2] rfl (by norm_num)
    le_rfl (by
      intro j hj
      have hc : column0 2 (prodL [2]) [(0 : ℝ), 0, 2, 2] j = [0, 2] := by
        have : j < 2 := hj
        interval_cases j <;> rfl
      rw [hc]
      exact C05QCVaR.quadraticCvar_bracket_defect.2.2.2.2) hr
  ⟨h.1, h.2.1⟩

end Examples

end PfVerif.C04Tensor
