/-
  C05 (quadratic CVaR, partial statement) — what the SHIPPED `quadratic_cvar`
  (`Model/Risk.lean: quadraticCvar`) returns on the inputs where its bisection bracket contains
  the root of the stationarity equation `mean(relu(-w - x)) = 1/(2 lam)`.

  The shipped code centres every column `c` by its mean (`c' = c - mean c`), brackets the root by
  `[min(-c') - tol, max(-c') + tol]`, runs the shared element-wise `bisect` on
  `w ↦ qTarget w c'` with target `1/(2 lam)` and returns `qObj lam ω c' - mean c`.

  Known defect (findings K2/K3, F6): when `max c - mean c + tol < 1/(2 lam)` the lower end of the
  bracket lies above the root, the bisection converges to the lower end and the returned value is
  NOT the minimum over `w`.  The theorem `quadraticCvar_partial` below is the `_partial`
  statement that EXCLUDES those inputs by the explicit bracket hypothesis
      `1/(2 lam) ≤ qTarget (min(-c') - tol) c'`      for every column,
  and `quadraticCvar_bracket_defect` shows that this hypothesis is neither vacuous nor always
  true.

  Contents (all over ℝ):
    * `qTarget_antitone`, `qTarget_lipschitz`, `qTarget_continuous`
    * `qObj_near_stationary` : `qObj r ≤ qObj w ≤ qObj r + lam (w - r)²` at a stationary `r`
    * `quadraticCvar_partial_single`, `quadraticCvar_partial` : on the bracketed inputs the
      shipped algorithm returns the infimum over `w` up to `lam · precision²`
    * `quadraticCvar_bracket_defect`

  Helpers live in `PfVerif.C05QCVaRAux`, the property theorems in `PfVerif.C05QCVaR`.
-/
import PfVerif.Model.Risk
import PfVerif.Lemmas.C04ERM
import PfVerif.Props.C19

namespace PfVerif.C05QCVaRAux
open PfVerif PfVerif.C04ERMAux PfVerif.C04ERM

/-! ### the pieces of `quadraticCvar`, named -/

/-- the centred column `c - mean c` (as the code: `input - base`) -/
noncomputable def centre (c : List ℝ) : List ℝ := c.map (fun x => x - meanR c)

/-- lower end of the shipped bracket on a centred column: `min(-c') - tol` (`0` on an empty
column, as in the model) -/
noncomputable def qLower (tol : ℝ) (c' : List ℝ) : ℝ :=
  match c'.map (fun x => -x) with
  | [] => 0
  | y :: ys => minL y ys - tol

/-- upper end of the shipped bracket on a centred column: `max(-c') + tol` -/
noncomputable def qUpper (tol : ℝ) (c' : List ℝ) : ℝ :=
  match c'.map (fun x => -x) with
  | [] => 0
  | y :: ys => maxL y ys + tol

theorem getD_eq {β : Type} (l : List β) (d : β) (i : ℕ) (h : i < l.length) :
    l.getD i d = l[i] := by
  simp [List.getD_eq_getElem?_getD, List.getElem?_eq_getElem h]

theorem zipWith_map_self {β γ δ : Type} (g : β → γ → δ) (h : β → γ) (l : List β) :
    List.zipWith g l (l.map h) = l.map (fun a => g a (h a)) := by
  induction l with
  | nil => rfl
  | cons a l ih => simp [ih]

/-- the model's `lowers` in terms of `qLower` (the pattern match of the model is passed as `F`
so that the statement does not depend on the name of the compiled matcher) -/
theorem lowers_eq (tol : ℝ) (F : List ℝ → ℝ)
    (hF : ∀ c : List ℝ, F c = match c with
      | [] => (0 : ℝ)
      | y :: ys => minL y ys - tol) (cen : List (List ℝ)) :
    (cen.map (fun c => c.map (fun x => -x))).map F = cen.map (qLower tol) := by
  rw [List.map_map]
  apply List.map_congr_left
  intro c _
  simp only [Function.comp, hF]
  rfl

theorem uppers_eq (tol : ℝ) (F : List ℝ → ℝ)
    (hF : ∀ c : List ℝ, F c = match c with
      | [] => (0 : ℝ)
      | y :: ys => maxL y ys + tol) (cen : List (List ℝ)) :
    (cen.map (fun c => c.map (fun x => -x))).map F = cen.map (qUpper tol) := by
  rw [List.map_map]
  apply List.map_congr_left
  intro c _
  simp only [Function.comp, hF]
  rfl

/-- `quadraticCvar` in terms of `centre`, `qLower`, `qUpper` -/
theorem quadraticCvar_unfold (lam tol precision : ℝ) (maxIter : ℕ) (cols : List (List ℝ)) :
    quadraticCvar lam tol precision maxIter cols =
      match bisect (fun ws => List.zipWith qTarget ws (cols.map centre))
          (cols.map (fun _ => (1 : ℝ) / (2 * lam)))
          ((cols.map centre).map (qLower tol)) ((cols.map centre).map (qUpper tol))
          precision maxIter with
      | .error e => .error e
      | .ok omegas =>
        .ok (List.zipWith (fun wc b => qObj lam wc.1 wc.2 - b)
          (List.zip omegas (cols.map centre)) (cols.map meanR)) := by
  have hz : List.zipWith (fun (c : List ℝ) b => c.map (fun x => x - b)) cols (cols.map meanR)
      = cols.map centre := zipWith_map_self _ _ _
  unfold quadraticCvar
  simp only [hz]
  rw [lowers_eq tol _ (fun c => by cases c <;> rfl), uppers_eq tol _ (fun c => by cases c <;> rfl)]
  generalize bisect _ _ _ _ precision maxIter = X
  cases X <;> rfl

/-- `∑ (f x + a g x + b) = ∑ f + a ∑ g + N b` -/
theorem sum_affine (xs : List ℝ) (f g : ℝ → ℝ) (a b : ℝ) :
    (xs.map (fun x => f x + a * g x + b)).sum
      = (xs.map f).sum + a * (xs.map g).sum + xs.length * b := by
  induction xs with
  | nil => simp
  | cons x xs ih =>
    simp only [List.map_cons, List.sum_cons, List.length_cons, ih]
    push_cast
    ring

/-- `relu` is antitone in `w` along `w ↦ relu(-w - x)` -/
theorem relu_antitone {w w' : ℝ} (h : w ≤ w') (x : ℝ) : max (-w' - x) 0 ≤ max (-w - x) 0 :=
  max_le_max (by linarith) le_rfl

/-- `relu` is 1-Lipschitz along `w ↦ relu(-w - x)` (one side) -/
theorem relu_lip (w w' x : ℝ) : max (-w - x) 0 ≤ max (-w' - x) 0 + |w - w'| := by
  have h1 : -w' - x ≤ max (-w' - x) 0 := le_max_left _ _
  have h2 : (0 : ℝ) ≤ max (-w' - x) 0 := le_max_right _ _
  have h3 : -(w - w') ≤ |w - w'| := neg_le_abs _
  have h4 : 0 ≤ |w - w'| := abs_nonneg _
  apply max_le <;> linarith

/-- second-order upper bound for `r ↦ (max r 0)²`:
`(u - d)₊² ≤ u₊² - 2 u₊ d + d²` -/
theorem sqp_upper (u d : ℝ) : sqp (u - d) ≤ sqp u - 2 * max u 0 * d + d ^ 2 := by
  unfold sqp
  have a1 : u ≤ max u 0 := le_max_left _ _
  have a2 : (0 : ℝ) ≤ max u 0 := le_max_right _ _
  rcases le_total (u - d) 0 with h | h
  · rw [max_eq_right h]
    nlinarith [sq_nonneg (max u 0 - d)]
  · rw [max_eq_left h]
    have h1 : 0 ≤ max u 0 - u := by linarith
    have h2 : 0 ≤ max u 0 + u - 2 * d := by linarith
    nlinarith [mul_nonneg h1 h2]

theorem qTarget_nil (w : ℝ) : qTarget w [] = 0 := by
  simp [qTarget_eq]

theorem centre_ne_nil {c : List ℝ} (h : c ≠ []) : centre c ≠ [] := by
  simpa [centre] using h

/-- at the upper end of the shipped bracket the target function vanishes (needs `0 ≤ tol`) -/
theorem qTarget_upper (tol : ℝ) (htol : 0 ≤ tol) (c' : List ℝ) :
    qTarget (qUpper tol c') c' = 0 := by
  cases c' with
  | nil => exact qTarget_nil _
  | cons x t =>
    have hU : qUpper tol (x :: t) = maxL (-x) (t.map (fun y => -y)) + tol := rfl
    rw [hU, qTarget_eq]
    have hz : ((x :: t).map
        (fun y => max (-(maxL (-x) (t.map (fun y => -y)) + tol) - y) 0)).sum = 0 := by
      apply List.sum_eq_zero
      intro z hz
      obtain ⟨y, hy, rfl⟩ := List.mem_map.1 hz
      have hmem : -y ∈ (-x) :: t.map (fun y => -y) := by
        rcases List.mem_cons.1 hy with rfl | hy
        · exact List.mem_cons_self
        · exact List.mem_cons_of_mem _ (List.mem_map.2 ⟨y, hy, rfl⟩)
      have := PfVerif.C19Aux.maxL_ge (-x) (t.map (fun y => -y)) (-y) hmem
      exact max_eq_right (by linarith)
    rw [hz]; simp

/-- `fn ws = zipWith qTarget ws cen` acts element-wise -/
theorem fn_elementwise (cen : List (List ℝ)) :
    ∀ xs : List ℝ, xs.length = cen.length →
      (List.zipWith qTarget xs cen).length = cen.length ∧
      ∀ i (h' : i < xs.length) (h'' : i < (List.zipWith qTarget xs cen).length),
        (List.zipWith qTarget xs cen)[i] = qTarget xs[i] (cen.getD i []) := by
  intro xs hxs
  refine ⟨by simp [hxs], ?_⟩
  intro i h' h''
  have hi : i < cen.length := by omega
  rw [List.getElem_zipWith, getD_eq _ _ _ hi]

end PfVerif.C05QCVaRAux

namespace PfVerif.C05QCVaR
open PfVerif PfVerif.C04ERMAux PfVerif.C04ERM PfVerif.C05QCVaRAux

/-! ### 1. the target function `w ↦ mean(relu(-w - x))` -/

/-- the target function is antitone in `w` (any sample, also the empty one) -/
theorem qTarget_antitone (xs : List ℝ) {w w' : ℝ} (h : w ≤ w') :
    qTarget w' xs ≤ qTarget w xs := by
  rw [qTarget_eq, qTarget_eq]
  apply div_le_div_of_nonneg_right _ (Nat.cast_nonneg (α := ℝ) xs.length)
  exact List.sum_le_sum fun x _ => relu_antitone h x

/-- one side of the Lipschitz bound -/
theorem qTarget_lip_aux (xs : List ℝ) (w w' : ℝ) :
    qTarget w xs ≤ qTarget w' xs + |w - w'| := by
  by_cases hxs : xs = []
  · subst hxs; simp [qTarget_nil]
  have hN := length_pos_real xs hxs
  rw [qTarget_eq, qTarget_eq]
  have hle : (xs.map (fun x => max (-w - x) 0)).sum
      ≤ (xs.map (fun x => max (-w' - x) 0 + 0 * 0 + |w - w'|)).sum :=
    List.sum_le_sum fun x _ => by simpa using relu_lip w w' x
  rw [sum_affine] at hle
  rw [div_le_iff₀ hN, add_mul, div_mul_cancel₀ _ hN.ne']
  simp only [zero_mul, add_zero] at hle
  linarith

/-- the target function is 1-Lipschitz in `w` (any sample, also the empty one) -/
theorem qTarget_lipschitz (xs : List ℝ) (w w' : ℝ) :
    |qTarget w xs - qTarget w' xs| ≤ |w - w'| := by
  have h1 := qTarget_lip_aux xs w w'
  have h2 := qTarget_lip_aux xs w' w
  rw [abs_sub_comm w' w] at h2
  exact abs_sub_le_iff.2 ⟨by linarith, by linarith⟩

/-- the target function is continuous in `w` -/
theorem qTarget_continuous (xs : List ℝ) : Continuous fun w : ℝ => qTarget w xs := by
  simp only [qTarget_eq]
  apply Continuous.div_const
  apply continuous_list_sum
  intro x _
  fun_prop

/-! ### 2. the objective near a stationary point -/

/-- **Second-order sandwich at a stationary point.**  If `r` solves the equation the code
bisects, `mean(relu(-r - x)) = 1/(2 lam)`, then for every `w`
`qObj r ≤ qObj w ≤ qObj r + lam (w - r)²`.
(`xs ≠ []` is not a hypothesis: it follows from the stationarity equation since `0 < 1/(2 lam)`.) -/
theorem qObj_near_stationary (lam : ℝ) (hl : 0 < lam) (xs : List ℝ) (r : ℝ)
    (hr : qTarget r xs = 1 / (2 * lam)) (w : ℝ) :
    qObj lam r xs ≤ qObj lam w xs ∧ qObj lam w xs ≤ qObj lam r xs + lam * (w - r) ^ 2 := by
  refine ⟨qcvar_stationary_min lam hl xs r hr w, ?_⟩
  have hxs : xs ≠ [] := by
    rintro rfl
    have : (0 : ℝ) < 1 / (2 * lam) := by positivity
    rw [← hr, qTarget_nil] at this
    exact lt_irrefl _ this
  have hN := length_pos_real xs hxs
  rw [qTarget_eq] at hr
  rw [qObj_eq, qObj_eq]
  have hsum : (xs.map (fun x => sqp (-w - x))).sum
      ≤ (xs.map (fun x => sqp (-r - x) + (-(2 * (w - r))) * max (-r - x) 0 + (w - r) ^ 2)).sum := by
    apply List.sum_le_sum
    intro x _
    have := sqp_upper (-r - x) (w - r)
    have e : -r - x - (w - r) = -w - x := by ring
    rw [e] at this
    linarith
  rw [sum_affine] at hsum
  have hdiv := div_le_div_of_nonneg_right hsum hN.le
  have e1 : ((xs.map (fun x => sqp (-r - x))).sum
        + (-(2 * (w - r))) * (xs.map (fun x => max (-r - x) 0)).sum
        + (xs.length : ℝ) * (w - r) ^ 2) / (xs.length : ℝ)
      = (xs.map (fun x => sqp (-r - x))).sum / (xs.length : ℝ)
        + (-(2 * (w - r))) * ((xs.map (fun x => max (-r - x) 0)).sum / (xs.length : ℝ))
        + (w - r) ^ 2 := by
    field_simp
  rw [e1, hr] at hdiv
  have h3 := mul_le_mul_of_nonneg_left hdiv hl.le
  have e2 : lam * (-(2 * (w - r)) * (1 / (2 * lam))) = -(w - r) := by field_simp
  rw [mul_add, mul_add, e2] at h3
  linarith

/-! ### 3. the shipped algorithm on bracketed inputs -/

/-- value bound for one column, given the root delivered by the bisection -/
theorem column_value (lam : ℝ) (hl : 0 < lam) (c : List ℝ) (r ω precision : ℝ)
    (hr : qTarget r (centre c) = 1 / (2 * lam)) (h1 : r ≤ ω) (h2 : ω - r ≤ precision) :
    qcvarR lam c ≤ qObj lam ω (centre c) - meanR c ∧
    qObj lam ω (centre c) - meanR c ≤ qcvarR lam c + lam * precision ^ 2 := by
  have hc := qcvar_centred lam hl c (meanR c) r hr
  obtain ⟨a, b⟩ := qObj_near_stationary lam hl (centre c) r hr ω
  have hsq : (ω - r) ^ 2 ≤ precision ^ 2 := pow_le_pow_left₀ (by linarith) h2 2
  have := mul_le_mul_of_nonneg_left hsq hl.le
  change qObj lam r (centre c) - meanR c = qcvarR lam c at hc
  constructor <;> linarith

/-- **`quadratic_cvar` as shipped, on the inputs where its bracket contains the stationarity
root.**  Hypotheses: `0 < lam`, `0 ≤ tol` and, for every column `c` with centred column
`c' = c - mean c`, the *bracket hypothesis*
`1/(2 lam) ≤ qTarget (min(-c') - tol) c'` (`qLower tol c' = min(-c') - tol`);
this is exactly what fails in findings K2/K3 (`max c - mean c + tol < 1/(2 lam)`).
Non-emptiness of the columns is not a separate hypothesis: it follows from the bracket
hypothesis (`qTarget w [] = 0 < 1/(2 lam)`).  No hypothesis on `precision` or `maxIter`.
Conclusion: whenever the model returns `vs`, there is one value per column and each value is
the quadratic CVaR `⨅ w, qObj lam w c` of the (uncentred) column up to `lam · precision²`:
no `w` does better, and the returned `w` is optimal to second order in the precision. -/
theorem quadraticCvar_partial (lam tol precision : ℝ) (maxIter : ℕ) (cols : List (List ℝ))
    (vs : List ℝ) (hl : 0 < lam) (htol : 0 ≤ tol)
    (hbr : ∀ c ∈ cols, 1 / (2 * lam) ≤ qTarget (qLower tol (centre c)) (centre c))
    (hok : quadraticCvar lam tol precision maxIter cols = .ok vs) :
    vs.length = cols.length ∧
    ∀ i (h1 : i < cols.length) (h2 : i < vs.length),
      qcvarR lam cols[i] ≤ vs[i] ∧ vs[i] ≤ qcvarR lam cols[i] + lam * precision ^ 2 := by
  have hp : (0 : ℝ) < 1 / (2 * lam) := by positivity
  rw [quadraticCvar_unfold] at hok
  cases hb : bisect (fun ws => List.zipWith qTarget ws (cols.map centre))
      (cols.map (fun _ => (1 : ℝ) / (2 * lam)))
      ((cols.map centre).map (qLower tol)) ((cols.map centre).map (qUpper tol))
      precision maxIter with
  | error e => rw [hb] at hok; cases hok
  | ok om =>
    rw [hb] at hok
    injection hok with hok
    subst hok
    have hlt : allLt ((cols.map centre).map (qLower tol)) ((cols.map centre).map (qUpper tol))
        = true := by
      cases hlt : allLt ((cols.map centre).map (qLower tol)) ((cols.map centre).map (qUpper tol))
      · rw [PfVerif.C19.bisect_bad_bracket _ _ _ _ _ _ hlt] at hb; cases hb
      · rfl
    -- per-element facts at the two ends of the bracket
    have hlow : ∀ i (h1 : i < ((cols.map centre).map (qLower tol)).length),
        1 / (2 * lam) ≤ qTarget ((cols.map centre).map (qLower tol))[i]
          ((cols.map centre).getD i []) := by
      intro i h1
      have hi : i < cols.length := by simpa using h1
      rw [getD_eq _ _ _ (by simpa using hi)]
      simp only [List.getElem_map]
      exact hbr _ (List.getElem_mem hi)
    have hup : ∀ i (h2 : i < ((cols.map centre).map (qUpper tol)).length),
        qTarget ((cols.map centre).map (qUpper tol))[i] ((cols.map centre).getD i []) = 0 := by
      intro i h2
      have hi : i < cols.length := by simpa using h2
      rw [getD_eq _ _ _ (by simpa using hi)]
      simp only [List.getElem_map]
      exact qTarget_upper tol htol _
    obtain ⟨hr, hres⟩ := PfVerif.C19.bisect_decreasing_spec (cols.map centre).length
      (fun i w => qTarget w ((cols.map centre).getD i []))
      (fun ws => List.zipWith qTarget ws (cols.map centre))
      (cols.map (fun _ => (1 : ℝ) / (2 * lam)))
      ((cols.map centre).map (qLower tol)) ((cols.map centre).map (qUpper tol))
      precision maxIter om (by simp) (by simp) (by simp)
      (fn_elementwise (cols.map centre))
      (fun i _ _ => (qTarget_continuous _).continuousOn)
      hlt
      (fun i h1 h2 => by
        show qTarget _ _ < qTarget _ _
        rw [hup i h2]; exact lt_of_lt_of_le hp (hlow i h1))
      (fun i h1 h2 h3 => by
        show qTarget _ _ ≤ _ ∧ _ ≤ qTarget _ _
        rw [hup i h2, List.getElem_map]
        exact ⟨hp.le, hlow i h1⟩)
      hb
    have hr' : om.length = cols.length := by simpa using hr
    refine ⟨by simp [hr'], ?_⟩
    intro i h1 h2
    obtain ⟨r, _, r2, _, r4, r5⟩ := hres i (by simpa using h1) (by simpa using h1)
      (by simpa using h1) (by omega)
    rw [List.getElem_map, getD_eq _ _ _ (by simpa using h1), List.getElem_map] at r4
    simp only [List.getElem_zipWith, List.getElem_zip, List.getElem_map]
    exact column_value lam hl cols[i] r om[i] precision r4 r2 r5

/-- **The upper end of the shipped bracket is always on the right side of the root**:
`qTarget (max(-c') + tol) c' = 0 < 1/(2 lam)` for every column (`0 ≤ tol`, `0 < lam`), so only
the lower end needs a hypothesis. -/
theorem qTarget_bracket_upper (lam tol : ℝ) (hl : 0 < lam) (htol : 0 ≤ tol) (c' : List ℝ) :
    qTarget (qUpper tol c') c' = 0 ∧ qTarget (qUpper tol c') c' < 1 / (2 * lam) := by
  have h := qTarget_upper tol htol c'
  refine ⟨h, ?_⟩
  rw [h]; positivity

/-- the single-column case `cols = [c]` -/
theorem quadraticCvar_partial_single (lam tol precision : ℝ) (maxIter : ℕ) (c : List ℝ)
    (vs : List ℝ) (hl : 0 < lam) (htol : 0 ≤ tol)
    (hbr : 1 / (2 * lam) ≤ qTarget (qLower tol (centre c)) (centre c))
    (hok : quadraticCvar lam tol precision maxIter [c] = .ok vs) :
    ∃ v, vs = [v] ∧ qcvarR lam c ≤ v ∧ v ≤ qcvarR lam c + lam * precision ^ 2 := by
  obtain ⟨hlen, h⟩ := quadraticCvar_partial lam tol precision maxIter [c] vs hl htol
    (by simpa using hbr) hok
  match vs, hlen with
  | [v], _ => exact ⟨v, rfl, by simpa using h 0 (by simp) (by simp)⟩

/-! ### 4. the bracket hypothesis is neither vacuous nor automatic -/

/-- **Finding K2 as a witness.**  For `c = [3/2]`, `lam = 2`, `tol = 0` the bracket hypothesis
FAILS (`qTarget (min(-c')) c' = 0 < 1/4`); for `c = [0, 2]`, `lam = 1`, `tol = 0` it HOLDS
(`qTarget (-1) [-1, 1] = 1 ≥ 1/2`). -/
theorem quadraticCvar_bracket_defect :
    (qTarget (qLower 0 (centre [3 / 2])) (centre [3 / 2]) = 0 ∧ (0 : ℝ) < 1 / (2 * 2)) ∧
    (centre [0, 2] = [-1, 1] ∧ qLower 0 (centre [0, 2]) = -1 ∧
      qTarget (qLower 0 (centre [0, 2])) (centre [0, 2]) = 1 ∧
      (1 : ℝ) / (2 * 1) ≤ qTarget (qLower 0 (centre [0, 2])) (centre [0, 2])) := by
  have c1 : centre [3 / 2] = [0] := by
    simp [centre, meanR, sumL]
  have l1 : qLower 0 [0] = 0 := by
    simp [qLower, minL]
  have c2 : centre [0, 2] = [-1, 1] := by
    simp [centre, meanR, sumL]
    norm_num
  have l2 : qLower 0 [-1, 1] = -1 := by
    simp [qLower, minL]
  have t2 : qTarget (-1 : ℝ) [-1, 1] = 1 := by
    rw [qTarget_eq]
    simp
  refine ⟨⟨?_, by norm_num⟩, c2, ?_, ?_, ?_⟩
  · rw [c1, l1, qTarget_eq]; simp
  · rw [c2, l2]
  · rw [c2, l2, t2]
  · rw [c2, l2, t2]; norm_num

/-- non-vacuity of `quadraticCvar_partial`: on `c = [0, 2]`, `lam = 1`, `tol = 0` (bracket
hypothesis holds, see above) with `precision = 1/2` the model returns after two iterations, here
with the exact quadratic CVaR `-1/2` -/
example : quadraticCvar (1 : ℝ) 0 (1 / 2) 10 [[0, 2]] = .ok [-1 / 2] := by
  norm_num [quadraticCvar, bisect, allLt, bisectLoop, maxWidth, maxL, minL, bisectStep, qTarget,
    qObj, meanR, sumL, reluS]

end PfVerif.C05QCVaR
