/-
  C14 — loss gradients through the hedger, for `H ≥ 1` hedging instruments and further criteria.

  Props/C14.lean proves that the ε-part of the scalar-generic model evaluated at dual numbers is
  the derivative of the loss (features → module with the recurrent prev_hedge → positions →
  transaction costs → P&L → criterion) for ONE hedging instrument (`C14Aux.pathPL`) and the
  criteria mean / mse / entropic risk / expected shortfall / entropic loss.  This file does the
  same for the Hedger-level composition `hedgerPL` (Model/HedgerPL.lean) with `H ≥ 1` instruments
  — primary ones and listed `a·S + b` ones, each with its own cost rate — and for `lossOfH`
  (Model/Loss.lean: `hedgerPL` on every path, then a criterion), which is what the driver op
  "grad_h" executes at `Dual Float`.  The criterion is a general tracking pair (`CritTracks`: a dual
  evaluation and a real evaluation that may itself depend on the parameter); instances: all
  criteria of `CritH` (the five above, the isoelastic loss on positive wealth, OCE with a
  differentiable utility — derivative with respect to a model parameter AND to its own `w`).

  Generic points.  `PathGenericH`: for every instrument WITH A NON-ZERO COST RATE no position
  change at a kink of `|·|`, and no zero initial position when the initial cost is charged (for
  zero cost rates there is no condition: `c·|x|` is `0`).  `CritHGeneric`: no tie at the cut of the
  expected shortfall; positive wealth for the isoelastic loss.

  Layout: helper lemmas in `PfVerif.C14MultiAux`; property theorems in `PfVerif.C14Multi`:
    transposeHT_dual_correct, plPath_dual_correct_costaware, hedgerPL_dual_correct,
      hedgerPortfolio_dual_correct — one path, `H` instruments
    pow/iso/oce/utility/applyCritH `_dual_correct` — criteria
    lossH_tracks, lossH_gradient, lossH_error_agree, lossH_gradient_crit, lossH_gradient_w,
      lossH_gradient_mlp — the whole chain (`HasDerivAt` form)
    pathGenericH_of_pathGeneric, lossOfH_one_eq_lossOf, lossH_gradient_one — `H = 1` is Props/C14
    envelope_deriv, relu_sq_dual_correct, qObj_fixed_omega_dual_correct, qcvar_envelope(_stationary)
      — quadratic CVaR: pfhedge back-propagates through the objective at the bisection's `ω` held
      fixed; the envelope lemma says this is the derivative of the optimised objective
    example_* and `example`s — non-vacuity (two instruments, recurrent module, non-zero costs)
-/
import PfVerif.Props.C14
import PfVerif.Lemmas.C01Hedger
import PfVerif.Lemmas.C01HedgerC14
import PfVerif.Model.Loss
import Mathlib.Analysis.Calculus.Deriv.Prod
import Mathlib.Analysis.Calculus.LocalExtr.Basic
import Mathlib.Analysis.Asymptotics.Lemmas

namespace PfVerif.C14MultiAux
open PfVerif PfVerif.C14Aux Topology

variable {θ : ℝ}


/-! ### the generic constants of Model/Loss.lean at `ℝ` are the `lift`s of Props/C14 -/

theorem const_eq_lift : (Dual.const : ℝ → Dual ℝ) = lift := rfl

theorem liftMarket_eq (m : Market ℝ) : Dual.liftMarket m = liftMkt m := rfl

theorem liftBase_eq (b : BaseFeature ℝ) : Dual.liftBase b = liftBase b := by cases b <;> rfl

/-! ### payoff and clauses of a parameter-independent path are constants -/

theorem reluS_lift (x : ℝ) : reluS (lift x) = lift (reluS x) := by
  unfold reluS
  by_cases h : (0 : ℝ) ≤ x
  · rw [if_pos h, if_pos (show (0 : Dual ℝ) ≤ lift x from h)]
  · rw [if_neg h, if_neg (show ¬ (0 : Dual ℝ) ≤ lift x from h)]; rfl

theorem indS_lift (b : Bool) : (indS b : Dual ℝ) = lift (indS b) := by cases b <;> rfl

theorem decide_lift_le (a b : ℝ) : decide (lift a ≤ lift b) = decide (a ≤ b) := by
  simp only [decide_eq_decide]; exact Iff.rfl

theorem europeanPayoff_lift (call : Bool) (k : ℝ) (xs : List ℝ) :
    europeanPayoff call (lift k) (xs.map lift) = Except.map lift (europeanPayoff call k xs) := by
  unfold europeanPayoff
  rw [lastL_map]
  cases lastL xs with
  | none => rfl
  | some s => cases call <;> simp [Except.map, reluS_lift]

theorem lookbackPayoff_lift (call : Bool) (k : ℝ) (xs : List ℝ) :
    lookbackPayoff call (lift k) (xs.map lift) = Except.map lift (lookbackPayoff call k xs) := by
  cases xs with
  | nil => rfl
  | cons x xs => cases call <;> simp [lookbackPayoff, Except.map, reluS_lift, maxL_lift, minL_lift]

theorem americanBinaryPayoff_lift (call : Bool) (k : ℝ) (xs : List ℝ) :
    americanBinaryPayoff call (lift k) (xs.map lift)
      = Except.map lift (americanBinaryPayoff call k xs) := by
  cases xs with
  | nil => rfl
  | cons x xs =>
    cases call <;>
      simp only [americanBinaryPayoff, List.map_cons, Except.map, maxL_lift, minL_lift,
        decide_lift_le, indS_lift, Bool.false_eq_true, if_false, if_true]

theorem europeanBinaryPayoff_lift (call : Bool) (k : ℝ) (xs : List ℝ) :
    europeanBinaryPayoff call (lift k) (xs.map lift)
      = Except.map lift (europeanBinaryPayoff call k xs) := by
  unfold europeanBinaryPayoff
  rw [lastL_map]
  cases lastL xs with
  | none => rfl
  | some s =>
    cases call <;>
      simp only [Option.map_some, Except.map, decide_lift_le, indS_lift, Bool.false_eq_true,
        if_false, if_true]

theorem payoffEval_lift (p : PayoffSpec ℝ) (xs : List ℝ) :
    (Dual.liftSpec p).eval (xs.map lift) = Except.map lift (p.eval xs) := by
  obtain ⟨kind, call, k⟩ := p
  cases kind <;> simp only [Dual.liftSpec, PayoffSpec.eval, const_eq_lift]
  · exact europeanPayoff_lift call k xs
  · exact lookbackPayoff_lift call k xs
  · exact americanBinaryPayoff_lift call k xs
  · exact europeanBinaryPayoff_lift call k xs

theorem clauseApply_lift (c : Clause ℝ) (x : ℝ) :
    (Dual.liftClause c).apply (lift x) = lift (c.apply x) := by
  cases c <;> simp [Dual.liftClause, Clause.apply, const_eq_lift]

theorem applyClauses_lift (reg : List (String × Clause ℝ)) (x : ℝ) :
    applyClauses ((Dual.liftReg reg).map (fun c => (c.1, c.2.apply))) (lift x)
      = lift (applyClauses (reg.map (fun c => (c.1, c.2.apply))) x) := by
  unfold applyClauses Dual.liftReg
  induction reg generalizing x with
  | nil => rfl
  | cons c reg ih =>
    simp only [List.map_cons, List.foldl_cons, clauseApply_lift]
    exact ih _

theorem derivPayoff_lift (p : PayoffSpec ℝ) (reg : List (String × Clause ℝ)) (xs : List ℝ) :
    derivPayoff (Dual.liftSpec p) (Dual.liftReg reg) (xs.map lift)
      = Except.map lift (derivPayoff p reg xs) := by
  unfold derivPayoff
  rw [payoffEval_lift]
  cases p.eval xs with
  | error e => rfl
  | ok z =>
    simp only [Except.map, bind, Except.bind, pure, Except.pure, applyClauses_lift]



/-! ### prices of parameter-independent instruments are constants -/

theorem prices_lift (s : PriceSrc ℝ) : (Dual.liftSrc s).prices = s.prices.map lift := by
  cases s with
  | primary row => rfl
  | listed a b row =>
    simp only [Dual.liftSrc, PriceSrc.prices, const_eq_lift, List.map_map]
    apply List.map_congr_left
    intro s _
    simp

theorem instrPrices_lift (h : HedgeInstr ℝ) :
    (Dual.liftInstr h).src.prices = h.src.prices.map lift := prices_lift h.src

theorem stackPrices_lift (hs : List (HedgeInstr ℝ)) :
    stackPrices (hs.map Dual.liftInstr)
      = Except.map (List.map (List.map lift)) (stackPrices hs) := by
  cases hs with
  | nil => rfl
  | cons h rest =>
    simp only [List.map_cons, stackPrices, List.all_map, Function.comp_def, instrPrices_lift,
      List.length_map]
    split_ifs
    · simp [Except.map, instrPrices_lift, Function.comp_def]
    · rfl

theorem nSteps_lift (ps : List (List ℝ)) : nSteps (ps.map (List.map lift)) = nSteps ps := by
  cases ps <;> simp [nSteps]

/-! ### transposition: columns with a default -/

section cols
variable {β : Type}

/-- column `j` of a list of rows (default `d` where a row is too short) -/
def colD (d : β) (j : ℕ) (rows : List (List β)) : List β := rows.map (fun r => r.getD j d)

/-- the first `H` columns -/
def colsD (d : β) (H : ℕ) (rows : List (List β)) : List (List β) :=
  (List.range' 0 H).map (fun j => colD d j rows)

theorem colAt_eq_colD (d : β) (k : ℕ) (rows : List (List β)) (h : ∀ r ∈ rows, k < r.length) :
    colAt k rows = .ok (colD d k rows) := by
  induction rows with
  | nil => rfl
  | cons r rest ih =>
    have hk : k < r.length := h r (by simp)
    have ih' := ih (fun r' hr' => h r' (by simp [hr']))
    simp only [colAt, idx, List.getElem?_eq_getElem hk, ih', colD, List.map_cons,
      List.getD_eq_getElem?_getD, Option.getD_some]
    rfl

theorem colsFrom_eq_colD (d : β) (rows : List (List β)) (H : ℕ) (hr : ∀ r ∈ rows, r.length = H)
    (c k : ℕ) (hk : k + c ≤ H) :
    colsFrom rows c k = .ok ((List.range' k c).map (fun j => colD d j rows)) := by
  induction c generalizing k with
  | zero => rfl
  | succ c ih =>
    have h1 := colAt_eq_colD d k rows (fun r hr' => by rw [hr r hr']; omega)
    simp only [colsFrom, h1, ih (k + 1) (by omega), List.range'_succ, List.map_cons]
    rfl

/-- `transposeHT` is total on rectangular input and an error otherwise -/
theorem transposeHT_eq_colsD (d : β) (H : ℕ) (rows : List (List β)) :
    transposeHT H rows
      = if rows.all (fun r => r.length == H) then .ok (colsD d H rows) else .error .runtimeError := by
  unfold transposeHT
  split_ifs with h
  · have hr : ∀ r ∈ rows, r.length = H := by simpa [List.all_eq_true] using h
    exact colsFrom_eq_colD d rows H hr H 0 (by omega)
  · rfl

theorem colD_append (d : β) (j : ℕ) (a b : List (List β)) :
    colD d j (a ++ b) = colD d j a ++ colD d j b := by simp [colD]

end cols

theorem tracks_getD {R : List (Dual ℝ)} {r : List (ℝ → ℝ)} (h : TracksL R r θ) (j : ℕ) :
    Tracks (R.getD j 0) (r.getD j (fun _ => 0)) θ := by
  induction h generalizing j with
  | nil => exact tracks_zero
  | cons h0 _ ih =>
    cases j with
    | zero => exact h0
    | succ j => simpa using ih j

theorem tracksL_colD {Xs : List (List (Dual ℝ))} {xss : List (List (ℝ → ℝ))}
    (h : TracksLL Xs xss θ) (j : ℕ) : TracksL (colD 0 j Xs) (colD (fun _ => 0) j xss) θ := by
  unfold colD
  induction h with
  | nil => exact TracksL.nil
  | cons hr _ ih => exact TracksL.cons (tracks_getD hr j) ih

theorem tracksLL_colsD {Xs : List (List (Dual ℝ))} {xss : List (List (ℝ → ℝ))}
    (h : TracksLL Xs xss θ) (H : ℕ) : TracksLL (colsD 0 H Xs) (colsD (fun _ => 0) H xss) θ := by
  unfold colsD
  generalize List.range' 0 H = js
  induction js with
  | nil => exact List.Forall₂.nil
  | cons j js ih => exact List.Forall₂.cons (tracksL_colD h j) ih

theorem evalL_colD (xss : List (List (ℝ → ℝ))) (j : ℕ) (t : ℝ) :
    evalL (colD (fun _ => 0) j xss) t = colD 0 j (evalLL xss t) := by
  unfold colD
  simp only [evalL, evalLL, List.map_map]
  apply List.map_congr_left
  intro r _
  simp only [Function.comp, List.getD_eq_getElem?_getD, List.getElem?_map]
  cases r[j]? <;> rfl

theorem evalLL_colsD (xss : List (List (ℝ → ℝ))) (H : ℕ) (t : ℝ) :
    evalLL (colsD (fun _ => 0) H xss) t = colsD 0 H (evalLL xss t) := by
  unfold colsD
  simp only [evalLL, List.map_map]
  apply List.map_congr_left
  intro j _
  exact evalL_colD xss j t

theorem all_width_eq {Xs : List (List (Dual ℝ))} {xss : List (List (ℝ → ℝ))}
    (h : TracksLL Xs xss θ) (H : ℕ) (t : ℝ) :
    (evalLL xss t).all (fun r => r.length == H) = Xs.all (fun r => r.length == H) := by
  induction h with
  | nil => rfl
  | cons hr _ ih =>
    simp only [evalLL, List.map_cons, List.all_cons, List.length_map] at ih ⊢
    rw [ih, hr.length_eq]

/-- **transposition preserves tracking**: both sides raise "unmatched sizes" together, or the
columns of the dual hedge carry the derivatives of the columns of the real hedge -/
theorem transposeHT_tracks {Xs : List (List (Dual ℝ))} {xs : ℝ → List (List ℝ)}
    (h : TracksCC Xs xs θ) (H : ℕ) :
    TracksE (RelCC θ) (transposeHT H Xs) (fun t => transposeHT H (xs t)) := by
  obtain ⟨xss, hx, e⟩ := h
  rw [transposeHT_eq_colsD 0 H Xs]
  split_ifs with hw
  · refine ⟨fun t => evalLL (colsD (fun _ => 0) H xss) t, ⟨_, tracksLL_colsD hx H, fun _ => rfl⟩,
      fun t => ?_⟩
    show transposeHT H (xs t) = .ok (evalLL (colsD (fun _ => 0) H xss) t)
    rw [e t, transposeHT_eq_colsD 0 H, all_width_eq hx H t, if_pos hw, evalLL_colsD]
  · intro t
    show transposeHT H (xs t) = _
    rw [e t, transposeHT_eq_colsD 0 H, all_width_eq hx H t, if_neg hw]



/-! ### cost terms: instrument by instrument, no kink condition where the cost rate is zero -/

/-- a product with the constant `0` is the constant `0`, whatever the other factor does -/
theorem tracks_mul_lift_zero (X : Dual ℝ) (f : ℝ → ℝ) : Tracks (X * lift 0) (fun t => f t * 0) θ := by
  refine ⟨by simp, ?_⟩
  have : (fun t => f t * 0) = fun _ => (0 : ℝ) := by funext t; simp
  rw [this]
  simpa using hasDerivAt_const θ (0 : ℝ)

theorem tracks_cost1_zero {Sd U : List (Dual ℝ)} {ss us : List (ℝ → ℝ)}
    (hs : TracksL Sd ss θ) (hu : TracksL U us θ) :
    Tracks (cost1 (lift 0) Sd U) (fun t => cost1 0 (evalL ss t) (evalL us t)) θ := by
  have h := TracksL.zipWith (θ := θ) (op := fun sp du => sp * absS du * lift 0)
    (opF := fun f g t => f t * absS (g t) * 0) (P := fun _ => True)
    (fun A B f g _ _ _ => tracks_mul_lift_zero (A * absS B) (fun t => f t * absS (g t)))
    hs.tailL hu.diffL (fun _ _ => trivial)
  refine h.sumL.congr fun t => ?_
  unfold cost1
  rw [evalL_zipWith (fun x y => x * absS y * 0), evalL_tailL, evalL_diffL]

theorem tracks_first1_zero {Sd U : List (Dual ℝ)} {ss us : List (ℝ → ℝ)}
    (hs : TracksL Sd ss θ) (hu : TracksL U us θ) :
    Tracks (first1 (lift 0) Sd U) (fun t => first1 0 (evalL ss t) (evalL us t)) θ := by
  cases hs with
  | nil => exact tracks_zero
  | @cons S0 s0 _ _ hs0 _ =>
    cases hu with
    | nil => exact tracks_zero
    | @cons U0 u0 _ _ hu0 _ =>
      exact tracks_mul_lift_zero (S0 * absS U0) (fun t => s0 t * absS (u0 t))

/-- the kink conditions of one instrument are needed only if its cost rate is not zero -/
def CostKink (θ : ℝ) (c : ℝ) (us : List (ℝ → ℝ)) : Prop := c ≠ 0 → NoKink us θ
def CostKink0 (θ : ℝ) (c : ℝ) (us : List (ℝ → ℝ)) : Prop := c ≠ 0 → NoKink0 us θ

theorem tracks_cost1_const (c : ℝ) (S : List ℝ) {U : List (Dual ℝ)} {us : List (ℝ → ℝ)}
    (hu : TracksL U us θ) (hk : CostKink θ c us) :
    Tracks (cost1 (lift c) (S.map lift) U) (fun t => cost1 c S (evalL us t)) θ := by
  by_cases hc : c = 0
  · subst hc
    exact (tracks_cost1_zero (tracksL_lift S) hu).congr fun t => by rw [evalL_constL]
  · exact (tracks_cost1 (tracks_lift c) (tracksL_lift S) hu (hk hc)).congr fun t => by
      rw [evalL_constL]

theorem tracks_first1_const (c : ℝ) (S : List ℝ) {U : List (Dual ℝ)} {us : List (ℝ → ℝ)}
    (hu : TracksL U us θ) (hk : CostKink0 θ c us) :
    Tracks (first1 (lift c) (S.map lift) U) (fun t => first1 c S (evalL us t)) θ := by
  by_cases hc : c = 0
  · subst hc
    exact (tracks_first1_zero (tracksL_lift S) hu).congr fun t => by rw [evalL_constL]
  · exact (tracks_first1 (tracks_lift c) (tracksL_lift S) hu (hk hc)).congr fun t => by
      rw [evalL_constL]

/-- a sum over the instruments of a term that tracks under a per-instrument condition -/
theorem tracks_sum3 {op : Dual ℝ → List (Dual ℝ) → List (Dual ℝ) → Dual ℝ}
    {opR : ℝ → List ℝ → List ℝ → ℝ} {Q : ℝ → List (ℝ → ℝ) → Prop}
    (hop : ∀ c S U us, TracksL U us θ → Q c us →
      Tracks (op (lift c) (S.map lift) U) (fun t => opR c S (evalL us t)) θ)
    (cs : List ℝ) (Ss : List (List ℝ)) {Us : List (List (Dual ℝ))} {uss : List (List (ℝ → ℝ))}
    (hU : TracksLL Us uss θ) (hQ : ∀ cu ∈ cs.zip uss, Q cu.1 cu.2) :
    Tracks (sumL (zipWith3L op (cs.map lift) (Ss.map (List.map lift)) Us))
      (fun t => sumL (zipWith3L opR cs Ss (evalLL uss t))) θ := by
  induction cs generalizing Ss Us uss with
  | nil => simpa [zipWith3L, sumL] using (tracks_zero (θ := θ))
  | cons c cs ih =>
    cases Ss with
    | nil => simpa [zipWith3L, sumL] using (tracks_zero (θ := θ))
    | cons S Ss =>
      cases hU with
      | nil => simpa [zipWith3L, sumL] using (tracks_zero (θ := θ))
      | @cons U us Us' uss' hUs hrest =>
        have h1 := hop c S U us hUs (hQ (c, us) (by simp))
        have h2 := ih Ss hrest (fun cu hcu => hQ cu (by
          simp only [List.zip_cons_cons, List.mem_cons]; exact Or.inr hcu))
        exact h1.add h2

/-- **P&L, `H` instruments, constant prices / cost rates / payoff, per-instrument kink
conditions** (only where the cost rate is not zero); the payoff is optional -/
theorem plPath_const_tracks (Ss : List (List ℝ)) (cs : List ℝ) (z : Option ℝ) (first : Bool)
    {Us : List (List (Dual ℝ))} {uss : List (List (ℝ → ℝ))} (hU : TracksLL Us uss θ)
    (hk : ∀ cu ∈ cs.zip uss, CostKink θ cu.1 cu.2)
    (hk0 : first = true → ∀ cu ∈ cs.zip uss, CostKink0 θ cu.1 cu.2) :
    Tracks (plPath (Ss.map (List.map lift)) Us (some (cs.map lift)) (z.map lift) first)
      (fun t => plPath Ss (evalLL uss t) (some cs) z first) θ := by
  have hg : Tracks (sumL (List.zipWith gains1 (Ss.map (List.map lift)) Us))
      (fun t => sumL (List.zipWith gains1 Ss (evalLL uss t))) θ :=
    (tracks_sum_gains (tracksLL_lift Ss) hU).congr fun t => by rw [evalLL_constL]
  have hc := tracks_sum3 (θ := θ) (op := cost1) (opR := cost1) (Q := CostKink θ)
    (fun c S U us hu hq => tracks_cost1_const c S hu hq) cs Ss hU hk
  cases z with
  | none =>
    cases first with
    | false =>
      simp only [plPath, Option.map_none, Bool.false_eq_true, if_false]
      exact hg.sub hc
    | true =>
      have hf := tracks_sum3 (θ := θ) (op := first1) (opR := first1) (Q := CostKink0 θ)
        (fun c S U us hu hq => tracks_first1_const c S hu hq) cs Ss hU (hk0 rfl)
      simp only [plPath, Option.map_none, if_true]
      exact (hg.sub hc).sub hf
  | some z =>
    cases first with
    | false =>
      simp only [plPath, Option.map_some, Bool.false_eq_true, if_false]
      exact (hg.sub (tracks_lift z)).sub hc
    | true =>
      have hf := tracks_sum3 (θ := θ) (op := first1) (opR := first1) (Q := CostKink0 θ)
        (fun c S U us hu hq => tracks_first1_const c S hu hq) cs Ss hU (hk0 rfl)
      simp only [plPath, Option.map_some, if_true]
      exact ((hg.sub (tracks_lift z)).sub hc).sub hf

/-! ### the last row of `compute_hedge` is the repeated previous one: no kink there -/

theorem noKink_append_last {us : List (ℝ → ℝ)} {l : ℝ → ℝ} (hlast : lastL us = some l)
    (h : ∀ d ∈ diffL (evalL us θ), d ≠ 0) : NoKink (us ++ [l]) θ := by
  intro g' hg'
  rw [diffL_append_last _ _ hlast, List.mem_append] at hg'
  rcases hg' with hg' | hg'
  · exact noKink_of_ne h g' hg'
  · right
    rw [List.mem_singleton] at hg'
    subst hg'
    exact Filter.Eventually.of_forall fun t => sub_self _

theorem noKink0_append {us : List (ℝ → ℝ)} {l : ℝ → ℝ} (hne : us ≠ [])
    (h : ∀ u0 ∈ (evalL us θ).head?, u0 ≠ 0) : NoKink0 (us ++ [l]) θ := by
  intro u0 hu0
  apply h u0
  simpa only [evalL, List.map_append, List.head?_append_of_ne_nil _
    (by simpa using hne : List.map (fun f => f θ) us ≠ [])] using hu0


/-! ### one path: prices, hedge, transposition -/

/-- the number of time points `Hedger.compute_pl` hands to `compute_hedge`:
`hedge[0].spot.size()[1]` -/
def hedgeN (hs : List (HedgeInstr ℝ)) : ℕ := nSteps (hs.map (fun h => h.src.prices))

/-- generic point of one path with `H` hedging instruments: on the real hedge at `θ` (the rows
`hedgeRows`, i.e. before `compute_hedge` repeats the last one, transposed to one position series
per instrument) no position change of an instrument WITH A NON-ZERO COST RATE is exactly zero,
nor — when the initial cost is charged — its initial position -/
def PathGenericH (g : List ℝ → List ℝ) (fs : List (Feature ℝ)) (m : Market ℝ)
    (hs : List (HedgeInstr ℝ)) (first : Bool) : Prop :=
  ∀ rows units, hedgeRows g fs m (hedgeN hs) hs.length = .ok rows →
    transposeHT hs.length rows = .ok units →
    ∀ cu ∈ (hs.map (fun h => h.cost)).zip units, cu.1 ≠ 0 →
      (∀ d ∈ diffL cu.2, d ≠ 0) ∧ (first = true → ∀ u0 ∈ cu.2.head?, u0 ≠ 0)

/-- what `hedgerSpotUnit` returns on both sides: constant prices, tracked position series without
kinks of the cost terms -/
def RelSU (θ : ℝ) (cs : List ℝ) (first : Bool) :
    (List (List (Dual ℝ)) × List (List (Dual ℝ))) → (ℝ → List (List ℝ) × List (List ℝ)) → Prop :=
  fun SU su => ∃ (Ss : List (List ℝ)) (uss : List (List (ℝ → ℝ))),
    SU.1 = Ss.map (List.map lift) ∧ TracksLL SU.2 uss θ ∧ (∀ t, su t = (Ss, evalLL uss t)) ∧
    (∀ cu ∈ cs.zip uss, CostKink θ cu.1 cu.2) ∧
    (first = true → ∀ cu ∈ cs.zip uss, CostKink0 θ cu.1 cu.2)

theorem all_append_left {β : Type} {p : β → Bool} {a b : List β} (h : (a ++ b).all p = true) :
    a.all p = true := by
  rw [List.all_append, Bool.and_eq_true] at h
  exact h.1

theorem mem_zip_colsD {β γ : Type} {d : β} {H : ℕ} {rows : List (List β)} {cs : List γ}
    {cu : γ × List β} (h : cu ∈ cs.zip (colsD d H rows)) :
    ∃ j, cu.2 = colD d j rows ∧ ∀ (β' : Type) (d' : β') (rows' : List (List β')),
      (cu.1, colD d' j rows') ∈ cs.zip (colsD d' H rows') := by
  unfold colsD at h
  rw [List.zip_map_right, List.mem_map] at h
  obtain ⟨⟨c, j⟩, hcj, rfl⟩ := h
  refine ⟨j, rfl, fun β' d' rows' => ?_⟩
  unfold colsD
  rw [List.zip_map_right, List.mem_map]
  exact ⟨(c, j), hcj, rfl⟩

theorem hedgerSpotUnit_tracks {G : List (Dual ℝ) → List (Dual ℝ)} {g : ℝ → List ℝ → List ℝ}
    {Fs : List (Feature (Dual ℝ))} {fs : List (ℝ → Feature ℝ)} (hF : FeatsRel θ Fs fs)
    (m : Market ℝ) (hs : List (HedgeInstr ℝ)) (first : Bool)
    (hG : ∀ X ∈ hedgeInputs G Fs (liftMkt m) (hedgeN hs) hs.length, ∀ x, TracksC X x θ →
      TracksC (G X) (fun t => g t (x t)) θ)
    (hgen : PathGenericH (g θ) (featsAt fs θ) m hs first) :
    TracksE (RelSU θ (hs.map (fun h => h.cost)) first)
      (hedgerSpotUnit G Fs (Dual.liftMarket m) (hs.map Dual.liftInstr))
      (fun t => hedgerSpotUnit (g t) (featsAt fs t) m hs) := by
  unfold hedgerSpotUnit
  rw [stackPrices_lift, liftMarket_eq, List.length_map]
  cases hsp : stackPrices hs with
  | error e => intro t; rfl
  | ok prices =>
    obtain ⟨_, hp, _⟩ := C01HedgerAux.stackPrices_ok hsp
    have hn : nSteps prices = hedgeN hs := by rw [hp]; rfl
    set H := hs.length with hH
    set cs := hs.map (fun h => h.cost) with hcs
    set PD : List (List (Dual ℝ)) := prices.map (List.map lift) with hPD
    have key := (hedgeRows_tracks hF m (hedgeN hs) H hG).bind' (Rel' := RelSU θ cs first)
      (K := fun outs => appendLast outs >>= fun rows => transposeHT H rows >>= fun units =>
        pure (PD, units))
      (k := fun _ outs => appendLast outs >>= fun rows => transposeHT H rows >>= fun units =>
        pure (prices, units))
      fun Xs xs _ hr hXs => by
        obtain ⟨xss, hxss, e⟩ := hXs
        rcases lastL_forall₂ hxss with ⟨h1, h2⟩ | ⟨L, l, h1, h2, hLl⟩
        · have e1 : appendLast Xs = .error .runtimeError := by simp only [appendLast, h1]
          have e2 : ∀ t, appendLast (xs t) = .error .runtimeError := by
            intro t
            rw [e t]; simp only [appendLast, evalLL, lastL_map, h2, Option.map_none]
          simp only [e1, e2]
          intro t; rfl
        · have e1 : appendLast Xs = .ok (Xs ++ [L]) := by simp only [appendLast, h1]
          have e2 : ∀ t, appendLast (xs t) = .ok (evalLL (xss ++ [l]) t) := by
            intro t
            rw [e t]
            simp only [appendLast, evalLL, lastL_map, h2, Option.map_some, List.map_append,
              List.map_cons, List.map_nil]
          have hrows : TracksLL (Xs ++ [L]) (xss ++ [l]) θ :=
            forall₂_append hxss (List.Forall₂.cons hLl List.Forall₂.nil)
          simp only [e1, e2, C01HedgerAux.ok_bind]
          rw [transposeHT_eq_colsD 0 H (Xs ++ [L])]
          split_ifs with hw
          · -- rectangular: the columns
            set f0 : ℝ → ℝ := fun _ => 0 with hf0
            have hreal : ∀ t, transposeHT H (evalLL (xss ++ [l]) t)
                = .ok (evalLL (colsD f0 H (xss ++ [l])) t) := by
              intro t
              rw [transposeHT_eq_colsD 0 H, all_width_eq hrows H t, if_pos hw, evalLL_colsD]
            -- the generic-point hypothesis at θ, on the rows before the last one is repeated
            have hwX : Xs.all (fun r => r.length == H) = true := all_append_left hw
            have hTθ : transposeHT H (evalLL xss θ) = .ok (colsD 0 H (evalLL xss θ)) := by
              rw [transposeHT_eq_colsD 0 H, all_width_eq hxss H θ, if_pos hwX]
            have hgen' := hgen (xs θ) (colsD 0 H (evalLL xss θ)) (hr θ) (by rw [e θ]; exact hTθ)
            have hcol : ∀ j, colD f0 j (xss ++ [l]) = colD f0 j xss ++ [l.getD j f0] := by
              intro j; rw [colD_append]; rfl
            have hlastj : ∀ j, lastL (colD f0 j xss) = some (l.getD j f0) := by
              intro j; unfold colD; rw [lastL_map, h2]; rfl
            have hnej : ∀ j, colD f0 j xss ≠ [] := by
              intro j h0; have := hlastj j; rw [h0] at this; cases this
            simp only [hreal, C01HedgerAux.ok_bind]
            refine TracksE.pure (Rel := RelSU θ cs first)
              (x := fun t => (prices, evalLL (colsD f0 H (xss ++ [l])) t))
              ⟨prices, colsD f0 H (xss ++ [l]), hPD, tracksLL_colsD hrows H, fun _ => rfl, ?_, ?_⟩
            · intro cu hcu hc
              obtain ⟨j, hj, hmem⟩ := mem_zip_colsD hcu
              have hg1 := (hgen' _ (hmem ℝ 0 (evalLL xss θ)) hc).1
              rw [hj, hcol j]
              refine noKink_append_last (hlastj j) ?_
              rw [evalL_colD]; exact hg1
            · intro hf cu hcu hc
              obtain ⟨j, hj, hmem⟩ := mem_zip_colsD hcu
              have hg2 := (hgen' _ (hmem ℝ 0 (evalLL xss θ)) hc).2 hf
              rw [hj, hcol j]
              refine noKink0_append (hnej j) ?_
              rw [evalL_colD]; exact hg2
          · have hreal : ∀ t, transposeHT H (evalLL (xss ++ [l]) t) = .error .runtimeError := by
              intro t
              rw [transposeHT_eq_colsD 0 H, all_width_eq hrows H t, if_neg hw]
            simp only [hreal]
            intro t; rfl
    simp only [Except.map, C01HedgerAux.ok_bind]
    rw [nSteps_lift, hn]
    simp only [computeHedge_eq, bind_assoc]
    exact key

theorem costs_lift (hs : List (HedgeInstr ℝ)) :
    (hs.map Dual.liftInstr).map (fun h => h.cost) = (hs.map (fun h => h.cost)).map lift := by
  simp only [List.map_map]; rfl

theorem hedgerPL_tracks {G : List (Dual ℝ) → List (Dual ℝ)} {g : ℝ → List ℝ → List ℝ}
    {Fs : List (Feature (Dual ℝ))} {fs : List (ℝ → Feature ℝ)} (hF : FeatsRel θ Fs fs)
    (m : Market ℝ) (hs : List (HedgeInstr ℝ)) (p : PayoffSpec ℝ) (reg : List (String × Clause ℝ))
    (first : Bool)
    (hG : ∀ X ∈ hedgeInputs G Fs (liftMkt m) (hedgeN hs) hs.length, ∀ x, TracksC X x θ →
      TracksC (G X) (fun t => g t (x t)) θ)
    (hgen : PathGenericH (g θ) (featsAt fs θ) m hs first) :
    TracksE (RelS θ)
      (hedgerPL G Fs (Dual.liftMarket m) (hs.map Dual.liftInstr) (Dual.liftSpec p)
        (Dual.liftReg reg) first)
      (fun t => hedgerPL (g t) (featsAt fs t) m hs p reg first) := by
  have key := (hedgerSpotUnit_tracks hF m hs first hG hgen).bind (Rel' := RelS θ)
    (K := fun SU => derivPayoff (Dual.liftSpec p) (Dual.liftReg reg) (Dual.liftMarket m).spot >>=
      fun z => pure (plPath SU.1 SU.2 (some ((hs.map Dual.liftInstr).map (fun h => h.cost)))
        (some z) first))
    (k := fun _ su => derivPayoff p reg m.spot >>= fun z =>
      pure (plPath su.1 su.2 (some (hs.map (fun h => h.cost))) (some z) first))
    fun SU su hSU => by
      obtain ⟨Ss, uss, h1, h2, h3, h4, h5⟩ := hSU
      have hz : derivPayoff (Dual.liftSpec p) (Dual.liftReg reg) (Dual.liftMarket m).spot
          = Except.map lift (derivPayoff p reg m.spot) := derivPayoff_lift p reg m.spot
      simp only [hz, costs_lift, h1, h3]
      cases derivPayoff p reg m.spot with
      | error e => intro t; rfl
      | ok z =>
        simp only [Except.map, C01HedgerAux.ok_bind]
        have h := plPath_const_tracks Ss (hs.map (fun h => h.cost)) (some z) first h2 h4 h5
        simp only [Option.map_some] at h
        exact TracksE.pure (Rel := RelS θ) h
  unfold hedgerPL
  exact key

theorem hedgerPortfolio_tracks {G : List (Dual ℝ) → List (Dual ℝ)} {g : ℝ → List ℝ → List ℝ}
    {Fs : List (Feature (Dual ℝ))} {fs : List (ℝ → Feature ℝ)} (hF : FeatsRel θ Fs fs)
    (m : Market ℝ) (hs : List (HedgeInstr ℝ)) (first : Bool)
    (hG : ∀ X ∈ hedgeInputs G Fs (liftMkt m) (hedgeN hs) hs.length, ∀ x, TracksC X x θ →
      TracksC (G X) (fun t => g t (x t)) θ)
    (hgen : PathGenericH (g θ) (featsAt fs θ) m hs first) :
    TracksE (RelS θ)
      (hedgerPortfolio G Fs (Dual.liftMarket m) (hs.map Dual.liftInstr) first)
      (fun t => hedgerPortfolio (g t) (featsAt fs t) m hs first) := by
  unfold hedgerPortfolio
  refine (hedgerSpotUnit_tracks hF m hs first hG hgen).bind (Rel' := RelS θ)
    (K := fun SU => pure (plPath SU.1 SU.2 (some ((hs.map Dual.liftInstr).map (fun h => h.cost)))
      none first))
    (k := fun _ su => pure (plPath su.1 su.2 (some (hs.map (fun h => h.cost))) none first))
    fun SU su hSU => ?_
  obtain ⟨Ss, uss, h1, h2, h3, h4, h5⟩ := hSU
  simp only [costs_lift, h1, h3]
  have h := plPath_const_tracks Ss (hs.map (fun h => h.cost)) none first h2 h4 h5
  simp only [Option.map_none] at h
  exact TracksE.pure (Rel := RelS θ) h

end PfVerif.C14MultiAux

/-! ### the batch and a general criterion -/

namespace PfVerif.C14MultiAux
open PfVerif PfVerif.C14Aux Topology

variable {θ : ℝ}

/-- a criterion given as a pair — its evaluation at dual numbers `CD` and its real evaluation
`cR t` (which may itself depend on the parameter, e.g. through OCE's `w`) — tracks on samples
satisfying `P` at `θ` (the criterion's generic points) -/
def CritTracks (θ : ℝ) (CD : List (Dual ℝ) → Except Err (Dual ℝ))
    (cR : ℝ → List ℝ → Except Err ℝ) (P : List ℝ → Prop) : Prop :=
  ∀ Ds fs, TracksL Ds fs θ → P (evalL fs θ) →
    TracksE (RelS θ) (CD Ds) (fun t => cR t (evalL fs t))

theorem lossOfH_tracks {G : List (Dual ℝ) → List (Dual ℝ)} {g : ℝ → List ℝ → List ℝ}
    {Fs : List (Feature (Dual ℝ))} {fs : List (ℝ → Feature ℝ)} (hF : FeatsRel θ Fs fs)
    (ps : List (Market ℝ × List (HedgeInstr ℝ))) (p : PayoffSpec ℝ)
    (reg : List (String × Clause ℝ)) (first : Bool)
    {CD : List (Dual ℝ) → Except Err (Dual ℝ)} {cR : ℝ → List ℝ → Except Err ℝ}
    {P : List ℝ → Prop} (hC : CritTracks θ CD cR P)
    (hG : ∀ mh ∈ ps, ∀ X ∈ hedgeInputs G Fs (liftMkt mh.1) (hedgeN mh.2) mh.2.length,
      ∀ x, TracksC X x θ → TracksC (G X) (fun t => g t (x t)) θ)
    (hpath : ∀ mh ∈ ps, PathGenericH (g θ) (featsAt fs θ) mh.1 mh.2 first)
    (hcrit : ∀ pls, ps.mapM (fun mh => hedgerPL (g θ) (featsAt fs θ) mh.1 mh.2 p reg first)
      = .ok pls → P pls) :
    TracksE (RelS θ)
      (lossOfH G Fs (Dual.liftPaths ps) (Dual.liftSpec p) (Dual.liftReg reg) first CD)
      (fun t => lossOfH (g t) (featsAt fs t) ps p reg first (cR t)) := by
  unfold lossOfH
  have hall : List.Forall₂ (fun (b : Market (Dual ℝ) × List (HedgeInstr (Dual ℝ)))
      (b' : Market ℝ × List (HedgeInstr ℝ)) =>
      TracksE (RelS θ) (hedgerPL G Fs b.1 b.2 (Dual.liftSpec p) (Dual.liftReg reg) first)
        (fun t => hedgerPL (g t) (featsAt fs t) b'.1 b'.2 p reg first)) (Dual.liftPaths ps) ps := by
    unfold Dual.liftPaths
    clear hcrit
    induction ps with
    | nil => exact List.Forall₂.nil
    | cons mh ps ih =>
      refine List.Forall₂.cons ?_ (ih (fun mh' h' => hG mh' (List.mem_cons_of_mem _ h'))
        (fun mh' h' => hpath mh' (List.mem_cons_of_mem _ h')))
      exact hedgerPL_tracks hF mh.1 mh.2 p reg first (hG mh List.mem_cons_self)
        (hpath mh List.mem_cons_self)
  clear hG hpath
  refine (mapM_tracks
    (fun b : Market (Dual ℝ) × List (HedgeInstr (Dual ℝ)) =>
      hedgerPL G Fs b.1 b.2 (Dual.liftSpec p) (Dual.liftReg reg) first)
    (fun t (b' : Market ℝ × List (HedgeInstr ℝ)) =>
      hedgerPL (g t) (featsAt fs t) b'.1 b'.2 p reg first) hall).bind'
    (k := fun t pls => cR t pls) fun X x _ hr hX => ?_
  obtain ⟨xs, hxs, e⟩ := hX
  have hc := hcrit (x θ) (hr θ)
  rw [e θ] at hc
  exact (hC X xs hxs hc).congr fun t => by
    show cR t (x t) = _
    rw [e t]

/-! ### criteria: isoelastic loss, OCE -/

/-- `x.pow(c)` with a constant exponent, away from `0` -/
theorem tracks_pow_const {A : Dual ℝ} {f : ℝ → ℝ} (ha : Tracks A f θ) (h0 : f θ ≠ 0) (c : ℝ) :
    Tracks (TranscPow.pow A (lift c)) (fun t => TranscPow.pow (f t) c) θ := by
  refine ⟨by simp [TranscPow.pow, ha.1], ?_⟩
  refine (ha.2.rpow_const (p := c) (Or.inl h0)).congr_deriv ?_
  simp only [TranscPow.pow, lift_val, lift_eps, zero_mul, add_zero, ha.1]
  ring

theorem one_sub_lift (a : ℝ) : (1 : Dual ℝ) - lift a = lift (1 - a) := by
  rw [lift_one, lift_sub]

theorem isoUtility_tracks (one : Bool) (a : ℝ) {D : Dual ℝ} {f : ℝ → ℝ} (h : Tracks D f θ)
    (h0 : f θ ≠ 0) :
    Tracks (isoelasticUtility one (lift a) D) (fun t => isoelasticUtility one a (f t)) θ := by
  cases one with
  | true =>
    simp only [isoelasticUtility, if_true]
    exact h.log h0
  | false =>
    simp only [isoelasticUtility, Bool.false_eq_true, if_false, one_sub_lift]
    exact tracks_pow_const h h0 (1 - a)

theorem iso_tracks (one : Bool) (a : ℝ) {Ds : List (Dual ℝ)} {fs : List (ℝ → ℝ)}
    (h : TracksL Ds fs θ) (hpos : ∀ x ∈ evalL fs θ, 0 < x) :
    Tracks (isoelasticLoss one (lift a) Ds) (fun t => isoelasticLoss one a (evalL fs t)) θ := by
  have h2 := TracksL.map (θ := θ) (op := isoelasticUtility one (lift a))
    (opF := fun f t => isoelasticUtility one a (f t)) (P := fun f => f θ ≠ 0)
    (fun _ _ hD h0 => isoUtility_tracks one a hD h0) h
    (fun f hf => (hpos (f θ) (List.mem_map_of_mem (f := fun f => f θ) hf)).ne')
  refine (h2.sumL.div_natCast Ds.length).neg.congr fun t => ?_
  rw [evalL_map (isoelasticUtility one a)]
  simp [isoelasticLoss, h.length_eq]

/-- OCE: utility `U` (dual) / `u` (real) compatible, `w` tracked (a constant, or the
differentiation variable itself), sample tracked -/
theorem oce_tracks {U : Dual ℝ → Dual ℝ} {u : ℝ → ℝ}
    (hU : ∀ D f, Tracks D f θ → Tracks (U D) (fun t => u (f t)) θ)
    {W : Dual ℝ} {w : ℝ → ℝ} (hW : Tracks W w θ) {Ds : List (Dual ℝ)} {fs : List (ℝ → ℝ)}
    (h : TracksL Ds fs θ) :
    Tracks (oce U W Ds) (fun t => oce u (w t) (evalL fs t)) θ := by
  have h2 := TracksL.map (θ := θ) (op := fun x => U (x + W)) (opF := fun f t => u (f t + w t))
    (P := fun _ => True) (fun _ _ hD _ => hU _ _ (hD.add hW)) h (fun _ _ => trivial)
  refine (hW.sub (h2.sumL.div_natCast Ds.length)).congr fun t => ?_
  unfold oce
  have : evalL (fs.map (fun f t => u (f t + w t))) t = (evalL fs t).map (fun x => u (x + w t)) := by
    simp [evalL]
  rw [this]
  simp [h.length_eq]

theorem utility_tracks (u : Utility ℝ) {D : Dual ℝ} {f : ℝ → ℝ} (h : Tracks D f θ) :
    Tracks ((Dual.liftUtility u).eval D) (fun t => u.eval (f t)) θ := by
  cases u with
  | exp a =>
    simp only [Dual.liftUtility, Utility.eval, const_eq_lift]
    exact tracks_one.sub ((tracks_lift a).mul h).neg.exp
  | quad a b =>
    simp only [Dual.liftUtility, Utility.eval, const_eq_lift]
    exact (((tracks_lift a).mul h).mul h).add ((tracks_lift b).mul h)

/-- a differentiable utility with derivative `u'` as a function on dual numbers -/
def dualOfDeriv (u u' : ℝ → ℝ) (D : Dual ℝ) : Dual ℝ := ⟨u D.val, D.eps * u' D.val⟩

theorem dualOfDeriv_tracks {u u' : ℝ → ℝ} (hu : ∀ x, HasDerivAt u (u' x) x) {D : Dual ℝ}
    {f : ℝ → ℝ} (h : Tracks D f θ) : Tracks (dualOfDeriv u u' D) (fun t => u (f t)) θ := by
  refine ⟨by simp [dualOfDeriv, h.1], ?_⟩
  have := (hu (f θ)).comp θ h.2
  refine this.congr_deriv ?_
  simp [dualOfDeriv, h.1, mul_comm]

/-! ### the criteria of `CritH` -/

/-- generic point of a criterion: for the expected shortfall no tie at the cut, for the
isoelastic loss positive wealth -/
def CritHGeneric (c : CritH ℝ) (vals : List ℝ) : Prop :=
  match c with
  | .es k => ∀ a ∈ (sortL vals).take k, ∀ b ∈ (sortL vals).drop k, a < b
  | .iso _ _ => ∀ x ∈ vals, 0 < x
  | _ => True

/-- OCE's `w` moved by `d` (every other criterion unchanged) -/
def shiftW (c : CritH ℝ) (d : ℝ) : CritH ℝ :=
  match c with
  | .oce u w => .oce u (w + d)
  | c => c

/-- the criterion with constant coefficients (and constant `w`): derivative with respect to a
model parameter -/
theorem applyCritH_tracks (c : CritH ℝ) :
    CritTracks θ (applyCritH (Dual.liftCrit false c)) (fun _ => applyCritH c) (CritHGeneric c) := by
  intro Ds fs h hgen
  cases c with
  | erm a => exact erm_tracks a h
  | es k => exact TracksE.ok (es_tracks k h hgen)
  | eloss a => exact TracksE.ok (eloss_tracks a h)
  | mse => exact TracksE.ok (mse_tracks h)
  | mean => exact TracksE.ok (mean_tracks h).neg
  | iso one a => exact TracksE.ok (iso_tracks one a h hgen)
  | oce u w =>
    exact TracksE.ok (oce_tracks (fun D f hD => utility_tracks u hD) (tracks_lift w) h)

/-- the criterion with OCE's `w` seeded: the real side moves `w` with the parameter -/
theorem applyCritH_tracks_w (c : CritH ℝ) :
    CritTracks θ (applyCritH (Dual.liftCrit true c)) (fun t => applyCritH (shiftW c (t - θ)))
      (CritHGeneric c) := by
  intro Ds fs h hgen
  cases c with
  | erm a => exact erm_tracks a h
  | es k => exact TracksE.ok (es_tracks k h hgen)
  | eloss a => exact TracksE.ok (eloss_tracks a h)
  | mse => exact TracksE.ok (mse_tracks h)
  | mean => exact TracksE.ok (mean_tracks h).neg
  | iso one a => exact TracksE.ok (iso_tracks one a h hgen)
  | oce u w =>
    have hW : Tracks (Dual.var w) (fun t => w + (t - θ)) θ := by
      have := tracks_affine (θ := θ) (⟨w, 1⟩ : Dual ℝ)
      have h' : Tracks (⟨w, 1⟩ : Dual ℝ) (fun t => w + (t - θ)) θ := by simpa using this
      exact h'
    exact TracksE.ok (oce_tracks (fun D f hD => utility_tracks u hD) hW h)

end PfVerif.C14MultiAux

namespace PfVerif.C14MultiAux
open PfVerif PfVerif.C14Aux Topology

variable {θ : ℝ}

/-! ### quadratic CVaR: the envelope argument -/

/-- one-dimensional envelope lemma, first-order-condition form: `obj` jointly differentiable at
`(θ, ω*(θ))`, `ω*` differentiable at `θ`, `∂_ω obj = 0` there.  The total derivative of
`θ ↦ obj θ (ω* θ)` is the partial derivative at fixed `ω = ω*(θ)`. -/
theorem envelope_foc {obj : ℝ → ℝ → ℝ} {ωs : ℝ → ℝ} {ω' : ℝ} {F' : ℝ × ℝ →L[ℝ] ℝ}
    (hobj : HasFDerivAt (fun p : ℝ × ℝ => obj p.1 p.2) F' (θ, ωs θ))
    (hω : HasDerivAt ωs ω' θ) (hfoc : F' (0, 1) = 0) :
    HasDerivAt (fun t => obj t (ωs t)) (F' (1, 0)) θ ∧
      HasDerivAt (fun t => obj t (ωs θ)) (F' (1, 0)) θ := by
  constructor
  · have h1 : HasDerivAt (fun t => (t, ωs t)) ((1 : ℝ), ω') θ := (hasDerivAt_id θ).prodMk hω
    have h2 := hobj.comp_hasDerivAt θ h1
    have e : F' ((1 : ℝ), ω') = F' (1, 0) := by
      have : ((1 : ℝ), ω') = (1, 0) + ω' • ((0 : ℝ), (1 : ℝ)) := by simp
      rw [this, map_add, map_smul, hfoc, smul_zero, add_zero]
    rw [e] at h2
    exact h2
  · have h1 : HasDerivAt (fun t => (t, ωs θ)) ((1 : ℝ), (0 : ℝ)) θ :=
      (hasDerivAt_id θ).prodMk (hasDerivAt_const θ (ωs θ))
    exact hobj.comp_hasDerivAt θ h1

/-- a (local) minimiser in `ω` satisfies the first-order condition -/
theorem foc_of_isLocalMin {obj : ℝ → ℝ → ℝ} {ω : ℝ} {F' : ℝ × ℝ →L[ℝ] ℝ}
    (hobj : HasFDerivAt (fun p : ℝ × ℝ => obj p.1 p.2) F' (θ, ω))
    (hmin : IsLocalMin (fun w => obj θ w) ω) : F' (0, 1) = 0 := by
  have h1 : HasDerivAt (fun w => (θ, w)) ((0 : ℝ), (1 : ℝ)) ω :=
    (hasDerivAt_const ω θ).prodMk (hasDerivAt_id ω)
  have h2 : HasDerivAt (fun w => obj θ w) (F' (0, 1)) ω := hobj.comp_hasDerivAt ω h1
  exact hmin.hasDerivAt_eq_zero h2

/-- `y ↦ relu(y)²` is differentiable everywhere, also at the kink of `relu` -/
theorem hasDerivAt_relu_sq (y : ℝ) :
    HasDerivAt (fun y : ℝ => reluS y * reluS y) (2 * reluS y) y := by
  rcases lt_trichotomy y 0 with hy | hy | hy
  · have e : reluS y = 0 := by unfold reluS; rw [if_neg (not_le.2 hy)]
    rw [e, mul_zero]
    refine (hasDerivAt_const y (0 : ℝ)).congr_of_eventuallyEq ?_
    filter_upwards [gt_mem_nhds hy] with z hz
    have : reluS z = 0 := by unfold reluS; rw [if_neg (not_le.2 hz)]
    rw [this, mul_zero]
  · subst hy
    have e : reluS (0 : ℝ) = 0 := by unfold reluS; simp
    rw [e, mul_zero, hasDerivAt_iff_isLittleO_nhds_zero]
    have hO : (fun h : ℝ => reluS (0 + h) * reluS (0 + h) - reluS (0 : ℝ) * reluS 0 - h • (0 : ℝ))
        =O[𝓝 0] fun h : ℝ => h ^ 2 := by
      refine Asymptotics.IsBigO.of_bound 1 (Filter.Eventually.of_forall fun h => ?_)
      simp only [e, zero_add, mul_zero, sub_zero, smul_zero, one_mul, Real.norm_eq_abs]
      rw [reluS_eq_max, ← sq, abs_pow, abs_pow]
      have : |max h 0| ≤ |h| := by
        rcases le_total h 0 with hh | hh
        · rw [max_eq_right hh, abs_zero]; exact abs_nonneg h
        · rw [max_eq_left hh]
      exact pow_le_pow_left₀ (abs_nonneg _) this 2
    exact hO.trans_isLittleO (Asymptotics.isLittleO_pow_id (by norm_num))
  · have e : reluS y = y := by unfold reluS; rw [if_pos hy.le]
    rw [e]
    have h := (hasDerivAt_id y).mul (hasDerivAt_id y)
    refine (h.congr_deriv (by simp; ring)).congr_of_eventuallyEq ?_
    filter_upwards [lt_mem_nhds hy] with z hz
    have : reluS z = z := by unfold reluS; rw [if_pos hz.le]
    rw [this]; rfl

/-- `relu(·)²` at dual numbers needs no kink condition -/
theorem tracks_relu_sq {Y : Dual ℝ} {y : ℝ → ℝ} (h : Tracks Y y θ) :
    Tracks (reluS Y * reluS Y) (fun t => reluS (y t) * reluS (y t)) θ := by
  have hc := (hasDerivAt_relu_sq (y θ)).comp θ h.2
  by_cases hy : (0 : ℝ) ≤ y θ
  · have e : reluS Y = Y := by
      unfold reluS; rw [if_pos]; rw [Dual.le_iff, Dual.zero_val, h.1]; exact hy
    have e' : reluS (y θ) = y θ := by unfold reluS; rw [if_pos hy]
    rw [e]
    refine ⟨by simp [h.1, e'], hc.congr_deriv ?_⟩
    simp only [e', Dual.mul_eps, h.1]; ring
  · have e : reluS Y = 0 := by
      unfold reluS; rw [if_neg]; rw [Dual.le_iff, Dual.zero_val, h.1]; exact hy
    have e' : reluS (y θ) = 0 := by unfold reluS; rw [if_neg hy]
    rw [e]
    refine ⟨by simp [e'], hc.congr_deriv ?_⟩
    simp [e']

/-- **what pfhedge back-propagates through**: `ω + λ·mean(relu(−ω − x)²)` at a FIXED `ω` (the
bisection result carries no graph) tracks at every point -/
theorem qObj_fixed_tracks (lam ω : ℝ) {Ds : List (Dual ℝ)} {fs : List (ℝ → ℝ)}
    (h : TracksL Ds fs θ) :
    Tracks (qObj (lift lam) (lift ω) Ds) (fun t => qObj lam ω (evalL fs t)) θ := by
  have h2 := TracksL.map (θ := θ) (op := fun x => reluS (-(lift ω) - x) * reluS (-(lift ω) - x))
    (opF := fun f t => reluS (-ω - f t) * reluS (-ω - f t)) (P := fun _ => True)
    (fun _ _ hD _ => tracks_relu_sq ((tracks_lift ω).neg.sub hD)) h (fun _ _ => trivial)
  refine ((tracks_lift ω).add ((tracks_lift lam).mul (mean_tracks h2))).congr fun t => ?_
  unfold qObj
  rw [evalL_map (fun x => reluS (-ω - x) * reluS (-ω - x))]

theorem qObj_joint_differentiable (lam ω : ℝ) {Ds : List (Dual ℝ)} {fs : List (ℝ → ℝ)}
    (h : TracksL Ds fs θ) :
    DifferentiableAt ℝ (fun p : ℝ × ℝ => qObj lam p.2 (evalL fs p.1)) (θ, ω) := by
  unfold qObj meanR
  have hs : DifferentiableAt ℝ (fun p : ℝ × ℝ =>
      sumL ((evalL fs p.1).map (fun x => reluS (-p.2 - x) * reluS (-p.2 - x)))) (θ, ω) := by
    induction h with
    | nil => simp [sumL]
    | @cons D f _ _ hD _ ih =>
      simp only [evalL, List.map_cons, sumL] at ih ⊢
      refine DifferentiableAt.add ?_ ih
      have hf : DifferentiableAt ℝ (fun p : ℝ × ℝ => -p.2 - f p.1) (θ, ω) :=
        differentiableAt_snd.neg.sub
          (DifferentiableAt.comp (θ, ω) (show DifferentiableAt ℝ f (θ, ω).1 from hD.2.differentiableAt)
            differentiableAt_fst)
      exact DifferentiableAt.comp (θ, ω)
        (hasDerivAt_relu_sq (-(θ, ω).2 - f (θ, ω).1)).differentiableAt hf
  simp only [evalL, List.length_map] at hs ⊢
  simp only [div_eq_mul_inv]
  exact differentiableAt_snd.add ((differentiableAt_const lam).mul (hs.mul_const _))

/-- **quadratic CVaR, the envelope fact over ℝ**: if `ω*(t)` is differentiable at `θ` and
`ω*(θ)` minimises `ω ↦ ω + λ·mean(relu(−ω − x)²)` on the sample at `θ` (locally suffices), the
derivative of the optimised objective `t ↦ obj(t, ω*(t))` is the ε-part of the objective
evaluated at dual numbers with `ω` held fixed at `ω*(θ)` — the gradient pfhedge computes -/
theorem qcvar_envelope_tracks (lam : ℝ) {Ds : List (Dual ℝ)} {fs : List (ℝ → ℝ)}
    (h : TracksL Ds fs θ) {ωs : ℝ → ℝ} {ω' : ℝ} (hω : HasDerivAt ωs ω' θ)
    (hmin : IsLocalMin (fun w => qObj lam w (evalL fs θ)) (ωs θ)) :
    Tracks (qObj (lift lam) (lift (ωs θ)) Ds) (fun t => qObj lam (ωs t) (evalL fs t)) θ := by
  have hfix := qObj_fixed_tracks lam (ωs θ) h
  have hd := (qObj_joint_differentiable lam (ωs θ) h).hasFDerivAt
  have hfoc := foc_of_isLocalMin (obj := fun t w => qObj lam w (evalL fs t)) hd hmin
  obtain ⟨h1, h2⟩ := envelope_foc (obj := fun t w => qObj lam w (evalL fs t)) hd hω hfoc
  have e := h2.unique hfix.2
  rw [e] at h1
  exact ⟨hfix.1, h1⟩

end PfVerif.C14MultiAux

/-! ## the property theorems -/

namespace PfVerif.C14Multi
open PfVerif PfVerif.C14Aux PfVerif.C14MultiAux Topology

variable {θ : ℝ}

/-! ### `H ≥ 1` hedging instruments: transposition, P&L, one path -/

/-- **`output.transpose(-1, -2)` preserves tracking**: on a hedge whose rows (time steps) carry the
derivatives of the real rows, the dual and the real transposition raise "unmatched sizes"
together, or the dual position series (one per instrument) carry the derivatives of the real
ones -/
theorem transposeHT_dual_correct {Xs : List (List (Dual ℝ))} {xs : ℝ → List (List ℝ)}
    (h : TracksCC Xs xs θ) (H : ℕ) :
    TracksE (fun U u => TracksCC U u θ) (transposeHT H Xs) (fun t => transposeHT H (xs t)) :=
  transposeHT_tracks h H

/-- **P&L of `H` instruments with per-instrument kink conditions**: constant prices `Ss`, cost
rates `cs`, optional payoff `z`; tracked position series.  The kink conditions (no position change
exactly zero unless it vanishes identically near `θ`; with `first`, initial position not zero)
are required only of the instruments whose cost rate is not zero — with zero costs there is no
hypothesis at all. -/
theorem plPath_dual_correct_costaware (Ss : List (List ℝ)) (cs : List ℝ) (z : Option ℝ)
    (first : Bool) {Us : List (List (Dual ℝ))} {uss : List (List (ℝ → ℝ))}
    (hU : TracksLL Us uss θ)
    (hk : ∀ cu ∈ cs.zip uss, cu.1 ≠ 0 → NoKink cu.2 θ)
    (hk0 : first = true → ∀ cu ∈ cs.zip uss, cu.1 ≠ 0 → NoKink0 cu.2 θ) :
    Tracks (plPath (Ss.map (List.map lift)) Us (some (cs.map lift)) (z.map lift) first)
      (fun t => plPath Ss (uss.map (fun us => us.map (fun u => u t))) (some cs) z first) θ :=
  plPath_const_tracks Ss cs z first hU hk hk0

/-- **`Hedger.compute_pl`, one path, `H ≥ 1` hedging instruments** (`hedgerPL`,
Model/HedgerPL.lean — what the driver op "grad_h" executes at `Dual Float`).  Prices of primary
and listed (`a·S + b`) instruments, cost rates, payoff specification and clauses are constants;
the dual module `G` tracks the real module `g t` at the module inputs met on this path.  At a
generic point (`PathGenericH`: for every instrument with a non-zero cost rate no position change
at a kink of `|·|`, and no zero initial position when the initial cost is charged): the dual and
the real evaluation raise the same error for every parameter value (no instruments / ragged
prices, a feature error, the module's column count ≠ `H`, the payoff), or the ε-part of the dual
P&L is the derivative of the real P&L. -/
theorem hedgerPL_dual_correct {G : List (Dual ℝ) → List (Dual ℝ)} {g : ℝ → List ℝ → List ℝ}
    {Fs : List (Feature (Dual ℝ))} {fs : List (ℝ → Feature ℝ)} (hF : FeatsRel θ Fs fs)
    (m : Market ℝ) (hs : List (HedgeInstr ℝ)) (p : PayoffSpec ℝ) (reg : List (String × Clause ℝ))
    (first : Bool)
    (hG : ∀ X ∈ hedgeInputs G Fs (liftMkt m) (hedgeN hs) hs.length, ∀ x, TracksC X x θ →
      TracksC (G X) (fun t => g t (x t)) θ)
    (hgen : PathGenericH (g θ) (featsAt fs θ) m hs first) :
    TracksE (fun D f => Tracks D f θ)
      (hedgerPL G Fs (Dual.liftMarket m) (hs.map Dual.liftInstr) (Dual.liftSpec p)
        (Dual.liftReg reg) first)
      (fun t => hedgerPL (g t) (featsAt fs t) m hs p reg first) :=
  hedgerPL_tracks hF m hs p reg first hG hgen

/-- the same for `Hedger.compute_portfolio` -/
theorem hedgerPortfolio_dual_correct {G : List (Dual ℝ) → List (Dual ℝ)}
    {g : ℝ → List ℝ → List ℝ} {Fs : List (Feature (Dual ℝ))} {fs : List (ℝ → Feature ℝ)}
    (hF : FeatsRel θ Fs fs) (m : Market ℝ) (hs : List (HedgeInstr ℝ)) (first : Bool)
    (hG : ∀ X ∈ hedgeInputs G Fs (liftMkt m) (hedgeN hs) hs.length, ∀ x, TracksC X x θ →
      TracksC (G X) (fun t => g t (x t)) θ)
    (hgen : PathGenericH (g θ) (featsAt fs θ) m hs first) :
    TracksE (fun D f => Tracks D f θ)
      (hedgerPortfolio G Fs (Dual.liftMarket m) (hs.map Dual.liftInstr) first)
      (fun t => hedgerPortfolio (g t) (featsAt fs t) m hs first) :=
  hedgerPortfolio_tracks hF m hs first hG hgen

/-- the market / feature constants of Model/Loss.lean (used by the driver) are those of Props/C14 -/
theorem liftMarket_eq_liftMkt (m : Market ℝ) : Dual.liftMarket m = liftMkt m := rfl

theorem liftBase_eq_liftBase (b : BaseFeature ℝ) : Dual.liftBase b = C14Aux.liftBase b :=
  liftBase_eq b

/-! ### criteria -/

/-- `x.pow(c)` on dual numbers (Model/Loss.lean), constant exponent, base away from `0` -/
theorem pow_dual_correct {A : Dual ℝ} {f : ℝ → ℝ} (ha : Tracks A f θ) (h0 : f θ ≠ 0) (c : ℝ) :
    Tracks (TranscPow.pow A (lift c)) (fun t => f t ^ c) θ := tracks_pow_const ha h0 c

/-- **isoelastic loss** (`a = 1`: `−mean log x`; otherwise `−mean x^(1−a)`) on positive wealth -/
theorem iso_dual_correct (one : Bool) (a : ℝ) {Ds : List (Dual ℝ)} {fs : List (ℝ → ℝ)}
    (h : TracksL Ds fs θ) (hpos : ∀ f ∈ fs, 0 < f θ) :
    Tracks (isoelasticLoss one (lift a) Ds)
      (fun t => isoelasticLoss one a (fs.map (fun f => f t))) θ :=
  iso_tracks one a h (by
    intro x hx
    obtain ⟨f, hf, rfl⟩ := List.mem_map.1 hx
    exact hpos f hf)

/-- … in explicit form: logarithmic utility -/
theorem iso_dual_correct_log (a : ℝ) {Ds : List (Dual ℝ)} {fs : List (ℝ → ℝ)}
    (h : TracksL Ds fs θ) (hpos : ∀ f ∈ fs, 0 < f θ) :
    Tracks (isoelasticLoss true (lift a) Ds)
      (fun t => -((fs.map (fun f => Real.log (f t))).sum / (fs.length : ℝ))) θ :=
  (iso_dual_correct true a h hpos).congr fun t => by
    simp [isoelasticLoss, isoelasticUtility, C04ERMAux.sumL_eq_sum, Transc.log, Function.comp_def]

/-- … power utility `x^(1−a)` -/
theorem iso_dual_correct_pow (a : ℝ) {Ds : List (Dual ℝ)} {fs : List (ℝ → ℝ)}
    (h : TracksL Ds fs θ) (hpos : ∀ f ∈ fs, 0 < f θ) :
    Tracks (isoelasticLoss false (lift a) Ds)
      (fun t => -((fs.map (fun f => f t ^ (1 - a))).sum / (fs.length : ℝ))) θ :=
  (iso_dual_correct false a h hpos).congr fun t => by
    simp [isoelasticLoss, isoelasticUtility, C04ERMAux.sumL_eq_sum, TranscPow.pow,
      Function.comp_def]

/-- **OCE** `w − mean u(x + w)`: a utility whose dual version `U` tracks `u`, the scalar `w` and
the sample all tracked — covers the derivative with respect to a model parameter (`W` a constant)
and with respect to `w` itself (`W` the differentiation variable) -/
theorem oce_dual_correct {U : Dual ℝ → Dual ℝ} {u : ℝ → ℝ}
    (hU : ∀ D f, Tracks D f θ → Tracks (U D) (fun t => u (f t)) θ)
    {W : Dual ℝ} {w : ℝ → ℝ} (hW : Tracks W w θ) {Ds : List (Dual ℝ)} {fs : List (ℝ → ℝ)}
    (h : TracksL Ds fs θ) :
    Tracks (oce U W Ds) (fun t => oce u (w t) (fs.map (fun f => f t))) θ := oce_tracks hU hW h

/-- the derivative of OCE with respect to a model parameter: `w` fixed -/
theorem oce_dual_correct_param {U : Dual ℝ → Dual ℝ} {u : ℝ → ℝ}
    (hU : ∀ D f, Tracks D f θ → Tracks (U D) (fun t => u (f t)) θ) (w : ℝ)
    {Ds : List (Dual ℝ)} {fs : List (ℝ → ℝ)} (h : TracksL Ds fs θ) :
    HasDerivAt (fun t => oce u w (fs.map (fun f => f t))) (oce U (lift w) Ds).eps θ :=
  (oce_tracks hU (tracks_lift w) h).2

/-- the derivative of OCE with respect to its own parameter `w` at `w = θ`, sample fixed -/
theorem oce_dual_correct_w {U : Dual ℝ → Dual ℝ} {u : ℝ → ℝ}
    (hU : ∀ D f, Tracks D f θ → Tracks (U D) (fun t => u (f t)) θ) (xs : List ℝ) :
    HasDerivAt (fun w => oce u w xs) (oce U ⟨θ, 1⟩ (xs.map lift)).eps θ := by
  have h := oce_tracks hU (tracks_var' (θ := θ)) (tracksL_lift xs)
  exact h.2.congr_of_eventuallyEq (Filter.Eventually.of_forall fun t => by
    show oce u t xs = oce u t (evalL (constL xs) t)
    rw [evalL_constL])

/-- the two utilities of the harness (`Utility`, Model/Loss.lean) are compatible -/
theorem utility_dual_correct (u : Utility ℝ) {D : Dual ℝ} {f : ℝ → ℝ} (h : Tracks D f θ) :
    Tracks ((Dual.liftUtility u).eval D) (fun t => u.eval (f t)) θ := utility_tracks u h

/-- any differentiable utility, as the dual function `D ↦ ⟨u D.val, D.eps · u' D.val⟩`, is
compatible -/
theorem differentiable_utility_dual_correct {u u' : ℝ → ℝ} (hu : ∀ x, HasDerivAt u (u' x) x)
    {D : Dual ℝ} {f : ℝ → ℝ} (h : Tracks D f θ) :
    Tracks (dualOfDeriv u u' D) (fun t => u (f t)) θ := dualOfDeriv_tracks hu h

/-- **all criteria of `CritH`** (the five of Props/C14, isoelastic, OCE) as a tracking pair, at
the criterion's generic points (ES: no tie at the cut; isoelastic: positive wealth) -/
theorem applyCritH_dual_correct (c : CritH ℝ) {Ds : List (Dual ℝ)} {fs : List (ℝ → ℝ)}
    (h : TracksL Ds fs θ) (hgen : CritHGeneric c (evalL fs θ)) :
    TracksE (fun D f => Tracks D f θ) (applyCritH (Dual.liftCrit false c) Ds)
      (fun t => applyCritH c (fs.map (fun f => f t))) := applyCritH_tracks c Ds fs h hgen

/-! ### the whole chain, `H ≥ 1` -/

/-- **C14, the whole chain for `H ≥ 1` hedging instruments and a general criterion.**
`lossOfH` (Model/Loss.lean): on every path of the batch features → module with the recurrent
`prev_hedge` → hedge → transposition → prices, cost rates, payoff → P&L, then the criterion.  The
criterion is any pair (dual evaluation `CD`, real evaluation `cR t`) that tracks at its generic
points `P` (`CritTracks`).  The dual and the real loss fail with the same error for every
parameter value, or the dual loss carries value and derivative of the real loss. -/
theorem lossH_tracks {G : List (Dual ℝ) → List (Dual ℝ)} {g : ℝ → List ℝ → List ℝ}
    {Fs : List (Feature (Dual ℝ))} {fs : List (ℝ → Feature ℝ)} (hF : FeatsRel θ Fs fs)
    (ps : List (Market ℝ × List (HedgeInstr ℝ))) (p : PayoffSpec ℝ)
    (reg : List (String × Clause ℝ)) (first : Bool)
    {CD : List (Dual ℝ) → Except Err (Dual ℝ)} {cR : ℝ → List ℝ → Except Err ℝ}
    {P : List ℝ → Prop} (hC : CritTracks θ CD cR P)
    (hG : ∀ mh ∈ ps, ∀ X ∈ hedgeInputs G Fs (liftMkt mh.1) (hedgeN mh.2) mh.2.length,
      ∀ x, TracksC X x θ → TracksC (G X) (fun t => g t (x t)) θ)
    (hpath : ∀ mh ∈ ps, PathGenericH (g θ) (featsAt fs θ) mh.1 mh.2 first)
    (hcrit : ∀ pls, ps.mapM (fun mh => hedgerPL (g θ) (featsAt fs θ) mh.1 mh.2 p reg first)
      = .ok pls → P pls) :
    TracksE (fun D f => Tracks D f θ)
      (lossOfH G Fs (Dual.liftPaths ps) (Dual.liftSpec p) (Dual.liftReg reg) first CD)
      (fun t => lossOfH (g t) (featsAt fs t) ps p reg first (cR t)) :=
  lossOfH_tracks hF ps p reg first hC hG hpath hcrit

/-- … in the `HasDerivAt` form of `C14.loss_gradient`: if the dual evaluation succeeds with `L`,
the real loss is defined for every parameter value, `L.val` is its value and `L.eps` its
derivative at `θ` -/
theorem lossH_gradient {G : List (Dual ℝ) → List (Dual ℝ)} {g : ℝ → List ℝ → List ℝ}
    {Fs : List (Feature (Dual ℝ))} {fs : List (ℝ → Feature ℝ)} (hF : FeatsRel θ Fs fs)
    (ps : List (Market ℝ × List (HedgeInstr ℝ))) (p : PayoffSpec ℝ)
    (reg : List (String × Clause ℝ)) (first : Bool)
    {CD : List (Dual ℝ) → Except Err (Dual ℝ)} {cR : ℝ → List ℝ → Except Err ℝ}
    {P : List ℝ → Prop} (hC : CritTracks θ CD cR P)
    (hG : ∀ mh ∈ ps, ∀ X ∈ hedgeInputs G Fs (liftMkt mh.1) (hedgeN mh.2) mh.2.length,
      ∀ x, TracksC X x θ → TracksC (G X) (fun t => g t (x t)) θ)
    (hpath : ∀ mh ∈ ps, PathGenericH (g θ) (featsAt fs θ) mh.1 mh.2 first)
    (hcrit : ∀ pls, ps.mapM (fun mh => hedgerPL (g θ) (featsAt fs θ) mh.1 mh.2 p reg first)
      = .ok pls → P pls)
    {L : Dual ℝ}
    (hok : lossOfH G Fs (Dual.liftPaths ps) (Dual.liftSpec p) (Dual.liftReg reg) first CD = .ok L) :
    ∃ ℓ : ℝ → ℝ, (∀ t, lossOfH (g t) (featsAt fs t) ps p reg first (cR t) = .ok (ℓ t)) ∧
      L.val = ℓ θ ∧ HasDerivAt ℓ L.eps θ := by
  obtain ⟨ℓ, h1, h2⟩ := (lossOfH_tracks hF ps p reg first hC hG hpath hcrit).of_ok hok
  exact ⟨ℓ, h1, h2.1, h2.2⟩

/-- the dual and the real evaluation fail together, with the same error -/
theorem lossH_error_agree {G : List (Dual ℝ) → List (Dual ℝ)} {g : ℝ → List ℝ → List ℝ}
    {Fs : List (Feature (Dual ℝ))} {fs : List (ℝ → Feature ℝ)} (hF : FeatsRel θ Fs fs)
    (ps : List (Market ℝ × List (HedgeInstr ℝ))) (p : PayoffSpec ℝ)
    (reg : List (String × Clause ℝ)) (first : Bool)
    {CD : List (Dual ℝ) → Except Err (Dual ℝ)} {cR : ℝ → List ℝ → Except Err ℝ}
    {P : List ℝ → Prop} (hC : CritTracks θ CD cR P)
    (hG : ∀ mh ∈ ps, ∀ X ∈ hedgeInputs G Fs (liftMkt mh.1) (hedgeN mh.2) mh.2.length,
      ∀ x, TracksC X x θ → TracksC (G X) (fun t => g t (x t)) θ)
    (hpath : ∀ mh ∈ ps, PathGenericH (g θ) (featsAt fs θ) mh.1 mh.2 first)
    (hcrit : ∀ pls, ps.mapM (fun mh => hedgerPL (g θ) (featsAt fs θ) mh.1 mh.2 p reg first)
      = .ok pls → P pls)
    {e : Err}
    (herr : lossOfH G Fs (Dual.liftPaths ps) (Dual.liftSpec p) (Dual.liftReg reg) first CD
      = .error e) :
    ∀ t, lossOfH (g t) (featsAt fs t) ps p reg first (cR t) = .error e := by
  have h := lossOfH_tracks hF ps p reg first hC hG hpath hcrit
  rw [herr] at h
  exact h

/-- **the criteria of `CritH`, derivative with respect to a model parameter** (the criterion's
coefficients and OCE's `w` are constants) -/
theorem lossH_gradient_crit {G : List (Dual ℝ) → List (Dual ℝ)} {g : ℝ → List ℝ → List ℝ}
    {Fs : List (Feature (Dual ℝ))} {fs : List (ℝ → Feature ℝ)} (hF : FeatsRel θ Fs fs)
    (ps : List (Market ℝ × List (HedgeInstr ℝ))) (p : PayoffSpec ℝ)
    (reg : List (String × Clause ℝ)) (first : Bool) (crit : CritH ℝ)
    (hG : ∀ mh ∈ ps, ∀ X ∈ hedgeInputs G Fs (liftMkt mh.1) (hedgeN mh.2) mh.2.length,
      ∀ x, TracksC X x θ → TracksC (G X) (fun t => g t (x t)) θ)
    (hpath : ∀ mh ∈ ps, PathGenericH (g θ) (featsAt fs θ) mh.1 mh.2 first)
    (hcrit : ∀ pls, ps.mapM (fun mh => hedgerPL (g θ) (featsAt fs θ) mh.1 mh.2 p reg first)
      = .ok pls → CritHGeneric crit pls)
    {L : Dual ℝ}
    (hok : lossOfH G Fs (Dual.liftPaths ps) (Dual.liftSpec p) (Dual.liftReg reg) first
      (applyCritH (Dual.liftCrit false crit)) = .ok L) :
    ∃ ℓ : ℝ → ℝ,
      (∀ t, lossOfH (g t) (featsAt fs t) ps p reg first (applyCritH crit) = .ok (ℓ t)) ∧
      L.val = ℓ θ ∧ HasDerivAt ℓ L.eps θ :=
  lossH_gradient hF ps p reg first (applyCritH_tracks crit) hG hpath hcrit hok

/-- **OCE, derivative with respect to its own trainable scalar `w`** (the hedging module's
parameters are held fixed: `G` tracks the constant family `fun _ => g`): the ε-part of the loss
evaluated with `w` seeded is `∂ loss / ∂ w` at `w` -/
theorem lossH_gradient_w {G : List (Dual ℝ) → List (Dual ℝ)} {g : List ℝ → List ℝ}
    {Fs : List (Feature (Dual ℝ))} {fs : List (Feature ℝ)} (w : ℝ)
    (hF : FeatsRel w Fs (fs.map (fun f _ => f)))
    (ps : List (Market ℝ × List (HedgeInstr ℝ))) (p : PayoffSpec ℝ)
    (reg : List (String × Clause ℝ)) (first : Bool) (u : Utility ℝ)
    (hG : ∀ mh ∈ ps, ∀ X ∈ hedgeInputs G Fs (liftMkt mh.1) (hedgeN mh.2) mh.2.length,
      ∀ x, TracksC X x w → TracksC (G X) (fun t => g (x t)) w)
    (hpath : ∀ mh ∈ ps, PathGenericH g fs mh.1 mh.2 first)
    {L : Dual ℝ}
    (hok : lossOfH G Fs (Dual.liftPaths ps) (Dual.liftSpec p) (Dual.liftReg reg) first
      (applyCritH (Dual.liftCrit true (.oce u w))) = .ok L) :
    ∃ ℓ : ℝ → ℝ,
      (∀ w', lossOfH g fs ps p reg first (applyCritH (.oce u w')) = .ok (ℓ w')) ∧
      L.val = ℓ w ∧ HasDerivAt ℓ L.eps w := by
  have hfs : ∀ t, featsAt (fs.map (fun f (_ : ℝ) => f)) t = fs := by
    intro t; simp [featsAt, Function.comp_def]
  obtain ⟨ℓ, h1, h2, h3⟩ := lossH_gradient (θ := w) (g := fun _ => g) hF ps p reg first
    (applyCritH_tracks_w (.oce u w)) hG (by simpa only [hfs] using hpath)
    (fun _ _ => trivial) hok
  refine ⟨ℓ, fun w' => ?_, h2, h3⟩
  have := h1 w'
  simpa only [hfs, shiftW, add_sub_cancel] using this

/-- **C14 for the harness configuration, `H ≥ 1`**: base features (with `PrevHedge`, whose width
is `H`), a ReLU MLP with `H` outputs whose weights and biases are tracked (one seeded with ε = 1,
the others constants: the partial derivative), primary and listed hedging instruments with their
own cost rates, any criterion of `CritH`.  Generic point: on every path no hidden pre-activation
at an encountered input is exactly zero, and no kink of a cost term (`PathGenericH`). -/
theorem lossH_gradient_mlp {Ls : List LayerD} {ls : List LayerF} (hL : TracksLayers Ls ls θ)
    (bs : List (BaseFeature ℝ))
    (ps : List (Market ℝ × List (HedgeInstr ℝ))) (p : PayoffSpec ℝ)
    (reg : List (String × Clause ℝ)) (first : Bool) (crit : CritH ℝ)
    (hrelu : ∀ mh ∈ ps, ∀ X ∈ hedgeInputs (mlpL Ls)
      (bs.map (fun b => Feature.base (Dual.liftBase b))) (Dual.liftMarket mh.1) (hedgeN mh.2)
      mh.2.length, mlpGeneric (evalLayers ls θ) (X.map Dual.val))
    (hpath : ∀ mh ∈ ps,
      PathGenericH (mlpL (evalLayers ls θ)) (bs.map Feature.base) mh.1 mh.2 first)
    (hcrit : ∀ pls, ps.mapM (fun mh => hedgerPL (mlpL (evalLayers ls θ)) (bs.map Feature.base)
      mh.1 mh.2 p reg first) = .ok pls → CritHGeneric crit pls)
    {L : Dual ℝ}
    (hok : lossOfH (mlpL Ls) (bs.map (fun b => Feature.base (Dual.liftBase b)))
      (Dual.liftPaths ps) (Dual.liftSpec p) (Dual.liftReg reg) first
      (applyCritH (Dual.liftCrit false crit)) = .ok L) :
    ∃ ℓ : ℝ → ℝ,
      (∀ t, lossOfH (mlpL (evalLayers ls t)) (bs.map Feature.base) ps p reg first
        (applyCritH crit) = .ok (ℓ t)) ∧
      L.val = ℓ θ ∧ HasDerivAt ℓ L.eps θ := by
  have hb : bs.map (fun b => Feature.base (Dual.liftBase b))
      = bs.map (fun b => Feature.base (C14Aux.liftBase b)) :=
    List.map_congr_left fun b _ => by rw [liftBase_eq]
  rw [hb] at hrelu hok
  have h := lossH_gradient_crit (θ := θ) (G := mlpL Ls) (g := fun t => mlpL (evalLayers ls t))
    (featsRel_base bs) ps p reg first crit
    (fun mh hmh X hX x hx => by
      refine mlp_compat hL hx ?_
      obtain ⟨xs, hxs, e⟩ := hx
      rw [e θ, ← hxs.val_eq]
      exact hrelu mh hmh X hX)
    (by simpa only [featsAt_base] using hpath)
    (by simpa only [featsAt_base] using hcrit) hok
  simpa only [featsAt_base] using h

end PfVerif.C14Multi

/-! ### `H = 1`: the theorems of Props/C14 are the special case -/

namespace PfVerif.C14MultiAux
open PfVerif PfVerif.C14Aux Topology

/-- the criteria of Props/C14 inside `CritH` -/
def ofCrit : Crit ℝ → CritH ℝ
  | .erm a => .erm a
  | .es k => .es k
  | .eloss a => .eloss a
  | .mse => .mse
  | .mean => .mean

/-- the batch of Props/C14 (market, payoff) as a batch of `lossOfH`: every path hedged with the
derivative's own underlier at cost rate `c` -/
def onePaths (c : ℝ) (ms : List (Market ℝ × ℝ)) : List (Market ℝ × List (HedgeInstr ℝ)) :=
  ms.map (fun mz => (mz.1, [(⟨.primary mz.1.spot, c⟩ : HedgeInstr ℝ)]))

theorem colD_zero_eq_unitOf (rows : List (List ℝ)) (h : ∀ r ∈ rows, r.length = 1) :
    colD 0 0 rows = unitOf rows := by
  unfold colD unitOf
  apply List.map_congr_left
  intro r hr
  have := h r hr
  match r, this with
  | [x], _ => rfl

theorem pathGenericH_one {g : List ℝ → List ℝ} {fs : List (Feature ℝ)} {m : Market ℝ} {c : ℝ}
    {first : Bool} (h : PathGeneric g fs m m.spot.length first) :
    PathGenericH g fs m [⟨.primary m.spot, c⟩] first := by
  intro rows units hr ht cu hcu _
  have hn : hedgeN [(⟨.primary m.spot, c⟩ : HedgeInstr ℝ)] = m.spot.length := rfl
  rw [hn] at hr
  simp only [List.length_cons, List.length_nil, Nat.zero_add] at hr ht
  obtain ⟨h1, h2⟩ := h rows hr
  have hw := C01HedgerAux.transposeHT_ok ht
  rw [transposeHT_eq_colsD 0 1 rows, if_pos ((C01HedgerAux.all_length_iff rows 1).2 hw)] at ht
  cases ht
  have : cu.2 = unitOf rows := by
    simp only [colsD, List.range'_one, List.map_cons, List.map_nil, List.zip_cons_cons,
      List.zip_nil_right, List.mem_singleton] at hcu
    rw [hcu]
    exact colD_zero_eq_unitOf rows hw
  rw [this]
  exact ⟨h1, h2⟩

theorem mapM_one_eq (g : List ℝ → List ℝ) (hg : ∀ x, (g x).length = 1) (fs : List (Feature ℝ))
    (ms : List (Market ℝ × ℝ)) (n : ℕ) (c : ℝ) (p : PayoffSpec ℝ) (reg : List (String × Clause ℝ))
    (first : Bool)
    (hms : ∀ mz ∈ ms, mz.1.spot.length = n ∧ derivPayoff p reg mz.1.spot = .ok mz.2) :
    (onePaths c ms).mapM (fun mh => hedgerPL g fs mh.1 mh.2 p reg first)
      = ms.mapM (fun mz => pathPL g fs mz.1 n c mz.2 first) := by
  unfold onePaths
  induction ms with
  | nil => rfl
  | cons mz ms ih =>
    obtain ⟨hn, hz⟩ := hms mz List.mem_cons_self
    simp only [List.map_cons, List.mapM_cons]
    rw [C01HedgerC14.hedgerPL_eq_pathPL g hg fs mz.1 c p reg first mz.2 hz, hn,
      ih (fun mz' h' => hms mz' (List.mem_cons_of_mem _ h'))]

end PfVerif.C14MultiAux

namespace PfVerif.C14Multi
open PfVerif PfVerif.C14Aux PfVerif.C14MultiAux Topology

variable {θ : ℝ}

theorem applyCritH_ofCrit (c : Crit ℝ) (pls : List ℝ) :
    applyCritH (ofCrit c) pls = applyCrit c pls := by cases c <;> rfl

/-- for one primary hedging instrument — the derivative's own underlier — the generic-point
condition of Props/C14 implies the one used here -/
theorem pathGenericH_of_pathGeneric {g : List ℝ → List ℝ} {fs : List (Feature ℝ)} {m : Market ℝ}
    {c : ℝ} {first : Bool} (h : PathGeneric g fs m m.spot.length first) :
    PathGenericH g fs m [⟨.primary m.spot, c⟩] first := pathGenericH_one h

/-- **`lossOf` of Props/C14 is `lossOfH` with `H = 1`**: one primary hedging instrument (the
derivative's own underlier, `n` time points, cost rate `c`), the payoff `z` of each path being
`derivative.payoff()`, a module with one output (via `C01HedgerC14.hedgerPL_eq_pathPL`) -/
theorem lossOfH_one_eq_lossOf (g : List ℝ → List ℝ) (hg : ∀ x, (g x).length = 1)
    (fs : List (Feature ℝ)) (ms : List (Market ℝ × ℝ)) (n : ℕ) (c : ℝ) (p : PayoffSpec ℝ)
    (reg : List (String × Clause ℝ)) (first : Bool) (crit : Crit ℝ)
    (hms : ∀ mz ∈ ms, mz.1.spot.length = n ∧ derivPayoff p reg mz.1.spot = .ok mz.2) :
    lossOfH g fs (onePaths c ms) p reg first (applyCritH (ofCrit crit))
      = lossOf g fs ms n c first crit := by
  unfold lossOfH lossOf
  rw [mapM_one_eq g hg fs ms n c p reg first hms]
  congr 1
  funext pls
  exact applyCritH_ofCrit crit pls

/-- **`C14.loss_gradient` is the `H = 1` case of `lossH_gradient_crit`**: under the hypotheses of
`C14.loss_gradient` (generic points `PathGeneric` / `CritGeneric` of Props/C14), a successful dual
evaluation of `lossOfH` on the one-instrument batch carries value and derivative of the loss
`lossOf` of Props/C14 -/
theorem lossH_gradient_one {G : List (Dual ℝ) → List (Dual ℝ)} {g : ℝ → List ℝ → List ℝ}
    {Fs : List (Feature (Dual ℝ))} {fs : List (ℝ → Feature ℝ)} (hF : FeatsRel θ Fs fs)
    (hg : ∀ t x, (g t x).length = 1)
    (ms : List (Market ℝ × ℝ)) (n : ℕ) (c : ℝ) (p : PayoffSpec ℝ) (reg : List (String × Clause ℝ))
    (first : Bool) (crit : Crit ℝ)
    (hms : ∀ mz ∈ ms, mz.1.spot.length = n ∧ derivPayoff p reg mz.1.spot = .ok mz.2)
    (hG : ∀ mz ∈ ms, ∀ X ∈ hedgeInputs G Fs (liftMkt mz.1) n 1,
      ∀ x, TracksC X x θ → TracksC (G X) (fun t => g t (x t)) θ)
    (hpath : ∀ mz ∈ ms, PathGeneric (g θ) (featsAt fs θ) mz.1 n first)
    (hcrit : ∀ pls, ms.mapM (fun mz => pathPL (g θ) (featsAt fs θ) mz.1 n c mz.2 first) = .ok pls →
      CritGeneric crit pls)
    {L : Dual ℝ}
    (hok : lossOfH G Fs (Dual.liftPaths (onePaths c ms)) (Dual.liftSpec p) (Dual.liftReg reg) first
      (applyCritH (Dual.liftCrit false (ofCrit crit))) = .ok L) :
    ∃ ℓ : ℝ → ℝ, (∀ t, lossOf (g t) (featsAt fs t) ms n c first crit = .ok (ℓ t)) ∧
      L.val = ℓ θ ∧ HasDerivAt ℓ L.eps θ := by
  obtain ⟨ℓ, h1, h2, h3⟩ := lossH_gradient_crit hF (onePaths c ms) p reg first (ofCrit crit)
    (by
      intro mh hmh
      obtain ⟨mz, hmz, rfl⟩ := List.mem_map.1 hmh
      have hn : hedgeN [(⟨.primary mz.1.spot, c⟩ : HedgeInstr ℝ)] = n := (hms mz hmz).1
      simpa only [hn, List.length_cons, List.length_nil, Nat.zero_add] using hG mz hmz)
    (by
      intro mh hmh
      obtain ⟨mz, hmz, rfl⟩ := List.mem_map.1 hmh
      have := hpath mz hmz
      rw [← (hms mz hmz).1] at this
      exact pathGenericH_one this)
    (by
      intro pls hpls
      rw [mapM_one_eq (g θ) (hg θ) _ ms n c p reg first hms] at hpls
      have := hcrit pls hpls
      cases crit <;> exact this)
    hok
  refine ⟨ℓ, fun t => ?_, h2, h3⟩
  rw [← lossOfH_one_eq_lossOf (g t) (hg t) (featsAt fs t) ms n c p reg first crit hms]
  exact h1 t

end PfVerif.C14Multi

/-! ### non-vacuity: two hedging instruments, recurrent module, non-zero costs -/

namespace PfVerif.C14MultiAux
open PfVerif PfVerif.C14Aux

/-- a primary instrument (cost rate `1`) and a listed derivative priced `2 S + 1` on another
underlier (cost rate `1/2`) -/
noncomputable def exHs2 : List (HedgeInstr ℝ) :=
  [⟨.primary [1, 2, 4], 1⟩, ⟨.listed 2 1 [1, 3, 2], 1 / 2⟩]

/-- one affine layer with two outputs on the input `(prev₀, prev₁, S)`:
`out₀ = w·S`, `out₁ = prev₀ + S`, at `w = 1`, `w` seeded -/
def exLin2 : List LayerD :=
  [([[⟨0, 0⟩, ⟨0, 0⟩, ⟨1, 1⟩], [⟨1, 0⟩, ⟨0, 0⟩, ⟨1, 0⟩]], [⟨0, 0⟩, ⟨0, 0⟩])]
noncomputable def exLin2F : List LayerF :=
  [([[fun _ => 0, fun _ => 0, fun t => t], [fun _ => 1, fun _ => 0, fun _ => 1]],
    [fun _ => 0, fun _ => 0])]

noncomputable def exPay : PayoffSpec ℝ := ⟨.european, true, 1⟩

end PfVerif.C14MultiAux

namespace PfVerif.C14Multi
open PfVerif PfVerif.C14Aux PfVerif.C14MultiAux Topology

/-- the whole chain at dual numbers on a concrete path: features `(PrevHedge, spot)` (input
width `H + 1 = 3`), the recurrent two-output module above, `H = 2` instruments (prices `(1,2,4)`
and `2·(1,3,2)+1 = (3,7,5)`, cost rates `1`, `1/2`), a call of strike `1`, criterion `−mean`.
Positions `(w, 2w, 2w)` and `(1, w+2, w+2)`:
`pl(w) = 5w − 2w − 3 − (2|w| + 7/2·|w+1|) − (|w| + 3/2) = −7/2·w − 8` near `w = 1` -/
theorem example_lossH_dual :
    lossOfH (mlpL exLin2) (exFeats.map (fun b => Feature.base (Dual.liftBase b)))
      (Dual.liftPaths [(exMkt, exHs2)]) (Dual.liftSpec exPay) (Dual.liftReg []) true
      (applyCritH (Dual.liftCrit false .mean)) = .ok ⟨23 / 2, 7 / 2⟩ := by
  simp [lossOfH, hedgerPL, hedgerSpotUnit, stackPrices, nSteps, PriceSrc.prices, computeHedge,
    hedgeLoop, inputsAt, Feature.getAt, BaseFeature.getAt, idx, logIf, appendLast, lastL,
    transposeHT, colsFrom, colAt, derivPayoff, PayoffSpec.eval, europeanPayoff, reluS,
    applyClauses, Dual.liftPaths, Dual.liftMarket, Dual.liftInstr, Dual.liftSrc, Dual.liftSpec,
    Dual.liftReg, Dual.liftCrit, Dual.liftBase, Dual.const, exFeats, exMkt, exHs2, exLin2, exPay,
    mlpL, linearL, dotL, Feature.stateDependent, BaseFeature.stateDependent, applyCritH, meanR,
    plPath, gains1, cost1, first1, zipWith3L, sumL, mulL, initL, diffL, tailL, absS,
    Dual.le_iff, bind, Except.bind, pure, Except.pure]
  ext <;> simp <;> norm_num

end PfVerif.C14Multi

namespace PfVerif.C14Multi
open PfVerif PfVerif.C14Aux PfVerif.C14MultiAux Topology

/-- … and `lossH_gradient_mlp` (all of its hypotheses hold here: two instruments with non-zero
cost rates, the recurrent branch, no kink) identifies `7/2` as the partial derivative of the real
loss with respect to the weight `w` at `w = 1` -/
theorem example_lossH_gradient : ∃ ℓ : ℝ → ℝ,
    (∀ t, lossOfH (mlpL (evalLayers exLin2F t)) (exFeats.map Feature.base) [(exMkt, exHs2)] exPay
      [] true (applyCritH .mean) = .ok (ℓ t)) ∧ ℓ 1 = 23 / 2 ∧ HasDerivAt ℓ (7 / 2) 1 := by
  have hL : TracksLayers exLin2 exLin2F 1 :=
    List.Forall₂.cons
      ⟨List.Forall₂.cons
        (TracksL.cons (tracks_const 0) (TracksL.cons (tracks_const 0) (TracksL.single tracks_var')))
        (List.Forall₂.cons
          (TracksL.cons (tracks_const 1) (TracksL.cons (tracks_const 0)
            (TracksL.single (tracks_const 1)))) List.Forall₂.nil),
        TracksL.cons (tracks_const 0) (TracksL.single (tracks_const 0))⟩ List.Forall₂.nil
  obtain ⟨ℓ, h1, h2, h3⟩ := lossH_gradient_mlp hL exFeats [(exMkt, exHs2)] exPay [] true .mean
    (fun _ _ _ _ => trivial)
    (by
      intro mh hmh rows units hr ht cu hcu hc
      rw [List.mem_singleton] at hmh; subst hmh
      simp [hedgeRows, hedgeN, nSteps, PriceSrc.prices, Feature.stateDependent,
        BaseFeature.stateDependent, hedgeLoop, inputsAt, Feature.getAt, BaseFeature.getAt, idx,
        logIf, exFeats, exMkt, exHs2, exLin2F, evalLayers, mlpL, linearL, dotL, sumL, bind,
        Except.bind, pure, Except.pure] at hr
      subst hr
      simp [transposeHT, colsFrom, colAt, idx, exHs2, bind, Except.bind, pure, Except.pure] at ht
      subst ht
      simp [exHs2] at hcu
      rcases hcu with rfl | rfl <;> norm_num [diffL])
    (fun _ _ => trivial) example_lossH_dual
  exact ⟨ℓ, h1, h2.symm, h3⟩

end PfVerif.C14Multi

namespace PfVerif.C14Multi
open PfVerif PfVerif.C14Aux PfVerif.C14MultiAux Topology

/-- the error side is not vacuous: a module with one output for two hedging instruments is `pl`'s
"unmatched sizes" at dual numbers, hence (`lossH_error_agree`) for every real parameter value -/
example : lossOfH (mlpL exLin1) ([BaseFeature.underlierSpot false].map
      (fun b => Feature.base (Dual.liftBase b)))
      (Dual.liftPaths [(exMkt, exHs2)]) (Dual.liftSpec exPay) (Dual.liftReg []) true
      (applyCritH (Dual.liftCrit false .mean)) = .error .runtimeError := by
  simp [lossOfH, hedgerPL, hedgerSpotUnit, stackPrices, nSteps, PriceSrc.prices, computeHedge,
    inputsAll, Feature.getAll, BaseFeature.getAll, dupLast, logIf, transposeHT,
    Dual.liftPaths, Dual.liftMarket, Dual.liftInstr, Dual.liftSrc, Dual.liftBase, Dual.const,
    exMkt, exHs2, exLin1, mlpL, linearL, dotL, Feature.stateDependent,
    BaseFeature.stateDependent, bind, Except.bind, pure, Except.pure]

/-- the `H = 1` specialisation on the recurrent example of Props/C14 (`example_loss_dual`), now
with the payoff computed by the model (call of strike `1` on `(1,2,4)`: `3`):
`loss(w) = −(2w − 3)` -/
theorem example_lossH_one_dual :
    lossOfH (mlpL exLin) (exFeats.map (fun b => Feature.base (C14Aux.liftBase b)))
      (Dual.liftPaths (onePaths 1 [(exMkt, 3)])) (Dual.liftSpec exPay) (Dual.liftReg []) true
      (applyCritH (Dual.liftCrit false (ofCrit .mean))) = .ok ⟨1, -2⟩ := by
  simp [lossOfH, hedgerPL, hedgerSpotUnit, stackPrices, nSteps, PriceSrc.prices, computeHedge,
    hedgeLoop, inputsAt, Feature.getAt, BaseFeature.getAt, idx, logIf, appendLast, lastL,
    transposeHT, colsFrom, colAt, derivPayoff, PayoffSpec.eval, europeanPayoff, reluS,
    applyClauses, Dual.liftPaths, Dual.liftMarket, Dual.liftInstr, Dual.liftSrc, Dual.liftSpec,
    Dual.liftReg, Dual.liftCrit, C14Aux.liftBase, Dual.const, onePaths, ofCrit, exFeats, exMkt,
    exLin, exPay, mlpL, linearL, dotL, Feature.stateDependent, BaseFeature.stateDependent,
    applyCritH, meanR, plPath, gains1, cost1, first1, zipWith3L, sumL, mulL, initL, diffL, tailL,
    absS, Dual.le_iff, bind, Except.bind, pure, Except.pure]
  ext <;> simp <;> norm_num

/-- all hypotheses of `lossH_gradient_one` hold there: the loss `lossOf` of Props/C14 has
derivative `−2` with respect to the seeded weight -/
example : ∃ ℓ : ℝ → ℝ,
    (∀ t, lossOf (mlpL (evalLayers exLinF t)) (exFeats.map Feature.base) [(exMkt, 3)] 3 1 true
      .mean = .ok (ℓ t)) ∧ ℓ 1 = 1 ∧ HasDerivAt ℓ (-2) 1 := by
  have hL : TracksLayers exLin exLinF 1 :=
    List.Forall₂.cons ⟨List.Forall₂.cons (TracksL.cons (tracks_const 1) (TracksL.single tracks_var'))
      List.Forall₂.nil, TracksL.single (tracks_const 0)⟩ List.Forall₂.nil
  obtain ⟨ℓ, h1, h2, h3⟩ := lossH_gradient_one (θ := 1) (G := mlpL exLin)
    (g := fun t => mlpL (evalLayers exLinF t)) (featsRel_base exFeats)
    (by intro t x; simp [exLinF, evalLayers, mlpL, linearL])
    [(exMkt, 3)] 3 1 exPay [] true .mean
    (by
      intro mz hmz
      rw [List.mem_singleton] at hmz; subst hmz
      refine ⟨rfl, ?_⟩
      simp [derivPayoff, PayoffSpec.eval, europeanPayoff, lastL, reluS, applyClauses, exPay, exMkt,
        bind, Except.bind, pure, Except.pure]
      norm_num)
    (fun mz _ X _ x hx => mlp_compat hL hx trivial)
    (by
      intro mz hmz rows h
      rw [List.mem_singleton] at hmz; subst hmz
      simp [hedgeRows, Feature.stateDependent, BaseFeature.stateDependent, hedgeLoop,
        inputsAt, Feature.getAt, BaseFeature.getAt, idx, logIf, exFeats, exMkt, exLinF,
        evalLayers, mlpL, linearL, dotL, sumL, bind, Except.bind, pure, Except.pure] at h
      subst h
      simp [unitOf, diffL])
    (fun _ _ => trivial) example_lossH_one_dual
  refine ⟨ℓ, fun t => ?_, h2.symm, h3⟩
  simpa only [featsAt_base] using h1 t

/-- isoelastic loss with logarithmic utility of the wealths `(t, 2t)` at `t = 1` (positive):
`−(log t + log 2t)/2` has derivative `−1` -/
example : HasDerivAt (fun t : ℝ => isoelasticLoss true 1 [t, 2 * t]) (-1) 1 := by
  have hD : TracksL [(⟨1, 1⟩ : Dual ℝ), ⟨2, 2⟩] [fun t => t, fun t => 2 * t] 1 :=
    TracksL.cons tracks_var'
      (TracksL.single ⟨by norm_num, by simpa using (hasDerivAt_id (1 : ℝ)).const_mul 2⟩)
  have h := iso_dual_correct true 1 hD (by simp)
  have e : (isoelasticLoss true (lift 1) [(⟨1, 1⟩ : Dual ℝ), ⟨2, 2⟩]).eps = -1 := by
    simp [isoelasticLoss, isoelasticUtility, sumL, -Nat.cast_ofNat]
    norm_num
  rw [← e]
  exact h.2

/-- power utility `x^(1/2)` (`a = 1/2`): the hypotheses (positive wealth) are satisfiable -/
example : HasDerivAt (fun t : ℝ => isoelasticLoss false (1 / 2) [t, 4 * t])
    (isoelasticLoss false (lift (1 / 2)) [(⟨1, 1⟩ : Dual ℝ), ⟨4, 4⟩]).eps 1 := by
  have hD : TracksL [(⟨1, 1⟩ : Dual ℝ), ⟨4, 4⟩] [fun t => t, fun t => 4 * t] 1 :=
    TracksL.cons tracks_var'
      (TracksL.single ⟨by norm_num, by simpa using (hasDerivAt_id (1 : ℝ)).const_mul 4⟩)
  exact (iso_dual_correct false (1 / 2) hD (by simp)).2

/-- OCE with `u(x) = 1 − exp(−x)` on the sample `(0)`: `w − (1 − exp(−w))` has derivative `0`
with respect to `w` at `w = 0` (the optimal `w`) -/
example : HasDerivAt (fun w : ℝ => oce (Utility.exp 1).eval w [0]) 0 0 := by
  have h := oce_dual_correct_w (θ := 0) (U := (Dual.liftUtility (Utility.exp 1)).eval)
    (u := (Utility.exp 1).eval) (fun D f hD => utility_dual_correct (Utility.exp 1) hD) [0]
  have e : (oce (Dual.liftUtility (Utility.exp (1 : ℝ))).eval ⟨0, 1⟩ ([(0 : ℝ)].map lift)).eps
      = 0 := by
    simp [oce, Dual.liftUtility, Utility.eval, Dual.const, sumL]
  rw [e] at h
  exact h

/-- … and with respect to a model parameter moving the sample, `x(t) = t`, at fixed `w = 0`:
`−(1 − exp(−t))` has derivative `−1` at `t = 0` -/
example : HasDerivAt (fun t : ℝ => oce (Utility.exp 1).eval 0 [t]) (-1) 0 := by
  have hD : TracksL [(⟨0, 1⟩ : Dual ℝ)] [fun t : ℝ => t] 0 := TracksL.single tracks_var'
  have h := oce_dual_correct_param (θ := 0) (U := (Dual.liftUtility (Utility.exp 1)).eval)
    (u := (Utility.exp 1).eval) (fun D f hD => utility_dual_correct (Utility.exp 1) hD) 0 hD
  have e : (oce (Dual.liftUtility (Utility.exp (1 : ℝ))).eval (lift 0) [(⟨0, 1⟩ : Dual ℝ)]).eps
      = -1 := by
    simp [oce, Dual.liftUtility, Utility.eval, Dual.const, sumL]
  rw [e] at h
  exact h

end PfVerif.C14Multi

/-! ### quadratic CVaR: gradient at a fixed `ω` and the envelope fact -/

namespace PfVerif.C14Multi
open PfVerif PfVerif.C14Aux PfVerif.C14MultiAux Topology

variable {θ : ℝ}

/-- **one-dimensional envelope (Danskin) lemma**, explicit hypotheses: the objective is jointly
differentiable at `(θ, ω*(θ))`, the selection `ω*` is differentiable at `θ`, and `ω*(θ)` is a local
minimiser of `ω ↦ obj θ ω`.  Then the derivative of the optimised objective `t ↦ obj t (ω* t)`
exists and equals the partial derivative in `θ` at fixed `ω = ω*(θ)`. -/
theorem envelope_deriv {obj : ℝ → ℝ → ℝ} {ωs : ℝ → ℝ} {ω' : ℝ}
    (hobj : DifferentiableAt ℝ (fun p : ℝ × ℝ => obj p.1 p.2) (θ, ωs θ))
    (hω : HasDerivAt ωs ω' θ) (hmin : IsLocalMin (fun w => obj θ w) (ωs θ)) :
    ∃ d, HasDerivAt (fun t => obj t (ωs t)) d θ ∧ HasDerivAt (fun t => obj t (ωs θ)) d θ := by
  have hd := hobj.hasFDerivAt
  exact ⟨_, envelope_foc hd hω (foc_of_isLocalMin hd hmin)⟩

/-- `relu(·)²` (the integrand of quadratic CVaR) evaluated at dual numbers carries its derivative
at EVERY point, also at the kink of `relu` -/
theorem relu_sq_dual_correct {Y : Dual ℝ} {y : ℝ → ℝ} (h : Tracks Y y θ) :
    Tracks (reluS Y * reluS Y) (fun t => reluS (y t) * reluS (y t)) θ := tracks_relu_sq h

/-- **what `quadratic_cvar` back-propagates through**: `qObj` (Model/Risk.lean,
`ω + λ·mean(relu(−ω − x)²)`) at a fixed `ω` — the bisection result carries no graph, a constant
at dual numbers — is the partial derivative in the parameter, at every point -/
theorem qObj_fixed_omega_dual_correct (lam ω : ℝ) {Ds : List (Dual ℝ)} {fs : List (ℝ → ℝ)}
    (h : TracksL Ds fs θ) :
    Tracks (qObj (lift lam) (lift ω) Ds) (fun t => qObj lam ω (fs.map (fun f => f t))) θ :=
  qObj_fixed_tracks lam ω h

/-- **the envelope fact for quadratic CVaR**: if the selection `ω*` is differentiable at `θ` and
`ω*(θ)` is a local minimiser of the objective on the sample at `θ`, then the ε-part of `qObj` at
dual numbers with `ω` FIXED at `ω*(θ)` is the derivative of the OPTIMISED objective
`t ↦ qObj λ (ω* t) (sample at t)` -/
theorem qcvar_envelope (lam : ℝ) {Ds : List (Dual ℝ)} {fs : List (ℝ → ℝ)}
    (h : TracksL Ds fs θ) {ωs : ℝ → ℝ} {ω' : ℝ} (hω : HasDerivAt ωs ω' θ)
    (hmin : IsLocalMin (fun w => qObj lam w (evalL fs θ)) (ωs θ)) :
    HasDerivAt (fun t => qObj lam (ωs t) (fs.map (fun f => f t)))
      (qObj (lift lam) (lift (ωs θ)) Ds).eps θ :=
  (qcvar_envelope_tracks lam h hω hmin).2

/-- … in terms of what the bisection of `quadratic_cvar` solves: `ω*(θ)` is a root of
`mean(relu(−ω − x)) = 1/(2λ)` (`qTarget`), `λ > 0` (then it is a global minimiser,
`C04ERM.qcvar_stationary_min`) -/
theorem qcvar_envelope_stationary (lam : ℝ) (hl : 0 < lam) {Ds : List (Dual ℝ)}
    {fs : List (ℝ → ℝ)} (h : TracksL Ds fs θ) {ωs : ℝ → ℝ} {ω' : ℝ} (hω : HasDerivAt ωs ω' θ)
    (hstat : qTarget (ωs θ) (evalL fs θ) = 1 / (2 * lam)) :
    HasDerivAt (fun t => qObj lam (ωs t) (fs.map (fun f => f t)))
      (qObj (lift lam) (lift (ωs θ)) Ds).eps θ :=
  qcvar_envelope lam h hω (Filter.Eventually.of_forall fun w =>
    C04ERM.qcvar_stationary_min lam hl (evalL fs θ) (ωs θ) hstat w)

/-- non-vacuity: `λ = 1/2`, the one-point sample `x(t) = t` at `t = 0`; the minimiser is
`ω*(t) = −t − 1` (root of `relu(−ω − t) = 1`), the optimised objective `−t − 1/2`; the dual
evaluation at fixed `ω = −1` has ε-part `−1` -/
example : HasDerivAt (fun t : ℝ => qObj (1 / 2) (-t - 1) [t]) (-1) 0 := by
  have hD : TracksL [(⟨0, 1⟩ : Dual ℝ)] [fun t : ℝ => t] 0 := TracksL.single tracks_var'
  have hω : HasDerivAt (fun t : ℝ => -t - 1) (-1) 0 := by
    simpa using ((hasDerivAt_id (0 : ℝ)).neg).sub_const 1
  have h := qcvar_envelope_stationary (θ := 0) (1 / 2) (by norm_num) hD hω (by
    simp [qTarget, meanR, sumL, reluS])
  have e : (qObj (lift (1 / 2)) (lift (-(0 : ℝ) - 1)) [(⟨0, 1⟩ : Dual ℝ)]).eps = -1 := by
    simp [qObj, meanR, sumL, reluS, Dual.le_iff]
    norm_num
  rw [e] at h
  exact h

end PfVerif.C14Multi
