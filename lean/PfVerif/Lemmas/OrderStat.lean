/-
  Order-statistics helper lemmas: the model's ascending sort `sortL` (a `mergeSort`) at ℝ,
  sums of the `k` smallest elements, and how sublists / sub-multisets interact with
  pointwise order and pointwise mixing.  Used by `Lemmas/C04ES.lean` (expected shortfall).
-/
import PfVerif.Model.Risk
import Mathlib.Data.Real.Basic
import Mathlib.Data.List.Sort
import Mathlib.Data.List.Forall2
import Mathlib.Algebra.BigOperators.Group.List.Basic
import Mathlib.Algebra.BigOperators.Ring.List
import Mathlib.Algebra.Order.BigOperators.Group.List
import Mathlib.Tactic.Ring
import Mathlib.Tactic.Linarith

namespace PfVerif

/-! ### the model's sum and sort at ℝ -/

/-- the model's right-fold sum is `List.sum` -/
theorem sumL_eq_sum (xs : List ℝ) : sumL xs = xs.sum := by
  induction xs with
  | nil => rfl
  | cons x xs ih => simp [sumL, ih]

theorem sortL_perm (xs : List ℝ) : (sortL xs).Perm xs := List.mergeSort_perm _ _

theorem sortL_pairwise (xs : List ℝ) : (sortL xs).Pairwise (· ≤ ·) := by
  have h := List.pairwise_mergeSort (le := fun a b : ℝ => decide (a ≤ b))
    (fun a b c h1 h2 => by simp only [decide_eq_true_eq] at *; exact le_trans h1 h2)
    (fun a b => by simp only [Bool.or_eq_true, decide_eq_true_eq]; exact le_total a b) xs
  simpa [sortL] using h

@[simp] theorem sortL_length (xs : List ℝ) : (sortL xs).length = xs.length :=
  (sortL_perm xs).length_eq

theorem mem_sortL {a : ℝ} {xs : List ℝ} : a ∈ sortL xs ↔ a ∈ xs := (sortL_perm xs).mem_iff

theorem sortL_sum (xs : List ℝ) : (sortL xs).sum = xs.sum := (sortL_perm xs).sum_eq

/-- uniqueness: any ascending rearrangement of `xs` IS `sortL xs` (ties included) -/
theorem sortL_eq_of_perm_pairwise {l xs : List ℝ} (hp : l.Perm xs) (hs : l.Pairwise (· ≤ ·)) :
    sortL xs = l :=
  List.Perm.eq_of_pairwise (fun _ _ _ _ h1 h2 => le_antisymm h1 h2) (sortL_pairwise xs) hs
    ((sortL_perm xs).trans hp.symm)

/-- sorting commutes with monotone (not necessarily strictly monotone) maps -/
theorem sortL_map_of_monotone (f : ℝ → ℝ) (hf : Monotone f) (xs : List ℝ) :
    sortL (xs.map f) = (sortL xs).map f := by
  apply sortL_eq_of_perm_pairwise
  · exact (sortL_perm xs).map f
  · exact (sortL_pairwise xs).map f (fun _ _ h => hf h)

theorem length_take_sortL {k : ℕ} {xs : List ℝ} (hk : k ≤ xs.length) :
    ((sortL xs).take k).length = k := by
  simp [List.length_take, hk]

theorem take_sortL_subperm (k : ℕ) (xs : List ℝ) : List.Subperm ((sortL xs).take k) xs :=
  (List.take_sublist k _).subperm.trans (sortL_perm xs).subperm

theorem mem_of_mem_take_sortL {a : ℝ} {k : ℕ} {xs : List ℝ} (h : a ∈ (sortL xs).take k) :
    a ∈ xs :=
  mem_sortL.1 (List.mem_of_mem_take h)

/-! ### the first `k` entries of an ascending list minimise over `k`-element sublists -/

/-- in an ascending list the first `|l|` entries are dominated entrywise by any sublist `l` -/
theorem forall₂_take_le_of_sublist {s : List ℝ} (hs : s.Pairwise (· ≤ ·)) :
    ∀ {l : List ℝ}, l.Sublist s → List.Forall₂ (· ≤ ·) (s.take l.length) l := by
  induction s with
  | nil => intro l hl; rw [List.sublist_nil.1 hl]; exact List.Forall₂.nil
  | cons a s ih =>
    intro l hl
    have hs' := (List.pairwise_cons.1 hs)
    cases l with
    | nil => exact List.Forall₂.nil
    | cons b l =>
      simp only [List.length_cons, List.take_succ_cons]
      have hb : b ∈ a :: s := hl.subset List.mem_cons_self
      have hab : a ≤ b := by
        rcases List.mem_cons.1 hb with h | h
        · exact h.ge
        · exact hs'.1 b h
      have hl' : l.Sublist s := by
        cases hl with
        | cons _ h => exact (List.sublist_cons_self b l).trans h
        | cons_cons _ h => exact h
      exact List.Forall₂.cons hab (ih hs'.2 hl')

theorem sum_take_le_of_sublist {s l : List ℝ} (hs : s.Pairwise (· ≤ ·)) (hl : l.Sublist s) :
    (s.take l.length).sum ≤ l.sum :=
  (forall₂_take_le_of_sublist hs hl).sum_le_sum

/-- **key lemma**: the `k` smallest minimise the sum over all `k`-element sub-multisets -/
theorem sum_take_sortL_le {xs l : List ℝ} (hl : List.Subperm l xs) :
    ((sortL xs).take l.length).sum ≤ l.sum := by
  obtain ⟨l', hp, hsub⟩ := hl.trans (sortL_perm xs).symm.subperm
  have := sum_take_le_of_sublist (sortL_pairwise xs) hsub
  rw [hp.length_eq, hp.sum_eq] at this
  exact this

/-! ### prefix sums of an ascending list -/

/-- every one of the first `k` entries is at most the entry at position `k` -/
theorem sum_take_le_mul_getElem {s : List ℝ} (hs : s.Pairwise (· ≤ ·)) {k : ℕ}
    (hk : k < s.length) : (s.take k).sum ≤ k * s[k] := by
  have h : ∀ x ∈ s.take k, x ≤ s[k] := by
    intro x hx
    obtain ⟨i, hi, rfl⟩ := List.getElem_of_mem hx
    rw [List.getElem_take]
    have hik : i < k := by
      have := hi; rw [List.length_take] at this; omega
    exact List.pairwise_iff_getElem.1 hs i k (by omega) hk hik
  have := List.sum_le_card_nsmul _ _ h
  rw [List.length_take, min_eq_left hk.le, nsmul_eq_mul] at this
  exact this

theorem sum_take_succ' (s : List ℝ) {k : ℕ} (hk : k < s.length) :
    (s.take (k + 1)).sum = (s.take k).sum + s[k] := by
  rw [List.take_succ_eq_append_getElem hk, List.sum_append, List.sum_singleton]

/-- the running mean of an ascending list is non-decreasing (one step) -/
theorem mean_take_le_succ {s : List ℝ} (hs : s.Pairwise (· ≤ ·)) {k : ℕ} (hk1 : 1 ≤ k)
    (hk : k < s.length) :
    (s.take k).sum / (k : ℝ) ≤ (s.take (k + 1)).sum / ((k + 1 : ℕ) : ℝ) := by
  have hk0 : (0 : ℝ) < k := by exact_mod_cast hk1
  have hk1' : (0 : ℝ) < ((k + 1 : ℕ) : ℝ) := by exact_mod_cast Nat.succ_pos k
  rw [div_le_div_iff₀ hk0 hk1', sum_take_succ' s hk]
  have := sum_take_le_mul_getElem hs hk
  push_cast
  nlinarith

/-- the running mean of an ascending list is non-decreasing -/
theorem mean_take_mono {s : List ℝ} (hs : s.Pairwise (· ≤ ·)) {k k' : ℕ} (hk1 : 1 ≤ k)
    (hkk : k ≤ k') (hk' : k' ≤ s.length) :
    (s.take k).sum / (k : ℝ) ≤ (s.take k').sum / (k' : ℝ) := by
  induction k', hkk using Nat.le_induction with
  | base => exact le_rfl
  | succ n hn ih =>
    exact le_trans (ih (by omega)) (mean_take_le_succ hs (by omega) (by omega))

/-! ### sublists under pointwise order and pointwise combination -/

/-- a sublist of `ys` pulls back along a pointwise relation to a sublist of `xs` -/
theorem exists_sublist_forall₂ {R : ℝ → ℝ → Prop} {xs ys : List ℝ}
    (h : List.Forall₂ R xs ys) :
    ∀ {l : List ℝ}, l.Sublist ys → ∃ l', l'.Sublist xs ∧ List.Forall₂ R l' l := by
  induction h with
  | nil => intro l hl; rw [List.sublist_nil.1 hl]; exact ⟨[], List.Sublist.refl _, .nil⟩
  | @cons a b xs ys hab _ ih =>
    intro l hl
    cases hl with
    | cons _ h =>
      obtain ⟨l', h1, h2⟩ := ih h
      exact ⟨l', h1.cons _, h2⟩
    | @cons_cons l₁ _ _ h =>
      obtain ⟨l', h1, h2⟩ := ih h
      exact ⟨a :: l', h1.cons_cons _, .cons hab h2⟩

/-- a sublist of a `zipWith` is the `zipWith` of aligned sublists -/
theorem exists_sublists_zipWith (f : ℝ → ℝ → ℝ) :
    ∀ (xs ys : List ℝ) {l : List ℝ}, l.Sublist (List.zipWith f xs ys) →
      ∃ lx ly, lx.Sublist xs ∧ ly.Sublist ys ∧ lx.length = l.length ∧ ly.length = l.length ∧
        l = List.zipWith f lx ly := by
  intro xs
  induction xs with
  | nil =>
    intro ys l hl
    simp only [List.zipWith_nil_left, List.sublist_nil] at hl
    subst hl
    exact ⟨[], [], List.Sublist.refl _, List.nil_sublist _, rfl, rfl, rfl⟩
  | cons x xs ih =>
    intro ys l hl
    cases ys with
    | nil =>
      simp only [List.zipWith_nil_right, List.sublist_nil] at hl
      subst hl
      exact ⟨[], [], List.nil_sublist _, List.Sublist.refl _, rfl, rfl, rfl⟩
    | cons y ys =>
      rw [List.zipWith_cons_cons] at hl
      cases hl with
      | cons _ h =>
        obtain ⟨lx, ly, h1, h2, h3, h4, h5⟩ := ih ys h
        exact ⟨lx, ly, h1.cons _, h2.cons _, h3, h4, h5⟩
      | @cons_cons l₁ _ _ h =>
        obtain ⟨lx, ly, h1, h2, h3, h4, h5⟩ := ih ys h
        refine ⟨x :: lx, y :: ly, h1.cons_cons _, h2.cons_cons _, by simp [h3], by simp [h4], ?_⟩
        rw [List.zipWith_cons_cons, ← h5]

theorem sum_zipWith_mix (t : ℝ) :
    ∀ (lx ly : List ℝ), lx.length = ly.length →
      (List.zipWith (fun x y => t * x + (1 - t) * y) lx ly).sum
        = t * lx.sum + (1 - t) * ly.sum := by
  intro lx
  induction lx with
  | nil => intro ly h; cases ly with
    | nil => simp
    | cons _ _ => simp at h
  | cons x lx ih =>
    intro ly h
    cases ly with
    | nil => simp at h
    | cons y ly =>
      simp only [List.length_cons, Nat.add_right_cancel_iff] at h
      simp only [List.zipWith_cons_cons, List.sum_cons, ih ly h]
      ring

theorem sum_map_add_const (c : ℝ) (l : List ℝ) :
    (l.map (· + c)).sum = l.sum + l.length * c := by
  induction l with
  | nil => simp
  | cons x l ih => simp only [List.map_cons, List.sum_cons, ih, List.length_cons]; push_cast; ring

theorem sum_map_const_mul (a : ℝ) (l : List ℝ) : (l.map (a * ·)).sum = a * l.sum := by
  induction l with
  | nil => simp
  | cons x l ih => simp only [List.map_cons, List.sum_cons, ih]; ring

end PfVerif
