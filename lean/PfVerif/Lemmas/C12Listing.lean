/-
  C12 over protocols that list and delist the derivative (Model/Listing.lean; op `listing`, harness/ext_listing.py):

  * `lexec_base`: after ANY history the derivative object (terms, price buffer, clause registry) is what the history's own
    object operations make of it — listing, delisting and reads are a frame for it; hence `payoff_after_protocol`: every
    `payoff()` answer in a protocol is the answer of the same object history without the listing steps, to which every
    theorem of Lemmas/C12Session applies (`answer_after_history`: the contract formula at the current terms and buffer,
    the registered clauses applied in registration order);
  * `clauses_unchanged_by_listing`: `list` / `delist` leave `named_clauses()` as it is;
  * `lexec_listing`: `is_listed`, the pricer and the cost after a history are those of its LAST listing step (delist: not
    listed, cost 0), the initial ones when there is none;
  * `spot_not_listed`, `spot_listed`: `spot` raises `ValueError` when not listed and otherwise is the pricer's quote of the
    payoff AS IT IS NOW (terms, buffer and clauses read at that moment).
-/
import PfVerif.Model.Listing

set_option linter.unusedSectionVars false
namespace PfVerif.C12Listing
open PfVerif PfVerif.Session PfVerif.Listing

section
variable {α : Type} [Add α] [Sub α] [Mul α] [Div α] [Neg α] [OfNat α 0] [OfNat α 1] [LE α] [DecidableLE α]
  [Max α] [Min α] [NatCast α]

/-- FRAME: the derivative object after a protocol is the object after its own operations alone -/
theorem lexec_base (s : LState α) (ops : List (LOp α)) :
    (lexec s ops).base = exec s.base (sessOps ops) := by
  induction ops generalizing s with
  | nil => rfl
  | cons op rest ih =>
    have h : lexec s (op :: rest) = lexec (lnext s op) rest := rfl
    rw [h, ih]
    cases op <;> rfl

/-- one listing step, delisting step or read leaves terms, buffer and clause registry alone -/
theorem lnext_base_of_not_sess (s : LState α) (op : LOp α) (h : ∀ o, op ≠ .sess o) : (lnext s op).base = s.base := by
  cases op with
  | sess o => exact absurd rfl (h o)
  | _ => rfl

theorem clauses_unchanged_by_listing (s : LState α) (k : Nat) (c : α) :
    (lnext s (.list k c)).base.clauses = s.base.clauses ∧ (lnext s .delist).base.clauses = s.base.clauses :=
  ⟨rfl, rfl⟩

/-- what `payoff()` answers at the end of a protocol: the answer of the object history without the listing steps -/
theorem payoff_after_protocol (pp : Terms α → List α → Except Err α) (s : LState α) (ops : List (LOp α)) :
    loutput pp (lexec s ops) (.sess .query) = .sess (answer pp (exec s.base (sessOps ops))) := by
  show LOut.sess (output pp (lexec s ops).base .query) = _
  rw [lexec_base]
  rfl

/-- listing state after a history: that of its last listing step -/
theorem lexec_listing (s : LState α) (ops : List (LOp α)) :
    ((lexec s ops).pricer, (lexec s ops).cost) =
      match lastListing ops with
      | some (some (k, c)) => (some k, c)
      | some none => (none, 0)
      | none => (s.pricer, s.cost) := by
  induction ops generalizing s with
  | nil => rfl
  | cons op rest ih =>
    have h : lexec s (op :: rest) = lexec (lnext s op) rest := rfl
    rw [h, ih]
    cases op with
    | sess o => rfl
    | list k c =>
      simp only [lastListing]
      cases lastListing rest with
      | none => rfl
      | some v => cases v <;> rfl
    | delist =>
      simp only [lastListing]
      cases lastListing rest with
      | none => rfl
      | some v => cases v <;> rfl
    | isListed => rfl
    | getCost => rfl
    | spot => rfl

theorem isListed_after (s : LState α) (ops : List (LOp α)) (pp : Terms α → List α → Except Err α) :
    loutput pp (lexec s ops) .isListed = .flag (lexec s ops).pricer.isSome := rfl

theorem delist_then (s : LState α) (ops : List (LOp α)) (h : lastListing ops = some none) :
    (lexec s ops).pricer = none ∧ (lexec s ops).cost = 0 := by
  have := lexec_listing s ops
  rw [h] at this
  exact ⟨congrArg Prod.fst this, congrArg Prod.snd this⟩

theorem list_then (s : LState α) (ops : List (LOp α)) (k : Nat) (c : α) (h : lastListing ops = some (some (k, c))) :
    (lexec s ops).pricer = some k ∧ (lexec s ops).cost = c := by
  have := lexec_listing s ops
  rw [h] at this
  exact ⟨congrArg Prod.fst this, congrArg Prod.snd this⟩

/-- `spot` of a derivative that is not listed: `ValueError` -/
theorem spot_not_listed (pp : Terms α → List α → Except Err α) (s : LState α) (h : s.pricer = none) :
    loutput pp s .spot = .error .valueError := by
  simp [loutput, h]

/-- `spot` of a listed derivative: the pricer's quote of the payoff as it is now -/
theorem spot_listed (pp : Terms α → List α → Except Err α) (s : LState α) (k : Nat) (v : List α)
    (h : s.pricer = some k) (hv : answer pp s.base = .payoff v) :
    loutput pp s .spot = .quote (v.map (fun x => ((k + 1 : Nat) : α) * x)) := by
  simp [loutput, h, hv]

/-- the run and the fold agree on the final state -/
theorem lrun_state (pp : Terms α → List α → Except Err α) (s : LState α) (ops : List (LOp α)) :
    (lrun pp s ops).1 = lexec s ops := by
  induction ops generalizing s with
  | nil => rfl
  | cons op rest ih =>
    show (lrun pp (lnext s op) rest).1 = lexec (lnext s op) rest
    exact ih _

end

/-- non-vacuity: clause, list, clause while listed, delist, then the payoff — both clauses, in registration order -/
example :
    (lrun (α := Int) (optPath .european)
        ⟨⟨⟨1, true, 0, 1⟩, [[1, 3], [1, 0]], [], []⟩, none, 0⟩
        [.sess (.addClause "z" (.affine 2 0)), .list 1 5, .sess (.addClause "a" (.cap 3)), .isListed, .spot,
         .delist, .isListed, .getCost, .sess .query]).2.getLast? =
      some (.sess (.payoff [3, 0])) := by decide

end PfVerif.C12Listing
