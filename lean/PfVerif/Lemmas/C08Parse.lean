/-
  C08 — `parse_spot` / `autogreek` re-parameterisation with the strike the spot leaf is built from.

  `autogreek.delta/gamma` build the spot leaf as `exp(log_moneyness) * strike` (resp.
  `moneyness * strike`) in `parse_spot` and hand `log(spot / strike)` (resp. `spot / strike`) to the
  pricer.  The two occurrences of the strike must be the same number: the pinned code converted a
  Python-float strike to a float32 tensor in `parse_spot` only, so with float64 inputs the pricer was
  evaluated at a shifted point (repaired by "fix: parse_spot applies a Python-number strike in the dtype
  of the moneyness").  `Kleaf` is the strike used for the leaf, `K` the one used afterwards.
-/
import Mathlib.Analysis.SpecialFunctions.Log.Basic
namespace PfVerif.C08Parse

/-- log-moneyness seen by the pricer -/
noncomputable def seenLog (Kleaf K s : ℝ) : ℝ := Real.log (Real.exp s * Kleaf / K)

/-- moneyness seen by the pricer -/
noncomputable def seenMoneyness (Kleaf K m : ℝ) : ℝ := m * Kleaf / K

theorem seenLog_shift {Kleaf K : ℝ} (hl : 0 < Kleaf) (hK : 0 < K) (s : ℝ) :
    seenLog Kleaf K s = s + Real.log (Kleaf / K) := by
  unfold seenLog
  rw [mul_div_assoc, Real.log_mul (Real.exp_pos s).ne' (div_pos hl hK).ne', Real.log_exp]

/-- the pricer is evaluated at the caller's log-moneyness iff both strikes agree -/
theorem seenLog_eq_iff {Kleaf K : ℝ} (hl : 0 < Kleaf) (hK : 0 < K) (s : ℝ) :
    seenLog Kleaf K s = s ↔ Kleaf = K := by
  rw [seenLog_shift hl hK]
  constructor
  · intro h
    have h0 : Real.log (Kleaf / K) = 0 := by linarith
    have h1 : Kleaf / K = 1 :=
      Real.eq_one_of_pos_of_log_eq_zero (div_pos hl hK) h0
    exact (div_eq_one_iff_eq hK.ne').1 h1
  · rintro rfl
    rw [div_self hK.ne', Real.log_one, add_zero]

theorem seenLog_same {K : ℝ} (hK : 0 < K) (s : ℝ) : seenLog K K s = s :=
  (seenLog_eq_iff hK hK s).2 rfl

theorem seenMoneyness_eq_iff {Kleaf K m : ℝ} (hK : 0 < K) (hm : m ≠ 0) :
    seenMoneyness Kleaf K m = m ↔ Kleaf = K := by
  unfold seenMoneyness
  rw [div_eq_iff hK.ne']
  constructor
  · intro h
    exact mul_left_cancel₀ hm h
  · rintro rfl; rfl

/-- the shift of the evaluation point caused by a leaf strike rounded with relative error `δ`
(`Kleaf = K (1 + δ)`, float32: `|δ| ≤ 2⁻²⁴`) is `log (1 + δ)`, independent of the strike -/
theorem seenLog_rel {K δ : ℝ} (hK : 0 < K) (hδ : -1 < δ) (s : ℝ) :
    seenLog (K * (1 + δ)) K s = s + Real.log (1 + δ) := by
  have h1 : 0 < 1 + δ := by linarith
  rw [seenLog_shift (mul_pos hK h1) hK, mul_div_cancel_left₀ _ hK.ne']

/-- non-vacuity: strike 0.9 is not a float32 number; its float32 neighbour 15099494·2⁻²⁴ gives a
non-zero shift -/
example : seenLog (15099494 / 16777216) (9 / 10) 0 ≠ 0 := by
  intro h
  have := (seenLog_eq_iff (by norm_num) (by norm_num) 0).1 h
  norm_num at this

end PfVerif.C08Parse
