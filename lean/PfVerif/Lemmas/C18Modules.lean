/-
  C18 — totality at zero time to maturity / zero volatility, for the Black–Scholes PRICING MODULES
  (Model/Acquire.lean: `BSModule`, `eval` = `modulePrice` / `moduleDelta`), over the carrier `XR`
  (Lemmas/XR.lean: extended reals with NaN, IEEE special-value rules, exact on finite values).

  Props/C18 proves the edge behaviour of the functional forms of Model/BS.lean at `XR`.  `BSModule.eval` CAN be
  instantiated at `XR`: the instances `XR` lacks for Model/Acquire.lean (`NatCast`, `OfNat 3`, `Max`, `Min`) are
  the scoped ones of `PfVerif.C18HedgeAux` (Lemmas/C18Hedge.lean), so the statements below are about
  `BSModule.eval` itself at `XR`, not about a "formula at the resolved tuple" surrogate.

  Setting: a module built on ONE simulated market `mk : Market XR` with finite data (`FiniteMarket`: positive
  finite spots `Ss`, finite NON-NEGATIVE volatilities `vs` — zero-volatility paths are included —, positive strike
  `K`, step `δ ≥ 0`), `C09Modules.BuiltOn` / `Live` as in Lemmas/C09Modules.  The own state of the derivative at
  step `i` is `fin (sR Ss K i)`, `fin (mR Ss K i)`, `fin (tR Ss δ i)`, `fin (vR vs i)` (`own_state_fin`, through
  `source_logMoneyness`, `source_maxLogMoneyness`, `source_timeToMaturity`, `source_volatility` of C07Acquire).

    * the LAST time index has time to maturity exactly `0` (`last_index_time_zero`);
    * `AtExpiry Ss vs δ i`: own time to maturity 0 or own volatility 0 — holds at the last index
      (`atExpiry_last`) and at every index of a zero-volatility path (`atExpiry_zero_vol`);
    * at such a cell, nothing overridden, the modules quote the payoff that is then certain on the derivative's
      own spot / running maximum, the deltas take their limiting values (`…_own`), and at the last index the
      price IS the derivative's payoff as Model/Payoff.lean defines it (`…_last_column_payoff`; binaries: away
      from the strike, at the strike the formula gives ½);
    * the same with overrides, at any resolved finite tuple on the edge (`…_at_expiry`);
    * negative / NaN overridden (or own) time to maturity or volatility is rejected by every method of every
      module with the formula's `ValueError` (`negative_rejected`) — including the lookback delta;
    * no NaN for the four prices and the European / binary / American-binary deltas (`no_nan_at_expiry`,
      `no_nan_own`).  The LOOKBACK DELTA at the edge is the recorded known finding K5 (autograd of the
      closed-form price; needs a closed-form delta) and is EXCLUDED from the no-NaN statements.

  Helper lemmas: `PfVerif.C18ModulesAux` (not listed by the audit).
-/
import PfVerif.Lemmas.C18Hedge
import PfVerif.Lemmas.C09Modules
import PfVerif.Props.C03
import PfVerif.Model.Payoff

set_option linter.unusedSectionVars false
set_option linter.unusedVariables false

namespace PfVerif.C18ModulesAux
open PfVerif XR C18Aux C18HedgeAux PfVerif.C07Acquire

/-! ### lists of finite values at `XR` -/

theorem go_map_fin (a : ℝ) : ∀ ys : List ℝ,
    cummaxL.go (fin a) (ys.map fin) = (cummaxL.go a ys).map fin
  | [] => rfl
  | y :: ys => by
    simp only [List.map_cons, cummaxL.go, fin_max_fin]
    rw [go_map_fin (max a y) ys]

theorem cummaxL_map_fin : ∀ xs : List ℝ, cummaxL (xs.map fin) = (cummaxL xs).map fin
  | [] => rfl
  | x :: xs => by simp only [List.map_cons, cummaxL, go_map_fin]

theorem foldl_max_fin : ∀ (xs : List ℝ) (x : ℝ),
    List.foldl max (fin x) (xs.map fin) = fin (List.foldl max x xs)
  | [], _ => rfl
  | y :: ys, x => by
    simp only [List.map_cons, List.foldl_cons, fin_max_fin]
    exact foldl_max_fin ys (max x y)

theorem maxL_fin (x : ℝ) (xs : List ℝ) : maxL (fin x) (xs.map fin) = fin (maxL x xs) :=
  foldl_max_fin xs x

theorem lastL_map {β γ : Type} (f : β → γ) : ∀ xs : List β, lastL (xs.map f) = (lastL xs).map f
  | [] => rfl
  | [_] => rfl
  | _ :: y :: rest => by
    simp only [List.map_cons, lastL]
    exact lastL_map f (y :: rest)

theorem lastL_eq_getElem? {β : Type} : ∀ xs : List β, lastL xs = xs[xs.length - 1]?
  | [] => rfl
  | [_] => rfl
  | x :: y :: rest => by
    simp only [lastL]
    rw [lastL_eq_getElem? (y :: rest)]
    simp

theorem reluS_fin (x : ℝ) : reluS (fin x) = fin (max x 0) := by
  unfold reluS
  by_cases h : 0 ≤ x
  · rw [if_pos (by simpa using h), max_eq_left h]
  · rw [if_neg (by simpa using h), max_eq_right (not_le.1 h).le]; rfl

/-! ### `Except` plumbing for module results -/

/-- a module result is a value, and that value is not NaN -/
def OkNotNan (r : Except AcqErr XR) : Prop := ∃ x, r = .ok x ∧ ¬ isNan x

theorem okNotNan_lift {r : Except Err XR} (h : C18Aux.OkNotNan r) : OkNotNan (liftErr r) := by
  obtain ⟨x, rfl, hx⟩ := h
  exact ⟨x, rfl, hx⟩

theorem okNotNan_lift_fin {r : Except Err XR} (h : C18Aux.OkFinite r) : OkNotNan (liftErr r) :=
  okNotNan_lift h.okNotNan

/-! ### the accessors of C07Acquire, with the entry named instead of indexed -/

theorem source_logMoneyness' (d : Deriv XR) (i : ℕ) (hs : d.simulated = true) {x : XR}
    (hx : d.market.spot[i]? = some x) :
    (d.source i).logMoneyness = .ok (Transc.log (x / d.market.strike)) := by
  obtain ⟨hi, rfl⟩ := List.getElem?_eq_some_iff.1 hx
  exact source_logMoneyness d i hs hi

theorem source_volatility' (d : Deriv XR) (i : ℕ) (hv : d.hasVol = true) {x : XR}
    (hx : d.market.volatility[i]? = some x) :
    (d.source i).volatility = .ok x := by
  obtain ⟨hi, rfl⟩ := List.getElem?_eq_some_iff.1 hx
  exact source_volatility d i hv hi

/-! ### rejection inside the forward-mode lookback delta -/

theorem validate_err_dual {t v : XR} (h : ¬ (0 : XR) ≤ t ∨ ¬ (0 : XR) ≤ v) :
    bsValidate (Dual.const t) (Dual.const v) = .error .valueError := by
  unfold bsValidate
  by_cases ht : (0 : XR) ≤ t
  · have hv : ¬ (0 : XR) ≤ v := h.resolve_left (not_not.2 ht)
    have ht' : (0 : Dual XR) ≤ Dual.const t := ht
    have hv' : ¬ (0 : Dual XR) ≤ Dual.const v := hv
    rw [if_neg (not_not.2 ht'), if_pos hv']
  · have ht' : ¬ (0 : Dual XR) ≤ Dual.const t := ht
    rw [if_pos ht']

/-- the lookback delta (forward-mode derivative of the price) raises the price's `ValueError` -/
theorem lookback_delta_rejected (s m t v k : XR) (h : ¬ (0 : XR) ≤ t ∨ ¬ (0 : XR) ≤ v) :
    bsLookbackDeltaAuto s m t v k = .error .valueError := by
  have hd : ∀ x : Dual XR, bsD1 x (Dual.const t) (Dual.const v) = .error .valueError := by
    intro x; unfold bsD1; rw [validate_err_dual h]; rfl
  have hp : ∀ x : Dual XR,
      bsLookbackPrice x (Dual.const m) (Dual.const t) (Dual.const v) (Dual.const k)
        = .error .valueError := by
    intro x; unfold bsLookbackPrice; rw [hd]; rfl
  unfold bsLookbackDeltaAuto autoDelta
  simp only [hp]

end PfVerif.C18ModulesAux

namespace PfVerif.C18Modules
open PfVerif XR C18Aux C18HedgeAux PfVerif.C07Acquire PfVerif.C09Modules PfVerif.C18ModulesAux

/-! ## markets with finite data; the own state -/

/-- one simulated path with finite data: positive spots, NON-NEGATIVE volatilities (zero-volatility paths
included), positive strike, step `δ ≥ 0` (`variance`, `listed`, `oracle` are not read here) -/
structure FiniteMarket (mk : Market XR) (Ss vs : List ℝ) (K δ : ℝ) : Prop where
  spot_eq : mk.spot = Ss.map fin
  spot_pos : ∀ S ∈ Ss, 0 < S
  vol_eq : mk.volatility = vs.map fin
  vol_nonneg : ∀ v ∈ vs, 0 ≤ v
  strike_eq : mk.strike = fin K
  strike_pos : 0 < K
  dt_eq : mk.dt = fin δ
  dt_nonneg : 0 ≤ δ

/-- own log-moneyness, running-maximum log-moneyness, time to maturity, volatility at step `i` (reals) -/
noncomputable def sR (Ss : List ℝ) (K : ℝ) (i : ℕ) : ℝ := Real.log (Ss.getD i 1 / K)
noncomputable def mR (Ss : List ℝ) (K : ℝ) (i : ℕ) : ℝ :=
  (cummaxL (Ss.map fun s => Real.log (s / K))).getD i 0
noncomputable def tR (Ss : List ℝ) (δ : ℝ) (i : ℕ) : ℝ :=
  ((Ss.length - 1 : ℕ) : ℝ) * δ - (i : ℝ) * δ
noncomputable def vR (vs : List ℝ) (i : ℕ) : ℝ := vs.getD i 0

/-- resolved inputs of a method call with explicit inputs `g` (any `XR` value may be passed): explicit wins,
else the own state -/
noncomputable def rS (Ss : List ℝ) (K : ℝ) (g : Given XR) (i : ℕ) : XR := g.s.getD (fin (sR Ss K i))
noncomputable def rM (Ss : List ℝ) (K : ℝ) (g : Given XR) (i : ℕ) : XR := g.m.getD (fin (mR Ss K i))
noncomputable def rT (Ss : List ℝ) (δ : ℝ) (g : Given XR) (i : ℕ) : XR := g.t.getD (fin (tR Ss δ i))
noncomputable def rV (vs : List ℝ) (g : Given XR) (i : ℕ) : XR := g.v.getD (fin (vR vs i))

section Setup
variable {mk : Market XR} {Ss vs : List ℝ} {K δ : ℝ} {i : ℕ}

private theorem live_iff (hm : FiniteMarket mk Ss vs K δ) : Live mk i ↔ i < Ss.length ∧ i < vs.length := by
  simp [Live, hm.spot_eq, hm.vol_eq]

/-- the derivative's state at a cell, as `Deriv.source` reads it at `XR`, is the FINITE own state -/
theorem own_state_fin {d : Deriv XR} (hm : FiniteMarket d.market Ss vs K δ) (hs : d.simulated = true)
    (hv : d.hasVol = true) (hiS : i < Ss.length) (hiv : i < vs.length) :
    (d.source i).logMoneyness = .ok (fin (sR Ss K i)) ∧
    (d.source i).maxLogMoneyness = .ok (fin (mR Ss K i)) ∧
    (d.source i).timeToMaturity = .ok (fin (tR Ss δ i)) ∧
    (d.source i).volatility = .ok (fin (vR vs i)) := by
  have hK := hm.strike_pos
  have hlog : ∀ S, 0 < S → Transc.log (fin S / fin K) = fin (Real.log (S / K)) := by
    intro S hS
    have := logMoneyness_fin hS hK
    simpa only [logIf, if_true] using this
  refine ⟨?_, ?_, ?_, ?_⟩
  · have hx : d.market.spot[i]? = some (fin Ss[i]) := by rw [hm.spot_eq]; simp [hiS]
    rw [source_logMoneyness' d i hs hx, hm.strike_eq, hlog _ (hm.spot_pos _ (List.getElem_mem hiS))]
    simp [sR, hiS]
  · have e : (Ss.map fin).map (fun s => Transc.log (s / fin K))
        = (Ss.map fun s => Real.log (s / K)).map fin := by
      rw [List.map_map, List.map_map]
      apply List.map_congr_left
      intro S hS
      exact hlog S (hm.spot_pos S hS)
    have hl : i < (cummaxL (Ss.map fun s => Real.log (s / K))).length := by
      rw [C09ModulesAux.cummaxL_length, List.length_map]; exact hiS
    rw [source_maxLogMoneyness d i hs, hm.spot_eq, hm.strike_eq, e, cummaxL_map_fin, List.getElem?_map,
      List.getElem?_eq_getElem hl]
    simp [mR, hl]
  · have hi : i < d.market.spot.length := by rw [hm.spot_eq, List.length_map]; exact hiS
    rw [source_timeToMaturity d i hs hi, hm.dt_eq, hm.spot_eq, List.length_map]
    simp only [natCast_def, fin_mul_fin, fin_sub_fin]
    rfl
  · have hx : d.market.volatility[i]? = some (fin vs[i]) := by rw [hm.vol_eq]; simp [hiv]
    rw [source_volatility' d i hv hx]
    simp [vR, hiv]

/-- on a derivative's own state the LAST time index has time to maturity exactly `0`
(`source_timeToMaturity` at `i = n − 1`) -/
theorem last_index_time_zero {d : Deriv XR} (hm : FiniteMarket d.market Ss vs K δ)
    (hs : d.simulated = true) (hn : 0 < Ss.length) :
    (d.source (Ss.length - 1)).timeToMaturity = .ok (fin 0) := by
  have hi : Ss.length - 1 < d.market.spot.length := by
    rw [hm.spot_eq, List.length_map]; omega
  rw [source_timeToMaturity d _ hs hi, hm.dt_eq, hm.spot_eq, List.length_map]
  simp only [natCast_def, fin_mul_fin, fin_sub_fin, sub_self]

private theorem tR_last (Ss : List ℝ) (δ : ℝ) : tR Ss δ (Ss.length - 1) = 0 := by
  unfold tR; exact sub_self _

variable {mod : BSModule XR} {call : Bool}

private theorem acquire1_fin {kind : Kind} (h : BuiltOn mod kind call mk) (hm : FiniteMarket mk Ss vs K δ)
    (hi : Live mk i) (g : Given XR) :
    acquire1 (mod.source i) g.s g.t g.v = .ok (rS Ss K g i, rT Ss δ g i, rV vs g i) := by
  obtain ⟨d, hd, rfl, hs, hv⟩ := h.deriv
  obtain ⟨hiS, hiv⟩ := (live_iff hm).1 hi
  obtain ⟨h1, _, h3, h4⟩ := own_state_fin hm hs hv hiS hiv
  have hsrc : mod.source i = some (d.source i) := by simp [BSModule.source, hd]
  rw [hsrc, acquire1_ok_iff]
  refine ⟨?_, ?_, ?_⟩
  · cases hg : g.s <;> simp [resolve, rS, hg, h1]
  · cases hg : g.t <;> simp [resolve, rT, hg, h3]
  · cases hg : g.v <;> simp [resolve, rV, hg, h4]

private theorem acquire2_fin {kind : Kind} (h : BuiltOn mod kind call mk) (hm : FiniteMarket mk Ss vs K δ)
    (hi : Live mk i) (g : Given XR) :
    acquire2 (mod.source i) g.s g.m g.t g.v
      = .ok (rS Ss K g i, rM Ss K g i, rT Ss δ g i, rV vs g i) := by
  obtain ⟨d, hd, rfl, hs, hv⟩ := h.deriv
  obtain ⟨hiS, hiv⟩ := (live_iff hm).1 hi
  obtain ⟨h1, h2, h3, h4⟩ := own_state_fin hm hs hv hiS hiv
  have hsrc : mod.source i = some (d.source i) := by simp [BSModule.source, hd]
  rw [hsrc, acquire2_ok_iff]
  refine ⟨?_, ?_, ?_, ?_⟩
  · cases hg : g.s <;> simp [resolve, rS, hg, h1]
  · cases hg : g.m <;> simp [resolve, rM, hg, h2]
  · cases hg : g.t <;> simp [resolve, rT, hg, h3]
  · cases hg : g.v <;> simp [resolve, rV, hg, h4]

/-- European / European-binary module at `XR`, any subset of overrides: value = functional form at the
resolved tuple with the market's strike -/
theorem eval_plain_fin {k3 : Kind3} (h : BuiltOn mod (.plain k3) call mk)
    (hm : FiniteMarket mk Ss vs K δ) (hi : Live mk i) (what : Method) {g : Given XR}
    (hgm : g.m = none) :
    mod.eval what g i
      = liftErr (k3.formula what call (fin K) (rS Ss K g i) (rT Ss δ g i) (rV vs g i)) ∧
    mod.resolved g i = .ok [rS Ss K g i, rT Ss δ g i, rV vs g i] := by
  have := eval_plain h.kind_eq what hgm i (acquire1_fin h hm hi g)
  rwa [h.call_eq, h.strike_eq, hm.strike_eq] at this

/-- American-binary / lookback module at `XR`, any subset of overrides -/
theorem eval_pathDep_fin {k4 : Kind4} (h : BuiltOn mod (.pathDep k4) call mk)
    (hm : FiniteMarket mk Ss vs K δ) (hi : Live mk i) (what : Method) (g : Given XR) :
    mod.eval what g i
      = liftErr (k4.formula what (fin K) (rS Ss K g i) (rM Ss K g i) (rT Ss δ g i) (rV vs g i)) ∧
    mod.resolved g i = .ok [rS Ss K g i, rM Ss K g i, rT Ss δ g i, rV vs g i] := by
  have := eval_pathDep h.kind_eq what g i (acquire2_fin h hm hi g)
  rwa [h.strike_eq, hm.strike_eq] at this

/-- every input explicit: ANY module (with or without a derivative) evaluates the functional form at the
given inputs with its own strike and flag — the scenario "module built with a strike / call flag, evaluated
at explicit `t = 0` / `v = 0`" reduces to the theorems of Props/C18 -/
theorem eval_all_explicit (mod : BSModule XR) (what : Method) (i : ℕ) (s m t v : XR) :
    (∀ k3, mod.kind = .plain k3 →
      mod.eval what { s := some s, t := some t, v := some v } i
        = liftErr (k3.formula what mod.call mod.strike s t v)) ∧
    (∀ k4, mod.kind = .pathDep k4 →
      mod.eval what { s := some s, m := some m, t := some t, v := some v } i
        = liftErr (k4.formula what mod.strike s m t v)) :=
  ⟨fun k3 hk => (eval_plain hk what rfl i rfl).1, fun k4 hk => (eval_pathDep hk what _ i rfl).1⟩

end Setup

/-! ## the own state on the edge -/
section Edge
variable {Ss vs : List ℝ} {K δ : ℝ} {i : ℕ}

/-- own time to maturity 0 or own volatility 0 (the other one non-negative) -/
def AtExpiry (Ss vs : List ℝ) (δ : ℝ) (i : ℕ) : Prop :=
  (tR Ss δ i = 0 ∧ 0 ≤ vR vs i) ∨ (vR vs i = 0 ∧ 0 ≤ tR Ss δ i)

private theorem vR_nonneg {mk : Market XR} (hm : FiniteMarket mk Ss vs K δ) (i : ℕ) : 0 ≤ vR vs i := by
  unfold vR
  by_cases h : i < vs.length
  · rw [getD_of_lt _ _ h]; exact hm.vol_nonneg _ (List.getElem_mem h)
  · rw [getD_of_le _ _ (not_lt.1 h)]

private theorem tR_nonneg {mk : Market XR} (hm : FiniteMarket mk Ss vs K δ) (hi : i < Ss.length) :
    0 ≤ tR Ss δ i := by
  unfold tR
  have h : (i : ℝ) ≤ ((Ss.length - 1 : ℕ) : ℝ) := by exact_mod_cast (by omega : i ≤ Ss.length - 1)
  have := mul_le_mul_of_nonneg_right h hm.dt_nonneg
  linarith

/-- the last time index is on the edge, whatever the volatility -/
theorem atExpiry_last {mk : Market XR} (hm : FiniteMarket mk Ss vs K δ) :
    AtExpiry Ss vs δ (Ss.length - 1) :=
  Or.inl ⟨tR_last Ss δ, vR_nonneg hm _⟩

/-- every index of a zero-volatility stretch is on the edge -/
theorem atExpiry_zero_vol {mk : Market XR} (hm : FiniteMarket mk Ss vs K δ) (hi : i < Ss.length)
    (h0 : vR vs i = 0) : AtExpiry Ss vs δ i :=
  Or.inr ⟨h0, tR_nonneg hm hi⟩

/-- running maximum ≥ spot on the own state, by construction (as in `C09Modules.ownM_ge_ownS`) -/
theorem sR_le_mR (hi : i < Ss.length) : sR Ss K i ≤ mR Ss K i := by
  have := C09Modules.ownM_ge_ownS (mk := ⟨Ss, [], [], [], 0, K, []⟩) (i := i) hi
  have e : C09Modules.ownS ⟨Ss, [], [], [], 0, K, []⟩ i = sR Ss K i := by
    simp [C09Modules.ownS, sR, hi]
  rw [e] at this
  exact this

/-- in price units: `K·exp(sR) = S_i` -/
theorem strike_mul_exp_sR {mk : Market XR} (hm : FiniteMarket mk Ss vs K δ) (i : ℕ) :
    K * Real.exp (sR Ss K i) = Ss.getD i 1 := by
  have hS : 0 < Ss.getD i 1 := getD_one_pos hm.spot_pos i
  rw [sR, Real.exp_log (div_pos hS hm.strike_pos)]
  field_simp [hm.strike_pos.ne']

/-- in price units: `K·exp(mR) = max_{j ≤ i} S_j` -/
theorem strike_mul_exp_mR {mk : Market XR} (hm : FiniteMarket mk Ss vs K δ) (hi : i < Ss.length) :
    K * Real.exp (mR Ss K i) = (cummaxL Ss).getD i 0 :=
  C09Modules.strike_mul_exp_ownM (mk := ⟨Ss, [], [], [], 0, K, []⟩) hm.strike_pos hi hm.spot_pos

theorem sR_pos_iff {mk : Market XR} (hm : FiniteMarket mk Ss vs K δ) (i : ℕ) :
    (0 < sR Ss K i ↔ K < Ss.getD i 1) ∧ (sR Ss K i < 0 ↔ Ss.getD i 1 < K) ∧
    (sR Ss K i = 0 ↔ Ss.getD i 1 = K) := by
  have hK := hm.strike_pos
  rw [← strike_mul_exp_sR hm i]
  refine ⟨?_, ?_, ?_⟩
  · rw [← Real.one_lt_exp_iff (x := sR Ss K i)]
    constructor <;> intro h <;> nlinarith
  · rw [← Real.exp_lt_one_iff (x := sR Ss K i)]
    constructor <;> intro h <;> nlinarith
  · rw [← Real.exp_eq_one_iff (sR Ss K i)]
    constructor
    · intro h; rw [h, mul_one]
    · intro h; exact mul_left_cancel₀ hK.ne' (by rw [h, mul_one])

theorem mR_nonneg_iff {mk : Market XR} (hm : FiniteMarket mk Ss vs K δ) (hi : i < Ss.length) :
    0 ≤ mR Ss K i ↔ K ≤ (cummaxL Ss).getD i 0 := by
  have hK := hm.strike_pos
  rw [← strike_mul_exp_mR hm hi, ← Real.one_le_exp_iff (x := mR Ss K i)]
  constructor <;> intro h <;> nlinarith

end Edge

/-! ## the modules on the edge, any overrides resolved to finite values -/
section AtExpiryGiven
variable {mod : BSModule XR} {mk : Market XR} {Ss vs : List ℝ} {K δ : ℝ} {i : ℕ} {call : Bool}
  {g : Given XR} {s m t v : ℝ}

/-- European module: the intrinsic value -/
theorem european_price_at_expiry (hb : BuiltOn mod (.plain .european) call mk)
    (hm : FiniteMarket mk Ss vs K δ) (hi : Live mk i) (hgm : g.m = none)
    (hS : rS Ss K g i = fin s) (hT : rT Ss δ g i = fin t) (hV : rV vs g i = fin v)
    (he : (t = 0 ∧ 0 ≤ v) ∨ (v = 0 ∧ 0 ≤ t)) :
    modulePrice mod g i
      = .ok (fin (if call then max (K * Real.exp s - K) 0 else max (K - K * Real.exp s) 0)) := by
  unfold modulePrice
  rw [(eval_plain_fin hb hm hi .price hgm).1, hS, hT, hV]
  obtain ⟨h1, h2⟩ := C18.european_price_at_expiry he s K hm.strike_pos
  cases call
  · exact congrArg liftErr h2
  · exact congrArg liftErr h1

/-- European module: the delta takes its limiting value `1 / 0 / ½` (call), `0 / −1 / −½` (put) -/
theorem european_delta_at_expiry (hb : BuiltOn mod (.plain .european) call mk)
    (hm : FiniteMarket mk Ss vs K δ) (hi : Live mk i) (hgm : g.m = none)
    (hS : rS Ss K g i = fin s) (hT : rT Ss δ g i = fin t) (hV : rV vs g i = fin v)
    (he : (t = 0 ∧ 0 ≤ v) ∨ (v = 0 ∧ 0 ≤ t)) :
    (0 < s → moduleDelta mod g i = .ok (fin (if call then 1 else 0))) ∧
    (s < 0 → moduleDelta mod g i = .ok (fin (if call then 0 else -1))) ∧
    (s = 0 → moduleDelta mod g i = .ok (fin (if call then 1 / 2 else -1 / 2))) := by
  unfold moduleDelta
  rw [(eval_plain_fin hb hm hi .delta hgm).1, hS, hT, hV]
  obtain ⟨h1, h2, h3⟩ := C18.european_delta_at_expiry he s
  refine ⟨fun h => ?_, fun h => ?_, fun h => ?_⟩
  · cases call
    · exact congrArg liftErr (h1 h).2
    · exact congrArg liftErr (h1 h).1
  · cases call
    · exact congrArg liftErr (h2 h).2
    · exact congrArg liftErr (h2 h).1
  · cases call
    · exact congrArg liftErr (h3 h).2
    · exact congrArg liftErr (h3 h).1

/-- European-binary module: one / zero away from the strike, ½ at the strike -/
theorem binary_price_at_expiry (hb : BuiltOn mod (.plain .binary) call mk)
    (hm : FiniteMarket mk Ss vs K δ) (hi : Live mk i) (hgm : g.m = none)
    (hS : rS Ss K g i = fin s) (hT : rT Ss δ g i = fin t) (hV : rV vs g i = fin v)
    (he : (t = 0 ∧ 0 ≤ v) ∨ (v = 0 ∧ 0 ≤ t)) :
    (0 < s → modulePrice mod g i = .ok (fin (if call then 1 else 0))) ∧
    (s < 0 → modulePrice mod g i = .ok (fin (if call then 0 else 1))) ∧
    (s = 0 → modulePrice mod g i = .ok (fin (1 / 2))) := by
  unfold modulePrice
  rw [(eval_plain_fin hb hm hi .price hgm).1, hS, hT, hV]
  obtain ⟨h1, h2, h3⟩ := C18.binary_price_at_expiry he s
  refine ⟨fun h => ?_, fun h => ?_, fun h => ?_⟩
  · cases call
    · exact congrArg liftErr (h1 h).2
    · exact congrArg liftErr (h1 h).1
  · cases call
    · exact congrArg liftErr (h2 h).2
    · exact congrArg liftErr (h2 h).1
  · cases call
    · exact congrArg liftErr (h3 h).2
    · exact congrArg liftErr (h3 h).1

/-- European-binary module: delta `0` away from the strike; at the strike `+∞` (call) / `−∞` (put) — the
Dirac limit, not NaN -/
theorem binary_delta_at_expiry (hb : BuiltOn mod (.plain .binary) call mk)
    (hm : FiniteMarket mk Ss vs K δ) (hi : Live mk i) (hgm : g.m = none)
    (hS : rS Ss K g i = fin s) (hT : rT Ss δ g i = fin t) (hV : rV vs g i = fin v)
    (he : (t = 0 ∧ 0 ≤ v) ∨ (v = 0 ∧ 0 ≤ t)) :
    (s ≠ 0 → moduleDelta mod g i = .ok (fin 0)) ∧
    (s = 0 → moduleDelta mod g i = .ok (if call then pinf else ninf)) := by
  unfold moduleDelta
  rw [(eval_plain_fin hb hm hi .delta hgm).1, hS, hT, hV]
  obtain ⟨h1, h2⟩ := C18.binary_delta_at_expiry he s K
  refine ⟨fun h => congrArg liftErr (h1 h call), fun h => ?_⟩
  cases call
  · exact congrArg liftErr (h2 h).2
  · exact congrArg liftErr (h2 h).1

/-- American-binary module: one if the (resolved) running maximum has reached the strike, else zero -/
theorem american_binary_price_at_expiry (hb : BuiltOn mod (.pathDep .americanBinary) call mk)
    (hm : FiniteMarket mk Ss vs K δ) (hi : Live mk i)
    (hS : rS Ss K g i = fin s) (hM : rM Ss K g i = fin m) (hT : rT Ss δ g i = fin t)
    (hV : rV vs g i = fin v) (hsm : s ≤ m) (he : (t = 0 ∧ 0 ≤ v) ∨ (v = 0 ∧ 0 ≤ t)) :
    modulePrice mod g i = .ok (fin (if 0 ≤ m then 1 else 0)) := by
  unfold modulePrice
  rw [(eval_pathDep_fin hb hm hi .price g).1, hS, hM, hT, hV]
  obtain ⟨h1, h2⟩ := C18.american_binary_price_at_expiry he s m hsm
  by_cases h0 : 0 ≤ m
  · rw [if_pos h0]; exact congrArg liftErr (h1 h0)
  · rw [if_neg h0]; exact congrArg liftErr (h2 (not_le.1 h0))

/-- American-binary module: delta `0` on both sides of the barrier -/
theorem american_binary_delta_at_expiry (hb : BuiltOn mod (.pathDep .americanBinary) call mk)
    (hm : FiniteMarket mk Ss vs K δ) (hi : Live mk i)
    (hS : rS Ss K g i = fin s) (hM : rM Ss K g i = fin m) (hT : rT Ss δ g i = fin t)
    (hV : rV vs g i = fin v) (hsm : s ≤ m) (he : (t = 0 ∧ 0 ≤ v) ∨ (v = 0 ∧ 0 ≤ t)) :
    moduleDelta mod g i = .ok (fin 0) := by
  unfold moduleDelta
  rw [(eval_pathDep_fin hb hm hi .delta g).1, hS, hM, hT, hV]
  exact congrArg liftErr (C18.american_binary_delta_at_expiry he s m K hsm hm.strike_pos)

/-- lookback module: the payoff `max(max(M, S) − K, 0)` with `M = K·eᵐ`, `S = K·eˢ` -/
theorem lookback_price_at_expiry (hb : BuiltOn mod (.pathDep .lookback) call mk)
    (hm : FiniteMarket mk Ss vs K δ) (hi : Live mk i)
    (hS : rS Ss K g i = fin s) (hM : rM Ss K g i = fin m) (hT : rT Ss δ g i = fin t)
    (hV : rV vs g i = fin v) (hsm : s ≤ m) (he : (t = 0 ∧ 0 ≤ v) ∨ (v = 0 ∧ 0 ≤ t)) :
    modulePrice mod g i
      = .ok (fin (max (max (K * Real.exp m) (K * Real.exp s) - K) 0)) := by
  unfold modulePrice
  rw [(eval_pathDep_fin hb hm hi .price g).1, hS, hM, hT, hV]
  exact congrArg liftErr (C18.lookback_price_at_expiry he s m K hsm hm.strike_pos)

/-- no NaN on the edge: every price, and the European / European-binary / American-binary delta, of a module
built on a finite market is a value that is not NaN, for every resolved finite tuple on the edge.  The
lookback DELTA is excluded (known finding K5). -/
theorem no_nan_at_expiry {kind : Kind} (hb : BuiltOn mod kind call mk)
    (hm : FiniteMarket mk Ss vs K δ) (hi : Live mk i) (what : Method)
    (hK5 : ¬ (kind = .pathDep .lookback ∧ what = .delta))
    (hgm : (∃ k3, kind = .plain k3) → g.m = none)
    (hS : rS Ss K g i = fin s) (hM : rM Ss K g i = fin m) (hT : rT Ss δ g i = fin t)
    (hV : rV vs g i = fin v) (hsm : s ≤ m) (he : (t = 0 ∧ 0 ≤ v) ∨ (v = 0 ∧ 0 ≤ t)) :
    OkNotNan (mod.eval what g i) := by
  obtain ⟨n1, n2, n3, n4, n5, n6, n7⟩ := C18.no_nan_price_delta he s m K hsm hm.strike_pos call
  cases kind with
  | plain k3 =>
    rw [(eval_plain_fin hb hm hi what (hgm ⟨k3, rfl⟩)).1, hS, hT, hV]
    cases k3 <;> cases what
    · exact okNotNan_lift_fin n1
    · exact okNotNan_lift_fin n5
    · exact okNotNan_lift_fin n2
    · exact okNotNan_lift n6
  | pathDep k4 =>
    rw [(eval_pathDep_fin hb hm hi what g).1, hS, hM, hT, hV]
    cases k4 <;> cases what
    · exact okNotNan_lift_fin n3
    · exact okNotNan_lift_fin n7
    · exact okNotNan_lift_fin n4
    · exact absurd ⟨rfl, rfl⟩ hK5

end AtExpiryGiven

/-! ## rejection of negative / NaN time to maturity and volatility -/
section Rejection
variable {mod : BSModule XR} {mk : Market XR} {Ss vs : List ℝ} {K δ : ℝ} {i : ℕ} {call : Bool}

/-- formula level, all eight (kind, method) pairs incl. the autograd lookback delta -/
theorem formula_rejected (s m t v k : XR) (call : Bool) (what : Method)
    (h : ¬ (0 : XR) ≤ t ∨ ¬ (0 : XR) ≤ v) :
    (∀ k3 : Kind3, k3.formula what call k s t v = .error .valueError) ∧
    (∀ k4 : Kind4, k4.formula what k s m t v = .error .valueError) := by
  have r := C18.negative_rejected s m t v k call h
  have rl := lookback_delta_rejected s m t v k h
  constructor
  · intro k3; cases k3 <;> cases what
    · exact r.2.2.1
    · exact r.2.2.2.1
    · exact r.2.2.2.2.2.2.2.1
    · exact r.2.2.2.2.2.2.2.2.1
  · intro k4; cases k4 <;> cases what
    · exact r.2.2.2.2.2.2.2.2.2.2.2.2.1
    · exact r.2.2.2.2.2.2.2.2.2.2.2.2.2.1
    · exact r.2.2.2.2.2.2.2.2.2.2.2.2.2.2.2.2.2
    · exact rl

/-- a module built on a finite market rejects a resolved time to maturity / volatility that is negative,
`−∞` or NaN (`C18.rejected_iff`) — overridden or own — with the formula's `ValueError`, for every kind and
both methods (the lookback delta included): no silent NaN -/
theorem negative_rejected {kind : Kind} (hb : BuiltOn mod kind call mk)
    (hm : FiniteMarket mk Ss vs K δ) (hi : Live mk i) (what : Method) {g : Given XR}
    (hgm : (∃ k3, kind = .plain k3) → g.m = none)
    (h : ¬ (0 : XR) ≤ rT Ss δ g i ∨ ¬ (0 : XR) ≤ rV vs g i) :
    mod.eval what g i = .error (.lower .valueError) := by
  cases kind with
  | plain k3 =>
    rw [(eval_plain_fin hb hm hi what (hgm ⟨k3, rfl⟩)).1,
      (formula_rejected (rS Ss K g i) (fin 0) _ _ (fin K) call what h).1 k3]
    rfl
  | pathDep k4 =>
    rw [(eval_pathDep_fin hb hm hi what g).1,
      (formula_rejected (rS Ss K g i) (rM Ss K g i) _ _ (fin K) call what h).2 k4]
    rfl

/-- in particular an explicitly passed finite negative time to maturity or volatility -/
theorem negative_override_rejected {kind : Kind} (hb : BuiltOn mod kind call mk)
    (hm : FiniteMarket mk Ss vs K δ) (hi : Live mk i) (what : Method) {g : Given XR}
    (hgm : (∃ k3, kind = .plain k3) → g.m = none) {x : ℝ} (hx : x < 0)
    (h : g.t = some (fin x) ∨ g.v = some (fin x)) :
    mod.eval what g i = .error (.lower .valueError) := by
  refine negative_rejected hb hm hi what hgm ?_
  rcases h with h | h
  · left; rw [rT, h]; simpa using hx
  · right; rw [rV, h]; simpa using hx

/-- the same for a module called with every input explicit (with or without a derivative) -/
theorem negative_explicit_rejected (mod : BSModule XR) (what : Method) (i : ℕ) (s m t v : XR)
    (h : ¬ (0 : XR) ≤ t ∨ ¬ (0 : XR) ≤ v) :
    (∀ k3, mod.kind = .plain k3 →
      mod.eval what { s := some s, t := some t, v := some v } i = .error (.lower .valueError)) ∧
    (∀ k4, mod.kind = .pathDep k4 →
      mod.eval what { s := some s, m := some m, t := some t, v := some v } i
        = .error (.lower .valueError)) := by
  obtain ⟨e1, e2⟩ := eval_all_explicit mod what i s m t v
  obtain ⟨f1, f2⟩ := formula_rejected s m t v mod.strike mod.call what h
  exact ⟨fun k3 hk => by rw [e1 k3 hk, f1 k3]; rfl, fun k4 hk => by rw [e2 k4 hk, f2 k4]; rfl⟩

end Rejection

end PfVerif.C18Modules

namespace PfVerif.C18Modules
open PfVerif XR C18Aux C18HedgeAux PfVerif.C07Acquire PfVerif.C09Modules PfVerif.C18ModulesAux

/-! ## the modules on the derivative's OWN state on the edge (nothing overridden):
the last time index, and every index of a zero-volatility path -/
section Own
variable {mod : BSModule XR} {mk : Market XR} {Ss vs : List ℝ} {K δ : ℝ} {i : ℕ} {call : Bool}

/-- European module: the intrinsic value on the derivative's own spot `S_i` -/
theorem european_price_own (hb : BuiltOn mod (.plain .european) call mk)
    (hm : FiniteMarket mk Ss vs K δ) (hi : Live mk i) (he : AtExpiry Ss vs δ i) :
    modulePrice mod {} i
      = .ok (fin (if call then max (Ss.getD i 1 - K) 0 else max (K - Ss.getD i 1) 0)) := by
  rw [european_price_at_expiry hb hm hi rfl rfl rfl rfl he, strike_mul_exp_sR hm i]

/-- European module: limiting delta by the position of the own spot relative to the strike -/
theorem european_delta_own (hb : BuiltOn mod (.plain .european) call mk)
    (hm : FiniteMarket mk Ss vs K δ) (hi : Live mk i) (he : AtExpiry Ss vs δ i) :
    (K < Ss.getD i 1 → moduleDelta mod {} i = .ok (fin (if call then 1 else 0))) ∧
    (Ss.getD i 1 < K → moduleDelta mod {} i = .ok (fin (if call then 0 else -1))) ∧
    (Ss.getD i 1 = K → moduleDelta mod {} i = .ok (fin (if call then 1 / 2 else -1 / 2))) := by
  obtain ⟨h1, h2, h3⟩ := european_delta_at_expiry hb hm hi (g := {}) rfl rfl rfl rfl he
  obtain ⟨s1, s2, s3⟩ := sR_pos_iff hm i
  exact ⟨fun h => h1 (s1.2 h), fun h => h2 (s2.2 h), fun h => h3 (s3.2 h)⟩

/-- European-binary module away from the strike: the indicator payoff on the own spot -/
theorem binary_price_own (hb : BuiltOn mod (.plain .binary) call mk)
    (hm : FiniteMarket mk Ss vs K δ) (hi : Live mk i) (he : AtExpiry Ss vs δ i)
    (hne : Ss.getD i 1 ≠ K) :
    modulePrice mod {} i
      = .ok (fin (if call then (if K ≤ Ss.getD i 1 then 1 else 0)
                  else (if Ss.getD i 1 ≤ K then 1 else 0))) := by
  obtain ⟨h1, h2, _⟩ := binary_price_at_expiry hb hm hi (g := {}) rfl rfl rfl rfl he
  obtain ⟨s1, s2, _⟩ := sR_pos_iff hm i
  rcases lt_or_gt_of_ne hne with h | h
  · rw [h2 (s2.2 h), if_neg (not_le.2 h), if_pos h.le]
  · rw [h1 (s1.2 h), if_pos h.le, if_neg (not_le.2 h)]

/-- … and exactly at the strike the formula gives ½ (call and put) -/
theorem binary_price_own_at_strike (hb : BuiltOn mod (.plain .binary) call mk)
    (hm : FiniteMarket mk Ss vs K δ) (hi : Live mk i) (he : AtExpiry Ss vs δ i)
    (heq : Ss.getD i 1 = K) : modulePrice mod {} i = .ok (fin (1 / 2)) :=
  (binary_price_at_expiry hb hm hi (g := {}) rfl rfl rfl rfl he).2.2 ((sR_pos_iff hm i).2.2.2 heq)

/-- European-binary module: delta `0` away from the strike, `±∞` (not NaN) at the strike -/
theorem binary_delta_own (hb : BuiltOn mod (.plain .binary) call mk)
    (hm : FiniteMarket mk Ss vs K δ) (hi : Live mk i) (he : AtExpiry Ss vs δ i) :
    (Ss.getD i 1 ≠ K → moduleDelta mod {} i = .ok (fin 0)) ∧
    (Ss.getD i 1 = K → moduleDelta mod {} i = .ok (if call then pinf else ninf)) := by
  obtain ⟨h1, h2⟩ := binary_delta_at_expiry hb hm hi (g := {}) rfl rfl rfl rfl he
  obtain ⟨_, _, s3⟩ := sR_pos_iff hm i
  exact ⟨fun h => h1 (fun h0 => h (s3.1 h0)), fun h => h2 (s3.2 h)⟩

/-- American-binary module: one iff the derivative's own running maximum `max_{j ≤ i} S_j` has reached the
strike — the hypothesis "running max ≥ spot" of the formula-level theorem holds by construction -/
theorem american_binary_price_own (hb : BuiltOn mod (.pathDep .americanBinary) call mk)
    (hm : FiniteMarket mk Ss vs K δ) (hi : Live mk i) (he : AtExpiry Ss vs δ i) :
    modulePrice mod {} i = .ok (fin (if K ≤ (cummaxL Ss).getD i 0 then 1 else 0)) := by
  have hiS := ((live_iff hm).1 hi).1
  rw [american_binary_price_at_expiry hb hm hi (g := {}) rfl rfl rfl rfl (sR_le_mR hiS) he]
  by_cases h : 0 ≤ mR Ss K i
  · rw [if_pos h, if_pos ((mR_nonneg_iff hm hiS).1 h)]
  · rw [if_neg h, if_neg (fun h' => h ((mR_nonneg_iff hm hiS).2 h'))]

/-- American-binary module: delta `0` -/
theorem american_binary_delta_own (hb : BuiltOn mod (.pathDep .americanBinary) call mk)
    (hm : FiniteMarket mk Ss vs K δ) (hi : Live mk i) (he : AtExpiry Ss vs δ i) :
    moduleDelta mod {} i = .ok (fin 0) :=
  american_binary_delta_at_expiry hb hm hi (g := {}) rfl rfl rfl rfl
    (sR_le_mR ((live_iff hm).1 hi).1) he

/-- lookback module: the payoff on the own running maximum, `max(max_{j ≤ i} S_j − K, 0)` -/
theorem lookback_price_own (hb : BuiltOn mod (.pathDep .lookback) call mk)
    (hm : FiniteMarket mk Ss vs K δ) (hi : Live mk i) (he : AtExpiry Ss vs δ i) :
    modulePrice mod {} i = .ok (fin (max ((cummaxL Ss).getD i 0 - K) 0)) := by
  have hiS := ((live_iff hm).1 hi).1
  have hsm := sR_le_mR (K := K) hiS
  rw [lookback_price_at_expiry hb hm hi (g := {}) rfl rfl rfl rfl hsm he,
    max_eq_left (mul_le_mul_of_nonneg_left (Real.exp_le_exp.2 hsm) hm.strike_pos.le),
    strike_mul_exp_mR hm hiS]

/-- no NaN on the own state on the edge: all four prices and the European / binary / American-binary
deltas.  (Lookback delta: known finding K5, excluded.) -/
theorem no_nan_own {kind : Kind} (hb : BuiltOn mod kind call mk) (hm : FiniteMarket mk Ss vs K δ)
    (hi : Live mk i) (he : AtExpiry Ss vs δ i) (what : Method)
    (hK5 : ¬ (kind = .pathDep .lookback ∧ what = .delta)) :
    OkNotNan (mod.eval what {} i) :=
  no_nan_at_expiry hb hm hi what hK5 (fun _ => rfl) rfl rfl rfl rfl
    (sR_le_mR ((live_iff hm).1 hi).1) he

end Own

/-! ## `price()[:, -1]` of the module is the derivative's payoff (Model/Payoff.lean) -/
section LastColumn
variable {mod : BSModule XR} {mk : Market XR} {Ss vs : List ℝ} {K δ : ℝ} {call : Bool}

/-- the last spot of a non-empty finite path -/
private theorem lastL_spot (hm : FiniteMarket mk Ss vs K δ) (hn : 0 < Ss.length) :
    lastL mk.spot = some (fin (Ss.getD (Ss.length - 1) 1)) := by
  have hl : Ss.length - 1 < Ss.length := by omega
  rw [hm.spot_eq, lastL_map, lastL_eq_getElem?, List.getElem?_eq_getElem hl, getD_of_lt _ _ hl]
  rfl

/-- European option: last column of `price()` = `european_payoff` of the path -/
theorem european_last_column_payoff (hb : BuiltOn mod (.plain .european) call mk)
    (hm : FiniteMarket mk Ss vs K δ) (hi : Live mk (Ss.length - 1)) (hn : 0 < Ss.length) :
    modulePrice mod {} (Ss.length - 1) = liftErr (europeanPayoff call mk.strike mk.spot) := by
  rw [european_price_own hb hm hi (atExpiry_last hm)]
  unfold europeanPayoff
  rw [lastL_spot hm hn, hm.strike_eq]
  cases call <;> simp [fin_sub_fin, reluS_fin, liftErr]

/-- European binary option, last spot away from the strike: last column = `european_binary_payoff` -/
theorem binary_last_column_payoff (hb : BuiltOn mod (.plain .binary) call mk)
    (hm : FiniteMarket mk Ss vs K δ) (hi : Live mk (Ss.length - 1)) (hn : 0 < Ss.length)
    (hne : Ss.getD (Ss.length - 1) 1 ≠ K) :
    modulePrice mod {} (Ss.length - 1) = liftErr (europeanBinaryPayoff call mk.strike mk.spot) := by
  rw [binary_price_own hb hm hi (atExpiry_last hm) hne]
  unfold europeanBinaryPayoff
  rw [lastL_spot hm hn, hm.strike_eq]
  cases call <;> simp only [indS, fin_le_fin, decide_eq_true_eq, liftErr, Bool.false_eq_true,
    if_false, if_true, one_def, zero_def] <;> split_ifs <;> rfl

/-- American binary option: last column = `american_binary_payoff` (1 iff the path maximum reached the
strike) -/
theorem american_binary_last_column_payoff (hb : BuiltOn mod (.pathDep .americanBinary) call mk)
    (hm : FiniteMarket mk Ss vs K δ) (hi : Live mk (Ss.length - 1)) (hn : 0 < Ss.length) :
    modulePrice mod {} (Ss.length - 1) = liftErr (americanBinaryPayoff true mk.strike mk.spot) := by
  rw [american_binary_price_own hb hm hi (atExpiry_last hm), hm.spot_eq, hm.strike_eq]
  cases Ss with
  | nil => simp at hn
  | cons x xs =>
    have hmax : (cummaxL (x :: xs)).getD xs.length 0 = maxL x xs := by
      have h1 := C03.cummax_get (x :: xs) xs.length (by simp) _
        (C03.prefixMax_eq_maxL x xs xs.length)
      rw [List.take_length] at h1
      simp [List.getD_eq_getElem?_getD, h1]
    simp only [List.length_cons, Nat.add_sub_cancel, hmax, List.map_cons, americanBinaryPayoff,
      maxL_fin, fin_le_fin, indS, decide_eq_true_eq, if_true, liftErr, one_def, zero_def]
    split_ifs <;> rfl

/-- lookback option: last column = `lookback_payoff` (call on the path maximum) -/
theorem lookback_last_column_payoff (hb : BuiltOn mod (.pathDep .lookback) call mk)
    (hm : FiniteMarket mk Ss vs K δ) (hi : Live mk (Ss.length - 1)) (hn : 0 < Ss.length) :
    modulePrice mod {} (Ss.length - 1) = liftErr (lookbackPayoff true mk.strike mk.spot) := by
  rw [lookback_price_own hb hm hi (atExpiry_last hm), hm.spot_eq, hm.strike_eq]
  cases Ss with
  | nil => simp at hn
  | cons x xs =>
    have hmax : (cummaxL (x :: xs)).getD xs.length 0 = maxL x xs := by
      have h1 := C03.cummax_get (x :: xs) xs.length (by simp) _
        (C03.prefixMax_eq_maxL x xs xs.length)
      rw [List.take_length] at h1
      simp [List.getD_eq_getElem?_getD, h1]
    simp only [List.length_cons, Nat.add_sub_cancel, hmax, List.map_cons, lookbackPayoff,
      maxL_fin, fin_sub_fin, reluS_fin, if_true, liftErr]

end LastColumn

/-! ## non-vacuity -/

/-- the path 1, 2, 3/2 (strike 1, dt = 1/4) with volatility 1/2, and the same path with volatility 0 -/
noncomputable def exMk : Market XR :=
  ⟨[fin 1, fin 2, fin (3 / 2)], [], [fin (1 / 2), fin (1 / 2), fin (1 / 2)], [], fin (1 / 4), fin 1, []⟩
noncomputable def exMk0 : Market XR :=
  ⟨[fin 1, fin 2, fin (3 / 2)], [], [fin 0, fin 0, fin 0], [], fin (1 / 4), fin 1, []⟩

private theorem exMk_finite : FiniteMarket exMk [1, 2, 3 / 2] [1 / 2, 1 / 2, 1 / 2] 1 (1 / 4) where
  spot_eq := rfl
  spot_pos := by intro S hS; simp at hS; rcases hS with rfl | rfl | rfl <;> norm_num
  vol_eq := rfl
  vol_nonneg := by intro v hv; simp at hv; rw [hv]; norm_num
  strike_eq := rfl
  strike_pos := one_pos
  dt_eq := rfl
  dt_nonneg := by norm_num

private theorem exMk0_finite : FiniteMarket exMk0 [1, 2, 3 / 2] [0, 0, 0] 1 (1 / 4) where
  spot_eq := rfl
  spot_pos := by intro S hS; simp at hS; rcases hS with rfl | rfl | rfl <;> norm_num
  vol_eq := rfl
  vol_nonneg := by intro v hv; simp at hv; rw [hv]
  strike_eq := rfl
  strike_pos := one_pos
  dt_eq := rfl
  dt_nonneg := by norm_num

/-- the hypotheses are satisfiable: modules of all kinds are built on these markets by `fromDerivative`; the
last index of the first path and EVERY index of the zero-volatility path are live cells on the edge, while
the earlier indices of the first path are not (time to maturity 1/2, 1/4 and volatility 1/2 there) -/
example :
    (∃ mod, BSModule.fromDerivative (.pathDep .lookback) ⟨exMk, true, true, true⟩ = .ok mod ∧
      BuiltOn mod (.pathDep .lookback) true exMk) ∧
    (∃ mod, BSModule.fromDerivative (.plain .binary) ⟨exMk0, false, true, true⟩ = .ok mod ∧
      BuiltOn mod (.plain .binary) false exMk0) ∧
    Live exMk 2 ∧ AtExpiry [1, 2, 3 / 2] [1 / 2, 1 / 2, 1 / 2] (1 / 4) 2 ∧
    ¬ AtExpiry [1, 2, 3 / 2] [1 / 2, 1 / 2, 1 / 2] (1 / 4) 1 ∧
    Live exMk0 0 ∧ AtExpiry [1, 2, 3 / 2] [0, 0, 0] (1 / 4) 0 ∧
    AtExpiry [1, 2, 3 / 2] [0, 0, 0] (1 / 4) 1 := by
  refine ⟨⟨_, fromDerivative_pathDep_call _ _ rfl,
      builtOn_fromDerivative (d := ⟨exMk, true, true, true⟩) rfl rfl
        (fromDerivative_pathDep_call _ _ rfl)⟩,
    ⟨_, fromDerivative_plain _ _,
      builtOn_fromDerivative (d := ⟨exMk0, false, true, true⟩) rfl rfl (fromDerivative_plain _ _)⟩,
    ⟨by simp [exMk], by simp [exMk]⟩, atExpiry_last exMk_finite, ?_,
    ⟨by simp [exMk0], by simp [exMk0]⟩, atExpiry_zero_vol exMk0_finite (by simp) (by simp [vR]),
    atExpiry_zero_vol exMk0_finite (by simp) (by simp [vR])⟩
  unfold AtExpiry tR vR
  norm_num

/-- on the first path the lookback module's last column is the payoff `max(2 − 1, 0) = 1` although the
last spot is 3/2; the American binary quotes 1 there (the barrier was reached at step 0), the European
call quotes `3/2 − 1`, the binary put 0, and the European delta is 1 -/
example (ml ma mc mb : BSModule XR)
    (hl : BSModule.fromDerivative (.pathDep .lookback) ⟨exMk, true, true, true⟩ = .ok ml)
    (ha : BSModule.fromDerivative (.pathDep .americanBinary) ⟨exMk, true, true, true⟩ = .ok ma)
    (hc : BSModule.fromDerivative (.plain .european) ⟨exMk, true, true, true⟩ = .ok mc)
    (hb : BSModule.fromDerivative (.plain .binary) ⟨exMk, false, true, true⟩ = .ok mb) :
    modulePrice ml {} 2 = .ok (fin 1) ∧ modulePrice ma {} 2 = .ok (fin 1) ∧
    modulePrice mc {} 2 = .ok (fin (1 / 2)) ∧ modulePrice mb {} 2 = .ok (fin 0) ∧
    moduleDelta mc {} 2 = .ok (fin 1) := by
  have hi : Live exMk 2 := ⟨by simp [exMk], by simp [exMk]⟩
  have he := atExpiry_last exMk_finite
  have b := fun {kind c mod} (h : BSModule.fromDerivative kind ⟨exMk, c, true, true⟩ = .ok mod) =>
    builtOn_fromDerivative (d := ⟨exMk, c, true, true⟩) rfl rfl h
  refine ⟨?_, ?_, ?_, ?_, ?_⟩
  · rw [lookback_price_own (b hl) exMk_finite hi he]
    norm_num [cummaxL, cummaxL.go]
  · rw [american_binary_price_own (b ha) exMk_finite hi he]
    norm_num [cummaxL, cummaxL.go]
  · rw [european_price_own (b hc) exMk_finite hi he]
    norm_num
  · rw [binary_price_own (b hb) exMk_finite hi he (by norm_num)]
    norm_num
  · have := (european_delta_own (b hc) exMk_finite hi he).1 (by norm_num)
    simpa using this

/-- rejection hypotheses are satisfiable: a negative time to maturity passed to the lookback module's
delta, a NaN volatility passed to the European module's price -/
example (ml mc : BSModule XR)
    (hl : BSModule.fromDerivative (.pathDep .lookback) ⟨exMk, true, true, true⟩ = .ok ml)
    (hc : BSModule.fromDerivative (.plain .european) ⟨exMk, false, true, true⟩ = .ok mc) :
    moduleDelta ml { t := some (fin (-1)) } 0 = .error (.lower .valueError) ∧
    modulePrice mc { v := some nan } 1 = .error (.lower .valueError) := by
  constructor
  · exact negative_override_rejected
      (builtOn_fromDerivative (d := ⟨exMk, true, true, true⟩) rfl rfl hl) exMk_finite
      ⟨by simp [exMk], by simp [exMk]⟩ .delta (fun h => by obtain ⟨k, hk⟩ := h; cases hk)
      (x := -1) (by norm_num) (Or.inl rfl)
  · exact negative_rejected
      (builtOn_fromDerivative (d := ⟨exMk, false, true, true⟩) rfl rfl hc) exMk_finite
      ⟨by simp [exMk], by simp [exMk]⟩ .price (fun _ => rfl)
      (Or.inr (by simp [rV]))

end PfVerif.C18Modules
