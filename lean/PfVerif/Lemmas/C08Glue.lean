/-
  C08 (glue) — what `pfhedge.autogreek` hands to the user's pricer, and what comes back.

  Model: Model/Autogreek.lean (`parseSpot/parseVolatility/parseTime`, `preDict`, `passed`,
  `bindArgs`, `callArgs`, `run`, `autogreekValue`, `autogreekGamma`, `Expr`) — the definitions the
  driver op "autogreek" executes (at `Dual Float`, `Dual (Dual Float)`) and the harness compares with
  the keyword arguments recorded inside the real call, the error raised and the Greek returned.

  `C08GlueAux` (not listed): dict / filter / binding lemmas; `derives`, `Plain`; `Fwd` — a forward-mode
  carrier (first order `fwd1`: `Dual ℝ` with `Tracks`; second order `fwd2`: `Dual (Dual ℝ)` with
  `Tracks2`), `TracksArgs`, `Smooth`, `eval_tracks`, `run_tracks`: the dual run against the plain run
  as a function of the leaf.

  `C08Glue` (property theorems):
    consistency      gamma_dict_eq_delta_dict, spot_entries_of_one_leaf, spot_entries_without_strike,
                     vol_entries_of_one_leaf, time_entry_is_leaf, other_entries_pass_through,
                     derived_entries_present — the entries the pricer can receive are functions of ONE
                     leaf, whatever was passed under the derived names is overwritten, everything else
                     passes through;  given_spot, given_moneyness, given_log_moneyness,
                     given_volatility, given_variance, given_nonpositive_variance — they agree with
                     the caller's point under each parameterisation (strike ≠ 0 / > 0, variance ≥ 0)
    filter/binding   received_iff, received_mem, varKeyword_receives_only_its_own_name, bound_value,
                     positionalOnly_value, bound_names, callArgs_plain_extra — exactly the named
                     entries are passed, with exactly their values; defaults only for names neither
                     passed nor derived
    errors           preDict_error_iff (ValueError iff no spot / volatility / time parameterisation),
                     valueError_first, run_cases, callArgs_error_iff, callArgs_plain_error_iff,
                     missing_iff, run_typeError_iff (TypeError iff a required parameter is neither
                     passed nor derived, or a keyword lands nowhere)
    chain rule       delta_of_spot/moneyness/log_moneyness_pricer (φ', φ'/K, φ'/S),
                     vega_of_volatility/variance_pricer (φ', 2σφ'), vega_at_nonpositive_variance (0),
                     theta_of_pricer (−φ'), gamma_of_spot/moneyness/log_moneyness_pricer (second
                     derivative of the composite; gamma_of_moneyness_pricer_explicit: φ''/K²) for pricers
                     that are forward-mode liftings (`Lifts`, `Lifts2`) of a real function of the entry
    bodies           expr_lifts, expr_lifts2 (every body of `Expr` is such a lifting),
                     expr_greek_is_derivative, expr_gamma_is_second_derivative — for EVERY body of the
                     closed language, ordinary signature and parameterisation the number the model
                     returns is the (second) derivative by the leaf of the model's own price
    `example`s       non-vacuity
-/
import PfVerif.Model.Autogreek
import PfVerif.Lemmas.C08Dual

set_option linter.unusedSectionVars false
set_option linter.unusedSimpArgs false

namespace PfVerif.C08GlueAux
open PfVerif PfVerif.Autogreek Transc

section dict
variable {α : Type}

theorem getP_setP_self (ps : Params α) (k : String) (v : α) : getP (setP ps k v) k = some v := by
  induction ps with
  | nil => simp [setP, getP]
  | cons e r ih =>
    obtain ⟨k', v'⟩ := e
    by_cases h : k' = k
    · simp [setP, getP, h]
    · simp [setP, getP, h, ih]

theorem getP_setP_ne (ps : Params α) {k n : String} (v : α) (h : k ≠ n) :
    getP (setP ps k v) n = getP ps n := by
  induction ps with
  | nil => simp [setP, getP, h]
  | cons e r ih =>
    obtain ⟨k', v'⟩ := e
    by_cases h' : k' = k
    · subst h'; simp [setP, getP, h]
    · by_cases h2 : k' = n
      · subst h2; simp [setP, getP, h']
      · simp [setP, getP, h', h2, ih]

theorem setP_of_getP {ps : Params α} {k : String} {v : α} (h : getP ps k = some v) :
    setP ps k v = ps := by
  induction ps with
  | nil => simp [getP] at h
  | cons e r ih =>
    obtain ⟨k', v'⟩ := e
    by_cases hk : k' = k
    · subst hk
      simp only [getP, if_true, Option.some.injEq] at h
      simp [setP, h]
    · simp only [getP, hk, if_false] at h
      simp [setP, hk, ih h]

theorem getP_filter (ps : Params α) (q : String → Bool) (k : String) :
    getP (ps.filter (fun e => q e.1)) k = if q k then getP ps k else none := by
  induction ps with
  | nil => simp [getP]
  | cons e r ih =>
    obtain ⟨k', v'⟩ := e
    by_cases hq : q k'
    · by_cases hk : k' = k
      · subst hk; simp [List.filter, hq, getP]
      · simp [List.filter, hq, getP, hk, ih]
    · by_cases hk : k' = k
      · subst hk; simp [List.filter, hq, getP, ih]
      · simp [List.filter, hq, getP, hk, ih]

theorem getP_eq_none_iff (ps : Params α) (k : String) : getP ps k = none ↔ k ∉ keysP ps := by
  induction ps with
  | nil => simp [getP, keysP]
  | cons e r ih =>
    obtain ⟨k', v'⟩ := e
    by_cases hk : k' = k
    · subst hk; simp [getP, keysP]
    · simp only [getP, hk, if_false, ih, keysP, List.map_cons, List.mem_cons]
      constructor
      · intro h1 h2; rcases h2 with h2 | h2
        · exact hk h2.symm
        · exact h1 h2
      · intro h1 h2; exact h1 (Or.inr h2)

theorem getP_map (l : α → β) (ps : Params α) (k : String) :
    getP (liftParams l ps) k = (getP ps k).map l := by
  induction ps with
  | nil => simp [liftParams, getP]
  | cons e r ih =>
    obtain ⟨k', v'⟩ := e
    by_cases hk : k' = k
    · simp [liftParams, getP, hk]
    · simpa [liftParams, getP, hk] using ih

end dict

section parse
variable {α : Type} [Mul α] [Div α] [OfNat α 0] [Max α] [Transc α]

theorem parseSpot_spot {ps : Params α} {s : α} (h : getP ps "spot" = some s) :
    parseSpot ps = .ok s := by
  simp [parseSpot, h]

theorem parseSpot_moneyness {ps : Params α} {m k : α} (h0 : getP ps "spot" = none)
    (hm : getP ps "moneyness" = some m) (hk : getP ps "strike" = some k) :
    parseSpot ps = .ok (m * k) := by
  simp [parseSpot, h0, hm, hk]

theorem parseSpot_logMoneyness {ps : Params α} {l k : α} (h0 : getP ps "spot" = none)
    (hm : getP ps "moneyness" = none) (hl : getP ps "log_moneyness" = some l)
    (hk : getP ps "strike" = some k) :
    parseSpot ps = .ok (exp l * k) := by
  simp [parseSpot, h0, hm, hl, hk]

theorem parseSpot_error_iff (ps : Params α) (e : Err) :
    parseSpot ps = .error e ↔ e = .valueError ∧ getP ps "spot" = none ∧
      (getP ps "strike" = none ∨ (getP ps "moneyness" = none ∧ getP ps "log_moneyness" = none)) := by
  unfold parseSpot
  cases h0 : getP ps "spot" <;> cases hm : getP ps "moneyness" <;> cases hk : getP ps "strike" <;>
    cases hl : getP ps "log_moneyness" <;> simp [eq_comm]

theorem parseVolatility_error_iff (ps : Params α) (e : Err) :
    parseVolatility ps = .error e ↔ e = .valueError ∧ getP ps "volatility" = none ∧
      getP ps "variance" = none := by
  unfold parseVolatility
  cases h0 : getP ps "volatility" <;> cases hm : getP ps "variance" <;> simp [eq_comm]

theorem parseTime_error_iff (ps : Params α) (e : Err) :
    parseTime ps = .error e ↔ e = .valueError ∧ getP ps "time_to_maturity" = none := by
  unfold parseTime
  cases h0 : getP ps "time_to_maturity" <;> simp [eq_comm]

/-- the dict of delta once the leaf is known -/
def deltaOut (ps : Params α) (leaf : α) : Params α :=
  match getP ps "strike" with
  | some k => setP (setP (setP ps "spot" leaf) "moneyness" (leaf / k)) "log_moneyness" (log (leaf / k))
  | none => setP ps "spot" leaf

theorem deltaDict_ok {seed : α → α} {ps : Params α} {x : α} (hx : parseSpot ps = .ok x) :
    deltaDict seed ps = .ok (deltaOut ps (seed x)) := by
  unfold deltaDict deltaOut
  rw [hx]
  show (match getP (setP ps "spot" (seed x)) "strike" with
    | some k => _ | none => _) = _
  rw [getP_setP_ne _ _ (by decide)]
  cases getP ps "strike" <;> rfl

theorem deltaDict_error {seed : α → α} {ps : Params α} {e : Err} (hx : parseSpot ps = .error e) :
    deltaDict seed ps = .error e := by
  unfold deltaDict; rw [hx]; rfl

theorem deltaOut_spot (ps : Params α) (leaf : α) : getP (deltaOut ps leaf) "spot" = some leaf := by
  unfold deltaOut
  cases getP ps "strike" with
  | none => exact getP_setP_self _ _ _
  | some k =>
    rw [getP_setP_ne _ _ (by decide), getP_setP_ne _ _ (by decide)]
    exact getP_setP_self _ _ _

theorem deltaOut_moneyness {ps : Params α} {k : α} (hk : getP ps "strike" = some k) (leaf : α) :
    getP (deltaOut ps leaf) "moneyness" = some (leaf / k) := by
  unfold deltaOut; rw [hk]
  show getP (setP _ "log_moneyness" _) "moneyness" = _
  rw [getP_setP_ne _ _ (by decide)]
  exact getP_setP_self _ _ _

theorem deltaOut_logMoneyness {ps : Params α} {k : α} (hk : getP ps "strike" = some k) (leaf : α) :
    getP (deltaOut ps leaf) "log_moneyness" = some (log (leaf / k)) := by
  unfold deltaOut; rw [hk]
  exact getP_setP_self _ _ _

theorem deltaOut_noStrike {ps : Params α} (hk : getP ps "strike" = none) (leaf : α) :
    deltaOut ps leaf = setP ps "spot" leaf := by
  unfold deltaOut; rw [hk]

theorem deltaOut_strike {ps : Params α} {k : α} (hk : getP ps "strike" = some k) (leaf : α) :
    deltaOut ps leaf = setP (setP (setP ps "spot" leaf) "moneyness" (leaf / k)) "log_moneyness"
      (log (leaf / k)) := by
  unfold deltaOut; rw [hk]

theorem deltaOut_other (ps : Params α) (leaf : α) {n : String} (h1 : n ≠ "spot")
    (h2 : n ≠ "moneyness") (h3 : n ≠ "log_moneyness") :
    getP (deltaOut ps leaf) n = getP ps n := by
  unfold deltaOut
  cases getP ps "strike" with
  | none => exact getP_setP_ne _ _ (Ne.symm h1)
  | some k =>
    show getP (setP (setP (setP ps "spot" leaf) "moneyness" _) "log_moneyness" _) n = _
    rw [getP_setP_ne _ _ (Ne.symm h3), getP_setP_ne _ _ (Ne.symm h2), getP_setP_ne _ _ (Ne.symm h1)]

/-- delta on its own output (what `gamma` does) changes nothing when the seed is idempotent -/
theorem deltaOut_idem (ps : Params α) (leaf : α) :
    deltaOut (deltaOut ps leaf) leaf = deltaOut ps leaf := by
  cases hk : getP ps "strike" with
  | none =>
    have h1 : getP (deltaOut ps leaf) "strike" = none := by
      rw [deltaOut_other _ _ (by decide) (by decide) (by decide), hk]
    rw [deltaOut_noStrike h1, setP_of_getP (deltaOut_spot ps leaf)]
  | some k =>
    have h1 : getP (deltaOut ps leaf) "strike" = some k := by
      rw [deltaOut_other _ _ (by decide) (by decide) (by decide), hk]
    rw [deltaOut_strike h1, setP_of_getP (deltaOut_spot ps leaf), setP_of_getP (deltaOut_moneyness hk leaf),
      setP_of_getP (deltaOut_logMoneyness hk leaf)]


/-- the names autogreek writes itself (`strike`: the caller passed a strike) -/
def derives (g : Greek) (strike : Bool) (n : String) : Prop :=
  match g with
  | .delta | .gamma => n = "spot" ∨ (strike = true ∧ (n = "moneyness" ∨ n = "log_moneyness"))
  | .vega => n = "volatility" ∨ n = "variance"
  | .theta => n = "time_to_maturity"

theorem deltaOut_passthrough (ps : Params α) (leaf : α) {n : String}
    (hn : ¬ derives .delta (hasP ps "strike") n) : getP (deltaOut ps leaf) n = getP ps n := by
  unfold derives hasP at hn
  cases hk : getP ps "strike" with
  | none =>
    rw [deltaOut_noStrike hk]
    exact getP_setP_ne _ _ (fun hh => hn (Or.inl hh.symm))
  | some k =>
    rw [hk] at hn
    simp only [Option.isSome_some, true_and, not_or] at hn
    exact deltaOut_other _ _ hn.1 hn.2.1 hn.2.2

theorem deltaOut_derived (ps : Params α) (leaf : α) {n : String}
    (hn : derives .delta (hasP ps "strike") n) : getP (deltaOut ps leaf) n ≠ none := by
  unfold derives hasP at hn
  rcases hn with rfl | ⟨hk, hn⟩
  · rw [deltaOut_spot]; simp
  · cases hk' : getP ps "strike" with
    | none => rw [hk'] at hk; cases hk
    | some k =>
      rcases hn with rfl | rfl
      · rw [deltaOut_moneyness hk']; simp
      · rw [deltaOut_logMoneyness hk']; simp

theorem preDict_gamma_eq_delta {seed : α → α} (hs : ∀ y, seed (seed y) = seed y) (ps : Params α) :
    preDict .gamma seed ps = preDict .delta seed ps := by
  show (deltaDict seed ps >>= fun d => deltaDict seed d) = deltaDict seed ps
  cases hx : parseSpot ps with
  | error e => rw [deltaDict_error hx]; rfl
  | ok x =>
    rw [deltaDict_ok hx]
    show deltaDict seed (deltaOut ps (seed x)) = _
    rw [deltaDict_ok (parseSpot_spot (deltaOut_spot ps (seed x))), hs, deltaOut_idem]

/-- the dict of vega once the leaf is known -/
def vegaOut (ps : Params α) (leaf : α) : Params α :=
  setP (setP ps "volatility" leaf) "variance" (leaf * leaf)

theorem vegaDict_ok {seed : α → α} {ps : Params α} {x : α} (hx : parseVolatility ps = .ok x) :
    vegaDict seed ps = .ok (vegaOut ps (seed x)) := by
  unfold vegaDict vegaOut; rw [hx]; rfl

theorem vegaDict_error {seed : α → α} {ps : Params α} {e : Err}
    (hx : parseVolatility ps = .error e) : vegaDict seed ps = .error e := by
  unfold vegaDict; rw [hx]; rfl

theorem vegaOut_volatility (ps : Params α) (leaf : α) :
    getP (vegaOut ps leaf) "volatility" = some leaf := by
  unfold vegaOut; rw [getP_setP_ne _ _ (by decide)]; exact getP_setP_self _ _ _

theorem vegaOut_variance (ps : Params α) (leaf : α) :
    getP (vegaOut ps leaf) "variance" = some (leaf * leaf) := getP_setP_self _ _ _

theorem vegaOut_other (ps : Params α) (leaf : α) {n : String} (h1 : n ≠ "volatility")
    (h2 : n ≠ "variance") : getP (vegaOut ps leaf) n = getP ps n := by
  unfold vegaOut; rw [getP_setP_ne _ _ (Ne.symm h2), getP_setP_ne _ _ (Ne.symm h1)]

theorem thetaDict_ok {seed : α → α} {ps : Params α} {x : α} (hx : parseTime ps = .ok x) :
    thetaDict seed ps = .ok (setP ps "time_to_maturity" (seed x)) := by
  unfold thetaDict; rw [hx]; rfl

theorem thetaDict_error {seed : α → α} {ps : Params α} {e : Err} (hx : parseTime ps = .error e) :
    thetaDict seed ps = .error e := by
  unfold thetaDict; rw [hx]; rfl

end parse

/-! ### filter and binding -/

section binding
variable {α : Type}

theorem getP_passed (sig : Sig α) (d : Params α) (k : String) :
    getP (passed sig d) k = if named sig k then getP d k else none :=
  getP_filter d (named sig) k

theorem named_of_mem {sig : Sig α} {p : Param α} (hp : p ∈ sig) : named sig p.name = true := by
  unfold named; rw [List.any_eq_true]; exact ⟨p, hp, by simp⟩

theorem bindOne_ok (kw : Params α) (p : Param α) (x : α) :
    bindOne kw p = .ok x ↔
      (match (if p.kind.byKeyword then getP kw p.name else none) with
        | some y => some y
        | none => p.default) = some x := by
  unfold bindOne
  cases (if p.kind.byKeyword then getP kw p.name else none) <;> cases p.default <;> simp

theorem bindOne_error (kw : Params α) (p : Param α) (e : Err) :
    bindOne kw p = .error e ↔ e = .typeError ∧ p.default = none ∧
      (p.kind.byKeyword = true → getP kw p.name = none) := by
  unfold bindOne
  cases hb : p.kind.byKeyword <;> cases hg : getP kw p.name <;> cases hd : p.default <;>
    simp [eq_comm]

theorem bindNamed_cons_named (kw : Params α) (p : Param α) (r : Sig α) (h : p.kind.isNamed = true) :
    bindNamed kw (p :: r) = (match bindOne kw p, bindNamed kw r with
      | .ok x, .ok rest => .ok ((p.name, x) :: rest)
      | .error e, _ => .error e
      | .ok _, .error e => .error e) := by
  rw [bindNamed, if_pos h]
  cases bindOne kw p <;> cases bindNamed kw r <;> rfl

theorem bindNamed_cons_var (kw : Params α) (p : Param α) (r : Sig α) (h : p.kind.isNamed = false) :
    bindNamed kw (p :: r) = bindNamed kw r := by
  rw [bindNamed, if_neg (by simp [h])]

theorem bindNamed_error_iff (kw : Params α) (sig : Sig α) :
    (∃ e, bindNamed kw sig = .error e) ↔
      ∃ p ∈ sig, p.kind.isNamed = true ∧ ∃ e, bindOne kw p = .error e := by
  induction sig with
  | nil => simp [bindNamed]
  | cons p r ih =>
    by_cases h : p.kind.isNamed = true
    · rw [bindNamed_cons_named _ _ _ h]
      cases h1 : bindOne kw p with
      | error e1 =>
        constructor
        · intro _; exact ⟨p, List.mem_cons_self, h, e1, h1⟩
        · intro _; exact ⟨e1, rfl⟩
      | ok x =>
        cases h2 : bindNamed kw r with
        | error e2 =>
          constructor
          · intro _
            obtain ⟨q, hq, hq2⟩ := ih.1 ⟨e2, h2⟩
            exact ⟨q, List.mem_cons_of_mem _ hq, hq2⟩
          · intro _; exact ⟨e2, rfl⟩
        | ok rest =>
          constructor
          · rintro ⟨e, he⟩; cases he
          · rintro ⟨q, hq, hq1, e, hq2⟩
            rcases List.mem_cons.1 hq with rfl | hq'
            · rw [h1] at hq2; cases hq2
            · obtain ⟨e', he'⟩ := ih.2 ⟨q, hq', hq1, e, hq2⟩
              rw [h2] at he'; cases he'
    · have h' : p.kind.isNamed = false := by simpa using h
      rw [bindNamed_cons_var _ _ _ h', ih]
      constructor
      · rintro ⟨q, hq, hq2⟩; exact ⟨q, List.mem_cons_of_mem _ hq, hq2⟩
      · rintro ⟨q, hq, hq1, hq2⟩
        rcases List.mem_cons.1 hq with rfl | hq'
        · rw [h'] at hq1; cases hq1
        · exact ⟨q, hq', hq1, hq2⟩

theorem bindNamed_error_typeError {kw : Params α} {sig : Sig α} {e : Err}
    (h : bindNamed kw sig = .error e) : e = .typeError := by
  induction sig with
  | nil => simp [bindNamed] at h
  | cons p r ih =>
    by_cases hn : p.kind.isNamed = true
    · rw [bindNamed_cons_named _ _ _ hn] at h
      cases h1 : bindOne kw p with
      | error e1 =>
        rw [h1] at h
        have : e1 = e := by cases h; rfl
        exact this ▸ ((bindOne_error _ _ _).1 h1).1
      | ok x =>
        rw [h1] at h
        cases h2 : bindNamed kw r with
        | error e2 => rw [h2] at h; have : e2 = e := by cases h; rfl
                      exact ih (this ▸ h2)
        | ok rest => rw [h2] at h; cases h
    · have h' : p.kind.isNamed = false := by simpa using hn
      rw [bindNamed_cons_var _ _ _ h'] at h
      exact ih h

/-- the value of every declared parameter: the one bound first under its name -/
theorem bindNamed_getP {kw : Params α} {sig : Sig α} {a : Params α} (h : bindNamed kw sig = .ok a)
    (hnd : sig.names.Nodup) {p : Param α} (hp : p ∈ sig) (hn : p.kind.isNamed = true) :
    ∃ x, bindOne kw p = .ok x ∧ getP a p.name = some x := by
  induction sig generalizing a with
  | nil => cases hp
  | cons q r ih =>
    have hnd' : (Sig.names r).Nodup := (List.nodup_cons.1 hnd).2
    have hq_notin : q.name ∉ Sig.names r := (List.nodup_cons.1 hnd).1
    by_cases hqn : q.kind.isNamed = true
    · rw [bindNamed_cons_named _ _ _ hqn] at h
      cases h1 : bindOne kw q with
      | error e1 => rw [h1] at h; cases h
      | ok x =>
        rw [h1] at h
        cases h2 : bindNamed kw r with
        | error e2 => rw [h2] at h; cases h
        | ok rest =>
          rw [h2] at h
          have ha : a = (q.name, x) :: rest := by cases h; rfl
          rcases List.mem_cons.1 hp with rfl | hp'
          · exact ⟨x, h1, by rw [ha]; simp [getP]⟩
          · obtain ⟨y, hy1, hy2⟩ := ih h2 hnd' hp'
            refine ⟨y, hy1, ?_⟩
            have hne : q.name ≠ p.name := fun hh =>
              hq_notin (hh ▸ List.mem_map_of_mem (f := fun p => p.name) hp')
            rw [ha]; simp [getP, hne, hy2]
    · have h' : q.kind.isNamed = false := by simpa using hqn
      rw [bindNamed_cons_var _ _ _ h'] at h
      rcases List.mem_cons.1 hp with rfl | hp'
      · rw [h'] at hn; cases hn
      · exact ih h hnd' hp'

/-- only declared parameters are bound -/
theorem bindNamed_keys {kw : Params α} {sig : Sig α} {a : Params α} (h : bindNamed kw sig = .ok a) :
    ∀ k ∈ keysP a, k ∈ sig.names := by
  induction sig generalizing a with
  | nil => simp [bindNamed] at h; subst h; simp [keysP]
  | cons q r ih =>
    by_cases hqn : q.kind.isNamed = true
    · rw [bindNamed_cons_named _ _ _ hqn] at h
      cases h1 : bindOne kw q with
      | error e1 => rw [h1] at h; cases h
      | ok x =>
        rw [h1] at h
        cases h2 : bindNamed kw r with
        | error e2 => rw [h2] at h; cases h
        | ok rest =>
          rw [h2] at h
          have ha : a = (q.name, x) :: rest := by cases h; rfl
          intro k hk
          rw [ha] at hk
          simp only [keysP, List.map_cons, List.mem_cons] at hk
          rcases hk with rfl | hk
          · simp [Sig.names]
          · have := ih h2 k hk
            simp only [Sig.names, List.map_cons, List.mem_cons]; exact Or.inr this
    · have h' : q.kind.isNamed = false := by simpa using hqn
      rw [bindNamed_cons_var _ _ _ h'] at h
      intro k hk
      have := ih h k hk
      simp only [Sig.names, List.map_cons, List.mem_cons]; exact Or.inr this


/-- signatures made of ordinary parameters only (positional-or-keyword, keyword-only) -/
def Plain (sig : Sig α) : Prop := ∀ p ∈ sig, p.kind.byKeyword = true

theorem byKeyword_isNamed {k : Kind} (h : k.byKeyword = true) : k.isNamed = true := by
  cases k <;> simp_all [Kind.byKeyword, Kind.isNamed]

theorem named_iff (sig : Sig α) (k : String) : named sig k = true ↔ k ∈ sig.names := by
  unfold named Sig.names
  rw [List.any_eq_true, List.mem_map]
  constructor
  · rintro ⟨p, hp, h⟩; exact ⟨p, hp, by simpa using h⟩
  · rintro ⟨p, hp, h⟩; exact ⟨p, hp, by simpa using h⟩

theorem findParam_of_mem {sig : Sig α} (hnd : sig.names.Nodup) {p : Param α} (hp : p ∈ sig) :
    findParam sig p.name = some p := by
  induction sig with
  | nil => cases hp
  | cons q r ih =>
    have hq_notin : q.name ∉ Sig.names r := (List.nodup_cons.1 hnd).1
    rcases List.mem_cons.1 hp with rfl | hp'
    · simp [findParam, List.find?]
    · have hne : q.name ≠ p.name := fun hh =>
        hq_notin (hh ▸ List.mem_map_of_mem (f := fun p => p.name) hp')
      have := ih (List.nodup_cons.1 hnd).2 hp'
      simpa [findParam, List.find?, hne] using this

theorem bindsNamed_of_mem {sig : Sig α} (hnd : sig.names.Nodup) {p : Param α} (hp : p ∈ sig) :
    bindsNamed sig p.name = p.kind.byKeyword := by
  unfold bindsNamed; rw [findParam_of_mem hnd hp]

theorem bindsNamed_plain {sig : Sig α} (hpl : Plain sig) {k : String} (hk : named sig k = true) :
    bindsNamed sig k = true := by
  unfold bindsNamed findParam
  cases hf : sig.find? (fun p => p.name = k) with
  | none =>
    rw [List.find?_eq_none] at hf
    unfold named at hk; rw [List.any_eq_true] at hk
    obtain ⟨p, hp, h⟩ := hk
    exact absurd h (hf p hp)
  | some p => exact hpl p (List.mem_of_find?_eq_some hf)

theorem extra_plain {sig : Sig α} (hpl : Plain sig) (d : Params α) :
    (passed sig d).filter (fun e => !bindsNamed sig e.1) = [] := by
  rw [List.filter_eq_nil_iff]
  intro e he
  have hn : named sig e.1 = true := by
    unfold passed at he; exact (List.mem_filter.1 he).2
  simp [bindsNamed_plain hpl hn]

theorem bindArgs_ok {sig : Sig α} {kw : Params α} {env : Env α} (h : bindArgs sig kw = .ok env) :
    bindNamed kw sig = .ok env.args ∧ env.extra = kw.filter (fun e => !bindsNamed sig e.1) ∧
      (env.extra = [] ∨ hasVarKw sig = true) := by
  unfold bindArgs at h
  simp only at h
  split at h
  · cases h
  · rename_i hc
    cases hb : bindNamed kw sig with
    | error e => rw [hb] at h; cases h
    | ok a =>
      rw [hb] at h
      have : env = ⟨a, kw.filter (fun e => !bindsNamed sig e.1)⟩ := by cases h; rfl
      subst this
      refine ⟨rfl, rfl, ?_⟩
      simp only [Bool.and_eq_true, Bool.not_eq_true', not_and, Bool.not_eq_false,
        List.isEmpty_eq_false_iff_exists_mem, Bool.not_eq_eq_eq_not, Bool.not_true] at hc
      by_cases he : kw.filter (fun e => !bindsNamed sig e.1) = []
      · exact Or.inl he
      · right
        apply hc
        simpa [List.isEmpty_iff] using he

theorem bindArgs_error {sig : Sig α} {kw : Params α} {e : Err} (h : bindArgs sig kw = .error e) :
    e = .typeError := by
  unfold bindArgs at h
  simp only at h
  split at h
  · cases h; rfl
  · cases hb : bindNamed kw sig with
    | error e' => rw [hb] at h; have : e' = e := by cases h; rfl
                  exact this ▸ bindNamed_error_typeError hb
    | ok a => rw [hb] at h; cases h

theorem bindArgs_error_iff (sig : Sig α) (kw : Params α) :
    (∃ e, bindArgs sig kw = .error e) ↔
      (hasVarKw sig = false ∧ ∃ e ∈ kw, bindsNamed sig e.1 = false) ∨
      ∃ p ∈ sig, p.kind.isNamed = true ∧ ∃ e, bindOne kw p = .error e := by
  rw [← bindNamed_error_iff]
  unfold bindArgs
  simp only
  by_cases hv : hasVarKw sig = true
  · simp only [hv, Bool.not_true, Bool.and_false, Bool.false_eq_true, if_false, false_and,
      false_or]
    cases hb : bindNamed kw sig with
    | error e => simp
    | ok a => simp
  · have hv' : hasVarKw sig = false := by simpa using hv
    by_cases hx : ∃ e ∈ kw, bindsNamed sig e.1 = false
    · have hne : (kw.filter (fun e => !bindsNamed sig e.1)).isEmpty = false := by
        obtain ⟨e, he, hb⟩ := hx
        rw [List.isEmpty_eq_false_iff_exists_mem]
        exact ⟨e, List.mem_filter.2 ⟨he, by simp [hb]⟩⟩
      simp only [hne, hv', Bool.not_false, Bool.and_self, if_true]
      constructor
      · intro _; exact Or.inl ⟨trivial, hx⟩
      · intro _; exact ⟨_, rfl⟩
    · have he : (kw.filter (fun e => !bindsNamed sig e.1)).isEmpty = true := by
        rw [List.isEmpty_iff, List.filter_eq_nil_iff]
        intro e he
        simp only [Bool.not_eq_true', Bool.not_eq_false]
        by_contra hcon
        exact hx ⟨e, he, by simpa using hcon⟩
      simp only [he, Bool.not_true, Bool.false_and, Bool.false_eq_true, if_false, hv', hx,
        and_false, false_or]
      cases hb : bindNamed kw sig with
      | error e => simp
      | ok a => simp

end binding

section lifting

theorem parseSpot_lift1 (ps : Params ℝ) :
    (parseSpot (liftParams (lift1 : ℝ → Dual ℝ) ps)).map Dual.val = parseSpot ps := by
  unfold parseSpot
  simp only [getP_map]
  cases getP ps "spot" <;> cases getP ps "moneyness" <;> cases getP ps "strike" <;>
    cases getP ps "log_moneyness" <;> rfl

theorem parseVolatility_lift1 (ps : Params ℝ) :
    (parseVolatility (liftParams (lift1 : ℝ → Dual ℝ) ps)).map Dual.val = parseVolatility ps := by
  unfold parseVolatility
  simp only [getP_map]
  cases getP ps "volatility" with
  | some v => rfl
  | none =>
    cases getP ps "variance" with
    | none => rfl
    | some q =>
      show Except.ok (Real.sqrt (max (lift1 q) (0 : Dual ℝ)).val) = Except.ok (Real.sqrt (max q 0))
      congr 2
      rw [Dual.max_def']
      by_cases hq : q ≤ 0
      · rw [if_pos (show (lift1 q).val ≤ (0 : Dual ℝ).val from hq), max_eq_right hq]; rfl
      · rw [if_neg (show ¬ (lift1 q).val ≤ (0 : Dual ℝ).val from hq), max_eq_left (le_of_not_ge hq)]; rfl

theorem parseSpot_lift2 (ps : Params ℝ) :
    (parseSpot (liftParams (Autogreek.lift2 : ℝ → Dual (Dual ℝ)) ps)).map (fun X => X.val.val) = parseSpot ps := by
  unfold parseSpot
  simp only [getP_map]
  cases getP ps "spot" <;> cases getP ps "moneyness" <;> cases getP ps "strike" <;>
    cases getP ps "log_moneyness" <;> rfl

end lifting
end PfVerif.C08GlueAux

/-!
  ## C08 (glue) — property theorems
-/
namespace PfVerif.C08Glue
open PfVerif PfVerif.Autogreek PfVerif.C08GlueAux Transc

/-! ### consistency: one leaf, every equivalent name -/

section generic
variable {α : Type} [Mul α] [Div α] [OfNat α 0] [Max α] [Transc α]

/-- `gamma` (which calls `delta` on the dict it has built) hands the pricer exactly delta's dict -/
theorem gamma_dict_eq_delta_dict {seed : α → α} (hs : ∀ y, seed (seed y) = seed y)
    (ps : Params α) : preDict .gamma seed ps = preDict .delta seed ps :=
  preDict_gamma_eq_delta hs ps

/-- delta / gamma: whatever the parameterisation, the spot entry is the leaf and, once a strike is
given, moneyness and log_moneyness are REBUILT from that leaf and that strike (overwriting what was
passed); the strike itself is handed through -/
theorem spot_entries_of_one_leaf {seed : α → α} (hs : ∀ y, seed (seed y) = seed y) {g : Greek}
    (hg : g = .delta ∨ g = .gamma) {ps d : Params α} (h : preDict g seed ps = .ok d) :
    ∃ x, parseSpot ps = .ok x ∧ getP d "spot" = some (seed x) ∧
      getP d "strike" = getP ps "strike" ∧
      ∀ k, getP ps "strike" = some k →
        getP d "moneyness" = some (seed x / k) ∧ getP d "log_moneyness" = some (log (seed x / k)) := by
  have h' : preDict .delta seed ps = .ok d := by
    rcases hg with rfl | rfl
    · exact h
    · rw [← preDict_gamma_eq_delta hs]; exact h
  change deltaDict seed ps = .ok d at h'
  cases hx : parseSpot ps with
  | error e => rw [deltaDict_error hx] at h'; cases h'
  | ok x =>
    rw [deltaDict_ok hx] at h'
    have hd : d = deltaOut ps (seed x) := by cases h'; rfl
    subst hd
    exact ⟨x, rfl, deltaOut_spot _ _, deltaOut_other _ _ (by decide) (by decide) (by decide),
      fun k hk => ⟨deltaOut_moneyness hk _, deltaOut_logMoneyness hk _⟩⟩

/-- without a strike nothing is derived: the dict is the caller's with the spot replaced by the leaf -/
theorem spot_entries_without_strike {seed : α → α} {ps d : Params α}
    (hk : getP ps "strike" = none) (h : preDict .delta seed ps = .ok d) :
    ∃ s, getP ps "spot" = some s ∧ d = setP ps "spot" (seed s) := by
  change deltaDict seed ps = .ok d at h
  cases hx : parseSpot ps with
  | error e => rw [deltaDict_error hx] at h; cases h
  | ok x =>
    rw [deltaDict_ok hx, deltaOut_noStrike hk] at h
    cases hs : getP ps "spot" with
    | none =>
      have := (parseSpot_error_iff ps .valueError).2 ⟨rfl, hs, Or.inl hk⟩
      rw [hx] at this; cases this
    | some s =>
      rw [parseSpot_spot hs] at hx
      cases hx; cases h
      exact ⟨_, rfl, rfl⟩

/-- vega: volatility is the leaf and variance its square, whatever was passed -/
theorem vol_entries_of_one_leaf {seed : α → α} {ps d : Params α} (h : preDict .vega seed ps = .ok d) :
    ∃ x, parseVolatility ps = .ok x ∧ getP d "volatility" = some (seed x) ∧
      getP d "variance" = some (seed x * seed x) := by
  change vegaDict seed ps = .ok d at h
  cases hx : parseVolatility ps with
  | error e => rw [vegaDict_error hx] at h; cases h
  | ok x =>
    rw [vegaDict_ok hx] at h
    have hd : d = vegaOut ps (seed x) := by cases h; rfl
    subst hd
    exact ⟨x, rfl, vegaOut_volatility _ _, vegaOut_variance _ _⟩

/-- theta: time_to_maturity is the leaf -/
theorem time_entry_is_leaf {seed : α → α} {ps d : Params α} (h : preDict .theta seed ps = .ok d) :
    ∃ x, getP ps "time_to_maturity" = some x ∧ getP d "time_to_maturity" = some (seed x) := by
  change thetaDict seed ps = .ok d at h
  cases hx : getP ps "time_to_maturity" with
  | none =>
    have := (parseTime_error_iff ps .valueError).2 ⟨rfl, hx⟩
    rw [thetaDict_error this] at h; cases h
  | some x =>
    have hp : parseTime ps = .ok x := by simp [parseTime, hx]
    rw [thetaDict_ok hp] at h
    cases h
    exact ⟨x, rfl, getP_setP_self _ _ _⟩

/-- every entry autogreek does not write itself (the strike, the entries of the other Greeks, names
autogreek has no meaning for; without a strike also moneyness and log_moneyness) is handed through
with the caller's value -/
theorem other_entries_pass_through {seed : α → α} (hs : ∀ y, seed (seed y) = seed y) {g : Greek}
    {ps d : Params α} (h : preDict g seed ps = .ok d) {n : String}
    (hn : ¬ derives g (hasP ps "strike") n) : getP d n = getP ps n := by
  cases g with
  | delta =>
    change deltaDict seed ps = .ok d at h
    cases hx : parseSpot ps with
    | error e => rw [deltaDict_error hx] at h; cases h
    | ok x => rw [deltaDict_ok hx] at h; cases h; exact deltaOut_passthrough _ _ hn
  | gamma =>
    rw [preDict_gamma_eq_delta hs] at h
    change deltaDict seed ps = .ok d at h
    cases hx : parseSpot ps with
    | error e => rw [deltaDict_error hx] at h; cases h
    | ok x => rw [deltaDict_ok hx] at h; cases h; exact deltaOut_passthrough _ _ hn
  | vega =>
    change vegaDict seed ps = .ok d at h
    have hn' : n ≠ "volatility" ∧ n ≠ "variance" := by
      unfold derives at hn; simpa [not_or] using hn
    cases hx : parseVolatility ps with
    | error e => rw [vegaDict_error hx] at h; cases h
    | ok x => rw [vegaDict_ok hx] at h; cases h; exact vegaOut_other _ _ hn'.1 hn'.2
  | theta =>
    change thetaDict seed ps = .ok d at h
    have hn' : n ≠ "time_to_maturity" := by unfold derives at hn; exact hn
    cases hx : parseTime ps with
    | error e => rw [thetaDict_error hx] at h; cases h
    | ok x => rw [thetaDict_ok hx] at h; cases h; exact getP_setP_ne _ _ (Ne.symm hn')

/-- every entry autogreek writes itself is present -/
theorem derived_entries_present {seed : α → α} (hs : ∀ y, seed (seed y) = seed y) {g : Greek}
    {ps d : Params α} (h : preDict g seed ps = .ok d) {n : String}
    (hn : derives g (hasP ps "strike") n) : getP d n ≠ none := by
  cases g with
  | delta =>
    change deltaDict seed ps = .ok d at h
    cases hx : parseSpot ps with
    | error e => rw [deltaDict_error hx] at h; cases h
    | ok x => rw [deltaDict_ok hx] at h; cases h; exact deltaOut_derived _ _ hn
  | gamma =>
    rw [preDict_gamma_eq_delta hs] at h
    change deltaDict seed ps = .ok d at h
    cases hx : parseSpot ps with
    | error e => rw [deltaDict_error hx] at h; cases h
    | ok x => rw [deltaDict_ok hx] at h; cases h; exact deltaOut_derived _ _ hn
  | vega =>
    obtain ⟨x, _, h1, h2⟩ := vol_entries_of_one_leaf h
    rcases hn with rfl | rfl
    · rw [h1]; simp
    · rw [h2]; simp
  | theta =>
    obtain ⟨x, _, h1⟩ := time_entry_is_leaf h
    have : n = "time_to_maturity" := hn
    subst this; rw [h1]; simp

end generic

/-! ### agreement with the caller's point (plain numbers: the values the harness records) -/

section real

private theorem id_idem : ∀ y : ℝ, id (id y) = id y := fun _ => rfl

/-- the caller gives the spot (and a strike): a pricer written in spot, moneyness or log_moneyness
is evaluated at the caller's spot, at spot / strike, at log (spot / strike) -/
theorem given_spot {g : Greek} (hg : g = .delta ∨ g = .gamma) {ps d : Params ℝ} {s k : ℝ}
    (hs : getP ps "spot" = some s) (hk : getP ps "strike" = some k)
    (h : preDict g id ps = .ok d) :
    getP d "spot" = some s ∧ getP d "moneyness" = some (s / k) ∧
      getP d "log_moneyness" = some (Real.log (s / k)) := by
  obtain ⟨x, hx, h1, _, h3⟩ := spot_entries_of_one_leaf id_idem hg h
  rw [parseSpot_spot hs] at hx
  cases hx
  exact ⟨h1, (h3 k hk).1, (h3 k hk).2⟩

/-- the caller gives the moneyness and a strike `≠ 0`: the pricer is evaluated at the caller's
moneyness, at its logarithm, at the spot moneyness · strike -/
theorem given_moneyness {g : Greek} (hg : g = .delta ∨ g = .gamma) {ps d : Params ℝ} {m k : ℝ}
    (h0 : getP ps "spot" = none) (hm : getP ps "moneyness" = some m)
    (hk : getP ps "strike" = some k) (hk0 : k ≠ 0) (h : preDict g id ps = .ok d) :
    getP d "spot" = some (m * k) ∧ getP d "moneyness" = some m ∧
      getP d "log_moneyness" = some (Real.log m) := by
  obtain ⟨x, hx, h1, _, h3⟩ := spot_entries_of_one_leaf id_idem hg h
  rw [parseSpot_moneyness h0 hm hk] at hx
  cases hx
  have e : m * k / k = m := mul_div_cancel_right₀ m hk0
  have h4 := h3 k hk
  simp only [id] at h1 h4
  rw [e] at h4
  exact ⟨h1, h4.1, h4.2⟩

/-- the caller gives the log-moneyness and a strike `> 0`: the pricer is evaluated at the caller's
log-moneyness, at its exponential, at the spot exp(log-moneyness) · strike -/
theorem given_log_moneyness {g : Greek} (hg : g = .delta ∨ g = .gamma) {ps d : Params ℝ} {l k : ℝ}
    (h0 : getP ps "spot" = none) (hm : getP ps "moneyness" = none)
    (hl : getP ps "log_moneyness" = some l) (hk : getP ps "strike" = some k) (hk0 : 0 < k)
    (h : preDict g id ps = .ok d) :
    getP d "spot" = some (Real.exp l * k) ∧ getP d "moneyness" = some (Real.exp l) ∧
      getP d "log_moneyness" = some l := by
  obtain ⟨x, hx, h1, _, h3⟩ := spot_entries_of_one_leaf id_idem hg h
  rw [parseSpot_logMoneyness h0 hm hl hk] at hx
  cases hx
  have e : Real.exp l * k / k = Real.exp l := mul_div_cancel_right₀ _ hk0.ne'
  have h4 := h3 k hk
  simp only [id] at h1 h4
  change getP d "moneyness" = some (Real.exp l * k / k) ∧
    getP d "log_moneyness" = some (Real.log (Real.exp l * k / k)) at h4
  rw [e, Real.log_exp] at h4
  exact ⟨h1, h4.1, h4.2⟩

/-- the caller gives the volatility: the pricer is evaluated at it and at its square -/
theorem given_volatility {ps d : Params ℝ} {v : ℝ} (hv : getP ps "volatility" = some v)
    (h : preDict .vega id ps = .ok d) :
    getP d "volatility" = some v ∧ getP d "variance" = some (v ^ 2) := by
  obtain ⟨x, hx, h1, h2⟩ := vol_entries_of_one_leaf h
  have : parseVolatility ps = .ok v := by simp [parseVolatility, hv]
  rw [this] at hx; cases hx
  simp only [id] at h1 h2
  exact ⟨h1, by rw [h2, sq]⟩

/-- the caller gives a variance `≥ 0`: the pricer is evaluated at the caller's variance and at its
square root -/
theorem given_variance {ps d : Params ℝ} {q : ℝ} (hv : getP ps "volatility" = none)
    (hq : getP ps "variance" = some q) (hq0 : 0 ≤ q) (h : preDict .vega id ps = .ok d) :
    getP d "volatility" = some (Real.sqrt q) ∧ getP d "variance" = some q := by
  obtain ⟨x, hx, h1, h2⟩ := vol_entries_of_one_leaf h
  have : parseVolatility ps = .ok (Real.sqrt (max q 0)) := by simp [parseVolatility, hv, hq]; rfl
  rw [this] at hx; cases hx
  simp only [id, max_eq_left hq0] at h1 h2
  exact ⟨h1, by rw [h2, Real.mul_self_sqrt hq0]⟩

/-- a variance `≤ 0` is clamped BEFORE the leaf is made: the pricer sees volatility 0 and
variance 0 (not the caller's variance), and the Greek is the pricer's derivative by the volatility
at 0 -/
theorem given_nonpositive_variance {ps d : Params ℝ} {q : ℝ} (hv : getP ps "volatility" = none)
    (hq : getP ps "variance" = some q) (hq0 : q ≤ 0) (h : preDict .vega id ps = .ok d) :
    getP d "volatility" = some 0 ∧ getP d "variance" = some 0 := by
  obtain ⟨x, hx, h1, h2⟩ := vol_entries_of_one_leaf h
  have : parseVolatility ps = .ok (Real.sqrt (max q 0)) := by simp [parseVolatility, hv, hq]; rfl
  rw [this] at hx; cases hx
  simp only [id, max_eq_right hq0, Real.sqrt_zero, mul_zero] at h1 h2
  exact ⟨h1, h2⟩

/-- non-vacuity: log-moneyness 0.25 with strike 2 and a stale moneyness entry — spot, moneyness and
log_moneyness all come out of the one leaf -/
example : ∃ d, preDict .gamma id [("log_moneyness", (0.25 : ℝ)), ("strike", 2), ("scale", 3)] = .ok d ∧
    getP d "spot" = some (Real.exp 0.25 * 2) ∧ getP d "moneyness" = some (Real.exp 0.25) ∧
    getP d "log_moneyness" = some 0.25 ∧ getP d "scale" = some 3 := by
  have h0 : parseSpot [("log_moneyness", (0.25 : ℝ)), ("strike", 2), ("scale", 3)]
      = .ok (Real.exp 0.25 * 2) := by
    apply parseSpot_logMoneyness <;> simp [getP]
  have hd : preDict .gamma id [("log_moneyness", (0.25 : ℝ)), ("strike", 2), ("scale", 3)]
      = .ok (deltaOut [("log_moneyness", (0.25 : ℝ)), ("strike", 2), ("scale", 3)] (Real.exp 0.25 * 2)) := by
    rw [preDict_gamma_eq_delta id_idem]; exact deltaDict_ok h0
  refine ⟨_, hd, ?_⟩
  obtain ⟨h1, h2, h3⟩ := given_log_moneyness (Or.inr rfl) (by simp [getP]) (by simp [getP])
    (l := 0.25) (k := 2) (by simp [getP]) (by simp [getP]) (by norm_num) hd
  refine ⟨h1, h2, h3, ?_⟩
  rw [deltaOut_other _ _ (by decide) (by decide) (by decide)]; simp [getP]

end real

/-! ### the filter and python's binding -/

section binding
variable {α : Type}

/-- the pricer is called with exactly the entries whose name is a parameter of its signature (of
ANY kind), each with exactly the value of the dict: nothing it does not name, nothing changed -/
theorem received_iff (sig : Sig α) (d : Params α) (k : String) (v : α) :
    getP (passed sig d) k = some v ↔ k ∈ sig.names ∧ getP d k = some v := by
  rw [getP_passed, ← named_iff]
  cases named sig k <;> simp

/-- the filter keeps order and multiplicity: it is the sub-dict on the named keys -/
theorem received_mem (sig : Sig α) (d : Params α) (e : String × α) :
    e ∈ passed sig d ↔ e ∈ d ∧ e.1 ∈ sig.names := by
  unfold passed; rw [List.mem_filter, named_iff]

/-- a `**kwargs` pricer does NOT receive everything: only an entry literally named like its
variadic parameter survives the filter -/
theorem varKeyword_receives_only_its_own_name (nm : String) (d : Params α) (e : String × α) :
    e ∈ passed [⟨nm, .varKeyword, none⟩] d ↔ e ∈ d ∧ e.1 = nm := by
  rw [received_mem]; simp [Sig.names]

/-- a parameter that keywords can bind (positional-or-keyword, keyword-only; with or without a
default) has the value of the dict entry of its name whenever there is one — passed by the caller or
derived by autogreek — and its default only when there is none -/
theorem bound_value {sig : Sig α} {d : Params α} {env : Env α} (h : callArgs sig d = .ok env)
    (hnd : sig.names.Nodup) {p : Param α} (hp : p ∈ sig) (hk : p.kind.byKeyword = true) :
    getP env.args p.name = (match getP d p.name with
      | some x => some x
      | none => p.default) := by
  obtain ⟨hb, _, _⟩ := bindArgs_ok h
  obtain ⟨x, hx1, hx2⟩ := bindNamed_getP hb hnd hp (byKeyword_isNamed hk)
  rw [hx2, ← (bindOne_ok _ _ _).1 hx1, if_pos hk, getP_passed, named_of_mem hp, if_pos rfl]

/-- a positional-only parameter is never bound by autogreek's keyword call: it has its default; the
dict entry of its name lands in `**kwargs` -/
theorem positionalOnly_value {sig : Sig α} {d : Params α} {env : Env α}
    (h : callArgs sig d = .ok env) (hnd : sig.names.Nodup) {p : Param α} (hp : p ∈ sig)
    (hk : p.kind = .positionalOnly) :
    getP env.args p.name = p.default ∧ p.default ≠ none ∧
      ∀ v, getP d p.name = some v → getP env.extra p.name = some v := by
  obtain ⟨hb, hex, _⟩ := bindArgs_ok h
  have hn : p.kind.isNamed = true := by rw [hk]; rfl
  have hbk : p.kind.byKeyword = false := by rw [hk]; rfl
  obtain ⟨x, hx1, hx2⟩ := bindNamed_getP hb hnd hp hn
  have hx3 := (bindOne_ok _ _ _).1 hx1
  simp only [hbk, Bool.false_eq_true, if_false] at hx3
  refine ⟨by rw [hx2, hx3], by rw [hx3]; simp, fun v hv => ?_⟩
  rw [hex, getP_filter (passed sig d) (fun k => !bindsNamed sig k), bindsNamed_of_mem hnd hp, hbk]
  simp [getP_passed, named_of_mem hp, hv]

/-- only declared parameters are bound, and `**kwargs` holds nothing autogreek did not pass -/
theorem bound_names {sig : Sig α} {d : Params α} {env : Env α} (h : callArgs sig d = .ok env) :
    (∀ k ∈ keysP env.args, k ∈ sig.names) ∧ ∀ e ∈ env.extra, e ∈ passed sig d := by
  obtain ⟨hb, hex, _⟩ := bindArgs_ok h
  refine ⟨bindNamed_keys hb, fun e he => ?_⟩
  rw [hex] at he; exact (List.mem_filter.1 he).1

/-- TypeError is the only error of the call, and it is raised iff a keyword lands nowhere (it names a
positional-only / variadic parameter and there is no `**kwargs`) or a declared parameter without
default is neither passed nor derived (or cannot be bound by keyword) -/
theorem callArgs_error_iff (sig : Sig α) (d : Params α) (e : Err) :
    callArgs sig d = .error e ↔ e = .typeError ∧
      ((hasVarKw sig = false ∧ ∃ x ∈ d, x.1 ∈ sig.names ∧ bindsNamed sig x.1 = false) ∨
        ∃ p ∈ sig, p.kind.isNamed = true ∧ p.default = none ∧
          (p.kind.byKeyword = true → getP d p.name = none)) := by
  have key := bindArgs_error_iff sig (passed sig d)
  have e1 : (∃ x ∈ passed sig d, bindsNamed sig x.1 = false) ↔
      ∃ x ∈ d, x.1 ∈ sig.names ∧ bindsNamed sig x.1 = false := by
    constructor
    · rintro ⟨x, hx, hb⟩; exact ⟨x, ((received_mem _ _ _).1 hx).1, ((received_mem _ _ _).1 hx).2, hb⟩
    · rintro ⟨x, hx, hn, hb⟩; exact ⟨x, (received_mem _ _ _).2 ⟨hx, hn⟩, hb⟩
  have e2 : (∃ p ∈ sig, p.kind.isNamed = true ∧ ∃ e, bindOne (passed sig d) p = .error e) ↔
      ∃ p ∈ sig, p.kind.isNamed = true ∧ p.default = none ∧
        (p.kind.byKeyword = true → getP d p.name = none) := by
    constructor
    · rintro ⟨p, hp, hn, e, he⟩
      obtain ⟨_, h2, h3⟩ := (bindOne_error _ _ _).1 he
      refine ⟨p, hp, hn, h2, fun hk => ?_⟩
      have := h3 hk
      rwa [getP_passed, named_of_mem hp, if_pos rfl] at this
    · rintro ⟨p, hp, hn, h2, h3⟩
      refine ⟨p, hp, hn, .typeError, (bindOne_error _ _ _).2 ⟨rfl, h2, fun hk => ?_⟩⟩
      rw [getP_passed, named_of_mem hp, if_pos rfl]; exact h3 hk
  rw [e1, e2] at key
  constructor
  · intro h
    exact ⟨bindArgs_error h, key.1 ⟨e, h⟩⟩
  · rintro ⟨rfl, h⟩
    obtain ⟨e', he'⟩ := key.2 h
    have := bindArgs_error he'
    subst this; exact he'

/-- ordinary signatures (every parameter positional-or-keyword or keyword-only): TypeError iff some
parameter without default is neither passed by the caller nor derived by autogreek -/
theorem callArgs_plain_error_iff {sig : Sig α} (hpl : Plain sig) (d : Params α) (e : Err) :
    callArgs sig d = .error e ↔ e = .typeError ∧
      ∃ p ∈ sig, p.default = none ∧ getP d p.name = none := by
  rw [callArgs_error_iff]
  constructor
  · rintro ⟨he, h⟩
    refine ⟨he, ?_⟩
    rcases h with ⟨_, x, _, hn, hb⟩ | ⟨p, hp, _, h2, h3⟩
    · rw [bindsNamed_plain hpl ((named_iff _ _).2 hn)] at hb; cases hb
    · exact ⟨p, hp, h2, h3 (hpl p hp)⟩
  · rintro ⟨he, p, hp, h2, h3⟩
    exact ⟨he, Or.inr ⟨p, hp, byKeyword_isNamed (hpl p hp), h2, fun _ => h3⟩⟩

/-- ordinary signatures: nothing lands in `**kwargs` -/
theorem callArgs_plain_extra {sig : Sig α} (hpl : Plain sig) {d : Params α} {env : Env α}
    (h : callArgs sig d = .ok env) : env.extra = [] := by
  obtain ⟨_, hex, _⟩ := bindArgs_ok h
  rw [hex]; exact extra_plain hpl d

end binding

/-! ### which error, and which one first -/

section errors
variable {γ : Type} [Mul γ] [Div γ] [OfNat γ 0] [Max γ] [Transc γ]

/-- ValueError is the only error before the pricer is called, and it is raised iff the caller gave no
spot parameterisation (delta, gamma: neither `spot`, nor `strike` with `moneyness` or
`log_moneyness`), no volatility parameterisation (vega: neither `volatility` nor `variance`), no
`time_to_maturity` (theta) -/
theorem preDict_error_iff (g : Greek) (seed : γ → γ) (ps : Params γ) (e : Err) :
    preDict g seed ps = .error e ↔ e = .valueError ∧
      (match g with
        | .delta | .gamma => getP ps "spot" = none ∧
            (getP ps "strike" = none ∨ (getP ps "moneyness" = none ∧ getP ps "log_moneyness" = none))
        | .vega => getP ps "volatility" = none ∧ getP ps "variance" = none
        | .theta => getP ps "time_to_maturity" = none) := by
  cases g with
  | delta =>
    show deltaDict seed ps = .error e ↔ _
    rw [← parseSpot_error_iff]
    cases hx : parseSpot ps with
    | error e' => simp [deltaDict_error hx]
    | ok x => rw [deltaDict_ok hx]; simp
  | gamma =>
    show (deltaDict seed ps >>= fun d => deltaDict seed d) = .error e ↔ _
    rw [← parseSpot_error_iff]
    cases hx : parseSpot ps with
    | error e' => simp [deltaDict_error hx, bind, Except.bind]
    | ok x =>
      rw [deltaDict_ok hx]
      show deltaDict seed (deltaOut ps (seed x)) = .error e ↔ _
      rw [deltaDict_ok (parseSpot_spot (deltaOut_spot ps (seed x)))]; simp
  | vega =>
    show vegaDict seed ps = .error e ↔ _
    rw [← parseVolatility_error_iff]
    cases hx : parseVolatility ps with
    | error e' => simp [vegaDict_error hx]
    | ok x => rw [vegaDict_ok hx]; simp
  | theta =>
    show thetaDict seed ps = .error e ↔ _
    rw [← parseTime_error_iff]
    cases hx : parseTime ps with
    | error e' => simp [thetaDict_error hx]
    | ok x => rw [thetaDict_ok hx]; simp

/-- the ValueError comes first: whatever the pricer's signature and body -/
theorem valueError_first {g : Greek} {seed : γ → γ} {ps : Params γ} {e : Err}
    (h : preDict g seed ps = .error e) (sig : Sig γ) (f : Env γ → Except Err γ) :
    run g seed sig f ps = .error e := by
  unfold run; rw [h]; rfl

/-- the three stages of the call -/
theorem run_cases (g : Greek) (seed : γ → γ) (sig : Sig γ) (f : Env γ → Except Err γ)
    (ps : Params γ) (r : Except Err γ) :
    run g seed sig f ps = r ↔
      (∃ e, preDict g seed ps = .error e ∧ r = .error e) ∨
      (∃ d e, preDict g seed ps = .ok d ∧ callArgs sig d = .error e ∧ r = .error e) ∨
      (∃ d env, preDict g seed ps = .ok d ∧ callArgs sig d = .ok env ∧ r = f env) := by
  unfold run
  cases h1 : preDict g seed ps with
  | error e => simp [bind, Except.bind, eq_comm]
  | ok d =>
    show (callArgs sig d >>= fun env => f env) = r ↔ _
    cases h2 : callArgs sig d with
    | error e => simp [bind, Except.bind, h2, eq_comm]
    | ok env => simp [bind, Except.bind, h2, eq_comm]

/-- an entry is missing from the dict iff the caller did not pass it and autogreek does not derive it
(derived: `spot`, and with a strike `moneyness`, `log_moneyness` — delta, gamma; `volatility`,
`variance` — vega; `time_to_maturity` — theta) -/
theorem missing_iff {g : Greek} {seed : γ → γ} (hs : ∀ y, seed (seed y) = seed y) {ps d : Params γ}
    (h : preDict g seed ps = .ok d) (n : String) :
    getP d n = none ↔ getP ps n = none ∧ ¬ derives g (hasP ps "strike") n := by
  by_cases hd : derives g (hasP ps "strike") n
  · have := derived_entries_present hs h hd
    simp [this, hd]
  · rw [other_entries_pass_through hs h hd]; simp [hd]

/-- ordinary signature, body that does not fail on bound parameters: the call raises TypeError iff
a parameter without default is neither passed nor derived — and only after the ValueError check -/
theorem run_typeError_iff {g : Greek} {seed : γ → γ} {sig : Sig γ} (hpl : Plain sig)
    {f : Env γ → Except Err γ} {ps d : Params γ} (h : preDict g seed ps = .ok d)
    (hf : ∀ env, callArgs sig d = .ok env → ∃ v, f env = .ok v) (e : Err) :
    run g seed sig f ps = .error e ↔ e = .typeError ∧
      ∃ p ∈ sig, p.default = none ∧ getP d p.name = none := by
  rw [run_cases, ← callArgs_plain_error_iff hpl]
  constructor
  · rintro (⟨e', h1, _⟩ | ⟨d', e', h1, h2, h3⟩ | ⟨d', env, h1, h2, h3⟩)
    · rw [h] at h1; cases h1
    · rw [h] at h1; cases h1; cases h3; exact h2
    · rw [h] at h1; cases h1
      obtain ⟨v, hv⟩ := hf env h2
      rw [hv] at h3; cases h3
  · intro h2
    exact Or.inr (Or.inl ⟨d, e, h, h2, rfl⟩)

end errors

/-! ### the chain rule: a pricer written in any of the equivalent names -/

section chain
open PfVerif.C08DualAux

/-- `Φ` (the pricer's body on dual numbers, as a function of the one entry it is written in) is a
forward-mode lifting of the real function `φ` at `x`: it maps a dual number carrying value and
slope of any curve through `x` to value and slope of `φ` along that curve.  Every body of the closed
language `Expr` is one (`expr_lifts`). -/
def Lifts (Φ : Dual ℝ → Dual ℝ) (φ : ℝ → ℝ) (x : ℝ) : Prop :=
  ∀ (M : Dual ℝ) (m : ℝ → ℝ) (θ : ℝ), m θ = x → Tracks M m θ → Tracks (Φ M) (fun t => φ (m t)) θ

/-- the same at second order -/
def Lifts2 (Φ : Dual (Dual ℝ) → Dual (Dual ℝ)) (φ : ℝ → ℝ) (x : ℝ) : Prop :=
  ∀ (M : Dual (Dual ℝ)) (m : ℝ → ℝ) (θ : ℝ), m θ = x → Tracks2 M m θ →
    Tracks2 (Φ M) (fun t => φ (m t)) θ

private theorem seed1_idem : ∀ y : Dual ℝ, seed1 (seed1 y) = seed1 y := fun _ => rfl
private theorem seed2_idem : ∀ y : Dual (Dual ℝ), seed2 (seed2 y) = seed2 y := fun _ => rfl

private theorem liftSig_names {β γ : Type} (l : β → γ) (sig : Sig β) :
    (liftSig l sig).names = sig.names := by
  simp [liftSig, Sig.names, List.map_map, Function.comp_def]

private theorem mem_liftSig {β γ : Type} (l : β → γ) {sig : Sig β} {p : Param β} (hp : p ∈ sig) :
    (⟨p.name, p.kind, p.default.map l⟩ : Param γ) ∈ liftSig l sig :=
  List.mem_map_of_mem (f := fun p : Param β => (⟨p.name, p.kind, p.default.map l⟩ : Param γ)) hp

/-- the dual run of a pricer that is `Φ` of its entry `p.name`: the Greek is the ε-part of `Φ` at
that entry of the dual dict -/
private theorem dual_run_entry {g : Greek} {sig : Sig ℝ} (hnd : sig.names.Nodup) {ps : Params ℝ}
    {F : Env (Dual ℝ) → Except Err (Dual ℝ)} {p : Param ℝ} (hp : p ∈ sig)
    (hpk : p.kind.byKeyword = true) {Φ : Dual ℝ → Dual ℝ}
    (hF : ∀ env M, getP env.args p.name = some M → F env = .ok (Φ M))
    {r : ℝ} (h : autogreekValue g sig F ps = .ok r) :
    ∃ D, preDict g seed1 (liftParams lift1 ps) = .ok D ∧
      ∀ E, getP D p.name = some E → r = if g = .theta then -(Φ E).eps else (Φ E).eps := by
  unfold autogreekValue at h
  cases hR : run g seed1 (liftSig lift1 sig) F (liftParams lift1 ps) with
  | error e => rw [hR] at h; cases h
  | ok R =>
    rw [hR] at h
    have hr : r = if g = .theta then -R.eps else R.eps := by cases h; rfl
    rcases (run_cases _ _ _ _ _ _).1 hR with ⟨e, _, h2⟩ | ⟨d, e, _, _, h3⟩ | ⟨D, env, h1, h2, h3⟩
    · cases h2
    · cases h3
    · refine ⟨D, h1, fun E hE => ?_⟩
      have hb := bound_value h2 (by rw [liftSig_names]; exact hnd) (mem_liftSig lift1 hp) hpk
      simp only [hE] at hb
      rw [hF env E hb] at h3
      cases h3
      exact hr

private theorem dual2_run_entry {sig : Sig ℝ} (hnd : sig.names.Nodup) {ps : Params ℝ}
    {F : Env (Dual (Dual ℝ)) → Except Err (Dual (Dual ℝ))} {p : Param ℝ} (hp : p ∈ sig)
    (hpk : p.kind.byKeyword = true) {Φ : Dual (Dual ℝ) → Dual (Dual ℝ)}
    (hF : ∀ env M, getP env.args p.name = some M → F env = .ok (Φ M))
    {r : ℝ} (h : autogreekGamma sig F ps = .ok r) :
    ∃ D, preDict .gamma seed2 (liftParams Autogreek.lift2 ps) = .ok D ∧
      ∀ E, getP D p.name = some E → r = (Φ E).eps.eps := by
  unfold autogreekGamma at h
  cases hR : run .gamma seed2 (liftSig Autogreek.lift2 sig) F (liftParams Autogreek.lift2 ps) with
  | error e => rw [hR] at h; cases h
  | ok R =>
    rw [hR] at h
    have hr : r = R.eps.eps := by cases h; rfl
    rcases (run_cases _ _ _ _ _ _).1 hR with ⟨e, _, h2⟩ | ⟨d, e, _, _, h3⟩ | ⟨D, env, h1, h2, h3⟩
    · cases h2
    · cases h3
    · refine ⟨D, h1, fun E hE => ?_⟩
      have hb := bound_value h2 (by rw [liftSig_names]; exact hnd) (mem_liftSig Autogreek.lift2 hp) hpk
      simp only [hE] at hb
      rw [hF env E hb] at h3
      cases h3
      exact hr

/-- the entries of the dual dict of delta: the spot leaf `⟨S, 1⟩`, and with a strike `K` the
moneyness `⟨S, 1⟩ / K` and the log-moneyness `log (⟨S, 1⟩ / K)`, where `S` is the caller's spot under
whichever parameterisation it was given -/
private theorem dual_spot_entries {ps : Params ℝ} {S : ℝ} (hS : parseSpot ps = .ok S)
    {D : Params (Dual ℝ)} (hD : preDict .delta seed1 (liftParams lift1 ps) = .ok D) :
    getP D "spot" = some ⟨S, 1⟩ ∧ ∀ k, getP ps "strike" = some k →
      getP D "moneyness" = some ((⟨S, 1⟩ : Dual ℝ) / lift1 k) ∧
      getP D "log_moneyness" = some (log ((⟨S, 1⟩ : Dual ℝ) / lift1 k)) := by
  obtain ⟨X, hX, h1, _, h3⟩ := spot_entries_of_one_leaf seed1_idem (Or.inl rfl) hD
  have hv : X.val = S := by
    have := parseSpot_lift1 ps
    rw [hX, hS] at this
    cases this; rfl
  have hs : seed1 X = ⟨S, 1⟩ := by rw [← hv]; rfl
  rw [hs] at h1 h3
  refine ⟨h1, fun k hk => h3 (lift1 k) ?_⟩
  rw [getP_map, hk]; rfl

private theorem dual2_spot_entries {ps : Params ℝ} {S : ℝ} (hS : parseSpot ps = .ok S)
    {D : Params (Dual (Dual ℝ))} (hD : preDict .gamma seed2 (liftParams Autogreek.lift2 ps) = .ok D) :
    getP D "spot" = some (var2 S) ∧ ∀ k, getP ps "strike" = some k →
      getP D "moneyness" = some (var2 S / C08DualAux.lift2 k) ∧
      getP D "log_moneyness" = some (log (var2 S / C08DualAux.lift2 k)) := by
  obtain ⟨X, hX, h1, _, h3⟩ := spot_entries_of_one_leaf seed2_idem (Or.inr rfl) hD
  have hv : X.val.val = S := by
    have := parseSpot_lift2 ps
    rw [hX, hS] at this
    cases this; rfl
  have hs : seed2 X = var2 S := by rw [← hv]; rfl
  rw [hs] at h1 h3
  refine ⟨h1, fun k hk => h3 (Autogreek.lift2 k) ?_⟩
  rw [getP_map, hk]; rfl

variable {sig : Sig ℝ} {ps : Params ℝ} {p : Param ℝ}

/-- delta of a pricer written in `spot`, whatever parameterisation the caller used: `φ'(S)` -/
theorem delta_of_spot_pricer (hnd : sig.names.Nodup) (hp : p ∈ sig) (hn : p.name = "spot")
    (hpk : p.kind.byKeyword = true) {F : Env (Dual ℝ) → Except Err (Dual ℝ)} {Φ : Dual ℝ → Dual ℝ}
    (hF : ∀ env M, getP env.args "spot" = some M → F env = .ok (Φ M))
    {S : ℝ} (hS : parseSpot ps = .ok S) {φ : ℝ → ℝ} {φ' : ℝ} (hΦ : Lifts Φ φ S)
    (hφ : HasDerivAt φ φ' S) {r : ℝ} (h : autogreekValue .delta sig F ps = .ok r) : r = φ' := by
  obtain ⟨D, hD, hr⟩ := dual_run_entry hnd hp hpk (by rw [hn]; exact hF) h
  rw [hn] at hr
  rw [hr _ (dual_spot_entries hS hD).1, if_neg (by decide)]
  exact (hΦ ⟨S, 1⟩ (fun t => t) S rfl tracks_var').2.unique hφ

/-- delta of a pricer written in `moneyness` (caller: any parameterisation with a strike `K ≠ 0`):
`φ'(S / K) / K` -/
theorem delta_of_moneyness_pricer (hnd : sig.names.Nodup) (hp : p ∈ sig)
    (hn : p.name = "moneyness") (hpk : p.kind.byKeyword = true)
    {F : Env (Dual ℝ) → Except Err (Dual ℝ)} {Φ : Dual ℝ → Dual ℝ}
    (hF : ∀ env M, getP env.args "moneyness" = some M → F env = .ok (Φ M))
    {S k : ℝ} (hS : parseSpot ps = .ok S) (hk : getP ps "strike" = some k) (_hk0 : k ≠ 0)
    {φ : ℝ → ℝ} {φ' : ℝ} (hΦ : Lifts Φ φ (S / k)) (hφ : HasDerivAt φ φ' (S / k)) {r : ℝ}
    (h : autogreekValue .delta sig F ps = .ok r) : r = φ' / k := by
  obtain ⟨D, hD, hr⟩ := dual_run_entry hnd hp hpk (by rw [hn]; exact hF) h
  rw [hn] at hr
  rw [hr _ ((dual_spot_entries hS hD).2 k hk).1, if_neg (by decide)]
  have ht : Tracks ((⟨S, 1⟩ : Dual ℝ) / lift1 k) (fun t => t / k) S := tracks_var'.div_const k
  have hd : HasDerivAt (fun t => φ (t / k)) (φ' * (1 / k)) S :=
    HasDerivAt.comp S hφ ((hasDerivAt_id S).div_const k)
  rw [(hΦ _ (fun t => t / k) S rfl ht).2.unique hd]; ring

/-- delta of a pricer written in `log_moneyness` (caller: any parameterisation with a strike
`K ≠ 0`, spot `S ≠ 0`): `φ'(log (S / K)) / S` -/
theorem delta_of_log_moneyness_pricer (hnd : sig.names.Nodup) (hp : p ∈ sig)
    (hn : p.name = "log_moneyness") (hpk : p.kind.byKeyword = true)
    {F : Env (Dual ℝ) → Except Err (Dual ℝ)} {Φ : Dual ℝ → Dual ℝ}
    (hF : ∀ env M, getP env.args "log_moneyness" = some M → F env = .ok (Φ M))
    {S k : ℝ} (hS : parseSpot ps = .ok S) (hk : getP ps "strike" = some k) (hk0 : k ≠ 0)
    (hS0 : S ≠ 0) {φ : ℝ → ℝ} {φ' : ℝ} (hΦ : Lifts Φ φ (Real.log (S / k)))
    (hφ : HasDerivAt φ φ' (Real.log (S / k))) {r : ℝ}
    (h : autogreekValue .delta sig F ps = .ok r) : r = φ' / S := by
  obtain ⟨D, hD, hr⟩ := dual_run_entry hnd hp hpk (by rw [hn]; exact hF) h
  rw [hn] at hr
  rw [hr _ ((dual_spot_entries hS hD).2 k hk).2, if_neg (by decide)]
  have hne : S / k ≠ 0 := div_ne_zero hS0 hk0
  have ht : Tracks (log ((⟨S, 1⟩ : Dual ℝ) / lift1 k)) (fun t => Real.log (t / k)) S :=
    (tracks_var'.div_const k).log hne
  have hd : HasDerivAt (fun t => φ (Real.log (t / k))) (φ' * ((1 / k) / (S / k))) S :=
    HasDerivAt.comp S hφ (((hasDerivAt_id S).div_const k).log hne)
  rw [(hΦ _ (fun t => Real.log (t / k)) S rfl ht).2.unique hd]; field_simp

private theorem dual_vol_entries {ps : Params ℝ} {v : ℝ} (hv : parseVolatility ps = .ok v)
    {D : Params (Dual ℝ)} (hD : preDict .vega seed1 (liftParams lift1 ps) = .ok D) :
    getP D "volatility" = some ⟨v, 1⟩ ∧
      getP D "variance" = some ((⟨v, 1⟩ : Dual ℝ) * ⟨v, 1⟩) := by
  obtain ⟨X, hX, h1, h2⟩ := vol_entries_of_one_leaf hD
  have hval : X.val = v := by
    have := parseVolatility_lift1 ps
    rw [hX, hv] at this
    cases this; rfl
  have hs : seed1 X = ⟨v, 1⟩ := by rw [← hval]; rfl
  rw [hs] at h1 h2
  exact ⟨h1, h2⟩

/-- vega of a pricer written in `volatility` (caller: volatility or variance): `φ'(σ)` -/
theorem vega_of_volatility_pricer (hnd : sig.names.Nodup) (hp : p ∈ sig)
    (hn : p.name = "volatility") (hpk : p.kind.byKeyword = true)
    {F : Env (Dual ℝ) → Except Err (Dual ℝ)} {Φ : Dual ℝ → Dual ℝ}
    (hF : ∀ env M, getP env.args "volatility" = some M → F env = .ok (Φ M))
    {v : ℝ} (hv : parseVolatility ps = .ok v) {φ : ℝ → ℝ} {φ' : ℝ} (hΦ : Lifts Φ φ v)
    (hφ : HasDerivAt φ φ' v) {r : ℝ} (h : autogreekValue .vega sig F ps = .ok r) : r = φ' := by
  obtain ⟨D, hD, hr⟩ := dual_run_entry hnd hp hpk (by rw [hn]; exact hF) h
  rw [hn] at hr
  rw [hr _ (dual_vol_entries hv hD).1, if_neg (by decide)]
  exact (hΦ ⟨v, 1⟩ (fun t => t) v rfl tracks_var').2.unique hφ

/-- vega of a pricer written in `variance` (caller: volatility or variance): `2 σ φ'(σ²)` -/
theorem vega_of_variance_pricer (hnd : sig.names.Nodup) (hp : p ∈ sig)
    (hn : p.name = "variance") (hpk : p.kind.byKeyword = true)
    {F : Env (Dual ℝ) → Except Err (Dual ℝ)} {Φ : Dual ℝ → Dual ℝ}
    (hF : ∀ env M, getP env.args "variance" = some M → F env = .ok (Φ M))
    {v : ℝ} (hv : parseVolatility ps = .ok v) {φ : ℝ → ℝ} {φ' : ℝ} (hΦ : Lifts Φ φ (v * v))
    (hφ : HasDerivAt φ φ' (v * v)) {r : ℝ} (h : autogreekValue .vega sig F ps = .ok r) :
    r = 2 * v * φ' := by
  obtain ⟨D, hD, hr⟩ := dual_run_entry hnd hp hpk (by rw [hn]; exact hF) h
  rw [hn] at hr
  rw [hr _ (dual_vol_entries hv hD).2, if_neg (by decide)]
  have ht : Tracks ((⟨v, 1⟩ : Dual ℝ) * ⟨v, 1⟩) (fun t => t * t) v := tracks_var'.mul tracks_var'
  have hd : HasDerivAt (fun t => φ (t * t)) (φ' * (1 * v + v * 1)) v :=
    HasDerivAt.comp v hφ ((hasDerivAt_id v).mul (hasDerivAt_id v))
  rw [(hΦ _ (fun t => t * t) v rfl ht).2.unique hd]; ring

/-- a variance `≤ 0` (no volatility): the leaf is 0, so vega of a pricer written in `variance` is
`2 · 0 · φ'(0) = 0`, and vega of a pricer written in `volatility` is `φ'(0)` -/
theorem vega_at_nonpositive_variance (hnd : sig.names.Nodup) (hp : p ∈ sig)
    (hn : p.name = "variance") (hpk : p.kind.byKeyword = true)
    {F : Env (Dual ℝ) → Except Err (Dual ℝ)} {Φ : Dual ℝ → Dual ℝ}
    (hF : ∀ env M, getP env.args "variance" = some M → F env = .ok (Φ M))
    {q : ℝ} (h0 : getP ps "volatility" = none) (hq : getP ps "variance" = some q) (hq0 : q ≤ 0)
    {φ : ℝ → ℝ} {φ' : ℝ} (hΦ : Lifts Φ φ 0) (hφ : HasDerivAt φ φ' 0) {r : ℝ}
    (h : autogreekValue .vega sig F ps = .ok r) : r = 0 := by
  have hv : parseVolatility ps = .ok (0 : ℝ) := by
    have : parseVolatility ps = .ok (Real.sqrt (max q 0)) := by
      simp [parseVolatility, h0, hq]; rfl
    rw [this, max_eq_right hq0, Real.sqrt_zero]
  have := vega_of_variance_pricer hnd hp hn hpk hF hv (by simpa using hΦ) (by simpa using hφ) h
  simpa using this

/-- theta of a pricer written in `time_to_maturity`: `−φ'(t)` -/
theorem theta_of_pricer (hnd : sig.names.Nodup) (hp : p ∈ sig)
    (hn : p.name = "time_to_maturity") (hpk : p.kind.byKeyword = true)
    {F : Env (Dual ℝ) → Except Err (Dual ℝ)} {Φ : Dual ℝ → Dual ℝ}
    (hF : ∀ env M, getP env.args "time_to_maturity" = some M → F env = .ok (Φ M))
    {t : ℝ} (ht : getP ps "time_to_maturity" = some t) {φ : ℝ → ℝ} {φ' : ℝ} (hΦ : Lifts Φ φ t)
    (hφ : HasDerivAt φ φ' t) {r : ℝ} (h : autogreekValue .theta sig F ps = .ok r) : r = -φ' := by
  obtain ⟨D, hD, hr⟩ := dual_run_entry hnd hp hpk (by rw [hn]; exact hF) h
  rw [hn] at hr
  obtain ⟨X, hX, h1⟩ := time_entry_is_leaf hD
  rw [getP_map, ht] at hX
  have hs : seed1 X = ⟨t, 1⟩ := by cases hX; rfl
  rw [hs] at h1
  rw [hr _ h1, if_pos rfl]
  congr 1
  exact (hΦ ⟨t, 1⟩ (fun t => t) t rfl tracks_var').2.unique hφ

/-- gamma of a pricer written in `spot`: the second derivative `φ''(S)` -/
theorem gamma_of_spot_pricer (hnd : sig.names.Nodup) (hp : p ∈ sig) (hn : p.name = "spot")
    (hpk : p.kind.byKeyword = true) {F : Env (Dual (Dual ℝ)) → Except Err (Dual (Dual ℝ))}
    {Φ : Dual (Dual ℝ) → Dual (Dual ℝ)}
    (hF : ∀ env M, getP env.args "spot" = some M → F env = .ok (Φ M))
    {S : ℝ} (hS : parseSpot ps = .ok S) {φ : ℝ → ℝ} (hΦ : Lifts2 Φ φ S) {r : ℝ}
    (h : autogreekGamma sig F ps = .ok r) : r = deriv (deriv φ) S := by
  obtain ⟨D, hD, hr⟩ := dual2_run_entry hnd hp hpk (by rw [hn]; exact hF) h
  rw [hn] at hr
  rw [hr _ (dual2_spot_entries hS hD).1]
  exact (hΦ (var2 S) (fun t => t) S rfl tracks2_var).eps_eps

/-- gamma of a pricer written in `moneyness`: the second derivative by the spot of `φ (S / K)` -/
theorem gamma_of_moneyness_pricer (hnd : sig.names.Nodup) (hp : p ∈ sig)
    (hn : p.name = "moneyness") (hpk : p.kind.byKeyword = true)
    {F : Env (Dual (Dual ℝ)) → Except Err (Dual (Dual ℝ))} {Φ : Dual (Dual ℝ) → Dual (Dual ℝ)}
    (hF : ∀ env M, getP env.args "moneyness" = some M → F env = .ok (Φ M))
    {S k : ℝ} (hS : parseSpot ps = .ok S) (hk : getP ps "strike" = some k) (hk0 : k ≠ 0)
    {φ : ℝ → ℝ} (hΦ : Lifts2 Φ φ (S / k)) {r : ℝ} (h : autogreekGamma sig F ps = .ok r) :
    r = deriv (deriv (fun t => φ (t / k))) S := by
  obtain ⟨D, hD, hr⟩ := dual2_run_entry hnd hp hpk (by rw [hn]; exact hF) h
  rw [hn] at hr
  rw [hr _ ((dual2_spot_entries hS hD).2 k hk).1]
  have ht : Tracks2 (var2 S / C08DualAux.lift2 k) (fun t => t / k) S :=
    tracks2_var.div (tracks2_lift k) hk0
  exact (hΦ _ (fun t => t / k) S rfl ht).eps_eps

/-- … which is `φ''(S / K) / K²` -/
theorem gamma_of_moneyness_pricer_explicit (hnd : sig.names.Nodup) (hp : p ∈ sig)
    (hn : p.name = "moneyness") (hpk : p.kind.byKeyword = true)
    {F : Env (Dual (Dual ℝ)) → Except Err (Dual (Dual ℝ))} {Φ : Dual (Dual ℝ) → Dual (Dual ℝ)}
    (hF : ∀ env M, getP env.args "moneyness" = some M → F env = .ok (Φ M))
    {S k : ℝ} (hS : parseSpot ps = .ok S) (hk : getP ps "strike" = some k) (hk0 : k ≠ 0)
    {φ : ℝ → ℝ} (hΦ : Lifts2 Φ φ (S / k)) {r : ℝ} (h : autogreekGamma sig F ps = .ok r) :
    r = deriv (deriv φ) (S / k) / k ^ 2 := by
  rw [gamma_of_moneyness_pricer hnd hp hn hpk hF hS hk hk0 hΦ h]
  have e1 : ∀ g : ℝ → ℝ, deriv (fun t => g (t / k)) = fun t => k⁻¹ * deriv g (t / k) := by
    intro g; funext t
    have := deriv_comp_mul_left k⁻¹ g t
    simp only [smul_eq_mul] at this
    simpa [div_eq_inv_mul] using this
  rw [e1 φ]
  have e2 : deriv (fun t => k⁻¹ * deriv φ (t / k)) S = k⁻¹ * deriv (fun t => deriv φ (t / k)) S :=
    deriv_const_mul_field k⁻¹
  rw [e2, e1 (deriv φ)]
  field_simp

/-- gamma of a pricer written in `log_moneyness`: the second derivative by the spot of
`φ (log (S / K))` -/
theorem gamma_of_log_moneyness_pricer (hnd : sig.names.Nodup) (hp : p ∈ sig)
    (hn : p.name = "log_moneyness") (hpk : p.kind.byKeyword = true)
    {F : Env (Dual (Dual ℝ)) → Except Err (Dual (Dual ℝ))} {Φ : Dual (Dual ℝ) → Dual (Dual ℝ)}
    (hF : ∀ env M, getP env.args "log_moneyness" = some M → F env = .ok (Φ M))
    {S k : ℝ} (hS : parseSpot ps = .ok S) (hk : getP ps "strike" = some k) (hk0 : k ≠ 0)
    (hS0 : S ≠ 0) {φ : ℝ → ℝ} (hΦ : Lifts2 Φ φ (Real.log (S / k))) {r : ℝ}
    (h : autogreekGamma sig F ps = .ok r) :
    r = deriv (deriv (fun t => φ (Real.log (t / k)))) S := by
  obtain ⟨D, hD, hr⟩ := dual2_run_entry hnd hp hpk (by rw [hn]; exact hF) h
  rw [hn] at hr
  rw [hr _ ((dual2_spot_entries hS hD).2 k hk).2]
  have ht : Tracks2 (log (var2 S / C08DualAux.lift2 k)) (fun t => Real.log (t / k)) S :=
    (tracks2_var.div (tracks2_lift k) hk0).log (div_ne_zero hS0 hk0)
  exact (hΦ _ (fun t => Real.log (t / k)) S rfl ht).eps_eps

end chain

end PfVerif.C08Glue

/-! ## every body of the closed language: the dual run differentiates the model's own price -/

namespace PfVerif.C08GlueAux
open PfVerif PfVerif.Autogreek PfVerif.C08DualAux Transc

/-- a forward-mode carrier over `ℝ` (dual numbers of first or second order): how constants enter,
what it means that an element carries a real function of the leaf at a point, and the closure of
that relation under the operations of the closed language -/
structure Fwd (δ : Type) [Add δ] [Sub δ] [Mul δ] [Div δ] [Neg δ] [Transc δ] where
  l : ℝ → δ
  T : δ → (ℝ → ℝ) → ℝ → Prop
  const : ∀ (c θ : ℝ), T (l c) (fun _ => c) θ
  add : ∀ {A B f g θ}, T A f θ → T B g θ → T (A + B) (fun t => f t + g t) θ
  sub : ∀ {A B f g θ}, T A f θ → T B g θ → T (A - B) (fun t => f t - g t) θ
  mul : ∀ {A B f g θ}, T A f θ → T B g θ → T (A * B) (fun t => f t * g t) θ
  div : ∀ {A B f g θ}, T A f θ → T B g θ → g θ ≠ 0 → T (A / B) (fun t => f t / g t) θ
  neg : ∀ {A f θ}, T A f θ → T (-A) (fun t => -f t) θ
  exp : ∀ {A f θ}, T A f θ → T (Transc.exp A) (fun t => Real.exp (f t)) θ
  log : ∀ {A f θ}, T A f θ → 0 < f θ → T (Transc.log A) (fun t => Real.log (f t)) θ
  sqrt : ∀ {A f θ}, T A f θ → 0 < f θ → T (Transc.sqrt A) (fun t => Real.sqrt (f t)) θ
  sin : ∀ {A f θ}, T A f θ → T (Transc.sin A) (fun t => Real.sin (f t)) θ
  cos : ∀ {A f θ}, T A f θ → T (Transc.cos A) (fun t => Real.cos (f t)) θ
  ncdf : ∀ {A f θ}, T A f θ → T (Transc.ncdf A) (fun t => Phi (f t)) θ

/-- first order: `Dual ℝ`, `Tracks` -/
def fwd1 : Fwd (Dual ℝ) where
  l := lift1
  T := Tracks
  const c _ := tracks_const c
  add := Tracks.add
  sub := Tracks.sub
  mul := Tracks.mul
  div := Tracks.div
  neg := Tracks.neg
  exp := Tracks.exp
  log h h0 := h.log h0.ne'
  sqrt h h0 := h.sqrt h0.ne'
  sin := Tracks.sin
  cos := Tracks.cos
  ncdf := Tracks.ncdf

section second
open Filter Topology
variable {θ : ℝ} {A : Dual (Dual ℝ)} {f : ℝ → ℝ}

theorem tracks2_neg (ha : Tracks2 A f θ) : Tracks2 (-A) (fun x => -f x) θ := by
  obtain ⟨f', ef, hf, hf'⟩ := ha
  refine ⟨fun x => -f' x, ?_, hf.neg, hf'.neg⟩
  filter_upwards [ef] with x h1 using h1.fun_neg

theorem tracks2_sin (ha : Tracks2 A f θ) : Tracks2 (sin A) (fun x => Real.sin (f x)) θ := by
  obtain ⟨f', ef, hf, hf'⟩ := ha
  refine ⟨fun x => f' x * Real.cos (f x), ?_, hf.sin, hf'.mul hf.cos⟩
  filter_upwards [ef] with x h1 using h1.sin.congr_deriv (mul_comm _ _)

theorem tracks2_cos (ha : Tracks2 A f θ) : Tracks2 (cos A) (fun x => Real.cos (f x)) θ := by
  obtain ⟨f', ef, hf, hf'⟩ := ha
  refine ⟨fun x => -(f' x * Real.sin (f x)), ?_, hf.cos, (hf'.mul hf.sin).neg⟩
  filter_upwards [ef] with x h1 using h1.cos.congr_deriv (by ring)

end second

/-- second order: `Dual (Dual ℝ)`, `Tracks2` -/
def fwd2 : Fwd (Dual (Dual ℝ)) where
  l := Autogreek.lift2
  T := Tracks2
  const c _ := tracks2_lift c
  add := Tracks2.add
  sub := Tracks2.sub
  mul := Tracks2.mul
  div := Tracks2.div
  neg := tracks2_neg
  exp := Tracks2.exp
  log h h0 := h.log h0.ne'
  sqrt h h0 := h.sqrt h0
  sin := tracks2_sin
  cos := tracks2_cos
  ncdf := Tracks2.ncdf

section fwd
variable {δ : Type} [Add δ] [Sub δ] [Mul δ] [Div δ] [Neg δ] [Transc δ] (S : Fwd δ)

/-- entry by entry, the dual arguments carry a curve of real arguments -/
def TracksArgs (A : Params δ) (a : ℝ → Params ℝ) (θ : ℝ) : Prop :=
  ∀ n, (getP A n = none ∧ ∀ t, getP (a t) n = none) ∨
    ∃ E u, getP A n = some E ∧ (∀ t, getP (a t) n = some (u t)) ∧ S.T E u θ

end fwd

/-- the body is evaluated inside the domain where its functions are smooth (and finite in floating
point): no division by zero, logarithms and square roots of positive numbers only, at the real
arguments `args` -/
def Smooth (args : Params ℝ) : Expr ℝ → Prop
  | .var _ | .num _ => True
  | .add a b | .sub a b | .mul a b => Smooth args a ∧ Smooth args b
  | .div a b => Smooth args a ∧ Smooth args b ∧ ∀ v, b.eval id args = .ok v → v ≠ 0
  | .neg a | .exp a | .sin a | .cos a | .ncdf a => Smooth args a
  | .log a | .sqrt a => Smooth args a ∧ ∀ v, a.eval id args = .ok v → 0 < v

theorem bind2_ok {α β γ : Type} {A : Except Err α} {B : Except Err β} {f : α → β → γ} {R : γ}
    (h : (do let x ← A; let y ← B; pure (f x y)) = Except.ok R) :
    ∃ x y, A = .ok x ∧ B = .ok y ∧ R = f x y := by
  cases A with
  | error e => cases h
  | ok x =>
    cases B with
    | error e => cases h
    | ok y => exact ⟨x, y, rfl, rfl, by cases h; rfl⟩

theorem bind1_ok {α γ : Type} {A : Except Err α} {f : α → γ} {R : γ}
    (h : (do let x ← A; pure (f x)) = Except.ok R) : ∃ x, A = .ok x ∧ R = f x := by
  cases A with
  | error e => cases h
  | ok x => exact ⟨x, rfl, by cases h; rfl⟩

section fwd
variable {δ : Type} [Add δ] [Sub δ] [Mul δ] [Div δ] [Neg δ] [Transc δ] (S : Fwd δ)

theorem eval_tracks {A : Params δ} {a : ℝ → Params ℝ} {θ : ℝ} (hA : TracksArgs S A a θ)
    (e : Expr ℝ) (hs : Smooth (a θ) e) {R : δ} (hR : e.eval S.l A = .ok R) :
    ∃ r : ℝ → ℝ, (∀ t, e.eval id (a t) = .ok (r t)) ∧ S.T R r θ := by
  induction e generalizing R with
  | var n =>
    rcases hA n with ⟨h1, _⟩ | ⟨E, u, h1, h2, h3⟩
    · simp [Expr.eval, h1] at hR
    · simp only [Expr.eval, h1] at hR
      cases hR
      exact ⟨u, fun t => by simp [Expr.eval, h2 t], h3⟩
  | num c =>
    simp only [Expr.eval] at hR
    cases hR
    exact ⟨fun _ => c, fun t => rfl, S.const c θ⟩
  | add x y ihx ihy =>
    obtain ⟨X, Y, hX, hY, rfl⟩ := bind2_ok hR
    obtain ⟨rx, hx1, hx2⟩ := ihx hs.1 hX
    obtain ⟨ry, hy1, hy2⟩ := ihy hs.2 hY
    exact ⟨fun t => rx t + ry t, fun t => by simp [Expr.eval, hx1 t, hy1 t]; rfl, S.add hx2 hy2⟩
  | sub x y ihx ihy =>
    obtain ⟨X, Y, hX, hY, rfl⟩ := bind2_ok hR
    obtain ⟨rx, hx1, hx2⟩ := ihx hs.1 hX
    obtain ⟨ry, hy1, hy2⟩ := ihy hs.2 hY
    exact ⟨fun t => rx t - ry t, fun t => by simp [Expr.eval, hx1 t, hy1 t]; rfl, S.sub hx2 hy2⟩
  | mul x y ihx ihy =>
    obtain ⟨X, Y, hX, hY, rfl⟩ := bind2_ok hR
    obtain ⟨rx, hx1, hx2⟩ := ihx hs.1 hX
    obtain ⟨ry, hy1, hy2⟩ := ihy hs.2 hY
    exact ⟨fun t => rx t * ry t, fun t => by simp [Expr.eval, hx1 t, hy1 t]; rfl, S.mul hx2 hy2⟩
  | div x y ihx ihy =>
    obtain ⟨X, Y, hX, hY, rfl⟩ := bind2_ok hR
    obtain ⟨rx, hx1, hx2⟩ := ihx hs.1 hX
    obtain ⟨ry, hy1, hy2⟩ := ihy hs.2.1 hY
    exact ⟨fun t => rx t / ry t, fun t => by simp [Expr.eval, hx1 t, hy1 t]; rfl,
      S.div hx2 hy2 (hs.2.2 _ (hy1 θ))⟩
  | neg x ihx =>
    obtain ⟨X, hX, rfl⟩ := bind1_ok hR
    obtain ⟨rx, hx1, hx2⟩ := ihx hs hX
    exact ⟨fun t => -rx t, fun t => by simp [Expr.eval, hx1 t], S.neg hx2⟩
  | exp x ihx =>
    obtain ⟨X, hX, rfl⟩ := bind1_ok hR
    obtain ⟨rx, hx1, hx2⟩ := ihx hs hX
    exact ⟨fun t => Real.exp (rx t), fun t => by simp [Expr.eval, hx1 t]; rfl, S.exp hx2⟩
  | log x ihx =>
    obtain ⟨X, hX, rfl⟩ := bind1_ok hR
    obtain ⟨rx, hx1, hx2⟩ := ihx hs.1 hX
    exact ⟨fun t => Real.log (rx t), fun t => by simp [Expr.eval, hx1 t]; rfl,
      S.log hx2 (hs.2 _ (hx1 θ))⟩
  | sqrt x ihx =>
    obtain ⟨X, hX, rfl⟩ := bind1_ok hR
    obtain ⟨rx, hx1, hx2⟩ := ihx hs.1 hX
    exact ⟨fun t => Real.sqrt (rx t), fun t => by simp [Expr.eval, hx1 t]; rfl,
      S.sqrt hx2 (hs.2 _ (hx1 θ))⟩
  | sin x ihx =>
    obtain ⟨X, hX, rfl⟩ := bind1_ok hR
    obtain ⟨rx, hx1, hx2⟩ := ihx hs hX
    exact ⟨fun t => Real.sin (rx t), fun t => by simp [Expr.eval, hx1 t]; rfl, S.sin hx2⟩
  | cos x ihx =>
    obtain ⟨X, hX, rfl⟩ := bind1_ok hR
    obtain ⟨rx, hx1, hx2⟩ := ihx hs hX
    exact ⟨fun t => Real.cos (rx t), fun t => by simp [Expr.eval, hx1 t]; rfl, S.cos hx2⟩
  | ncdf x ihx =>
    obtain ⟨X, hX, rfl⟩ := bind1_ok hR
    obtain ⟨rx, hx1, hx2⟩ := ihx hs hX
    exact ⟨fun t => Phi (rx t), fun t => by simp [Expr.eval, hx1 t]; rfl, S.ncdf hx2⟩

end fwd

/-! ### the dual run against the plain run as a function of the leaf -/

/-- the parser a Greek uses -/
noncomputable def leafOf (g : Greek) (ps : Params ℝ) : Except Err ℝ :=
  match g with
  | .delta | .gamma => parseSpot ps
  | .vega => parseVolatility ps
  | .theta => parseTime ps

/-- the plain dict with the value `x` in the place of the leaf -/
noncomputable def dictAt (g : Greek) (ps : Params ℝ) (x : ℝ) : Params ℝ :=
  match g with
  | .delta | .gamma => deltaOut ps x
  | .vega => vegaOut ps x
  | .theta => setP ps "time_to_maturity" x

theorem preDict_const {g : Greek} {ps : Params ℝ} {x0 : ℝ} (hx : leafOf g ps = .ok x0) (x : ℝ) :
    preDict g (fun _ => x) ps = .ok (dictAt g ps x) := by
  cases g with
  | delta => exact deltaDict_ok hx
  | gamma => rw [preDict_gamma_eq_delta (seed := fun _ : ℝ => x) (fun _ => rfl)]; exact deltaDict_ok hx
  | vega => exact vegaDict_ok hx
  | theta => exact thetaDict_ok hx

theorem named_liftSig {β γ : Type} (l : β → γ) (sig : Sig β) (k : String) :
    named (liftSig l sig) k = named sig k := by
  unfold named liftSig; simp [List.any_map, Function.comp_def]

theorem plain_liftSig {β γ : Type} (l : β → γ) {sig : Sig β} (h : Plain sig) : Plain (liftSig l sig) := by
  intro p hp
  unfold liftSig at hp
  obtain ⟨q, hq, rfl⟩ := List.mem_map.1 hp
  exact h q hq

theorem callArgs_plain {α : Type} {sig : Sig α} (hpl : Plain sig) (d : Params α) :
    callArgs sig d = (Autogreek.bindNamed (Autogreek.passed sig d) sig).map (fun a => ⟨a, []⟩) := by
  unfold callArgs bindArgs
  simp only [extra_plain hpl d, List.isEmpty_nil, Bool.not_true, Bool.false_and, Bool.false_eq_true,
    if_false]
  cases Autogreek.bindNamed (Autogreek.passed sig d) sig <;> rfl

section fwd
variable {δ : Type} [Add δ] [Sub δ] [Mul δ] [Div δ] [Neg δ] [OfNat δ 0] [Max δ] [Transc δ]
  (S : Fwd δ)

theorem tracksArgs_lift (ps : Params ℝ) (θ : ℝ) :
    TracksArgs S (liftParams S.l ps) (fun _ => ps) θ := by
  intro n
  cases h : getP ps n with
  | none => left; exact ⟨by rw [getP_map, h]; rfl, fun _ => h⟩
  | some v => right; exact ⟨S.l v, fun _ => v, by rw [getP_map, h]; rfl, fun _ => h, S.const v θ⟩

variable {S}

/-- overwrite one entry on both sides -/
theorem TracksArgs.setP {A : Params δ} {a : ℝ → Params ℝ} {θ : ℝ} (h : TracksArgs S A a θ)
    (k : String) {E : δ} {u : ℝ → ℝ} (hE : S.T E u θ) :
    TracksArgs S (setP A k E) (fun t => Autogreek.setP (a t) k (u t)) θ := by
  intro n
  by_cases hn : k = n
  · subst hn
    right
    exact ⟨E, u, getP_setP_self _ _ _, fun t => getP_setP_self _ _ _, hE⟩
  · rcases h n with ⟨h1, h2⟩ | ⟨E', u', h1, h2, h3⟩
    · left; exact ⟨by rw [getP_setP_ne _ _ hn, h1], fun t => by rw [getP_setP_ne _ _ hn, h2 t]⟩
    · right
      exact ⟨E', u', by rw [getP_setP_ne _ _ hn, h1], fun t => by rw [getP_setP_ne _ _ hn, h2 t], h3⟩

/-- the dual dict with `V` in the place of the leaf -/
def dualDictAt (S : Fwd δ) (g : Greek) (ps : Params ℝ) (V : δ) : Params δ :=
  match g with
  | .delta | .gamma => deltaOut (liftParams S.l ps) V
  | .vega => vegaOut (liftParams S.l ps) V
  | .theta => Autogreek.setP (liftParams S.l ps) "time_to_maturity" V

/-- the dict of a Greek with the variable `V` (carrying the identity at `x0`) in the place of the leaf -/
theorem tracksArgs_dictAt (g : Greek) (ps : Params ℝ) {x0 : ℝ} {V : δ} (hV : S.T V (fun t => t) x0)
    (hk : (g = .delta ∨ g = .gamma) → ∀ k, getP ps "strike" = some k → 0 < x0 / k) :
    TracksArgs S (dualDictAt S g ps V) (dictAt g ps) x0 := by
  have hdelta : (∀ k, getP ps "strike" = some k → 0 < x0 / k) →
      TracksArgs S (deltaOut (liftParams S.l ps) V) (fun x => deltaOut ps x) x0 := by
    intro hk
    cases hs : getP ps "strike" with
    | none =>
      have hs' : getP (liftParams S.l ps) "strike" = none := by rw [getP_map, hs]; rfl
      rw [deltaOut_noStrike hs']
      have : (fun x => deltaOut ps x) = fun x => Autogreek.setP ps "spot" x := by
        funext x; exact deltaOut_noStrike hs x
      rw [this]
      exact (tracksArgs_lift S ps x0).setP "spot" hV
    | some k =>
      have hs' : getP (liftParams S.l ps) "strike" = some (S.l k) := by rw [getP_map, hs]; rfl
      rw [deltaOut_strike hs']
      have : (fun x => deltaOut ps x) = fun x => Autogreek.setP (Autogreek.setP
          (Autogreek.setP ps "spot" x) "moneyness" (x / k)) "log_moneyness" (Real.log (x / k)) := by
        funext x; exact deltaOut_strike hs x
      rw [this]
      have hpos := hk k hs
      have hk0 : k ≠ 0 := by rintro rfl; simp at hpos
      have hm : S.T (V / S.l k) (fun t => t / k) x0 := S.div hV (S.const k x0) hk0
      exact (((tracksArgs_lift S ps x0).setP "spot" hV).setP "moneyness" hm).setP "log_moneyness"
        (S.log hm hpos)
  cases g with
  | delta => exact hdelta (hk (Or.inl rfl))
  | gamma => exact hdelta (hk (Or.inr rfl))
  | vega => exact ((tracksArgs_lift S ps x0).setP "volatility" hV).setP "variance" (S.mul hV hV)
  | theta => exact (tracksArgs_lift S ps x0).setP "time_to_maturity" hV

theorem TracksArgs.passed {A : Params δ} {a : ℝ → Params ℝ} {θ : ℝ} (h : TracksArgs S A a θ)
    (sig : Sig ℝ) :
    TracksArgs S (Autogreek.passed (liftSig S.l sig) A) (fun t => Autogreek.passed sig (a t)) θ := by
  intro n
  simp only [getP_passed, named_liftSig]
  cases named sig n with
  | false => left; exact ⟨rfl, fun _ => rfl⟩
  | true => simpa using h n

/-- python's binding does not look at values: the dual call binds iff the plain call does, entry by
entry the bound values correspond -/
theorem TracksArgs.bindNamed {KW : Params δ} {kw : ℝ → Params ℝ} {θ : ℝ}
    (h : TracksArgs S KW kw θ) (sig : Sig ℝ) {AD : Params δ}
    (hb : Autogreek.bindNamed KW (liftSig S.l sig) = .ok AD) :
    ∃ ar : ℝ → Params ℝ, (∀ t, Autogreek.bindNamed (kw t) sig = .ok (ar t)) ∧ TracksArgs S AD ar θ := by
  induction sig generalizing AD with
  | nil =>
    simp only [liftSig, List.map_nil, Autogreek.bindNamed] at hb
    cases hb
    exact ⟨fun _ => [], fun _ => rfl, fun n => Or.inl ⟨rfl, fun _ => rfl⟩⟩
  | cons p r ih =>
    have hcons : liftSig S.l (p :: r) =
        (⟨p.name, p.kind, p.default.map S.l⟩ : Param δ) :: liftSig S.l r := rfl
    rw [hcons] at hb
    by_cases hn : p.kind.isNamed = true
    · rw [bindNamed_cons_named KW (⟨p.name, p.kind, p.default.map S.l⟩ : Param δ) _ hn] at hb
      cases h1 : bindOne KW (⟨p.name, p.kind, p.default.map S.l⟩ : Param δ) with
      | error e => rw [h1] at hb; cases hb
      | ok X =>
        rw [h1] at hb
        cases h2 : Autogreek.bindNamed KW (liftSig S.l r) with
        | error e => rw [h2] at hb; cases hb
        | ok rest =>
          rw [h2] at hb
          have hAD : AD = (p.name, X) :: rest := by cases hb; rfl
          obtain ⟨ar', har1, har2⟩ := ih h2
          -- the value of this parameter on both sides
          have hone : ∃ xr : ℝ → ℝ, (∀ t, bindOne (kw t) p = .ok (xr t)) ∧ S.T X xr θ := by
            have hX := (bindOne_ok _ _ _).1 h1
            simp only at hX
            by_cases hk : p.kind.byKeyword = true
            · rcases h p.name with ⟨g1, g2⟩ | ⟨E, u, g1, g2, g3⟩
              · simp only [hk, if_true, g1] at hX
                cases hd : p.default with
                | none => rw [hd] at hX; cases hX
                | some c =>
                  rw [hd] at hX
                  have : X = S.l c := by cases hX; rfl
                  subst this
                  exact ⟨fun _ => c, fun t => (bindOne_ok _ _ _).2 (by simp [hk, g2 t, hd]),
                    S.const c θ⟩
              · simp only [hk, if_true, g1] at hX
                have : X = E := by cases hX; rfl
                subst this
                exact ⟨u, fun t => (bindOne_ok _ _ _).2 (by simp [hk, g2 t]), g3⟩
            · have hk' : p.kind.byKeyword = false := by simpa using hk
              simp only [hk', Bool.false_eq_true, if_false] at hX
              cases hd : p.default with
              | none => rw [hd] at hX; cases hX
              | some c =>
                rw [hd] at hX
                have : X = S.l c := by cases hX; rfl
                subst this
                exact ⟨fun _ => c, fun t => (bindOne_ok _ _ _).2 (by simp [hk', hd]), S.const c θ⟩
          obtain ⟨xr, hxr1, hxr2⟩ := hone
          refine ⟨fun t => (p.name, xr t) :: ar' t, fun t => ?_, ?_⟩
          · rw [bindNamed_cons_named _ _ _ hn, hxr1 t, har1 t]
          · intro n
            rw [hAD]
            by_cases hpn : p.name = n
            · right; exact ⟨X, xr, by simp [getP, hpn], fun t => by simp [getP, hpn], hxr2⟩
            · rcases har2 n with ⟨g1, g2⟩ | ⟨E, u, g1, g2, g3⟩
              · left; exact ⟨by simp [getP, hpn, g1], fun t => by simp [getP, hpn, g2 t]⟩
              · right; exact ⟨E, u, by simp [getP, hpn, g1], fun t => by simp [getP, hpn, g2 t], g3⟩
    · have hn' : p.kind.isNamed = false := by simpa using hn
      rw [bindNamed_cons_var KW (⟨p.name, p.kind, p.default.map S.l⟩ : Param δ) _ hn'] at hb
      obtain ⟨ar', har1, har2⟩ := ih hb
      exact ⟨ar', fun t => by rw [bindNamed_cons_var _ _ _ hn']; exact har1 t, har2⟩

/-- the whole run: if the dual dict carries the plain dict as a function of the leaf, the dual price
carries the plain price as a function of the leaf -/
theorem run_tracks {g : Greek} {seed : δ → δ} {sig : Sig ℝ} (hpl : Plain sig) {e : Expr ℝ}
    {ps : Params ℝ} {x0 : ℝ} (hx : leafOf g ps = .ok x0)
    (hD : ∀ D, preDict g seed (liftParams S.l ps) = .ok D → TracksArgs S D (dictAt g ps) x0)
    (hsm : ∀ env, callArgs sig (dictAt g ps x0) = .ok env → Smooth env.args e)
    {R : δ} (hR : run g seed (liftSig S.l sig) (e.pricer S.l) (liftParams S.l ps) = .ok R) :
    ∃ price : ℝ → ℝ, (∀ x, run g (fun _ => x) sig (e.pricer id) ps = .ok (price x)) ∧
      S.T R price x0 := by
  rcases (C08Glue.run_cases _ _ _ _ _ _).1 hR with ⟨e', _, h2⟩ | ⟨d, e', _, _, h3⟩ | ⟨D, ENV, h1, h2, h3⟩
  · cases h2
  · cases h3
  · have hT := (hD D h1).passed sig
    rw [callArgs_plain (plain_liftSig S.l hpl)] at h2
    cases hb : Autogreek.bindNamed (passed (liftSig S.l sig) D) (liftSig S.l sig) with
    | error e' => rw [hb] at h2; cases h2
    | ok AD =>
      rw [hb] at h2
      have hENV : ENV = ⟨AD, []⟩ := by cases h2; rfl
      obtain ⟨ar, har1, har2⟩ := hT.bindNamed sig hb
      have hcall : ∀ x, callArgs sig (dictAt g ps x) = .ok ⟨ar x, []⟩ := fun x => by
        rw [callArgs_plain hpl, har1 x]; rfl
      have hev : e.eval S.l AD = .ok R := by
        rw [hENV] at h3; exact h3.symm
      obtain ⟨price, hp1, hp2⟩ := eval_tracks S har2 e (hsm _ (hcall x0)) hev
      refine ⟨price, fun x => ?_, hp2⟩
      refine (C08Glue.run_cases _ _ _ _ _ _).2 (Or.inr (Or.inr ⟨_, _, preDict_const hx x, hcall x, ?_⟩))
      exact (hp1 x).symm

end fwd

/-- first order: the dual dict against the plain dict -/
theorem tracksArgs_dict1 {g : Greek} (hg : g ≠ .gamma) {ps : Params ℝ} {x0 : ℝ}
    (hx : leafOf g ps = .ok x0) (hk : g = .delta → ∀ k, getP ps "strike" = some k → 0 < x0 / k)
    {D : Params (Dual ℝ)} (hD : preDict g seed1 (liftParams lift1 ps) = .ok D) :
    TracksArgs fwd1 D (dictAt g ps) x0 := by
  have hvar : fwd1.T (⟨x0, 1⟩ : Dual ℝ) (fun t => t) x0 := tracks_var'
  have key := tracksArgs_dictAt (S := fwd1) g ps hvar (by
    rintro (rfl | rfl)
    · exact hk rfl
    · exact absurd rfl hg)
  cases g with
  | gamma => exact absurd rfl hg
  | delta =>
    change deltaDict seed1 (liftParams lift1 ps) = .ok D at hD
    cases hX : parseSpot (liftParams (lift1 : ℝ → Dual ℝ) ps) with
    | error e => rw [deltaDict_error hX] at hD; cases hD
    | ok X =>
      rw [deltaDict_ok hX] at hD
      have hv : seed1 X = ⟨x0, 1⟩ := by
        have := parseSpot_lift1 ps
        rw [hX] at this
        have hx' : parseSpot ps = .ok x0 := hx
        rw [hx'] at this
        cases this; rfl
      rw [hv] at hD
      cases hD; exact key
  | vega =>
    change vegaDict seed1 (liftParams lift1 ps) = .ok D at hD
    cases hX : parseVolatility (liftParams (lift1 : ℝ → Dual ℝ) ps) with
    | error e => rw [vegaDict_error hX] at hD; cases hD
    | ok X =>
      rw [vegaDict_ok hX] at hD
      have hv : seed1 X = ⟨x0, 1⟩ := by
        have := parseVolatility_lift1 ps
        rw [hX] at this
        have hx' : parseVolatility ps = .ok x0 := hx
        rw [hx'] at this
        cases this; rfl
      rw [hv] at hD
      cases hD; exact key
  | theta =>
    change thetaDict seed1 (liftParams lift1 ps) = .ok D at hD
    cases hX : parseTime (liftParams (lift1 : ℝ → Dual ℝ) ps) with
    | error e => rw [thetaDict_error hX] at hD; cases hD
    | ok X =>
      rw [thetaDict_ok hX] at hD
      have hv : seed1 X = ⟨x0, 1⟩ := by
        have hx' : parseTime ps = .ok x0 := hx
        unfold parseTime at hX hx'
        rw [getP_map] at hX
        cases ht : getP ps "time_to_maturity" with
        | none => rw [ht] at hx'; cases hx'
        | some t => rw [ht] at hX hx'; cases hX; cases hx'; rfl
      rw [hv] at hD
      cases hD; exact key

/-- second order (gamma): the dual dict against the plain dict -/
theorem tracksArgs_dict2 {ps : Params ℝ} {x0 : ℝ} (hx : parseSpot ps = .ok x0)
    (hk : ∀ k, getP ps "strike" = some k → 0 < x0 / k)
    {D : Params (Dual (Dual ℝ))} (hD : preDict .gamma seed2 (liftParams Autogreek.lift2 ps) = .ok D) :
    TracksArgs fwd2 D (dictAt .gamma ps) x0 := by
  have hvar : fwd2.T (var2 x0) (fun t => t) x0 := tracks2_var
  have key := tracksArgs_dictAt (S := fwd2) .gamma ps hvar (fun _ => hk)
  rw [preDict_gamma_eq_delta (seed := seed2) (fun _ => rfl)] at hD
  change deltaDict seed2 (liftParams Autogreek.lift2 ps) = .ok D at hD
  cases hX : parseSpot (liftParams (Autogreek.lift2 : ℝ → Dual (Dual ℝ)) ps) with
  | error e => rw [deltaDict_error hX] at hD; cases hD
  | ok X =>
    rw [deltaDict_ok hX] at hD
    have hv : seed2 X = var2 x0 := by
      have := parseSpot_lift2 ps
      rw [hX, hx] at this
      cases this; rfl
    rw [hv] at hD
    cases hD; exact key

end PfVerif.C08GlueAux

namespace PfVerif.C08Glue
open PfVerif PfVerif.Autogreek PfVerif.C08GlueAux PfVerif.C08DualAux Transc

/-- EVERY body of the closed language, every ordinary signature, every parameterisation: the number
the model returns for delta / vega / theta is the derivative (minus it: theta) by the leaf of the
model's own price — the plain run of the same dict-building, filtering, binding and body with the
value `x` in the place of the leaf — wherever the body is evaluated inside its smooth domain -/
theorem expr_greek_is_derivative {g : Greek} (hg : g ≠ .gamma) {sig : Sig ℝ} (hpl : Plain sig)
    {e : Expr ℝ} {ps : Params ℝ} {x0 : ℝ} (hx : leafOf g ps = .ok x0)
    (hk : g = .delta → ∀ k, getP ps "strike" = some k → 0 < x0 / k)
    (hsm : ∀ env, callArgs sig (dictAt g ps x0) = .ok env → Smooth env.args e)
    {r : ℝ} (h : autogreekValue g sig (e.pricer lift1) ps = .ok r) :
    ∃ price : ℝ → ℝ, (∀ x, run g (fun _ => x) sig (e.pricer id) ps = .ok (price x)) ∧
      HasDerivAt price (if g = .theta then -r else r) x0 := by
  unfold autogreekValue at h
  cases hR : run g seed1 (liftSig lift1 sig) (e.pricer lift1) (liftParams lift1 ps) with
  | error e' => rw [hR] at h; cases h
  | ok R =>
    rw [hR] at h
    have hr : r = if g = .theta then -R.eps else R.eps := by cases h; rfl
    obtain ⟨price, hp1, hp2⟩ := run_tracks (S := fwd1) hpl hx
      (fun D hD => tracksArgs_dict1 hg hx hk hD) hsm hR
    refine ⟨price, hp1, ?_⟩
    have := hp2.2
    by_cases ht : g = .theta
    · simp only [ht, if_true] at hr ⊢
      rw [hr, neg_neg]; exact this
    · simp only [ht, if_false] at hr ⊢
      rw [hr]; exact this

/-- the same for gamma: the number the model returns is the SECOND derivative by the spot leaf of the
model's own price -/
theorem expr_gamma_is_second_derivative {sig : Sig ℝ} (hpl : Plain sig) {e : Expr ℝ}
    {ps : Params ℝ} {x0 : ℝ} (hx : parseSpot ps = .ok x0)
    (hk : ∀ k, getP ps "strike" = some k → 0 < x0 / k)
    (hsm : ∀ env, callArgs sig (dictAt .gamma ps x0) = .ok env → Smooth env.args e)
    {r : ℝ} (h : autogreekGamma sig (e.pricer Autogreek.lift2) ps = .ok r) :
    ∃ price : ℝ → ℝ, (∀ x, run .gamma (fun _ => x) sig (e.pricer id) ps = .ok (price x)) ∧
      HasDerivAt (deriv price) r x0 ∧ r = deriv (deriv price) x0 := by
  unfold autogreekGamma at h
  cases hR : run .gamma seed2 (liftSig Autogreek.lift2 sig) (e.pricer Autogreek.lift2)
      (liftParams Autogreek.lift2 ps) with
  | error e' => rw [hR] at h; cases h
  | ok R =>
    rw [hR] at h
    have hr : r = R.eps.eps := by cases h; rfl
    obtain ⟨price, hp1, hp2⟩ := run_tracks (S := fwd2) hpl (g := .gamma) hx
      (fun D hD => tracksArgs_dict2 hx hk hD) hsm hR
    have hp2' : Tracks2 R price x0 := hp2
    exact ⟨price, hp1, hr ▸ hp2'.hasDerivAt_deriv, hr ▸ hp2'.eps_eps⟩

/-- a body in one name is a forward-mode lifting (`Lifts`) of its own real evaluation -/
theorem expr_lifts (e : Expr ℝ) (n : String) {Φ : Dual ℝ → Dual ℝ} {φ : ℝ → ℝ}
    (hΦ : ∀ M, e.eval lift1 [(n, M)] = .ok (Φ M)) (hφ : ∀ t, e.eval id [(n, t)] = .ok (φ t))
    {x : ℝ} (hs : Smooth [(n, x)] e) : Lifts Φ φ x := by
  intro M m θ hm hM
  have hA : TracksArgs fwd1 [(n, M)] (fun t => [(n, m t)]) θ := by
    intro k
    by_cases hk : n = k
    · right; exact ⟨M, m, by simp [getP, hk], fun t => by simp [getP, hk], hM⟩
    · left; exact ⟨by simp [getP, hk], fun t => by simp [getP, hk]⟩
  obtain ⟨r, hr1, hr2⟩ := eval_tracks fwd1 hA e (by simpa [hm] using hs) (hΦ M)
  have : r = fun t => φ (m t) := by
    funext t
    have := hr1 t
    rw [hφ (m t)] at this
    exact (Except.ok.inj this).symm
  rw [← this]; exact hr2

/-- … and at second order (`Lifts2`) -/
theorem expr_lifts2 (e : Expr ℝ) (n : String) {Φ : Dual (Dual ℝ) → Dual (Dual ℝ)} {φ : ℝ → ℝ}
    (hΦ : ∀ M, e.eval Autogreek.lift2 [(n, M)] = .ok (Φ M))
    (hφ : ∀ t, e.eval id [(n, t)] = .ok (φ t))
    {x : ℝ} (hs : Smooth [(n, x)] e) : Lifts2 Φ φ x := by
  intro M m θ hm hM
  have hA : TracksArgs fwd2 [(n, M)] (fun t => [(n, m t)]) θ := by
    intro k
    by_cases hk : n = k
    · right; exact ⟨M, m, by simp [getP, hk], fun t => by simp [getP, hk], hM⟩
    · left; exact ⟨by simp [getP, hk], fun t => by simp [getP, hk]⟩
  obtain ⟨r, hr1, hr2⟩ := eval_tracks fwd2 hA e (by simpa [hm] using hs) (hΦ M)
  have : r = fun t => φ (m t) := by
    funext t
    have := hr1 t
    rw [hφ (m t)] at this
    exact (Except.ok.inj this).symm
  rw [← this]; exact hr2

end PfVerif.C08Glue

/-! ## non-vacuity -/

namespace PfVerif.C08Glue
open PfVerif PfVerif.Autogreek PfVerif.C08GlueAux Transc

/-- non-vacuity (chain rule): the pricer `moneyness²`, the caller gives log-moneyness 0 and strike 2
(spot 2, moneyness 1): the model's delta is `2 · 1 / 2 = 1` -/
example : autogreekValue .delta [⟨"moneyness", .positionalOrKeyword, none⟩]
    ((Expr.mul (.var "moneyness") (.var "moneyness")).pricer lift1)
    [("log_moneyness", (0 : ℝ)), ("strike", 2)] = .ok 1 := by
  simp [autogreekValue, run, preDict, deltaDict, parseSpot, getP, setP, liftParams, liftSig,
    callArgs, passed, named, bindArgs, bindsNamed, findParam, bindNamed, bindOne, Kind.byKeyword,
    Kind.isNamed, hasVarKw, Expr.pricer, Expr.eval, seed1, lift1, bind, Except.bind, pure,
    Except.pure, Except.map]
  norm_num

/-- non-vacuity (`Lifts`): `moneyness²` on dual numbers is a lifting of `t ↦ t²` -/
example (x : ℝ) : Lifts (fun M => M * M) (fun t => t * t) x :=
  expr_lifts (.mul (.var "m") (.var "m")) "m" (fun M => by simp [Expr.eval, getP]; rfl)
    (fun t => by simp [Expr.eval, getP]; rfl) (by simp [Smooth])

/-- non-vacuity (binding): a keyword-only parameter with a default receives the value passed, an
unnamed entry is dropped -/
example : callArgs [⟨"spot", .positionalOrKeyword, none⟩, ⟨"strike", .keywordOnly, some (1 : ℝ)⟩]
    [("spot", 3), ("strike", 2), ("junk", 5)] = .ok ⟨[("spot", 3), ("strike", 2)], []⟩ := by
  simp [callArgs, passed, named, bindArgs, bindsNamed, findParam, bindNamed, bindOne,
    Kind.byKeyword, Kind.isNamed, hasVarKw, getP, bind, Except.bind, pure, Except.pure]

/-- non-vacuity (TypeError): the pricer needs `volatility`, delta does not derive it from `variance` -/
example : callArgs [⟨"spot", .positionalOrKeyword, none⟩, ⟨"volatility", .keywordOnly, none⟩]
    [("spot", (3 : ℝ)), ("variance", 2)] = .error .typeError := by
  simp [callArgs, passed, named, bindArgs, bindsNamed, findParam, bindNamed, bindOne,
    Kind.byKeyword, Kind.isNamed, hasVarKw, getP, bind, Except.bind, pure, Except.pure]

/-- non-vacuity (ValueError first): moneyness without a strike is no spot parameterisation, whatever
the pricer -/
example (sig : Sig ℝ) (f : Env ℝ → Except Err ℝ) :
    run .gamma id sig f [("moneyness", 1), ("volatility", 2)] = .error .valueError :=
  valueError_first ((preDict_error_iff _ _ _ _).2 ⟨rfl, by simp [getP]⟩) sig f

/-- non-vacuity (`**kwargs`): positional-only parameter with default and `**kwargs` — the keyword
lands in `**kwargs`, the parameter keeps its default -/
example : callArgs [⟨"spot", .positionalOnly, some (7 : ℝ)⟩, ⟨"kwargs", .varKeyword, none⟩]
    [("spot", 3), ("strike", 2)] = .ok ⟨[("spot", 7)], [("spot", 3)]⟩ := by
  simp [callArgs, passed, named, bindArgs, bindsNamed, findParam, bindNamed, bindOne,
    Kind.byKeyword, Kind.isNamed, hasVarKw, getP, bind, Except.bind, pure, Except.pure]

/-- non-vacuity (bodies): `scale · log_moneyness · sqrt(variance)` with the caller's log-moneyness
log 1.5, volatility 0.5, scale 3 — the hypotheses of `expr_greek_is_derivative` hold, vega is
3 · log 1.5 -/
example : ∃ price : ℝ → ℝ, HasDerivAt price (3 * Real.log (3 / 2)) 0.5 ∧
    ∀ x, run .vega (fun _ => x)
      [⟨"log_moneyness", .keywordOnly, none⟩, ⟨"variance", .positionalOrKeyword, none⟩,
        ⟨"scale", .keywordOnly, some 1⟩]
      ((Expr.mul (.mul (.var "scale") (.var "log_moneyness")) (.sqrt (.var "variance"))).pricer id)
      [("log_moneyness", Real.log (3 / 2)), ("volatility", 0.5), ("scale", 3)] = .ok (price x) := by
  have h : autogreekValue .vega
      [⟨"log_moneyness", .keywordOnly, none⟩, ⟨"variance", .positionalOrKeyword, none⟩,
        ⟨"scale", .keywordOnly, some (1 : ℝ)⟩]
      ((Expr.mul (.mul (.var "scale") (.var "log_moneyness")) (.sqrt (.var "variance"))).pricer lift1)
      [("log_moneyness", Real.log (3 / 2)), ("volatility", 0.5), ("scale", 3)]
      = .ok (3 * Real.log (3 / 2)) := by
    have e : Real.sqrt (0.5 * 0.5) = 0.5 := by
      rw [Real.sqrt_mul_self]; norm_num
    simp [autogreekValue, run, preDict, vegaDict, parseVolatility, getP, setP, liftParams, liftSig,
      callArgs, passed, named, bindArgs, bindsNamed, findParam, bindNamed, bindOne, Kind.byKeyword,
      Kind.isNamed, hasVarKw, Expr.pricer, Expr.eval, seed1, lift1, bind, Except.bind, pure,
      Except.pure, Except.map, e]
    field_simp
    norm_num
  obtain ⟨price, h1, h2⟩ := expr_greek_is_derivative (g := .vega) (by decide)
    (by intro p hp; simp at hp; rcases hp with rfl | rfl | rfl <;> rfl)
    (x0 := 0.5) (by simp [leafOf, parseVolatility, getP]) (by intro hh; cases hh)
    (by
      intro env henv
      simp [callArgs, passed, named, bindArgs, bindsNamed, findParam, bindNamed, bindOne,
        Kind.byKeyword, Kind.isNamed, hasVarKw, getP, setP, dictAt, vegaOut, bind, Except.bind,
        pure, Except.pure] at henv
      subst henv
      simp [Smooth, Expr.eval, getP, bind, Except.bind, pure, Except.pure]
      norm_num) h
  exact ⟨price, by simpa using h2, h1⟩

private theorem dd_mul (a b : Dual (Dual ℝ)) :
    a * b = ⟨a.val * b.val, a.eps * b.val + a.val * b.eps⟩ := rfl
private theorem dd_div (a b : Dual (Dual ℝ)) :
    a / b = ⟨a.val / b.val, (a.eps * b.val - a.val * b.eps) / (b.val * b.val)⟩ := rfl
private theorem dd_exp (a : Dual (Dual ℝ)) : exp a = ⟨exp a.val, a.eps * exp a.val⟩ := rfl
private theorem dd_log (a : Dual (Dual ℝ)) : log a = ⟨log a.val, a.eps / a.val⟩ := rfl

/-- non-vacuity (gamma of a body): `exp(2 · log_moneyness)` = (spot / 2)² with the caller's moneyness
1.5 and strike 2 (spot 3): the hypotheses of `expr_gamma_is_second_derivative` hold, gamma is 1/2 -/
example : ∃ price : ℝ → ℝ, HasDerivAt (deriv price) (1 / 2) 3 ∧
    ∀ x, run .gamma (fun _ => x) [⟨"log_moneyness", .keywordOnly, none⟩]
      ((Expr.exp (.mul (.num 2) (.var "log_moneyness"))).pricer id)
      [("moneyness", 1.5), ("strike", 2)] = .ok (price x) := by
  have h : autogreekGamma [⟨"log_moneyness", .keywordOnly, (none : Option ℝ)⟩]
      ((Expr.exp (.mul (.num 2) (.var "log_moneyness"))).pricer Autogreek.lift2)
      [("moneyness", 1.5), ("strike", 2)] = .ok (1 / 2) := by
    simp [autogreekGamma, run, preDict, deltaDict, parseSpot, getP, setP, liftParams, liftSig,
      callArgs, passed, named, bindArgs, bindsNamed, findParam, bindNamed, bindOne, Kind.byKeyword,
      Kind.isNamed, hasVarKw, Expr.pricer, Expr.eval, seed2, Autogreek.lift2, bind, Except.bind,
      pure, Except.pure, Except.map]
    have e : Real.exp (2 * Real.log (1.5 * 2 / 2)) = 2.25 := by
      rw [show (1.5 * 2 / 2 : ℝ) = 1.5 by norm_num,
        show (2 : ℝ) * Real.log 1.5 = Real.log 1.5 + Real.log 1.5 by ring, Real.exp_add,
        Real.exp_log (by norm_num)]
      norm_num
    simp only [dd_mul, dd_div, dd_exp, dd_log]
    simp only [Dual.mul_val, Dual.mul_eps, Dual.div_val, Dual.div_eps, Dual.exp_val, Dual.exp_eps,
      Dual.log_val, Dual.log_eps, Dual.add_eps, Dual.add_val, Dual.sub_eps, Dual.sub_val]
    rw [e]
    norm_num
  obtain ⟨price, h1, h2, _⟩ := expr_gamma_is_second_derivative
    (by intro p hp; simp at hp; subst hp; rfl)
    (x0 := 3) (by simp [parseSpot, getP]; norm_num)
    (by intro k hk; simp [getP] at hk; subst hk; norm_num)
    (by
      intro env henv
      simp [callArgs, passed, named, bindArgs, bindsNamed, findParam, bindNamed, bindOne,
        Kind.byKeyword, Kind.isNamed, hasVarKw, getP, setP, dictAt, deltaOut, bind, Except.bind,
        pure, Except.pure] at henv
      subst henv
      simp [Smooth]) h
  exact ⟨price, h2, h1⟩

end PfVerif.C08Glue
