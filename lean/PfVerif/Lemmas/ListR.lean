/-
  Helper lemmas relating the model's list primitives (instantiated at an ordered field / ℝ)
  to Mathlib's `Finset.sum`, `|·|`, `max`.
-/
import PfVerif.Model.Basic
import Mathlib.Algebra.BigOperators.Intervals
import Mathlib.Algebra.Order.Field.Basic
import Mathlib.Data.Real.Basic
import Mathlib.Tactic.Ring
import Mathlib.Tactic.Linarith

namespace PfVerif
open Finset

/-- the list `[f a, f (a+1), …, f (a+n-1)]` -/
def seqL {β : Type} (f : ℕ → β) (a n : ℕ) : List β := (List.range' a n).map f

@[simp] theorem seqL_zero {β : Type} (f : ℕ → β) (a : ℕ) : seqL f a 0 = [] := rfl

theorem seqL_succ {β : Type} (f : ℕ → β) (a n : ℕ) :
    seqL f a (n + 1) = f a :: seqL f (a + 1) n := by
  simp [seqL, List.range'_succ]

@[simp] theorem seqL_length {β : Type} (f : ℕ → β) (a n : ℕ) : (seqL f a n).length = n := by
  simp [seqL]

/-- every list is a `seqL` (so statements over `seqL` cover all lists) -/
theorem exists_seqL {β : Type} [Inhabited β] (xs : List β) :
    ∃ f : ℕ → β, xs = seqL f 0 xs.length := by
  refine ⟨fun i => xs.getD i default, ?_⟩
  apply List.ext_getElem
  · simp
  · intro i h1 h2
    simp [seqL, List.getD_eq_getElem?_getD, List.getElem?_eq_getElem h1]

theorem absS_eq_abs (x : ℝ) : absS x = |x| := by
  unfold absS
  split
  · rename_i h; exact (abs_of_nonneg h).symm
  · rename_i h; exact (abs_of_neg (lt_of_not_ge h)).symm

theorem reluS_eq_max (x : ℝ) : reluS x = max x 0 := by
  unfold reluS
  split
  · rename_i h; exact (max_eq_left h).symm
  · rename_i h; exact (max_eq_right (le_of_lt (lt_of_not_ge h))).symm

theorem sumL_seqL (f : ℕ → ℝ) (a n : ℕ) :
    sumL (seqL f a n) = ∑ i ∈ range n, f (a + i) := by
  induction n generalizing a with
  | zero => simp [sumL]
  | succ n ih =>
    rw [seqL_succ, sumL, ih, Finset.sum_range_succ']
    simp only [Nat.add_zero]
    have : ∀ i, f (a + 1 + i) = f (a + (i + 1)) := fun i => by congr 1; omega
    simp only [this]; ring

theorem diffL_seqL (f : ℕ → ℝ) (a n : ℕ) :
    diffL (seqL f a (n + 1)) = seqL (fun i => f (i + 1) - f i) a n := by
  induction n generalizing a with
  | zero => simp [seqL_succ, diffL]
  | succ n ih =>
    rw [seqL_succ, seqL_succ f (a+1) n, diffL, ← seqL_succ f (a+1) n, ih, seqL_succ _ a n]

theorem initL_seqL {β : Type} (f : ℕ → β) (a n : ℕ) :
    initL (seqL f a (n + 1)) = seqL f a n := by
  induction n generalizing a with
  | zero => simp [seqL_succ, initL]
  | succ n ih =>
    rw [seqL_succ, seqL_succ f (a+1) n, initL, ← seqL_succ f (a+1) n, ih, seqL_succ _ a n]

theorem tailL_seqL {β : Type} (f : ℕ → β) (a n : ℕ) :
    tailL (seqL f a (n + 1)) = seqL f (a + 1) n := by
  rw [seqL_succ, tailL]

theorem zipWith_seqL {β γ δ : Type} (g : β → γ → δ) (f1 : ℕ → β) (f2 : ℕ → γ) (a n : ℕ) :
    List.zipWith g (seqL f1 a n) (seqL f2 a n) = seqL (fun i => g (f1 i) (f2 i)) a n := by
  induction n generalizing a with
  | zero => simp
  | succ n ih => simp [seqL_succ, ih]

end PfVerif
