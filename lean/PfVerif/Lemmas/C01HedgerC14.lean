/-
  C01 / C14 — the one-instrument composition `C14Aux.pathPL` (compute_hedge → pl, the object of the
  gradient theorems of Props/C14.lean) is the `H = 1` special case of `hedgerPL`
  (Model/HedgerPL.lean, the object of `C01Hedger.hedgerPL_eq_wealth`): both statements talk about
  the same composition.  Kept in its own file because it is the only place where C01 needs the
  (large) C14 development.
-/
import PfVerif.Lemmas.C01Hedger
import PfVerif.Props.C14

namespace PfVerif.C01HedgerC14
open PfVerif PfVerif.C01 PfVerif.C02Aux PfVerif.C01HedgerAux PfVerif.C01Hedger PfVerif.C14Aux

/-- the transposition of a one-column hedge is the single row `unitOf` extracts -/
private theorem transposeHT_one {rows u : List (List ℝ)} (h : transposeHT 1 rows = .ok u) :
    u = [unitOf rows] := by
  have hw := transposeHT_ok h
  rw [transposeHT_eq rows 1 hw] at h
  cases h
  unfold unitOf
  simp only [mat, seqL_succ, seqL_zero]
  congr 1
  rw [map_eq_seqL]
  simp only [seqL]
  apply List.map_congr_left
  intro t ht
  have ht' : t < rows.length := by simpa using ht
  have hl : (rows.getD t []).length = 1 := by
    rw [List.getD_eq_getElem?_getD, List.getElem?_eq_getElem ht']
    exact hw _ (List.getElem_mem ht')
  match hr : rows.getD t [], hl with
  | [x], _ => simp

/-- **`pathPL` is `hedgerPL` with one primary hedging instrument** — the derivative's own
underlier, cost rate `c` — and `z` = `derivative.payoff()`: whenever the Hedger's P&L succeeds,
the composition differentiated in C14 returns the same number. -/
theorem pathPL_eq_hedgerPL (g : List ℝ → List ℝ) (fs : List (Feature ℝ)) (m : Market ℝ) (c : ℝ)
    (p : PayoffSpec ℝ) (reg : List (String × Clause ℝ)) (first : Bool) (x : ℝ)
    (h : hedgerPL g fs m [⟨.primary m.spot, c⟩] p reg first = .ok x) :
    ∃ z, derivPayoff p reg m.spot = .ok z ∧ pathPL g fs m m.spot.length c z first = .ok x := by
  unfold hedgerPL hedgerSpotUnit at h
  obtain ⟨su, h1, h⟩ := bind_ok h
  obtain ⟨z, hz, h⟩ := bind_ok h
  obtain ⟨prices, hp, h1⟩ := bind_ok h1
  obtain ⟨rows, hr, h1⟩ := bind_ok h1
  obtain ⟨units, hu, h1⟩ := bind_ok h1
  have hp' : prices = [m.spot] := by
    simp [stackPrices, PriceSrc.prices] at hp
    exact hp.symm
  subst hp'
  have hu' := transposeHT_one hu
  subst hu'
  refine ⟨z, hz, ?_⟩
  unfold pathPL
  simp only [nSteps, List.length_cons, List.length_nil] at hr
  rw [hr, ok_bind]
  rw [← pure_ok h1] at h
  exact h

/-- conversely, when the module returns one column per row, `hedgerPL` succeeds whenever `pathPL`
does, with the same value (without the hypothesis `pathPL` silently reads a malformed row as a
zero position while `compute_pl` raises "unmatched sizes") -/
theorem hedgerPL_eq_pathPL (g : List ℝ → List ℝ) (hg : ∀ x, (g x).length = 1)
    (fs : List (Feature ℝ)) (m : Market ℝ) (c : ℝ)
    (p : PayoffSpec ℝ) (reg : List (String × Clause ℝ)) (first : Bool) (z : ℝ)
    (hz : derivPayoff p reg m.spot = .ok z) :
    hedgerPL g fs m [⟨.primary m.spot, c⟩] p reg first = pathPL g fs m m.spot.length c z first := by
  unfold hedgerPL hedgerSpotUnit pathPL
  have hp : stackPrices [(⟨.primary m.spot, c⟩ : HedgeInstr ℝ)] = .ok [m.spot] := by
    simp [stackPrices, PriceSrc.prices]
  rw [hp, ok_bind]
  simp only [nSteps, List.length_cons, List.length_nil]
  cases hr : computeHedge g fs m m.spot.length (0 + 1) with
  | error e => rfl
  | ok rows =>
    have hw : ∀ r ∈ rows, r.length = 1 := computeHedge_width g hg fs hr
    have ht := transposeHT_eq rows 1 hw
    obtain ⟨u, hu⟩ : ∃ u, transposeHT 1 rows = .ok u := ⟨_, ht⟩
    have := transposeHT_one hu
    subst this
    simp only [ok_bind, hu, hz]
    rfl

/-- non-vacuity: the hypothesis of `pathPL_eq_hedgerPL` holds on a concrete path (the example
market of `C01Hedger`, hedged with its own underlier through the pass-through module, cost rate
`1/2`, capped call), and `hg` holds for that module on the rows it is applied to -/
example : hedgerPL (fun x => x) exFs exM [⟨.primary exM.spot, 1 / 2⟩] exP exReg true
    = .ok (5 / 2) := by
  simp [hedgerPL, hedgerSpotUnit, exFs, exM, exP, exReg, stackPrices, nSteps, PriceSrc.prices,
    computeHedge, Feature.stateDependent, BaseFeature.stateDependent, inputsAll, Feature.getAll,
    BaseFeature.getAll, logIf, dupLast, transposeHT, colsFrom, colAt, idx, derivPayoff,
    PayoffSpec.eval, europeanPayoff, lastL, reluS, applyClauses, Clause.apply, plPath, gains1,
    cost1, first1, zipWith3L, sumL, mulL, initL, diffL, tailL, absS, bind, Except.bind, pure,
    Except.pure]
  norm_num

example : ∀ x : List ℝ, ((fun _ : List ℝ => [(0 : ℝ)]) x).length = 1 := fun _ => rfl

end PfVerif.C01HedgerC14
