/-
  C16 (second sentence) — the hedger SESSION (Model/HedgerSession.lean; driver op "hedger_session"):
  one `Hedger` object — parameters, `prev_output` buffer, the user's optimiser instance — used with
  several derivatives of one world through arbitrary histories of
  simulate / compute_hedge / compute_portfolio / compute_pl / compute_loss / price / fit.

  "The result of hedging a derivative depends only on the model parameters, the criterion and the
  derivative's current simulated series — not on which derivatives, path counts or dtypes the same
  hedger or features were used with before."

  Layout: definitions and helper lemmas in `PfVerif.C16SessionAux`, property theorems in
  `PfVerif.C16Session`:
    history independence
        — after ANY history the answer of ANY operation is the answer of a hedger that was never called
          (no `prev_output`), holding the current parameters, on the current world; the current world is
          a fold of the (re)simulations alone, the current parameters a fold in which only `fit` acts
    exec_world, exec_train, history_independence, run_eq_runFresh, same_answer_of_same_params
        — (above)
    answer_indep_prev, answer_indep_opt, hedge_answer_stateless, hedgeAns_eq_stateless,
      pl_hedge_is_stateful_hedge
        — the buffer left by earlier calls never reaches an answer (both branches of `compute_hedge`);
          link to `C16.computeHedgeS_eq_computeHedge` (Props/C16.lean)
    trainStep_of_not_fit, trainAfter_of_no_fit, params_of_no_fit, trainAfter_filter_queries,
      worldAfter_filter_queries
        — parameters change in `fit` only; the world in (re)simulations only
    step_query_state, queries_removable, queries_insertable — queries are pure
    worldAfter_derivs, worldAfter_listed, worldAfter_eq_applyWrites, series_last_write_wins
        — last simulation wins, per underlier
    step_default_hedge, default_hedge_after_history — `hedge=None` is `[underliers of d]`, after any history
    listed_price_current, primary_price_current, listed_price_after_history, pathsOf_get
        — a listed instrument's price row is its pricer on the underlier's CURRENT row
    other_derivative_frame, other_derivative_frame_history
        — what an operation on one derivative can change for another one
    ex_history, ex_shared_underlier_changes_answer, ex_buffer_threaded and `example`s
        — non-vacuity: two derivatives sharing an underlier, a listed hedge, a fit in the middle
  All theorems but the three links to Props/C16 and the examples hold for every scalar type (they are
  stated for the generic model the driver runs at `Float`); the links and the examples are at `ℝ`.
-/
import PfVerif.Model.HedgerSession
import PfVerif.Props.C16
import PfVerif.Lemmas.C15Num

namespace PfVerif.C16SessionAux
open PfVerif PfVerif.HedgerSession PfVerif.FitNum

/-! ### the specification side: what a history does to the world and to the parameters -/

/-- parameters and the user's optimiser instance: what training changes -/
structure Train (α : Type) where
  θ : List α
  opt : OptState α

def trainOf {α : Type} (s : State α) : Train α := ⟨s.θ, s.opt⟩

/-- the draws of one epoch, in order -/
def epochDraws {α : Type} (e : Epoch α) : List (List (Series α)) := e.train :: e.val.getD []

/-- the (re)simulations an operation performs: (underlier, new series), in order.  Depends on the
world through the static list of derivatives only. -/
def writesOf {α : Type} (w : World α) : Op α → List (Nat × Series α)
  | .simulate u s => [(u, s)]
  | .computeLoss di _ draws =>
    match w.derivs[di]? with
    | none => []
    | some d => draws.flatMap (drawWrites d)
  | .price di _ draws =>
    match w.derivs[di]? with
    | none => []
    | some d => draws.flatMap (drawWrites d)
  | .fit di _ _ _ es =>
    match w.derivs[di]? with
    | none => []
    | some d => (es.flatMap epochDraws).flatMap (drawWrites d)
  | _ => []

def worldStep {α : Type} (w : World α) (op : Op α) : World α := applyWrites w (writesOf w op)

/-- the world after a history: a fold of the simulations alone (no parameter, no configuration) -/
def worldAfter {α : Type} : World α → List (Op α) → World α
  | w, [] => w
  | w, op :: ops => worldAfter (worldStep w op) ops

end PfVerif.C16SessionAux

namespace PfVerif.HedgerSession

def Op.isFit {α : Type} : Op α → Bool
  | .fit .. => true
  | _ => false

/-- `compute_hedge` / `compute_portfolio` / `compute_pl`: no simulation inside, no training -/
def Op.isQuery {α : Type} : Op α → Bool
  | .computeHedge .. => true
  | .computePortfolio .. => true
  | .computePl .. => true
  | _ => false

/-- the derivative an operation is about -/
def Op.deriv {α : Type} : Op α → Option Nat
  | .simulate .. => none
  | .computeHedge d _ => some d
  | .computePortfolio d _ => some d
  | .computePl d _ => some d
  | .computeLoss d _ _ => some d
  | .price d _ _ => some d
  | .fit d _ _ _ _ => some d

/-- the same call with another `hedge=` argument -/
def Op.setHedge {α : Type} (h : HedgeArg) : Op α → Op α
  | .simulate u s => .simulate u s
  | .computeHedge d _ => .computeHedge d h
  | .computePortfolio d _ => .computePortfolio d h
  | .computePl d _ => .computePl d h
  | .computeLoss d _ dr => .computeLoss d h dr
  | .price d _ dr => .price d h dr
  | .fit d _ o i es => .fit d h o i es

/-- `[underliers of the operation's derivative]` as an explicit `hedge=` list -/
def underliersArg {α : Type} (w : World α) (q : Op α) : HedgeArg :=
  match q.deriv with
  | none => .explicit []
  | some di =>
    match w.derivs[di]? with
    | none => .explicit []
    | some d => .explicit (d.uls.map InstrRef.primary)

end PfVerif.HedgerSession

namespace PfVerif.C16SessionAux
open PfVerif PfVerif.HedgerSession PfVerif.FitNum

section
set_option linter.unusedSectionVars false
variable {α : Type} [Add α] [Sub α] [Mul α] [Div α] [Neg α] [OfNat α 0] [OfNat α 1] [OfNat α 2]
  [OfNat α 3] [LE α] [DecidableLE α] [LT α] [DecidableLT α] [Max α] [Min α] [NatCast α] [Transc α]
  [TranscPow α]

/-- what the user sees when calling `q` in state `s` -/
def answer (cfg : Hedger α) (s : State α) (q : Op α) : Out α := (step cfg s q).2

/-- … and when calling it on a hedger that has never been called (no `prev_output` buffer), holding
parameters `t.θ` (and handed the optimiser instance in state `t.opt`), on world `w` -/
def answerFresh (cfg : Hedger α) (t : Train α) (w : World α) (q : Op α) : Out α :=
  answer cfg (fresh w t.θ t.opt) q

/-- what an operation does to the parameters (and to the optimiser instance): only `fit` acts -/
def trainStep (cfg : Hedger α) (w : World α) (t : Train α) : Op α → Train α
  | .fit di h o inst es =>
    match w.derivs[di]? with
    | none => t
    | some d =>
      match fitAns cfg t.θ t.opt inst w d (hedgeOf d h) o es with
      | .error _ => t
      | .ok out => ⟨out.final.θ, if inst then out.final.opt else t.opt⟩
  | _ => t

/-- the parameters after a history: a fold in which only `fit` acts; a `fit` reads the world of its
moment (the hedging instruments its draws do not replace) -/
def trainAfter (cfg : Hedger α) : World α → Train α → List (Op α) → Train α
  | _, t, [] => t
  | w, t, op :: ops => trainAfter cfg (worldStep w op) (trainStep cfg w t op) ops

/-- the answers a sequence of never-used hedgers gives: hedger `k` holds the parameters after the
first `k` operations and is called on the world after them -/
def runFresh (cfg : Hedger α) : World α → Train α → List (Op α) → List (Out α)
  | _, _, [] => []
  | w, t, op :: ops => answerFresh cfg t w op :: runFresh cfg (worldStep w op) (trainStep cfg w t op) ops

/-! ### `compute_hedge` never reads what the buffer held (any scalar type) -/

theorem computeHedgeS_fst_indep (st st' : List α) (g : List α → List α) (fs : List (Feature α))
    (m : Market α) (n h : Nat) :
    (computeHedgeS st g fs m n h).1 = (computeHedgeS st' g fs m n h).1 := by
  unfold computeHedgeS
  by_cases hsd : fs.any Feature.stateDependent = true
  · simp only [hsd, if_true]
    cases hedgeLoop g fs m (n - 1) 0 (List.replicate h 0) with
    | error e => rfl
    | ok outs => cases lastL outs <;> rfl
  · simp only [hsd, Bool.false_eq_true, if_false]
    cases inputsAll n fs m with
    | error e => rfl
    | ok x =>
      dsimp only
      cases dupLast (x.map g) <;> cases lastL (x.map g) <;> rfl

theorem hedgeRowsS_fst_indep (st st' : List α) (g : List α → List α) (fs : List (Feature α))
    (m : Market α) (his : List (HedgeInstr α)) :
    (hedgeRowsS st g fs m his).1 = (hedgeRowsS st' g fs m his).1 := by
  unfold hedgeRowsS
  cases his with
  | nil => rfl
  | cons h0 rest =>
    dsimp only
    split
    · exact computeHedgeS_fst_indep ..
    · rfl

theorem hedgeBatchS_fst_indep (g : List α → List α) (fs : List (Feature α)) (b : Batch α) :
    ∀ st st' : List (List α),
      (hedgeBatchS g fs st b).map (fun r => r.1) = (hedgeBatchS g fs st' b).map (fun r => r.1) := by
  induction b with
  | nil => intro _ _; rfl
  | cons p ps ih =>
    intro st st'
    simp only [hedgeBatchS, List.map_cons]
    rw [hedgeRowsS_fst_indep (st.headD []) (st'.headD []), ih st.tail st'.tail]

theorem hedgeAns_indep (cfg : Hedger α) (θ : List α) (pv pv' : List (List α)) (w : World α)
    (d : Deriv α) (hs : List InstrRef) : hedgeAns cfg θ pv w d hs = hedgeAns cfg θ pv' w d hs := by
  unfold hedgeAns
  cases pathsOf w d hs with
  | error e => rfl
  | ok b => simp only [hedgeBatchS_fst_indep _ _ b pv pv']

/-! ### one step, component by component -/

theorem applyWrites_append (w : World α) (a b : List (Nat × Series α)) :
    applyWrites w (a ++ b) = applyWrites (applyWrites w a) b := by
  induction a generalizing w with
  | nil => rfl
  | cons p ps ih => simp only [List.cons_append, applyWrites, ih]

theorem drawBatches_world (d : Deriv α) (hs : List InstrRef) (draws : List (List (Series α))) :
    ∀ w : World α, (drawBatches d hs w draws).1 = applyWrites w (draws.flatMap (drawWrites d)) := by
  induction draws with
  | nil => intro w; rfl
  | cons dr rest ih =>
    intro w
    simp only [drawBatches, List.flatMap_cons, applyWrites_append, ih]
    rfl

theorem resolveEpochs_world (d : Deriv α) (hs : List InstrRef) (es : List (Epoch α)) :
    ∀ w : World α, (resolveEpochs d hs w es).1
      = applyWrites w ((es.flatMap epochDraws).flatMap (drawWrites d)) := by
  induction es with
  | nil => intro w; rfl
  | cons e rest ih =>
    intro w
    simp only [resolveEpochs, List.flatMap_cons, List.flatMap_append, applyWrites_append, ih,
      drawBatches_world, epochDraws]
    rfl

theorem step_world (cfg : Hedger α) (s : State α) (op : Op α) :
    (step cfg s op).1.world = worldStep s.world op := by
  cases op with
  | simulate u sr => rfl
  | computeHedge di h =>
    simp only [step, worldStep, writesOf]; cases s.world.derivs[di]? <;> rfl
  | computePortfolio di h =>
    simp only [step, worldStep, writesOf]; cases s.world.derivs[di]? <;> rfl
  | computePl di h =>
    simp only [step, worldStep, writesOf]; cases s.world.derivs[di]? <;> rfl
  | computeLoss di h draws =>
    simp only [step, worldStep, writesOf]
    cases s.world.derivs[di]? with
    | none => rfl
    | some d => exact drawBatches_world ..
  | price di h draws =>
    simp only [step, worldStep, writesOf]
    cases s.world.derivs[di]? with
    | none => rfl
    | some d => exact drawBatches_world ..
  | fit di h o inst es =>
    simp only [step, worldStep, writesOf]
    cases s.world.derivs[di]? with
    | none => rfl
    | some d =>
      dsimp only
      cases fitAns cfg s.θ s.opt inst s.world d (hedgeOf d h) o es <;>
        exact resolveEpochs_world ..

theorem step_train (cfg : Hedger α) (s : State α) (op : Op α) :
    trainOf (step cfg s op).1 = trainStep cfg s.world (trainOf s) op := by
  cases op with
  | simulate u sr => rfl
  | computeHedge di h => simp only [step, trainStep]; cases s.world.derivs[di]? <;> rfl
  | computePortfolio di h => simp only [step, trainStep]; cases s.world.derivs[di]? <;> rfl
  | computePl di h => simp only [step, trainStep]; cases s.world.derivs[di]? <;> rfl
  | computeLoss di h draws => simp only [step, trainStep]; cases s.world.derivs[di]? <;> rfl
  | price di h draws => simp only [step, trainStep]; cases s.world.derivs[di]? <;> rfl
  | fit di h o inst es =>
    simp only [step, trainStep, trainOf]
    cases s.world.derivs[di]? with
    | none => rfl
    | some d =>
      dsimp only
      cases fitAns cfg s.θ s.opt inst s.world d (hedgeOf d h) o es <;> rfl

/-- the answer of `fit` is `fitAns`, whether it succeeds or not -/
theorem answer_fit (cfg : Hedger α) (s : State α) (di : Nat) (h : HedgeArg) (o : OptSpec α)
    (inst : Bool) (es : List (Epoch α)) (d : Deriv α) (hd : s.world.derivs[di]? = some d) :
    answer cfg s (.fit di h o inst es)
      = .fitted (fitAns cfg s.θ s.opt inst s.world d (hedgeOf d h) o es) := by
  simp only [answer, step, hd]
  cases fitAns cfg s.θ s.opt inst s.world d (hedgeOf d h) o es <;> rfl

theorem answer_indep_prev' (cfg : Hedger α) (s : State α) (pv : List (List α)) (q : Op α) :
    answer cfg s q = answer cfg { s with prev := pv } q := by
  cases q with
  | simulate u sr => rfl
  | computeHedge di h =>
    simp only [answer, step]
    cases s.world.derivs[di]? with
    | none => rfl
    | some d => simp only [hedgeAns_indep cfg s.θ s.prev pv]
  | computePortfolio di h => simp only [answer, step]; cases s.world.derivs[di]? <;> rfl
  | computePl di h => simp only [answer, step]; cases s.world.derivs[di]? <;> rfl
  | computeLoss di h draws => simp only [answer, step]; cases s.world.derivs[di]? <;> rfl
  | price di h draws => simp only [answer, step]; cases s.world.derivs[di]? <;> rfl
  | fit di h o inst es =>
    cases hd : s.world.derivs[di]? with
    | none => simp only [answer, step, hd]
    | some d =>
      rw [answer_fit cfg s di h o inst es d hd,
        answer_fit cfg { s with prev := pv } di h o inst es d hd]

end
end PfVerif.C16SessionAux

namespace PfVerif.HedgerSession

/-- does the call use the session's optimiser INSTANCE -/
def Op.usesInstance {α : Type} : Op α → Bool
  | .fit _ _ _ inst _ => inst
  | _ => false

/-- the `hedge=` argument of a call -/
def Op.hedge {α : Type} : Op α → HedgeArg
  | .simulate .. => .default
  | .computeHedge _ h => h
  | .computePortfolio _ h => h
  | .computePl _ h => h
  | .computeLoss _ h _ => h
  | .price _ h _ => h
  | .fit _ h _ _ _ => h

/-- the underliers a hedging call on derivative `d` with instruments `hs` reads: the derivative's
first underlier (features, payoff) and the underlier of every hedging instrument -/
def readsOf {α : Type} (w : World α) (d : Deriv α) (hs : List InstrRef) : List Nat :=
  d.uls.head?.toList ++ hs.filterMap (refUl w)

end PfVerif.HedgerSession

namespace PfVerif.C16SessionAux
open PfVerif PfVerif.HedgerSession PfVerif.FitNum

/-- the last series written to underlier `u` by a list of writes (`none`: never written) -/
def lastWrite {α : Type} (u : Nat) : List (Nat × Series α) → Option (Series α)
  | [] => none
  | p :: ps =>
    match lastWrite u ps with
    | some s => some s
    | none => if p.1 = u then some p.2 else none

section
set_option linter.unusedSectionVars false
variable {α : Type} [Add α] [Sub α] [Mul α] [Div α] [Neg α] [OfNat α 0] [OfNat α 1] [OfNat α 2]
  [OfNat α 3] [LE α] [DecidableLE α] [LT α] [DecidableLT α] [Max α] [Min α] [NatCast α] [Transc α]
  [TranscPow α]

/-! ### lists -/

theorem modifyAt_getElem? {β : Type} (f : β → β) (xs : List β) :
    ∀ k u : Nat, (modifyAt f xs k)[u]? = if u = k then (xs[u]?).map f else xs[u]? := by
  induction xs with
  | nil => intro k u; simp [modifyAt]
  | cons x xs ih =>
    intro k u
    cases k with
    | zero =>
      cases u with
      | zero => simp [modifyAt]
      | succ u => simp [modifyAt]
    | succ k =>
      cases u with
      | zero => simp [modifyAt]
      | succ u => simp [modifyAt, ih k u]

theorem collectE_congr {β γ : Type} {f g : β → Except Err γ} {xs : List β}
    (h : ∀ x ∈ xs, f x = g x) : collectE f xs = collectE g xs := by
  induction xs with
  | nil => rfl
  | cons x xs ih =>
    simp only [collectE, h x (List.mem_cons_self ..),
      ih (fun y hy => h y (List.mem_cons_of_mem _ hy))]

theorem collectE_ok_get {β γ : Type} {f : β → Except Err γ} :
    ∀ {xs : List β} {ys : List γ}, collectE f xs = .ok ys → ∀ (i : Nat) (y : γ), ys[i]? = some y →
      ∃ x, xs[i]? = some x ∧ f x = .ok y := by
  intro xs
  induction xs with
  | nil =>
    intro ys h i y hy
    simp only [collectE] at h
    injection h with h
    subst h
    simp at hy
  | cons x xs ih =>
    intro ys h i y hy
    simp only [collectE, bind, Except.bind] at h
    cases hx : f x with
    | error e => rw [hx] at h; exact absurd h (by simp)
    | ok y0 =>
      rw [hx] at h
      cases hr : collectE f xs with
      | error e => rw [hr] at h; exact absurd h (by simp)
      | ok ys0 =>
        rw [hr] at h
        simp only [pure, Except.pure] at h
        injection h with h
        subst h
        cases i with
        | zero =>
          simp only [List.getElem?_cons_zero, Option.some.injEq] at hy
          subst hy
          exact ⟨x, by simp, hx⟩
        | succ i =>
          simp only [List.getElem?_cons_succ] at hy
          obtain ⟨x', hx', hfx'⟩ := ih hr i y hy
          exact ⟨x', by simpa using hx', hfx'⟩

theorem withIdx_getElem? {β : Type} (xs : List β) :
    ∀ k i : Nat, (withIdx k xs)[i]? = (xs[i]?).map (fun x => (k + i, x)) := by
  induction xs with
  | nil => intro k i; simp [withIdx]
  | cons x xs ih =>
    intro k i
    cases i with
    | zero => simp [withIdx]
    | succ i =>
      simp only [withIdx, List.getElem?_cons_succ, ih (k + 1) i]
      rw [show k + 1 + i = k + (i + 1) by omega]

end
end PfVerif.C16SessionAux

namespace PfVerif.C16SessionAux
open PfVerif PfVerif.HedgerSession PfVerif.FitNum

section
set_option linter.unusedSectionVars false
variable {α : Type} [Add α] [Sub α] [Mul α] [Div α] [Neg α] [OfNat α 0] [OfNat α 1] [OfNat α 2]
  [OfNat α 3] [LE α] [DecidableLE α] [LT α] [DecidableLT α] [Max α] [Min α] [NatCast α] [Transc α]
  [TranscPow α]

/-! ### the world under writes -/

theorem applyWrites_derivs (ws : List (Nat × Series α)) :
    ∀ w : World α, (applyWrites w ws).derivs = w.derivs := by
  induction ws with
  | nil => intro w; rfl
  | cons p ps ih => intro w; simp only [applyWrites, ih]; rfl

theorem applyWrites_listed (ws : List (Nat × Series α)) :
    ∀ w : World α, (applyWrites w ws).listed = w.listed := by
  induction ws with
  | nil => intro w; rfl
  | cons p ps ih => intro w; simp only [applyWrites, ih]; rfl

theorem writesOf_congr {w1 w2 : World α} (h : w1.derivs = w2.derivs) (op : Op α) :
    writesOf w1 op = writesOf w2 op := by
  cases op <;> simp only [writesOf, h]

theorem worldStep_derivs (w : World α) (op : Op α) : (worldStep w op).derivs = w.derivs :=
  applyWrites_derivs _ w

theorem worldAfter_derivs' (ops : List (Op α)) : ∀ w : World α, (worldAfter w ops).derivs = w.derivs := by
  induction ops with
  | nil => intro w; rfl
  | cons op ops ih => intro w; simp only [worldAfter, ih, worldStep_derivs]

theorem setSeries_uls_get (w : World α) (u v : Nat) (sr : Series α) :
    (setSeries w u sr).uls[v]?
      = if v = u then (w.uls[v]?).map (fun U => { U with series := sr }) else w.uls[v]? :=
  modifyAt_getElem? _ _ u v

theorem applyWrites_uls_get (u : Nat) (ws : List (Nat × Series α)) :
    ∀ w : World α, (applyWrites w ws).uls[u]?
      = (w.uls[u]?).map (fun U => { U with series := (lastWrite u ws).getD U.series }) := by
  induction ws with
  | nil =>
    intro w
    simp only [applyWrites, lastWrite, Option.getD_none]
    cases w.uls[u]? <;> rfl
  | cons p ps ih =>
    intro w
    simp only [applyWrites, ih, setSeries_uls_get, lastWrite]
    cases hl : lastWrite u ps with
    | some s =>
      by_cases hu : u = p.1
      · simp only [hu, if_true, Option.getD_some]; cases w.uls[p.1]? <;> rfl
      · simp only [hu, if_false, Option.getD_some]
    | none =>
      by_cases hu : u = p.1
      · subst hu
        simp only [if_true, Option.getD_none, Option.getD_some]; cases w.uls[p.1]? <;> rfl
      · have hu' : ¬ p.1 = u := fun h => hu h.symm
        simp only [hu, hu', if_false, Option.getD_none]

/-! ### exec, component by component -/

theorem exec_world' (cfg : Hedger α) (ops : List (Op α)) :
    ∀ s : State α, (exec cfg s ops).world = worldAfter s.world ops := by
  induction ops with
  | nil => intro s; rfl
  | cons op ops ih => intro s; simp only [exec, worldAfter, ih, step_world]

theorem exec_train' (cfg : Hedger α) (ops : List (Op α)) :
    ∀ s : State α, trainOf (exec cfg s ops) = trainAfter cfg s.world (trainOf s) ops := by
  induction ops with
  | nil => intro s; rfl
  | cons op ops ih => intro s; simp only [exec, trainAfter, ih, step_world, step_train]

theorem trainStep_of_not_fit' (cfg : Hedger α) (w : World α) (t : Train α) {op : Op α}
    (h : op.isFit = false) : trainStep cfg w t op = t := by
  cases op <;> first | rfl | (simp [Op.isFit] at h)

theorem worldStep_of_query (w : World α) {op : Op α} (h : op.isQuery = true) :
    worldStep w op = w := by
  cases op <;> first | rfl | (simp [Op.isQuery] at h)

theorem isFit_of_isQuery {op : Op α} (h : op.isQuery = true) : op.isFit = false := by
  cases op <;> first | rfl | (simp [Op.isQuery] at h)

end
end PfVerif.C16SessionAux

namespace PfVerif.C16Session
open PfVerif PfVerif.HedgerSession PfVerif.FitNum PfVerif.C16SessionAux

section
set_option linter.unusedSectionVars false
variable {α : Type} [Add α] [Sub α] [Mul α] [Div α] [Neg α] [OfNat α 0] [OfNat α 1] [OfNat α 2]
  [OfNat α 3] [LE α] [DecidableLE α] [LT α] [DecidableLT α] [Max α] [Min α] [NatCast α] [Transc α]
  [TranscPow α]

/-! ## history independence -/

/-- **The world after a history is a fold of its (re)simulations alone**: no parameter, no
configuration, no answer of any call enters. -/
theorem exec_world (cfg : Hedger α) (s : State α) (ops : List (Op α)) :
    (exec cfg s ops).world = worldAfter s.world ops := exec_world' cfg ops s

/-- **The parameters (and the optimiser instance) after a history are a fold in which only `fit`
acts**, each `fit` on the world of its moment. -/
theorem exec_train (cfg : Hedger α) (s : State α) (ops : List (Op α)) :
    trainOf (exec cfg s ops) = trainAfter cfg s.world (trainOf s) ops := exec_train' cfg ops s

/-- **What the `prev_output` buffer holds never reaches an answer**: any operation gives the same
answer whatever the buffer contains — for every feature list (state-dependent: the buffer is
overwritten with zeros before the first step reads it; state-independent: it is never read), and for
the operations that call `compute_hedge` inside. -/
theorem answer_indep_prev (cfg : Hedger α) (s : State α) (pv : List (List α)) (q : Op α) :
    answer cfg s q = answer cfg { s with prev := pv } q := answer_indep_prev' cfg s pv q

/-- the state of the optimiser instance reaches an answer only through `fit(optimizer=<that
instance>)` -/
theorem answer_indep_opt (cfg : Hedger α) (s : State α) (o' : OptState α) {q : Op α}
    (hq : q.usesInstance = false) : answer cfg s q = answer cfg { s with opt := o' } q := by
  cases q with
  | fit di h o inst es =>
    simp only [Op.usesInstance] at hq
    subst hq
    cases hd : s.world.derivs[di]? with
    | none => simp only [answer, step, hd]
    | some d =>
      rw [answer_fit cfg s di h o false es d hd,
        answer_fit cfg { s with opt := o' } di h o false es d hd]
      simp only [fitAns, Bool.false_eq_true, if_false]
  | simulate u sr => rfl
  | computeHedge di h => simp only [answer, step]; cases s.world.derivs[di]? <;> rfl
  | computePortfolio di h => simp only [answer, step]; cases s.world.derivs[di]? <;> rfl
  | computePl di h => simp only [answer, step]; cases s.world.derivs[di]? <;> rfl
  | computeLoss di h draws => simp only [answer, step]; cases s.world.derivs[di]? <;> rfl
  | price di h draws => simp only [answer, step]; cases s.world.derivs[di]? <;> rfl

/-- **History independence.**  After ANY history of simulate / compute_hedge / compute_portfolio /
compute_pl / compute_loss / price / fit on any derivatives of the world with any `hedge=` arguments —
failing calls included — the answer of ANY operation equals the answer of a hedger that has never
been called (no `prev_output` buffer) and holds the current parameters, on the current world. -/
theorem history_independence (cfg : Hedger α) (s : State α) (ops : List (Op α)) (q : Op α) :
    answer cfg (exec cfg s ops) q
      = answerFresh cfg (trainAfter cfg s.world (trainOf s) ops) (worldAfter s.world ops) q := by
  rw [answer_indep_prev cfg (exec cfg s ops) [] q, ← exec_world cfg s ops, ← exec_train cfg s ops]
  rfl

/-- … for every operation of the history: what the user sees along a history is what a sequence of
never-used hedgers shows, hedger `k` holding the parameters after the first `k` operations -/
theorem run_eq_runFresh (cfg : Hedger α) (ops : List (Op α)) :
    ∀ s : State α, run cfg s ops = runFresh cfg s.world (trainOf s) ops := by
  induction ops with
  | nil => intro s; rfl
  | cons op ops ih =>
    intro s
    simp only [run, runFresh, ih, step_world, step_train]
    congr 1
    exact answer_indep_prev cfg s [] op

/-- two hedgers with different pasts (other derivatives, other path counts, other hedging
instruments) but the same parameters, optimiser state and world give the same answer -/
theorem same_answer_of_same_params (cfg : Hedger α) (s s' : State α) (ops ops' : List (Op α))
    (q : Op α)
    (hw : worldAfter s.world ops = worldAfter s'.world ops')
    (ht : trainAfter cfg s.world (trainOf s) ops = trainAfter cfg s'.world (trainOf s') ops') :
    answer cfg (exec cfg s ops) q = answer cfg (exec cfg s' ops') q := by
  rw [history_independence, history_independence, hw, ht]

/-! ## parameters change in `fit` only, the world in simulations only; queries are pure -/

theorem trainStep_of_not_fit (cfg : Hedger α) (w : World α) (t : Train α) {op : Op α}
    (h : op.isFit = false) : trainStep cfg w t op = t := trainStep_of_not_fit' cfg w t h

/-- a history without `fit` leaves the parameters and the optimiser instance alone -/
theorem trainAfter_of_no_fit (cfg : Hedger α) (ops : List (Op α)) :
    ∀ (w : World α) (t : Train α), (∀ op ∈ ops, op.isFit = false) → trainAfter cfg w t ops = t := by
  induction ops with
  | nil => intro _ _ _; rfl
  | cons op ops ih =>
    intro w t h
    simp only [trainAfter, trainStep_of_not_fit cfg w t (h op (List.mem_cons_self ..))]
    exact ih _ t (fun o ho => h o (List.mem_cons_of_mem _ ho))

theorem params_of_no_fit (cfg : Hedger α) (s : State α) (ops : List (Op α))
    (h : ∀ op ∈ ops, op.isFit = false) : (exec cfg s ops).θ = s.θ := by
  have := exec_train cfg s ops
  rw [trainAfter_of_no_fit cfg ops _ _ h] at this
  exact congrArg Train.θ this

/-- queries do not enter the world … -/
theorem worldAfter_filter_queries (ops : List (Op α)) :
    ∀ w : World α, worldAfter w ops = worldAfter w (ops.filter (fun o => !o.isQuery)) := by
  induction ops with
  | nil => intro w; rfl
  | cons op ops ih =>
    intro w
    by_cases hq : op.isQuery = true
    · simp only [List.filter_cons, hq, Bool.not_true, Bool.false_eq_true, if_false, worldAfter,
        worldStep_of_query w hq]
      exact ih w
    · have hq' : op.isQuery = false := by simpa using hq
      simp only [List.filter_cons, hq', Bool.not_false, if_true, worldAfter]
      exact ih _

/-- … nor the parameters -/
theorem trainAfter_filter_queries (cfg : Hedger α) (ops : List (Op α)) :
    ∀ (w : World α) (t : Train α),
      trainAfter cfg w t ops = trainAfter cfg w t (ops.filter (fun o => !o.isQuery)) := by
  induction ops with
  | nil => intro _ _; rfl
  | cons op ops ih =>
    intro w t
    by_cases hq : op.isQuery = true
    · simp only [List.filter_cons, hq, Bool.not_true, Bool.false_eq_true, if_false, trainAfter,
        worldStep_of_query w hq, trainStep_of_not_fit cfg w t (isFit_of_isQuery hq)]
      exact ih w t
    · have hq' : op.isQuery = false := by simpa using hq
      simp only [List.filter_cons, hq', Bool.not_false, if_true, trainAfter]
      exact ih _ _

/-- **A query changes nothing but the buffer**: world, parameters and optimiser instance after
`compute_hedge` / `compute_portfolio` / `compute_pl` are the ones before. -/
theorem step_query_state (cfg : Hedger α) (s : State α) {q : Op α} (hq : q.isQuery = true) :
    (step cfg s q).1 = { s with prev := (step cfg s q).1.prev } := by
  cases q with
  | computeHedge di h => simp only [step]; cases s.world.derivs[di]? <;> rfl
  | computePortfolio di h => simp only [step]; cases s.world.derivs[di]? <;> rfl
  | computePl di h => simp only [step]; cases s.world.derivs[di]? <;> rfl
  | _ => simp [Op.isQuery] at hq

/-- **Queries are pure**: removing every `compute_hedge` / `compute_portfolio` / `compute_pl` from a
history changes no later answer. -/
theorem queries_removable (cfg : Hedger α) (s : State α) (ops : List (Op α)) (q : Op α) :
    answer cfg (exec cfg s ops) q
      = answer cfg (exec cfg s (ops.filter (fun o => !o.isQuery))) q := by
  rw [history_independence, history_independence, ← worldAfter_filter_queries,
    ← trainAfter_filter_queries]

/-- … and so does inserting any block of queries anywhere -/
theorem queries_insertable (cfg : Hedger α) (s : State α) (before qs after : List (Op α))
    (hqs : ∀ o ∈ qs, o.isQuery = true) (q : Op α) :
    answer cfg (exec cfg s (before ++ qs ++ after)) q
      = answer cfg (exec cfg s (before ++ after)) q := by
  rw [queries_removable cfg s (before ++ qs ++ after), queries_removable cfg s (before ++ after)]
  have : qs.filter (fun o => !o.isQuery) = [] := by
    rw [List.filter_eq_nil_iff]
    intro o ho
    simp [hqs o ho]
  simp only [List.filter_append, this, List.append_nil]

end
end PfVerif.C16Session

namespace PfVerif.C16Session
open PfVerif PfVerif.HedgerSession PfVerif.FitNum PfVerif.C16SessionAux

section
set_option linter.unusedSectionVars false
variable {α : Type} [Add α] [Sub α] [Mul α] [Div α] [Neg α] [OfNat α 0] [OfNat α 1] [OfNat α 2]
  [OfNat α 3] [LE α] [DecidableLE α] [LT α] [DecidableLT α] [Max α] [Min α] [NatCast α] [Transc α]
  [TranscPow α]

/-! ## the current world: last simulation wins, per underlier -/

/-- derivatives and listed instruments are static: a history changes series only -/
theorem worldAfter_derivs (w : World α) (ops : List (Op α)) : (worldAfter w ops).derivs = w.derivs :=
  worldAfter_derivs' ops w

/-- the world after a history is the initial world with the history's writes applied in order -/
theorem worldAfter_eq_applyWrites (ops : List (Op α)) :
    ∀ w : World α, worldAfter w ops = applyWrites w (ops.flatMap (writesOf w)) := by
  induction ops with
  | nil => intro w; rfl
  | cons op ops ih =>
    intro w
    simp only [worldAfter, List.flatMap_cons, applyWrites_append, ih, worldStep]
    have : writesOf (applyWrites w (writesOf w op)) = writesOf w :=
      funext (fun o => writesOf_congr (applyWrites_derivs (writesOf w op) w) o)
    rw [this]

theorem worldAfter_listed (w : World α) (ops : List (Op α)) : (worldAfter w ops).listed = w.listed := by
  rw [worldAfter_eq_applyWrites, applyWrites_listed]

/-- **Last simulation wins, per underlier**: after a history, underlier `u` holds the series of the
last write to `u` — by `underlier.simulate()`, by `derivative.simulate()` of ANY derivative on it, or
by the last draw of a `compute_loss` / `price` / `fit` on any such derivative — and its initial series
if there was none; `dt` and cost rate never change. -/
theorem series_last_write_wins (w : World α) (ops : List (Op α)) (u : Nat) :
    (worldAfter w ops).uls[u]?
      = (w.uls[u]?).map (fun U =>
          { U with series := (lastWrite u (ops.flatMap (writesOf w))).getD U.series }) := by
  rw [worldAfter_eq_applyWrites, applyWrites_uls_get]

/-! ## the default `hedge` argument -/

/-- **`hedge=None` is `hedge=[underliers of the derivative]`**: same answer, same state afterwards,
for every operation in every state. -/
theorem step_default_hedge (cfg : Hedger α) (s : State α) (q : Op α) :
    step cfg s (q.setHedge .default) = step cfg s (q.setHedge (underliersArg s.world q)) := by
  cases q with
  | simulate u sr => rfl
  | computeHedge di h =>
    simp only [Op.setHedge, underliersArg, Op.deriv, step]; cases s.world.derivs[di]? <;> rfl
  | computePortfolio di h =>
    simp only [Op.setHedge, underliersArg, Op.deriv, step]; cases s.world.derivs[di]? <;> rfl
  | computePl di h =>
    simp only [Op.setHedge, underliersArg, Op.deriv, step]; cases s.world.derivs[di]? <;> rfl
  | computeLoss di h draws =>
    simp only [Op.setHedge, underliersArg, Op.deriv, step]; cases s.world.derivs[di]? <;> rfl
  | price di h draws =>
    simp only [Op.setHedge, underliersArg, Op.deriv, step]; cases s.world.derivs[di]? <;> rfl
  | fit di h o inst es =>
    simp only [Op.setHedge, underliersArg, Op.deriv, step]; cases s.world.derivs[di]? <;> rfl

/-- … in particular after any history — e.g. after a `fit` with another `hedge=` argument: nothing
of an earlier call's hedging instruments is remembered.  The explicit list is the one read off the
INITIAL world (the derivative's underliers are static). -/
theorem default_hedge_after_history (cfg : Hedger α) (s : State α) (ops : List (Op α)) (q : Op α) :
    step cfg (exec cfg s ops) (q.setHedge .default)
      = step cfg (exec cfg s ops) (q.setHedge (underliersArg s.world q)) := by
  rw [step_default_hedge]
  have : underliersArg (exec cfg s ops).world q = underliersArg s.world q := by
    simp only [underliersArg, exec_world, worldAfter_derivs]
  rw [this]

/-! ## listed instruments are priced on access -/

/-- **The price row of a listed hedging instrument is its pricer applied to the CURRENT spot row of
its underlier**, its cost rate its own. -/
theorem listed_price_current {w : World α} {i l : Nat} {hi : HedgeInstr α}
    (h : instrAt w i (.listed l) = .ok hi) :
    ∃ L U row, w.listed[l]? = some L ∧ w.uls[L.ul]? = some U ∧ U.series.spot[i]? = some row ∧
      hi.src.prices = row.map (fun s => s * L.a + L.b) ∧ hi.cost = L.cost := by
  unfold instrAt at h
  cases hL : w.listed[l]? with
  | none => simp [hL] at h
  | some L =>
    cases hU : w.uls[L.ul]? with
    | none => simp [hL, hU] at h
    | some U =>
      cases hr : U.series.spot[i]? with
      | none => simp [hL, hU, hr] at h
      | some row =>
        simp only [hL, hU, hr, Except.ok.injEq] at h
        subst h
        exact ⟨L, U, row, rfl, hU, hr, rfl, rfl⟩

/-- a primary hedging instrument is the current spot row of that underlier at its cost rate -/
theorem primary_price_current {w : World α} {i u : Nat} {hi : HedgeInstr α}
    (h : instrAt w i (.primary u) = .ok hi) :
    ∃ U row, w.uls[u]? = some U ∧ U.series.spot[i]? = some row ∧ hi.src.prices = row ∧
      hi.cost = U.cost := by
  unfold instrAt at h
  cases hU : w.uls[u]? with
  | none => simp [hU] at h
  | some U =>
    cases hr : U.series.spot[i]? with
    | none => simp [hU, hr] at h
    | some row =>
      simp only [hU, hr, Except.ok.injEq] at h
      subst h
      exact ⟨U, row, rfl, hr, rfl, rfl⟩

/-- **… after any history**: whatever re-simulated the underlier — its own `simulate()`, the
`simulate()` of any derivative on it, a draw inside `compute_loss` / `price` / `fit` — the listed
instrument's price row is the pricer on the row of the LAST series written to its underlier. -/
theorem listed_price_after_history {w : World α} {ops : List (Op α)} {i l : Nat} {hi : HedgeInstr α}
    (h : instrAt (worldAfter w ops) i (.listed l) = .ok hi) :
    ∃ L U row, w.listed[l]? = some L ∧ w.uls[L.ul]? = some U ∧
      ((lastWrite L.ul (ops.flatMap (writesOf w))).getD U.series).spot[i]? = some row ∧
      hi.src.prices = row.map (fun s => s * L.a + L.b) ∧ hi.cost = L.cost := by
  obtain ⟨L, U', row, hL, hU', hrow, hp, hc⟩ := listed_price_current h
  rw [worldAfter_listed] at hL
  rw [series_last_write_wins] at hU'
  cases hU : w.uls[L.ul]? with
  | none => simp [hU] at hU'
  | some U =>
    simp only [hU, Option.map_some, Option.some.injEq] at hU'
    subst hU'
    exact ⟨L, U, row, hL, hU, hrow, hp, hc⟩

/-- **What a hedging call works on**: path `i` of the batch is the market of the derivative's first
underlier's CURRENT row `i` and the hedging instruments read from the CURRENT world at path `i`. -/
theorem pathsOf_get {w : World α} {d : Deriv α} {hs : List InstrRef} {b : Batch α}
    (h : pathsOf w d hs = .ok b) (i : Nat) (p : Market α × List (HedgeInstr α))
    (hp : b[i]? = some p) :
    ∃ u0 U row, d.uls.head? = some u0 ∧ w.uls[u0]? = some U ∧ U.series.spot[i]? = some row ∧
      p.1 = marketAt U d.payoff.strike i row ∧ collectE (instrAt w i) hs = .ok p.2 := by
  unfold pathsOf at h
  cases hu : d.uls with
  | nil => simp [hu] at h
  | cons u0 rest =>
    simp only [hu] at h
    cases hU : w.uls[u0]? with
    | none => simp [hU] at h
    | some U =>
      simp only [hU] at h
      split at h
      · obtain ⟨x, hx, hfx⟩ := collectE_ok_get h i p hp
        rw [withIdx_getElem?] at hx
        cases hr : U.series.spot[i]? with
        | none => simp [hr] at hx
        | some row =>
          simp only [hr, Option.map_some, Nat.zero_add, Option.some.injEq] at hx
          subst hx
          dsimp only at hfx
          cases hc : collectE (instrAt w i) hs with
          | error e => simp [hc] at hfx
          | ok his =>
            simp only [hc, Except.ok.injEq] at hfx
            subst hfx
            exact ⟨u0, U, row, rfl, hU, hr, rfl, rfl⟩
      · simp at h

end
end PfVerif.C16Session

namespace PfVerif.C16SessionAux
open PfVerif PfVerif.HedgerSession PfVerif.FitNum

section
set_option linter.unusedSectionVars false
variable {α : Type} [Add α] [Sub α] [Mul α] [Div α] [Neg α] [OfNat α 0] [OfNat α 1] [OfNat α 2]
  [OfNat α 3] [LE α] [DecidableLE α] [LT α] [DecidableLT α] [Max α] [Min α] [NatCast α] [Transc α]
  [TranscPow α]

/-! ### a write to an underlier that a call does not read -/

theorem all_congr' {β : Type} {p q : β → Bool} {xs : List β} (h : ∀ x ∈ xs, p x = q x) :
    xs.all p = xs.all q := by
  induction xs with
  | nil => rfl
  | cons x xs ih =>
    simp only [List.all_cons, h x (List.mem_cons_self ..),
      ih (fun y hy => h y (List.mem_cons_of_mem _ hy))]

theorem readsOf_congr {w1 w2 : World α} (h : w1.listed = w2.listed) (d : Deriv α)
    (hs : List InstrRef) : readsOf w1 d hs = readsOf w2 d hs := by
  have : refUl w1 = refUl w2 := by
    funext r
    cases r <;> simp only [refUl, h]
  simp only [readsOf, this]

theorem mem_readsOf_head {w : World α} {d : Deriv α} {hs : List InstrRef} {u0 : Nat}
    {rest : List Nat} (h : d.uls = u0 :: rest) : u0 ∈ readsOf w d hs := by
  simp [readsOf, h]

theorem mem_readsOf_ref {w : World α} {d : Deriv α} {hs : List InstrRef} {r : InstrRef} {v : Nat}
    (hr : r ∈ hs) (hv : refUl w r = some v) : v ∈ readsOf w d hs := by
  simp only [readsOf, List.mem_append, List.mem_filterMap]
  exact Or.inr ⟨r, hr, hv⟩

theorem uls_get_setSeries_ne (w : World α) {u v : Nat} (sr : Series α) (h : v ≠ u) :
    (setSeries w u sr).uls[v]? = w.uls[v]? := by
  rw [setSeries_uls_get, if_neg h]

theorem refPaths_setSeries (w : World α) (u : Nat) (sr : Series α) (r : InstrRef)
    (h : ∀ v, refUl w r = some v → v ≠ u) : refPaths (setSeries w u sr) r = refPaths w r := by
  have hr : refUl (setSeries w u sr) r = refUl w r := by cases r <;> rfl
  unfold refPaths
  rw [hr]
  cases hv : refUl w r with
  | none => rfl
  | some v => simp only [uls_get_setSeries_ne w sr (h v hv)]

theorem instrAt_setSeries (w : World α) (u : Nat) (sr : Series α) (i : Nat) (r : InstrRef)
    (h : ∀ v, refUl w r = some v → v ≠ u) : instrAt (setSeries w u sr) i r = instrAt w i r := by
  cases r with
  | primary v =>
    simp only [instrAt, uls_get_setSeries_ne w sr (h v rfl)]
  | listed l =>
    have hl : (setSeries w u sr).listed = w.listed := rfl
    simp only [instrAt, hl]
    cases hL : w.listed[l]? with
    | none => rfl
    | some L =>
      have : L.ul ≠ u := h L.ul (by simp [refUl, hL])
      simp only [uls_get_setSeries_ne w sr this]

theorem pathsOf_setSeries (w : World α) (u : Nat) (sr : Series α) (d : Deriv α) (hs : List InstrRef)
    (h : u ∉ readsOf w d hs) : pathsOf (setSeries w u sr) d hs = pathsOf w d hs := by
  have href : ∀ r ∈ hs, ∀ v, refUl w r = some v → v ≠ u := by
    intro r hr v hv hvu
    exact h (hvu ▸ mem_readsOf_ref hr hv)
  unfold pathsOf
  cases hu : d.uls with
  | nil => rfl
  | cons u0 rest =>
    have hu0 : u0 ≠ u := fun e => h (e ▸ mem_readsOf_head hu)
    simp only [uls_get_setSeries_ne w sr hu0]
    cases w.uls[u0]? with
    | none => rfl
    | some U =>
      dsimp only
      rw [all_congr' (q := fun r => refPaths w r == some U.series.spot.length)
        (fun r hr => by simp only [refPaths_setSeries w u sr r (href r hr)])]
      split
      · apply collectE_congr
        intro ir _
        rw [collectE_congr (g := instrAt w ir.1)
          (fun r hr => instrAt_setSeries w u sr ir.1 r (href r hr))]
      · rfl

theorem pathsOf_applyWrites (d : Deriv α) (hs : List InstrRef) (ws : List (Nat × Series α)) :
    ∀ w : World α, (∀ p ∈ ws, p.1 ∉ readsOf w d hs) →
      pathsOf (applyWrites w ws) d hs = pathsOf w d hs := by
  induction ws with
  | nil => intro w _; rfl
  | cons p ps ih =>
    intro w h
    simp only [applyWrites]
    rw [ih (setSeries w p.1 p.2) (fun q hq => by
      rw [readsOf_congr (w1 := setSeries w p.1 p.2) (w2 := w) rfl]
      exact h q (List.mem_cons_of_mem _ hq))]
    exact pathsOf_setSeries w p.1 p.2 d hs (h p (List.mem_cons_self ..))

/-- the answer of a query is a function of the parameters and of the batch it reads -/
theorem query_answer_congr (cfg : Hedger α) (s1 s2 : State α) {q : Op α} (hq : q.isQuery = true)
    (hθ : s1.θ = s2.θ) (hd : s1.world.derivs = s2.world.derivs)
    (hp : ∀ di d, q.deriv = some di → s2.world.derivs[di]? = some d →
      pathsOf s1.world d (hedgeOf d q.hedge) = pathsOf s2.world d (hedgeOf d q.hedge)) :
    answer cfg s1 q = answer cfg s2 q := by
  cases q with
  | computeHedge di h =>
    simp only [answer, step, hd]
    cases hdd : s2.world.derivs[di]? with
    | none => rfl
    | some d =>
      have := hp di d rfl hdd
      simp only [Op.hedge] at this
      simp only [hedgeAns_indep cfg s1.θ s1.prev s2.prev]
      simp only [hedgeAns, this, hθ]
  | computePortfolio di h =>
    simp only [answer, step, hd]
    cases hdd : s2.world.derivs[di]? with
    | none => rfl
    | some d =>
      have := hp di d rfl hdd
      simp only [Op.hedge] at this
      simp only [portfolioAns, this, hθ]
  | computePl di h =>
    simp only [answer, step, hd]
    cases hdd : s2.world.derivs[di]? with
    | none => rfl
    | some d =>
      have := hp di d rfl hdd
      simp only [Op.hedge] at this
      simp only [plAns, this, hθ]
  | _ => simp [Op.isQuery] at hq

end
end PfVerif.C16SessionAux

namespace PfVerif.C16Session
open PfVerif PfVerif.HedgerSession PfVerif.FitNum PfVerif.C16SessionAux

section
set_option linter.unusedSectionVars false
variable {α : Type} [Add α] [Sub α] [Mul α] [Div α] [Neg α] [OfNat α 0] [OfNat α 1] [OfNat α 2]
  [OfNat α 3] [LE α] [DecidableLE α] [LT α] [DecidableLT α] [Max α] [Min α] [NatCast α] [Transc α]
  [TranscPow α]

/-! ## what an operation on one derivative can change for another -/

/-- **Frame.**  An operation that is not a `fit` and writes no underlier that the query reads — the
first underlier of the query's derivative, the underliers of its hedging instruments (a listed
instrument reads ITS underlier) — leaves the query's answer unchanged: whatever derivative the
operation was about, whatever it computed, however many paths it drew.  The two exceptions are real:
re-simulating a shared underlier and `fit` do change answers (`ex_shared_underlier_changes_answer`,
`ex_fit_changes_answer` below). -/
theorem other_derivative_frame (cfg : Hedger α) (s : State α) (op q : Op α)
    (hq : q.isQuery = true) (hfit : op.isFit = false)
    (h : ∀ di d, q.deriv = some di → s.world.derivs[di]? = some d →
      ∀ p ∈ writesOf s.world op, p.1 ∉ readsOf s.world d (hedgeOf d q.hedge)) :
    answer cfg (step cfg s op).1 q = answer cfg s q := by
  apply query_answer_congr cfg _ _ hq
  · have := step_train cfg s op
    rw [trainStep_of_not_fit cfg _ _ hfit] at this
    exact congrArg Train.θ this
  · rw [step_world]; exact worldStep_derivs ..
  · intro di d hdi hd
    rw [step_world]
    exact pathsOf_applyWrites d _ _ s.world (h di d hdi hd)

/-- … along a whole history of such operations -/
theorem other_derivative_frame_history (cfg : Hedger α) (q : Op α) (hq : q.isQuery = true)
    (ops : List (Op α)) : ∀ s : State α, (∀ op ∈ ops, op.isFit = false) →
    (∀ di d, q.deriv = some di → s.world.derivs[di]? = some d →
      ∀ op ∈ ops, ∀ p ∈ writesOf s.world op, p.1 ∉ readsOf s.world d (hedgeOf d q.hedge)) →
    answer cfg (exec cfg s ops) q = answer cfg s q := by
  induction ops with
  | nil => intro s _ _; rfl
  | cons op ops ih =>
    intro s hfit h
    have hw : (step cfg s op).1.world.derivs = s.world.derivs := by
      rw [step_world]; exact worldStep_derivs ..
    have hl : (step cfg s op).1.world.listed = s.world.listed := by
      rw [step_world]; exact applyWrites_listed _ _
    simp only [exec]
    rw [ih (step cfg s op).1 (fun o ho => hfit o (List.mem_cons_of_mem _ ho))]
    · exact other_derivative_frame cfg s op q hq (hfit op (List.mem_cons_self ..))
        (fun di d hdi hd p hp => h di d hdi hd op (List.mem_cons_self ..) p hp)
    · intro di d hdi hd o ho p hp
      rw [hw] at hd
      rw [writesOf_congr hw] at hp
      rw [readsOf_congr hl]
      exact h di d hdi hd o (List.mem_cons_of_mem _ ho) p hp

end
end PfVerif.C16Session

/-! ## link to the single-call theorems of Props/C16 (at `ℝ`) -/

namespace PfVerif.C16SessionAux
open PfVerif PfVerif.HedgerSession PfVerif.FitNum

/-- `compute_hedge` on one path WITHOUT a buffer: the stateless `computeHedge` of Model/Hedger.lean
behind the same two checks -/
noncomputable def hedgeRows (g : List ℝ → List ℝ) (fs : List (Feature ℝ)) (m : Market ℝ)
    (his : List (HedgeInstr ℝ)) : Except Err (List (List ℝ)) :=
  match his with
  | [] => .error .runtimeError
  | h0 :: rest =>
    if rest.all (fun h' => h'.src.prices.length == h0.src.prices.length) then
      computeHedge g fs m h0.src.prices.length his.length
    else .error .valueError

end PfVerif.C16SessionAux

namespace PfVerif.C16Session
open PfVerif PfVerif.HedgerSession PfVerif.FitNum PfVerif.C16SessionAux

/-- **The session's `compute_hedge` is the stateless `computeHedge`**, whatever the buffer holds: by
`C16.computeHedgeS_eq_computeHedge` (Props/C16.lean) on every path. -/
theorem hedge_answer_stateless (st : List ℝ) (g : List ℝ → List ℝ) (fs : List (Feature ℝ))
    (m : Market ℝ) (his : List (HedgeInstr ℝ)) :
    (hedgeRowsS st g fs m his).1 = hedgeRows g fs m his := by
  unfold hedgeRowsS hedgeRows
  cases his with
  | nil => rfl
  | cons h0 rest =>
    dsimp only
    split
    · exact C16.computeHedgeS_eq_computeHedge ..
    · rfl

/-- … on the whole batch, from any buffer: the answer of `compute_hedge(derivative, hedge)` in a
session is `computeHedge` on every path of the current world -/
theorem hedgeAns_eq_stateless (cfg : Hedger ℝ) (θ : List ℝ) (pv : List (List ℝ)) (w : World ℝ)
    (d : Deriv ℝ) (hs : List InstrRef) :
    hedgeAns cfg θ pv w d hs
      = match pathsOf w d hs with
        | .error e => .error e
        | .ok b => allOk (b.map (fun p => hedgeRows (cfg.module θ) cfg.features p.1 p.2)) := by
  unfold hedgeAns
  cases pathsOf w d hs with
  | error e => rfl
  | ok b =>
    dsimp only
    congr 1
    induction b generalizing pv with
    | nil => rfl
    | cons p ps ih =>
      simp only [hedgeBatchS, List.map_cons, hedge_answer_stateless, ih pv.tail]

/-- **The hedge inside `compute_pl` / `compute_portfolio` / `compute_loss` / `price` / `fit` is the
`compute_hedge` of the session, from any buffer**: the units `hedgerSpotUnit` (Model/HedgerPL.lean)
hands to `pl` are the transposed rows of `hedgeRowsS`, whatever state `st` an earlier call left. -/
theorem pl_hedge_is_stateful_hedge (st : List ℝ) (g : List ℝ → List ℝ) (fs : List (Feature ℝ))
    (m : Market ℝ) (his : List (HedgeInstr ℝ)) (prices : List (List ℝ))
    (h : stackPrices his = .ok prices) :
    hedgerSpotUnit g fs m his
      = match (hedgeRowsS st g fs m his).1 with
        | .error e => .error e
        | .ok rows =>
          match transposeHT his.length rows with
          | .error e => .error e
          | .ok units => .ok (prices, units) := by
  rw [hedge_answer_stateless]
  unfold stackPrices at h
  cases his with
  | nil => simp at h
  | cons h0 rest =>
    dsimp only at h
    split at h
    · rename_i hall
      injection h with h
      subst h
      simp only [hedgerSpotUnit, stackPrices, hall, if_true, hedgeRows, nSteps, List.map_cons, bind,
        Except.bind, pure, Except.pure]
      cases computeHedge g fs m h0.src.prices.length (h0 :: rest).length with
      | error e => rfl
      | ok rows =>
        dsimp only
        cases transposeHT (h0 :: rest).length rows <;> rfl
    · simp at h

end PfVerif.C16Session

/-! ## non-vacuity: one hedger, two derivatives sharing an underlier, a listed hedge, a fit in the middle -/

namespace PfVerif.C16SessionAux
open PfVerif PfVerif.HedgerSession PfVerif.FitNum PfVerif.C15NumAux

/-- the hedger of `C15NumAux.exSpec`: one affine layer `δ = w·S + b` on the underlier's spot,
mean-square criterion (no `cash`) -/
noncomputable def exCfg : Hedger ℝ :=
  ⟨[(1, 1)], [.underlierSpot false], .mse, fun _ => .error .typeError⟩

/-- one path -/
noncomputable def exSeries (s : List ℝ) : Series ℝ := ⟨[s], [], []⟩

/-- a European call of strike 1 and a European put of strike 4, both on underlier 0 -/
noncomputable def exD0 : Deriv ℝ := ⟨[0], ⟨.european, true, 1⟩, []⟩
noncomputable def exD1 : Deriv ℝ := ⟨[0], ⟨.european, false, 4⟩, []⟩

/-- one underlier (no costs, `dt = 1`) holding the path `s`, the two derivatives, and a listed
instrument on the same underlier priced `2·S + 1` -/
noncomputable def exWorld (s : List ℝ) : World ℝ :=
  ⟨[⟨exSeries s, 1, 0⟩], [exD0, exD1], [⟨0, 2, 1, 0⟩]⟩

theorem exCfg_spec : exCfg.spec exD0 = exSpec := rfl

theorem ex_resim (s s' : List ℝ) : resim (exWorld s) exD0 [exSeries s'] = exWorld s' := by
  simp [resim, drawWrites, applyWrites, setSeries, modifyAt, exWorld, exD0]

theorem ex_paths0 (s : List ℝ) :
    pathsOf (exWorld s) exD0 [.primary 0] = .ok [(exMarket s, [⟨.primary s, 0⟩])] := by
  simp [pathsOf, exWorld, exD0, exSeries, refPaths, refUl, withIdx, collectE, instrAt, marketAt,
    rowAt, exMarket, bind, Except.bind, pure, Except.pure]

theorem ex_paths1 (s : List ℝ) :
    pathsOf (exWorld s) exD1 [.listed 0]
      = .ok [({ exMarket s with strike := 4 }, [⟨.listed 2 1 s, 0⟩])] := by
  simp [pathsOf, exWorld, exD1, exSeries, refPaths, refUl, withIdx, collectE, instrAt, marketAt,
    rowAt, exMarket, bind, Except.bind, pure, Except.pure]

/-- hedging the put with the listed instrument on the path `(1, 3, 2)`: prices `(3, 7, 5)`, positions
`(w+b, 3w+b)`, payoff `2` -/
theorem ex_pl_132 (w b : ℝ) :
    plAns exCfg [w, b] (exWorld [1, 3, 2]) exD1 [.listed 0] = .ok [-2 * w + 2 * b - 2] := by
  unfold plAns
  rw [ex_paths1]
  simp [toHedgePaths, batchPL, collectE, Hedger.module, Hedger.features, exCfg, exD1, hedgerPL,
    hedgerSpotUnit, stackPrices, nSteps, PriceSrc.prices, computeHedge, inputsAll, Feature.getAll,
    BaseFeature.getAll, dupLast, logIf, lastL, transposeHT, colsFrom, colAt, idx, derivPayoff,
    PayoffSpec.eval, europeanPayoff, reluS, applyClauses, exMarket, layersOf, rowsOf, mlpL, linearL,
    dotL, Feature.stateDependent, BaseFeature.stateDependent, plPath, gains1, cost1, first1,
    zipWith3L, sumL, mulL, initL, diffL, tailL, bind, Except.bind, pure, Except.pure]
  norm_num
  ring

/-- … and on the path `(1, 2, 4)`: prices `(3, 5, 9)`, positions `(w+b, 2w+b)`, payoff `0` -/
theorem ex_pl_124 (w b : ℝ) :
    plAns exCfg [w, b] (exWorld [1, 2, 4]) exD1 [.listed 0] = .ok [10 * w + 6 * b] := by
  unfold plAns
  rw [ex_paths1]
  simp [toHedgePaths, batchPL, collectE, Hedger.module, Hedger.features, exCfg, exD1, hedgerPL,
    hedgerSpotUnit, stackPrices, nSteps, PriceSrc.prices, computeHedge, inputsAll, Feature.getAll,
    BaseFeature.getAll, dupLast, logIf, lastL, transposeHT, colsFrom, colAt, idx, derivPayoff,
    PayoffSpec.eval, europeanPayoff, reluS, applyClauses, exMarket, layersOf, rowsOf, mlpL, linearL,
    dotL, Feature.stateDependent, BaseFeature.stateDependent, plPath, gains1, cost1, first1,
    zipWith3L, sumL, mulL, initL, diffL, tailL, bind, Except.bind, pure, Except.pure]
  norm_num
  ring

/-- the draws of the fit: the two epochs of `C15Num.example_two_epochs` (training path `(1,2,4)` then
`(1,3,2)`, validation with `n_times = 1` then `2`) -/
noncomputable def exEpochs : List (Epoch ℝ) :=
  [⟨[exSeries [1, 2, 4]], some [[exSeries [1, 3, 2]]]⟩,
   ⟨[exSeries [1, 3, 2]], some [[exSeries [1, 2, 4]], [exSeries [1, 3, 2]]]⟩]

theorem ex_resolve (s0 : List ℝ) :
    resolveEpochs exD0 [.primary 0] (exWorld s0) exEpochs
      = (exWorld [1, 3, 2], [.ok ⟨exB1, some [exB2]⟩, .ok ⟨exB2, some [exB1, exB2]⟩]) := by
  simp [resolveEpochs, exEpochs, drawBatches, ex_resim, ex_paths0, allOk, collectE, exB1, exB2,
    bind, Except.bind, pure, Except.pure]

/-- the fit in the middle of the history: default `hedge`, optimiser class (plain SGD, `lr = 1/100`),
from `(w, b) = (1, 0)` to `(476/625, −51/625)` -/
theorem ex_fit (s0 : List ℝ) (opt : OptState ℝ) :
    ∃ out, fitAns exCfg [1, 0] opt false (exWorld s0) exD0 (hedgeOf exD0 .default)
        (.sgd (1 / 100) 0 0) exEpochs = .ok out ∧ out.final.θ = [476 / 625, -51 / 625] := by
  obtain ⟨out, hrun, _, _, _, _, hθ, _, _⟩ := C15Num.example_two_epochs
  refine ⟨out, ?_, hθ⟩
  have hh : hedgeOf exD0 .default = [.primary 0] := rfl
  simp only [fitAns, hh, ex_resolve, allOk, collectE, bind, Except.bind, pure, Except.pure,
    Bool.false_eq_true, if_false, exCfg_spec]
  exact hrun

/-- the session: a hedger never called, parameters `(1, 0)`, the underlier holding `(1, 3, 2)` -/
noncomputable def exS0 : State ℝ := fresh (exWorld [1, 3, 2]) [1, 0] (OptState.init 2)

/-- the history: P&L of the PUT hedged with the LISTED instrument; FIT on the CALL with the default
hedge (it re-simulates the shared underlier six times); hedge of the call -/
noncomputable def exOps : List (Op ℝ) :=
  [.computePl 1 (.explicit [.listed 0]), .fit 0 .default (.sgd (1 / 100) 0 0) false exEpochs,
   .computeHedge 0 .default]

/-- the later query: P&L of the put hedged with the listed instrument, again -/
noncomputable def exQ : Op ℝ := .computePl 1 (.explicit [.listed 0])

theorem ex_derivs0 (s : List ℝ) : (exWorld s).derivs[0]? = some exD0 := rfl
theorem ex_derivs1 (s : List ℝ) : (exWorld s).derivs[1]? = some exD1 := rfl

theorem ex_worldStep_fit (s0 : List ℝ) :
    worldStep (exWorld s0) (.fit 0 .default (.sgd (1 / 100) 0 0) false exEpochs)
      = exWorld [1, 3, 2] := by
  have h : (step exCfg (fresh (exWorld s0) [1, 0] (OptState.init 2))
      (.fit 0 .default (.sgd (1 / 100) 0 0) false exEpochs)).1.world
      = worldStep (exWorld s0) (.fit 0 .default (.sgd (1 / 100) 0 0) false exEpochs) :=
    step_world ..
  rw [← h]
  obtain ⟨out, hfit, _⟩ := ex_fit s0 (OptState.init 2)
  have hh : hedgeOf exD0 .default = [.primary 0] := rfl
  simp only [step, fresh, ex_derivs0, hfit]
  rw [hh, ex_resolve]

theorem ex_worldStep_q (s : List ℝ) (h : HedgeArg) :
    worldStep (exWorld s) (.computePl 1 h) = exWorld s := worldStep_of_query _ rfl

theorem ex_worldAfter : worldAfter exS0.world exOps = exWorld [1, 3, 2] := by
  simp only [exOps, exS0, fresh, worldAfter]
  rw [ex_worldStep_q, ex_worldStep_fit]
  exact worldStep_of_query _ rfl

theorem ex_trainAfter :
    (trainAfter exCfg exS0.world (trainOf exS0) exOps).θ = [476 / 625, -51 / 625] := by
  obtain ⟨out, hfit, hθ⟩ := ex_fit [1, 3, 2] (OptState.init 2)
  simp only [exOps, exS0, fresh, trainOf, trainAfter]
  rw [ex_worldStep_q, trainStep_of_not_fit' exCfg (exWorld [1, 3, 2]) _ (op := .computePl 1 _) rfl,
    trainStep_of_not_fit' exCfg _ _ (op := .computeHedge 0 .default) rfl]
  simp only [trainStep, ex_derivs0, hfit]
  exact hθ

end PfVerif.C16SessionAux

namespace PfVerif.C16SessionAux
open PfVerif PfVerif.HedgerSession PfVerif.FitNum PfVerif.C15NumAux

/-- a hedger with the recurrent feature: `δ_t = w₁·δ_{t−1} + w₂·S_t + b` -/
noncomputable def exCfgS : Hedger ℝ :=
  ⟨[(1, 2)], [.prevHedge, .underlierSpot false], .mse, fun _ => .error .typeError⟩

/-- its `compute_hedge` of the call with the underlier on `(1, 3, 2)` at `(w₁, w₂, b) = (1, 1, 0)`, from
ANY buffer: positions `1, 1 + 3 = 4`, and the buffer is left holding `4` -/
theorem ex_stateful_call (pv : List (List ℝ)) :
    hedgeBatchS (exCfgS.module [1, 1, 0]) exCfgS.features pv [(exMarket [1, 3, 2], [⟨.primary [1, 3, 2], 0⟩])]
      = [(.ok [[1], [4], [4]], [4])] := by
  simp [hedgeBatchS, hedgeRowsS, computeHedgeS, Hedger.module, Hedger.features, exCfgS, exMarket,
    PriceSrc.prices, Feature.stateDependent, BaseFeature.stateDependent, hedgeLoop, inputsAt,
    Feature.getAt, BaseFeature.getAt, idx, logIf, lastL, layersOf, rowsOf, mlpL, linearL, dotL, sumL,
    bind, Except.bind, pure, Except.pure]
  norm_num

/-- two underliers; the call on underlier 0, a put on underlier 1, the listed instrument on 0 -/
noncomputable def exWorld2 (s s' : List ℝ) : World ℝ :=
  ⟨[⟨exSeries s, 1, 0⟩, ⟨exSeries s', 1, 0⟩], [exD0, ⟨[1], ⟨.european, false, 4⟩, []⟩], [⟨0, 2, 1, 0⟩]⟩

end PfVerif.C16SessionAux

namespace PfVerif.C16Session
open PfVerif PfVerif.HedgerSession PfVerif.FitNum PfVerif.C16SessionAux PfVerif.C15NumAux

/-- **A concrete history** on one hedger (`δ = w·S + b`, start `(1, 0)`) with two derivatives sharing
the underlier and a listed instrument `2·S + 1` on it: P&L of the put hedged with the listed
instrument (`−4`); `fit` on the call with the default hedge (two epochs of SGD, six re-simulations of
the shared underlier, the last one on `(1, 3, 2)` again); `compute_hedge` of the call.  Afterwards the
world holds the series it started with, the parameters are `(476/625, −51/625)`, the buffer is not
empty, and the P&L of the put hedged with the listed instrument is `−2304/625`: the value
`history_independence` computes from the current parameters and the current world alone — and not
the `−4` of before the fit (`fit` is one of the two ways to change another derivative's answers). -/
theorem ex_history :
    worldAfter exS0.world exOps = exS0.world ∧
    (trainAfter exCfg exS0.world (trainOf exS0) exOps).θ = [476 / 625, -51 / 625] ∧
    answer exCfg exS0 exQ = .vec (.ok [-4]) ∧
    answer exCfg (exec exCfg exS0 exOps) exQ = .vec (.ok [-2304 / 625]) ∧
    (exec exCfg exS0 exOps).prev ≠ [] := by
  have hh1 : hedgeOf exD1 (.explicit [.listed 0]) = [.listed 0] := rfl
  refine ⟨ex_worldAfter, ex_trainAfter, ?_, ?_, ?_⟩
  · simp only [answer, step, exQ, exS0, fresh, ex_derivs1, hh1, ex_pl_132]
    norm_num
  · rw [history_independence, ex_worldAfter]
    simp only [answerFresh, answer, step, exQ, fresh, ex_derivs1, hh1, ex_trainAfter, ex_pl_132]
    norm_num
  · have hw2 : (exec exCfg exS0 [.computePl 1 (.explicit [.listed 0]),
        .fit 0 .default (.sgd (1 / 100) 0 0) false exEpochs]).world = exWorld [1, 3, 2] := by
      rw [exec_world]
      simp only [worldAfter, exS0, fresh]
      rw [ex_worldStep_q, ex_worldStep_fit]
    have he : exec exCfg exS0 exOps = (step exCfg (exec exCfg exS0
        [.computePl 1 (.explicit [.listed 0]), .fit 0 .default (.sgd (1 / 100) 0 0) false exEpochs])
        (.computeHedge 0 .default)).1 := rfl
    rw [he]
    generalize exec exCfg exS0 [.computePl 1 (.explicit [.listed 0]),
        .fit 0 .default (.sgd (1 / 100) 0 0) false exEpochs] = s2 at hw2
    have hh0 : hedgeOf exD0 .default = [.primary 0] := rfl
    simp only [step, hw2, ex_derivs0, prevAfter, hh0, ex_paths0, hedgeBatchS]
    simp

/-- **Re-simulating a shared underlier through ANOTHER derivative changes the answer** (the other way):
`compute_loss` on the call draws the path `(1, 2, 4)`; it is not a `fit`, the parameters stay
`(1, 0)`, but the put hedged with the listed instrument now gives `10` instead of `−4` — the
hypothesis of `other_derivative_frame` fails exactly because underlier 0 is written and read. -/
theorem ex_shared_underlier_changes_answer :
    let op : Op ℝ := .computeLoss 0 .default [[exSeries [1, 2, 4]]]
    op.isFit = false ∧ (step exCfg exS0 op).1.θ = exS0.θ ∧
    (0, exSeries [1, 2, 4]) ∈ writesOf exS0.world op ∧
    0 ∈ readsOf exS0.world exD1 (hedgeOf exD1 exQ.hedge) ∧
    answer exCfg exS0 exQ = .vec (.ok [-4]) ∧
    answer exCfg (step exCfg exS0 op).1 exQ = .vec (.ok [10]) := by
  have hh1 : hedgeOf exD1 (.explicit [.listed 0]) = [.listed 0] := rfl
  refine ⟨rfl, ?_, ?_, ?_, ex_history.2.2.1, ?_⟩
  · simp only [step, exS0, fresh, ex_derivs0]
  · simp [writesOf, exS0, fresh, ex_derivs0, drawWrites, exD0]
  · simp [readsOf, exD1, exQ, Op.hedge, hedgeOf, refUl, exS0, fresh, exWorld]
  · simp only [step, exS0, fresh, ex_derivs0, drawBatches, ex_resim, answer, exQ, ex_derivs1, hh1,
      ex_pl_124]
    norm_num

/-- the hypotheses of `other_derivative_frame` are satisfiable with something happening: with two
underliers, a `compute_loss` on the put (underlier 1, re-simulated) is not a `fit` and writes nothing
that the call hedged with the listed instrument (both on underlier 0) reads -/
example :
    let w := exWorld2 [1, 3, 2] [4, 5]
    let op : Op ℝ := .computeLoss 1 .default [[exSeries [5, 6]]]
    let q : Op ℝ := .computePl 0 (.explicit [.listed 0])
    q.isQuery = true ∧ op.isFit = false ∧ writesOf w op = [(1, exSeries [5, 6])] ∧
    (∀ di d, q.deriv = some di → w.derivs[di]? = some d →
      ∀ p ∈ writesOf w op, p.1 ∉ readsOf w d (hedgeOf d q.hedge)) := by
  refine ⟨rfl, rfl, by simp [writesOf, exWorld2, drawWrites], ?_⟩
  intro di d hdi hd p hp
  simp only [Op.deriv, Option.some.injEq] at hdi
  subst hdi
  simp only [exWorld2, List.getElem?_cons_zero, Option.some.injEq] at hd
  subst hd
  simp [writesOf, exWorld2, drawWrites] at hp
  subst hp
  simp [readsOf, exD0, Op.hedge, hedgeOf, refUl, exWorld2]

/-- **The buffer is really threaded, really non-zero, and really ignored** (state-dependent feature
list): with `δ_t = δ_{t−1} + S_t` on the path `(1, 3, 2)`, a first `compute_hedge` answers
`(1, 4, 4)` and leaves `4` in the buffer; the second call — started from that buffer — answers
`(1, 4, 4)` again, not `(5, 8, 8)`. -/
theorem ex_buffer_threaded :
    let s : State ℝ := fresh (exWorld [1, 3, 2]) [1, 1, 0] (OptState.init 3)
    let s1 := (step exCfgS s (.computeHedge 0 .default)).1
    s.prev = [] ∧ s1.prev = [[4]] ∧
    answer exCfgS s (.computeHedge 0 .default) = .hedge (.ok [[[1], [4], [4]]]) ∧
    answer exCfgS s1 (.computeHedge 0 .default) = .hedge (.ok [[[1], [4], [4]]]) := by
  have hh0 : hedgeOf exD0 .default = [.primary 0] := rfl
  have h1 : ∀ pv, hedgeAns exCfgS [1, 1, 0] pv (exWorld [1, 3, 2]) exD0 [.primary 0]
      = .ok [[[1], [4], [4]]] := by
    intro pv
    simp only [hedgeAns, ex_paths0, ex_stateful_call]
    rfl
  refine ⟨rfl, ?_, ?_, ?_⟩
  · simp only [step, fresh, ex_derivs0, hh0, prevAfter, ex_paths0, ex_stateful_call]
    rfl
  · simp only [answer, step, fresh, ex_derivs0, hh0, h1]
  · simp only [answer, step, fresh, ex_derivs0, hh0, h1]

/-! ### the hypotheses of the implications above are satisfiable -/

/-- `listed_price_current` / `listed_price_after_history`: the listed instrument of the example world is
read successfully, as `2·S + 1` on the current row -/
example (s : List ℝ) : instrAt (exWorld s) 0 (.listed 0) = .ok ⟨.listed 2 1 s, 0⟩ := by
  simp [instrAt, exWorld, exSeries]

/-- `pathsOf_get`: `ex_paths1` is a successful batch with one path -/
example : ∃ b, pathsOf (exWorld [1, 3, 2]) exD1 [.listed 0] = .ok b ∧ b.length = 1 :=
  ⟨_, ex_paths1 _, rfl⟩

/-- `pl_hedge_is_stateful_hedge`: the price rows of a listed instrument stack -/
example : stackPrices [(⟨.listed 2 1 [1, 3, 2], 0⟩ : HedgeInstr ℝ)] = .ok [[3, 7, 5]] := by
  simp [stackPrices, PriceSrc.prices]
  norm_num

/-- `same_answer_of_same_params`: two DIFFERENT pasts (the history above with and without its two
queries) with the same current world and parameters -/
example :
    exOps.length = 3 ∧ (exOps.filter (fun o => !o.isQuery)).length = 1 ∧
    worldAfter exS0.world exOps = worldAfter exS0.world (exOps.filter (fun o => !o.isQuery)) ∧
    trainAfter exCfg exS0.world (trainOf exS0) exOps
      = trainAfter exCfg exS0.world (trainOf exS0) (exOps.filter (fun o => !o.isQuery)) :=
  ⟨rfl, by simp [exOps, Op.isQuery], worldAfter_filter_queries _ _, trainAfter_filter_queries _ _ _ _⟩

/-- `trainAfter_of_no_fit` / `params_of_no_fit` / `queries_insertable`: histories without `fit` that do
something (a re-simulation inside `compute_loss`, queries) -/
example :
    (∀ op ∈ ([.computeLoss 0 .default [[exSeries [1, 2, 4]]], exQ] : List (Op ℝ)), op.isFit = false) ∧
    (∀ o ∈ ([exQ, .computeHedge 0 .default] : List (Op ℝ)), o.isQuery = true) := by
  simp [exQ, Op.isFit, Op.isQuery]

end PfVerif.C16Session
