/-
  C07 (lookback part) — the quoted price of the fixed-strike lookback call (`bsLookbackPrice`,
  Model/BS.lean) is the expected payoff under the law of the running maximum of the risk-neutral
  log-price, in layer-cake form.

  Zero rates, spot `S = K eˢ`, running maximum so far `M₀ = K eᵐ` (`s ≤ m`), maturity `t > 0`,
  volatility `v > 0`.  The payoff is `(max(M₀, max_{u ≤ t} S_u) − K)⁺ = g(Y)` with
  `Y = max_{u ≤ t} log(S_u / K) ≥ s` and `g(y) = (K e^{max(m, y)} − K)⁺` (`payoff`), which is
  constant `= (K eᵐ − K)⁺` for `y ≤ L := max m 0` and equals `K eʸ − K` beyond (`payoff_of_le`,
  `payoff_of_ge`).

  TRUSTED (inherited from `Lemmas/C07Barrier`, not proved): the reflection-principle law of
  `(W_t, max W)` with the Cameron–Martin weight, which gives for `y ≥ s`
      P(Y ≥ y) = hitProb (−v/2) t ((y − s)/v).
  DEFINITIONAL: the expectation is written in layer-cake form
      E[g(Y)] = (K eᵐ − K)⁺ + ∫_{y > L} K eʸ · P(Y ≥ y) dy          (`lookbackExpectation`).
  The Tonelli step identifying this with the double integral of `g(s + v·max)` against the
  weighted joint density is NOT proved; it is recorded as the non-asserted proposition
  `layerCake_statement`.

  Proved (no further assumptions):
    * `futureMax_tail`        hitProb (−v/2) t ((y − s)/v) = Φ(d₂(s−y)) + e^{s−y} Φ(d₁(s−y)),  y ≥ s
    * `integrand_integrableOn` the layer-cake integrand is integrable on `(L, ∞)` for every `L ≥ s`
    * `layer_integral`        ∫_{y > L} K eʸ P(Y ≥ y) dy = price1(s, L) − (K e^L − K),  L ≥ s
      (FTC in the running-maximum variable: `∂price1/∂ℓ − K e^ℓ = −K e^ℓ · one-touch`, and the time
      value `price1 − (K e^ℓ − K) → 0` as `ℓ → ∞` by the Mills-ratio bound)
    * `lookback_eq_expectation` (and `lookback_eq_expectation_explicit`)
    * `lookbackExpectation_gt_locked_in`, `lookbackExpectation_ge_locked_in`,
      `lookbackExpectation_ge_european`
-/
import PfVerif.Lemmas.C07Barrier
import PfVerif.Lemmas.C07PDE
import PfVerif.Props.C09

namespace PfVerif.C07Lookback
open PfVerif PfVerif.BSCalc PfVerif.C08Aux PfVerif.C07PDEAux PfVerif.BSIneq Real MeasureTheory Set
  Filter Topology

/-- layer-cake form of the expected lookback payoff -/
noncomputable def lookbackExpectation (s m t v K : ℝ) : ℝ :=
  max (K * Real.exp m - K) 0
    + ∫ y in Ioi (max m 0), K * Real.exp y * C07Barrier.hitProb (-v / 2) t ((y - s) / v)

/-- closed form of the one-touch probability in the variables `(a, w)` -/
noncomputable def hitCF (a w : ℝ) : ℝ := Phi (d2 a w) + Real.exp a * Phi (d1 a w)

theorem hitCF_pos (a w : ℝ) : 0 < hitCF a w := by
  unfold hitCF
  have h1 := (Phi_mem_Ioo (d2 a w)).1
  have h2 := (Phi_mem_Ioo (d1 a w)).1
  positivity

theorem futureMax_tail {s y t v : ℝ} (hy : s ≤ y) (ht : 0 < t) (hv : 0 < v) :
    C07Barrier.hitProb (-v / 2) t ((y - s) / v) = hitCF (s - y) (v * Real.sqrt t) := by
  have h := C07Barrier.hitProb_eq_closed_form (s := s - y) (by linarith) ht hv
  have e : (y - s) / v = -(s - y) / v := by ring
  rw [e, h]
  rfl

/-- time value of the lookback above the locked-in amount, as a function of the log running max -/
noncomputable def excess (s t v K ℓ : ℝ) : ℝ := price1 s ℓ t v K - (K * Real.exp ℓ - K)

theorem excess_eq (s t v K ℓ : ℝ) :
    excess s t v K ℓ
      = K * Real.exp s * (lb (s - ℓ) (v * Real.sqrt t)
          - Real.exp (-(s - ℓ)) * Phi (d2 (s - ℓ) (v * Real.sqrt t))) := by
  have e : Real.exp ℓ = Real.exp s * Real.exp (-(s - ℓ)) := by
    rw [← Real.exp_add]
    congr 1
    ring
  unfold excess price1
  rw [e]
  ring

theorem neg_excess_hasDerivAt {t v : ℝ} (s K ℓ : ℝ) (ht : 0 < t) (hv : 0 < v) :
    HasDerivAt (fun ℓ' => -excess s t v K ℓ')
      (K * Real.exp ℓ * hitCF (s - ℓ) (v * Real.sqrt t)) ℓ := by
  have h1 := price1_hasDerivAt_max (K := K) s ℓ ht hv
  have hE : HasDerivAt (fun ℓ' : ℝ => K * Real.exp ℓ' - K) (K * Real.exp ℓ) ℓ :=
    ((Real.hasDerivAt_exp ℓ).const_mul K).sub_const K
  unfold excess
  refine (h1.fun_sub hE).fun_neg.congr_deriv ?_
  unfold hitCF
  ring

/-! ### limits at `−∞` -/

theorem phi_tendsto_atBot : Tendsto phi atBot (𝓝 0) := by
  have h0 : Tendsto (fun x : ℝ => |x| ^ 2) atBot atTop :=
    (tendsto_pow_atTop (α := ℝ) (by norm_num : (2 : ℕ) ≠ 0)).comp tendsto_abs_atBot_atTop
  have h1 : Tendsto (fun x : ℝ => -(|x| ^ 2) / 2) atBot atBot :=
    Tendsto.atBot_div_const (by norm_num : (0 : ℝ) < 2) (tendsto_neg_atTop_atBot.comp h0)
  have h2 : Tendsto (fun x : ℝ => Real.exp (-(|x| ^ 2) / 2) / Real.sqrt (2 * π)) atBot
      (𝓝 (0 / Real.sqrt (2 * π))) := (Real.tendsto_exp_atBot.comp h1).div_const _
  rw [zero_div] at h2
  refine h2.congr ?_
  intro x
  rw [sq_abs]
  rfl

theorem mul_Phi_tendsto_atBot : Tendsto (fun x : ℝ => x * Phi x) atBot (𝓝 0) := by
  have hlo : Tendsto (fun x : ℝ => -phi x) atBot (𝓝 0) := by
    have h := phi_tendsto_atBot.neg
    rwa [neg_zero] at h
  refine tendsto_of_tendsto_of_tendsto_of_le_of_le' hlo tendsto_const_nhds ?_ ?_
  · filter_upwards with x
    have := mills_nonneg x
    linarith
  · filter_upwards [eventually_le_atBot (0 : ℝ)] with x hx
    exact mul_nonpos_of_nonpos_of_nonneg hx (Phi_nonneg x)

theorem lb_tendsto_atBot {w : ℝ} (hw : 0 < w) : Tendsto (fun a : ℝ => lb a w) atBot (𝓝 0) := by
  have hd := tendsto_d1_atBot_s hw
  have h1 := Phi_tendsto_atBot.comp hd
  have h2 := (mul_Phi_tendsto_atBot.comp hd).const_mul w
  have h3 := (phi_tendsto_atBot.comp hd).const_mul w
  have h := (h1.add h2).add h3
  simp only [mul_zero, add_zero] at h
  refine h.congr ?_
  intro a
  simp only [Function.comp, lb]
  have e : a + w * w / 2 = w * d1 a w := by
    unfold d1
    field_simp
  rw [e]
  ring

theorem Phi_le_phi {x : ℝ} (hx : x ≤ -1) : Phi x ≤ phi x := by
  have h1 := mills_pos x
  have h2 := Phi_nonneg x
  nlinarith

theorem exp_neg_mul_Phi_d2_tendsto {w : ℝ} (hw : 0 < w) :
    Tendsto (fun a : ℝ => Real.exp (-a) * Phi (d2 a w)) atBot (𝓝 0) := by
  have hup : Tendsto (fun a : ℝ => phi (d1 a w)) atBot (𝓝 0) :=
    phi_tendsto_atBot.comp (tendsto_d1_atBot_s hw)
  refine tendsto_of_tendsto_of_tendsto_of_le_of_le' tendsto_const_nhds hup ?_ ?_
  · filter_upwards with a
    exact mul_nonneg (Real.exp_pos _).le (Phi_nonneg _)
  · filter_upwards [(tendsto_d2_atBot_s hw).eventually (eventually_le_atBot (-1))] with a ha
    have h1 := Phi_le_phi ha
    have h2 := exp_mul_phi_d1 a w hw.ne'
    have h3 : Real.exp (-a) * Real.exp a = 1 := by rw [← Real.exp_add]; simp
    calc Real.exp (-a) * Phi (d2 a w) ≤ Real.exp (-a) * phi (d2 a w) :=
          mul_le_mul_of_nonneg_left h1 (Real.exp_pos _).le
      _ = phi (d1 a w) := by rw [← h2, ← mul_assoc, h3, one_mul]

theorem neg_excess_tendsto {t v : ℝ} (s K : ℝ) (ht : 0 < t) (hv : 0 < v) :
    Tendsto (fun ℓ => -excess s t v K ℓ) atTop (𝓝 0) := by
  have hw := w_pos ht hv
  have hsl : Tendsto (fun ℓ : ℝ => s - ℓ) atTop atBot := by
    have h := tendsto_atBot_add_const_left atTop s tendsto_neg_atTop_atBot
    refine h.congr ?_
    intro ℓ
    ring
  have h1 := (lb_tendsto_atBot hw).comp hsl
  have h2 := (exp_neg_mul_Phi_d2_tendsto hw).comp hsl
  have h := ((h1.sub h2).const_mul (K * Real.exp s)).neg
  simp only [sub_zero, mul_zero, neg_zero] at h
  refine h.congr ?_
  intro ℓ
  rw [excess_eq]
  rfl

/-! ### integrability and the value of the layer-cake integral -/

theorem closed_integrand_integrableOn {t v K : ℝ} (s L : ℝ) (hK : 0 < K) (ht : 0 < t)
    (hv : 0 < v) :
    IntegrableOn (fun y => K * Real.exp y * hitCF (s - y) (v * Real.sqrt t)) (Ioi L) :=
  integrableOn_Ioi_deriv_of_nonneg' (fun ℓ _ => neg_excess_hasDerivAt s K ℓ ht hv)
    (fun ℓ _ => (mul_pos (mul_pos hK (Real.exp_pos ℓ)) (hitCF_pos _ _)).le)
    (neg_excess_tendsto s K ht hv)

theorem closed_integral {t v K : ℝ} (s L : ℝ) (hK : 0 < K) (ht : 0 < t) (hv : 0 < v) :
    ∫ y in Ioi L, K * Real.exp y * hitCF (s - y) (v * Real.sqrt t) = excess s t v K L := by
  rw [integral_Ioi_of_hasDerivAt_of_nonneg' (fun ℓ _ => neg_excess_hasDerivAt s K ℓ ht hv)
    (fun ℓ _ => (mul_pos (mul_pos hK (Real.exp_pos ℓ)) (hitCF_pos _ _)).le)
    (neg_excess_tendsto s K ht hv)]
  ring

/-- integrability of the layer-cake integrand `K eʸ P(Y ≥ y)` beyond any level `L ≥ s` -/
theorem integrand_integrableOn {s L t v K : ℝ} (hK : 0 < K) (ht : 0 < t) (hv : 0 < v)
    (hsL : s ≤ L) :
    IntegrableOn (fun y => K * Real.exp y * C07Barrier.hitProb (-v / 2) t ((y - s) / v))
      (Ioi L) :=
  (closed_integrand_integrableOn s L hK ht hv).congr_fun
    (fun y hy => by rw [futureMax_tail (le_trans hsL (le_of_lt hy)) ht hv]) measurableSet_Ioi

theorem layer_integral {s L t v K : ℝ} (hK : 0 < K) (ht : 0 < t) (hv : 0 < v) (hsL : s ≤ L) :
    ∫ y in Ioi L, K * Real.exp y * C07Barrier.hitProb (-v / 2) t ((y - s) / v)
      = price1 s L t v K - (K * Real.exp L - K) := by
  rw [setIntegral_congr_fun measurableSet_Ioi
    (fun y hy => by rw [futureMax_tail (le_trans hsL (le_of_lt hy)) ht hv]),
    closed_integral s L hK ht hv]
  rfl

/-- **The quoted lookback-call price is the expected payoff** (layer-cake form, under the trusted
reflection-principle law of the running maximum of `C07Barrier`). -/
theorem lookback_eq_expectation {s m t v K : ℝ} (hK : 0 < K) (ht : 0 < t) (hv : 0 < v)
    (hsm : s ≤ m) :
    val (bsLookbackPrice s m t v K) = lookbackExpectation s m t v K := by
  have hsL : s ≤ max m 0 := le_trans hsm (le_max_left _ _)
  rw [lookback_val hK ht hv, lookbackExpectation, layer_integral hK ht hv hsL, locked_in_eq hK]
  ring

/-- the same statement with `lookbackExpectation` unfolded -/
theorem lookback_eq_expectation_explicit {s m t v K : ℝ} (hK : 0 < K) (ht : 0 < t) (hv : 0 < v)
    (hsm : s ≤ m) :
    val (bsLookbackPrice s m t v K)
      = max (K * Real.exp m - K) 0
        + ∫ y in Ioi (max m 0), K * Real.exp y * C07Barrier.hitProb (-v / 2) t ((y - s) / v) :=
  lookback_eq_expectation hK ht hv hsm

/-! ### the payoff as a function of the future log-maximum, and the unproved Tonelli step -/

/-- payoff `(max(M₀, K eʸ) − K)⁺` as a function of the future maximum `y` of the log-moneyness -/
noncomputable def payoff (m K y : ℝ) : ℝ := max (K * Real.exp (max m y) - K) 0

theorem payoff_of_le {m K y : ℝ} (hK : 0 < K) (hy : y ≤ max m 0) :
    payoff m K y = max (K * Real.exp m - K) 0 := by
  unfold payoff
  rcases le_total y m with h | h
  · rw [max_eq_left h]
  · rw [max_eq_right h]
    rcases le_total m 0 with hm | hm
    · rw [max_eq_right hm] at hy
      have h1 : Real.exp y ≤ 1 := Real.exp_le_one_iff.2 hy
      have h2 : Real.exp m ≤ 1 := Real.exp_le_one_iff.2 hm
      rw [max_eq_right (by nlinarith), max_eq_right (by nlinarith)]
    · rw [max_eq_left hm] at hy
      rw [le_antisymm hy h]

theorem payoff_of_ge {m K y : ℝ} (hK : 0 < K) (hy : max m 0 ≤ y) :
    payoff m K y = K * Real.exp y - K := by
  unfold payoff
  have h1 : 1 ≤ Real.exp y := Real.one_le_exp (le_trans (le_max_right _ _) hy)
  rw [max_eq_right (le_trans (le_max_left _ _) hy), max_eq_left (by nlinarith)]

/-- NOT PROVED, NOT ASSERTED (a `def … : Prop`, never used): the Tonelli / layer-cake step — the
integral of the payoff at the future maximum `s + v·x` against the weighted joint density of
`C07Barrier` (the law of `(W_t, max_{u ≤ t} W_u)` under the drift `−v/2`) equals
`lookbackExpectation`. -/
def layerCake_statement : Prop :=
  ∀ s m t v K : ℝ, 0 < K → 0 < t → 0 < v → s ≤ m →
    ∫ w, ∫ x, payoff m K (s + v * x)
        * (C07Barrier.jointDensity t w x * C07Barrier.girsanov (-v / 2) t w)
      = lookbackExpectation s m t v K

/-! ### sanity corollaries -/

theorem neg_excess_strictMono {t v K : ℝ} (s : ℝ) (hK : 0 < K) (ht : 0 < t) (hv : 0 < v) :
    StrictMono fun ℓ => -excess s t v K ℓ :=
  strictMono_of_deriv_pos fun ℓ => by
    rw [(neg_excess_hasDerivAt s K ℓ ht hv).deriv]
    exact mul_pos (mul_pos hK (Real.exp_pos ℓ)) (hitCF_pos _ _)

/-- the time value above the locked-in amount is strictly positive -/
theorem excess_pos {t v K : ℝ} (s L : ℝ) (hK : 0 < K) (ht : 0 < t) (hv : 0 < v) :
    0 < excess s t v K L := by
  have hm := neg_excess_strictMono s hK ht hv
  have h1 : -excess s t v K L < -excess s t v K (L + 1) := hm (by linarith)
  have h2 : -excess s t v K (L + 1) ≤ 0 :=
    hm.monotone.ge_of_tendsto (neg_excess_tendsto s K ht hv) (L + 1)
  linarith

/-- the expectation is the locked-in payoff plus a strictly positive time value -/
theorem lookbackExpectation_gt_locked_in {s m t v K : ℝ} (hK : 0 < K) (ht : 0 < t) (hv : 0 < v)
    (hsm : s ≤ m) :
    max (K * Real.exp m - K) 0 < lookbackExpectation s m t v K := by
  have hsL : s ≤ max m 0 := le_trans hsm (le_max_left _ _)
  have h := excess_pos s (max m 0) hK ht hv
  rw [lookbackExpectation, layer_integral hK ht hv hsL]
  unfold excess at h
  linarith

theorem lookbackExpectation_ge_locked_in {s m t v K : ℝ} (hK : 0 < K) (ht : 0 < t) (hv : 0 < v)
    (hsm : s ≤ m) :
    max (K * Real.exp m - K) 0 ≤ lookbackExpectation s m t v K :=
  (lookbackExpectation_gt_locked_in hK ht hv hsm).le

/-- the lookback expectation dominates the European call expectation `E[(S_T − K)⁺]` -/
theorem lookbackExpectation_ge_european {s m t v K : ℝ} (hK : 0 < K) (ht : 0 < t) (hv : 0 < v)
    (hsm : s ≤ m) :
    ∫ z, max (K * Real.exp (s + v * Real.sqrt t * z - (v * Real.sqrt t) ^ 2 / 2) - K) 0 * phi z
      ≤ lookbackExpectation s m t v K := by
  have h := C09.lookback_ge_european hK ht hv s m
  rw [C08Aux.european_price_ok ht hv, lookback_eq_expectation hK ht hv hsm] at h
  simp only [val_ok, if_true] at h
  rw [C07.european_call_eq_expectation s K t v hK ht hv, C07.european_price_ok s t v K true ht hv]
  simp only [C07Aux.val_ok, if_true]
  exact h

/-! ### non-vacuity -/

example :
    bsLookbackPrice (-(1 / 10) : ℝ) (1 / 10) 1 (1 / 5) 1
      = .ok (price1 (-(1 / 10)) (1 / 10) 1 (1 / 5) 1) ∧
    val (bsLookbackPrice (-(1 / 10) : ℝ) (1 / 10) 1 (1 / 5) 1)
      = lookbackExpectation (-(1 / 10)) (1 / 10) 1 (1 / 5) 1 ∧
    max ((1 : ℝ) * Real.exp (1 / 10) - 1) 0 < lookbackExpectation (-(1 / 10)) (1 / 10) 1 (1 / 5) 1 := by
  have hK : (0 : ℝ) < 1 := one_pos
  have hv : (0 : ℝ) < 1 / 5 := by norm_num
  have hsm : (-(1 / 10) : ℝ) ≤ 1 / 10 := by norm_num
  refine ⟨?_, lookback_eq_expectation hK one_pos hv hsm,
    lookbackExpectation_gt_locked_in hK one_pos hv hsm⟩
  rw [lookback_price_ok one_pos hv, if_neg]
  rw [branch_iff hK]
  norm_num


end PfVerif.C07Lookback
